(* Proofs/SimRel.v -- three whole-renderer theorems obtained from ONE generic lock-step simulation
   of two runs of render_node.  No axioms (every main theorem is followed by Print Assumptions).

   METHOD (sections 0-3).  Compose.v section 1 generalised in three directions:
     (1) the outcome relation `rs md` has three modes:  MLe (run 1 Ok => run 2 Ok and related; no
         claim when run 1 fails),  MStrict (the same outcome kind, the same Panic site),
         MNtn (run 1 is never TooNarrow; related when Ok);
     (2) the two runs render two TREES related node by node (`trel TI SOK`: the same shape,
         attributes and styles, every style satisfying SOK, text leaves related by TI);
     (3) the operations of the sub-renderer respect a relation SR (record `GOps`, ~40 fields).
   `gnode_all : trel TI SOK n1 n2 -> gnode n1 n2` (induction with RenderWidth.rnode_ind' on the
   left tree, inversion of trel) and `g_render_tree` (render_tree, footnote list included).
   The size estimates of related trees agree (`est_rel`) and are never TooNarrow (`est_ntn`).

   PART A -- C11, third clause (section 4).   SR = RA: run 2 has the options of run 1 with
   allow_width_overflow set; its sub-renderers are `ovs` of those of run 1 (the same fields,
   options with the flag, pending wrapped block with the flag).  Mode MLe, the same tree.
     c11_overflow_noop_render :
       render_tree d mw o1 width tree = Ok s1 ->
       render_tree d mw (with_overflow o1) width tree = Ok (ovs s1) /\
       (forall ls, sub_into_lines s1 = Ok ls -> sub_into_lines (ovs s1) = Ok ls)
     (c11_overflow_noop_render2: the same for o1, o2 with same_but_overflow o1 o2),
     c11_lines_from_read, c11_string_from_read :
       <route> inl dr c doc w = Ok r -> <route> inl dr (set_overflow c) doc w = Ok r.
   No hypothesis at all (not even o_allow_overflow o1 = false: with the flag already set nothing
   changes).  Wrapped-block level from OptionRel (`wb_add_text_sim`, `wb_into_lines_sim`).
   REMARK: the unconditional equation `sub_into_lines s2 = sub_into_lines s1` is FALSE:
   render_tree leaves the last word pending, and its flush can be TooNarrow without the flag and
   Ok with it (`exa_pending_flush`); the routes flush, so their statement is the plain one.

   PART A -- C11, fourth clause (section 6).  SR = SRN (diagonal: the same sub-renderer, whose
   options and pending wrapped block allow overflow), mode MNtn.
     c11_overflow_never_too_narrow_render :
       o_allow_overflow o = true ->
       rn (fun s => sub_into_lines s <> TooNarrow /\ sub_into_string s <> TooNarrow)
          (render_tree d mw o width tree)           (rn P r: r is not TooNarrow, P when Ok)
     for EVERY width (0 included), tree and decorator; c11_routes_never_too_narrow (routes,
     width <> 0, given to_render_tree = Ok tree).  With RenderTotal (C01: Ok or TooNarrow under
     its side conditions): c11_overflow_always_ok, c11_routes_always_ok -- always Ok.
     In the model TooNarrow arises in exactly three places: Sub.width_minus (only without the
     flag), Wrap.hw_scan (only without the flag), Api.render_with_context (width 0).  So the
     clause "always Ok for width >= 1" holds; there is no counterexample.

   PART B -- C13 (section 5).  `normalise` collapses every maximal run of whitespace characters
   (leading / trailing runs too) to one canonical space; `norm_tree` normalises every text leaf;
   ws_equiv t1 t2 := norm_tree t1 = norm_tree t2.   SR = SRB (diagonal: the same sub-renderer,
   with an empty white-space mode stack), mode MStrict, trees n and norm_tree n.
     c13_norm_render    : tree_ok tree = true ->
                          render_tree d mw o width (norm_tree tree) = render_tree d mw o width tree
     c13_ws_equiv_render: ws_equiv t1 t2 -> tree_ok t1 = true -> tree_ok t2 = true ->
                          render_tree d mw o width t1 = render_tree d mw o width t2
     (the very same outcome: Ok with the same sub-renderer -- hence the same lines and string,
     c13_ws_equiv_lines --, TooNarrow, or the same Panic site; c13_render_with_context).
   TABLES ARE INCLUDED (the estimates that drive the column widths agree: `text_est_norm` --
   text_est depends only on the normal form, so there is no finding here).
   SIDE CONDITION tree_ok (decidable), both parts needed (examples exc_pre_differs,
   exc_digit_differs):
     (a) no style of the tree (nodes, table rows, cells) has white-space: pre / pre-wrap
         (`style_no_pre`; a <pre> element carries such a style): there whitespace is kept;
     (b) `wfd`: no character of a text leaf is both whitespace and an ASCII digit.  True of
         every Unicode character (char::is_whitespace is false for digits) but not excluded by
         the model's `chr` record; needed because <sup> turns an all-digit text into superscript
         digits (Render.sup_digits looks at code points, not at the ws flag).
   Text level: `add_chars_norm` (from Small.add_char_normal_ws_indep / _idem),
   `add_inline_text_norm`, `apply_filters_norm` (strikeout filter), `text_est_norm`.

   Examples (non-vacuity): exa_* (Part A), exr_* (routes, on RenderTotal.ex_doc), exc_* (Part B). *)
From H2T Require Import Base Tagged Wrap Sub Css Dom Render Api.
From H2T Require Import Proofs.WrapInv Proofs.Small Proofs.RenderWidth Proofs.OptionRel.
From H2T Require Import Proofs.Compose.
From Coq Require Import Lia ZifyN ZifyBool ZifyNat.

Local Arguments N.add : simpl never.
Local Arguments N.sub : simpl never.
Local Arguments N.mul : simpl never.
Local Arguments N.div : simpl never.
Local Arguments N.modulo : simpl never.
Local Arguments N.leb : simpl never.
Local Arguments N.ltb : simpl never.
Local Arguments N.eqb : simpl never.
Local Arguments N.min : simpl never.
Local Arguments N.max : simpl never.
Local Arguments N.to_nat : simpl never.
Local Arguments N.of_nat : simpl never.
Local Open Scope N_scope.

(* ================================================================== *)
(* 0. Outcome relations: three modes                                    *)
(* ================================================================== *)
(* MLe     : run 1 Ok => run 2 Ok and related (no claim when run 1 fails);
   MStrict : the same outcome kind (the same Panic site), related when Ok;
   MNtn    : run 1 is never TooNarrow; when Ok, run 2 is Ok and related. *)
Inductive mode := MLe | MStrict | MNtn.

Section RS.
  Variable md : mode.

  Definition rs {A B} (P : A -> B -> Prop) (x : res A) (y : res B) : Prop :=
    match x with
    | Ok a => match y with Ok b => P a b | _ => False end
    | TooNarrow => match md with MLe => True | MStrict => y = TooNarrow | MNtn => False end
    | Panic i => md = MStrict -> y = Panic i
    | OutOfFuel => md = MStrict -> y = OutOfFuel
    end.

  Lemma rs_bind {A B A' B'} (P : A -> B -> Prop) (Q : A' -> B' -> Prop) x y k1 k2 :
    rs P x y -> (forall a b, P a b -> rs Q (k1 a) (k2 b)) -> rs Q (bind x k1) (bind y k2).
  Proof.
    destruct x as [a| |i|]; cbn [rs bind]; intros H K.
    - destruct y as [b| | |]; try contradiction. cbn [bind]. apply K, H.
    - destruct md; auto. subst y. reflexivity.
    - intros E. rewrite (H E). reflexivity.
    - intros E. rewrite (H E). reflexivity.
  Qed.

  Lemma rs_head {A C D} (Q : C -> D -> Prop) (e1 e2 : res A) k1 k2 :
    e1 = e2 -> e1 <> TooNarrow -> (forall v, e1 = Ok v -> rs Q (k1 v) (k2 v)) ->
    rs Q (bind e1 k1) (bind e2 k2).
  Proof.
    intros <- Hn Hk. destruct e1; cbn [bind rs]; auto; try congruence.
  Qed.

  Lemma rs_same_fail {A C D} (Q : C -> D -> Prop) (e : res A) (k1 : A -> res C) (k2 : A -> res D) :
    (forall v, e <> Ok v) -> e <> TooNarrow -> rs Q (bind e k1) (bind e k2).
  Proof.
    intros H Hn. destruct e as [v| | |]; cbn [bind rs]; auto; try congruence.
  Qed.

  Lemma rs_impl {A B} (P Q : A -> B -> Prop) x y :
    (forall a b, P a b -> Q a b) -> rs P x y -> rs Q x y.
  Proof. destruct x, y; cbn [rs]; auto. Qed.

  Lemma rs_ok_l {A B} (P : A -> B -> Prop) x y a :
    rs P x y -> x = Ok a -> exists b, y = Ok b /\ P a b.
  Proof. intros H ->. destruct y; cbn [rs] in H; try contradiction. eauto. Qed.

  Lemma rs_fold2 {A B C D} (P : A -> B -> Prop) (R : C -> D -> Prop)
        (f : C -> A -> res A) (g : D -> B -> res B) :
    forall l1 l2, Forall2 R l1 l2 ->
    (forall c c', R c c' -> forall a b, P a b -> rs P (f c a) (g c' b)) ->
    forall x y, rs P x y ->
    rs P (fold_left (fun acc c => do s <- acc; f c s) l1 x)
         (fold_left (fun acc c => do s <- acc; g c s) l2 y).
  Proof.
    induction 1 as [|c c' l1 l2 Hc _ IH]; intros Hstep x y Hxy; cbn [fold_left]; [exact Hxy|].
    apply IH; [exact Hstep|]. eapply rs_bind; [exact Hxy|]. apply Hstep, Hc.
  Qed.
End RS.

Lemma rs_strict_eq {A} (x y : res A) : rs MStrict eq x y -> x = y.
Proof.
  destruct x; cbn [rs]; intros H.
  - destruct y; try contradiction. congruence.
  - auto.
  - symmetry. auto.
  - symmetry. auto.
Qed.

Lemma rs_ntn {A B} (P : A -> B -> Prop) x y : rs MNtn P x y -> x <> TooNarrow.
Proof. destruct x; cbn [rs]; intros H; try discriminate. contradiction. Qed.

(* fold_left over two lists related element by element *)
Lemma fold_left_F2 {A B C} (R : B -> C -> Prop) (f : A -> B -> A) (g : A -> C -> A) :
  forall l1 l2, Forall2 R l1 l2 -> (forall a b c, R b c -> f a b = g a c) ->
  forall a, fold_left f l1 a = fold_left g l2 a.
Proof.
  induction 1 as [|b c l1 l2 Hbc _ IH]; intros Hfg a; cbn [fold_left]; [reflexivity|].
  rewrite (Hfg a b c Hbc). apply IH, Hfg.
Qed.

Lemma F2_length {A B} {R : A -> B -> Prop} {l1 l2} : Forall2 R l1 l2 -> length l1 = length l2.
Proof. induction 1; cbn [length]; congruence. Qed.

(* a monadic fold is TooNarrow only if the start or some step is *)
Lemma fold_ntn {A B} (f : B -> A -> res A) : forall (l : list B) (e : res A),
  e <> TooNarrow -> (forall b a, In b l -> f b a <> TooNarrow) ->
  fold_left (fun acc b => do s <- acc; f b s) l e <> TooNarrow.
Proof.
  induction l as [|b l IH]; intros e He Hf; cbn [fold_left]; [exact He|].
  apply IH; [|intros b' a Hb'; apply Hf; right; exact Hb'].
  destruct e; cbn [bind]; try congruence. apply Hf. left. reflexivity.
Qed.

Lemma bind_ext {A B} (e : res A) (k1 k2 : A -> res B) :
  (forall a, k1 a = k2 a) -> bind e k1 = bind e k2.
Proof. intros H. destruct e; cbn [bind]; auto. Qed.

Lemma bind_ntn {A B} (e : res A) (k : A -> res B) :
  e <> TooNarrow -> (forall a, k a <> TooNarrow) -> bind e k <> TooNarrow.
Proof. destruct e; cbn [bind]; auto; congruence. Qed.

(* ================================================================== *)
(* 1. Two render trees related node by node                             *)
(* ================================================================== *)
(* the same shape and the same styles (each satisfying SOK); text leaves related by TI *)
Section TRel.
  Variable TI : text -> text -> Prop.
  Variable SOK : cstyle -> Prop.

  Inductive trel : rnode -> rnode -> Prop :=
  | TRn i1 i2 s : SOK s -> irel i1 i2 -> trel (RN i1 s) (RN i2 s)
  with irel : rinfo -> rinfo -> Prop :=
  | IR_text t1 t2 : TI t1 t2 -> irel (IText t1) (IText t2)
  | IR_container c1 c2 : Forall2 trel c1 c2 -> irel (IContainer c1) (IContainer c2)
  | IR_link h c1 c2 : Forall2 trel c1 c2 -> irel (ILink h c1) (ILink h c2)
  | IR_em c1 c2 : Forall2 trel c1 c2 -> irel (IEm c1) (IEm c2)
  | IR_strong c1 c2 : Forall2 trel c1 c2 -> irel (IStrong c1) (IStrong c2)
  | IR_strike c1 c2 : Forall2 trel c1 c2 -> irel (IStrikeout c1) (IStrikeout c2)
  | IR_code c1 c2 : Forall2 trel c1 c2 -> irel (ICode c1) (ICode c2)
  | IR_img s t : irel (IImg s t) (IImg s t)
  | IR_block c1 c2 : Forall2 trel c1 c2 -> irel (IBlock c1) (IBlock c2)
  | IR_header l c1 c2 : Forall2 trel c1 c2 -> irel (IHeader l c1) (IHeader l c2)
  | IR_div c1 c2 : Forall2 trel c1 c2 -> irel (IDiv c1) (IDiv c2)
  | IR_quote c1 c2 : Forall2 trel c1 c2 -> irel (IBlockQuote c1) (IBlockQuote c2)
  | IR_ul c1 c2 : Forall2 trel c1 c2 -> irel (IUl c1) (IUl c2)
  | IR_ol z c1 c2 : Forall2 trel c1 c2 -> irel (IOl z c1) (IOl z c2)
  | IR_dl c1 c2 : Forall2 trel c1 c2 -> irel (IDl c1) (IDl c2)
  | IR_dt c1 c2 : Forall2 trel c1 c2 -> irel (IDt c1) (IDt c2)
  | IR_dd c1 c2 : Forall2 trel c1 c2 -> irel (IDd c1) (IDd c2)
  | IR_break : irel IBreak IBreak
  | IR_table r1 r2 nc : Forall2 rowrel r1 r2 -> irel (ITable r1 nc) (ITable r2 nc)
  | IR_tbody r1 r2 : irel (ITableBody r1) (ITableBody r2)
  | IR_trow r1 r2 : irel (ITableRow r1) (ITableRow r2)
  | IR_tcell c1 c2 : irel (ITableCell c1) (ITableCell c2)
  | IR_frag n : irel (IFragStart n) (IFragStart n)
  | IR_li c1 c2 : Forall2 trel c1 c2 -> irel (IListItem c1) (IListItem c2)
  | IR_sup c1 c2 : Forall2 trel c1 c2 -> irel (ISup c1) (ISup c2)
  with rowrel : rrow -> rrow -> Prop :=
  | RRel c1 c2 s : SOK s -> Forall2 cellrel c1 c2 -> rowrel (RRow c1 s) (RRow c2 s)
  with cellrel : rcell -> rcell -> Prop :=
  | CRel n k1 k2 s : SOK s -> Forall2 trel k1 k2 -> cellrel (RCell n k1 s) (RCell n k2 s).

  (* from an induction hypothesis on the left tree to a pointwise statement *)
  Lemma F2_IH (P : rnode -> rnode -> Prop) c1 : forall c2,
    Forall (fun n1 => forall n2, trel n1 n2 -> P n1 n2) c1 -> Forall2 trel c1 c2 -> Forall2 P c1 c2.
  Proof.
    induction c1 as [|a c1 IH]; intros c2 HF H2; inversion H2; subst; constructor.
    - apply (Forall_inv HF). assumption.
    - apply IH; [exact (Forall_inv_tail HF)|assumption].
  Qed.

  Lemma F2_cells_IH (P : rnode -> rnode -> Prop) cs1 : forall cs2,
    Forall (fun n1 => forall n2, trel n1 n2 -> P n1 n2) (flat_map cell_content cs1) ->
    Forall2 cellrel cs1 cs2 ->
    Forall2 (fun c1 c2 => cell_colspan c1 = cell_colspan c2 /\ cell_style c1 = cell_style c2 /\
                          SOK (cell_style c1) /\ Forall2 P (cell_content c1) (cell_content c2)) cs1 cs2.
  Proof.
    induction cs1 as [|a cs1 IH]; intros cs2 HF H2; inversion H2 as [|? b ? ? Hab Hr]; subst;
      constructor.
    - cbn [flat_map] in HF. apply Forall_app in HF. destruct HF as [HF _].
      inversion Hab; subst. cbn [cell_colspan cell_style cell_content] in *.
      repeat split; auto. apply F2_IH; assumption.
    - apply IH; [|assumption]. cbn [flat_map] in HF. apply Forall_app in HF. apply HF.
  Qed.

  Definition cells_P (P : rnode -> rnode -> Prop) (c1 c2 : rcell) : Prop :=
    cell_colspan c1 = cell_colspan c2 /\ cell_style c1 = cell_style c2 /\
    SOK (cell_style c1) /\ Forall2 P (cell_content c1) (cell_content c2).
  Definition rows_P (P : rnode -> rnode -> Prop) (r1 r2 : rrow) : Prop :=
    row_style r1 = row_style r2 /\ SOK (row_style r1) /\
    Forall2 (cells_P P) (row_cells r1) (row_cells r2).

  Lemma F2_rows_IH (P : rnode -> rnode -> Prop) rs1 : forall rs2,
    Forall (fun n1 => forall n2, trel n1 n2 -> P n1 n2) (flat_map row_kids rs1) ->
    Forall2 rowrel rs1 rs2 -> Forall2 (rows_P P) rs1 rs2.
  Proof.
    induction rs1 as [|a rs1 IH]; intros rs2 HF H2; inversion H2 as [|? b ? ? Hab Hr]; subst;
      constructor.
    - cbn [flat_map] in HF. apply Forall_app in HF. destruct HF as [HF _].
      inversion Hab; subst. unfold rows_P. cbn [row_style row_cells]. unfold row_kids in HF.
      cbn [row_cells] in HF. repeat split; auto. apply F2_cells_IH; assumption.
    - apply IH; [|assumption]. cbn [flat_map] in HF. apply Forall_app in HF. apply HF.
  Qed.
End TRel.

(* ================================================================== *)
(* 2. Size estimates of related trees; estimates are never TooNarrow    *)
(* ================================================================== *)
Section EstRel.
  Variables (d : deco) (mw : N).
  Variable TI : text -> text -> Prop.
  Variable SOK : cstyle -> Prop.
  Hypothesis TI_est : forall t1 t2, TI t1 t2 -> text_est mw t1 false = text_est mw t2 false.

  Definition esteq (a b : rnode) : Prop := est_node d mw a = est_node d mw b.

  Lemma est_kids_eq c1 c2 : Forall2 esteq c1 c2 -> est_kids d mw c1 = est_kids d mw c2.
  Proof.
    intros H. unfold est_kids. apply (fold_left_F2 esteq); [exact H|].
    intros a b c Hbc. unfold esteq in Hbc. rewrite Hbc. reflexivity.
  Qed.

  Lemma cell_est_eq c c' :
    cells_P SOK esteq c c' ->
    match c with RCell _ k _ => est_kids d mw k end = match c' with RCell _ k _ => est_kids d mw k end.
  Proof.
    destruct c, c'. unfold cells_P. cbn [cell_content]. intros (_ & _ & _ & H).
    apply est_kids_eq, H.
  Qed.

  Lemma est_rel : forall n1 n2, trel TI SOK n1 n2 -> esteq n1 n2.
  Proof.
    apply (rnode_ind' (fun n1 => forall n2, trel TI SOK n1 n2 -> esteq n1 n2)).
    intros i1 sty IH n2 HT. inversion HT as [i1' i2 s Hs Hi]; subst. clear HT. unfold esteq.
    inversion Hi; subst; cbn [direct_kids] in IH; cbn [est_node rn_info];
      try reflexivity;
      try (match goal with
           | H2 : Forall2 (trel TI SOK) ?c1 ?c2 |- _ =>
             let Hk := fresh "Hk" in
             pose proof (est_kids_eq c1 c2 (F2_IH TI SOK esteq c1 c2 IH H2)) as Hk;
             unfold est_kids in Hk; rewrite ?(F2_length H2), Hk; reflexivity
           end).
    - f_equal. apply TI_est. assumption.
    - pose proof (F2_rows_IH TI SOK esteq _ _ IH H) as HR.
      destruct (nc =? 0).
      + match goal with |- bind ?a _ = bind ?b _ => assert (E : a = b); [|rewrite E; reflexivity] end.
        apply (fold_left_F2 (rows_P SOK esteq)); [exact HR|].
        intros a r r' (_ & _ & HC). apply bind_ext. intros _.
        apply (fold_left_F2 (cells_P SOK esteq)); [exact HC|].
        intros a' c c' Hc. pose proof (cell_est_eq c c' Hc) as Ec. unfold est_kids in Ec.
        rewrite Ec. reflexivity.
      + match goal with |- bind ?a _ = bind ?b _ => assert (E : a = b); [|rewrite E; reflexivity] end.
        apply (fold_left_F2 (rows_P SOK esteq)); [exact HR|].
        intros a r r' (_ & _ & HC). apply bind_ext. intros s.
        match goal with |- bind ?a _ = bind ?b _ => assert (E : a = b); [|rewrite E; reflexivity] end.
        apply (fold_left_F2 (cells_P SOK esteq)); [exact HC|].
        intros a' c c' Hc. pose proof (cell_est_eq c c' Hc) as Ec. unfold est_kids in Ec.
        rewrite Ec. destruct Hc as (Ecs & _). rewrite Ecs. reflexivity.
  Qed.


  Definition entn (n : rnode) : Prop := est_node d mw n <> TooNarrow.

  Lemma est_kids_ntn cs : Forall entn cs -> est_kids d mw cs <> TooNarrow.
  Proof.
    intros HF. unfold est_kids. apply fold_ntn; [discriminate|]. intros b a Hb.
    rewrite Forall_forall in HF. apply bind_ntn; [apply HF, Hb|discriminate].
  Qed.

  Lemma est_ntn : forall n, entn n.
  Proof.
    apply rnode_ind'. intros i sty IH. unfold entn.
    destruct i; cbn [direct_kids] in IH; cbn [est_node rn_info]; try discriminate;
      try (apply (est_kids_ntn _ IH));
      try (apply bind_ntn; [apply (est_kids_ntn _ IH)|discriminate]).
    - apply bind_ntn; [unfold ol_prefix_size; discriminate|]. intros ps.
      apply bind_ntn; [apply (est_kids_ntn _ IH)|discriminate].
    - assert (HC : forall r c, In r rows -> In c (row_cells r) ->
                   match c with RCell _ k _ => est_kids d mw k end <> TooNarrow).
      { intros r c Hr Hc. destruct c as [n k s]. apply est_kids_ntn. apply Forall_forall.
        intros x Hx. rewrite Forall_forall in IH. apply IH. apply in_flat_map. exists r.
        split; [exact Hr|]. unfold row_kids. apply in_flat_map. exists (RCell n k s). auto. }
      unfold est_kids in HC.
      destruct (ncols =? 0).
      + apply bind_ntn; [|discriminate]. apply fold_ntn; [discriminate|]. intros r a Hr.
        apply fold_ntn; [discriminate|]. intros c a' Hc.
        apply bind_ntn; [apply (HC r c Hr Hc)|discriminate].
      + apply bind_ntn; [|discriminate]. apply fold_ntn; [discriminate|]. intros r a Hr.
        apply bind_ntn; [|discriminate]. apply fold_ntn; [discriminate|]. intros c [sz colno] Hc.
        apply bind_ntn; [apply (HC r c Hr Hc)|]. intros ce.
        destruct (upd_range _ _ _ _); discriminate.
  Qed.
End EstRel.

(* ================================================================== *)
(* 3. Generic lock-step simulation of two runs on two related trees     *)
(* ================================================================== *)
(* Compose.v section 1, generalised: (i) the outcome relation is `rs md` (three modes),
   (ii) the two runs render two trees related by `trel TI SOK`, (iii) the relation between
   text leaves is TI and styles satisfy SOK. *)

Definition wsm_of (cs : cstyle) : option wsmode :=
  match ws_val (c_white_space (cs_core cs)) with
  | Some WsPre => Some WsPre
  | Some WsPreWrap => Some WsPreWrap
  | _ => None
  end.

Definition gop (md : mode) (SR : subr -> subr -> Prop) (f : subr -> res subr) : Prop :=
  forall x y, SR x y -> rs md SR (f x) (f y).

Record GOps (md : mode) (d : deco) (mw : N) (SR : subr -> subr -> Prop)
       (TI : text -> text -> Prop) (SOK : cstyle -> Prop) : Prop := mkGOps {
  go_push_colour : forall r g b, pureR SR (fun s => push_colour d s r g b);
  go_push_bg : forall r g b, pureR SR (fun s => push_bgcolour d s r g b);
  go_push_ws : forall cs m, SOK cs -> wsm_of cs = Some m -> pureR SR (fun s => push_ws_mode s m);
  go_push_pre : pureR SR push_preformat;
  go_pop_colour : pureR SR (pop_colour d);
  go_pop_ws : pureR SR pop_ws_mode;
  go_pop_pre : gop md SR pop_preformat;
  go_inline : forall t1 t2, TI t1 t2 -> forall x y, SR x y ->
              rs md SR (add_inline_text d x t1) (add_inline_text d y t2);
  go_inline_same : forall t, gop md SR (fun s => add_inline_text d s t);
  go_est : forall t1 t2, TI t1 t2 -> text_est mw t1 false = text_est mw t2 false;
  go_digits : forall t1 t2, TI t1 t2 ->
              forallb is_ascii_digit t1 = true \/ forallb is_ascii_digit t2 = true -> t1 = t2;
  go_start_link : forall h, gop md SR (fun s => sub_start_link d s h);
  go_end_link : gop md SR (sub_end_link d);
  go_foot : forall x y, SR x y -> o_footnotes (sopts x) = o_footnotes (sopts y);
  go_em_s : gop md SR (start_emphasis d);       go_em_e : gop md SR (end_emphasis d);
  go_strong_s : gop md SR (start_strong d);     go_strong_e : gop md SR (end_strong d);
  go_strike_s : gop md SR (start_strikeout d);  go_strike_e : gop md SR (end_strikeout d);
  go_code_s : gop md SR (start_code d);         go_code_e : gop md SR (end_code d);
  go_sup_s : gop md SR (start_superscript d);   go_sup_e : gop md SR (end_superscript d);
  go_image : forall src t, gop md SR (fun s => add_image d s src t);
  go_start_block : gop md SR start_block;
  go_end_block : pureR SR end_block;
  go_new_line : gop md SR new_line;
  go_new_line_hard : gop md SR new_line_hard;
  go_frag : forall n, pureR SR (fun s => record_frag_start s n);
  go_wm : forall x y p mn, SR x y -> rs md eq (width_minus x p mn) (width_minus y p mn);
  go_new : forall u v w, SR u v -> SR (new_sub_renderer u w) (new_sub_renderer v w);
  go_append : forall x y u v f r, SR x y -> SR u v ->
              rs md SR (append_subrender x u f r) (append_subrender y v f r);
  go_width : forall x y, SR x y -> swidth_ x = swidth_ y;
  go_raw : forall x y, SR x y -> o_raw (sopts x) = o_raw (sopts y);
  go_borders : forall x y, SR x y -> o_borders (sopts x) = o_borders (sopts y);
  go_hborder : forall w, gop md SR (fun s => add_horizontal_border_width s w);
  go_vert : forall x y us vs, SR x y -> Forall2 SR us vs ->
            rs md SR (append_vert_row x us) (append_vert_row y vs);
  go_cols : forall x y us vs, SR x y -> Forall2 SR us vs ->
            rs md SR (append_columns_with_borders x us true)
                     (append_columns_with_borders y vs true);
  go_empty : forall u v, SR u v -> sub_empty u = sub_empty v
}.

Lemma usub_ntn s a b : usub s a b <> TooNarrow.
Proof. unfold usub. destruct (b <=? a); discriminate. Qed.

Lemma cell_widths_ntn vr cs : forall cells colno, cell_widths vr cs cells colno <> TooNarrow.
Proof.
  induction cells as [|c cells IH]; intros colno; cbn [cell_widths]; [discriminate|].
  apply bind_ntn.
  - destruct vr; [destruct (nth_opt cs (N.to_nat colno)); discriminate|].
    destruct (N.of_nat (length cs) <? colno + cell_colspan c); discriminate.
  - intros cw_. apply bind_ntn; [apply IH|]. intros r.
    destruct (0 <? cw_); [|discriminate]. destruct vr; [discriminate|].
    apply bind_ntn; [unfold uadd; destruct (_ <=? _); discriminate|]. intros w1.
    apply bind_ntn; [apply usub_ntn|discriminate].
Qed.

Lemma shrink_loop_ntn : forall fuel width mins ws_, shrink_loop fuel width mins ws_ <> TooNarrow.
Proof.
  induction fuel as [|f IH]; intros width mins ws_; cbn [shrink_loop];
    destruct (_ <=? width); try discriminate.
  destruct (argmax_col ws_ mins 0 None) as [i|]; [|discriminate].
  destruct (nth_opt ws_ (N.to_nat i)) as [[|p]|]; try discriminate. apply IH.
Qed.

Section GSim.
  Variables (md : mode) (d : deco) (mw : N).
  Variable SR : subr -> subr -> Prop.
  Variable TI : text -> text -> Prop.
  Variable SOK : cstyle -> Prop.
  Hypothesis ops : GOps md d mw SR TI SOK.

  Notation rsm := (rs md).

  Definition GSt (r1 r2 : list subr) (a b : rstate) : Prop :=
    links a = links b /\ exists s1 s2, stack a = s1 :: r1 /\ stack b = s2 :: r2 /\ SR s1 s2.

  Lemma g_with_top r1 r2 f g a b :
    (forall x y, SR x y -> rsm SR (f x) (g y)) -> GSt r1 r2 a b ->
    rsm (GSt r1 r2) (with_top a f) (with_top b g).
  Proof.
    intros Hf (Hl & s1 & s2 & E1 & E2 & Hs). unfold with_top. rewrite E1, E2.
    eapply rs_bind; [apply Hf, Hs|]. intros x y Hxy. cbn [rs].
    split; [exact Hl|]. exists x, y. auto.
  Qed.

  Lemma g_with_top' r1 r2 g a b :
    pureR SR g -> GSt r1 r2 a b -> rsm (GSt r1 r2) (with_top' a g) (with_top' b g).
  Proof. intros Hg. apply g_with_top. intros x y Hxy. cbn [rs]. apply Hg, Hxy. Qed.

  Lemma g_apply_style r1 r2 cs a b :
    SOK cs -> GSt r1 r2 a b ->
    rsm (fun x y => GSt r1 r2 (fst x) (fst y) /\ snd x = snd y)
        (apply_style d a cs) (apply_style d b cs).
  Proof.
    intros Hs H. unfold apply_style.
    eapply rs_bind with (P := GSt r1 r2).
    { destruct (ws_val (c_colour (cs_core cs))) as [[[r g] bl]|];
        [apply g_with_top'; [apply (go_push_colour _ _ _ _ _ _ ops)|exact H]|exact H]. }
    intros a1 b1 H1.
    eapply rs_bind with (P := GSt r1 r2).
    { destruct (ws_val (c_bg (cs_core cs))) as [[[r g] bl]|];
        [apply g_with_top'; [apply (go_push_bg _ _ _ _ _ _ ops)|exact H1]|exact H1]. }
    intros a2 b2 H2.
    eapply rs_bind with (P := GSt r1 r2).
    { destruct (match ws_val (c_white_space (cs_core cs)) with
                | Some WsPre => Some WsPre
                | Some WsPreWrap => Some WsPreWrap
                | _ => None
                end) as [m|] eqn:Em;
        [apply g_with_top'; [apply (go_push_ws _ _ _ _ _ _ ops cs m Hs Em)|exact H2]|exact H2]. }
    intros a3 b3 H3.
    eapply rs_bind with (P := GSt r1 r2).
    { destruct (cs_internal_pre cs);
        [apply g_with_top'; [apply (go_push_pre _ _ _ _ _ _ ops)|exact H3]|exact H3]. }
    intros a4 b4 H4. cbn [rs fst snd]. auto.
  Qed.

  Lemma g_unwind r1 r2 p a b :
    GSt r1 r2 a b -> rsm (GSt r1 r2) (unwind d p a) (unwind d p b).
  Proof.
    intros H. unfold unwind.
    eapply rs_bind with (P := GSt r1 r2).
    { destruct (p_bg p); [apply g_with_top'; [apply (go_pop_colour _ _ _ _ _ _ ops)|exact H]|exact H]. }
    intros a1 b1 H1.
    eapply rs_bind with (P := GSt r1 r2).
    { destruct (p_colour p); [apply g_with_top'; [apply (go_pop_colour _ _ _ _ _ _ ops)|exact H1]|exact H1]. }
    intros a2 b2 H2.
    eapply rs_bind with (P := GSt r1 r2).
    { destruct (p_ws p); [apply g_with_top'; [apply (go_pop_ws _ _ _ _ _ _ ops)|exact H2]|exact H2]. }
    intros a3 b3 H3.
    destruct (p_pre p); [apply g_with_top; [apply (go_pop_pre _ _ _ _ _ _ ops)|exact H3]|exact H3].
  Qed.

  Lemma g_inline r1 r2 t1 t2 a b :
    TI t1 t2 -> GSt r1 r2 a b -> rsm (GSt r1 r2) (inline_text d a t1) (inline_text d b t2).
  Proof. intros Ht. unfold inline_text. apply g_with_top. apply (go_inline _ _ _ _ _ _ ops), Ht. Qed.

  Lemma g_inline_same r1 r2 t a b :
    GSt r1 r2 a b -> rsm (GSt r1 r2) (inline_text d a t) (inline_text d b t).
  Proof. unfold inline_text. apply g_with_top. apply (go_inline_same _ _ _ _ _ _ ops). Qed.

  Lemma g_top r1 r2 a b :
    GSt r1 r2 a b ->
    rsm (fun x y => SR x y /\ stack a = x :: r1 /\ stack b = y :: r2) (top a) (top b).
  Proof.
    intros (Hl & s1 & s2 & E1 & E2 & Hs). unfold top. rewrite E1, E2. cbn [rs]. auto.
  Qed.

  Lemma g_push r1 r2 a b x y u v :
    links a = links b -> stack a = x :: r1 -> stack b = y :: r2 -> SR u v ->
    GSt (x :: r1) (y :: r2) (push_sub a u) (push_sub b v).
  Proof.
    intros Hl E1 E2 Huv. split; [exact Hl|]. exists u, v. cbn [push_sub stack].
    rewrite E1, E2. auto.
  Qed.

  Lemma g_pop r1 r2 x y a b :
    SR x y -> GSt (x :: r1) (y :: r2) a b ->
    rsm (fun p q => SR (fst p) (fst q) /\ GSt r1 r2 (snd p) (snd q)) (pop_sub a) (pop_sub b).
  Proof.
    intros Hxy (Hl & s1 & s2 & E1 & E2 & Hs). unfold pop_sub. rewrite E1, E2.
    cbn [rs fst snd]. split; [exact Hs|]. split; [exact Hl|]. exists x, y. auto.
  Qed.

  (* the per-pair statement *)
  Definition gnode (n1 n2 : rnode) : Prop :=
    forall r1 r2 a b, GSt r1 r2 a b ->
      rsm (GSt r1 r2) (render_node d mw n1 a) (render_node d mw n2 b).

  Lemma g_kids cs1 cs2 r1 r2 a b :
    Forall2 gnode cs1 cs2 -> GSt r1 r2 a b ->
    rsm (GSt r1 r2) (rkids d mw cs1 a) (rkids d mw cs2 b).
  Proof.
    intros HF H. unfold rkids.
    apply (rs_fold2 md (GSt r1 r2) gnode (fun c s => render_node d mw c s)
                    (fun c s => render_node d mw c s) cs1 cs2 HF); [|exact H].
    intros c c' Hc x y Hxy. apply Hc, Hxy.
  Qed.

  Lemma g_wrap (f1 f2 : subr -> res subr) cs1 cs2 ps r1 r2 a b :
    gop md SR f1 -> gop md SR f2 -> Forall2 gnode cs1 cs2 -> GSt r1 r2 a b ->
    rsm (GSt r1 r2)
      (do x <- with_top a f1; do y <- rkids d mw cs1 x; do z <- with_top y f2; unwind d ps z)
      (do x <- with_top b f1; do y <- rkids d mw cs2 x; do z <- with_top y f2; unwind d ps z).
  Proof.
    intros K1 K2 HF H.
    eapply rs_bind; [apply g_with_top; [apply K1|exact H]|]. intros x1 x2 Hx.
    eapply rs_bind; [apply g_kids; [exact HF|exact Hx]|]. intros y1 y2 Hy.
    eapply rs_bind; [apply g_with_top; [apply K2|exact Hy]|]. intros z1 z2 Hz.
    apply g_unwind, Hz.
  Qed.

  Lemma g_scope r1 r2 a b p mn (body1 body2 : rstate -> res rstate) :
    GSt r1 r2 a b ->
    (forall q1 q2 a' b', GSt q1 q2 a' b' -> rsm (GSt q1 q2) (body1 a') (body2 b')) ->
    forall {C1 C2} (k1 : subr * rstate -> res C1) (k2 : subr * rstate -> res C2) (Q : C1 -> C2 -> Prop),
    (forall u v a' b', SR u v -> GSt r1 r2 a' b' -> rsm Q (k1 (u, a')) (k2 (v, b'))) ->
    rsm Q
      (do tp <- top a; do w <- width_minus tp p mn;
       do st2 <- body1 (push_sub a (new_sub_renderer tp w)); do pp <- pop_sub st2; k1 pp)
      (do tp <- top b; do w <- width_minus tp p mn;
       do st2 <- body2 (push_sub b (new_sub_renderer tp w)); do pp <- pop_sub st2; k2 pp).
  Proof.
    intros H Hbody C1 C2 k1 k2 Q Hk.
    eapply rs_bind; [apply g_top, H|]. intros x y (Hxy & E1 & E2).
    eapply rs_bind; [apply (go_wm _ _ _ _ _ _ ops x y p mn Hxy)|]. intros w w' <-.
    eapply rs_bind.
    { apply Hbody. apply g_push; [exact (proj1 H)|exact E1|exact E2|].
      apply (go_new _ _ _ _ _ _ ops), Hxy. }
    intros a2 b2 H2.
    eapply rs_bind; [apply (g_pop r1 r2 x y); assumption|].
    intros [u a3] [v b3] [Huv H3]. cbn [fst snd] in *. apply Hk; assumption.
  Qed.

  (* ---- table rows ---- *)
  Lemma g_cells : forall cells1 cells2 wsl r1 r2 a b us vs,
    Forall2 (cells_P SOK gnode) cells1 cells2 ->
    GSt r1 r2 a b -> Forall2 SR us vs ->
    rsm (fun p q => GSt r1 r2 (fst p) (fst q) /\ Forall2 SR (snd p) (snd q))
        (cells_loop d mw cells1 wsl a us) (cells_loop d mw cells2 wsl b vs).
  Proof.
    induction cells1 as [|[n content csty] cells1 IH]; intros cells2 wsl r1 r2 a b us vs HF H Huv;
      inversion HF as [|? [n' content' csty'] ? cells2' HF1 HF2]; subst; cbn [cells_loop].
    - cbn [rs fst snd]. auto.
    - destruct HF1 as (En & Es & Hok & HK). cbn [cell_colspan cell_style cell_content] in *. subst n' csty'.
      destruct wsl as [|[w|] wsl]; [cbn [rs fst snd]; auto| |].
      + eapply rs_bind; [apply g_top, H|]. intros x y (Hxy & E1 & E2).
        assert (Hp : GSt (x :: r1) (y :: r2) (push_sub a (new_sub_renderer x w))
                         (push_sub b (new_sub_renderer y w))).
        { apply g_push; [exact (proj1 H)|exact E1|exact E2|].
          apply (go_new _ _ _ _ _ _ ops), Hxy. }
        eapply rs_bind; [apply g_apply_style; [exact Hok|exact Hp]|].
        intros [a4 p4] [b4 q4] [H4 Epq]. cbn [fst snd] in H4, Epq. subst q4.
        eapply rs_bind; [apply (g_kids content content'); [exact HK|exact H4]|]. intros a5 b5 H5.
        eapply rs_bind; [apply g_unwind, H5|]. intros a6 b6 H6.
        eapply rs_bind; [apply (g_pop r1 r2 x y); assumption|].
        intros [u a7] [v b7] [Huv' H7]. cbn [fst snd] in *.
        apply IH; auto. apply Forall2_app; auto.
      + apply IH; auto.
  Qed.

  Lemma g_row vr col_widths r r' r1 r2 a b :
    rows_P SOK gnode r r' -> GSt r1 r2 a b ->
    rsm (GSt r1 r2) (row_body d mw vr col_widths r a) (row_body d mw vr col_widths r' b).
  Proof.
    intros (Es & Hok & HC) H. destruct r as [rcells rstyle], r' as [rcells' rstyle'].
    cbn [row_cells row_style] in *. subst rstyle'. unfold row_body.
    eapply rs_bind; [apply g_apply_style; [exact Hok|exact H]|].
    intros [a1 p1] [b1 q1] [H1 Epq]. cbn [fst snd] in H1, Epq. subst q1.
    assert (Ecw : cell_widths vr col_widths rcells 0 = cell_widths vr col_widths rcells' 0).
    { clear -HC. generalize 0. induction HC as [|c c' l l' Hc _ IH]; intros colno; cbn [cell_widths];
        [reflexivity|]. destruct Hc as (Ec & _). rewrite Ec, IH. reflexivity. }
    apply (rs_head md _ _ _ _ _ Ecw (cell_widths_ntn _ _ _ _)). intros cws _.
    eapply rs_bind; [apply (g_cells rcells rcells' cws r1 r2 a1 b1 [] []); auto|].
    intros [a8 us] [b8 vs] [H8 Huv]. cbn [fst snd] in H8, Huv.
    eapply rs_bind with (P := GSt r1 r2).
    { destruct vr.
      - apply g_with_top; [|exact H8]. intros x y Hxy. apply (go_vert _ _ _ _ _ _ ops); assumption.
      - assert (Ee : existsb (fun c => negb (sub_empty c)) us = existsb (fun c => negb (sub_empty c)) vs).
        { clear -Huv ops. induction Huv as [|u v us vs Huv1 _ IH]; [reflexivity|].
          cbn [existsb]. rewrite IH, (go_empty _ _ _ _ _ _ ops u v Huv1). reflexivity. }
        rewrite <- Ee. destruct (existsb (fun c => negb (sub_empty c)) us); [|exact H8].
        apply g_with_top; [|exact H8]. intros x y Hxy. apply (go_cols _ _ _ _ _ _ ops); assumption. }
    intros a9 b9 H9. apply g_unwind, H9.
  Qed.

  Lemma sup_digits_rel cs1 cs2 : Forall2 (trel TI SOK) cs1 cs2 -> sup_digits cs1 = sup_digits cs2.
  Proof.
    intros H. destruct H as [|n1 n2 l1 l2 Hn Hl]; [reflexivity|].
    destruct Hl as [|? ? ? ? _ _]; [|inversion Hn; subst; cbn [sup_digits]; reflexivity].
    inversion Hn as [i1 i2 s Hs Hi]; subst. cbn [sup_digits rn_info].
    inversion Hi; subst; try reflexivity.
    match goal with Ht : TI _ _ |- _ => pose proof (go_digits _ _ _ _ _ _ ops _ _ Ht) as Hd end.
    destruct (forallb is_ascii_digit t1) eqn:E1.
    - rewrite <- (Hd (or_introl eq_refl)), E1. reflexivity.
    - destruct (forallb is_ascii_digit t2) eqn:E2; [|reflexivity].
      rewrite (Hd (or_intror eq_refl)) in E1. congruence.
  Qed.

  Lemma gnode_all : forall n1 n2, trel TI SOK n1 n2 -> gnode n1 n2.
  Proof.
    apply (rnode_ind' (fun n1 => forall n2, trel TI SOK n1 n2 -> gnode n1 n2)).
    intros i1 sty IH n2 HT r1 r2 a b Hab.
    pose proof (est_rel d mw TI SOK (go_est _ _ _ _ _ _ ops) _ _ HT) as Eest. unfold esteq in Eest.
    inversion HT as [i1' i2 s Hs Hi]; subst. clear HT.
    inversion Hi; subst; cbn [direct_kids] in IH; cbn [render_node rn_info rn_style];
      try (apply (rs_head md _ _ _ _ _ Eest (est_ntn d mw _)); intros sz _);
      cbn [bind];
      (eapply rs_bind; [apply g_apply_style; [exact Hs|exact Hab]|]);
      intros [a1 p1] [b1 q1] [H1 Epq]; cbn [fst snd] in H1, Epq; subst q1;
      try (match goal with
           | H2 : Forall2 (trel TI SOK) ?c1 ?c2 |- _ =>
             pose proof (F2_IH TI SOK gnode c1 c2 IH H2) as HK
           end).
    - (* IText *)
      eapply rs_bind; [apply g_inline; eassumption|]. intros; apply g_unwind; assumption.
    - (* IContainer *)
      eapply rs_bind; [apply (g_kids c1 c2); [exact HK|exact H1]|].
      intros; apply g_unwind; assumption.
    - (* ILink *)
      assert (H1' : GSt r1 r2 (mkrst (stack a1) (links a1 ++ [h]))
                               (mkrst (stack b1) (links b1 ++ [h]))).
      { destruct H1 as (Hl & s1 & s2 & E1 & E2 & Hs'). split; [cbn [links]; congruence|].
        exists s1, s2. cbn [stack]. auto. }
      eapply rs_bind; [apply g_with_top; [apply (go_start_link _ _ _ _ _ _ ops)|exact H1']|].
      intros a2 b2 H2.
      eapply rs_bind; [apply (g_kids c1 c2); [exact HK|exact H2]|]. intros a3 b3 H3.
      eapply rs_bind; [apply g_with_top; [apply (go_end_link _ _ _ _ _ _ ops)|exact H3]|].
      intros a4 b4 H4.
      eapply rs_bind; [apply g_top, H4|]. intros x y (Hxy & E1 & E2).
      rewrite <- (go_foot _ _ _ _ _ _ ops x y Hxy), <- (proj1 H4).
      eapply rs_bind with (P := GSt r1 r2).
      { destruct (o_footnotes (sopts x)); [apply g_inline_same, H4|exact H4]. }
      intros; apply g_unwind; assumption.
    - (* IEm *) apply g_wrap; auto; [apply (go_em_s _ _ _ _ _ _ ops)|apply (go_em_e _ _ _ _ _ _ ops)].
    - (* IStrong *) apply g_wrap; auto; [apply (go_strong_s _ _ _ _ _ _ ops)|apply (go_strong_e _ _ _ _ _ _ ops)].
    - (* IStrikeout *) apply g_wrap; auto; [apply (go_strike_s _ _ _ _ _ _ ops)|apply (go_strike_e _ _ _ _ _ _ ops)].
    - (* ICode *) apply g_wrap; auto; [apply (go_code_s _ _ _ _ _ _ ops)|apply (go_code_e _ _ _ _ _ _ ops)].
    - (* IImg *)
      eapply rs_bind; [apply g_with_top; [apply (go_image _ _ _ _ _ _ ops)|exact H1]|].
      intros; apply g_unwind; assumption.
    - (* IBlock *)
      apply (g_wrap start_block (fun s => Ok (end_block s))); auto;
        [apply (go_start_block _ _ _ _ _ _ ops)|].
      intros x y Hxy. cbn [rs]. apply (go_end_block _ _ _ _ _ _ ops), Hxy.
    - (* IHeader *)
      destruct (negb (swidth (d_header_prefix d l) =? e_prefix sz)); [cbn [rs]; auto|].
      apply (g_scope r1 r2 a1 b1 _ _ (rkids d mw c1) (rkids d mw c2)); [exact H1| |].
      { intros; apply g_kids; assumption. }
      intros u v a3 b3 Huv H3.
      eapply rs_bind; [apply g_with_top; [apply (go_start_block _ _ _ _ _ _ ops)|exact H3]|].
      intros a4 b4 H4.
      eapply rs_bind; [apply g_with_top; [|exact H4]|].
      { intros x y Hxy. apply (go_append _ _ _ _ _ _ ops); assumption. }
      intros a5 b5 H5.
      eapply rs_bind; [apply g_with_top'; [apply (go_end_block _ _ _ _ _ _ ops)|exact H5]|].
      intros; apply g_unwind; assumption.
    - (* IDiv *)
      apply g_wrap; auto; apply (go_new_line _ _ _ _ _ _ ops).
    - (* IBlockQuote *)
      destruct (negb (e_prefix sz =? swidth (d_quote_prefix d))); [cbn [rs]; auto|].
      apply (rs_head md _ _ _ _ _ eq_refl (usub_ntn _ _ _)). intros iw _.
      apply (g_scope r1 r2 a1 b1 _ _ (rkids d mw c1) (rkids d mw c2)); [exact H1| |].
      { intros; apply g_kids; assumption. }
      intros u v a3 b3 Huv H3.
      eapply rs_bind; [apply g_with_top; [apply (go_start_block _ _ _ _ _ _ ops)|exact H3]|].
      intros a4 b4 H4.
      eapply rs_bind; [apply g_with_top; [|exact H4]|].
      { intros x y Hxy. apply (go_append _ _ _ _ _ _ ops); assumption. }
      intros a5 b5 H5.
      eapply rs_bind; [apply g_with_top'; [apply (go_end_block _ _ _ _ _ _ ops)|exact H5]|].
      intros; apply g_unwind; assumption.
    - (* IUl *)
      eapply rs_bind with (P := GSt r1 r2); [|intros; apply g_unwind; assumption].
      apply (rs_fold2 md (GSt r1 r2) gnode _ _ c1 c2 HK); [|exact H1].
      intros item item' Hitem x y Hxy.
      apply (rs_head md _ _ _ _ _ eq_refl (usub_ntn _ _ _)). intros iw _.
      apply (g_scope r1 r2 x y _ _ (render_node d mw item) (render_node d mw item')); [exact Hxy| |].
      { exact Hitem. }
      intros u v a3 b3 Huv H3. apply g_with_top; [|exact H3].
      intros x' y' Hxy'. apply (go_append _ _ _ _ _ _ ops); assumption.
    - (* IOl *)
      rewrite <- (F2_length H).
      eapply rs_bind with (P := fun p q => GSt r1 r2 (fst p) (fst q) /\ snd p = snd q);
        [|intros p q [Hpq _]; apply g_unwind; exact Hpq].
      set (pw := N.max (swidth (d_ol_prefix d z))
                       (swidth (d_ol_prefix d (isat64 (isat64 (z + Z.of_nat (length c1)) - 1))))).
      apply (rs_fold2 md (fun p q => GSt r1 r2 (fst p) (fst q) /\ snd p = snd q) gnode
               (ol_step d mw sz pw) (ol_step d mw sz pw) c1 c2 HK); [|cbn [rs fst snd]; auto].
      intros item item' Hitem [x ix] [y iy] [Hxy Ei]. cbn [fst snd] in Hxy, Ei. subst iy.
      unfold ol_step.
      apply (rs_head md _ _ _ _ _ eq_refl (usub_ntn _ _ _)). intros iw _.
      apply (g_scope r1 r2 x y _ _ (render_node d mw item) (render_node d mw item')); [exact Hxy| |].
      { exact Hitem. }
      intros u v a3 b3 Huv H3.
      eapply rs_bind; [apply g_with_top; [|exact H3]|].
      { intros x' y' Hxy'. apply (go_append _ _ _ _ _ _ ops); assumption. }
      intros a4 b4 H4. cbn [rs fst snd]. auto.
    - (* IDl *)
      eapply rs_bind; [apply g_with_top; [apply (go_start_block _ _ _ _ _ _ ops)|exact H1]|].
      intros a2 b2 H2.
      eapply rs_bind; [apply (g_kids c1 c2); [exact HK|exact H2]|].
      intros; apply g_unwind; assumption.
    - (* IDt *)
      eapply rs_bind; [apply g_with_top; [apply (go_new_line _ _ _ _ _ _ ops)|exact H1]|].
      intros a2 b2 H2.
      apply g_wrap; auto; [apply (go_em_s _ _ _ _ _ _ ops)|apply (go_em_e _ _ _ _ _ _ ops)].
    - (* IDd *)
      apply (rs_head md _ _ _ _ _ eq_refl (usub_ntn _ _ _)). intros iw _.
      apply (g_scope r1 r2 a1 b1 _ _ (rkids d mw c1) (rkids d mw c2)); [exact H1| |].
      { intros; apply g_kids; assumption. }
      intros u v a3 b3 Huv H3.
      eapply rs_bind; [apply g_with_top; [|exact H3]|].
      { intros x y Hxy. apply (go_append _ _ _ _ _ _ ops); assumption. }
      intros; apply g_unwind; assumption.
    - (* IBreak *)
      eapply rs_bind; [apply g_with_top; [apply (go_new_line_hard _ _ _ _ _ _ ops)|exact H1]|].
      intros; apply g_unwind; assumption.
    - (* ITable *)
      pose proof (F2_rows_IH TI SOK gnode _ _ IH H) as HR.
      assert (HRe : Forall2 (rows_P SOK (esteq d mw)) r0 r3).
      { apply (F2_rows_IH TI SOK); [|exact H]. apply Forall_forall. intros n1 _ n2 Hn.
        apply (est_rel d mw TI SOK (go_est _ _ _ _ _ _ ops)), Hn. }
      match goal with |- rs _ _ (bind ?e1 _) (bind ?e2 _) => apply (rs_head md _ e1 e2) end.
      { apply (fold_left_F2 (rows_P SOK (esteq d mw))); [exact HRe|].
        intros acc r r' (_ & _ & HC). apply bind_ext. intros s.
        match goal with |- bind ?a _ = bind ?b _ => assert (E : a = b); [|rewrite E; reflexivity] end.
        apply (fold_left_F2 (cells_P SOK (esteq d mw))); [exact HC|].
        intros a' c c' (Ec & _ & _ & HK'). apply bind_ext. intros [sz_ colno].
        rewrite (est_kids_eq d mw _ _ HK'), Ec. reflexivity. }
      { apply fold_ntn; [discriminate|]. intros r acc Hr. apply bind_ntn; [|discriminate].
        apply fold_ntn; [discriminate|]. intros c [sz_ colno] Hc.
        apply bind_ntn.
        - apply est_kids_ntn. apply Forall_forall. intros n _. apply est_ntn.
        - intros ce. destruct (cell_colspan c =? 0); [discriminate|].
          destruct (upd_range _ _ _ _); discriminate. }
      intros col_sizes _.
      eapply rs_bind; [apply g_top, H1|]. intros x y (Hxy & E1 & E2).
      rewrite <- (go_width _ _ _ _ _ _ ops x y Hxy), <- (go_raw _ _ _ _ _ _ ops x y Hxy),
        <- (go_borders _ _ _ _ _ _ ops x y Hxy).
      set (vr := o_raw (sopts x)
                 || ((swidth_ x <? sumN (map e_min col_sizes) + (N.of_nat (length col_sizes) - 1))
                     || (swidth_ x =? 0))).
      match goal with |- rs _ _ (bind ?e _) (bind ?e _) => apply (rs_head md _ e e _ _ eq_refl) end.
      { destruct (negb vr); [|discriminate].
        destruct (map (col_width_of (swidth_ x) (sumN (map e_size col_sizes))) col_sizes);
          [discriminate|apply shrink_loop_ntn]. }
      intros col_widths _.
      eapply rs_bind; [apply g_with_top; [apply (go_start_block _ _ _ _ _ _ ops)|exact H1]|].
      intros a2 b2 H2.
      eapply rs_bind with (P := GSt r1 r2).
      { match goal with |- rs _ _ (if ?c then _ else _) _ => destruct c end; [|exact H2].
        apply g_with_top; [apply (go_hborder _ _ _ _ _ _ ops)|exact H2]. }
      intros a3 b3 H3.
      eapply rs_bind with (P := GSt r1 r2); [|intros; apply g_unwind; assumption].
      apply (rs_fold2 md (GSt r1 r2) (rows_P SOK gnode) (row_body d mw vr col_widths)
                      (row_body d mw vr col_widths) r0 r3 HR); [|exact H3].
      intros r r' Hr a' b' H'. apply g_row; assumption.
    - (* ITableBody *) cbn [rs]. auto.
    - (* ITableRow *) cbn [rs]. auto.
    - (* ITableCell *) cbn [rs]. auto.
    - (* IFragStart *)
      eapply rs_bind; [apply g_with_top'; [apply (go_frag _ _ _ _ _ _ ops)|exact H1]|].
      intros; apply g_unwind; assumption.
    - (* IListItem *)
      apply (g_wrap start_block (fun s => Ok (end_block s))); auto;
        [apply (go_start_block _ _ _ _ _ _ ops)|].
      intros x y Hxy. cbn [rs]. apply (go_end_block _ _ _ _ _ _ ops), Hxy.
    - (* ISup *)
      rewrite <- (sup_digits_rel c1 c2 H).
      destruct (sup_digits c1) as [digitstr|].
      + eapply rs_bind; [apply g_inline_same, H1|]. intros; apply g_unwind; assumption.
      + apply g_wrap; auto; [apply (go_sup_s _ _ _ _ _ _ ops)|apply (go_sup_e _ _ _ _ _ _ ops)].
  Qed.

  (* the whole renderer *)
  Theorem g_render_tree o1 o2 width t1 t2 :
    (forall x y ls, SR x y -> SR (fmt_links x ls) (fmt_links y ls)) ->
    trel TI SOK t1 t2 -> SR (sub_new width o1) (sub_new width o2) ->
    rsm SR (render_tree d mw o1 width t1) (render_tree d mw o2 width t2).
  Proof.
    intros Hfmt HT H0. unfold render_tree.
    apply (rs_head md _ _ _ _ _ (est_rel d mw TI SOK (go_est _ _ _ _ _ _ ops) _ _ HT)
                   (est_ntn d mw _)).
    intros e _.
    eapply rs_bind.
    { apply (gnode_all _ _ HT [] []). split; [reflexivity|].
      exists (sub_new width o1), (sub_new width o2). cbn [stack]. auto. }
    intros a b (Hl & s1 & s2 & E1 & E2 & Hs). rewrite E1, E2, <- Hl.
    unfold sub_finalise. rewrite <- (go_foot _ _ _ _ _ _ ops _ _ Hs).
    destruct (if o_footnotes (sopts s1) then finalise_from 1 (links a) else []) as [|l ls];
      [exact Hs|].
    eapply rs_bind; [apply (go_start_block _ _ _ _ _ _ ops), Hs|]. intros x y Hxy. cbn [rs].
    apply Hfmt, Hxy.
  Qed.
End GSim.
Print Assumptions g_render_tree.

(* trel is reflexive when TI is and every style is allowed *)
Lemma trel_refl (TI : text -> text -> Prop) (SOK : cstyle -> Prop) :
  (forall t, TI t t) -> (forall s, SOK s) -> forall n, trel TI SOK n n.
Proof.
  intros HT HS. apply rnode_ind'. intros i sty IH.
  assert (K : forall cs, Forall (fun n => trel TI SOK n n) cs -> Forall2 (trel TI SOK) cs cs).
  { induction 1; constructor; auto. }
  assert (KC : forall cells, Forall (fun n => trel TI SOK n n) (flat_map cell_content cells) ->
                             Forall2 (cellrel TI SOK) cells cells).
  { induction cells as [|[n k s] cells IHc]; intros HF; constructor.
    - cbn [flat_map cell_content] in HF. apply Forall_app in HF. constructor; [apply HS|apply K, HF].
    - apply IHc. cbn [flat_map] in HF. apply Forall_app in HF. apply HF. }
  assert (KR : forall rows, Forall (fun n => trel TI SOK n n) (flat_map row_kids rows) ->
                            Forall2 (rowrel TI SOK) rows rows).
  { induction rows as [|[cells s] rows IHr]; intros HF; constructor.
    - cbn [flat_map] in HF. apply Forall_app in HF. constructor; [apply HS|]. apply KC, HF.
    - apply IHr. cbn [flat_map] in HF. apply Forall_app in HF. apply HF. }
  constructor; [apply HS|].
  destruct i; cbn [direct_kids] in IH; constructor; auto.
Qed.

(* ================================================================== *)
(* 4. PART A (C11): allowing width overflow                             *)
(* ================================================================== *)

(* the same wrapped block / sub-renderer with overflow allowed *)
Definition ovb (b : wblock) : wblock :=
  mkwb (wwidth b) (wtext b) (wline b) (spacetag b) (wword b) (wordlen b) (wslen b)
       (pre_wrapped b) (pad_blocks b) true.

Definition with_overflow (o : ropts) : ropts :=
  mkopts (wrap_width o) true (o_pad o) (o_raw o) (o_borders o) (o_wrap_links o)
         (o_footnotes o) (o_strike o).

Definition ovs (s : subr) : subr :=
  mksub (swidth_ s) (with_overflow (sopts s)) (slines s) (pending_frags s) (at_block_end s)
        (option_map ovb (wrapping s)) (ann_stack s) (filter_depth s) (pre_depth s) (ws_stack s).

Ltac oprj :=
  cbn [ovs ovb with_overflow option_map swidth_ sopts slines pending_frags at_block_end wrapping
       ann_stack filter_depth pre_depth ws_stack set_lines set_abe set_wrapping set_ann set_filter
       set_pre_depth set_ws_stack wrap_width o_allow_overflow o_pad o_raw o_borders o_wrap_links
       o_footnotes o_strike wwidth wtext wline spacetag wword wordlen wslen pre_wrapped pad_blocks
       allow_overflow] in *.

Ltac mle := cbn [rs bind]; try exact I; try (intros; discriminate).

(* ---- the wrapped block (from OptionRel) ---- *)
Lemma F2_eq_refl {A} (l : list A) : Forall2 eq l l.
Proof. induction l; constructor; auto. Qed.

Lemma ovb_Rel b :
  Rel (wwidth b) (pad_blocks b) (pad_blocks b) (allow_overflow b) true eq (ovb b) b.
Proof.
  exists (wtext b). split; [reflexivity|]. unfold RR. repeat split. apply F2_eq_refl.
Qed.

Lemma Rel_ovb W pad ovf b2 b : Rel W pad pad ovf true eq b2 b -> b2 = ovb b.
Proof.
  intros (tp & -> & HW & Hp & Ho & HF). apply OptionRel.Forall2_eq in HF. subst tp.
  unfold mk2, ovb. rewrite Hp. reflexivity.
Qed.

Lemma wb_add_text_ov b s m t1 t2 b' :
  wb_add_text b s m t1 t2 = Ok b' -> wb_add_text (ovb b) s m t1 t2 = Ok (ovb b').
Proof.
  intros H.
  pose proof (wb_add_text_sim (wwidth b) (pad_blocks b) (pad_blocks b) (allow_overflow b) true false eq
                (fun _ => eq_refl) (fun l t => simr_same true false _) (ovb b) b s m t1 t2
                (ovb_Rel b)) as S.
  rewrite H in S. cbn [simr] in S. destruct S as [(a & E & HR)|(F & _)]; [|discriminate].
  rewrite E. f_equal. eapply Rel_ovb, HR.
Qed.

Lemma wb_into_lines_ov b ls : wb_into_lines b = Ok ls -> wb_into_lines (ovb b) = Ok ls.
Proof.
  intros H.
  pose proof (wb_into_lines_sim (wwidth b) (pad_blocks b) (pad_blocks b) (allow_overflow b) true false eq
                (fun _ => eq_refl) (fun l t => simr_same true false _) (ovb b) b (ovb_Rel b)) as S.
  rewrite H in S. cbn [simr] in S. destruct S as [(a & E & HR)|(F & _)]; [|discriminate].
  rewrite E. f_equal. apply OptionRel.Forall2_eq, HR.
Qed.

Lemma wb_into_lines_markers_ov b lm :
  wb_into_lines_markers b = Ok lm -> wb_into_lines_markers (ovb b) = Ok lm.
Proof.
  intros H.
  pose proof (wb_into_lines_markers_sim (wwidth b) (pad_blocks b) (pad_blocks b) (allow_overflow b) true
                false eq (fun _ => eq_refl) (fun l t => simr_same true false _) (ovb b) b (ovb_Rel b)) as S.
  rewrite H in S. cbn [simr] in S. destruct S as [(a & E & HR & Hm)|(F & _)]; [|discriminate].
  rewrite E. f_equal. destruct a as [a1 a2], lm as [l1 l2]. cbn [fst snd] in *. subst a2. f_equal.
  apply OptionRel.Forall2_eq, HR.
Qed.

Lemma ttf_ov b :
  take_trailing_fragments (ovb b) =
  (ovb (fst (take_trailing_fragments b)), snd (take_trailing_fragments b)).
Proof. rewrite !ttf_eq. reflexivity. Qed.

Lemma wb_add_element_ov b e : wb_add_element (ovb b) e = ovb (wb_add_element b e).
Proof. destruct e as [s t|n]; cbn [wb_add_element]; [destruct s|]; reflexivity. Qed.

(* ---- the sub-renderer ---- *)
Lemma add_line_ovs s l : add_line (ovs s) l = ovs (add_line s l).
Proof. unfold add_line. oprj. destruct (pending_frags s), l; reflexivity. Qed.

Lemma extend_lines_ovs ls : forall s, extend_lines (ovs s) ls = ovs (extend_lines s ls).
Proof.
  unfold extend_lines. induction ls as [|l ls IH]; intros s; cbn [fold_left]; [reflexivity|].
  rewrite add_line_ovs. apply IH.
Qed.

Section PartA.
  Variables (d : deco) (mw : N) (o1 : ropts).

  (* run 1 has options o1, run 2 has o1 with overflow allowed; nothing else differs *)
  Definition RA (x y : subr) : Prop := sopts x = o1 /\ y = ovs x.

  Notation rsa := (rs MLe).

  Lemma RA_pure g :
    (forall s, g (ovs s) = ovs (g s)) -> (forall s, sopts (g s) = sopts s) -> pureR RA g.
  Proof. intros H1 H2 x y [Ho ->]. split; [rewrite H2; exact Ho|apply H1]. Qed.

  Lemma RA_pure_op g : pureR RA g -> gop MLe RA (fun s => Ok (g s)).
  Proof. intros H x y Hxy. cbn [rs]. apply H, Hxy. Qed.

  Lemma RA_bind f g : gop MLe RA f -> gop MLe RA g -> gop MLe RA (fun s => do x <- f s; g x).
  Proof. intros Hf Hg x y Hxy. eapply rs_bind; [apply Hf, Hxy|]. intros. apply Hg. assumption. Qed.

  Lemma RA_flush : gop MLe RA flush_wrapping.
  Proof.
    intros x y [Ho ->]. unfold flush_wrapping. oprj. destruct (wrapping x) as [w|]; cbn [option_map].
    - rewrite ttf_ov. destruct (take_trailing_fragments w) as [w1 frags]. cbn [fst snd].
      destruct (wb_into_lines_markers w1) as [[ls mk]| | |] eqn:E; mle.
      rewrite (wb_into_lines_markers_ov _ _ E). cbn [bind rs fst snd].
      change (set_wrapping (ovs x) None) with (ovs (set_wrapping x None)).
      rewrite extend_lines_ovs. oprj. split; [|reflexivity].
      destruct (extend_lines_same (map RText ls) (set_wrapping x None)) as [A B].
      oprj. rewrite B. exact Ho.
    - cbn [rs]. split; [exact Ho|reflexivity].
  Qed.

  Lemma RA_add_line l : pureR RA (fun s => add_line s l).
  Proof.
    apply RA_pure; [intros; apply add_line_ovs|].
    intros s. destruct (add_line_same s l) as (a & b & _). auto.
  Qed.

  Lemma RA_set_abe b : pureR RA (fun s => set_abe s b).
  Proof. apply RA_pure; intros; reflexivity. Qed.

  Lemma RA_add_empty_line : gop MLe RA add_empty_line.
  Proof.
    unfold add_empty_line. apply RA_bind; [apply RA_flush|]. apply RA_pure_op.
    intros x y H. apply (RA_set_abe false), (RA_add_line (RText tl_new)), H.
  Qed.

  Lemma RA_start_block : gop MLe RA start_block.
  Proof.
    intros x y Hxy. unfold start_block.
    eapply rs_bind; [apply RA_flush, Hxy|]. intros x1 y1 H1.
    assert (E : slines y1 = slines x1) by (destruct H1 as [_ ->]; reflexivity). rewrite E.
    eapply rs_bind with (P := RA).
    { destruct (existsb rline_has_content (slines x1)); [apply RA_add_empty_line, H1|exact H1]. }
    intros x2 y2 H2. cbn [rs]. apply (RA_set_abe false), H2.
  Qed.

  Lemma RA_new_line_hard : gop MLe RA new_line_hard.
  Proof.
    intros x y Hxy. unfold new_line_hard. pose proof Hxy as [Ho ->]. oprj.
    destruct (wrapping x) as [w|]; cbn [option_map]; [|apply RA_add_empty_line, Hxy]. oprj.
    destruct ((wordlen w =? 0) && (tlen_ (wline w) =? 0));
      [apply RA_add_empty_line, Hxy|apply RA_flush, Hxy].
  Qed.

  Lemma RA_hline b t : gop MLe RA (fun s => add_horizontal_line s b t).
  Proof.
    unfold add_horizontal_line. apply RA_bind; [apply RA_flush|]. apply RA_pure_op, RA_add_line.
  Qed.

  Lemma RA_hborder w : gop MLe RA (fun s => add_horizontal_border_width s w).
  Proof.
    intros x y Hxy. unfold add_horizontal_border_width.
    eapply rs_bind; [apply RA_flush, Hxy|]. intros x1 y1 H1.
    assert (E : ann_stack y1 = ann_stack x1) by (destruct H1 as [_ ->]; reflexivity). rewrite E.
    cbn [rs]. apply RA_add_line, H1.
  Qed.

  Lemma get_wrapping_ovs x : get_wrapping (ovs x) = ovb (get_wrapping x).
  Proof. unfold get_wrapping. oprj. destruct (wrapping x); reflexivity. Qed.

  Lemma RA_set_wrapping_ov x w : RA x (ovs x) -> RA (set_wrapping x (Some w)) (set_wrapping (ovs x) (Some (ovb w))).
  Proof. intros [Ho _]. split; [exact Ho|reflexivity]. Qed.

  Lemma RA_inline t : gop MLe RA (fun s => add_inline_text d s t).
  Proof.
    intros x y Hxy. unfold add_inline_text, ws_mode. pose proof Hxy as [Ho ->]. oprj.
    destruct (negb (preserve_ws match ws_stack x with m0 :: _ => m0 | [] => WsNormal end)
              && at_block_end x && all_ws t); [exact Hxy|].
    eapply rs_bind with (P := RA).
    { destruct (at_block_end x); [apply RA_start_block, Hxy|exact Hxy]. }
    intros x1 y1 H1. pose proof H1 as [Ho1 ->]. rewrite get_wrapping_ovs. oprj.
    match goal with |- rs _ _ (bind ?e _) _ => destruct e as [w1| | |] eqn:E; mle end.
    rewrite (wb_add_text_ov _ _ _ _ _ _ E). cbn [bind rs]. apply RA_set_wrapping_ov, H1.
  Qed.

  Lemma RA_push_ann a : pureR RA (fun s => push_ann s a).
  Proof. apply RA_pure; intros; reflexivity. Qed.
  Lemma RA_pop_ann : pureR RA pop_ann.
  Proof. apply RA_pure; intros; reflexivity. Qed.

  Lemma RA_start_deco p : gop MLe RA (fun s => start_deco d s p).
  Proof. intros x y Hxy. unfold start_deco. apply RA_inline, RA_push_ann, Hxy. Qed.
  Lemma RA_end_deco e : gop MLe RA (fun s => end_deco d s e).
  Proof. unfold end_deco. apply RA_bind; [apply RA_inline|apply RA_pure_op, RA_pop_ann]. Qed.

  Lemma RA_set_filter n : pureR RA (fun s => set_filter s n).
  Proof. apply RA_pure; intros; reflexivity. Qed.

  Lemma RA_start_strikeout : gop MLe RA (start_strikeout d).
  Proof.
    intros x y Hxy. unfold start_strikeout.
    eapply rs_bind; [apply RA_start_deco, Hxy|]. intros x1 y1 H1. cbn [rs].
    pose proof H1 as [Ho1 ->]. oprj.
    destruct (o_strike (sopts x1)); [apply (RA_set_filter (S (filter_depth x1))), H1|exact H1].
  Qed.

  Lemma RA_end_strikeout : gop MLe RA (end_strikeout d).
  Proof.
    intros x y Hxy. unfold end_strikeout. pose proof Hxy as [Ho ->]. oprj.
    eapply rs_bind with (P := RA); [|intros; apply RA_end_deco; assumption].
    destruct (o_strike (sopts x)); [|exact Hxy].
    destruct (filter_depth x); [mle|]. cbn [rs]. apply RA_set_filter, Hxy.
  Qed.

  Lemma RA_image src t : gop MLe RA (fun s => add_image d s src t).
  Proof.
    intros x y Hxy. unfold add_image.
    eapply rs_bind; [apply RA_inline, RA_push_ann, Hxy|]. intros x1 y1 H1.
    cbn [rs]. apply RA_pop_ann, H1.
  Qed.

  Lemma RA_frag n : pureR RA (fun s => record_frag_start s n).
  Proof.
    intros x y Hxy. unfold record_frag_start. pose proof Hxy as [Ho ->].
    rewrite get_wrapping_ovs, wb_add_element_ov. apply RA_set_wrapping_ov, Hxy.
  Qed.

  Lemma RA_sub_into_lines x y : RA x y -> rsa eq (sub_into_lines x) (sub_into_lines y).
  Proof.
    intros Hxy. unfold sub_into_lines.
    eapply rs_bind; [apply RA_flush, Hxy|]. intros x1 y1 [_ ->]. cbn [rs]. reflexivity.
  Qed.

  Lemma RA_append x y u v f r :
    RA x y -> RA u v -> rsa RA (append_subrender x u f r) (append_subrender y v f r).
  Proof.
    intros Hxy Huv. unfold append_subrender.
    eapply rs_bind; [apply RA_flush, Hxy|]. intros x1 y1 H1.
    eapply rs_bind; [apply RA_sub_into_lines, Huv|]. intros ols ols' <-. cbn [rs].
    destruct H1 as [Ho ->]. oprj. rewrite extend_lines_ovs. split; [|reflexivity].
    destruct (extend_lines_same (attach_prefixes (ann_stack x1) f r ols) x1) as [A B]. congruence.
  Qed.

  Lemma RA_width_minus x y p mn : RA x y -> rsa eq (width_minus x p mn) (width_minus y p mn).
  Proof.
    intros [Ho ->]. unfold width_minus. oprj. cbn [negb]. rewrite andb_false_r.
    destruct (((swidth_ x - p <? mn) || (swidth_ x <? p)) && negb (o_allow_overflow (sopts x))) eqn:E;
      mle. cbn [rs]. reflexivity.
  Qed.

  Lemma RA_new u v w : RA u v -> RA (new_sub_renderer u w) (new_sub_renderer v w).
  Proof. intros [Ho ->]. split; [exact Ho|reflexivity]. Qed.

  Lemma RA_sub_empty u v : RA u v -> sub_empty u = sub_empty v.
  Proof. intros [_ ->]. unfold sub_empty. oprj. destruct (slines u), (wrapping u); reflexivity. Qed.

  (* ---- append_vert_row ---- *)
  Lemma RA_vert_cols : forall us vs x y first,
    RA x y -> Forall2 RA us vs -> rsa RA (vert_cols x us first) (vert_cols y vs first).
  Proof.
    induction us as [|u us IH]; intros vs x y first Hxy Huv; inversion Huv as [|? v ? vs' Huv1 Huv2];
      subst; cbn [vert_cols]; [exact Hxy|].
    eapply rs_bind with (P := RA).
    { pose proof Hxy as [Ho ->]. oprj.
      destruct (negb first && o_borders (sopts x)); [apply RA_hline, Hxy|exact Hxy]. }
    intros x1 y1 H1.
    eapply rs_bind; [apply RA_append; eassumption|]. intros x2 y2 H2. apply IH; assumption.
  Qed.

  Lemma RA_vert x y us vs :
    RA x y -> Forall2 RA us vs -> rsa RA (append_vert_row x us) (append_vert_row y vs).
  Proof.
    intros Hxy Huv. unfold append_vert_row.
    eapply rs_bind; [apply RA_flush, Hxy|]. intros x1 y1 H1.
    eapply rs_bind; [apply RA_vert_cols; eassumption|]. intros x2 y2 H2.
    pose proof H2 as [Ho2 ->]. oprj.
    destruct (o_borders (sopts x2)); [|exact H2].
    unfold add_horizontal_border. oprj. apply RA_hborder, H2.
  Qed.

  (* ---- append_columns_with_borders ---- *)
  Lemma RA_col_line_sets t : forall us vs,
    Forall2 RA us vs -> rsa eq (col_line_sets t us) (col_line_sets t vs).
  Proof.
    induction us as [|u us IH]; intros vs Huv; inversion Huv as [|? v ? vs' Huv1 Huv2]; subst;
      cbn [col_line_sets]; [reflexivity|].
    eapply rs_bind; [apply RA_sub_into_lines, Huv1|]. intros ls ls' <-.
    assert (Ew : swidth_ v = swidth_ u) by (destruct Huv1 as [_ ->]; reflexivity). rewrite Ew.
    destruct (pad_cell_lines (swidth_ u) t ls) as [pls| | |]; mle.
    eapply rs_bind; [apply IH, Huv2|]. intros r r' <-. cbn [rs]. reflexivity.
  Qed.

  Lemma row_lines_ovs t draw sets pads : forall n i s,
    row_lines t draw n i sets pads (ovs s) = ovs (row_lines t draw n i sets pads s).
  Proof.
    induction n as [|n IH]; intros i s; cbn [row_lines]; [reflexivity|].
    rewrite add_line_ovs. apply IH.
  Qed.

  Lemma RA_cols x y us vs collapse :
    RA x y -> Forall2 RA us vs ->
    rsa RA (append_columns_with_borders x us collapse) (append_columns_with_borders y vs collapse).
  Proof.
    intros Hxy Huv. unfold append_columns_with_borders.
    eapply rs_bind; [apply RA_flush, Hxy|]. intros x1 y1 H1.
    pose proof H1 as [Ho1 ->]. oprj.
    eapply rs_bind; [apply (RA_col_line_sets (ann_stack x1)), Huv|]. intros sets sets' <-.
    destruct (match sets with [] => Panic 36 | _ :: _ => Ok tt end) as [[]| | |]; mle.
    match goal with
    | |- rs _ _ (let '(p1, n1) := ?e in _) _ => destruct e as [prev1 next1]
    end.
    match goal with
    | |- rs _ _ (bind ?e _) (bind ?e _) =>
      destruct e as [[[[prev3 next3] sets4] pads]| | |]; mle
    end.
    set (lines1 := match olast (slines x1) with
                   | Some (RLine _ pt) =>
                     match prev3 with
                     | Some pb => replace_last (slines x1) (RLine pb pt)
                     | None => slines x1
                     end
                   | _ => slines x1
                   end).
    change (set_lines (ovs x1) lines1 (pending_frags x1))
      with (ovs (set_lines x1 lines1 (pending_frags x1))).
    rewrite row_lines_ovs. oprj.
    set (s3 := row_lines _ _ _ _ _ _ _).
    assert (Hg3 : sopts s3 = o1).
    { subst s3.
      match goal with
      | |- sopts (row_lines ?t ?dr ?n ?i ?sets ?pads ?s) = _ =>
        destruct (row_lines_same t dr sets pads n i s) as [A B]
      end. rewrite B. exact Ho1. }
    destruct (o_borders (sopts x1)).
    - rewrite add_line_ovs. split; [|reflexivity].
      destruct (add_line_same s3 (RLine next3 (ann_stack x1))) as (a & b & _). congruence.
    - split; [exact Hg3|reflexivity].
  Qed.

  Lemma RA_ops : GOps MLe d mw RA eq (fun _ => True).
  Proof.
    constructor.
    - intros r g b. apply RA_pure; intros; unfold push_colour; destruct (d_colours d); reflexivity.
    - intros r g b. apply RA_pure; intros; unfold push_bgcolour; destruct (d_colours d); reflexivity.
    - intros cs mo _ _. apply RA_pure; intros; reflexivity.
    - apply RA_pure; intros; reflexivity.
    - apply RA_pure; intros; unfold pop_colour; destruct (d_colours d); reflexivity.
    - apply RA_pure; intros; reflexivity.
    - intros x y Hxy. unfold pop_preformat. pose proof Hxy as [Ho ->]. oprj.
      destruct (0 <? pre_depth x); mle. cbn [rs]. split; [exact Ho|reflexivity].
    - intros t1 t2 <-. apply RA_inline.
    - apply RA_inline.
    - intros t1 t2 <-. reflexivity.
    - intros t1 t2 <- _. reflexivity.
    - intros h. apply RA_start_deco.
    - apply (RA_end_deco (d_link_end d)).
    - intros x y [_ ->]. reflexivity.
    - apply (RA_start_deco (d_em_start d)).
    - apply (RA_end_deco (d_em_end d)).
    - apply (RA_start_deco (d_strong_start d)).
    - apply (RA_end_deco (d_strong_end d)).
    - apply RA_start_strikeout.
    - apply RA_end_strikeout.
    - apply (RA_start_deco (d_code_start d)).
    - apply (RA_end_deco (d_code_end d)).
    - apply (RA_start_deco (d_sup_start d)).
    - apply (RA_end_deco (d_sup_end d)).
    - apply RA_image.
    - apply RA_start_block.
    - apply (RA_set_abe true).
    - apply RA_flush.
    - apply RA_new_line_hard.
    - apply RA_frag.
    - intros; apply RA_width_minus; assumption.
    - intros; apply RA_new; assumption.
    - intros; apply RA_append; assumption.
    - intros x y [_ ->]. reflexivity.
    - intros x y [_ ->]. reflexivity.
    - intros x y [_ ->]. reflexivity.
    - apply RA_hborder.
    - intros; apply RA_vert; assumption.
    - intros; apply RA_cols; assumption.
    - apply RA_sub_empty.
  Qed.
End PartA.

(* ---- the footnote list ---- *)
Lemma fl_chars_ovs t : forall cs s buf wl pos,
  fl_chars (ovs s) t cs buf wl pos =
  (let '(s', b, w, p) := fl_chars s t cs buf wl pos in (ovs s', b, w, p)).
Proof.
  induction cs as [|c cs IH]; intros s buf wl pos; cbn [fl_chars]; [reflexivity|]. oprj.
  destruct (swidth_ s <? pos + cw0 c); [rewrite add_line_ovs|]; apply IH.
Qed.

Lemma fl_strings_ovs : forall sl s wl pos,
  fl_strings (ovs s) sl wl pos = (let '(s', w) := fl_strings s sl wl pos in (ovs s', w)).
Proof.
  induction sl as [|[str tg] sl IH]; intros s wl pos; cbn [fl_strings]; [reflexivity|]. oprj.
  destruct (o_wrap_links (sopts s) && (swidth_ s <? pos + swidth (nl_to_space str))); [|apply IH].
  rewrite fl_chars_ovs.
  destruct (fl_chars s [ADefault] (nl_to_space str) [] wl pos) as [[[s1 buf] wl1] pos1]. apply IH.
Qed.

Lemma fmt_links_ovs : forall links s, fmt_links (ovs s) links = ovs (fmt_links s links).
Proof.
  induction links as [|l links IH]; intros s; cbn [fmt_links]; [reflexivity|].
  rewrite fl_strings_ovs. destruct (fl_strings s (tl_tagged_strings l) tl_new 0) as [s1 wl].
  rewrite add_line_ovs. apply IH.
Qed.

Lemma fmt_links_sopts links s : sopts (fmt_links s links) = sopts s.
Proof. destruct (fmt_links_reopt (sopts s) links s eq_refl) as (_ & _ & E). exact E. Qed.

(* MAIN THEOREM A1 (C11, third clause), whole renderer.  o2 = o1 with allow_width_overflow.
   If the rendering with o1 succeeds, so does the rendering with o2, and the resulting
   sub-renderers are equal except for the stored options and the overflow flag of the pending
   wrapped block (`ovs`); every successful flush of the first is the flush of the second. *)
Theorem c11_overflow_noop_render d mw o1 width tree s1 :
  render_tree d mw o1 width tree = Ok s1 ->
  render_tree d mw (with_overflow o1) width tree = Ok (ovs s1) /\
  (forall ls, sub_into_lines s1 = Ok ls -> sub_into_lines (ovs s1) = Ok ls).
Proof.
  intros H.
  pose proof (g_render_tree MLe d mw (RA o1) eq (fun _ => True) (RA_ops d mw o1)
                o1 (with_overflow o1) width tree tree) as S.
  assert (S' : rs MLe (RA o1) (render_tree d mw o1 width tree)
                             (render_tree d mw (with_overflow o1) width tree)).
  { apply S.
    - intros x y ls [Ho ->]. split; [rewrite fmt_links_sopts; exact Ho|apply fmt_links_ovs].
    - apply trel_refl; auto.
    - split; reflexivity. }
  destruct (rs_ok_l _ _ _ _ _ S' H) as (s2 & E2 & Ho & ->). split; [exact E2|].
  intros ls Hls. pose proof (RA_sub_into_lines o1 s1 (ovs s1) (conj Ho eq_refl)) as R.
  rewrite Hls in R. cbn [rs] in R. destruct (sub_into_lines (ovs s1)); try contradiction. congruence.
Qed.
Print Assumptions c11_overflow_noop_render.

(* the same for two option records that differ only in the flag *)
Definition same_but_overflow (o1 o2 : ropts) : Prop :=
  wrap_width o2 = wrap_width o1 /\ o_pad o2 = o_pad o1 /\ o_raw o2 = o_raw o1 /\
  o_borders o2 = o_borders o1 /\ o_wrap_links o2 = o_wrap_links o1 /\
  o_footnotes o2 = o_footnotes o1 /\ o_strike o2 = o_strike o1.

Corollary c11_overflow_noop_render2 d mw o1 o2 width tree s1 :
  same_but_overflow o1 o2 -> o_allow_overflow o1 = false -> o_allow_overflow o2 = true ->
  render_tree d mw o1 width tree = Ok s1 ->
  exists s2, render_tree d mw o2 width tree = Ok s2 /\ s2 = ovs s1 /\
             (forall ls, sub_into_lines s1 = Ok ls -> sub_into_lines s2 = Ok ls).
Proof.
  intros (A & B & C & D & E & F & G) _ Ho2 H.
  assert (Eo : o2 = with_overflow o1).
  { destruct o2. unfold with_overflow. cbn in *. congruence. }
  subst o2. destruct (c11_overflow_noop_render d mw o1 width tree s1 H) as [E2 K]. eauto.
Qed.
Print Assumptions c11_overflow_noop_render2.

(* through the public routes: if the route without allow_width_overflow returns Ok, the route
   with it returns the same value.  (No hypothesis `c_overflow c = false` is needed: when the
   flag is already set, set_overflow changes nothing.) *)
Section RoutesA.
  Variable inl : list (text * text) -> res (list styledecl).
  Variable dr : list node -> res (list ruleset).

  Lemma c11_render_with_context c tree w s :
    render_with_context c tree w = Ok s ->
    render_with_context (set_overflow c) tree w = Ok (ovs s) /\
    (forall ls, sub_into_lines s = Ok ls -> sub_into_lines (ovs s) = Ok ls).
  Proof.
    unfold render_with_context. destruct (w =? 0); [discriminate|]. intros H.
    apply (c11_overflow_noop_render _ _ (render_options c)), H.
  Qed.

  Theorem c11_lines_from_read c doc w r :
    lines_from_read inl dr c doc w = Ok r -> lines_from_read inl dr (set_overflow c) doc w = Ok r.
  Proof.
    unfold lines_from_read. intros H.
    change (to_render_tree inl dr (set_overflow c) doc) with (to_render_tree inl dr c doc).
    bind_inv H tree Ht. rewrite Ht. cbn [bind]. bind_inv H s Hs. bind_inv H ls Hls.
    destruct (c11_render_with_context c tree w s Hs) as [E K]. rewrite E. cbn [bind].
    rewrite (K ls Hls). exact H.
  Qed.

  Theorem c11_string_from_read c doc w r :
    string_from_read inl dr c doc w = Ok r -> string_from_read inl dr (set_overflow c) doc w = Ok r.
  Proof.
    unfold string_from_read. intros H.
    change (to_render_tree inl dr (set_overflow c) doc) with (to_render_tree inl dr c doc).
    bind_inv H tree Ht. rewrite Ht. cbn [bind]. bind_inv H s Hs.
    destruct (c11_render_with_context c tree w s Hs) as [E K]. rewrite E. cbn [bind].
    unfold sub_into_string in *. bind_inv H ls Hls. rewrite (K ls Hls). exact H.
  Qed.
End RoutesA.
Print Assumptions c11_lines_from_read.
Print Assumptions c11_string_from_read.

(* ---- non-vacuity of Part A ---- *)
(* the tree of RenderWidth (paragraph, table, ul, ol) at width 12 renders without overflow
   (14 lines): the theorem applies and gives the same 14 lines with overflow allowed *)
Definition exa_s1 : subr :=
  match render_tree plain_deco 3 exb_opts 12 ex_tree with Ok s => s | _ => sub_new 0 exb_opts end.
Example exa_render_eq : render_tree plain_deco 3 exb_opts 12 ex_tree = Ok exa_s1.
Proof. vm_compute. reflexivity. Qed.
Example exa_lines : exists ls, sub_into_lines exa_s1 = Ok ls /\ length ls = 14%nat.
Proof. eexists. split; vm_compute; reflexivity. Qed.
Example exa_applies :
  render_tree plain_deco 3 (with_overflow exb_opts) 12 ex_tree = Ok (ovs exa_s1) /\
  exists ls, sub_into_lines exa_s1 = Ok ls /\ length ls = 14%nat /\ sub_into_lines (ovs exa_s1) = Ok ls.
Proof.
  destruct (c11_overflow_noop_render plain_deco 3 exb_opts 12 ex_tree exa_s1 exa_render_eq) as [E2 K].
  split; [exact E2|].
  destruct exa_lines as (ls & E & L). exists ls. split; [exact E|]. split; [exact L|exact (K ls E)].
Qed.

(* the statement is one-directional for a reason: <blockquote>ab c d</blockquote> at width 2 is
   TooNarrow without the flag and Ok with it *)
Example exa_converse_fails :
  render_tree plain_deco 3 exb_opts 2 cexb_tree = TooNarrow /\
  out_of (render_tree plain_deco 3 (with_overflow exb_opts) 2 cexb_tree)
    = Ok [[62;32;97;98]; [62;32;99;32;100]].
Proof. split; vm_compute; reflexivity. Qed.

(* why the theorem speaks about successful flushes only: render_tree leaves the last word
   pending; a width-2 character at width 1 renders Ok without the flag, but its flush
   (sub_into_lines, done by the routes) is TooNarrow -- with the flag it is Ok.  So
   `sub_into_lines s2 = sub_into_lines s1` does NOT hold for all successful renderings;
   through the routes (which flush) the statement is the plain one. *)
Definition exa_wide : rnode := ex_n (IText [mk 19990 2]).
Definition exa_s1w : subr :=
  match render_tree plain_deco 3 exb_opts 1 exa_wide with Ok s => s | _ => sub_new 0 exb_opts end.
Example exa_pending_flush :
  render_tree plain_deco 3 exb_opts 1 exa_wide = Ok exa_s1w /\ sub_into_lines exa_s1w = TooNarrow /\
  out_of (render_tree plain_deco 3 (with_overflow exb_opts) 1 exa_wide) = Ok [[19990]].
Proof. split; [|split]; vm_compute; reflexivity. Qed.

(* ================================================================== *)
(* 5. PART B (C13): runs of collapsible whitespace                      *)
(* ================================================================== *)

(* ---- normal form of a text: every maximal run of whitespace characters (leading and
   trailing runs included) becomes ONE canonical space ---- *)
Fixpoint norm_loop (in_ws : bool) (t : text) : text :=
  match t with
  | [] => []
  | c :: t' =>
    if ws c then (if in_ws then norm_loop true t' else space :: norm_loop true t')
    else c :: norm_loop false t'
  end.
Definition normalise (t : text) : text := norm_loop false t.

(* (i) the size estimate depends only on the normal form *)
Lemma tll_norm : forall t g f len, (g = true -> f = true) ->
  text_len_loop (norm_loop g t) f len = text_len_loop t f len.
Proof.
  induction t as [|c t IH]; intros g f len Hg; cbn [norm_loop text_len_loop]; [reflexivity|].
  destruct (ws c) eqn:Ec.
  - destruct g.
    + rewrite (Hg eq_refl). apply IH. auto.
    + cbn [text_len_loop]. change (ws space) with true. cbn iota. apply IH. auto.
  - cbn [text_len_loop]. rewrite Ec. apply IH. discriminate.
Qed.

Lemma tll_all_ws : forall w f len, all_ws w = true -> text_len_loop w f len = len.
Proof.
  induction w as [|c w IH]; intros f len H; cbn [text_len_loop]; [reflexivity|].
  cbn [all_ws forallb] in H. apply andb_true_iff in H. destruct H as [Hc Hw]. rewrite Hc.
  apply IH, Hw.
Qed.

Lemma tll_app_ws : forall x w f len, all_ws w = true ->
  text_len_loop (x ++ w) f len = text_len_loop x f len.
Proof.
  induction x as [|c x IH]; intros w f len H; cbn [app text_len_loop]; [apply tll_all_ws, H|].
  destruct (ws c); apply IH, H.
Qed.

Lemma drop_ws_split : forall r, exists p, r = p ++ drop_ws r /\ all_ws p = true.
Proof.
  induction r as [|c r (p & E & Hp)]; [exists []; auto|]. cbn [drop_ws]. destruct (ws c) eqn:Ec.
  - exists (c :: p). cbn [app all_ws forallb]. rewrite Ec. split; [f_equal; exact E|exact Hp].
  - exists []. auto.
Qed.

Lemma all_ws_rev p : all_ws p = true -> all_ws (rev p) = true.
Proof.
  unfold all_ws. rewrite !forallb_forall. intros H x Hx. apply H, in_rev, Hx.
Qed.

Lemma tll_trim t f len : text_len_loop (trim t) f len = text_len_loop (drop_ws t) f len.
Proof.
  unfold trim. destruct (drop_ws_split (rev (drop_ws t))) as (p & E & Hp).
  assert (E' : drop_ws t = rev (drop_ws (rev (drop_ws t))) ++ rev p).
  { rewrite <- rev_app_distr, <- E, rev_involutive. reflexivity. }
  rewrite E' at 2. rewrite tll_app_ws; [reflexivity|apply all_ws_rev, Hp].
Qed.

Lemma drop_ws_norm : forall t g, drop_ws (norm_loop g t) = norm_loop false (drop_ws t).
Proof.
  induction t as [|c t IH]; intros g; cbn [norm_loop drop_ws]; [reflexivity|].
  destruct (ws c) eqn:Ec.
  - destruct g; [apply IH|]. cbn [drop_ws]. change (ws space) with true. cbn iota. apply IH.
  - cbn [drop_ws norm_loop]. rewrite Ec. reflexivity.
Qed.

Lemma text_est_norm mw t img : text_est mw (normalise t) img = text_est mw t img.
Proof.
  unfold text_est, normalise. rewrite !tll_trim, drop_ws_norm, tll_norm by discriminate.
  destruct t as [|c t]; cbn [norm_loop]; [reflexivity|].
  destruct (ws c) eqn:Ec; [change (ws space) with true|rewrite Ec]; reflexivity.
Qed.

(* a counter-check that the estimate really looks at the normal form only: two texts with the
   same normal form *)
Lemma all_ws_norm : forall t g, all_ws (norm_loop g t) = all_ws t.
Proof.
  induction t as [|c t IH]; intros g; cbn [norm_loop]; [reflexivity|].
  unfold all_ws in *. cbn [forallb]. destruct (ws c) eqn:Ec.
  - destruct g; cbn [forallb andb]; [apply IH|]. change (ws space) with true. cbn [andb]. apply IH.
  - cbn [forallb]. rewrite Ec. reflexivity.
Qed.

(* the strikeout filter commutes with normalisation *)
Lemma filter_strikeout_norm : forall t g,
  filter_strikeout (norm_loop g t) = norm_loop g (filter_strikeout t).
Proof.
  induction t as [|c t IH]; intros g; [reflexivity|].
  unfold filter_strikeout in *. cbn [norm_loop flat_map]. destruct (ws c) eqn:Ec.
  - cbn [negb andb app norm_loop]. rewrite Ec.
    destruct g; [apply IH|]. cbn [flat_map]. change (ws space) with true. cbn [negb andb app].
    f_equal. apply IH.
  - cbn [flat_map]. rewrite Ec. cbn [negb andb].
    destruct (0 <? cw0 c); cbn [app norm_loop]; rewrite Ec; [change (ws strike_chr) with false|];
      cbn iota; rewrite IH; reflexivity.
Qed.

Lemma apply_filters_norm : forall n t, apply_filters n (normalise t) = normalise (apply_filters n t).
Proof.
  induction n as [|n IH]; intros t; cbn [apply_filters]; [reflexivity|].
  unfold normalise in *. rewrite filter_strikeout_norm. apply IH.
Qed.

(* (ii) in normal white-space mode the wrapped block cannot tell a text from its normal form *)
Lemma add_chars_norm t1 t2 : forall s g st,
  (g = true -> exists b u c, ws c = true /\ add_char WsNormal t1 t2 (b, u) c = Ok st) ->
  add_chars WsNormal t1 t2 st (norm_loop g s) = add_chars WsNormal t1 t2 st s.
Proof.
  induction s as [|c s IH]; intros g st Hg; cbn [norm_loop add_chars]; [reflexivity|].
  destruct (ws c) eqn:Ec.
  - destruct g.
    + destruct (Hg eq_refl) as (b & u & c0 & Hc0 & E0).
      rewrite (add_char_normal_ws_idem t1 t2 b u c0 c st Hc0 Ec E0). cbn [bind].
      apply IH. intros _. exists b, u, c0. auto.
    + cbn [add_chars]. rewrite (add_char_normal_ws_indep t1 t2 st space c eq_refl Ec).
      destruct (add_char WsNormal t1 t2 st c) as [st'| | |] eqn:E; cbn [bind]; try reflexivity.
      apply IH. intros _. destruct st as [b u]. exists b, u, c. auto.
  - cbn [add_chars]. destruct (add_char WsNormal t1 t2 st c) as [st'| | |]; cbn [bind]; try reflexivity.
    apply IH. discriminate.
Qed.

Lemma wb_add_text_norm b s t1 t2 :
  wb_add_text b (normalise s) WsNormal t1 t2 = wb_add_text b s WsNormal t1 t2.
Proof. unfold wb_add_text, normalise. rewrite add_chars_norm; [reflexivity|discriminate]. Qed.

(* ---- what the sub-renderer operations keep: the white-space mode stack and the options ---- *)
Definition km (s : subr) : list wsmode * ropts := (ws_stack s, sopts s).

Lemma km_add_line s l : km (add_line s l) = km s.
Proof. unfold add_line. destruct (pending_frags s); destruct l; reflexivity. Qed.

Lemma km_extend_lines ls : forall s, km (extend_lines s ls) = km s.
Proof.
  unfold extend_lines. induction ls as [|l ls IH]; intros s; cbn [fold_left]; [reflexivity|].
  rewrite IH. apply km_add_line.
Qed.

Lemma km_flush_wrapping s s' : flush_wrapping s = Ok s' -> km s' = km s.
Proof.
  unfold flush_wrapping. destruct (wrapping s) as [w|]; [|intros H; ok_inv H; reflexivity].
  destruct (take_trailing_fragments w) as [w1 frags]. intros H. bind_inv H lm Hlm. ok_inv H.
  transitivity (km (extend_lines (set_wrapping s None) (map RText (fst lm)))); [reflexivity|].
  rewrite km_extend_lines. reflexivity.
Qed.

Lemma km_add_empty_line s s' : add_empty_line s = Ok s' -> km s' = km s.
Proof.
  unfold add_empty_line. intros H. bind_inv H s1 H1. ok_inv H.
  transitivity (km (add_line s1 (RText tl_new))); [reflexivity|].
  rewrite km_add_line. eapply km_flush_wrapping, H1.
Qed.

Lemma km_start_block s s' : start_block s = Ok s' -> km s' = km s.
Proof.
  unfold start_block. intros H. bind_inv H s1 H1. bind_inv H s2 H2. ok_inv H.
  transitivity (km s2); [reflexivity|].
  transitivity (km s1); [|eapply km_flush_wrapping, H1].
  destruct (existsb rline_has_content (slines s1)).
  - eapply km_add_empty_line, H2.
  - ok_inv H2. reflexivity.
Qed.

Lemma km_new_line_hard s s' : new_line_hard s = Ok s' -> km s' = km s.
Proof.
  unfold new_line_hard. intros H. destruct (wrapping s) as [w|].
  - destruct ((wordlen w =? 0) && (tlen_ (wline w) =? 0)).
    + eapply km_add_empty_line, H.
    + eapply km_flush_wrapping, H.
  - eapply km_add_empty_line, H.
Qed.

Lemma km_add_horizontal_line s b t s' : add_horizontal_line s b t = Ok s' -> km s' = km s.
Proof.
  unfold add_horizontal_line. intros H. bind_inv H s1 H1. ok_inv H.
  rewrite km_add_line. eapply km_flush_wrapping, H1.
Qed.

Lemma km_hborder s w s' : add_horizontal_border_width s w = Ok s' -> km s' = km s.
Proof.
  unfold add_horizontal_border_width. intros H. bind_inv H s1 H1. ok_inv H.
  rewrite km_add_line. eapply km_flush_wrapping, H1.
Qed.

Lemma km_add_inline_text d s t s' : add_inline_text d s t = Ok s' -> km s' = km s.
Proof.
  unfold add_inline_text. intros H.
  destruct (negb (preserve_ws (ws_mode s)) && at_block_end s && all_ws t); [ok_inv H; reflexivity|].
  bind_inv H s1 H1. bind_inv H w1 Hw1. ok_inv H.
  transitivity (km s1); [reflexivity|].
  destruct (at_block_end s); [eapply km_start_block, H1|ok_inv H1; reflexivity].
Qed.

Lemma km_start_deco d s p s' : start_deco d s p = Ok s' -> km s' = km s.
Proof. unfold start_deco. intros H. apply km_add_inline_text in H. rewrite H. reflexivity. Qed.

Lemma km_end_deco d s e s' : end_deco d s e = Ok s' -> km s' = km s.
Proof.
  unfold end_deco. intros H. bind_inv H s1 H1. ok_inv H. apply km_add_inline_text in H1.
  rewrite <- H1. reflexivity.
Qed.

Lemma km_start_strikeout d s s' : start_strikeout d s = Ok s' -> km s' = km s.
Proof.
  unfold start_strikeout. intros H. bind_inv H s1 H1. ok_inv H. apply km_start_deco in H1.
  rewrite <- H1. destruct (o_strike (sopts s1)); reflexivity.
Qed.

Lemma km_end_strikeout d s s' : end_strikeout d s = Ok s' -> km s' = km s.
Proof.
  unfold end_strikeout. intros H. bind_inv H s1 H1. apply km_end_deco in H. rewrite H.
  destruct (o_strike (sopts s)); [|ok_inv H1; reflexivity].
  destruct (filter_depth s) as [|n]; [discriminate|]. ok_inv H1. reflexivity.
Qed.

Lemma km_add_image d s src title s' : add_image d s src title = Ok s' -> km s' = km s.
Proof.
  unfold add_image. intros H. bind_inv H s1 H1. ok_inv H. apply km_add_inline_text in H1.
  transitivity (km s1); [reflexivity|]. rewrite H1. reflexivity.
Qed.

Lemma km_append_subrender s other first rest s' :
  append_subrender s other first rest = Ok s' -> km s' = km s.
Proof.
  unfold append_subrender. intros H. bind_inv H s1 H1. bind_inv H ols H2. ok_inv H.
  rewrite km_extend_lines. eapply km_flush_wrapping, H1.
Qed.

Lemma km_row_lines t draw sets pads : forall n i s, km (row_lines t draw n i sets pads s) = km s.
Proof.
  induction n as [|n IH]; intros i s; cbn [row_lines]; [reflexivity|].
  rewrite IH. apply km_add_line.
Qed.

Lemma km_append_columns s cols collapse s' :
  append_columns_with_borders s cols collapse = Ok s' -> km s' = km s.
Proof.
  unfold append_columns_with_borders. intros H. bind_inv H s1 H1. bind_inv H sets H2.
  bind_inv H chk H3.
  destruct (match olast (slines s1) with
            | Some (RLine pb pt) =>
              let '(p, n) := join_cols (map fst sets) pb
                               (border_new (sumN (map fst sets) + (N.of_nat (length sets) - 1))) 0 in
              (Some p, n)
            | _ => (None, border_new (sumN (map fst sets) + (N.of_nat (length sets) - 1)))
            end) as [prev1 next1].
  bind_inv H r H4. destruct r as [[[prev3 next3] sets4] pads]. ok_inv H.
  apply km_flush_wrapping in H1. rewrite <- H1.
  match goal with |- km (if ?c then _ else _) = _ => destruct c end;
    rewrite ?km_add_line, km_row_lines; reflexivity.
Qed.

Lemma km_vert_cols : forall cols s first s', vert_cols s cols first = Ok s' -> km s' = km s.
Proof.
  induction cols as [|c cols IH]; intros s first s' H; cbn [vert_cols] in H; [ok_inv H; reflexivity|].
  bind_inv H s1 H1. bind_inv H s2 H2. apply IH in H. rewrite H.
  apply km_append_subrender in H2. rewrite H2.
  destruct (negb first && o_borders (sopts s)).
  - eapply km_add_horizontal_line, H1.
  - ok_inv H1. reflexivity.
Qed.

Lemma km_append_vert_row s cols s' : append_vert_row s cols = Ok s' -> km s' = km s.
Proof.
  unfold append_vert_row. intros H. bind_inv H s1 H1. bind_inv H s2 H2.
  apply km_flush_wrapping in H1. apply km_vert_cols in H2.
  destruct (o_borders (sopts s2)).
  - apply km_hborder in H. congruence.
  - ok_inv H. congruence.
Qed.

Lemma km_fmt_links : forall links s, km (fmt_links s links) = km s.
Proof.
  assert (K1 : forall t cs s buf wl pos, km (fst (fst (fst (fl_chars s t cs buf wl pos)))) = km s).
  { intros t. induction cs as [|c cs IH]; intros s buf wl pos; cbn [fl_chars]; [reflexivity|].
    destruct (swidth_ s <? pos + cw0 c); rewrite IH; [apply km_add_line|reflexivity]. }
  assert (K2 : forall strs s wl pos, km (fst (fl_strings s strs wl pos)) = km s).
  { induction strs as [|[str tg] strs IH]; intros s wl pos; cbn [fl_strings]; [reflexivity|].
    destruct (o_wrap_links (sopts s) && (swidth_ s <? pos + swidth (nl_to_space str))).
    - pose proof (K1 [ADefault] (nl_to_space str) s [] wl pos) as E.
      destruct (fl_chars s [ADefault] (nl_to_space str) [] wl pos) as [[[s1 buf] wl1] pos1].
      cbn [fst] in E. rewrite IH. exact E.
    - apply IH. }
  induction links as [|l links IH]; intros s; cbn [fmt_links]; [reflexivity|].
  pose proof (K2 (tl_tagged_strings l) s tl_new 0) as E.
  destruct (fl_strings s (tl_tagged_strings l) tl_new 0) as [s1 wl]. cbn [fst] in E.
  rewrite IH, km_add_line. exact E.
Qed.

Lemma km_ws s s' : km s' = km s -> ws_stack s' = ws_stack s.
Proof. unfold km. congruence. Qed.

Lemma add_inline_text_norm d s t :
  ws_stack s = [] -> add_inline_text d s (normalise t) = add_inline_text d s t.
Proof.
  intros Hw. unfold add_inline_text, ws_mode. rewrite Hw. unfold normalise at 1. rewrite all_ws_norm.
  cbn [preserve_ws negb andb].
  destruct (at_block_end s && all_ws t); [reflexivity|].
  assert (K : forall s1, ws_stack s1 = [] ->
    (do w1 <- wb_add_text (get_wrapping s1) (apply_filters (filter_depth s1) (normalise t))
                match ws_stack s1 with m :: _ => m | [] => WsNormal end
                (if 0 <? pre_depth s1 then ann_stack s1 ++ [d_pre_first d] else ann_stack s1)
                (if 0 <? pre_depth s1 then ann_stack s1 ++ [d_pre_cont d] else ann_stack s1);
     Ok (set_wrapping s1 (Some w1))) =
    (do w1 <- wb_add_text (get_wrapping s1) (apply_filters (filter_depth s1) t)
                match ws_stack s1 with m :: _ => m | [] => WsNormal end
                (if 0 <? pre_depth s1 then ann_stack s1 ++ [d_pre_first d] else ann_stack s1)
                (if 0 <? pre_depth s1 then ann_stack s1 ++ [d_pre_cont d] else ann_stack s1);
     Ok (set_wrapping s1 (Some w1)))).
  { intros s1 E. rewrite E, apply_filters_norm, wb_add_text_norm. reflexivity. }
  destruct (at_block_end s).
  - destruct (start_block s) as [s1| | |] eqn:E; cbn [bind]; try reflexivity.
    apply K. rewrite (km_ws _ _ (km_start_block _ _ E)). exact Hw.
  - cbn [bind]. apply K, Hw.
Qed.

(* ---- trees: normal form, side condition ---- *)
(* no style of the tree switches to a preserving white-space mode (white-space: pre / pre-wrap;
   a <pre> element carries such a style) *)
Definition style_no_pre (cs : cstyle) : bool :=
  match wsm_of cs with None => true | Some _ => false end.
(* no character is both whitespace and an ASCII digit (char::is_whitespace is false for
   digits; the model's `chr` record does not exclude it) *)
Definition wfd (t : text) : bool := forallb (fun c => negb (ws c && is_ascii_digit c)) t.

Fixpoint norm_tree (n : rnode) : rnode :=
  let ncell (c : rcell) := match c with RCell k cs s => RCell k (map norm_tree cs) s end in
  let nrow (r : rrow) := match r with RRow cells s => RRow (map ncell cells) s end in
  match n with
  | RN i s =>
    RN (match i with
        | IText t => IText (normalise t)
        | IContainer cs => IContainer (map norm_tree cs)
        | ILink h cs => ILink h (map norm_tree cs)
        | IEm cs => IEm (map norm_tree cs)
        | IStrong cs => IStrong (map norm_tree cs)
        | IStrikeout cs => IStrikeout (map norm_tree cs)
        | ICode cs => ICode (map norm_tree cs)
        | IImg a b => IImg a b
        | IBlock cs => IBlock (map norm_tree cs)
        | IHeader l cs => IHeader l (map norm_tree cs)
        | IDiv cs => IDiv (map norm_tree cs)
        | IBlockQuote cs => IBlockQuote (map norm_tree cs)
        | IUl cs => IUl (map norm_tree cs)
        | IOl z cs => IOl z (map norm_tree cs)
        | IDl cs => IDl (map norm_tree cs)
        | IDt cs => IDt (map norm_tree cs)
        | IDd cs => IDd (map norm_tree cs)
        | IBreak => IBreak
        | ITable rows nc => ITable (map nrow rows) nc
        | ITableBody rows => ITableBody (map nrow rows)
        | ITableRow r => ITableRow (nrow r)
        | ITableCell c => ITableCell (ncell c)
        | IFragStart nm => IFragStart nm
        | IListItem cs => IListItem (map norm_tree cs)
        | ISup cs => ISup (map norm_tree cs)
        end) s
  end.

Definition norm_cell (c : rcell) : rcell :=
  match c with RCell k cs s => RCell k (map norm_tree cs) s end.
Definition norm_row (r : rrow) : rrow :=
  match r with RRow cells s => RRow (map norm_cell cells) s end.

(* decidable side condition of Part B *)
Fixpoint tree_ok (n : rnode) : bool :=
  let ok_cell (c : rcell) := match c with RCell _ cs s => style_no_pre s && forallb tree_ok cs end in
  let ok_row (r : rrow) := match r with RRow cells s => style_no_pre s && forallb ok_cell cells end in
  match n with
  | RN i s =>
    style_no_pre s &&
    match i with
    | IText t => wfd t
    | IImg _ _ | IBreak | IFragStart _ => true
    | IContainer cs | ILink _ cs | IEm cs | IStrong cs | IStrikeout cs | ICode cs | IBlock cs
    | IHeader _ cs | IDiv cs | IBlockQuote cs | IUl cs | IOl _ cs | IDl cs | IDt cs | IDd cs
    | IListItem cs | ISup cs => forallb tree_ok cs
    | ITable rows _ => forallb ok_row rows
    | ITableBody _ | ITableRow _ | ITableCell _ => true
    end
  end.

Definition ok_cell (c : rcell) : bool :=
  match c with RCell _ cs s => style_no_pre s && forallb tree_ok cs end.
Definition ok_row (r : rrow) : bool :=
  match r with RRow cells s => style_no_pre s && forallb ok_cell cells end.

Definition TIB (t1 t2 : text) : Prop := t2 = normalise t1 /\ wfd t1 = true.
Definition SOKB (cs : cstyle) : Prop := wsm_of cs = None.

Lemma style_no_pre_ok s : style_no_pre s = true -> SOKB s.
Proof. unfold style_no_pre, SOKB. destruct (wsm_of s); [discriminate|reflexivity]. Qed.

Lemma trel_norm : forall n, tree_ok n = true -> trel TIB SOKB n (norm_tree n).
Proof.
  apply (rnode_ind' (fun n => tree_ok n = true -> trel TIB SOKB n (norm_tree n))).
  intros i sty IH Hok.
  assert (K : forall cs, Forall (fun n => tree_ok n = true -> trel TIB SOKB n (norm_tree n)) cs ->
                         forallb tree_ok cs = true -> Forall2 (trel TIB SOKB) cs (map norm_tree cs)).
  { induction cs as [|c cs IHc]; intros HF Hb; cbn [map]; constructor;
      cbn [forallb] in Hb; apply andb_true_iff in Hb; destruct Hb as [Hb1 Hb2].
    - apply (Forall_inv HF), Hb1.
    - apply IHc; [exact (Forall_inv_tail HF)|exact Hb2]. }
  assert (KC : forall cells,
             Forall (fun n => tree_ok n = true -> trel TIB SOKB n (norm_tree n)) (flat_map cell_content cells) ->
             forallb ok_cell cells = true -> Forall2 (cellrel TIB SOKB) cells (map norm_cell cells)).
  { induction cells as [|[n k s] cells IHc]; intros HF Hb; cbn [map]; constructor;
      cbn [forallb ok_cell] in Hb; apply andb_true_iff in Hb; destruct Hb as [Hb1 Hb2];
      cbn [flat_map cell_content] in HF; apply Forall_app in HF; destruct HF as [HF1 HF2].
    - apply andb_true_iff in Hb1. destruct Hb1 as [Hs Hk]. cbn [norm_cell].
      constructor; [apply style_no_pre_ok, Hs|apply K; assumption].
    - apply IHc; assumption. }
  assert (KR : forall rows,
             Forall (fun n => tree_ok n = true -> trel TIB SOKB n (norm_tree n)) (flat_map row_kids rows) ->
             forallb ok_row rows = true -> Forall2 (rowrel TIB SOKB) rows (map norm_row rows)).
  { induction rows as [|[cells s] rows IHr]; intros HF Hb; cbn [map]; constructor;
      cbn [forallb ok_row] in Hb; apply andb_true_iff in Hb; destruct Hb as [Hb1 Hb2];
      cbn [flat_map] in HF; apply Forall_app in HF; destruct HF as [HF1 HF2].
    - apply andb_true_iff in Hb1. destruct Hb1 as [Hs Hk]. cbn [norm_row].
      constructor; [apply style_no_pre_ok, Hs|apply KC; assumption].
    - apply IHr; assumption. }
  destruct i; cbn [direct_kids] in IH; cbn [tree_ok] in Hok; apply andb_true_iff in Hok;
    destruct Hok as [Hs Hi]; cbn [norm_tree]; (constructor; [apply style_no_pre_ok, Hs|]);
    constructor; auto. split; [reflexivity|exact Hi].
Qed.

(* ---- digits (superscripts) ---- *)
Lemma norm_no_ws : forall t, forallb (fun c => negb (ws c)) t = true -> normalise t = t.
Proof.
  unfold normalise. induction t as [|c t IH]; intros H; cbn [norm_loop]; [reflexivity|].
  cbn [forallb] in H. apply andb_true_iff in H. destruct H as [Hc Ht].
  destruct (ws c); [discriminate|]. f_equal. apply IH, Ht.
Qed.

Lemma digits_no_ws : forall t, wfd t = true -> forallb is_ascii_digit t = true ->
  forallb (fun c => negb (ws c)) t = true.
Proof.
  induction t as [|c t IH]; intros Hw Hd; [reflexivity|]. unfold wfd in *. cbn [forallb] in *.
  apply andb_true_iff in Hw. apply andb_true_iff in Hd. destruct Hw as [Hw1 Hw2], Hd as [Hd1 Hd2].
  rewrite Hd1, andb_true_r in Hw1. rewrite Hw1. cbn [andb]. apply IH; assumption.
Qed.

Lemma norm_digits_no_ws : forall t, forallb is_ascii_digit (normalise t) = true ->
  forallb (fun c => negb (ws c)) t = true.
Proof.
  unfold normalise. induction t as [|c t IH]; intros Hd; [reflexivity|]. cbn [norm_loop] in Hd.
  cbn [forallb]. destruct (ws c) eqn:Ec.
  - cbn [forallb] in Hd. discriminate.
  - cbn [forallb] in Hd. apply andb_true_iff in Hd. cbn [negb andb]. apply IH, Hd.
Qed.

(* ---- the diagonal relation: the same sub-renderer, in normal white-space mode ---- *)
Definition SRB (x y : subr) : Prop := x = y /\ ws_stack x = [].

Lemma rs_strict_refl {A} (e : res A) : rs MStrict eq e e.
Proof. destruct e; cbn [rs]; auto. Qed.

Lemma srb_res (e : res subr) x :
  (forall x', e = Ok x' -> km x' = km x) -> ws_stack x = [] -> rs MStrict SRB e e.
Proof.
  intros H Hw. destruct e as [x'| | |]; cbn [rs]; auto. split; [reflexivity|].
  rewrite (km_ws _ _ (H x' eq_refl)). exact Hw.
Qed.

Lemma srb_op f : (forall x x', f x = Ok x' -> km x' = km x) -> gop MStrict SRB f.
Proof. intros H x y [<- Hw]. apply (srb_res _ x); [apply H|exact Hw]. Qed.

Lemma srb_pure g : (forall x, ws_stack (g x) = ws_stack x) -> pureR SRB g.
Proof. intros H x y [<- Hw]. split; [reflexivity|]. rewrite H. exact Hw. Qed.

Lemma F2_SRB us vs : Forall2 SRB us vs -> us = vs.
Proof. induction 1 as [|u v us vs [E _] _ IH]; congruence. Qed.

Lemma SRB_ops d mw : GOps MStrict d mw SRB TIB SOKB.
Proof.
  constructor.
  - intros r g b. apply srb_pure. intros x. unfold push_colour. destruct (d_colours d); reflexivity.
  - intros r g b. apply srb_pure. intros x. unfold push_bgcolour. destruct (d_colours d); reflexivity.
  - intros cs m Hs Hm. unfold SOKB in Hs. congruence.
  - apply srb_pure. reflexivity.
  - apply srb_pure. intros x. unfold pop_colour. destruct (d_colours d); reflexivity.
  - intros x y [<- Hw]. split; [reflexivity|]. unfold pop_ws_mode. cbn [ws_stack set_ws_stack].
    rewrite Hw. reflexivity.
  - apply srb_op. intros x x' H. unfold pop_preformat in H. destruct (0 <? pre_depth x); [|discriminate].
    ok_inv H. reflexivity.
  - intros t1 t2 [-> _] x y [<- Hw]. rewrite (add_inline_text_norm d x t1 Hw).
    apply (srb_res _ x); [intros x'; apply km_add_inline_text|exact Hw].
  - intros t. apply srb_op. intros x x'. apply km_add_inline_text.
  - intros t1 t2 [-> _]. symmetry. apply text_est_norm.
  - intros t1 t2 [-> Hw] [Hd|Hd]; symmetry; apply norm_no_ws.
    + apply digits_no_ws; assumption.
    + apply norm_digits_no_ws, Hd.
  - intros h. apply srb_op. intros x x'. apply km_start_deco.
  - apply srb_op. intros x x'. apply km_end_deco.
  - intros x y [<- _]. reflexivity.
  - apply srb_op. intros x x'. apply km_start_deco.
  - apply srb_op. intros x x'. apply km_end_deco.
  - apply srb_op. intros x x'. apply km_start_deco.
  - apply srb_op. intros x x'. apply km_end_deco.
  - apply srb_op. intros x x'. apply km_start_strikeout.
  - apply srb_op. intros x x'. apply km_end_strikeout.
  - apply srb_op. intros x x'. apply km_start_deco.
  - apply srb_op. intros x x'. apply km_end_deco.
  - apply srb_op. intros x x'. apply km_start_deco.
  - apply srb_op. intros x x'. apply km_end_deco.
  - intros src t. apply srb_op. intros x x'. apply km_add_image.
  - apply srb_op. intros x x'. apply km_start_block.
  - apply srb_pure. reflexivity.
  - apply srb_op. intros x x'. apply km_flush_wrapping.
  - apply srb_op. intros x x'. apply km_new_line_hard.
  - intros n. apply srb_pure. reflexivity.
  - intros x y p mn [<- _]. apply rs_strict_refl.
  - intros u v w [<- Hw]. split; [reflexivity|exact Hw].
  - intros x y u v f r [<- Hw] [<- _]. apply (srb_res _ x); [intros x'; apply km_append_subrender|exact Hw].
  - intros x y [<- _]. reflexivity.
  - intros x y [<- _]. reflexivity.
  - intros x y [<- _]. reflexivity.
  - intros w. apply srb_op. intros x x'. apply km_hborder.
  - intros x y us vs [<- Hw] Huv. apply F2_SRB in Huv. subst vs.
    apply (srb_res _ x); [intros x'; apply km_append_vert_row|exact Hw].
  - intros x y us vs [<- Hw] Huv. apply F2_SRB in Huv. subst vs.
    apply (srb_res _ x); [intros x'; apply km_append_columns|exact Hw].
  - intros u v [<- _]. reflexivity.
Qed.

(* MAIN THEOREM B1 (C13): a tree and its whitespace normal form render identically (the same
   outcome -- Ok with the same sub-renderer, TooNarrow, or the same Panic site). *)
Theorem c13_norm_render d mw o width tree :
  tree_ok tree = true ->
  render_tree d mw o width (norm_tree tree) = render_tree d mw o width tree.
Proof.
  intros Hok. symmetry. apply rs_strict_eq.
  apply (rs_impl MStrict SRB eq); [intros a b [E _]; exact E|].
  apply (g_render_tree MStrict d mw SRB TIB SOKB (SRB_ops d mw)).
  - intros x y ls [<- Hw]. split; [reflexivity|]. rewrite (km_ws _ _ (km_fmt_links ls x)). exact Hw.
  - apply trel_norm, Hok.
  - split; reflexivity.
Qed.
Print Assumptions c13_norm_render.

(* two trees are whitespace-equivalent when they have the same normal form: the same shape,
   styles and attributes, and corresponding text leaves t1, t2 with normalise t1 = normalise t2
   (they differ only in which whitespace characters they contain and in the lengths of the
   whitespace runs; a leading / trailing run stays a run) *)
Definition ws_equiv (t1 t2 : rnode) : Prop := norm_tree t1 = norm_tree t2.

(* MAIN THEOREM B2 (C13) *)
Theorem c13_ws_equiv_render d mw o width tree1 tree2 :
  ws_equiv tree1 tree2 -> tree_ok tree1 = true -> tree_ok tree2 = true ->
  render_tree d mw o width tree1 = render_tree d mw o width tree2.
Proof.
  intros He H1 H2. rewrite <- (c13_norm_render d mw o width tree1 H1),
    <- (c13_norm_render d mw o width tree2 H2). unfold ws_equiv in He. rewrite He. reflexivity.
Qed.
Print Assumptions c13_ws_equiv_render.

(* consequences: the same lines and the same string (render_with_context included) *)
Corollary c13_ws_equiv_lines d mw o width tree1 tree2 :
  ws_equiv tree1 tree2 -> tree_ok tree1 = true -> tree_ok tree2 = true ->
  (do s <- render_tree d mw o width tree1; sub_into_lines s) =
  (do s <- render_tree d mw o width tree2; sub_into_lines s) /\
  (do s <- render_tree d mw o width tree1; sub_into_string s) =
  (do s <- render_tree d mw o width tree2; sub_into_string s).
Proof. intros He H1 H2. rewrite (c13_ws_equiv_render d mw o width _ _ He H1 H2). auto. Qed.

Print Assumptions c13_ws_equiv_lines.

Corollary c13_render_with_context c tree1 tree2 w :
  ws_equiv tree1 tree2 -> tree_ok tree1 = true -> tree_ok tree2 = true ->
  render_with_context c tree1 w = render_with_context c tree2 w.
Proof.
  intros He H1 H2. unfold render_with_context. destruct (w =? 0); [reflexivity|].
  apply c13_ws_equiv_render; assumption.
Qed.

Print Assumptions c13_render_with_context.

(* ---- non-vacuity of Part B ---- *)
Definition exw_chr (c : N) : chr :=
  if c =? 32 then mkchr 32 (Some 1) true 16 else if c =? 9 then mkchr 9 None true 16
  else if c =? 10 then mkchr 10 None true 16 else mkchr c (Some 1) false 16.
Definition exw_str (l : list N) : text := map exw_chr l.
Definition exw_cell (l : list N) : rcell := RCell 1 [ex_n (IText (exw_str l))] cstyle0.
(* RenderWidth.ex_tree with its single spaces replaced by runs of spaces, tabs and newlines *)
Definition ex_tree_ws : rnode :=
  ex_n (IContainer
    [ex_n (IBlock [ex_n (IText (exw_str [104;101;108;108;111;32;10;9;119;105;100;101;9;119;111;114;108;100]))]);
     ex_n (ITable [RRow [exw_cell [97;98;10;10;99;100]; exw_cell [101;102;103]] cstyle0;
                   RRow [exw_cell [104]; exw_cell [105;106;32;32;32;107;108;9;109;110]] cstyle0] 2);
     ex_n (IUl [ex_n (IListItem [ex_n (IText (exw_str [111;110;101;10;116;119;111;32;32;116;104;114;101;101]))])]);
     ex_n (IOl 9 [ex_n (IListItem [ex_n (IText (exw_str [120]))]);
                  ex_n (IListItem [ex_n (IText (exw_str [121]))])])]).

Example exc_hyps : ws_equiv ex_tree ex_tree_ws /\ tree_ok ex_tree = true /\ tree_ok ex_tree_ws = true /\
                   ex_tree <> ex_tree_ws.
Proof. split; [vm_compute; reflexivity|]. split; [reflexivity|]. split; [reflexivity|discriminate]. Qed.

Example exc_applies :
  render_tree plain_deco 3 exb_opts 12 ex_tree_ws = Ok exa_s1 /\
  exists ls, sub_into_lines exa_s1 = Ok ls /\ length ls = 14%nat.
Proof.
  destruct exc_hyps as (He & H1 & H2 & _).
  rewrite <- (c13_ws_equiv_render plain_deco 3 exb_opts 12 ex_tree ex_tree_ws He H1 H2).
  split; [exact exa_render_eq|exact exa_lines].
Qed.

(* the side condition is needed.  (1) In a preformatted block the runs are kept: *)
Definition exc_pre_sty : cstyle :=
  mkcs (mkcore ws_default ws_default ws_default (maybe_update ws_default false OAgent spec0 WsPre)
               ws_default) None None true.
Definition exc_pre1 : rnode := RN (IBlock [ex_n (IText (exw_str [97;32;32;98]))]) exc_pre_sty.
Definition exc_pre2 : rnode := RN (IBlock [ex_n (IText (exw_str [97;32;98]))]) exc_pre_sty.
Example exc_pre_differs :
  ws_equiv exc_pre1 exc_pre2 /\ tree_ok exc_pre1 = false /\
  out_of (render_tree plain_deco 3 exb_opts 12 exc_pre1) = Ok [[97;32;32;98]] /\
  out_of (render_tree plain_deco 3 exb_opts 12 exc_pre2) = Ok [[97;32;98]].
Proof. split; [vm_compute; reflexivity|]. split; [reflexivity|]. split; vm_compute; reflexivity. Qed.

(* (2) a model character that is both whitespace and an ASCII digit (no such Unicode character
   exists) inside <sup> is turned into a superscript digit, a space is not: *)
Definition exc_dig1 : rnode := ex_n (ISup [ex_n (IText [mkchr 48 (Some 1) true 16])]).
Definition exc_dig2 : rnode := ex_n (ISup [ex_n (IText [mkchr 32 (Some 1) true 16])]).
Example exc_digit_differs :
  ws_equiv exc_dig1 exc_dig2 /\ tree_ok exc_dig1 = false /\ tree_ok exc_dig2 = true /\
  out_of (render_tree plain_deco 3 exb_opts 12 exc_dig1) = Ok [[8304]] /\
  out_of (render_tree plain_deco 3 exb_opts 12 exc_dig2) = Ok [[94;123;32;125]].
Proof.
  split; [vm_compute; reflexivity|]. split; [reflexivity|]. split; [reflexivity|].
  split; vm_compute; reflexivity.
Qed.

(* ================================================================== *)
(* 6. PART A, fourth clause: with overflow allowed, never TooNarrow     *)
(* ================================================================== *)
(* rn P r: r is not TooNarrow, and P holds of its value when it is Ok *)
Definition rn {A} (P : A -> Prop) (r : res A) : Prop :=
  match r with Ok a => P a | TooNarrow => False | _ => True end.

Lemma rn_bind {A B} (P : A -> Prop) (Q : B -> Prop) r k :
  rn P r -> (forall a, P a -> rn Q (k a)) -> rn Q (bind r k).
Proof. destruct r; cbn [rn bind]; auto. Qed.

Lemma rn_impl {A} (P Q : A -> Prop) r : (forall a, P a -> Q a) -> rn P r -> rn Q r.
Proof. destruct r; cbn [rn]; auto. Qed.

Lemma rn_ntn {A} (P : A -> Prop) r : rn P r -> r <> TooNarrow.
Proof. destruct r; cbn [rn]; intros H; try discriminate. contradiction. Qed.

Definition tt_ {A} (_ : A) : Prop := True.

(* ---- the wrapped block with allow_overflow = true ---- *)
Definition ovf (b : wblock) : Prop := allow_overflow b = true.

Lemma usub_rn s a b : rn tt_ (usub s a b).
Proof. unfold usub. destruct (b <=? a); exact I. Qed.

Lemma tl_pad_to_rn l w t : rn tt_ (tl_pad_to l w t).
Proof.
  unfold tl_pad_to, tl_width. destruct (tlen_ l =? tl_width_raw l); cbn [bind]; [|exact I].
  destruct (tl_width_raw l <? w); exact I.
Qed.

Lemma ffl_rn b : ovf b -> rn ovf (force_flush_line b).
Proof.
  intros H. unfold force_flush_line. eapply rn_bind with (P := tt_).
  - destruct (pad_blocks b); [apply tl_pad_to_rn|exact I].
  - intros l _. exact H.
Qed.

Lemma flush_line_rn b : ovf b -> rn ovf (flush_line b).
Proof. intros H. unfold flush_line. destruct (tl_is_empty (wline b)); [exact H|apply ffl_rn, H]. Qed.

Lemma hw_scan_rn line0 : forall s first tr ll wp, rn tt_ (hw_scan true line0 first s tr ll wp).
Proof.
  induction s as [|c s IH]; intros first tr ll wp; cbn [hw_scan]; [exact I|].
  destruct (cw c) as [c_w|]; [|exact I]. destruct (c_w <=? ll); [apply IH|].
  destruct first; [|exact I].
  unfold tl_width. destruct (tlen_ line0 =? tl_width_raw line0); cbn [bind]; [|exact I].
  destruct (tl_width_raw line0 =? 0); exact I.
Qed.

Lemma hw_piece_rn t w : forall fuel b rest consumed lineleft wpos,
  ovf b -> rn (fun p => ovf (fst p)) (hw_piece fuel b t w rest consumed lineleft wpos).
Proof.
  induction fuel as [|f IH]; intros b rest consumed lineleft wpos H; cbn [hw_piece]; [exact I|].
  eapply rn_bind; [apply usub_rn|]. intros rem _.
  destruct (lineleft <? rem).
  - unfold ovf in H. rewrite H. eapply rn_bind; [apply hw_scan_rn|]. intros [[taken ll] wpos'] _.
    eapply rn_bind; [apply ffl_rn; exact H|]. intros b2 H2. apply IH, H2.
  - destruct (negb consumed).
    + eapply rn_bind; [apply usub_rn|]. intros ll _. exact H.
    + destruct rest; [exact H|]. eapply rn_bind; [apply usub_rn|]. intros ll _. exact H.
Qed.

Lemma hw_elems_rn : forall els b ll, ovf b -> rn ovf (hw_elems b els ll).
Proof.
  induction els as [|e els IH]; intros b ll H; cbn [hw_elems]; [exact H|].
  destruct e as [s t|n].
  - eapply rn_bind; [apply hw_piece_rn, H|]. intros [b' x] H'. apply IH, H'.
  - apply IH, H.
Qed.

Lemma fwhw_rn b : ovf b -> rn ovf (flush_word_hard_wrap b).
Proof.
  intros H. unfold flush_word_hard_wrap. eapply rn_bind; [apply usub_rn|]. intros ll _.
  apply hw_elems_rn, H.
Qed.

Lemma ws_loop_rn : forall fuel b, ovf b -> rn ovf (ws_loop fuel b).
Proof.
  induction fuel as [|f IH]; intros b H; cbn [ws_loop]; (destruct (wslen b =? 0); [exact H|]);
    [exact I|].
  destruct (wwidth b =? 0); [exact H|]. destruct (spacetag b) as [st|]; [|exact I].
  eapply rn_bind with (P := ovf).
  { destruct (N.min (wslen b) (wwidth b) =? wwidth b); [apply flush_line_rn|]; exact H. }
  intros b2 H2. apply IH, H2.
Qed.

Lemma flush_word_rn m b : ovf b -> rn ovf (flush_word b m).
Proof.
  intros H. unfold flush_word. destruct (word_is_empty (wword b)); [exact H|].
  eapply rn_bind; [apply usub_rn|]. intros sil _.
  destruct (wslen b + wordlen b <=? sil).
  - eapply rn_bind with (P := ovf).
    { destruct (0 <? wslen b); [|exact H]. destruct (spacetag b); [exact H|exact I]. }
    intros b1 H1. exact H1.
  - eapply rn_bind with (P := ovf).
    { destruct (negb (do_wrap m)); [|exact H].
      destruct (sil <=? wslen b); [exact H|]. destruct (0 <? wslen b); [|exact H].
      destruct (spacetag b); [exact H|exact I]. }
    intros b1 H1. eapply rn_bind; [apply flush_line_rn, H1|]. intros b2 H2.
    eapply rn_bind with (P := ovf).
    { apply ws_loop_rn. destruct (is_pre m); exact H2. }
    intros b4 H4. eapply rn_bind with (P := ovf); [apply fwhw_rn; exact H4|].
    intros b6 H6. exact H6.
Qed.

Lemma tab_loop_rn : forall fuel b t tw pos one fl,
  ovf b -> rn (fun p => ovf (fst p)) (tab_loop fuel b t tw pos one fl).
Proof.
  induction fuel as [|f IH]; intros b t tw pos one fl H; cbn [tab_loop];
    (destruct (negb (pos mod 8 =? 0) || negb one); [|exact H]); [exact I|].
  destruct (wwidth b =? 0); [exact H|]. destruct (wwidth b <=? pos).
  - eapply rn_bind; [apply flush_line_rn, H|]. intros b1 H1. apply IH, H1.
  - apply IH. exact H.
Qed.

Lemma add_char_rn m t1 t2 b u c :
  ovf b -> rn (fun p => ovf (fst p)) (add_char m t1 t2 (b, u) c).
Proof.
  intros H. unfold add_char.
  eapply rn_bind with (P := ovf).
  { destruct (ws c && (0 <? wordlen b)); [apply flush_word_rn, H|exact H]. }
  clear b H. intros b H. cbv zeta.
  destruct (ws c).
  - destruct (preserve_ws m).
    + destruct (cp c =? 10).
      * eapply rn_bind; [apply ffl_rn, H|]. intros b1 H1. exact H1.
      * destruct (cp c =? 9).
        -- eapply rn_bind; [apply tab_loop_rn, H|]. intros [b1 f1] H1. cbn [fst snd] in *.
           destruct (is_pre m && f1); exact H1.
        -- destruct (cw c) as [cwidth|]; [|exact H].
           destruct (wwidth b <? tlen_ (wline b) + wslen b + cwidth); [|exact H].
           eapply rn_bind; [apply flush_line_rn; exact H|]. intros b2 H2.
           destruct (do_wrap m); exact H2.
    + destruct ((0 <? tlen_ (wline b)) && (wslen b =? 0)); exact H.
  - destruct (cw c) as [cwidth|]; [|exact H].
    destruct (is_pre m && (wwidth b <? tlen_ (wline b) + wslen b + (wordlen b + cwidth))); exact H.
Qed.

Lemma add_chars_rn m t1 t2 : forall s b u,
  ovf b -> rn (fun p => ovf (fst p)) (add_chars m t1 t2 (b, u) s).
Proof.
  induction s as [|c s IH]; intros b u H; cbn [add_chars]; [exact H|].
  eapply rn_bind; [apply add_char_rn, H|]. intros [b' u'] H'. apply IH, H'.
Qed.

Lemma wb_add_text_rn b s m t1 t2 : ovf b -> rn ovf (wb_add_text b s m t1 t2).
Proof.
  intros H. unfold wb_add_text. eapply rn_bind; [apply add_chars_rn, H|]. intros p Hp. exact Hp.
Qed.

Lemma wb_into_lines_rn b : ovf b -> rn tt_ (wb_into_lines b).
Proof.
  intros H. unfold wb_into_lines, wb_flush.
  eapply rn_bind with (P := ovf).
  - eapply rn_bind; [apply flush_word_rn, H|]. intros b1 H1. apply flush_line_rn, H1.
  - intros b1 _. exact I.
Qed.

Lemma wb_into_lines_markers_rn b : ovf b -> rn tt_ (wb_into_lines_markers b).
Proof.
  intros H. unfold wb_into_lines_markers, wb_flush.
  eapply rn_bind with (P := ovf).
  - eapply rn_bind; [apply flush_word_rn, H|]. intros b1 H1. apply flush_line_rn, H1.
  - intros b1 _. exact I.
Qed.

(* ---- the sub-renderer: options allow overflow, and so does the pending wrapped block ---- *)
Definition NI (x : subr) : Prop :=
  o_allow_overflow (sopts x) = true /\
  match wrapping x with Some w => ovf w | None => True end.

Lemma NI_ext x x' : sopts x' = sopts x -> wrapping x' = wrapping x -> NI x -> NI x'.
Proof. unfold NI. intros -> ->. auto. Qed.

Lemma NI_add_line x l : NI x -> NI (add_line x l).
Proof. destruct (add_line_same x l) as (_ & a & b). apply NI_ext; assumption. Qed.

Lemma NI_extend_lines ls : forall x, NI x -> NI (extend_lines x ls).
Proof.
  unfold extend_lines. induction ls as [|l ls IH]; intros x H; cbn [fold_left]; [exact H|].
  apply IH, NI_add_line, H.
Qed.

Lemma NI_none x : NI x -> NI (set_wrapping x None).
Proof. intros [H _]. split; [exact H|exact I]. Qed.

Lemma flush_rn x : NI x -> rn NI (flush_wrapping x).
Proof.
  intros H. unfold flush_wrapping. destruct (wrapping x) as [w|] eqn:E; [|exact H].
  assert (Hw : ovf w) by (destruct H as [_ H]; rewrite E in H; exact H).
  assert (Hw1 : ovf (fst (take_trailing_fragments w))).
  { rewrite ttf_eq. exact Hw. }
  destruct (take_trailing_fragments w) as [w1 frags].
  cbn [fst] in Hw1.
  eapply rn_bind; [apply wb_into_lines_markers_rn, Hw1|]. intros [ls mk] _. cbn [rn fst snd].
  pose proof (NI_extend_lines (map RText ls) _ (NI_none x H)) as H1.
  revert H1. apply NI_ext; reflexivity.
Qed.

Lemma add_empty_line_rn x : NI x -> rn NI (add_empty_line x).
Proof.
  intros H. unfold add_empty_line. eapply rn_bind; [apply flush_rn, H|]. intros x1 H1. cbn [rn].
  pose proof (NI_add_line x1 (RText tl_new) H1) as H2. revert H2. apply NI_ext; reflexivity.
Qed.

Lemma start_block_rn x : NI x -> rn NI (start_block x).
Proof.
  intros H. unfold start_block. eapply rn_bind; [apply flush_rn, H|]. intros x1 H1.
  eapply rn_bind with (P := NI).
  { destruct (existsb rline_has_content (slines x1)); [apply add_empty_line_rn, H1|exact H1]. }
  intros x2 H2. cbn [rn]. revert H2. apply NI_ext; reflexivity.
Qed.

Lemma new_line_hard_rn x : NI x -> rn NI (new_line_hard x).
Proof.
  intros H. unfold new_line_hard. destruct (wrapping x) as [w|]; [|apply add_empty_line_rn, H].
  destruct ((wordlen w =? 0) && (tlen_ (wline w) =? 0)); [apply add_empty_line_rn, H|apply flush_rn, H].
Qed.

Lemma hline_rn x b t : NI x -> rn NI (add_horizontal_line x b t).
Proof.
  intros H. unfold add_horizontal_line. eapply rn_bind; [apply flush_rn, H|]. intros x1 H1.
  cbn [rn]. apply NI_add_line, H1.
Qed.

Lemma hborder_rn x w : NI x -> rn NI (add_horizontal_border_width x w).
Proof.
  intros H. unfold add_horizontal_border_width. eapply rn_bind; [apply flush_rn, H|]. intros x1 H1.
  cbn [rn]. apply NI_add_line, H1.
Qed.

Lemma get_wrapping_ovf x : NI x -> ovf (get_wrapping x).
Proof.
  intros [Ho Hw]. unfold get_wrapping. destruct (wrapping x) as [w|]; [exact Hw|]. exact Ho.
Qed.

Lemma inline_rn d x t : NI x -> rn NI (add_inline_text d x t).
Proof.
  intros H. unfold add_inline_text.
  destruct (negb (preserve_ws (ws_mode x)) && at_block_end x && all_ws t); [exact H|].
  eapply rn_bind with (P := NI).
  { destruct (at_block_end x); [apply start_block_rn, H|exact H]. }
  intros x1 H1. eapply rn_bind; [apply wb_add_text_rn, get_wrapping_ovf, H1|].
  intros w1 Hw1. cbn [rn]. split; [exact (proj1 H1)|exact Hw1].
Qed.

Lemma NI_push_ann x a : NI x -> NI (push_ann x a).
Proof. apply NI_ext; reflexivity. Qed.
Lemma NI_pop_ann x : NI x -> NI (pop_ann x).
Proof. apply NI_ext; reflexivity. Qed.

Lemma start_deco_rn d x p : NI x -> rn NI (start_deco d x p).
Proof. intros H. unfold start_deco. apply inline_rn, NI_push_ann, H. Qed.
Lemma end_deco_rn d x e : NI x -> rn NI (end_deco d x e).
Proof.
  intros H. unfold end_deco. eapply rn_bind; [apply inline_rn, H|]. intros x1 H1. cbn [rn].
  apply NI_pop_ann, H1.
Qed.

Lemma start_strikeout_rn d x : NI x -> rn NI (start_strikeout d x).
Proof.
  intros H. unfold start_strikeout. eapply rn_bind; [apply start_deco_rn, H|]. intros x1 H1.
  cbn [rn]. destruct (o_strike (sopts x1)); [|exact H1]. revert H1. apply NI_ext; reflexivity.
Qed.

Lemma end_strikeout_rn d x : NI x -> rn NI (end_strikeout d x).
Proof.
  intros H. unfold end_strikeout. eapply rn_bind with (P := NI); [|intros; apply end_deco_rn; assumption].
  destruct (o_strike (sopts x)); [|exact H]. destruct (filter_depth x); [exact I|]. cbn [rn].
  revert H. apply NI_ext; reflexivity.
Qed.

Lemma image_rn d x src t : NI x -> rn NI (add_image d x src t).
Proof.
  intros H. unfold add_image. eapply rn_bind; [apply inline_rn, NI_push_ann, H|]. intros x1 H1.
  cbn [rn]. apply NI_pop_ann, H1.
Qed.

Lemma sub_into_lines_rn x : NI x -> rn tt_ (sub_into_lines x).
Proof.
  intros H. unfold sub_into_lines. eapply rn_bind; [apply flush_rn, H|]. intros x1 _. exact I.
Qed.

Lemma append_rn x u f r : NI x -> NI u -> rn NI (append_subrender x u f r).
Proof.
  intros Hx Hu. unfold append_subrender. eapply rn_bind; [apply flush_rn, Hx|]. intros x1 H1.
  eapply rn_bind; [apply sub_into_lines_rn, Hu|]. intros ols _. cbn [rn].
  apply NI_extend_lines, H1.
Qed.

Lemma vert_cols_rn : forall us x first, NI x -> Forall NI us -> rn NI (vert_cols x us first).
Proof.
  induction us as [|u us IH]; intros x first Hx Hus; cbn [vert_cols]; [exact Hx|].
  eapply rn_bind with (P := NI).
  { destruct (negb first && o_borders (sopts x)); [apply hline_rn, Hx|exact Hx]. }
  intros x1 H1. eapply rn_bind; [apply append_rn; [exact H1|exact (Forall_inv Hus)]|].
  intros x2 H2. apply IH; [exact H2|exact (Forall_inv_tail Hus)].
Qed.

Lemma vert_rn x us : NI x -> Forall NI us -> rn NI (append_vert_row x us).
Proof.
  intros Hx Hus. unfold append_vert_row. eapply rn_bind; [apply flush_rn, Hx|]. intros x1 H1.
  eapply rn_bind; [apply vert_cols_rn; assumption|]. intros x2 H2.
  destruct (o_borders (sopts x2)); [|exact H2]. apply hborder_rn, H2.
Qed.

Lemma pad_cell_lines_rn w t : forall ls, rn tt_ (pad_cell_lines w t ls).
Proof.
  induction ls as [|[tl|b bt] ls IH]; cbn [pad_cell_lines]; [exact I| |].
  - eapply rn_bind; [apply tl_pad_to_rn|]. intros tl' _. eapply rn_bind; [apply IH|]. intros; exact I.
  - eapply rn_bind; [apply IH|]. intros; exact I.
Qed.

Lemma col_line_sets_rn t : forall us, Forall NI us -> rn tt_ (col_line_sets t us).
Proof.
  induction us as [|u us IH]; intros Hus; cbn [col_line_sets]; [exact I|].
  eapply rn_bind; [apply sub_into_lines_rn, (Forall_inv Hus)|]. intros ls _.
  eapply rn_bind; [apply pad_cell_lines_rn|]. intros pls _.
  eapply rn_bind; [apply IH, (Forall_inv_tail Hus)|]. intros; exact I.
Qed.

Lemma collapse_top_rn : forall sets prev pos, rn tt_ (collapse_top sets prev pos).
Proof.
  induction sets as [|[w sub] sets IH]; intros prev pos; cbn [collapse_top]; [exact I|].
  destruct sub as [|[l|line lt] sub'].
  - eapply rn_bind; [apply IH|]. intros; exact I.
  - eapply rn_bind; [apply IH|]. intros; exact I.
  - destruct prev as [pb|]; [|exact I]. eapply rn_bind; [apply IH|]. intros; exact I.
Qed.

Lemma NI_row_lines t draw sets pads : forall n i x, NI x -> NI (row_lines t draw n i sets pads x).
Proof.
  induction n as [|n IH]; intros i x H; cbn [row_lines]; [exact H|]. apply IH, NI_add_line, H.
Qed.

Lemma cols_rn x us collapse : NI x -> Forall NI us -> rn NI (append_columns_with_borders x us collapse).
Proof.
  intros Hx Hus. unfold append_columns_with_borders.
  eapply rn_bind; [apply flush_rn, Hx|]. intros x1 H1.
  eapply rn_bind; [apply col_line_sets_rn, Hus|]. intros sets _.
  eapply rn_bind with (P := tt_); [destruct sets; exact I|]. intros _ _.
  match goal with
  | |- rn _ (let '(p1, n1) := ?e in _) => destruct e as [prev1 next1]
  end.
  eapply rn_bind with (P := tt_).
  { destruct collapse; [|exact I]. eapply rn_bind; [apply collapse_top_rn|]. intros [prev2 sets2] _.
    destruct (collapse_bottom sets2 next1 0) as [[next2 sets3] pads]. exact I. }
  intros [[[prev3 next3] sets4] pads] _. cbn [rn].
  match goal with
  | |- NI (if ?c then add_line ?s ?l else ?s) =>
    assert (H3 : NI s); [|destruct c; [apply NI_add_line|]; exact H3]
  end.
  apply NI_row_lines. revert H1. apply NI_ext; reflexivity.
Qed.

Lemma width_minus_rn x p mn : NI x -> rn tt_ (width_minus x p mn).
Proof. intros [Ho _]. unfold width_minus. rewrite Ho. cbn [negb]. rewrite andb_false_r. exact I. Qed.

(* the diagonal relation of the simulation *)
Definition SRN (x y : subr) : Prop := x = y /\ NI x.

Lemma srn_res (e : res subr) : rn NI e -> rs MNtn SRN e e.
Proof. destruct e; cbn [rn rs]; auto; try discriminate. intros H. split; [reflexivity|exact H]. Qed.

Lemma srn_op f : (forall x, NI x -> rn NI (f x)) -> gop MNtn SRN f.
Proof. intros H x y [<- Hx]. apply srn_res, H, Hx. Qed.

Lemma srn_pure g : (forall x, sopts (g x) = sopts x /\ wrapping (g x) = wrapping x) -> pureR SRN g.
Proof.
  intros H x y [<- Hx]. split; [reflexivity|]. destruct (H x) as [a b]. revert Hx. apply NI_ext; assumption.
Qed.

Lemma F2_SRN us vs : Forall2 SRN us vs -> us = vs /\ Forall NI us.
Proof.
  induction 1 as [|u v us vs [E Hn] _ [IH1 IH2]]; [auto|]. subst. split; [reflexivity|]. constructor; auto.
Qed.

Lemma SRN_ops d mw : GOps MNtn d mw SRN eq (fun _ => True).
Proof.
  constructor.
  - intros r g b. apply srn_pure. intros x. unfold push_colour. destruct (d_colours d); auto.
  - intros r g b. apply srn_pure. intros x. unfold push_bgcolour. destruct (d_colours d); auto.
  - intros cs m _ _. apply srn_pure. auto.
  - apply srn_pure. auto.
  - apply srn_pure. intros x. unfold pop_colour. destruct (d_colours d); auto.
  - apply srn_pure. auto.
  - apply srn_op. intros x H. unfold pop_preformat. destruct (0 <? pre_depth x); [|exact I]. cbn [rn].
    revert H. apply NI_ext; reflexivity.
  - intros t1 t2 <-. apply srn_op. intros x. apply inline_rn.
  - intros t. apply srn_op. intros x. apply inline_rn.
  - intros t1 t2 <-. reflexivity.
  - intros t1 t2 <- _. reflexivity.
  - intros h. apply srn_op. intros x. apply start_deco_rn.
  - apply srn_op. intros x. apply end_deco_rn.
  - intros x y [<- _]. reflexivity.
  - apply srn_op. intros x. apply start_deco_rn.
  - apply srn_op. intros x. apply end_deco_rn.
  - apply srn_op. intros x. apply start_deco_rn.
  - apply srn_op. intros x. apply end_deco_rn.
  - apply srn_op. intros x. apply start_strikeout_rn.
  - apply srn_op. intros x. apply end_strikeout_rn.
  - apply srn_op. intros x. apply start_deco_rn.
  - apply srn_op. intros x. apply end_deco_rn.
  - apply srn_op. intros x. apply start_deco_rn.
  - apply srn_op. intros x. apply end_deco_rn.
  - intros src t. apply srn_op. intros x. apply image_rn.
  - apply srn_op. apply start_block_rn.
  - apply srn_pure. auto.
  - apply srn_op. apply flush_rn.
  - apply srn_op. apply new_line_hard_rn.
  - intros n x y [<- Hx]. split; [reflexivity|]. unfold record_frag_start. split; [exact (proj1 Hx)|].
    cbn [wrapping set_wrapping]. pose proof (get_wrapping_ovf x Hx) as Hg. revert Hg.
    generalize (get_wrapping x). intros w Hw. exact Hw.
  - intros x y p mn [<- Hx]. pose proof (width_minus_rn x p mn Hx) as H.
    destruct (width_minus x p mn); cbn [rn rs] in *; auto; discriminate.
  - intros u v w [<- [Ho _]]. split; [reflexivity|]. split; [exact Ho|exact I].
  - intros x y u v f r [<- Hx] [<- Hu]. apply srn_res, append_rn; assumption.
  - intros x y [<- _]. reflexivity.
  - intros x y [<- _]. reflexivity.
  - intros x y [<- _]. reflexivity.
  - intros w. apply srn_op. intros x. apply hborder_rn.
  - intros x y us vs [<- Hx] Huv. destruct (F2_SRN _ _ Huv) as [<- Hus]. apply srn_res, vert_rn; assumption.
  - intros x y us vs [<- Hx] Huv. destruct (F2_SRN _ _ Huv) as [<- Hus]. apply srn_res, cols_rn; assumption.
  - intros u v [<- _]. reflexivity.
Qed.

Lemma NI_fmt_links : forall links x, NI x -> NI (fmt_links x links).
Proof.
  assert (K1 : forall t cs x buf wl pos, NI x -> NI (fst (fst (fst (fl_chars x t cs buf wl pos))))).
  { intros t. induction cs as [|c cs IH]; intros x buf wl pos H; cbn [fl_chars]; [exact H|].
    destruct (swidth_ x <? pos + cw0 c); apply IH; [apply NI_add_line|]; exact H. }
  assert (K2 : forall strs x wl pos, NI x -> NI (fst (fl_strings x strs wl pos))).
  { induction strs as [|[str tg] strs IH]; intros x wl pos H; cbn [fl_strings]; [exact H|].
    destruct (o_wrap_links (sopts x) && (swidth_ x <? pos + swidth (nl_to_space str))); [|apply IH, H].
    pose proof (K1 [ADefault] (nl_to_space str) x [] wl pos H) as E.
    destruct (fl_chars x [ADefault] (nl_to_space str) [] wl pos) as [[[s1 buf] wl1] pos1].
    cbn [fst] in E. apply IH, E. }
  induction links as [|l links IH]; intros x H; cbn [fmt_links]; [exact H|].
  pose proof (K2 (tl_tagged_strings l) x tl_new 0 H) as E.
  destruct (fl_strings x (tl_tagged_strings l) tl_new 0) as [s1 wl]. cbn [fst] in E.
  apply IH, NI_add_line, E.
Qed.

(* MAIN THEOREM A2 (C11, fourth clause), whole renderer, for EVERY width (0 included), tree,
   decorator: with allow_width_overflow the rendering is never TooNarrow, and neither is the
   final flush of its result. *)
Theorem c11_overflow_never_too_narrow_render d mw o width tree :
  o_allow_overflow o = true ->
  rn (fun s => sub_into_lines s <> TooNarrow /\ sub_into_string s <> TooNarrow)
     (render_tree d mw o width tree).
Proof.
  intros Ho.
  assert (S : rs MNtn SRN (render_tree d mw o width tree) (render_tree d mw o width tree)).
  { apply (g_render_tree MNtn d mw SRN eq (fun _ => True) (SRN_ops d mw)).
    - intros x y ls [<- Hx]. split; [reflexivity|apply NI_fmt_links, Hx].
    - apply trel_refl; auto.
    - split; [reflexivity|]. split; [exact Ho|exact I]. }
  destruct (render_tree d mw o width tree) as [s| | |]; cbn [rs rn] in *; auto.
  destruct S as [_ Hs]. pose proof (sub_into_lines_rn s Hs) as R. apply rn_ntn in R.
  split; [exact R|]. unfold sub_into_string. destruct (sub_into_lines s); cbn [bind]; congruence.
Qed.
Print Assumptions c11_overflow_never_too_narrow_render.

Corollary c11_overflow_render_not_too_narrow d mw o width tree :
  o_allow_overflow o = true -> render_tree d mw o width tree <> TooNarrow.
Proof. intros Ho. eapply rn_ntn, c11_overflow_never_too_narrow_render, Ho. Qed.
Print Assumptions c11_overflow_render_not_too_narrow.

(* through the routes: with allow_width_overflow and width >= 1 the routes are never TooNarrow
   (width 0 is answered TooNarrow by render_with_context before anything is rendered) *)
Section RoutesA2.
  Variable inl : list (text * text) -> res (list styledecl).
  Variable dr : list node -> res (list ruleset).

  Theorem c11_routes_never_too_narrow c doc w tree :
    c_overflow c = true -> w <> 0 -> to_render_tree inl dr c doc = Ok tree ->
    lines_from_read inl dr c doc w <> TooNarrow /\ string_from_read inl dr c doc w <> TooNarrow.
  Proof.
    intros Ho Hw Ht. unfold lines_from_read, string_from_read. rewrite Ht. cbn [bind].
    unfold render_with_context. destruct (N.eqb_spec w 0) as [E|_]; [contradiction|].
    pose proof (c11_overflow_never_too_narrow_render (c_deco c) (c_min_wrap c) (render_options c) w tree Ho) as R.
    destruct (render_tree (c_deco c) (c_min_wrap c) (render_options c) w tree) as [s| | |];
      cbn [rn bind] in *; try contradiction; try (split; discriminate).
    destruct R as [R1 R2]. split; [|exact R2].
    destruct (sub_into_lines s); cbn [bind]; congruence.
  Qed.
End RoutesA2.
Print Assumptions c11_routes_never_too_narrow.

(* together with C01 (RenderTotal: Ok or TooNarrow under its decidable side conditions, which
   exclude the Panic sites): with allow_width_overflow the rendering and its flush are ALWAYS Ok,
   at every width below usize::MAX (for render_tree even at width 0) *)
From H2T Require Proofs.RenderTotal.

Corollary c11_overflow_always_ok d mw o width tree :
  o_allow_overflow o = true -> width < usize_max -> RenderTotal.tree_wf d mw tree = true ->
  exists s ls str, render_tree d mw o width tree = Ok s /\ sub_into_lines s = Ok ls /\
                   sub_into_string s = Ok str.
Proof.
  intros Ho Hw Hwf.
  pose proof (RenderTotal.c01_render_tree_total d mw o width tree Hw Hwf) as T.
  pose proof (c11_overflow_never_too_narrow_render d mw o width tree Ho) as R.
  destruct (render_tree d mw o width tree) as [s| | |]; cbn [rn] in R; try contradiction.
  destruct T as [T1 T2], R as [R1 R2]. unfold RenderTotal.okish in *.
  destruct (sub_into_lines s) as [ls| | |] eqn:E1; cbn [RenderTotal.okp] in T1; try contradiction;
    try congruence.
  destruct (sub_into_string s) as [str| | |] eqn:E2; cbn [RenderTotal.okp] in T2; try contradiction;
    try congruence.
  exists s, ls, str. auto.
Qed.
Print Assumptions c11_overflow_always_ok.

Section RoutesA3.
  Variable inl : list (text * text) -> res (list styledecl).
  Variable dr : list node -> res (list ruleset).

  Corollary c11_routes_always_ok c doc w tree :
    c_overflow c = true -> 1 <= w -> w < usize_max ->
    to_render_tree inl dr c doc = Ok tree ->
    RenderTotal.tree_wf (c_deco c) (c_min_wrap c) tree = true ->
    (exists r, lines_from_read inl dr c doc w = Ok r) /\
    (exists r, string_from_read inl dr c doc w = Ok r).
  Proof.
    intros Ho H1 Hw Ht Hwf.
    destruct (c11_overflow_always_ok (c_deco c) (c_min_wrap c) (render_options c) w tree Ho Hw Hwf)
      as (s & ls & str & E1 & E2 & E3).
    unfold lines_from_read, string_from_read, render_with_context. rewrite Ht. cbn [bind].
    destruct (N.eqb_spec w 0) as [E|_]; [lia|]. rewrite E1. cbn [bind]. rewrite E2, E3. cbn [bind].
    eauto.
  Qed.
End RoutesA3.
Print Assumptions c11_routes_always_ok.

(* example for the fourth clause: the block quote that is TooNarrow at width 2 without the flag *)
Example exa_never_too_narrow :
  o_allow_overflow (with_overflow exb_opts) = true /\
  render_tree plain_deco 3 exb_opts 2 cexb_tree = TooNarrow /\
  render_tree plain_deco 3 (with_overflow exb_opts) 2 cexb_tree <> TooNarrow /\
  RenderTotal.tree_wf plain_deco 3 cexb_tree = true.
Proof.
  split; [reflexivity|]. split; [vm_compute; reflexivity|].
  split; [apply c11_overflow_render_not_too_narrow; reflexivity|vm_compute; reflexivity].
Qed.

(* ---- the route theorems on a document (RenderTotal.ex_doc: paragraph, table with colspan and
   a dropped tfoot, ordered list), CSS front end = CssParse: the same string at width 20 with
   the flag (third clause); TooNarrow at width 2 without the flag, Ok with it (fourth) ---- *)
From H2T Require CssParse.
Notation exr_str c w :=
  (string_from_read CssParse.inline_styles CssParse.doc_rules c RenderTotal.ex_doc w).
Definition exr_out : text := match exr_str cfg_plain 20 with Ok t => t | _ => [] end.
Example exr_ok_20 : exr_str cfg_plain 20 = Ok exr_out /\ (0 <? tlen exr_out) = true.
Proof. split; vm_compute; reflexivity. Qed.
Example exr_applies : exr_str (set_overflow cfg_plain) 20 = Ok exr_out.
Proof. exact (c11_string_from_read CssParse.inline_styles CssParse.doc_rules cfg_plain RenderTotal.ex_doc 20 exr_out (proj1 exr_ok_20)). Qed.
Definition exr_tree : rnode :=
  match to_render_tree CssParse.inline_styles CssParse.doc_rules (set_overflow cfg_plain) RenderTotal.ex_doc with
  | Ok t => t | _ => ex_n IBreak end.
Example exr_tree_eq :
  to_render_tree CssParse.inline_styles CssParse.doc_rules (set_overflow cfg_plain) RenderTotal.ex_doc = Ok exr_tree.
Proof. vm_compute. reflexivity. Qed.
Example exr_tree_wf :
  RenderTotal.tree_wf (c_deco (set_overflow cfg_plain)) (c_min_wrap (set_overflow cfg_plain)) exr_tree = true.
Proof. vm_compute. reflexivity. Qed.
Example exr_width_2 :
  exr_str cfg_plain 2 = TooNarrow /\ exists t, exr_str (set_overflow cfg_plain) 2 = Ok t.
Proof.
  split; [vm_compute; reflexivity|].
  assert (L : 2 < usize_max) by (vm_compute; reflexivity).
  assert (L1 : 1 <= 2) by lia.
  exact (proj2 (c11_routes_always_ok CssParse.inline_styles CssParse.doc_rules (set_overflow cfg_plain)
                   RenderTotal.ex_doc 2 exr_tree eq_refl L1 L exr_tree_eq exr_tree_wf)).
Qed.
