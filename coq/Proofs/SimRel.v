(* Proofs/SimRel.v -- header comment is completed at the end of the file's development. *)
From H2T Require Import Base Tagged Wrap Sub Css Dom Render Api.
From H2T Require Import Proofs.WrapInv Proofs.Small Proofs.RenderWidth Proofs.OptionRel.
From H2T Require Import Proofs.Compose.
From Coq Require Import Lia ZifyN ZifyBool ZifyNat.

Local Arguments N.add : simpl never.
Local Arguments N.sub : simpl never.
Local Arguments N.mul : simpl never.
Local Arguments N.div : simpl never.
Local Arguments N.modulo : simpl never.
Local Arguments N.leb : simpl never.
Local Arguments N.ltb : simpl never.
Local Arguments N.eqb : simpl never.
Local Arguments N.min : simpl never.
Local Arguments N.max : simpl never.
Local Arguments N.to_nat : simpl never.
Local Arguments N.of_nat : simpl never.
Local Open Scope N_scope.

(* ================================================================== *)
(* 0. Outcome relations: three modes                                    *)
(* ================================================================== *)
(* MLe     : run 1 Ok => run 2 Ok and related (no claim when run 1 fails);
   MStrict : the same outcome kind (the same Panic site), related when Ok;
   MNtn    : run 1 is never TooNarrow; when Ok, run 2 is Ok and related. *)
Inductive mode := MLe | MStrict | MNtn.

Section RS.
  Variable md : mode.

  Definition rs {A B} (P : A -> B -> Prop) (x : res A) (y : res B) : Prop :=
    match x with
    | Ok a => match y with Ok b => P a b | _ => False end
    | TooNarrow => match md with MLe => True | MStrict => y = TooNarrow | MNtn => False end
    | Panic i => md = MStrict -> y = Panic i
    | OutOfFuel => md = MStrict -> y = OutOfFuel
    end.

  Lemma rs_bind {A B A' B'} (P : A -> B -> Prop) (Q : A' -> B' -> Prop) x y k1 k2 :
    rs P x y -> (forall a b, P a b -> rs Q (k1 a) (k2 b)) -> rs Q (bind x k1) (bind y k2).
  Proof.
    destruct x as [a| |i|]; cbn [rs bind]; intros H K.
    - destruct y as [b| | |]; try contradiction. cbn [bind]. apply K, H.
    - destruct md; auto. subst y. reflexivity.
    - intros E. rewrite (H E). reflexivity.
    - intros E. rewrite (H E). reflexivity.
  Qed.

  Lemma rs_head {A C D} (Q : C -> D -> Prop) (e1 e2 : res A) k1 k2 :
    e1 = e2 -> e1 <> TooNarrow -> (forall v, e1 = Ok v -> rs Q (k1 v) (k2 v)) ->
    rs Q (bind e1 k1) (bind e2 k2).
  Proof.
    intros <- Hn Hk. destruct e1; cbn [bind rs]; auto; try congruence.
  Qed.

  Lemma rs_same_fail {A C D} (Q : C -> D -> Prop) (e : res A) (k1 : A -> res C) (k2 : A -> res D) :
    (forall v, e <> Ok v) -> e <> TooNarrow -> rs Q (bind e k1) (bind e k2).
  Proof.
    intros H Hn. destruct e as [v| | |]; cbn [bind rs]; auto; try congruence.
  Qed.

  Lemma rs_impl {A B} (P Q : A -> B -> Prop) x y :
    (forall a b, P a b -> Q a b) -> rs P x y -> rs Q x y.
  Proof. destruct x, y; cbn [rs]; auto. Qed.

  Lemma rs_ok_l {A B} (P : A -> B -> Prop) x y a :
    rs P x y -> x = Ok a -> exists b, y = Ok b /\ P a b.
  Proof. intros H ->. destruct y; cbn [rs] in H; try contradiction. eauto. Qed.

  Lemma rs_fold2 {A B C D} (P : A -> B -> Prop) (R : C -> D -> Prop)
        (f : C -> A -> res A) (g : D -> B -> res B) :
    forall l1 l2, Forall2 R l1 l2 ->
    (forall c c', R c c' -> forall a b, P a b -> rs P (f c a) (g c' b)) ->
    forall x y, rs P x y ->
    rs P (fold_left (fun acc c => do s <- acc; f c s) l1 x)
         (fold_left (fun acc c => do s <- acc; g c s) l2 y).
  Proof.
    induction 1 as [|c c' l1 l2 Hc _ IH]; intros Hstep x y Hxy; cbn [fold_left]; [exact Hxy|].
    apply IH; [exact Hstep|]. eapply rs_bind; [exact Hxy|]. apply Hstep, Hc.
  Qed.
End RS.

Lemma rs_strict_eq {A} (x y : res A) : rs MStrict eq x y -> x = y.
Proof.
  destruct x; cbn [rs]; intros H.
  - destruct y; try contradiction. congruence.
  - auto.
  - symmetry. auto.
  - symmetry. auto.
Qed.

Lemma rs_ntn {A B} (P : A -> B -> Prop) x y : rs MNtn P x y -> x <> TooNarrow.
Proof. destruct x; cbn [rs]; intros H; try discriminate. contradiction. Qed.

(* fold_left over two lists related element by element *)
Lemma fold_left_F2 {A B C} (R : B -> C -> Prop) (f : A -> B -> A) (g : A -> C -> A) :
  forall l1 l2, Forall2 R l1 l2 -> (forall a b c, R b c -> f a b = g a c) ->
  forall a, fold_left f l1 a = fold_left g l2 a.
Proof.
  induction 1 as [|b c l1 l2 Hbc _ IH]; intros Hfg a; cbn [fold_left]; [reflexivity|].
  rewrite (Hfg a b c Hbc). apply IH, Hfg.
Qed.

Lemma F2_length {A B} {R : A -> B -> Prop} {l1 l2} : Forall2 R l1 l2 -> length l1 = length l2.
Proof. induction 1; cbn [length]; congruence. Qed.

(* a monadic fold is TooNarrow only if the start or some step is *)
Lemma fold_ntn {A B} (f : B -> A -> res A) : forall (l : list B) (e : res A),
  e <> TooNarrow -> (forall b a, In b l -> f b a <> TooNarrow) ->
  fold_left (fun acc b => do s <- acc; f b s) l e <> TooNarrow.
Proof.
  induction l as [|b l IH]; intros e He Hf; cbn [fold_left]; [exact He|].
  apply IH; [|intros b' a Hb'; apply Hf; right; exact Hb'].
  destruct e; cbn [bind]; try congruence. apply Hf. left. reflexivity.
Qed.

Lemma bind_ext {A B} (e : res A) (k1 k2 : A -> res B) :
  (forall a, k1 a = k2 a) -> bind e k1 = bind e k2.
Proof. intros H. destruct e; cbn [bind]; auto. Qed.

Lemma bind_ntn {A B} (e : res A) (k : A -> res B) :
  e <> TooNarrow -> (forall a, k a <> TooNarrow) -> bind e k <> TooNarrow.
Proof. destruct e; cbn [bind]; auto; congruence. Qed.

(* ================================================================== *)
(* 1. Two render trees related node by node                             *)
(* ================================================================== *)
(* the same shape and the same styles (each satisfying SOK); text leaves related by TI *)
Section TRel.
  Variable TI : text -> text -> Prop.
  Variable SOK : cstyle -> Prop.

  Inductive trel : rnode -> rnode -> Prop :=
  | TRn i1 i2 s : SOK s -> irel i1 i2 -> trel (RN i1 s) (RN i2 s)
  with irel : rinfo -> rinfo -> Prop :=
  | IR_text t1 t2 : TI t1 t2 -> irel (IText t1) (IText t2)
  | IR_container c1 c2 : Forall2 trel c1 c2 -> irel (IContainer c1) (IContainer c2)
  | IR_link h c1 c2 : Forall2 trel c1 c2 -> irel (ILink h c1) (ILink h c2)
  | IR_em c1 c2 : Forall2 trel c1 c2 -> irel (IEm c1) (IEm c2)
  | IR_strong c1 c2 : Forall2 trel c1 c2 -> irel (IStrong c1) (IStrong c2)
  | IR_strike c1 c2 : Forall2 trel c1 c2 -> irel (IStrikeout c1) (IStrikeout c2)
  | IR_code c1 c2 : Forall2 trel c1 c2 -> irel (ICode c1) (ICode c2)
  | IR_img s t : irel (IImg s t) (IImg s t)
  | IR_block c1 c2 : Forall2 trel c1 c2 -> irel (IBlock c1) (IBlock c2)
  | IR_header l c1 c2 : Forall2 trel c1 c2 -> irel (IHeader l c1) (IHeader l c2)
  | IR_div c1 c2 : Forall2 trel c1 c2 -> irel (IDiv c1) (IDiv c2)
  | IR_quote c1 c2 : Forall2 trel c1 c2 -> irel (IBlockQuote c1) (IBlockQuote c2)
  | IR_ul c1 c2 : Forall2 trel c1 c2 -> irel (IUl c1) (IUl c2)
  | IR_ol z c1 c2 : Forall2 trel c1 c2 -> irel (IOl z c1) (IOl z c2)
  | IR_dl c1 c2 : Forall2 trel c1 c2 -> irel (IDl c1) (IDl c2)
  | IR_dt c1 c2 : Forall2 trel c1 c2 -> irel (IDt c1) (IDt c2)
  | IR_dd c1 c2 : Forall2 trel c1 c2 -> irel (IDd c1) (IDd c2)
  | IR_break : irel IBreak IBreak
  | IR_table r1 r2 nc : Forall2 rowrel r1 r2 -> irel (ITable r1 nc) (ITable r2 nc)
  | IR_tbody r1 r2 : irel (ITableBody r1) (ITableBody r2)
  | IR_trow r1 r2 : irel (ITableRow r1) (ITableRow r2)
  | IR_tcell c1 c2 : irel (ITableCell c1) (ITableCell c2)
  | IR_frag n : irel (IFragStart n) (IFragStart n)
  | IR_li c1 c2 : Forall2 trel c1 c2 -> irel (IListItem c1) (IListItem c2)
  | IR_sup c1 c2 : Forall2 trel c1 c2 -> irel (ISup c1) (ISup c2)
  with rowrel : rrow -> rrow -> Prop :=
  | RRel c1 c2 s : SOK s -> Forall2 cellrel c1 c2 -> rowrel (RRow c1 s) (RRow c2 s)
  with cellrel : rcell -> rcell -> Prop :=
  | CRel n k1 k2 s : SOK s -> Forall2 trel k1 k2 -> cellrel (RCell n k1 s) (RCell n k2 s).

  (* from an induction hypothesis on the left tree to a pointwise statement *)
  Lemma F2_IH (P : rnode -> rnode -> Prop) c1 : forall c2,
    Forall (fun n1 => forall n2, trel n1 n2 -> P n1 n2) c1 -> Forall2 trel c1 c2 -> Forall2 P c1 c2.
  Proof.
    induction c1 as [|a c1 IH]; intros c2 HF H2; inversion H2; subst; constructor.
    - apply (Forall_inv HF). assumption.
    - apply IH; [exact (Forall_inv_tail HF)|assumption].
  Qed.

  Lemma F2_cells_IH (P : rnode -> rnode -> Prop) cs1 : forall cs2,
    Forall (fun n1 => forall n2, trel n1 n2 -> P n1 n2) (flat_map cell_content cs1) ->
    Forall2 cellrel cs1 cs2 ->
    Forall2 (fun c1 c2 => cell_colspan c1 = cell_colspan c2 /\ cell_style c1 = cell_style c2 /\
                          SOK (cell_style c1) /\ Forall2 P (cell_content c1) (cell_content c2)) cs1 cs2.
  Proof.
    induction cs1 as [|a cs1 IH]; intros cs2 HF H2; inversion H2 as [|? b ? ? Hab Hr]; subst;
      constructor.
    - cbn [flat_map] in HF. apply Forall_app in HF. destruct HF as [HF _].
      inversion Hab; subst. cbn [cell_colspan cell_style cell_content] in *.
      repeat split; auto. apply F2_IH; assumption.
    - apply IH; [|assumption]. cbn [flat_map] in HF. apply Forall_app in HF. apply HF.
  Qed.

  Definition cells_P (P : rnode -> rnode -> Prop) (c1 c2 : rcell) : Prop :=
    cell_colspan c1 = cell_colspan c2 /\ cell_style c1 = cell_style c2 /\
    SOK (cell_style c1) /\ Forall2 P (cell_content c1) (cell_content c2).
  Definition rows_P (P : rnode -> rnode -> Prop) (r1 r2 : rrow) : Prop :=
    row_style r1 = row_style r2 /\ SOK (row_style r1) /\
    Forall2 (cells_P P) (row_cells r1) (row_cells r2).

  Lemma F2_rows_IH (P : rnode -> rnode -> Prop) rs1 : forall rs2,
    Forall (fun n1 => forall n2, trel n1 n2 -> P n1 n2) (flat_map row_kids rs1) ->
    Forall2 rowrel rs1 rs2 -> Forall2 (rows_P P) rs1 rs2.
  Proof.
    induction rs1 as [|a rs1 IH]; intros rs2 HF H2; inversion H2 as [|? b ? ? Hab Hr]; subst;
      constructor.
    - cbn [flat_map] in HF. apply Forall_app in HF. destruct HF as [HF _].
      inversion Hab; subst. unfold rows_P. cbn [row_style row_cells]. unfold row_kids in HF.
      cbn [row_cells] in HF. repeat split; auto. apply F2_cells_IH; assumption.
    - apply IH; [|assumption]. cbn [flat_map] in HF. apply Forall_app in HF. apply HF.
  Qed.
End TRel.

(* ================================================================== *)
(* 2. Size estimates of related trees; estimates are never TooNarrow    *)
(* ================================================================== *)
Section EstRel.
  Variables (d : deco) (mw : N).
  Variable TI : text -> text -> Prop.
  Variable SOK : cstyle -> Prop.
  Hypothesis TI_est : forall t1 t2, TI t1 t2 -> text_est mw t1 false = text_est mw t2 false.

  Definition esteq (a b : rnode) : Prop := est_node d mw a = est_node d mw b.

  Lemma est_kids_eq c1 c2 : Forall2 esteq c1 c2 -> est_kids d mw c1 = est_kids d mw c2.
  Proof.
    intros H. unfold est_kids. apply (fold_left_F2 esteq); [exact H|].
    intros a b c Hbc. unfold esteq in Hbc. rewrite Hbc. reflexivity.
  Qed.

  Lemma cell_est_eq c c' :
    cells_P SOK esteq c c' ->
    match c with RCell _ k _ => est_kids d mw k end = match c' with RCell _ k _ => est_kids d mw k end.
  Proof.
    destruct c, c'. unfold cells_P. cbn [cell_content]. intros (_ & _ & _ & H).
    apply est_kids_eq, H.
  Qed.

  Lemma est_rel : forall n1 n2, trel TI SOK n1 n2 -> esteq n1 n2.
  Proof.
    apply (rnode_ind' (fun n1 => forall n2, trel TI SOK n1 n2 -> esteq n1 n2)).
    intros i1 sty IH n2 HT. inversion HT as [i1' i2 s Hs Hi]; subst. clear HT. unfold esteq.
    inversion Hi; subst; cbn [direct_kids] in IH; cbn [est_node rn_info];
      try reflexivity;
      try (match goal with
           | H2 : Forall2 (trel TI SOK) ?c1 ?c2 |- _ =>
             let Hk := fresh "Hk" in
             pose proof (est_kids_eq c1 c2 (F2_IH TI SOK esteq c1 c2 IH H2)) as Hk;
             unfold est_kids in Hk; rewrite ?(F2_length H2), Hk; reflexivity
           end).
    - f_equal. apply TI_est. assumption.
    - pose proof (F2_rows_IH TI SOK esteq _ _ IH H) as HR.
      destruct (nc =? 0).
      + match goal with |- bind ?a _ = bind ?b _ => assert (E : a = b); [|rewrite E; reflexivity] end.
        apply (fold_left_F2 (rows_P SOK esteq)); [exact HR|].
        intros a r r' (_ & _ & HC). apply bind_ext. intros _.
        apply (fold_left_F2 (cells_P SOK esteq)); [exact HC|].
        intros a' c c' Hc. pose proof (cell_est_eq c c' Hc) as Ec. unfold est_kids in Ec.
        rewrite Ec. reflexivity.
      + match goal with |- bind ?a _ = bind ?b _ => assert (E : a = b); [|rewrite E; reflexivity] end.
        apply (fold_left_F2 (rows_P SOK esteq)); [exact HR|].
        intros a r r' (_ & _ & HC). apply bind_ext. intros s.
        match goal with |- bind ?a _ = bind ?b _ => assert (E : a = b); [|rewrite E; reflexivity] end.
        apply (fold_left_F2 (cells_P SOK esteq)); [exact HC|].
        intros a' c c' Hc. pose proof (cell_est_eq c c' Hc) as Ec. unfold est_kids in Ec.
        rewrite Ec. destruct Hc as (Ecs & _). rewrite Ecs. reflexivity.
  Qed.


  Definition entn (n : rnode) : Prop := est_node d mw n <> TooNarrow.

  Lemma est_kids_ntn cs : Forall entn cs -> est_kids d mw cs <> TooNarrow.
  Proof.
    intros HF. unfold est_kids. apply fold_ntn; [discriminate|]. intros b a Hb.
    rewrite Forall_forall in HF. apply bind_ntn; [apply HF, Hb|discriminate].
  Qed.

  Lemma est_ntn : forall n, entn n.
  Proof.
    apply rnode_ind'. intros i sty IH. unfold entn.
    destruct i; cbn [direct_kids] in IH; cbn [est_node rn_info]; try discriminate;
      try (apply (est_kids_ntn _ IH));
      try (apply bind_ntn; [apply (est_kids_ntn _ IH)|discriminate]).
    - apply bind_ntn; [unfold ol_prefix_size; discriminate|]. intros ps.
      apply bind_ntn; [apply (est_kids_ntn _ IH)|discriminate].
    - assert (HC : forall r c, In r rows -> In c (row_cells r) ->
                   match c with RCell _ k _ => est_kids d mw k end <> TooNarrow).
      { intros r c Hr Hc. destruct c as [n k s]. apply est_kids_ntn. apply Forall_forall.
        intros x Hx. rewrite Forall_forall in IH. apply IH. apply in_flat_map. exists r.
        split; [exact Hr|]. unfold row_kids. apply in_flat_map. exists (RCell n k s). auto. }
      unfold est_kids in HC.
      destruct (ncols =? 0).
      + apply bind_ntn; [|discriminate]. apply fold_ntn; [discriminate|]. intros r a Hr.
        apply fold_ntn; [discriminate|]. intros c a' Hc.
        apply bind_ntn; [apply (HC r c Hr Hc)|discriminate].
      + apply bind_ntn; [|discriminate]. apply fold_ntn; [discriminate|]. intros r a Hr.
        apply bind_ntn; [|discriminate]. apply fold_ntn; [discriminate|]. intros c [sz colno] Hc.
        apply bind_ntn; [apply (HC r c Hr Hc)|]. intros ce.
        destruct (upd_range _ _ _ _); discriminate.
  Qed.
End EstRel.

(* ================================================================== *)
(* 3. Generic lock-step simulation of two runs on two related trees     *)
(* ================================================================== *)
(* Compose.v section 1, generalised: (i) the outcome relation is `rs md` (three modes),
   (ii) the two runs render two trees related by `trel TI SOK`, (iii) the relation between
   text leaves is TI and styles satisfy SOK. *)

Definition wsm_of (cs : cstyle) : option wsmode :=
  match ws_val (c_white_space (cs_core cs)) with
  | Some WsPre => Some WsPre
  | Some WsPreWrap => Some WsPreWrap
  | _ => None
  end.

Definition gop (md : mode) (SR : subr -> subr -> Prop) (f : subr -> res subr) : Prop :=
  forall x y, SR x y -> rs md SR (f x) (f y).

Record GOps (md : mode) (d : deco) (mw : N) (SR : subr -> subr -> Prop)
       (TI : text -> text -> Prop) (SOK : cstyle -> Prop) : Prop := mkGOps {
  go_push_colour : forall r g b, pureR SR (fun s => push_colour d s r g b);
  go_push_bg : forall r g b, pureR SR (fun s => push_bgcolour d s r g b);
  go_push_ws : forall cs m, SOK cs -> wsm_of cs = Some m -> pureR SR (fun s => push_ws_mode s m);
  go_push_pre : pureR SR push_preformat;
  go_pop_colour : pureR SR (pop_colour d);
  go_pop_ws : pureR SR pop_ws_mode;
  go_pop_pre : gop md SR pop_preformat;
  go_inline : forall t1 t2, TI t1 t2 -> forall x y, SR x y ->
              rs md SR (add_inline_text d x t1) (add_inline_text d y t2);
  go_inline_same : forall t, gop md SR (fun s => add_inline_text d s t);
  go_est : forall t1 t2, TI t1 t2 -> text_est mw t1 false = text_est mw t2 false;
  go_digits : forall t1 t2, TI t1 t2 ->
              forallb is_ascii_digit t1 = true \/ forallb is_ascii_digit t2 = true -> t1 = t2;
  go_start_link : forall h, gop md SR (fun s => sub_start_link d s h);
  go_end_link : gop md SR (sub_end_link d);
  go_foot : forall x y, SR x y -> o_footnotes (sopts x) = o_footnotes (sopts y);
  go_em_s : gop md SR (start_emphasis d);       go_em_e : gop md SR (end_emphasis d);
  go_strong_s : gop md SR (start_strong d);     go_strong_e : gop md SR (end_strong d);
  go_strike_s : gop md SR (start_strikeout d);  go_strike_e : gop md SR (end_strikeout d);
  go_code_s : gop md SR (start_code d);         go_code_e : gop md SR (end_code d);
  go_sup_s : gop md SR (start_superscript d);   go_sup_e : gop md SR (end_superscript d);
  go_image : forall src t, gop md SR (fun s => add_image d s src t);
  go_start_block : gop md SR start_block;
  go_end_block : pureR SR end_block;
  go_new_line : gop md SR new_line;
  go_new_line_hard : gop md SR new_line_hard;
  go_frag : forall n, pureR SR (fun s => record_frag_start s n);
  go_wm : forall x y p mn, SR x y -> rs md eq (width_minus x p mn) (width_minus y p mn);
  go_new : forall u v w, SR u v -> SR (new_sub_renderer u w) (new_sub_renderer v w);
  go_append : forall x y u v f r, SR x y -> SR u v ->
              rs md SR (append_subrender x u f r) (append_subrender y v f r);
  go_width : forall x y, SR x y -> swidth_ x = swidth_ y;
  go_raw : forall x y, SR x y -> o_raw (sopts x) = o_raw (sopts y);
  go_borders : forall x y, SR x y -> o_borders (sopts x) = o_borders (sopts y);
  go_hborder : forall w, gop md SR (fun s => add_horizontal_border_width s w);
  go_vert : forall x y us vs, SR x y -> Forall2 SR us vs ->
            rs md SR (append_vert_row x us) (append_vert_row y vs);
  go_cols : forall x y us vs, SR x y -> Forall2 SR us vs ->
            rs md SR (append_columns_with_borders x us true)
                     (append_columns_with_borders y vs true);
  go_empty : forall u v, SR u v -> sub_empty u = sub_empty v
}.

Lemma usub_ntn s a b : usub s a b <> TooNarrow.
Proof. unfold usub. destruct (b <=? a); discriminate. Qed.

Lemma cell_widths_ntn vr cs : forall cells colno, cell_widths vr cs cells colno <> TooNarrow.
Proof.
  induction cells as [|c cells IH]; intros colno; cbn [cell_widths]; [discriminate|].
  apply bind_ntn.
  - destruct vr; [destruct (nth_opt cs (N.to_nat colno)); discriminate|].
    destruct (N.of_nat (length cs) <? colno + cell_colspan c); discriminate.
  - intros cw_. apply bind_ntn; [apply IH|]. intros r.
    destruct (0 <? cw_); [|discriminate]. destruct vr; [discriminate|].
    apply bind_ntn; [unfold uadd; destruct (_ <=? _); discriminate|]. intros w1.
    apply bind_ntn; [apply usub_ntn|discriminate].
Qed.

Lemma shrink_loop_ntn : forall fuel width mins ws_, shrink_loop fuel width mins ws_ <> TooNarrow.
Proof.
  induction fuel as [|f IH]; intros width mins ws_; cbn [shrink_loop];
    destruct (_ <=? width); try discriminate.
  destruct (argmax_col ws_ mins 0 None) as [i|]; [|discriminate].
  destruct (nth_opt ws_ (N.to_nat i)) as [[|p]|]; try discriminate. apply IH.
Qed.

Section GSim.
  Variables (md : mode) (d : deco) (mw : N).
  Variable SR : subr -> subr -> Prop.
  Variable TI : text -> text -> Prop.
  Variable SOK : cstyle -> Prop.
  Hypothesis ops : GOps md d mw SR TI SOK.

  Notation rsm := (rs md).

  Definition GSt (r1 r2 : list subr) (a b : rstate) : Prop :=
    links a = links b /\ exists s1 s2, stack a = s1 :: r1 /\ stack b = s2 :: r2 /\ SR s1 s2.

  Lemma g_with_top r1 r2 f g a b :
    (forall x y, SR x y -> rsm SR (f x) (g y)) -> GSt r1 r2 a b ->
    rsm (GSt r1 r2) (with_top a f) (with_top b g).
  Proof.
    intros Hf (Hl & s1 & s2 & E1 & E2 & Hs). unfold with_top. rewrite E1, E2.
    eapply rs_bind; [apply Hf, Hs|]. intros x y Hxy. cbn [rs].
    split; [exact Hl|]. exists x, y. auto.
  Qed.

  Lemma g_with_top' r1 r2 g a b :
    pureR SR g -> GSt r1 r2 a b -> rsm (GSt r1 r2) (with_top' a g) (with_top' b g).
  Proof. intros Hg. apply g_with_top. intros x y Hxy. cbn [rs]. apply Hg, Hxy. Qed.

  Lemma g_apply_style r1 r2 cs a b :
    SOK cs -> GSt r1 r2 a b ->
    rsm (fun x y => GSt r1 r2 (fst x) (fst y) /\ snd x = snd y)
        (apply_style d a cs) (apply_style d b cs).
  Proof.
    intros Hs H. unfold apply_style.
    eapply rs_bind with (P := GSt r1 r2).
    { destruct (ws_val (c_colour (cs_core cs))) as [[[r g] bl]|];
        [apply g_with_top'; [apply (go_push_colour _ _ _ _ _ _ ops)|exact H]|exact H]. }
    intros a1 b1 H1.
    eapply rs_bind with (P := GSt r1 r2).
    { destruct (ws_val (c_bg (cs_core cs))) as [[[r g] bl]|];
        [apply g_with_top'; [apply (go_push_bg _ _ _ _ _ _ ops)|exact H1]|exact H1]. }
    intros a2 b2 H2.
    eapply rs_bind with (P := GSt r1 r2).
    { destruct (match ws_val (c_white_space (cs_core cs)) with
                | Some WsPre => Some WsPre
                | Some WsPreWrap => Some WsPreWrap
                | _ => None
                end) as [m|] eqn:Em;
        [apply g_with_top'; [apply (go_push_ws _ _ _ _ _ _ ops cs m Hs Em)|exact H2]|exact H2]. }
    intros a3 b3 H3.
    eapply rs_bind with (P := GSt r1 r2).
    { destruct (cs_internal_pre cs);
        [apply g_with_top'; [apply (go_push_pre _ _ _ _ _ _ ops)|exact H3]|exact H3]. }
    intros a4 b4 H4. cbn [rs fst snd]. auto.
  Qed.

  Lemma g_unwind r1 r2 p a b :
    GSt r1 r2 a b -> rsm (GSt r1 r2) (unwind d p a) (unwind d p b).
  Proof.
    intros H. unfold unwind.
    eapply rs_bind with (P := GSt r1 r2).
    { destruct (p_bg p); [apply g_with_top'; [apply (go_pop_colour _ _ _ _ _ _ ops)|exact H]|exact H]. }
    intros a1 b1 H1.
    eapply rs_bind with (P := GSt r1 r2).
    { destruct (p_colour p); [apply g_with_top'; [apply (go_pop_colour _ _ _ _ _ _ ops)|exact H1]|exact H1]. }
    intros a2 b2 H2.
    eapply rs_bind with (P := GSt r1 r2).
    { destruct (p_ws p); [apply g_with_top'; [apply (go_pop_ws _ _ _ _ _ _ ops)|exact H2]|exact H2]. }
    intros a3 b3 H3.
    destruct (p_pre p); [apply g_with_top; [apply (go_pop_pre _ _ _ _ _ _ ops)|exact H3]|exact H3].
  Qed.

  Lemma g_inline r1 r2 t1 t2 a b :
    TI t1 t2 -> GSt r1 r2 a b -> rsm (GSt r1 r2) (inline_text d a t1) (inline_text d b t2).
  Proof. intros Ht. unfold inline_text. apply g_with_top. apply (go_inline _ _ _ _ _ _ ops), Ht. Qed.

  Lemma g_inline_same r1 r2 t a b :
    GSt r1 r2 a b -> rsm (GSt r1 r2) (inline_text d a t) (inline_text d b t).
  Proof. unfold inline_text. apply g_with_top. apply (go_inline_same _ _ _ _ _ _ ops). Qed.

  Lemma g_top r1 r2 a b :
    GSt r1 r2 a b ->
    rsm (fun x y => SR x y /\ stack a = x :: r1 /\ stack b = y :: r2) (top a) (top b).
  Proof.
    intros (Hl & s1 & s2 & E1 & E2 & Hs). unfold top. rewrite E1, E2. cbn [rs]. auto.
  Qed.

  Lemma g_push r1 r2 a b x y u v :
    links a = links b -> stack a = x :: r1 -> stack b = y :: r2 -> SR u v ->
    GSt (x :: r1) (y :: r2) (push_sub a u) (push_sub b v).
  Proof.
    intros Hl E1 E2 Huv. split; [exact Hl|]. exists u, v. cbn [push_sub stack].
    rewrite E1, E2. auto.
  Qed.

  Lemma g_pop r1 r2 x y a b :
    SR x y -> GSt (x :: r1) (y :: r2) a b ->
    rsm (fun p q => SR (fst p) (fst q) /\ GSt r1 r2 (snd p) (snd q)) (pop_sub a) (pop_sub b).
  Proof.
    intros Hxy (Hl & s1 & s2 & E1 & E2 & Hs). unfold pop_sub. rewrite E1, E2.
    cbn [rs fst snd]. split; [exact Hs|]. split; [exact Hl|]. exists x, y. auto.
  Qed.

  (* the per-pair statement *)
  Definition gnode (n1 n2 : rnode) : Prop :=
    forall r1 r2 a b, GSt r1 r2 a b ->
      rsm (GSt r1 r2) (render_node d mw n1 a) (render_node d mw n2 b).

  Lemma g_kids cs1 cs2 r1 r2 a b :
    Forall2 gnode cs1 cs2 -> GSt r1 r2 a b ->
    rsm (GSt r1 r2) (rkids d mw cs1 a) (rkids d mw cs2 b).
  Proof.
    intros HF H. unfold rkids.
    apply (rs_fold2 md (GSt r1 r2) gnode (fun c s => render_node d mw c s)
                    (fun c s => render_node d mw c s) cs1 cs2 HF); [|exact H].
    intros c c' Hc x y Hxy. apply Hc, Hxy.
  Qed.

  Lemma g_wrap (f1 f2 : subr -> res subr) cs1 cs2 ps r1 r2 a b :
    gop md SR f1 -> gop md SR f2 -> Forall2 gnode cs1 cs2 -> GSt r1 r2 a b ->
    rsm (GSt r1 r2)
      (do x <- with_top a f1; do y <- rkids d mw cs1 x; do z <- with_top y f2; unwind d ps z)
      (do x <- with_top b f1; do y <- rkids d mw cs2 x; do z <- with_top y f2; unwind d ps z).
  Proof.
    intros K1 K2 HF H.
    eapply rs_bind; [apply g_with_top; [apply K1|exact H]|]. intros x1 x2 Hx.
    eapply rs_bind; [apply g_kids; [exact HF|exact Hx]|]. intros y1 y2 Hy.
    eapply rs_bind; [apply g_with_top; [apply K2|exact Hy]|]. intros z1 z2 Hz.
    apply g_unwind, Hz.
  Qed.

  Lemma g_scope r1 r2 a b p mn (body1 body2 : rstate -> res rstate) :
    GSt r1 r2 a b ->
    (forall q1 q2 a' b', GSt q1 q2 a' b' -> rsm (GSt q1 q2) (body1 a') (body2 b')) ->
    forall {C1 C2} (k1 : subr * rstate -> res C1) (k2 : subr * rstate -> res C2) (Q : C1 -> C2 -> Prop),
    (forall u v a' b', SR u v -> GSt r1 r2 a' b' -> rsm Q (k1 (u, a')) (k2 (v, b'))) ->
    rsm Q
      (do tp <- top a; do w <- width_minus tp p mn;
       do st2 <- body1 (push_sub a (new_sub_renderer tp w)); do pp <- pop_sub st2; k1 pp)
      (do tp <- top b; do w <- width_minus tp p mn;
       do st2 <- body2 (push_sub b (new_sub_renderer tp w)); do pp <- pop_sub st2; k2 pp).
  Proof.
    intros H Hbody C1 C2 k1 k2 Q Hk.
    eapply rs_bind; [apply g_top, H|]. intros x y (Hxy & E1 & E2).
    eapply rs_bind; [apply (go_wm _ _ _ _ _ _ ops x y p mn Hxy)|]. intros w w' <-.
    eapply rs_bind.
    { apply Hbody. apply g_push; [exact (proj1 H)|exact E1|exact E2|].
      apply (go_new _ _ _ _ _ _ ops), Hxy. }
    intros a2 b2 H2.
    eapply rs_bind; [apply (g_pop r1 r2 x y); assumption|].
    intros [u a3] [v b3] [Huv H3]. cbn [fst snd] in *. apply Hk; assumption.
  Qed.

  (* ---- table rows ---- *)
  Lemma g_cells : forall cells1 cells2 wsl r1 r2 a b us vs,
    Forall2 (cells_P SOK gnode) cells1 cells2 ->
    GSt r1 r2 a b -> Forall2 SR us vs ->
    rsm (fun p q => GSt r1 r2 (fst p) (fst q) /\ Forall2 SR (snd p) (snd q))
        (cells_loop d mw cells1 wsl a us) (cells_loop d mw cells2 wsl b vs).
  Proof.
    induction cells1 as [|[n content csty] cells1 IH]; intros cells2 wsl r1 r2 a b us vs HF H Huv;
      inversion HF as [|? [n' content' csty'] ? cells2' HF1 HF2]; subst; cbn [cells_loop].
    - cbn [rs fst snd]. auto.
    - destruct HF1 as (En & Es & Hok & HK). cbn [cell_colspan cell_style cell_content] in *. subst n' csty'.
      destruct wsl as [|[w|] wsl]; [cbn [rs fst snd]; auto| |].
      + eapply rs_bind; [apply g_top, H|]. intros x y (Hxy & E1 & E2).
        assert (Hp : GSt (x :: r1) (y :: r2) (push_sub a (new_sub_renderer x w))
                         (push_sub b (new_sub_renderer y w))).
        { apply g_push; [exact (proj1 H)|exact E1|exact E2|].
          apply (go_new _ _ _ _ _ _ ops), Hxy. }
        eapply rs_bind; [apply g_apply_style; [exact Hok|exact Hp]|].
        intros [a4 p4] [b4 q4] [H4 Epq]. cbn [fst snd] in H4, Epq. subst q4.
        eapply rs_bind; [apply (g_kids content content'); [exact HK|exact H4]|]. intros a5 b5 H5.
        eapply rs_bind; [apply g_unwind, H5|]. intros a6 b6 H6.
        eapply rs_bind; [apply (g_pop r1 r2 x y); assumption|].
        intros [u a7] [v b7] [Huv' H7]. cbn [fst snd] in *.
        apply IH; auto. apply Forall2_app; auto.
      + apply IH; auto.
  Qed.

  Lemma g_row vr col_widths r r' r1 r2 a b :
    rows_P SOK gnode r r' -> GSt r1 r2 a b ->
    rsm (GSt r1 r2) (row_body d mw vr col_widths r a) (row_body d mw vr col_widths r' b).
  Proof.
    intros (Es & Hok & HC) H. destruct r as [rcells rstyle], r' as [rcells' rstyle'].
    cbn [row_cells row_style] in *. subst rstyle'. unfold row_body.
    eapply rs_bind; [apply g_apply_style; [exact Hok|exact H]|].
    intros [a1 p1] [b1 q1] [H1 Epq]. cbn [fst snd] in H1, Epq. subst q1.
    assert (Ecw : cell_widths vr col_widths rcells 0 = cell_widths vr col_widths rcells' 0).
    { clear -HC. generalize 0. induction HC as [|c c' l l' Hc _ IH]; intros colno; cbn [cell_widths];
        [reflexivity|]. destruct Hc as (Ec & _). rewrite Ec, IH. reflexivity. }
    apply (rs_head md _ _ _ _ _ Ecw (cell_widths_ntn _ _ _ _)). intros cws _.
    eapply rs_bind; [apply (g_cells rcells rcells' cws r1 r2 a1 b1 [] []); auto|].
    intros [a8 us] [b8 vs] [H8 Huv]. cbn [fst snd] in H8, Huv.
    eapply rs_bind with (P := GSt r1 r2).
    { destruct vr.
      - apply g_with_top; [|exact H8]. intros x y Hxy. apply (go_vert _ _ _ _ _ _ ops); assumption.
      - assert (Ee : existsb (fun c => negb (sub_empty c)) us = existsb (fun c => negb (sub_empty c)) vs).
        { clear -Huv ops. induction Huv as [|u v us vs Huv1 _ IH]; [reflexivity|].
          cbn [existsb]. rewrite IH, (go_empty _ _ _ _ _ _ ops u v Huv1). reflexivity. }
        rewrite <- Ee. destruct (existsb (fun c => negb (sub_empty c)) us); [|exact H8].
        apply g_with_top; [|exact H8]. intros x y Hxy. apply (go_cols _ _ _ _ _ _ ops); assumption. }
    intros a9 b9 H9. apply g_unwind, H9.
  Qed.

  Lemma sup_digits_rel cs1 cs2 : Forall2 (trel TI SOK) cs1 cs2 -> sup_digits cs1 = sup_digits cs2.
  Proof.
    intros H. destruct H as [|n1 n2 l1 l2 Hn Hl]; [reflexivity|].
    destruct Hl as [|? ? ? ? _ _]; [|inversion Hn; subst; cbn [sup_digits]; reflexivity].
    inversion Hn as [i1 i2 s Hs Hi]; subst. cbn [sup_digits rn_info].
    inversion Hi; subst; try reflexivity.
    match goal with Ht : TI _ _ |- _ => pose proof (go_digits _ _ _ _ _ _ ops _ _ Ht) as Hd end.
    destruct (forallb is_ascii_digit t1) eqn:E1.
    - rewrite <- (Hd (or_introl eq_refl)), E1. reflexivity.
    - destruct (forallb is_ascii_digit t2) eqn:E2; [|reflexivity].
      rewrite (Hd (or_intror eq_refl)) in E1. congruence.
  Qed.

  Lemma gnode_all : forall n1 n2, trel TI SOK n1 n2 -> gnode n1 n2.
  Proof.
    apply (rnode_ind' (fun n1 => forall n2, trel TI SOK n1 n2 -> gnode n1 n2)).
    intros i1 sty IH n2 HT r1 r2 a b Hab.
    pose proof (est_rel d mw TI SOK (go_est _ _ _ _ _ _ ops) _ _ HT) as Eest. unfold esteq in Eest.
    inversion HT as [i1' i2 s Hs Hi]; subst. clear HT.
    inversion Hi; subst; cbn [direct_kids] in IH; cbn [render_node rn_info rn_style];
      try (apply (rs_head md _ _ _ _ _ Eest (est_ntn d mw _)); intros sz _);
      cbn [bind];
      (eapply rs_bind; [apply g_apply_style; [exact Hs|exact Hab]|]);
      intros [a1 p1] [b1 q1] [H1 Epq]; cbn [fst snd] in H1, Epq; subst q1;
      try (match goal with
           | H2 : Forall2 (trel TI SOK) ?c1 ?c2 |- _ =>
             pose proof (F2_IH TI SOK gnode c1 c2 IH H2) as HK
           end).
    - (* IText *)
      eapply rs_bind; [apply g_inline; eassumption|]. intros; apply g_unwind; assumption.
    - (* IContainer *)
      eapply rs_bind; [apply (g_kids c1 c2); [exact HK|exact H1]|].
      intros; apply g_unwind; assumption.
    - (* ILink *)
      assert (H1' : GSt r1 r2 (mkrst (stack a1) (links a1 ++ [h]))
                               (mkrst (stack b1) (links b1 ++ [h]))).
      { destruct H1 as (Hl & s1 & s2 & E1 & E2 & Hs'). split; [cbn [links]; congruence|].
        exists s1, s2. cbn [stack]. auto. }
      eapply rs_bind; [apply g_with_top; [apply (go_start_link _ _ _ _ _ _ ops)|exact H1']|].
      intros a2 b2 H2.
      eapply rs_bind; [apply (g_kids c1 c2); [exact HK|exact H2]|]. intros a3 b3 H3.
      eapply rs_bind; [apply g_with_top; [apply (go_end_link _ _ _ _ _ _ ops)|exact H3]|].
      intros a4 b4 H4.
      eapply rs_bind; [apply g_top, H4|]. intros x y (Hxy & E1 & E2).
      rewrite <- (go_foot _ _ _ _ _ _ ops x y Hxy), <- (proj1 H4).
      eapply rs_bind with (P := GSt r1 r2).
      { destruct (o_footnotes (sopts x)); [apply g_inline_same, H4|exact H4]. }
      intros; apply g_unwind; assumption.
    - (* IEm *) apply g_wrap; auto; [apply (go_em_s _ _ _ _ _ _ ops)|apply (go_em_e _ _ _ _ _ _ ops)].
    - (* IStrong *) apply g_wrap; auto; [apply (go_strong_s _ _ _ _ _ _ ops)|apply (go_strong_e _ _ _ _ _ _ ops)].
    - (* IStrikeout *) apply g_wrap; auto; [apply (go_strike_s _ _ _ _ _ _ ops)|apply (go_strike_e _ _ _ _ _ _ ops)].
    - (* ICode *) apply g_wrap; auto; [apply (go_code_s _ _ _ _ _ _ ops)|apply (go_code_e _ _ _ _ _ _ ops)].
    - (* IImg *)
      eapply rs_bind; [apply g_with_top; [apply (go_image _ _ _ _ _ _ ops)|exact H1]|].
      intros; apply g_unwind; assumption.
    - (* IBlock *)
      apply (g_wrap start_block (fun s => Ok (end_block s))); auto;
        [apply (go_start_block _ _ _ _ _ _ ops)|].
      intros x y Hxy. cbn [rs]. apply (go_end_block _ _ _ _ _ _ ops), Hxy.
    - (* IHeader *)
      destruct (negb (swidth (d_header_prefix d l) =? e_prefix sz)); [cbn [rs]; auto|].
      apply (g_scope r1 r2 a1 b1 _ _ (rkids d mw c1) (rkids d mw c2)); [exact H1| |].
      { intros; apply g_kids; assumption. }
      intros u v a3 b3 Huv H3.
      eapply rs_bind; [apply g_with_top; [apply (go_start_block _ _ _ _ _ _ ops)|exact H3]|].
      intros a4 b4 H4.
      eapply rs_bind; [apply g_with_top; [|exact H4]|].
      { intros x y Hxy. apply (go_append _ _ _ _ _ _ ops); assumption. }
      intros a5 b5 H5.
      eapply rs_bind; [apply g_with_top'; [apply (go_end_block _ _ _ _ _ _ ops)|exact H5]|].
      intros; apply g_unwind; assumption.
    - (* IDiv *)
      apply g_wrap; auto; apply (go_new_line _ _ _ _ _ _ ops).
    - (* IBlockQuote *)
      destruct (negb (e_prefix sz =? swidth (d_quote_prefix d))); [cbn [rs]; auto|].
      apply (rs_head md _ _ _ _ _ eq_refl (usub_ntn _ _ _)). intros iw _.
      apply (g_scope r1 r2 a1 b1 _ _ (rkids d mw c1) (rkids d mw c2)); [exact H1| |].
      { intros; apply g_kids; assumption. }
      intros u v a3 b3 Huv H3.
      eapply rs_bind; [apply g_with_top; [apply (go_start_block _ _ _ _ _ _ ops)|exact H3]|].
      intros a4 b4 H4.
      eapply rs_bind; [apply g_with_top; [|exact H4]|].
      { intros x y Hxy. apply (go_append _ _ _ _ _ _ ops); assumption. }
      intros a5 b5 H5.
      eapply rs_bind; [apply g_with_top'; [apply (go_end_block _ _ _ _ _ _ ops)|exact H5]|].
      intros; apply g_unwind; assumption.
    - (* IUl *)
      eapply rs_bind with (P := GSt r1 r2); [|intros; apply g_unwind; assumption].
      apply (rs_fold2 md (GSt r1 r2) gnode _ _ c1 c2 HK); [|exact H1].
      intros item item' Hitem x y Hxy.
      apply (rs_head md _ _ _ _ _ eq_refl (usub_ntn _ _ _)). intros iw _.
      apply (g_scope r1 r2 x y _ _ (render_node d mw item) (render_node d mw item')); [exact Hxy| |].
      { exact Hitem. }
      intros u v a3 b3 Huv H3. apply g_with_top; [|exact H3].
      intros x' y' Hxy'. apply (go_append _ _ _ _ _ _ ops); assumption.
    - (* IOl *)
      rewrite <- (F2_length H).
      eapply rs_bind with (P := fun p q => GSt r1 r2 (fst p) (fst q) /\ snd p = snd q);
        [|intros p q [Hpq _]; apply g_unwind; exact Hpq].
      set (pw := N.max (swidth (d_ol_prefix d z))
                       (swidth (d_ol_prefix d (isat64 (isat64 (z + Z.of_nat (length c1)) - 1))))).
      apply (rs_fold2 md (fun p q => GSt r1 r2 (fst p) (fst q) /\ snd p = snd q) gnode
               (ol_step d mw sz pw) (ol_step d mw sz pw) c1 c2 HK); [|cbn [rs fst snd]; auto].
      intros item item' Hitem [x ix] [y iy] [Hxy Ei]. cbn [fst snd] in Hxy, Ei. subst iy.
      unfold ol_step.
      apply (rs_head md _ _ _ _ _ eq_refl (usub_ntn _ _ _)). intros iw _.
      apply (g_scope r1 r2 x y _ _ (render_node d mw item) (render_node d mw item')); [exact Hxy| |].
      { exact Hitem. }
      intros u v a3 b3 Huv H3.
      eapply rs_bind; [apply g_with_top; [|exact H3]|].
      { intros x' y' Hxy'. apply (go_append _ _ _ _ _ _ ops); assumption. }
      intros a4 b4 H4. cbn [rs fst snd]. auto.
    - (* IDl *)
      eapply rs_bind; [apply g_with_top; [apply (go_start_block _ _ _ _ _ _ ops)|exact H1]|].
      intros a2 b2 H2.
      eapply rs_bind; [apply (g_kids c1 c2); [exact HK|exact H2]|].
      intros; apply g_unwind; assumption.
    - (* IDt *)
      eapply rs_bind; [apply g_with_top; [apply (go_new_line _ _ _ _ _ _ ops)|exact H1]|].
      intros a2 b2 H2.
      apply g_wrap; auto; [apply (go_em_s _ _ _ _ _ _ ops)|apply (go_em_e _ _ _ _ _ _ ops)].
    - (* IDd *)
      apply (rs_head md _ _ _ _ _ eq_refl (usub_ntn _ _ _)). intros iw _.
      apply (g_scope r1 r2 a1 b1 _ _ (rkids d mw c1) (rkids d mw c2)); [exact H1| |].
      { intros; apply g_kids; assumption. }
      intros u v a3 b3 Huv H3.
      eapply rs_bind; [apply g_with_top; [|exact H3]|].
      { intros x y Hxy. apply (go_append _ _ _ _ _ _ ops); assumption. }
      intros; apply g_unwind; assumption.
    - (* IBreak *)
      eapply rs_bind; [apply g_with_top; [apply (go_new_line_hard _ _ _ _ _ _ ops)|exact H1]|].
      intros; apply g_unwind; assumption.
    - (* ITable *)
      pose proof (F2_rows_IH TI SOK gnode _ _ IH H) as HR.
      assert (HRe : Forall2 (rows_P SOK (esteq d mw)) r0 r3).
      { apply (F2_rows_IH TI SOK); [|exact H]. apply Forall_forall. intros n1 _ n2 Hn.
        apply (est_rel d mw TI SOK (go_est _ _ _ _ _ _ ops)), Hn. }
      match goal with |- rs _ _ (bind ?e1 _) (bind ?e2 _) => apply (rs_head md _ e1 e2) end.
      { apply (fold_left_F2 (rows_P SOK (esteq d mw))); [exact HRe|].
        intros acc r r' (_ & _ & HC). apply bind_ext. intros s.
        match goal with |- bind ?a _ = bind ?b _ => assert (E : a = b); [|rewrite E; reflexivity] end.
        apply (fold_left_F2 (cells_P SOK (esteq d mw))); [exact HC|].
        intros a' c c' (Ec & _ & _ & HK'). apply bind_ext. intros [sz_ colno].
        rewrite (est_kids_eq d mw _ _ HK'), Ec. reflexivity. }
      { apply fold_ntn; [discriminate|]. intros r acc Hr. apply bind_ntn; [|discriminate].
        apply fold_ntn; [discriminate|]. intros c [sz_ colno] Hc.
        apply bind_ntn.
        - apply est_kids_ntn. apply Forall_forall. intros n _. apply est_ntn.
        - intros ce. destruct (cell_colspan c =? 0); [discriminate|].
          destruct (upd_range _ _ _ _); discriminate. }
      intros col_sizes _.
      eapply rs_bind; [apply g_top, H1|]. intros x y (Hxy & E1 & E2).
      rewrite <- (go_width _ _ _ _ _ _ ops x y Hxy), <- (go_raw _ _ _ _ _ _ ops x y Hxy),
        <- (go_borders _ _ _ _ _ _ ops x y Hxy).
      set (vr := o_raw (sopts x)
                 || ((swidth_ x <? sumN (map e_min col_sizes) + (N.of_nat (length col_sizes) - 1))
                     || (swidth_ x =? 0))).
      match goal with |- rs _ _ (bind ?e _) (bind ?e _) => apply (rs_head md _ e e _ _ eq_refl) end.
      { destruct (negb vr); [|discriminate].
        destruct (map (col_width_of (swidth_ x) (sumN (map e_size col_sizes))) col_sizes);
          [discriminate|apply shrink_loop_ntn]. }
      intros col_widths _.
      eapply rs_bind; [apply g_with_top; [apply (go_start_block _ _ _ _ _ _ ops)|exact H1]|].
      intros a2 b2 H2.
      eapply rs_bind with (P := GSt r1 r2).
      { match goal with |- rs _ _ (if ?c then _ else _) _ => destruct c end; [|exact H2].
        apply g_with_top; [apply (go_hborder _ _ _ _ _ _ ops)|exact H2]. }
      intros a3 b3 H3.
      eapply rs_bind with (P := GSt r1 r2); [|intros; apply g_unwind; assumption].
      apply (rs_fold2 md (GSt r1 r2) (rows_P SOK gnode) (row_body d mw vr col_widths)
                      (row_body d mw vr col_widths) r0 r3 HR); [|exact H3].
      intros r r' Hr a' b' H'. apply g_row; assumption.
    - (* ITableBody *) cbn [rs]. auto.
    - (* ITableRow *) cbn [rs]. auto.
    - (* ITableCell *) cbn [rs]. auto.
    - (* IFragStart *)
      eapply rs_bind; [apply g_with_top'; [apply (go_frag _ _ _ _ _ _ ops)|exact H1]|].
      intros; apply g_unwind; assumption.
    - (* IListItem *)
      apply (g_wrap start_block (fun s => Ok (end_block s))); auto;
        [apply (go_start_block _ _ _ _ _ _ ops)|].
      intros x y Hxy. cbn [rs]. apply (go_end_block _ _ _ _ _ _ ops), Hxy.
    - (* ISup *)
      rewrite <- (sup_digits_rel c1 c2 H).
      destruct (sup_digits c1) as [digitstr|].
      + eapply rs_bind; [apply g_inline_same, H1|]. intros; apply g_unwind; assumption.
      + apply g_wrap; auto; [apply (go_sup_s _ _ _ _ _ _ ops)|apply (go_sup_e _ _ _ _ _ _ ops)].
  Qed.

  (* the whole renderer *)
  Theorem g_render_tree o1 o2 width t1 t2 :
    (forall x y ls, SR x y -> SR (fmt_links x ls) (fmt_links y ls)) ->
    trel TI SOK t1 t2 -> SR (sub_new width o1) (sub_new width o2) ->
    rsm SR (render_tree d mw o1 width t1) (render_tree d mw o2 width t2).
  Proof.
    intros Hfmt HT H0. unfold render_tree.
    apply (rs_head md _ _ _ _ _ (est_rel d mw TI SOK (go_est _ _ _ _ _ _ ops) _ _ HT)
                   (est_ntn d mw _)).
    intros e _.
    eapply rs_bind.
    { apply (gnode_all _ _ HT [] []). split; [reflexivity|].
      exists (sub_new width o1), (sub_new width o2). cbn [stack]. auto. }
    intros a b (Hl & s1 & s2 & E1 & E2 & Hs). rewrite E1, E2, <- Hl.
    unfold sub_finalise. rewrite <- (go_foot _ _ _ _ _ _ ops _ _ Hs).
    destruct (if o_footnotes (sopts s1) then finalise_from 1 (links a) else []) as [|l ls];
      [exact Hs|].
    eapply rs_bind; [apply (go_start_block _ _ _ _ _ _ ops), Hs|]. intros x y Hxy. cbn [rs].
    apply Hfmt, Hxy.
  Qed.
End GSim.

(* trel is reflexive when TI is and every style is allowed *)
Lemma trel_refl (TI : text -> text -> Prop) (SOK : cstyle -> Prop) :
  (forall t, TI t t) -> (forall s, SOK s) -> forall n, trel TI SOK n n.
Proof.
  intros HT HS. apply rnode_ind'. intros i sty IH.
  assert (K : forall cs, Forall (fun n => trel TI SOK n n) cs -> Forall2 (trel TI SOK) cs cs).
  { induction 1; constructor; auto. }
  assert (KC : forall cells, Forall (fun n => trel TI SOK n n) (flat_map cell_content cells) ->
                             Forall2 (cellrel TI SOK) cells cells).
  { induction cells as [|[n k s] cells IHc]; intros HF; constructor.
    - cbn [flat_map cell_content] in HF. apply Forall_app in HF. constructor; [apply HS|apply K, HF].
    - apply IHc. cbn [flat_map] in HF. apply Forall_app in HF. apply HF. }
  assert (KR : forall rows, Forall (fun n => trel TI SOK n n) (flat_map row_kids rows) ->
                            Forall2 (rowrel TI SOK) rows rows).
  { induction rows as [|[cells s] rows IHr]; intros HF; constructor.
    - cbn [flat_map] in HF. apply Forall_app in HF. constructor; [apply HS|]. apply KC, HF.
    - apply IHr. cbn [flat_map] in HF. apply Forall_app in HF. apply HF. }
  constructor; [apply HS|].
  destruct i; cbn [direct_kids] in IH; constructor; auto.
Qed.

(* ================================================================== *)
(* 4. PART A (C11): allowing width overflow                             *)
(* ================================================================== *)

(* the same wrapped block / sub-renderer with overflow allowed *)
Definition ovb (b : wblock) : wblock :=
  mkwb (wwidth b) (wtext b) (wline b) (spacetag b) (wword b) (wordlen b) (wslen b)
       (pre_wrapped b) (pad_blocks b) true.

Definition with_overflow (o : ropts) : ropts :=
  mkopts (wrap_width o) true (o_pad o) (o_raw o) (o_borders o) (o_wrap_links o)
         (o_footnotes o) (o_strike o).

Definition ovs (s : subr) : subr :=
  mksub (swidth_ s) (with_overflow (sopts s)) (slines s) (pending_frags s) (at_block_end s)
        (option_map ovb (wrapping s)) (ann_stack s) (filter_depth s) (pre_depth s) (ws_stack s).

Ltac oprj :=
  cbn [ovs ovb with_overflow option_map swidth_ sopts slines pending_frags at_block_end wrapping
       ann_stack filter_depth pre_depth ws_stack set_lines set_abe set_wrapping set_ann set_filter
       set_pre_depth set_ws_stack wrap_width o_allow_overflow o_pad o_raw o_borders o_wrap_links
       o_footnotes o_strike wwidth wtext wline spacetag wword wordlen wslen pre_wrapped pad_blocks
       allow_overflow] in *.

Ltac mle := cbn [rs bind]; try exact I; try (intros; discriminate).

(* ---- the wrapped block (from OptionRel) ---- *)
Lemma F2_eq_refl {A} (l : list A) : Forall2 eq l l.
Proof. induction l; constructor; auto. Qed.

Lemma ovb_Rel b :
  Rel (wwidth b) (pad_blocks b) (pad_blocks b) (allow_overflow b) true eq (ovb b) b.
Proof.
  exists (wtext b). split; [reflexivity|]. unfold RR. repeat split. apply F2_eq_refl.
Qed.

Lemma Rel_ovb W pad ovf b2 b : Rel W pad pad ovf true eq b2 b -> b2 = ovb b.
Proof.
  intros (tp & -> & HW & Hp & Ho & HF). apply OptionRel.Forall2_eq in HF. subst tp.
  unfold mk2, ovb. rewrite Hp. reflexivity.
Qed.

Lemma wb_add_text_ov b s m t1 t2 b' :
  wb_add_text b s m t1 t2 = Ok b' -> wb_add_text (ovb b) s m t1 t2 = Ok (ovb b').
Proof.
  intros H.
  pose proof (wb_add_text_sim (wwidth b) (pad_blocks b) (pad_blocks b) (allow_overflow b) true false eq
                (fun _ => eq_refl) (fun l t => simr_same true false _) (ovb b) b s m t1 t2
                (ovb_Rel b)) as S.
  rewrite H in S. cbn [simr] in S. destruct S as [(a & E & HR)|(F & _)]; [|discriminate].
  rewrite E. f_equal. eapply Rel_ovb, HR.
Qed.

Lemma wb_into_lines_ov b ls : wb_into_lines b = Ok ls -> wb_into_lines (ovb b) = Ok ls.
Proof.
  intros H.
  pose proof (wb_into_lines_sim (wwidth b) (pad_blocks b) (pad_blocks b) (allow_overflow b) true false eq
                (fun _ => eq_refl) (fun l t => simr_same true false _) (ovb b) b (ovb_Rel b)) as S.
  rewrite H in S. cbn [simr] in S. destruct S as [(a & E & HR)|(F & _)]; [|discriminate].
  rewrite E. f_equal. apply OptionRel.Forall2_eq, HR.
Qed.

Lemma ttf_ov b :
  take_trailing_fragments (ovb b) =
  (ovb (fst (take_trailing_fragments b)), snd (take_trailing_fragments b)).
Proof. unfold take_trailing_fragments. oprj. destruct (word_is_empty (wword b)); reflexivity. Qed.

Lemma wb_add_element_ov b e : wb_add_element (ovb b) e = ovb (wb_add_element b e).
Proof. destruct e as [s t|n]; cbn [wb_add_element]; [destruct s|]; reflexivity. Qed.

(* ---- the sub-renderer ---- *)
Lemma add_line_ovs s l : add_line (ovs s) l = ovs (add_line s l).
Proof. unfold add_line. oprj. destruct (pending_frags s), l; reflexivity. Qed.

Lemma extend_lines_ovs ls : forall s, extend_lines (ovs s) ls = ovs (extend_lines s ls).
Proof.
  unfold extend_lines. induction ls as [|l ls IH]; intros s; cbn [fold_left]; [reflexivity|].
  rewrite add_line_ovs. apply IH.
Qed.

Section PartA.
  Variables (d : deco) (mw : N) (o1 : ropts).

  (* run 1 has options o1, run 2 has o1 with overflow allowed; nothing else differs *)
  Definition RA (x y : subr) : Prop := sopts x = o1 /\ y = ovs x.

  Notation rsa := (rs MLe).

  Lemma RA_pure g :
    (forall s, g (ovs s) = ovs (g s)) -> (forall s, sopts (g s) = sopts s) -> pureR RA g.
  Proof. intros H1 H2 x y [Ho ->]. split; [rewrite H2; exact Ho|apply H1]. Qed.

  Lemma RA_pure_op g : pureR RA g -> gop MLe RA (fun s => Ok (g s)).
  Proof. intros H x y Hxy. cbn [rs]. apply H, Hxy. Qed.

  Lemma RA_bind f g : gop MLe RA f -> gop MLe RA g -> gop MLe RA (fun s => do x <- f s; g x).
  Proof. intros Hf Hg x y Hxy. eapply rs_bind; [apply Hf, Hxy|]. intros. apply Hg. assumption. Qed.

  Lemma RA_flush : gop MLe RA flush_wrapping.
  Proof.
    intros x y [Ho ->]. unfold flush_wrapping. oprj. destruct (wrapping x) as [w|]; cbn [option_map].
    - rewrite ttf_ov. destruct (take_trailing_fragments w) as [w1 frags]. cbn [fst snd].
      destruct (wb_into_lines w1) as [ls| | |] eqn:E; mle.
      rewrite (wb_into_lines_ov _ _ E). cbn [bind rs].
      change (set_wrapping (ovs x) None) with (ovs (set_wrapping x None)).
      rewrite extend_lines_ovs. oprj. split; [|reflexivity].
      destruct (extend_lines_same (map RText ls) (set_wrapping x None)) as [A B].
      oprj. rewrite B. exact Ho.
    - cbn [rs]. split; [exact Ho|reflexivity].
  Qed.

  Lemma RA_add_line l : pureR RA (fun s => add_line s l).
  Proof.
    apply RA_pure; [intros; apply add_line_ovs|].
    intros s. destruct (add_line_same s l) as (a & b & _). auto.
  Qed.

  Lemma RA_set_abe b : pureR RA (fun s => set_abe s b).
  Proof. apply RA_pure; intros; reflexivity. Qed.

  Lemma RA_add_empty_line : gop MLe RA add_empty_line.
  Proof.
    unfold add_empty_line. apply RA_bind; [apply RA_flush|]. apply RA_pure_op.
    intros x y H. apply (RA_set_abe false), (RA_add_line (RText tl_new)), H.
  Qed.

  Lemma RA_start_block : gop MLe RA start_block.
  Proof.
    intros x y Hxy. unfold start_block.
    eapply rs_bind; [apply RA_flush, Hxy|]. intros x1 y1 H1.
    assert (E : slines y1 = slines x1) by (destruct H1 as [_ ->]; reflexivity). rewrite E.
    eapply rs_bind with (P := RA).
    { destruct (existsb rline_has_content (slines x1)); [apply RA_add_empty_line, H1|exact H1]. }
    intros x2 y2 H2. cbn [rs]. apply (RA_set_abe false), H2.
  Qed.

  Lemma RA_new_line_hard : gop MLe RA new_line_hard.
  Proof.
    intros x y Hxy. unfold new_line_hard. pose proof Hxy as [Ho ->]. oprj.
    destruct (wrapping x) as [w|]; cbn [option_map]; [|apply RA_add_empty_line, Hxy]. oprj.
    destruct ((wordlen w =? 0) && (tlen_ (wline w) =? 0));
      [apply RA_add_empty_line, Hxy|apply RA_flush, Hxy].
  Qed.

  Lemma RA_hline b t : gop MLe RA (fun s => add_horizontal_line s b t).
  Proof.
    unfold add_horizontal_line. apply RA_bind; [apply RA_flush|]. apply RA_pure_op, RA_add_line.
  Qed.

  Lemma RA_hborder w : gop MLe RA (fun s => add_horizontal_border_width s w).
  Proof.
    intros x y Hxy. unfold add_horizontal_border_width.
    eapply rs_bind; [apply RA_flush, Hxy|]. intros x1 y1 H1.
    assert (E : ann_stack y1 = ann_stack x1) by (destruct H1 as [_ ->]; reflexivity). rewrite E.
    cbn [rs]. apply RA_add_line, H1.
  Qed.

  Lemma get_wrapping_ovs x : get_wrapping (ovs x) = ovb (get_wrapping x).
  Proof. unfold get_wrapping. oprj. destruct (wrapping x); reflexivity. Qed.

  Lemma RA_set_wrapping_ov x w : RA x (ovs x) -> RA (set_wrapping x (Some w)) (set_wrapping (ovs x) (Some (ovb w))).
  Proof. intros [Ho _]. split; [exact Ho|reflexivity]. Qed.

  Lemma RA_inline t : gop MLe RA (fun s => add_inline_text d s t).
  Proof.
    intros x y Hxy. unfold add_inline_text, ws_mode. pose proof Hxy as [Ho ->]. oprj.
    destruct (negb (preserve_ws match ws_stack x with m0 :: _ => m0 | [] => WsNormal end)
              && at_block_end x && all_ws t); [exact Hxy|].
    eapply rs_bind with (P := RA).
    { destruct (at_block_end x); [apply RA_start_block, Hxy|exact Hxy]. }
    intros x1 y1 H1. pose proof H1 as [Ho1 ->]. rewrite get_wrapping_ovs. oprj.
    match goal with |- rs _ _ (bind ?e _) _ => destruct e as [w1| | |] eqn:E; mle end.
    rewrite (wb_add_text_ov _ _ _ _ _ _ E). cbn [bind rs]. apply RA_set_wrapping_ov, H1.
  Qed.

  Lemma RA_push_ann a : pureR RA (fun s => push_ann s a).
  Proof. apply RA_pure; intros; reflexivity. Qed.
  Lemma RA_pop_ann : pureR RA pop_ann.
  Proof. apply RA_pure; intros; reflexivity. Qed.

  Lemma RA_start_deco p : gop MLe RA (fun s => start_deco d s p).
  Proof. intros x y Hxy. unfold start_deco. apply RA_inline, RA_push_ann, Hxy. Qed.
  Lemma RA_end_deco e : gop MLe RA (fun s => end_deco d s e).
  Proof. unfold end_deco. apply RA_bind; [apply RA_inline|apply RA_pure_op, RA_pop_ann]. Qed.

  Lemma RA_set_filter n : pureR RA (fun s => set_filter s n).
  Proof. apply RA_pure; intros; reflexivity. Qed.

  Lemma RA_start_strikeout : gop MLe RA (start_strikeout d).
  Proof.
    intros x y Hxy. unfold start_strikeout.
    eapply rs_bind; [apply RA_start_deco, Hxy|]. intros x1 y1 H1. cbn [rs].
    pose proof H1 as [Ho1 ->]. oprj.
    destruct (o_strike (sopts x1)); [apply (RA_set_filter (S (filter_depth x1))), H1|exact H1].
  Qed.

  Lemma RA_end_strikeout : gop MLe RA (end_strikeout d).
  Proof.
    intros x y Hxy. unfold end_strikeout. pose proof Hxy as [Ho ->]. oprj.
    eapply rs_bind with (P := RA); [|intros; apply RA_end_deco; assumption].
    destruct (o_strike (sopts x)); [|exact Hxy].
    destruct (filter_depth x); [mle|]. cbn [rs]. apply RA_set_filter, Hxy.
  Qed.

  Lemma RA_image src t : gop MLe RA (fun s => add_image d s src t).
  Proof.
    intros x y Hxy. unfold add_image.
    eapply rs_bind; [apply RA_inline, RA_push_ann, Hxy|]. intros x1 y1 H1.
    cbn [rs]. apply RA_pop_ann, H1.
  Qed.

  Lemma RA_frag n : pureR RA (fun s => record_frag_start s n).
  Proof.
    intros x y Hxy. unfold record_frag_start. pose proof Hxy as [Ho ->].
    rewrite get_wrapping_ovs, wb_add_element_ov. apply RA_set_wrapping_ov, Hxy.
  Qed.

  Lemma RA_sub_into_lines x y : RA x y -> rsa eq (sub_into_lines x) (sub_into_lines y).
  Proof.
    intros Hxy. unfold sub_into_lines.
    eapply rs_bind; [apply RA_flush, Hxy|]. intros x1 y1 [_ ->]. cbn [rs]. reflexivity.
  Qed.

  Lemma RA_append x y u v f r :
    RA x y -> RA u v -> rsa RA (append_subrender x u f r) (append_subrender y v f r).
  Proof.
    intros Hxy Huv. unfold append_subrender.
    eapply rs_bind; [apply RA_flush, Hxy|]. intros x1 y1 H1.
    eapply rs_bind; [apply RA_sub_into_lines, Huv|]. intros ols ols' <-. cbn [rs].
    destruct H1 as [Ho ->]. oprj. rewrite extend_lines_ovs. split; [|reflexivity].
    destruct (extend_lines_same (attach_prefixes (ann_stack x1) f r ols) x1) as [A B]. congruence.
  Qed.

  Lemma RA_width_minus x y p mn : RA x y -> rsa eq (width_minus x p mn) (width_minus y p mn).
  Proof.
    intros [Ho ->]. unfold width_minus. oprj. cbn [negb]. rewrite andb_false_r.
    destruct (((swidth_ x - p <? mn) || (swidth_ x <? p)) && negb (o_allow_overflow (sopts x))) eqn:E;
      mle. cbn [rs]. reflexivity.
  Qed.

  Lemma RA_new u v w : RA u v -> RA (new_sub_renderer u w) (new_sub_renderer v w).
  Proof. intros [Ho ->]. split; [exact Ho|reflexivity]. Qed.

  Lemma RA_sub_empty u v : RA u v -> sub_empty u = sub_empty v.
  Proof. intros [_ ->]. unfold sub_empty. oprj. destruct (slines u), (wrapping u); reflexivity. Qed.

  (* ---- append_vert_row ---- *)
  Lemma RA_vert_cols : forall us vs x y first,
    RA x y -> Forall2 RA us vs -> rsa RA (vert_cols x us first) (vert_cols y vs first).
  Proof.
    induction us as [|u us IH]; intros vs x y first Hxy Huv; inversion Huv as [|? v ? vs' Huv1 Huv2];
      subst; cbn [vert_cols]; [exact Hxy|].
    eapply rs_bind with (P := RA).
    { pose proof Hxy as [Ho ->]. oprj.
      destruct (negb first && o_borders (sopts x)); [apply RA_hline, Hxy|exact Hxy]. }
    intros x1 y1 H1.
    eapply rs_bind; [apply RA_append; eassumption|]. intros x2 y2 H2. apply IH; assumption.
  Qed.

  Lemma RA_vert x y us vs :
    RA x y -> Forall2 RA us vs -> rsa RA (append_vert_row x us) (append_vert_row y vs).
  Proof.
    intros Hxy Huv. unfold append_vert_row.
    eapply rs_bind; [apply RA_flush, Hxy|]. intros x1 y1 H1.
    eapply rs_bind; [apply RA_vert_cols; eassumption|]. intros x2 y2 H2.
    pose proof H2 as [Ho2 ->]. oprj.
    destruct (o_borders (sopts x2)); [|exact H2].
    unfold add_horizontal_border. oprj. apply RA_hborder, H2.
  Qed.

  (* ---- append_columns_with_borders ---- *)
  Lemma RA_col_line_sets t : forall us vs,
    Forall2 RA us vs -> rsa eq (col_line_sets t us) (col_line_sets t vs).
  Proof.
    induction us as [|u us IH]; intros vs Huv; inversion Huv as [|? v ? vs' Huv1 Huv2]; subst;
      cbn [col_line_sets]; [reflexivity|].
    eapply rs_bind; [apply RA_sub_into_lines, Huv1|]. intros ls ls' <-.
    assert (Ew : swidth_ v = swidth_ u) by (destruct Huv1 as [_ ->]; reflexivity). rewrite Ew.
    destruct (pad_cell_lines (swidth_ u) t ls) as [pls| | |]; mle.
    eapply rs_bind; [apply IH, Huv2|]. intros r r' <-. cbn [rs]. reflexivity.
  Qed.

  Lemma row_lines_ovs t draw sets pads : forall n i s,
    row_lines t draw n i sets pads (ovs s) = ovs (row_lines t draw n i sets pads s).
  Proof.
    induction n as [|n IH]; intros i s; cbn [row_lines]; [reflexivity|].
    rewrite add_line_ovs. apply IH.
  Qed.

  Lemma RA_cols x y us vs collapse :
    RA x y -> Forall2 RA us vs ->
    rsa RA (append_columns_with_borders x us collapse) (append_columns_with_borders y vs collapse).
  Proof.
    intros Hxy Huv. unfold append_columns_with_borders.
    eapply rs_bind; [apply RA_flush, Hxy|]. intros x1 y1 H1.
    pose proof H1 as [Ho1 ->]. oprj.
    eapply rs_bind; [apply (RA_col_line_sets (ann_stack x1)), Huv|]. intros sets sets' <-.
    destruct (match sets with [] => Panic 36 | _ :: _ => Ok tt end) as [[]| | |]; mle.
    match goal with
    | |- rs _ _ (let '(p1, n1) := ?e in _) _ => destruct e as [prev1 next1]
    end.
    match goal with
    | |- rs _ _ (bind ?e _) (bind ?e _) =>
      destruct e as [[[[prev3 next3] sets4] pads]| | |]; mle
    end.
    set (lines1 := match olast (slines x1) with
                   | Some (RLine _ pt) =>
                     match prev3 with
                     | Some pb => replace_last (slines x1) (RLine pb pt)
                     | None => slines x1
                     end
                   | _ => slines x1
                   end).
    change (set_lines (ovs x1) lines1 (pending_frags x1))
      with (ovs (set_lines x1 lines1 (pending_frags x1))).
    rewrite row_lines_ovs. oprj.
    set (s3 := row_lines _ _ _ _ _ _ _).
    assert (Hg3 : sopts s3 = o1).
    { subst s3.
      match goal with
      | |- sopts (row_lines ?t ?dr ?n ?i ?sets ?pads ?s) = _ =>
        destruct (row_lines_same t dr sets pads n i s) as [A B]
      end. rewrite B. exact Ho1. }
    destruct (o_borders (sopts x1)).
    - rewrite add_line_ovs. split; [|reflexivity].
      destruct (add_line_same s3 (RLine next3 (ann_stack x1))) as (a & b & _). congruence.
    - split; [exact Hg3|reflexivity].
  Qed.

  Lemma RA_ops : GOps MLe d mw RA eq (fun _ => True).
  Proof.
    constructor.
    - intros r g b. apply RA_pure; intros; unfold push_colour; destruct (d_colours d); reflexivity.
    - intros r g b. apply RA_pure; intros; unfold push_bgcolour; destruct (d_colours d); reflexivity.
    - intros cs mo _ _. apply RA_pure; intros; reflexivity.
    - apply RA_pure; intros; reflexivity.
    - apply RA_pure; intros; unfold pop_colour; destruct (d_colours d); reflexivity.
    - apply RA_pure; intros; reflexivity.
    - intros x y Hxy. unfold pop_preformat. pose proof Hxy as [Ho ->]. oprj.
      destruct (0 <? pre_depth x); mle. cbn [rs]. split; [exact Ho|reflexivity].
    - intros t1 t2 <-. apply RA_inline.
    - apply RA_inline.
    - intros t1 t2 <-. reflexivity.
    - intros t1 t2 <- _. reflexivity.
    - intros h. apply RA_start_deco.
    - apply (RA_end_deco (d_link_end d)).
    - intros x y [_ ->]. reflexivity.
    - apply (RA_start_deco (d_em_start d)).
    - apply (RA_end_deco (d_em_end d)).
    - apply (RA_start_deco (d_strong_start d)).
    - apply (RA_end_deco (d_strong_end d)).
    - apply RA_start_strikeout.
    - apply RA_end_strikeout.
    - apply (RA_start_deco (d_code_start d)).
    - apply (RA_end_deco (d_code_end d)).
    - apply (RA_start_deco (d_sup_start d)).
    - apply (RA_end_deco (d_sup_end d)).
    - apply RA_image.
    - apply RA_start_block.
    - apply (RA_set_abe true).
    - apply RA_flush.
    - apply RA_new_line_hard.
    - apply RA_frag.
    - intros; apply RA_width_minus; assumption.
    - intros; apply RA_new; assumption.
    - intros; apply RA_append; assumption.
    - intros x y [_ ->]. reflexivity.
    - intros x y [_ ->]. reflexivity.
    - intros x y [_ ->]. reflexivity.
    - apply RA_hborder.
    - intros; apply RA_vert; assumption.
    - intros; apply RA_cols; assumption.
    - apply RA_sub_empty.
  Qed.
End PartA.

(* ---- the footnote list ---- *)
Lemma fl_chars_ovs t : forall cs s buf wl pos,
  fl_chars (ovs s) t cs buf wl pos =
  (let '(s', b, w, p) := fl_chars s t cs buf wl pos in (ovs s', b, w, p)).
Proof.
  induction cs as [|c cs IH]; intros s buf wl pos; cbn [fl_chars]; [reflexivity|]. oprj.
  destruct (swidth_ s <? pos + cw0 c); [rewrite add_line_ovs|]; apply IH.
Qed.

Lemma fl_strings_ovs : forall sl s wl pos,
  fl_strings (ovs s) sl wl pos = (let '(s', w) := fl_strings s sl wl pos in (ovs s', w)).
Proof.
  induction sl as [|[str tg] sl IH]; intros s wl pos; cbn [fl_strings]; [reflexivity|]. oprj.
  destruct (o_wrap_links (sopts s) && (swidth_ s <? pos + swidth (nl_to_space str))); [|apply IH].
  rewrite fl_chars_ovs.
  destruct (fl_chars s [ADefault] (nl_to_space str) [] wl pos) as [[[s1 buf] wl1] pos1]. apply IH.
Qed.

Lemma fmt_links_ovs : forall links s, fmt_links (ovs s) links = ovs (fmt_links s links).
Proof.
  induction links as [|l links IH]; intros s; cbn [fmt_links]; [reflexivity|].
  rewrite fl_strings_ovs. destruct (fl_strings s (tl_tagged_strings l) tl_new 0) as [s1 wl].
  rewrite add_line_ovs. apply IH.
Qed.

Lemma fmt_links_sopts links s : sopts (fmt_links s links) = sopts s.
Proof. destruct (fmt_links_reopt (sopts s) links s eq_refl) as (_ & _ & E). exact E. Qed.

(* MAIN THEOREM A1 (C11, third clause), whole renderer.  o2 = o1 with allow_width_overflow.
   If the rendering with o1 succeeds, so does the rendering with o2, and the resulting
   sub-renderers are equal except for the stored options and the overflow flag of the pending
   wrapped block (`ovs`); every successful flush of the first is the flush of the second. *)
Theorem c11_overflow_noop_render d mw o1 width tree s1 :
  render_tree d mw o1 width tree = Ok s1 ->
  render_tree d mw (with_overflow o1) width tree = Ok (ovs s1) /\
  (forall ls, sub_into_lines s1 = Ok ls -> sub_into_lines (ovs s1) = Ok ls).
Proof.
  intros H.
  pose proof (g_render_tree MLe d mw (RA o1) eq (fun _ => True) (RA_ops d mw o1)
                o1 (with_overflow o1) width tree tree) as S.
  assert (S' : rs MLe (RA o1) (render_tree d mw o1 width tree)
                             (render_tree d mw (with_overflow o1) width tree)).
  { apply S.
    - intros x y ls [Ho ->]. split; [rewrite fmt_links_sopts; exact Ho|apply fmt_links_ovs].
    - apply trel_refl; auto.
    - split; reflexivity. }
  destruct (rs_ok_l _ _ _ _ _ S' H) as (s2 & E2 & Ho & ->). split; [exact E2|].
  intros ls Hls. pose proof (RA_sub_into_lines o1 s1 (ovs s1) (conj Ho eq_refl)) as R.
  rewrite Hls in R. cbn [rs] in R. destruct (sub_into_lines (ovs s1)); try contradiction. congruence.
Qed.
Print Assumptions c11_overflow_noop_render.

(* through the public routes: if the route without allow_width_overflow returns Ok, the route
   with it returns the same value.  (No hypothesis `c_overflow c = false` is needed: when the
   flag is already set, set_overflow changes nothing.) *)
Section RoutesA.
  Variable inl : list (text * text) -> res (list styledecl).
  Variable dr : list node -> res (list ruleset).

  Lemma c11_render_with_context c tree w s :
    render_with_context c tree w = Ok s ->
    render_with_context (set_overflow c) tree w = Ok (ovs s) /\
    (forall ls, sub_into_lines s = Ok ls -> sub_into_lines (ovs s) = Ok ls).
  Proof.
    unfold render_with_context. destruct (w =? 0); [discriminate|]. intros H.
    apply (c11_overflow_noop_render _ _ (render_options c)), H.
  Qed.

  Theorem c11_lines_from_read c doc w r :
    lines_from_read inl dr c doc w = Ok r -> lines_from_read inl dr (set_overflow c) doc w = Ok r.
  Proof.
    unfold lines_from_read. intros H.
    change (to_render_tree inl dr (set_overflow c) doc) with (to_render_tree inl dr c doc).
    bind_inv H tree Ht. rewrite Ht. cbn [bind]. bind_inv H s Hs. bind_inv H ls Hls.
    destruct (c11_render_with_context c tree w s Hs) as [E K]. rewrite E. cbn [bind].
    rewrite (K ls Hls). exact H.
  Qed.

  Theorem c11_string_from_read c doc w r :
    string_from_read inl dr c doc w = Ok r -> string_from_read inl dr (set_overflow c) doc w = Ok r.
  Proof.
    unfold string_from_read. intros H.
    change (to_render_tree inl dr (set_overflow c) doc) with (to_render_tree inl dr c doc).
    bind_inv H tree Ht. rewrite Ht. cbn [bind]. bind_inv H s Hs.
    destruct (c11_render_with_context c tree w s Hs) as [E K]. rewrite E. cbn [bind].
    unfold sub_into_string in *. bind_inv H ls Hls. rewrite (K ls Hls). exact H.
  Qed.
End RoutesA.
Print Assumptions c11_lines_from_read.
Print Assumptions c11_string_from_read.

(* ---- non-vacuity of Part A ---- *)
(* the tree of RenderWidth (paragraph, table, ul, ol) at width 12 renders without overflow
   (14 lines): the theorem applies and gives the same 14 lines with overflow allowed *)
Example exa_applies :
  exists s1 ls,
    render_tree plain_deco 3 exb_opts 12 ex_tree = Ok s1 /\
    render_tree plain_deco 3 (with_overflow exb_opts) 12 ex_tree = Ok (ovs s1) /\
    out_of (Ok s1) = Ok ls /\ length ls = 14%nat /\ out_of (Ok (ovs s1)) = Ok ls.
Proof.
  destruct (render_tree plain_deco 3 exb_opts 12 ex_tree) as [s1| | |] eqn:E;
    try (vm_compute in E; discriminate).
  destruct (c11_overflow_noop_render _ _ _ _ _ _ E) as [E2 K].
  assert (E' : out_of (render_tree plain_deco 3 exb_opts 12 ex_tree) = out_of (Ok s1)) by (rewrite E; reflexivity).
  vm_compute in E'. unfold out_of. cbn [bind].
  destruct (sub_into_lines s1) as [ls0| | |] eqn:El; cbn [out_of bind] in E'; try discriminate.
  eexists s1, _. split; [reflexivity|]. split; [exact E2|]. split; [reflexivity|].
  rewrite (K ls0 eq_refl). cbn [bind]. injection E' as E'. rewrite <- E'. split; reflexivity.
Qed.

(* the statement is one-directional for a reason: <blockquote>ab c d</blockquote> at width 2 is
   TooNarrow without the flag and Ok with it *)
Example exa_converse_fails :
  render_tree plain_deco 3 exb_opts 2 cexb_tree = TooNarrow /\
  out_of (render_tree plain_deco 3 (with_overflow exb_opts) 2 cexb_tree)
    = Ok [[62;32;97;98]; [62;32;99;32;100]].
Proof. split; vm_compute; reflexivity. Qed.

(* why the theorem speaks about successful flushes only: render_tree leaves the last word
   pending; a width-2 character at width 1 renders Ok without the flag, but its flush
   (sub_into_lines, done by the routes) is TooNarrow -- with the flag it is Ok.  So
   `sub_into_lines s2 = sub_into_lines s1` does NOT hold for all successful renderings. *)
Definition exa_wide : rnode := ex_n (IText [mk 19990 2]).
Example exa_pending_flush :
  (exists s1, render_tree plain_deco 3 exb_opts 1 exa_wide = Ok s1 /\ sub_into_lines s1 = TooNarrow) /\
  out_of (render_tree plain_deco 3 (with_overflow exb_opts) 1 exa_wide) = Ok [[19990]].
Proof.
  split; [|vm_compute; reflexivity].
  destruct (render_tree plain_deco 3 exb_opts 1 exa_wide) as [s1| | |] eqn:E;
    try (vm_compute in E; discriminate).
  exists s1. split; [reflexivity|].
  assert (E' : out_of (render_tree plain_deco 3 exb_opts 1 exa_wide) = out_of (Ok s1)) by (rewrite E; reflexivity).
  vm_compute in E'. unfold out_of in E'. cbn [bind] in E'.
  destruct (sub_into_lines s1); cbn [bind] in E'; try discriminate. reflexivity.
Qed.

(* the statement is one-directional for a reason: <blockquote>ab c d</blockquote> at width 2 is
   TooNarrow without the flag and Ok with it *)
Example exa_converse_fails :
  render_tree plain_deco 3 exb_opts 2 cexb_tree = TooNarrow /\
  out_of (render_tree plain_deco 3 (with_overflow exb_opts) 2 cexb_tree)
    = Ok [[62;32;97;98]; [62;32;99;32;100]].
Proof. split; vm_compute; reflexivity. Qed.

(* why the theorem speaks about successful flushes only: render_tree leaves the last word
   pending; a width-2 character at width 1 renders Ok without the flag, but its flush
   (sub_into_lines, done by the routes) is TooNarrow -- with the flag it is Ok.  So
   `sub_into_lines s2 = sub_into_lines s1` does NOT hold for all successful renderings;
   through the routes (which flush) the statement is the plain one. *)
Definition exa_wide : rnode := ex_n (IText [mk 19990 2]).
Definition exa_s1w : subr :=
  match render_tree plain_deco 3 exb_opts 1 exa_wide with Ok s => s | _ => sub_new 0 exb_opts end.
Example exa_pending_flush :
  render_tree plain_deco 3 exb_opts 1 exa_wide = Ok exa_s1w /\ sub_into_lines exa_s1w = TooNarrow /\
  out_of (render_tree plain_deco 3 (with_overflow exb_opts) 1 exa_wide) = Ok [[19990]].
Proof. split; [|split]; vm_compute; reflexivity. Qed.
