(* Proofs/Small.v -- small model-level facts used by several property files. *)
From H2T Require Import Base Tagged Wrap Sub Css Dom Render.
From Coq Require Import Lia ZifyN ZifyBool ZifyNat.
Local Arguments N.add : simpl never.
Local Arguments N.sub : simpl never.
Local Arguments N.leb : simpl never.
Local Arguments N.ltb : simpl never.
Local Arguments N.eqb : simpl never.
Local Arguments N.max : simpl never.
Local Arguments N.min : simpl never.

(* ---------- C06: the shrink loop only exits when the columns fit ---------- *)
Lemma shrink_loop_fits : forall fuel width mins ws ws',
  shrink_loop fuel width mins ws = Ok ws' ->
  sumN ws' + N.of_nat (length ws') - 1 <= width.
Proof.
  induction fuel as [|f IH]; intros width mins ws ws' H; cbn [shrink_loop] in H.
  - destruct (N.leb_spec (sumN ws + N.of_nat (length ws) - 1) width) as [Hle|Hgt];
      [inversion H; subst; exact Hle|discriminate].
  - destruct (N.leb_spec (sumN ws + N.of_nat (length ws) - 1) width) as [Hle|Hgt];
      [inversion H; subst; exact Hle|].
    destruct (argmax_col ws mins 0 None) as [i|]; [|discriminate].
    destruct (nth_opt ws (N.to_nat i)) as [[|p]|]; try discriminate.
    apply IH in H. exact H.
Qed.

(* ---------- C13: in normal mode only the whitespace-ness of a whitespace char matters ---------- *)
Lemma add_char_normal_ws_indep : forall t1 t2 st c c',
  ws c = true -> ws c' = true ->
  add_char WsNormal t1 t2 st c = add_char WsNormal t1 t2 st c'.
Proof.
  intros t1 t2 [b u] c c' H H'. unfold add_char. rewrite H, H'. cbn [andb preserve_ws].
  reflexivity.
Qed.

(* a second whitespace character in a row changes nothing (runs collapse) *)
Lemma add_char_normal_ws_idem : forall t1 t2 b u c c' st1,
  ws c = true -> ws c' = true ->
  add_char WsNormal t1 t2 (b, u) c = Ok st1 ->
  add_char WsNormal t1 t2 st1 c' = Ok st1.
Proof.
  intros t1 t2 b u c c' st1 Hc Hc' H. unfold add_char in H. rewrite Hc in H. cbn [andb preserve_ws] in H.
  destruct (0 <? wordlen b) eqn:Hw; cbn [bind] in H.
  - (* a word was pending: flushed *)
    destruct (flush_word b WsNormal) as [b1| | |] eqn:Hf; cbn [bind] in H; try discriminate.
    assert (Hwl : wordlen b1 = 0).
    { unfold flush_word in Hf.
      destruct (word_is_empty (wword b)); [inversion Hf; reflexivity|].
      repeat match type of Hf with
             | context [bind ?e _] => destruct e; cbn [bind] in Hf; try discriminate
             | context [if ?c then _ else _] => destruct c
             end; inversion Hf; reflexivity. }
    destruct ((0 <? tlen_ (wline b1)) && (wslen b1 =? 0)) eqn:Hcond; inversion H; subst st1; clear H.
    + unfold add_char. rewrite Hc'. cbn [andb preserve_ws set_space wordlen].
      rewrite Hwl. cbn [N.ltb]. replace (0 <? 0) with false by reflexivity. cbn [bind andb].
      cbn [set_space wline wslen]. replace (1 =? 0) with false by reflexivity.
      rewrite andb_false_r. reflexivity.
    + unfold add_char. rewrite Hc'. cbn [andb preserve_ws]. rewrite Hwl.
      replace (0 <? 0) with false by reflexivity. cbn [bind andb]. rewrite Hcond. reflexivity.
  - destruct ((0 <? tlen_ (wline b)) && (wslen b =? 0)) eqn:Hcond; inversion H; subst st1; clear H.
    + unfold add_char. rewrite Hc'. cbn [andb preserve_ws set_space wordlen]. rewrite Hw. cbn [bind andb].
      cbn [set_space wline wslen]. replace (1 =? 0) with false by reflexivity.
      rewrite andb_false_r. reflexivity.
    + unfold add_char. rewrite Hc'. cbn [andb preserve_ws]. rewrite Hw. cbn [bind andb].
      rewrite Hcond. reflexivity.
Qed.

(* ---------- C15: a maximum wrap width >= the width changes nothing ---------- *)
Lemma get_wrapping_maxwrap_noop : forall s m o,
  wrapping s = None -> sopts s = o -> 1 <= swidth_ s -> swidth_ s <= m ->
  wrap_width o = Some m ->
  wwidth (get_wrapping s) = swidth_ s.
Proof.
  intros s m o Hw Ho H1 Hm Hww. unfold get_wrapping. rewrite Hw, Ho, Hww. cbn [wb_new wwidth]. lia.
Qed.

(* ---------- C14: fragment markers have no width and no text ---------- *)
Lemma frag_no_width : forall l n, tl_width_raw (tl_push l (Frag n)) = tl_width_raw l /\
                                  tl_string (tl_push l (Frag n)) = tl_string l /\
                                  tlen_ (tl_push l (Frag n)) = tlen_ l.
Proof.
  intros l n. unfold tl_push, tl_width_raw, tl_string. cbn [tv tlen_].
  rewrite map_app, flat_map_app. cbn. rewrite app_nil_r.
  split; [|split; reflexivity].
  induction (map (fun e => swidth (elem_text e)) (tv l)) as [|x xs IH]; cbn [app sumN]; [reflexivity|].
  rewrite IH. reflexivity.
Qed.

(* ---------- C09: pushing and popping an annotation are inverse ---------- *)
Lemma pop_push_ann : forall s a, ann_stack (pop_ann (push_ann s a)) = ann_stack s.
Proof. intros s a. unfold pop_ann, push_ann, set_ann. cbn [ann_stack]. apply removelast_last. Qed.

(* ---------- C08: the footnote list is "[k]: url" for k = 1.. in order ---------- *)
Lemma finalise_from_length : forall urls k, length (finalise_from k urls) = length urls.
Proof. induction urls as [|u urls IH]; intros k; cbn [finalise_from length]; [reflexivity|]. rewrite IH. reflexivity. Qed.

Lemma cps_app : forall a b, cps (a ++ b) = cps a ++ cps b.
Proof. intros a b. unfold cps. apply map_app. Qed.
Lemma cps_relabel : forall lb t, cps (relabel lb t) = cps t.
Proof. intros lb t. unfold cps, relabel. rewrite map_map. reflexivity. Qed.
Lemma cps_of_asciil : forall lb l, cps (of_asciil lb l) = l.
Proof. intros lb l. unfold cps, of_asciil. rewrite map_map. cbn [cp mkl]. apply map_id. Qed.
Lemma tl_string_from_string : forall s t, tl_string (tl_from_string s t) = s.
Proof. intros s t. unfold tl_string, tl_from_string. cbn. apply app_nil_r. Qed.

Lemma finalise_from_nth : forall urls k i u,
  nth_error urls i = Some u ->
  option_map (fun l => cps (tl_string l)) (nth_error (finalise_from k urls) i) =
  Some ([91] ++ dec_N (k + N.of_nat i) ++ [93; 58; 32] ++ cps u).
Proof.
  induction urls as [|u0 urls IH]; intros k i u H; [destruct i; discriminate|].
  destruct i as [|i]; cbn [nth_error finalise_from] in *.
  - inversion H; subst u0. cbn [option_map]. f_equal.
    rewrite tl_string_from_string, cps_app, cps_relabel. unfold ftext. rewrite cps_of_asciil.
    replace (k + N.of_nat 0) with k by lia. rewrite <- !app_assoc. reflexivity.
  - rewrite (IH (k + 1) i u H). replace (k + 1 + N.of_nat i) with (k + N.of_nat (S i)) by lia. reflexivity.
Qed.

(* ---------- C16: padding a marker to the common display width ---------- *)
Lemma swidth_app : forall a b, swidth (a ++ b) = swidth a + swidth b.
Proof. induction a as [|c a IH]; intros b; cbn [app swidth]; [lia|]. rewrite IH. lia. Qed.
Lemma swidth_repeat_space : forall lb n, swidth (repeat_chr (spacel lb) n) = N.of_nat n.
Proof. induction n as [|n IH]; cbn [repeat_chr swidth]; [reflexivity|]. rewrite IH. unfold cw0, spacel. cbn. lia. Qed.
Lemma pad_width_width : forall s w, swidth (pad_width s w) = N.max (swidth s) w.
Proof. intros s w. unfold pad_width. rewrite swidth_app, swidth_repeat_space. lia. Qed.

(* ---------- C05: a junction glyph records exactly the joins made at its position ---------- *)
Definition seg_of (above below : bool) : seg :=
  match above, below with
  | false, false => Straight | true, false => JoinAbove | false, true => JoinBelow | true, true => JoinCross
  end.
Lemma seg_join_above_of : forall a b, seg_join_above (seg_of a b) = seg_of true b.
Proof. intros [|] [|]; reflexivity. Qed.
Lemma seg_join_below_of : forall a b, seg_join_below (seg_of a b) = seg_of a true.
Proof. intros [|] [|]; reflexivity. Qed.
Lemma seg_char_of : forall a b,
  cp (seg_char (seg_of a b)) =
  match a, b with false, false => 9472 | true, false => 9524 | false, true => 9516 | true, true => 9532 end.
Proof. intros [|] [|]; reflexivity. Qed.

(* ---------- C12: in preformatted mode a newline always ends the line ---------- *)
Lemma pre_newline_ends_line : forall t1 t2 b u c st',
  cp c = 10 -> ws c = true -> wordlen b = 0 -> pad_blocks b = false ->
  add_char WsPre t1 t2 (b, u) c = Ok st' ->
  wtext (fst st') = wtext b ++ [wline b] /\ wline (fst st') = tl_new /\ snd st' = false.
Proof.
  intros t1 t2 b u c st' Hcp Hws Hwl Hpad H. unfold add_char in H. rewrite Hws, Hwl in H.
  replace (0 <? 0) with false in H by reflexivity. cbn [andb bind preserve_ws] in H.
  rewrite Hcp in H. replace (10 =? 10) with true in H by reflexivity.
  unfold force_flush_line in H. rewrite Hpad in H. cbn [bind] in H. inversion H; subst st'. cbn.
  repeat split; reflexivity.
Qed.

(* ---------- C07: a prefix is put in front of every line of the nested block ---------- *)
Lemma tl_string_insert_front : forall l s t, tl_string (tl_insert_front l s t) = s ++ tl_string l.
Proof.
  intros [v n] s t. unfold tl_insert_front, tl_string. cbn [tv].
  destruct v as [|e v']; cbn [tv flat_map elem_text app]; [reflexivity|].
  destruct e as [s1 tg1|nm]; [|cbn [tv flat_map elem_text]; reflexivity].
  destruct (tag_eqb tg1 t); cbn [tv flat_map elem_text]; rewrite ?app_assoc; reflexivity.
Qed.
Lemma attach_prefix_text : forall t p l, p <> [] \/ True ->
  rline_string (attach_prefix t p (RText l)) = p ++ tl_string l.
Proof.
  intros t p l _. unfold attach_prefix. destruct p as [|c p']; [reflexivity|].
  cbn [rline_string]. apply tl_string_insert_front.
Qed.

(* ---------- C18: an element whose computed display is none yields nothing at all ---------- *)
Lemma hidden_is_nothing : forall sd (udc : bool) (ist : list (text * text) -> res (list styledecl)) html name attrs kids p idx sty,
  (if udc then ist attrs else Ok []) = Ok sty ->
  ws_val (c_display (cs_core (computed_style sd (mkanc name attrs idx :: p) sty))) = Some true ->
  process sd udc ist (NElem html name attrs kids) p idx = Ok None.
Proof.
  intros sd udc ist html name attrs kids p idx sty Hs Hd.
  cbn [process]. rewrite Hs. cbn [bind]. rewrite Hd. reflexivity.
Qed.

(* companion: a display value other than none (Some false), or no display at all (None), does NOT
   hide: e.g. a <br> is still produced *)
Lemma not_hidden_br : forall sd (udc : bool) (ist : list (text * text) -> res (list styledecl)) name attrs kids p idx sty,
  cps name = [98;114] ->
  (if udc then ist attrs else Ok []) = Ok sty ->
  ws_val (c_display (cs_core (computed_style sd (mkanc name attrs idx :: p) sty))) <> Some true ->
  exists nd, process sd udc ist (NElem true name attrs kids) p idx = Ok (Some nd).
Proof.
  intros sd udc ist name attrs kids p idx sty Hn Hs Hd.
  assert (H1 : names [[105;109;103]] name = false)
    by (unfold names, is_ascii_str; rewrite Hn; reflexivity).
  assert (H2 : names [[98;114]] name = true)
    by (unfold names, is_ascii_str; rewrite Hn; reflexivity).
  cbn [process]. rewrite Hs. cbn [bind].
  destruct (ws_val (c_display (cs_core (computed_style sd (mkanc name attrs idx :: p) sty)))) as [[|]|] eqn:E;
    [contradiction| |].
  all: rewrite H1, H2; cbn [negb bind andb];
       destruct (fragment_of _ _ _); eexists; reflexivity.
Qed.
