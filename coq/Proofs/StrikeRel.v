(* Proofs/StrikeRel.v -- property C15, clause "unicode strikeout only adds combining strike marks
   after characters without altering layout".  No axioms (every main theorem is followed by
   Print Assumptions: Closed under the global context).

   THE TWO RUNS.  In the model (Sub.start_strikeout / end_strikeout / add_inline_text) the
   decorator's strikeout affixes (d_strike_start / d_strike_end) and annotation are used whether
   the option o_strike is on or off; the option only pushes / pops the text filter
   Sub.filter_strikeout, which inserts Sub.strike_chr (U+0336, width Some 0, not whitespace)
   after every character that is not whitespace and has a positive width (nested <s>: once per
   level; the filter depth is inherited by nested sub-renderers).  So the comparable pair is
     run 1: options o1 (o_strike anything, typically true)   run 2: o2 = o1 with o_strike = false
   with the SAME decorator, width and tree.  No condition on the decorator is needed.

   RELATIONS.  ins t1 t2: t1 is t2 with k >= 0 copies of strike_chr inserted directly after some
   characters, k > 0 only after a non-whitespace character of positive width.  ER / VR / LR /
   RLR / WR / SR lift it to tagged pieces (same tag, same Frag markers), element vectors, tagged
   lines (same cached length), rendered lines (border lines equal), wrapped blocks (all
   counters equal: wordlen, wslen, width, spacetag, pre_wrapped, pad, allow_overflow) and
   sub-renderers (same width, options up to o_strike, annotation stack, pre depth, white-space
   stack, at_block_end; run 2 has filter depth 0).  Outcome relation rr: the same outcome
   kind (Ok / TooNarrow / the same Panic site), nothing claimed if run 2 is OutOfFuel.

   MAIN THEOREMS (sections 6, 7)
     c15_strike_render :
       same_but_strike o1 o2 -> o_strike o2 = false ->
       render_tree d mw o2 width tree <> OutOfFuel ->
       res_rel SR (render_tree d mw o1 width tree) (render_tree d mw o2 width tree)
     c15_strike_lines : the same for lines_of (= render_tree then sub_into_lines) with Forall2 RLR;
     c15_strike_deleted (and _wf) : ... -> mark strike_chr = true ->
       res_rel (lines_rel mark) (lines_of d mw o1 width tree) (lines_of d mw o2 width tree)
       lines_rel mark ls1 ls2 =  the same number of lines, map rline_width equal, every line
       string of run 1 `ins` the line string of run 2, map (del_rline mark) ls1 =
       map (del_rline mark) ls2 (marks deleted from every string piece, tags and lengths
       untouched), and  forallb (nomark_rline mark) ls2 = true -> map (del_rline mark) ls1 = ls2.
       `mark` is ANY set of characters containing strike_chr, e.g. is_strike_mark (cp = 822).
     c15_strike_lines_from_read, c15_strike_string_from_read, c15_strike_routes_wf : the same
       through Api.v for ANY configuration c against set_strike c false: tagged lines
       related by tlines_rel (Forall2 LR, widths, deletion), strings by string_rel (ins, width,
       deletion).  Tables, lists, quotes, <pre>, footnote lists included; all inputs.
   HYPOTHESES
     o_allow_overflow: NO hypothesis any more (width overflow allowed or not, the same in both
       runs).  Before change (A) of the model (Wrap.hw_scan) `o_allow_overflow o1 = false` was
       needed: the overflow branch of flush_word_hard_wrap took exactly one character, which
       separated it from its mark; the mark, of width 0, then started a line of its own
       (`<s>W</s>`, W of width 2, width 1: "W" / U+0336 against "W").  Now the branch takes
       `c :: take_zw s'` (the character and the zero-width characters after it): in run 1 c,
       its marks, then zero-width characters of the document; in run 2 the same without the
       marks (take_zw_marks, take_zw_ins: a zero-width character carries no marks, mk_ok; both
       runs stop before the first character whose width is not Some 0), so the pieces taken and
       the remainders are again `ins`-related (hw_scan_ins, now for any ovf).  Every other cut
       keeps a character and its marks together as before (a mark always fits, 0 <= lineleft,
       and a cut happens only before a character of positive width).  Examples
       overflow_strike_line_repaired, ovf_applies (section 8).
     run 2 <> OutOfFuel: an artefact of the model's loop fuel (hw_piece gets 2 * #characters
       + 2 steps, so run 1 has more fuel than run 2); discharged for well-formed trees by
       RenderTotal (c15_strike_deleted_wf, c15_strike_routes_wf: width < usize_max, tree_wf).
     "deleting the marks of run 1 gives run 2" needs: run 2's output contains no mark
       (nomark; a decidable condition on run 2's output).  NOT PROVED: a sufficient condition
       on the input (no U+0336 in the tree's texts, link targets and decorator strings implies
       none in run 2's output).  Without it the two-sided equation (marks deleted from BOTH
       outputs) holds for all inputs; a document that itself contains U+0336 keeps it in both.
   NOTES
     * Compose.SimOps cannot be instantiated: end_strikeout is Panic 11 at filter depth 0 in run
       1 only, so the induction over the tree is repeated here (section 4) and uses
       AnnBalance.render_kids_balanced in the <s> case.
     * size estimates (est_node) do not depend on the options: the same in both runs; the
       whitespace tests of add_inline_text are made on the unfiltered text.
     * emptiness tests (word_is_empty, tl_is_empty, tl_push_str's skip of "") look at the
       presence of pieces, not at widths; ins t1 t2 implies t1 = [] <-> t2 = [].
   Examples: exs_applies (tree: hard wrap, nested <s>, table, list, quote), exs_routes_applies,
   exs_render_applies, ovf_applies (width overflow on). *)
From H2T Require Import Base Tagged Wrap Sub Css Dom Render Api.
From H2T Require Import Proofs.WrapInv Proofs.Small Proofs.RenderWidth Proofs.Compose.
From H2T Require Proofs.AnnBalance Proofs.RenderTotal.
From Coq Require Import Lia ZifyN ZifyBool ZifyNat.

Local Arguments N.add : simpl never.
Local Arguments N.sub : simpl never.
Local Arguments N.mul : simpl never.
Local Arguments N.div : simpl never.
Local Arguments N.modulo : simpl never.
Local Arguments N.leb : simpl never.
Local Arguments N.ltb : simpl never.
Local Arguments N.eqb : simpl never.
Local Arguments N.min : simpl never.
Local Arguments N.max : simpl never.
Local Arguments N.to_nat : simpl never.
Local Arguments N.of_nat : simpl never.
Local Open Scope N_scope.

(* ================================================================== *)
(* 0. Outcome relation                                                  *)
(* ================================================================== *)
(* x = outcome of run 1 (strikeout marks ON), y = outcome of run 2 (OFF).  The same outcome kind
   (the same Panic site), related values when Ok -- except that nothing is claimed when run 2
   runs out of model fuel: the fuel of flush_word_hard_wrap is 2 * (number of characters of
   the piece) + 2, so run 1 (whose pieces contain the marks) has MORE fuel than run 2. *)
Definition rr {A B} (P : A -> B -> Prop) (x : res A) (y : res B) : Prop :=
  match y with
  | Ok b => match x with Ok a => P a b | _ => False end
  | TooNarrow => x = TooNarrow
  | Panic j => x = Panic j
  | OutOfFuel => True
  end.

Lemma rr_bind' {A B A' B'} (P : A -> B -> Prop) (Q : A' -> B' -> Prop) x y k1 k2 :
  rr P x y -> (forall a b, x = Ok a -> y = Ok b -> P a b -> rr Q (k1 a) (k2 b)) ->
  rr Q (bind x k1) (bind y k2).
Proof.
  destruct y as [b| |j|]; cbn [rr bind]; intros H K; auto.
  - destruct x as [a| | |]; try contradiction. cbn [bind]. apply K; auto.
  - subst x. reflexivity.
  - subst x. reflexivity.
Qed.

Lemma rr_bind {A B A' B'} (P : A -> B -> Prop) (Q : A' -> B' -> Prop) x y k1 k2 :
  rr P x y -> (forall a b, P a b -> rr Q (k1 a) (k2 b)) -> rr Q (bind x k1) (bind y k2).
Proof. intros H K. eapply rr_bind'; [exact H|]. intros a b _ _. apply K. Qed.

Lemma rr_same {A C D} (Q : C -> D -> Prop) (e : res A) k1 k2 :
  (forall v, e = Ok v -> rr Q (k1 v) (k2 v)) -> rr Q (bind e k1) (bind e k2).
Proof. intros K. destruct e; cbn [bind rr]; auto. Qed.

Lemma rr_impl {A B} (P Q : A -> B -> Prop) x y :
  (forall a b, P a b -> Q a b) -> rr P x y -> rr Q x y.
Proof. destruct y, x; cbn; auto. Qed.

Lemma rr_fold {A B C} (P : A -> B -> Prop) (f : C -> A -> res A) (g : C -> B -> res B) :
  forall (l : list C) x y,
  (forall c, In c l -> forall a b, P a b -> rr P (f c a) (g c b)) ->
  rr P x y ->
  rr P (fold_left (fun acc c => do s <- acc; f c s) l x)
       (fold_left (fun acc c => do s <- acc; g c s) l y).
Proof.
  induction l as [|c l IH]; intros x y Hstep Hxy; cbn [fold_left]; [exact Hxy|].
  apply IH; [intros c' Hc'; apply Hstep; right; exact Hc'|].
  eapply rr_bind; [exact Hxy|]. apply Hstep. left. reflexivity.
Qed.

Lemma rr_ok_r {A B} (P : A -> B -> Prop) x y b :
  rr P x y -> y = Ok b -> exists a, x = Ok a /\ P a b.
Proof. intros H ->. destruct x; cbn in H; try contradiction. eauto. Qed.

Lemma rr_res_rel {A B} (P : A -> B -> Prop) x y : y <> OutOfFuel -> rr P x y -> res_rel P x y.
Proof.
  destruct y as [b| |j|]; cbn [rr]; intros Hy H; [| | |congruence].
  - destruct x; try contradiction. exact H.
  - subst x. exact I.
  - subst x. reflexivity.
Qed.

(* ================================================================== *)
(* 1. Texts: t1 is t2 with strike marks inserted                        *)
(* ================================================================== *)
(* ins t1 t2: t1 is t2 with k >= 0 copies of the mark U+0336 (Sub.strike_chr, width 0) inserted
   directly after some of its characters; k > 0 only after a character that is not whitespace
   and has a positive width (what Sub.filter_strikeout does, any number of nested times). *)
Definition mk_ok (c : chr) (k : nat) : Prop := k = O \/ (ws c = false /\ 0 < cw0 c).

Inductive ins : text -> text -> Prop :=
| ins_nil : ins [] []
| ins_cons c k t1 t2 : mk_ok c k -> ins t1 t2 ->
                       ins (c :: repeat strike_chr k ++ t1) (c :: t2).

Lemma ins_same c t1 t2 : ins t1 t2 -> ins (c :: t1) (c :: t2).
Proof. intros H. apply (ins_cons c O t1 t2); [left; reflexivity|exact H]. Qed.

Lemma ins_refl t : ins t t.
Proof. induction t as [|c t IH]; [constructor|apply ins_same, IH]. Qed.

Lemma ins_app a1 a2 b1 b2 : ins a1 a2 -> ins b1 b2 -> ins (a1 ++ b1) (a2 ++ b2).
Proof.
  intros Ha Hb. induction Ha as [|c k t1 t2 Hk _ IH]; [exact Hb|].
  cbn [app]. rewrite <- app_assoc. constructor; assumption.
Qed.

Lemma swidth_marks k : swidth (repeat strike_chr k) = 0.
Proof. induction k as [|k IH]; [reflexivity|]. cbn [repeat swidth]. rewrite IH. reflexivity. Qed.

Lemma ins_swidth t1 t2 : ins t1 t2 -> swidth t1 = swidth t2.
Proof.
  induction 1 as [|c k t1 t2 Hk _ IH]; [reflexivity|].
  cbn [swidth]. rewrite swidth_app, swidth_marks, IH. lia.
Qed.

Lemma ins_nil_l t : ins [] t -> t = [].
Proof. intros H. inversion H. reflexivity. Qed.
Lemma ins_nil_r t : ins t [] -> t = [].
Proof. intros H. inversion H. reflexivity. Qed.

Lemma ins_length t1 t2 : ins t1 t2 -> (length t2 <= length t1)%nat.
Proof.
  induction 1 as [|c k t1 t2 Hk _ IH]; [reflexivity|].
  cbn [length]. rewrite app_length. lia.
Qed.

Lemma ins_marks c k : mk_ok c k -> ins (c :: repeat strike_chr k) [c].
Proof.
  intros Hk. pose proof (ins_cons c k [] [] Hk ins_nil) as H. rewrite app_nil_r in H. exact H.
Qed.

(* the strikeout filter, any number of times *)
Lemma filter_marks k : filter_strikeout (repeat strike_chr k) = repeat strike_chr k.
Proof. induction k as [|k IH]; [reflexivity|]. cbn [repeat]. unfold filter_strikeout in *. cbn [flat_map]. rewrite IH. reflexivity. Qed.

Lemma filter_strikeout_app a b : filter_strikeout (a ++ b) = filter_strikeout a ++ filter_strikeout b.
Proof. unfold filter_strikeout. apply flat_map_app. Qed.

Lemma ins_filter t1 t2 : ins t1 t2 -> ins (filter_strikeout t1) t2.
Proof.
  induction 1 as [|c k t1 t2 Hk _ IH]; [constructor|].
  change (c :: repeat strike_chr k ++ t1) with ([c] ++ repeat strike_chr k ++ t1).
  rewrite !filter_strikeout_app, filter_marks.
  unfold filter_strikeout at 1. cbn [flat_map]. rewrite app_nil_r.
  destruct (negb (ws c) && (0 <? cw0 c)) eqn:E.
  - cbn [app]. apply (ins_cons c (S k) _ t2); [|exact IH]. right. split; [|lia].
    destruct (ws c); [discriminate|reflexivity].
  - cbn [app]. constructor; assumption.
Qed.

Lemma ins_apply_filters n : forall t1 t2, ins t1 t2 -> ins (apply_filters n t1) t2.
Proof.
  induction n as [|n IH]; intros t1 t2 H; cbn [apply_filters]; [exact H|]. apply IH, ins_filter, H.
Qed.

(* ================================================================== *)
(* 2. Elements, lines, wrapped blocks                                   *)
(* ================================================================== *)
Inductive ER : elem -> elem -> Prop :=
| ER_str s1 s2 t : ins s1 s2 -> ER (Str s1 t) (Str s2 t)
| ER_frag n : ER (Frag n) (Frag n).

Definition VR : list elem -> list elem -> Prop := Forall2 ER.
Definition LR (l1 l2 : tline) : Prop := VR (tv l1) (tv l2) /\ tlen_ l1 = tlen_ l2.

Lemma ER_refl e : ER e e.
Proof. destruct e; constructor. apply ins_refl. Qed.
Lemma VR_refl v : VR v v.
Proof. induction v; constructor; [apply ER_refl|assumption]. Qed.
Lemma LR_refl l : LR l l.
Proof. split; [apply VR_refl|reflexivity]. Qed.

Lemma ER_content e1 e2 : ER e1 e2 -> elem_has_content e1 = elem_has_content e2.
Proof. destruct 1; reflexivity. Qed.

Lemma VR_content v1 v2 : VR v1 v2 -> existsb elem_has_content v1 = existsb elem_has_content v2.
Proof.
  induction 1 as [|e1 e2 v1 v2 He _ IH]; [reflexivity|]. cbn [existsb].
  rewrite (ER_content _ _ He), IH. reflexivity.
Qed.

Lemma LR_empty l1 l2 : LR l1 l2 -> tl_is_empty l1 = tl_is_empty l2.
Proof. intros [H _]. unfold tl_is_empty. rewrite (VR_content _ _ H). reflexivity. Qed.

Lemma VR_word_empty v1 v2 : VR v1 v2 -> word_is_empty v1 = word_is_empty v2.
Proof. intros H. unfold word_is_empty. rewrite (VR_content _ _ H). reflexivity. Qed.

Lemma my_lN_eqb_refl l : lN_eqb l l = true.
Proof. induction l as [|x l IH]; [reflexivity|]. cbn [lN_eqb]. rewrite N.eqb_refl, IH. reflexivity. Qed.
Lemma my_ann_eqb_refl a : ann_eqb a a = true.
Proof.
  destruct a; cbn [ann_eqb]; unfold text_eqb;
    rewrite ?my_lN_eqb_refl, ?N.eqb_refl, ?Bool.eqb_reflx; reflexivity.
Qed.
Lemma my_tag_eqb_refl t : tag_eqb t t = true.
Proof. induction t as [|a t IH]; [reflexivity|]. cbn [tag_eqb]. rewrite my_ann_eqb_refl, IH. reflexivity. Qed.

Lemma vpm_VR t : forall v1 v2 s1 s2, VR v1 v2 -> ins s1 s2 ->
  VR (v_push_merge v1 s1 t) (v_push_merge v2 s2 t).
Proof.
  intros v1 v2 s1 s2 H Hs. induction H as [|e1 e2 v1 v2 He Hv IH].
  - cbn [v_push_merge]. repeat constructor. exact Hs.
  - destruct Hv as [|e1' e2' v1' v2' He' Hv'].
    + cbn [v_push_merge]. destruct He as [x1 x2 t0 Hx|n].
      * destruct (tag_eqb t0 t); repeat constructor; auto. apply ins_app; assumption.
      * repeat constructor. exact Hs.
    + rewrite !v_push_merge_cons2. constructor; [exact He|exact IH].
Qed.

(* pushing twice with the same tag = pushing the concatenation *)
Lemma vpm_vpm t : forall v x y, v_push_merge (v_push_merge v x t) y t = v_push_merge v (x ++ y) t.
Proof.
  induction v as [|e v IH]; intros x y.
  - cbn [v_push_merge]. rewrite my_tag_eqb_refl. reflexivity.
  - destruct v as [|e' v].
    + cbn [v_push_merge]. destruct e as [s0 t0|n].
      * destruct (tag_eqb t0 t) eqn:E.
        -- cbn [v_push_merge]. rewrite E, app_assoc. reflexivity.
        -- rewrite v_push_merge_cons2. cbn [v_push_merge]. rewrite my_tag_eqb_refl. reflexivity.
      * rewrite v_push_merge_cons2. cbn [v_push_merge]. rewrite my_tag_eqb_refl. reflexivity.
    + rewrite (v_push_merge_cons2 e e' v x t), (v_push_merge_cons2 e e' v (x ++ y) t), <- IH.
      destruct (v_push_merge (e' :: v) x t) as [|a l] eqn:E.
      * exfalso. pose proof (content_push_merge (e' :: v) x t) as C. rewrite E in C. discriminate.
      * rewrite v_push_merge_cons2. reflexivity.
Qed.

Lemma push_str_LR l1 l2 s1 s2 t : LR l1 l2 -> ins s1 s2 -> LR (tl_push_str l1 s1 t) (tl_push_str l2 s2 t).
Proof.
  intros [Hv Hl] Hs. unfold tl_push_str. destruct Hs as [|c k s1 s2 Hk Hs]; [split; assumption|].
  split; cbn [tv tlen_].
  - apply vpm_VR; [exact Hv|]. constructor; assumption.
  - rewrite Hl. f_equal. apply ins_swidth. constructor; assumption.
Qed.

Lemma push_LR l1 l2 e1 e2 : LR l1 l2 -> ER e1 e2 -> LR (tl_push l1 e1) (tl_push l2 e2).
Proof.
  intros Hl He. destruct He as [s1 s2 t Hs|n]; cbn [tl_push].
  - apply push_str_LR; assumption.
  - destruct Hl as [Hv Hl]. split; cbn [tv tlen_]; [|exact Hl].
    apply Forall2_app; [exact Hv|]. repeat constructor.
Qed.

Lemma fold_push_LR v1 v2 : VR v1 v2 -> forall l1 l2, LR l1 l2 ->
  LR (fold_left tl_push v1 l1) (fold_left tl_push v2 l2).
Proof.
  induction 1 as [|e1 e2 v1 v2 He _ IH]; intros l1 l2 Hl; cbn [fold_left]; [exact Hl|].
  apply IH, push_LR; assumption.
Qed.

Lemma push_char_LR l1 l2 c t : LR l1 l2 -> LR (tl_push_char l1 c t) (tl_push_char l2 c t).
Proof.
  intros [Hv Hl]. split; cbn [tl_push_char tv tlen_]; [|rewrite Hl; reflexivity].
  apply vpm_VR; [exact Hv|apply ins_refl].
Qed.

Lemma push_wsl_LR lb l1 l2 n t : LR l1 l2 -> LR (tl_push_wsl lb l1 n t) (tl_push_wsl lb l2 n t).
Proof. intros H. unfold tl_push_wsl. apply push_str_LR; [exact H|apply ins_refl]. Qed.

Lemma LR_new : LR tl_new tl_new.
Proof. apply LR_refl. Qed.

Lemma VR_width_raw v1 v2 : VR v1 v2 ->
  sumN (map (fun e => swidth (elem_text e)) v1) = sumN (map (fun e => swidth (elem_text e)) v2).
Proof.
  induction 1 as [|e1 e2 v1 v2 He _ IH]; [reflexivity|]. cbn [map sumN]. rewrite IH. f_equal.
  destruct He as [s1 s2 t Hs|n]; cbn [elem_text]; [apply ins_swidth, Hs|reflexivity].
Qed.

Lemma LR_width l1 l2 : LR l1 l2 -> tl_width l1 = tl_width l2.
Proof.
  intros [Hv Hl]. unfold tl_width, tl_width_raw. rewrite Hl, (VR_width_raw _ _ Hv). reflexivity.
Qed.

Lemma pad_to_LR l1 l2 w t : LR l1 l2 -> rr LR (tl_pad_to l1 w t) (tl_pad_to l2 w t).
Proof.
  intros H. unfold tl_pad_to. rewrite (LR_width _ _ H). apply rr_same. intros n _.
  destruct (n <? w); cbn [rr]; [apply push_wsl_LR, H|exact H].
Qed.

(* ---- wrapped blocks ---- *)
Definition WR (b1 b2 : wblock) : Prop :=
  wwidth b1 = wwidth b2 /\ Forall2 LR (wtext b1) (wtext b2) /\ LR (wline b1) (wline b2) /\
  spacetag b1 = spacetag b2 /\ VR (wword b1) (wword b2) /\ wordlen b1 = wordlen b2 /\
  wslen b1 = wslen b2 /\ pre_wrapped b1 = pre_wrapped b2 /\ pad_blocks b1 = pad_blocks b2 /\
  allow_overflow b1 = allow_overflow b2.

Definition WR2 {X} (p q : wblock * X) : Prop := WR (fst p) (fst q) /\ snd p = snd q.

Ltac wprj :=
  cbn [wwidth wtext wline spacetag wword wordlen wslen pre_wrapped pad_blocks allow_overflow
       set_line set_text_line set_space set_word set_prew fst snd] in *.

Ltac wr_split := unfold WR; wprj; repeat match goal with |- _ /\ _ => split end; auto.

Lemma WR_set_line b1 b2 l1 l2 : WR b1 b2 -> LR l1 l2 -> WR (set_line b1 l1) (set_line b2 l2).
Proof. intros (?&?&?&?&?&?&?&?&?&?) Hl. wr_split. Qed.
Lemma WR_set_text_line b1 b2 t1 t2 l1 l2 :
  WR b1 b2 -> Forall2 LR t1 t2 -> LR l1 l2 -> WR (set_text_line b1 t1 l1) (set_text_line b2 t2 l2).
Proof. intros (?&?&?&?&?&?&?&?&?&?) Ht Hl. wr_split. Qed.
Lemma WR_set_space b1 b2 st n : WR b1 b2 -> WR (set_space b1 st n) (set_space b2 st n).
Proof. intros (?&?&?&?&?&?&?&?&?&?). wr_split. Qed.
Lemma WR_set_word b1 b2 w1 w2 n : WR b1 b2 -> VR w1 w2 -> WR (set_word b1 w1 n) (set_word b2 w2 n).
Proof. intros (?&?&?&?&?&?&?&?&?&?) Hw. wr_split. Qed.
Lemma WR_set_prew b1 b2 p : WR b1 b2 -> WR (set_prew b1 p) (set_prew b2 p).
Proof. intros (?&?&?&?&?&?&?&?&?&?). wr_split. Qed.

Lemma WR_new w pad o : WR (wb_new w pad o) (wb_new w pad o).
Proof. unfold wb_new. wr_split; try apply LR_new; constructor. Qed.

Lemma ffl_WR b1 b2 : WR b1 b2 -> rr WR (force_flush_line b1) (force_flush_line b2).
Proof.
  intros HR. pose proof HR as (Hw&Ht&Hl&Hs&Hwd&Hwl&Hsl&Hp&Hpad&Hov).
  unfold force_flush_line. rewrite Hpad, Hw, Hs.
  eapply rr_bind with (P := LR).
  - destruct (pad_blocks b2); [apply pad_to_LR, Hl|exact Hl].
  - intros l1 l2 Hl'. cbn [rr]. apply WR_set_text_line; [exact HR| |apply LR_new].
    apply Forall2_app; [exact Ht|]. constructor; [exact Hl'|constructor].
Qed.

Lemma flush_line_WR b1 b2 : WR b1 b2 -> rr WR (flush_line b1) (flush_line b2).
Proof.
  intros HR. pose proof HR as (Hw&Ht&Hl&_). unfold flush_line. rewrite (LR_empty _ _ Hl).
  destruct (tl_is_empty (wline b2)); [exact HR|apply ffl_WR, HR].
Qed.

(* ---- hw_scan: the hard-wrap cut never separates a character from its marks ---- *)
Lemma hw_scan_marks ovf l0 k : forall s tr ll wp,
  hw_scan ovf l0 false (repeat strike_chr k ++ s) tr ll wp =
  hw_scan ovf l0 false s (repeat strike_chr k ++ tr) ll wp.
Proof.
  induction k as [|k IH]; intros s tr ll wp; [reflexivity|].
  cbn [repeat app hw_scan]. change (cw strike_chr) with (Some 0). cbv iota beta.
  replace (0 <=? ll) with true by lia. rewrite N.sub_0_r, N.add_0_r, IH.
  f_equal. change (strike_chr :: tr) with ([strike_chr] ++ tr). rewrite app_assoc. f_equal.
  clear. induction k as [|k IH]; [reflexivity|]. cbn [repeat app]. rewrite IH. reflexivity.
Qed.

Lemma rev_marks k : rev (repeat strike_chr k) = repeat strike_chr k.
Proof.
  induction k as [|k IH]; [reflexivity|]. cbn [repeat rev]. rewrite IH.
  clear. induction k as [|k IH]; [reflexivity|]. cbn [repeat app]. rewrite IH. reflexivity.
Qed.

Definition scanR (tr1 tr2 s1 s2 : text) (r1 r2 : text * N * N) : Prop :=
  snd (fst r1) = snd (fst r2) /\ snd r1 = snd r2 /\
  ((fst (fst r1) = [] /\ fst (fst r2) = []) \/
   exists suf1 suf2, rev tr1 ++ s1 = fst (fst r1) ++ suf1 /\ rev tr2 ++ s2 = fst (fst r2) ++ suf2 /\
                     ins (fst (fst r1)) (fst (fst r2)) /\ ins suf1 suf2).

(* the overflow branch (change (A) of the model): the character that does not fit an empty line
   is taken together with the zero-width characters that follow it -- in run 1 its marks, then
   (both runs) zero-width characters of the document, which carry no marks (mk_ok) *)
Lemma take_zw_marks k s : take_zw (repeat strike_chr k ++ s) = repeat strike_chr k ++ take_zw s.
Proof.
  induction k as [|k IH]; [reflexivity|]. cbn [repeat app take_zw].
  change (cw strike_chr) with (Some 0). cbv iota beta. rewrite IH. reflexivity.
Qed.

Lemma take_zw_ins t1 t2 : ins t1 t2 ->
  exists suf1 suf2, t1 = take_zw t1 ++ suf1 /\ t2 = take_zw t2 ++ suf2 /\
                    ins (take_zw t1) (take_zw t2) /\ ins suf1 suf2.
Proof.
  induction 1 as [|c k t1 t2 Hk Ht IH].
  - exists [], []. repeat split; constructor.
  - destruct IH as (suf1 & suf2 & F1 & F2 & G1 & G2). cbn [take_zw].
    destruct (cw c) as [[|p]|] eqn:Ecw.
    + assert (k = O) as ->.
      { destruct Hk as [->|[_ Hc]]; [reflexivity|]. unfold cw0 in Hc. rewrite Ecw in Hc. lia. }
      cbn [repeat app]. exists suf1, suf2.
      split; [f_equal; exact F1|]. split; [f_equal; exact F2|]. split; [apply ins_same, G1|exact G2].
    + eexists _, _. cbn [app]. split; [reflexivity|]. split; [reflexivity|].
      split; constructor; assumption.
    + eexists _, _. cbn [app]. split; [reflexivity|]. split; [reflexivity|].
      split; constructor; assumption.
Qed.

Lemma take_zw_width s : swidth (take_zw s) = 0.
Proof.
  induction s as [|c s IH]; [reflexivity|]. cbn [take_zw].
  destruct (cw c) as [[|p]|] eqn:E; try reflexivity.
  cbn [swidth]. unfold cw0. rewrite E, IH. reflexivity.
Qed.

Lemma hw_scan_ins ovf l1 l2 : tl_width l1 = tl_width l2 ->
  forall s1 s2, ins s1 s2 -> forall first tr1 tr2 ll wp, ins (rev tr1) (rev tr2) ->
  (first = true -> tr1 = [] /\ tr2 = []) ->
  rr (scanR tr1 tr2 s1 s2) (hw_scan ovf l1 first s1 tr1 ll wp) (hw_scan ovf l2 first s2 tr2 ll wp).
Proof.
  intros Hw s1 s2 Hs. induction Hs as [|c k t1 t2 Hk Ht IH]; intros first tr1 tr2 ll wp Htr Hfirst.
  - cbn [hw_scan rr]. unfold scanR. cbn [fst snd]. auto.
  - cbn [hw_scan]. destruct (cw c) as [c_w|] eqn:Ecw; [|reflexivity].
    destruct (c_w <=? ll) eqn:Efit.
    + rewrite hw_scan_marks.
      assert (Htr' : ins (rev (repeat strike_chr k ++ c :: tr1)) (rev (c :: tr2))).
      { rewrite rev_app_distr, rev_marks. cbn [rev]. rewrite <- app_assoc. cbn [app].
        apply ins_app; [exact Htr|]. apply ins_marks, Hk. }
      specialize (IH false _ _ (ll - c_w) (wp + c_w) Htr' ltac:(discriminate)).
      eapply rr_impl; [|exact IH]. intros [[tk1 a1] w1] [[tk2 a2] w2] (E1 & E2 & H).
      unfold scanR in *. cbn [fst snd] in *. split; [exact E1|]. split; [exact E2|].
      destruct H as [H|(suf1 & suf2 & F1 & F2 & G1 & G2)]; [left; exact H|right].
      exists suf1, suf2. split; [|split; [|split; assumption]].
      * rewrite <- F1, rev_app_distr, rev_marks. cbn [rev]. rewrite <- !app_assoc. reflexivity.
      * rewrite <- F2. cbn [rev]. rewrite <- app_assoc. reflexivity.
    + assert (Hfin : rr (scanR tr1 tr2 (c :: repeat strike_chr k ++ t1) (c :: t2))
                        (Ok (rev tr1, ll, wp)) (Ok (rev tr2, ll, wp))).
      { cbn [rr]. unfold scanR. cbn [fst snd]. split; [reflexivity|]. split; [reflexivity|].
        right. eexists _, _. split; [reflexivity|]. split; [reflexivity|].
        split; [exact Htr|]. constructor; assumption. }
      destruct first; [|exact Hfin].
      rewrite Hw. apply rr_same. intros lw _. destruct (lw =? 0); [|exact Hfin].
      destruct ovf; [|reflexivity].
      destruct (Hfirst eq_refl) as [-> ->]. clear Hfin.
      rewrite take_zw_marks.
      destruct (take_zw_ins _ _ Ht) as (suf1 & suf2 & F1 & F2 & G1 & G2).
      cbn [rr]. unfold scanR. cbn [fst snd rev app]. split; [reflexivity|]. split; [reflexivity|].
      right. exists suf1, suf2.
      split; [f_equal; rewrite <- app_assoc; f_equal; exact F1|].
      split; [f_equal; exact F2|]. split; [constructor; assumption|exact G2].
Qed.

Lemma skipn_app_exact {A} (a b : list A) : skipn (length a) (a ++ b) = b.
Proof. induction a as [|x a IH]; [reflexivity|]. cbn [length app skipn]. exact IH. Qed.

Lemma ins_is_nil t1 t2 : ins t1 t2 ->
  match t1 with [] => true | _ => false end = match t2 with [] => true | _ => false end.
Proof. destruct 1; reflexivity. Qed.

Lemma hw_piece_WR t w : forall f2 f1 b1 b2 rest1 rest2 consumed lineleft wpos,
  (f2 <= f1)%nat -> WR b1 b2 -> ins rest1 rest2 ->
  rr (@WR2 N) (hw_piece f1 b1 t w rest1 consumed lineleft wpos)
              (hw_piece f2 b2 t w rest2 consumed lineleft wpos).
Proof.
  induction f2 as [|f2 IH]; intros f1 b1 b2 rest1 rest2 consumed lineleft wpos Hf HR Hrest;
    [exact I|].
  destruct f1 as [|f1]; [lia|]. cbn [hw_piece].
  pose proof HR as (Hw&Ht&Hl&Hs&Hwd&Hwl&Hsl&Hp&Hpad&Hov).
  apply rr_same. intros rem _.
  destruct (lineleft <? rem).
  - rewrite Hov.
    eapply rr_bind.
    { apply (hw_scan_ins (allow_overflow b2) (wline b1) (wline b2) (LR_width _ _ Hl) rest1 rest2 Hrest
               true [] []); [constructor|auto]. }
    intros [[tk1 a1] w1] [[tk2 a2] w2] (E1 & E2 & H). cbn [fst snd] in E1, E2, H. subst a2 w2.
    assert (Htk : ins tk1 tk2 /\ ins (skipn (length tk1) rest1) (skipn (length tk2) rest2)).
    { destruct H as [[-> ->]|(suf1 & suf2 & F1 & F2 & G1 & G2)].
      - split; [constructor|exact Hrest].
      - cbn [rev app] in F1, F2. subst rest1 rest2. rewrite !skipn_app_exact. auto. }
    destruct Htk as [Htk Hsk].
    eapply rr_bind.
    { apply ffl_WR. apply WR_set_line; [exact HR|]. apply push_LR; [exact Hl|]. constructor. exact Htk. }
    intros b1' b2' HR'. rewrite (ins_is_nil _ _ Htk).
    replace (wwidth b1') with (wwidth b2') by (symmetry; apply HR').
    apply IH; [lia|exact HR'|exact Hsk].
  - destruct (negb consumed).
    + apply rr_same. intros n _. cbn [rr]. split; [|reflexivity]. cbn [fst].
      apply WR_set_line; [exact HR|]. apply push_LR; [exact Hl|]. constructor. exact Hrest.
    + destruct Hrest as [|c k r1 r2 Hk Hr]; [split; [exact HR|reflexivity]|].
      apply rr_same. intros n _. cbn [rr]. split; [|reflexivity]. cbn [fst].
      apply WR_set_line; [exact HR|]. apply push_LR; [exact Hl|]. constructor. constructor; assumption.
Qed.

Lemma hw_elems_WR : forall els1 els2, VR els1 els2 -> forall b1 b2 ll,
  WR b1 b2 -> rr WR (hw_elems b1 els1 ll) (hw_elems b2 els2 ll).
Proof.
  induction 1 as [|e1 e2 v1 v2 He _ IH]; intros b1 b2 ll HR; cbn [hw_elems]; [exact HR|].
  destruct He as [s1 s2 t Hs|n].
  - rewrite (ins_swidth _ _ Hs).
    eapply rr_bind.
    { apply hw_piece_WR; [pose proof (ins_length _ _ Hs); lia|exact HR|exact Hs]. }
    intros [b1' x1] [b2' x2] [HR' E]. cbn [fst snd] in *. subst x2. apply IH, HR'.
  - apply IH. apply WR_set_line; [exact HR|]. apply push_LR; [apply HR|constructor].
Qed.

Lemma fwhw_WR b1 b2 : WR b1 b2 -> rr WR (flush_word_hard_wrap b1) (flush_word_hard_wrap b2).
Proof.
  intros HR. pose proof HR as (Hw&Ht&Hl&Hs&Hwd&Hwl&Hsl&Hp&Hpad&Hov).
  unfold flush_word_hard_wrap. rewrite Hw, (proj2 Hl). apply rr_same. intros ll _.
  rewrite Hwl. apply hw_elems_WR; [exact Hwd|]. apply WR_set_word; [exact HR|constructor].
Qed.

Lemma ws_loop_WR : forall fuel b1 b2, WR b1 b2 -> rr WR (ws_loop fuel b1) (ws_loop fuel b2).
Proof.
  induction fuel as [|f IH]; intros b1 b2 HR;
    pose proof HR as (Hw&Ht&Hl&Hs&Hwd&Hwl&Hsl&Hp&Hpad&Hov); cbn [ws_loop]; rewrite Hsl;
    (destruct (wslen b2 =? 0); [exact HR|]); [exact I|].
  rewrite Hw, Hs. destruct (wwidth b2 =? 0); [apply WR_set_space, HR|].
  destruct (spacetag b2) as [st|]; [|reflexivity].
  eapply rr_bind with (P := WR).
  { assert (H1 : WR (set_line b1 (tl_push_wsl L_space (wline b1) (N.min (wslen b2) (wwidth b2)) st))
                    (set_line b2 (tl_push_wsl L_space (wline b2) (N.min (wslen b2) (wwidth b2)) st))).
    { apply WR_set_line; [exact HR|apply push_wsl_LR, Hl]. }
    destruct (N.min (wslen b2) (wwidth b2) =? wwidth b2); [apply flush_line_WR, H1|exact H1]. }
  intros b1' b2' HR'. pose proof HR' as (Hw'&_&_&Hs'&_&_&Hsl'&_).
  rewrite Hs', Hsl'. apply IH, WR_set_space, HR'.
Qed.

Lemma flush_word_WR m b1 b2 : WR b1 b2 -> rr WR (flush_word b1 m) (flush_word b2 m).
Proof.
  intros HR. pose proof HR as (Hw&Ht&Hl&Hs&Hwd&Hwl&Hsl&Hp&Hpad&Hov).
  unfold flush_word. rewrite (VR_word_empty _ _ Hwd).
  destruct (word_is_empty (wword b2)); [apply WR_set_word; assumption|].
  rewrite Hw, (proj2 Hl). apply rr_same. intros sil _. rewrite Hsl, Hwl.
  destruct (wslen b2 + wordlen b2 <=? sil).
  - eapply rr_bind with (P := WR).
    { destruct (0 <? wslen b2); [|exact HR]. rewrite Hs.
      destruct (spacetag b2) as [st|]; [|reflexivity]. cbn [rr].
      apply WR_set_space, WR_set_line; [exact HR|]. apply push_LR; [exact Hl|apply ER_refl]. }
    intros b1' b2' HR'. cbn [rr]. apply WR_set_word; [|constructor].
    apply WR_set_line; [exact HR'|]. apply fold_push_LR; apply HR'.
  - eapply rr_bind with (P := WR).
    { destruct (negb (do_wrap m)); [|apply WR_set_space, HR].
      destruct (sil <=? wslen b2); [rewrite Hs; apply WR_set_space, HR|].
      destruct (0 <? wslen b2); [|exact HR]. rewrite Hs.
      destruct (spacetag b2) as [st|]; [|reflexivity]. cbn [rr].
      apply WR_set_space, WR_set_line; [exact HR|apply push_wsl_LR, Hl]. }
    intros b1' b2' HR1.
    eapply rr_bind with (P := WR); [apply flush_line_WR, HR1|].
    intros b1'' b2'' HR2.
    eapply rr_bind with (P := WR).
    { assert (H3 : WR (if is_pre m then set_prew b1'' true else b1'')
                      (if is_pre m then set_prew b2'' true else b2'')).
      { destruct (is_pre m); [apply WR_set_prew, HR2|exact HR2]. }
      replace (wslen (if is_pre m then set_prew b1'' true else b1''))
        with (wslen (if is_pre m then set_prew b2'' true else b2'')) by (symmetry; apply H3).
      apply ws_loop_WR, H3. }
    intros b4 b4' HR4.
    eapply rr_bind with (P := WR).
    { apply fwhw_WR. replace (wslen b4) with (wslen b4') by (symmetry; apply HR4).
      apply WR_set_space, HR4. }
    intros b6 b6' HR6. cbn [rr]. apply WR_set_word; [exact HR6|apply HR6].
Qed.

Lemma wb_flush_WR b1 b2 : WR b1 b2 -> rr WR (wb_flush b1) (wb_flush b2).
Proof.
  intros HR. unfold wb_flush. eapply rr_bind; [apply flush_word_WR, HR|]. apply flush_line_WR.
Qed.

Lemma into_lines_markers_WR b1 b2 : WR b1 b2 ->
  rr (fun p q => Forall2 LR (fst p) (fst q) /\ VR (snd p) (snd q))
     (wb_into_lines_markers b1) (wb_into_lines_markers b2).
Proof.
  intros HR. unfold wb_into_lines_markers. eapply rr_bind; [apply wb_flush_WR, HR|].
  intros b1' b2' HR'. cbn [rr fst snd]. split; apply HR'.
Qed.

Lemma trailing_frags_VR v1 v2 : VR v1 v2 ->
  VR (fst (trailing_frags v1)) (fst (trailing_frags v2)) /\
  VR (snd (trailing_frags v1)) (snd (trailing_frags v2)).
Proof.
  induction 1 as [|e1 e2 v1 v2 He _ IH]; cbn [trailing_frags]; [split; constructor|].
  destruct (trailing_frags v1) as [p1 t1], (trailing_frags v2) as [p2 t2]. cbn [fst snd] in IH.
  destruct IH as [Hp Ht]. destruct Hp as [|x1 x2 p1 p2 Hx Hp].
  - rewrite (ER_content _ _ He). destruct (elem_has_content e2); cbn [fst snd]; split; auto;
      repeat constructor; auto.
  - cbn [fst snd]. split; [|exact Ht]. repeat constructor; auto.
Qed.

Lemma take_trailing_WR b1 b2 : WR b1 b2 ->
  WR (fst (take_trailing_fragments b1)) (fst (take_trailing_fragments b2)) /\
  VR (snd (take_trailing_fragments b1)) (snd (take_trailing_fragments b2)).
Proof.
  intros HR. pose proof HR as (Hw&Ht&Hl&Hs&Hwd&Hwl&Hsl&Hp&Hpad&Hov).
  unfold take_trailing_fragments. destruct (trailing_frags_VR _ _ Hwd) as [H1 H2].
  destruct (trailing_frags (wword b1)) as [p1 t1], (trailing_frags (wword b2)) as [p2 t2].
  cbn [fst snd] in *. split; [|exact H2]. rewrite Hwl. apply WR_set_word; assumption.
Qed.

Lemma tab_loop_WR : forall fuel b1 b2 t tw pos one fl, WR b1 b2 ->
  rr (@WR2 bool) (tab_loop fuel b1 t tw pos one fl) (tab_loop fuel b2 t tw pos one fl).
Proof.
  induction fuel as [|f IH]; intros b1 b2 t tw pos one fl HR; cbn [tab_loop];
    (destruct (negb (pos mod 8 =? 0) || negb one); [|split; [exact HR|reflexivity]]); [exact I|].
  pose proof HR as (Hw&Ht&Hl&_). rewrite Hw.
  destruct (wwidth b2 =? 0); [split; [exact HR|reflexivity]|].
  destruct (wwidth b2 <=? pos).
  - eapply rr_bind; [apply flush_line_WR, HR|]. intros b1' b2' HR'. apply IH, HR'.
  - apply IH. apply WR_set_line; [exact HR|apply push_char_LR, Hl].
Qed.

(* one character, the same in both runs *)
Lemma add_char_WR m mt wt b1 b2 u c : WR b1 b2 ->
  rr (@WR2 bool) (add_char m mt wt (b1, u) c) (add_char m mt wt (b2, u) c).
Proof.
  intros HR. unfold add_char.
  eapply rr_bind with (P := WR).
  { replace (wordlen b1) with (wordlen b2) by (symmetry; apply HR).
    destruct (ws c && (0 <? wordlen b2)); [apply flush_word_WR, HR|exact HR]. }
  clear b1 b2 HR. intros b1 b2 HR. cbv zeta.
  pose proof HR as (Hw&Ht&Hl&Hs&Hwd&Hwl&Hsl&Hp&Hpad&Hov).
  destruct (ws c).
  - destruct (preserve_ws m).
    + destruct (cp c =? 10).
      * eapply rr_bind; [apply ffl_WR, HR|]. intros b1' b2' HR'. cbn [rr].
        split; [|reflexivity]. cbn [fst]. apply WR_set_prew, WR_set_space, HR'.
      * destruct (cp c =? 9).
        -- rewrite (proj2 Hl), Hsl.
           eapply rr_bind; [apply tab_loop_WR, HR|].
           intros [b1' f1] [b2' f2] [HR' Ef]. cbn [fst snd] in *. subst f2. cbn [rr].
           split; [|reflexivity]. cbn [fst]. destruct (is_pre m && f1); [apply WR_set_prew, HR'|exact HR'].
        -- destruct (cw c) as [cwidth|]; [|split; [exact HR|reflexivity]].
           rewrite Hw, (proj2 Hl), Hsl.
           destruct (wwidth b2 <? tlen_ (wline b2) + wslen b2 + cwidth).
           ++ rewrite Hs. eapply rr_bind; [apply flush_line_WR, WR_set_space, HR|].
              intros b1' b2' HR'. replace (wslen b1') with (wslen b2') by (symmetry; apply HR').
              destruct (do_wrap m); cbn [rr]; (split; [|reflexivity]); cbn [fst].
              ** apply WR_set_prew, HR'.
              ** apply WR_set_prew, WR_set_space, HR'.
           ++ cbn [rr]. split; [|reflexivity]. cbn [fst]. apply WR_set_space, HR.
    + rewrite (proj2 Hl), Hsl. cbn [rr].
      destruct ((0 <? tlen_ (wline b2)) && (wslen b2 =? 0)); (split; [|reflexivity]); cbn [fst];
        [apply WR_set_space, HR|exact HR].
  - destruct (cw c) as [cwidth|]; [|split; [exact HR|reflexivity]].
    rewrite Hw, (proj2 Hl), Hsl, Hwl. cbn [rr].
    destruct (is_pre m && (wwidth b2 <? tlen_ (wline b2) + wslen b2 + (wordlen b2 + cwidth)));
      (split; [|reflexivity]); cbn [fst]; wprj.
    + apply WR_set_word; [apply WR_set_prew, HR|]. apply vpm_VR; [exact Hwd|apply ins_refl].
    + apply WR_set_word; [exact HR|]. apply vpm_VR; [exact Hwd|apply ins_refl].
Qed.

(* ---- the marks that follow a character join its piece of the pending word ---- *)
Definition stable (m : wsmode) (b : wblock) (u : bool) : Prop :=
  is_pre m && (wwidth b <? tlen_ (wline b) + wslen b + wordlen b) = true ->
  pre_wrapped b = true /\ u = true.

Lemma set_prew_id b : pre_wrapped b = true -> set_prew b true = b.
Proof. destruct b; cbn. intros ->. reflexivity. Qed.

Lemma set_word_set_word b w n w' n' : set_word (set_word b w n) w' n' = set_word b w' n'.
Proof. reflexivity. Qed.

Lemma add_marks_state (m : wsmode) (mt wt : tag) : forall (k : nat) (b : wblock) (w0 : list elem) (x : text) (u : bool),
  wword b = v_push_merge w0 x (if u then wt else mt) -> stable m b u ->
  add_chars m mt wt (b, u) (repeat strike_chr k) =
  Ok (set_word b (v_push_merge w0 (x ++ repeat strike_chr k) (if u then wt else mt)) (wordlen b), u).
Proof.
  induction k as [|k IH]; intros b w0 x u Hw Hst.
  - cbn [repeat add_chars]. rewrite app_nil_r, <- Hw. destruct b; reflexivity.
  - cbn [repeat add_chars]. unfold add_char at 1.
    change (ws strike_chr) with false. change (cw strike_chr) with (Some 0).
    cbn [andb bind]. cbv zeta. rewrite N.add_0_r.
    assert (E : (if is_pre m && (wwidth b <? tlen_ (wline b) + wslen b + wordlen b)
                 then set_prew b true else b) = b /\
                (u || (is_pre m && (wwidth b <? tlen_ (wline b) + wslen b + wordlen b))) = u).
    { destruct (is_pre m && (wwidth b <? tlen_ (wline b) + wslen b + wordlen b)) eqn:E.
      - destruct (Hst E) as [Hp ->]. split; [apply set_prew_id, Hp|reflexivity].
      - split; [reflexivity|apply orb_false_r]. }
    destruct E as [E1 E2]. rewrite E1, E2. cbn [bind].
    rewrite Hw, vpm_vpm.
    rewrite (IH (set_word b (v_push_merge w0 (x ++ [strike_chr]) (if u then wt else mt)) (wordlen b))
                w0 (x ++ [strike_chr]) u); [|reflexivity|exact Hst].
    rewrite <- app_assoc. destruct b; reflexivity.
Qed.

Lemma add_chars_app m mt wt : forall a b st,
  add_chars m mt wt st (a ++ b) = do st' <- add_chars m mt wt st a; add_chars m mt wt st' b.
Proof.
  induction a as [|c a IH]; intros b st; cbn [app add_chars bind]; [reflexivity|].
  destruct (add_char m mt wt st c); cbn [bind]; auto.
Qed.

(* a character that gets marks, with its marks (run 1) against the character alone (run 2) *)
Lemma add_marks_WR m mt wt b1 b2 u c k : ws c = false -> 0 < cw0 c -> WR b1 b2 ->
  rr (@WR2 bool) (add_chars m mt wt (b1, u) (c :: repeat strike_chr k)) (add_char m mt wt (b2, u) c).
Proof.
  intros Hws Hcw HR. pose proof HR as (Hw&Ht&Hl&Hs&Hwd&Hwl&Hsl&Hp&Hpad&Hov).
  cbn [add_chars]. unfold add_char. rewrite Hws. cbn [andb bind]. cbv zeta.
  unfold cw0 in Hcw. destruct (cw c) as [cwidth|] eqn:Ecw; [|lia].
  rewrite Hw, (proj2 Hl), Hsl, Hwl.
  set (sw := is_pre m && (wwidth b2 <? tlen_ (wline b2) + wslen b2 + (wordlen b2 + cwidth))).
  set (b1' := if sw then set_prew b1 true else b1).
  set (b2' := if sw then set_prew b2 true else b2).
  assert (HR' : WR b1' b2') by (subst b1' b2'; destruct sw; [apply WR_set_prew, HR|exact HR]).
  cbn [bind].
  rewrite (add_marks_state m mt wt k _ (wword b1') [c] (u || sw)).
  - cbn [rr]. split; [|reflexivity]. cbn [fst]. wprj.
    rewrite set_word_set_word. apply WR_set_word; [exact HR'|].
    apply vpm_VR; [apply HR'|]. apply ins_marks. right. split; [exact Hws|].
    unfold cw0. rewrite Ecw. exact Hcw.
  - wprj. reflexivity.
  - unfold stable. wprj. subst b1'. 
    replace (wwidth (if sw then set_prew b1 true else b1)) with (wwidth b2)
      by (destruct sw; wprj; auto).
    replace (tlen_ (wline (if sw then set_prew b1 true else b1))) with (tlen_ (wline b2))
      by (destruct sw; wprj; symmetry; apply Hl).
    replace (wslen (if sw then set_prew b1 true else b1)) with (wslen b2)
      by (destruct sw; wprj; auto).
    fold sw. intros E. rewrite E. wprj. split; [reflexivity|apply orb_true_r].
Qed.

Lemma add_chars_ins m mt wt : forall s1 s2, ins s1 s2 -> forall b1 b2 u, WR b1 b2 ->
  rr (@WR2 bool) (add_chars m mt wt (b1, u) s1) (add_chars m mt wt (b2, u) s2).
Proof.
  induction 1 as [|c k t1 t2 Hk _ IH]; intros b1 b2 u HR.
  - cbn [add_chars rr]. split; [exact HR|reflexivity].
  - change (c :: repeat strike_chr k ++ t1) with ((c :: repeat strike_chr k) ++ t1).
    rewrite add_chars_app. cbn [add_chars].
    eapply rr_bind with (P := @WR2 bool).
    + destruct Hk as [->|[Hws Hcw]].
      * cbn [repeat add_chars].
        destruct (add_char m mt wt (b1, u) c) eqn:E; cbn [bind];
          pose proof (add_char_WR m mt wt b1 b2 u c HR) as H; rewrite E in H; exact H.
      * apply add_marks_WR; assumption.
    + intros [b1' u1] [b2' u2] [HR' Eu]. cbn [fst snd] in *. subst u2. apply IH, HR'.
Qed.

Lemma wb_add_text_WR b1 b2 s1 s2 m mt wt : WR b1 b2 -> ins s1 s2 ->
  rr WR (wb_add_text b1 s1 m mt wt) (wb_add_text b2 s2 m mt wt).
Proof.
  intros HR Hs. unfold wb_add_text.
  replace (pre_wrapped b1) with (pre_wrapped b2) by (symmetry; apply HR).
  eapply rr_bind; [apply add_chars_ins; eassumption|].
  intros p q [H _]. exact H.
Qed.

Lemma wb_add_frag_WR b1 b2 n : WR b1 b2 -> WR (wb_add_element b1 (Frag n)) (wb_add_element b2 (Frag n)).
Proof.
  intros HR. cbn [wb_add_element]. replace (wordlen b1) with (wordlen b2) by (symmetry; apply HR).
  apply WR_set_word; [exact HR|]. apply Forall2_app; [apply HR|]. repeat constructor.
Qed.

Lemma F2_len {A B} {R : A -> B -> Prop} {l1 l2} : Forall2 R l1 l2 -> length l1 = length l2.
Proof. induction 1; cbn [length]; congruence. Qed.

Lemma WR_is_empty b1 b2 : WR b1 b2 -> wb_is_empty b1 = wb_is_empty b2.
Proof.
  intros (Hw&Ht&Hl&Hs&Hwd&Hwl&Hsl&_). unfold wb_is_empty, wb_text_len.
  rewrite (F2_len Ht), (proj2 Hl), Hwl. reflexivity.
Qed.

(* ================================================================== *)
(* 3. Sub-renderers                                                     *)
(* ================================================================== *)
Inductive RLR : rline -> rline -> Prop :=
| RLR_text l1 l2 : LR l1 l2 -> RLR (RText l1) (RText l2)
| RLR_line b t : RLR (RLine b t) (RLine b t).

Lemma RLR_refl l : RLR l l.
Proof. destruct l; constructor. apply LR_refl. Qed.

(* the options of the two runs: equal except for o_strike (false in run 2, anything in run 1);
   width overflow allowed or not, the same in both runs *)
Definition OR (o1 o2 : ropts) : Prop :=
  wrap_width o1 = wrap_width o2 /\ o_allow_overflow o1 = o_allow_overflow o2 /\
  o_pad o1 = o_pad o2 /\ o_raw o1 = o_raw o2 /\ o_borders o1 = o_borders o2 /\
  o_wrap_links o1 = o_wrap_links o2 /\ o_footnotes o1 = o_footnotes o2 /\ o_strike o2 = false.

Inductive optR {A B} (R : A -> B -> Prop) : option A -> option B -> Prop :=
| optR_none : optR R None None
| optR_some a b : R a b -> optR R (Some a) (Some b).

Definition SR (x y : subr) : Prop :=
  swidth_ x = swidth_ y /\ OR (sopts x) (sopts y) /\ Forall2 RLR (slines x) (slines y) /\
  VR (pending_frags x) (pending_frags y) /\ at_block_end x = at_block_end y /\
  optR WR (wrapping x) (wrapping y) /\ ann_stack x = ann_stack y /\ filter_depth y = O /\
  pre_depth x = pre_depth y /\ ws_stack x = ws_stack y.

Ltac sprj2 :=
  cbn [swidth_ sopts slines pending_frags at_block_end wrapping ann_stack filter_depth pre_depth
       ws_stack set_lines set_abe set_wrapping set_ann set_filter set_pre_depth set_ws_stack
       new_sub_renderer sub_new] in *.
Ltac sr_split := unfold SR; sprj2; repeat match goal with |- _ /\ _ => split end; auto.
Ltac sr_destr H := destruct H as (?Hw&?Ho&?Hls&?Hpf&?Habe&?Hwr&?Hann&?Hfd&?Hpd&?Hws).

Lemma SR_set_lines x y l1 l2 p1 p2 :
  SR x y -> Forall2 RLR l1 l2 -> VR p1 p2 -> SR (set_lines x l1 p1) (set_lines y l2 p2).
Proof. intros H H1 H2. sr_destr H. sr_split. Qed.
Lemma SR_set_abe x y b : SR x y -> SR (set_abe x b) (set_abe y b).
Proof. intros H. sr_destr H. sr_split. Qed.
Lemma SR_set_wrapping x y w1 w2 : SR x y -> optR WR w1 w2 -> SR (set_wrapping x w1) (set_wrapping y w2).
Proof. intros H H1. sr_destr H. sr_split. Qed.
Lemma SR_set_ann x y a : SR x y -> SR (set_ann x a) (set_ann y a).
Proof. intros H. sr_destr H. sr_split. Qed.
Lemma SR_set_filter x y n : SR x y -> SR (set_filter x n) y.
Proof. intros H. sr_destr H. sr_split. Qed.
Lemma SR_set_pre_depth x y n : SR x y -> SR (set_pre_depth x n) (set_pre_depth y n).
Proof. intros H. sr_destr H. sr_split. Qed.
Lemma SR_set_ws_stack x y l : SR x y -> SR (set_ws_stack x l) (set_ws_stack y l).
Proof. intros H. sr_destr H. sr_split. Qed.

Lemma add_line_SR x y l1 l2 : SR x y -> RLR l1 l2 -> SR (add_line x l1) (add_line y l2).
Proof.
  intros H Hl. pose proof H as H'. sr_destr H'. unfold add_line.
  destruct Hpf as [|e1 e2 p1 p2 He Hp].
  - apply SR_set_lines; [exact H| |constructor].
    apply Forall2_app; [exact Hls|]. constructor; [exact Hl|constructor].
  - destruct Hl as [t1 t2 Ht|b t].
    + apply SR_set_lines; [exact H| |constructor].
      apply Forall2_app; [exact Hls|]. constructor; [|constructor]. constructor.
      apply fold_push_LR; [apply Ht|]. apply fold_push_LR; [|apply LR_new].
      constructor; assumption.
    + apply SR_set_lines; [exact H| |constructor; assumption].
      apply Forall2_app; [exact Hls|]. constructor; constructor.
Qed.

Lemma extend_lines_SR l1 l2 : Forall2 RLR l1 l2 -> forall x y, SR x y ->
  SR (extend_lines x l1) (extend_lines y l2).
Proof.
  unfold extend_lines. induction 1 as [|a b l1 l2 Hab _ IH]; intros x y H; cbn [fold_left]; [exact H|].
  apply IH, add_line_SR; assumption.
Qed.

Lemma map_RText_RLR l1 l2 : Forall2 LR l1 l2 -> Forall2 RLR (map RText l1) (map RText l2).
Proof. induction 1; cbn [map]; constructor; [constructor|]; assumption. Qed.

Lemma flush_wrapping_SR x y : SR x y -> rr SR (flush_wrapping x) (flush_wrapping y).
Proof.
  intros H. pose proof H as H'. sr_destr H'. unfold flush_wrapping.
  destruct Hwr as [|w1 w2 HW]; [exact H|].
  destruct (take_trailing_WR _ _ HW) as [HW' Hfr].
  destruct (take_trailing_fragments w1) as [w1' fr1], (take_trailing_fragments w2) as [w2' fr2].
  cbn [fst snd] in HW', Hfr.
  eapply rr_bind; [apply into_lines_markers_WR, HW'|].
  intros [ls1 mk1] [ls2 mk2] [Hl Hm]. cbn [fst snd] in *. cbn [rr].
  assert (H1 : SR (extend_lines (set_wrapping x None) (map RText ls1))
                  (extend_lines (set_wrapping y None) (map RText ls2))).
  { apply extend_lines_SR; [apply map_RText_RLR, Hl|]. apply SR_set_wrapping; [exact H|constructor]. }
  pose proof H1 as H1'. sr_destr H1'.
  apply SR_set_lines; [exact H1|assumption|].
  apply Forall2_app; [assumption|]. apply Forall2_app; assumption.
Qed.

Lemma sub_into_lines_SR x y : SR x y -> rr (Forall2 RLR) (sub_into_lines x) (sub_into_lines y).
Proof.
  intros H. unfold sub_into_lines. eapply rr_bind; [apply flush_wrapping_SR, H|].
  intros x' y' H'. cbn [rr]. apply H'.
Qed.

Lemma add_empty_line_SR x y : SR x y -> rr SR (add_empty_line x) (add_empty_line y).
Proof.
  intros H. unfold add_empty_line. eapply rr_bind; [apply flush_wrapping_SR, H|].
  intros x' y' H'. cbn [rr]. apply SR_set_abe, add_line_SR; [exact H'|apply RLR_refl].
Qed.

Lemma RLR_has_content l1 l2 : RLR l1 l2 -> rline_has_content l1 = rline_has_content l2.
Proof. destruct 1 as [a b Hab|]; cbn [rline_has_content]; [rewrite (LR_empty _ _ Hab)|]; reflexivity. Qed.

Lemma lines_have_content l1 l2 : Forall2 RLR l1 l2 ->
  existsb rline_has_content l1 = existsb rline_has_content l2.
Proof.
  induction 1 as [|a b l1 l2 Hab _ IH]; [reflexivity|]. cbn [existsb].
  rewrite (RLR_has_content _ _ Hab), IH. reflexivity.
Qed.

Lemma start_block_SR x y : SR x y -> rr SR (start_block x) (start_block y).
Proof.
  intros H. unfold start_block. eapply rr_bind; [apply flush_wrapping_SR, H|].
  intros x1 y1 H1. eapply rr_bind with (P := SR).
  - pose proof H1 as H1'. sr_destr H1'. rewrite (lines_have_content _ _ Hls).
    destruct (existsb rline_has_content (slines y1)); [apply add_empty_line_SR, H1|exact H1].
  - intros x2 y2 H2. cbn [rr]. apply SR_set_abe, H2.
Qed.

Lemma new_line_SR x y : SR x y -> rr SR (new_line x) (new_line y).
Proof. apply flush_wrapping_SR. Qed.

Lemma new_line_hard_SR x y : SR x y -> rr SR (new_line_hard x) (new_line_hard y).
Proof.
  intros H. pose proof H as H'. sr_destr H'. unfold new_line_hard.
  destruct Hwr as [|w1 w2 HW]; [apply add_empty_line_SR, H|].
  pose proof HW as (_&_&Hl&_&_&Hwl&_). rewrite Hwl, (proj2 Hl).
  destruct ((wordlen w2 =? 0) && (tlen_ (wline w2) =? 0));
    [apply add_empty_line_SR|apply flush_wrapping_SR]; exact H.
Qed.

Lemma hborder_SR w x y : SR x y ->
  rr SR (add_horizontal_border_width x w) (add_horizontal_border_width y w).
Proof.
  intros H. unfold add_horizontal_border_width. eapply rr_bind; [apply flush_wrapping_SR, H|].
  intros x1 y1 H1. cbn [rr]. apply add_line_SR; [exact H1|].
  replace (ann_stack x1) with (ann_stack y1) by (symmetry; apply H1). constructor.
Qed.

Lemma hline_SR b t x y : SR x y -> rr SR (add_horizontal_line x b t) (add_horizontal_line y b t).
Proof.
  intros H. unfold add_horizontal_line. eapply rr_bind; [apply flush_wrapping_SR, H|].
  intros x1 y1 H1. cbn [rr]. apply add_line_SR; [exact H1|constructor].
Qed.

Lemma get_wrapping_WR x y : SR x y -> WR (get_wrapping x) (get_wrapping y).
Proof.
  intros H. sr_destr H. unfold get_wrapping. destruct Hwr as [|w1 w2 HW]; [|exact HW].
  destruct Ho as (E1&E2&E3&_). rewrite E1, E2, E3, Hw. apply WR_new.
Qed.

Lemma ws_mode_SR x y : SR x y -> ws_mode x = ws_mode y.
Proof. intros H. sr_destr H. unfold ws_mode. rewrite Hws. reflexivity. Qed.

(* inline text: t1 (run 1) is t2 (run 2) with marks inserted *)
Lemma add_inline_text_SR d t x y : SR x y -> rr SR (add_inline_text d x t) (add_inline_text d y t).
Proof.
  intros H. unfold add_inline_text. rewrite (ws_mode_SR _ _ H).
  replace (at_block_end x) with (at_block_end y) by (symmetry; apply H).
  destruct (negb (preserve_ws (ws_mode y)) && at_block_end y && all_ws t); [exact H|].
  eapply rr_bind with (P := SR).
  { destruct (at_block_end y); [apply start_block_SR, H|exact H]. }
  intros x1 y1 H1. pose proof H1 as H1'. sr_destr H1'.
  rewrite Hfd, Hpd, Hann, (ws_mode_SR _ _ H1). cbn [apply_filters].
  eapply rr_bind.
  { apply wb_add_text_WR; [apply get_wrapping_WR, H1|]. apply ins_apply_filters, ins_refl. }
  intros w1 w2 HW. cbn [rr]. apply SR_set_wrapping; [exact H1|constructor; exact HW].
Qed.

Lemma push_ann_SR a x y : SR x y -> SR (push_ann x a) (push_ann y a).
Proof.
  intros H. unfold push_ann. replace (ann_stack x) with (ann_stack y) by (symmetry; apply H).
  apply SR_set_ann, H.
Qed.
Lemma pop_ann_SR x y : SR x y -> SR (pop_ann x) (pop_ann y).
Proof.
  intros H. unfold pop_ann. replace (ann_stack x) with (ann_stack y) by (symmetry; apply H).
  apply SR_set_ann, H.
Qed.

Lemma start_deco_SR d p x y : SR x y -> rr SR (start_deco d x p) (start_deco d y p).
Proof. intros H. unfold start_deco. apply add_inline_text_SR, push_ann_SR, H. Qed.
Lemma end_deco_SR d e x y : SR x y -> rr SR (end_deco d x e) (end_deco d y e).
Proof.
  intros H. unfold end_deco. eapply rr_bind; [apply add_inline_text_SR, H|].
  intros x1 y1 H1. cbn [rr]. apply pop_ann_SR, H1.
Qed.

Lemma start_strikeout_SR d x y : SR x y -> rr SR (start_strikeout d x) (start_strikeout d y).
Proof.
  intros H. unfold start_strikeout. eapply rr_bind; [apply start_deco_SR, H|].
  intros x1 y1 H1. cbn [rr]. pose proof H1 as H1'. sr_destr H1'.
  destruct Ho as (_&_&_&_&_&_&_&E). rewrite E.
  destruct (o_strike (sopts x1)); [apply SR_set_filter, H1|exact H1].
Qed.

(* end_strikeout: run 1 must not be at filter depth 0 (Panic 11 there; balance excludes it) *)
Lemma end_strikeout_SR d x y : SR x y -> (o_strike (sopts x) = true -> filter_depth x <> O) ->
  rr SR (end_strikeout d x) (end_strikeout d y).
Proof.
  intros H Hd. unfold end_strikeout. pose proof H as H'. sr_destr H'.
  destruct Ho as (_&_&_&_&_&_&_&E). rewrite E. cbn [bind].
  destruct (o_strike (sopts x)).
  - destruct (filter_depth x) as [|n]; [exfalso; apply Hd; reflexivity|]. cbn [bind].
    apply end_deco_SR, SR_set_filter, H.
  - cbn [bind]. apply end_deco_SR, H.
Qed.

Lemma add_image_SR d src t x y : SR x y -> rr SR (add_image d x src t) (add_image d y src t).
Proof.
  intros H. unfold add_image. eapply rr_bind; [apply add_inline_text_SR, push_ann_SR, H|].
  intros x1 y1 H1. cbn [rr]. apply pop_ann_SR, H1.
Qed.

Lemma record_frag_SR n x y : SR x y -> SR (record_frag_start x n) (record_frag_start y n).
Proof.
  intros H. unfold record_frag_start. apply SR_set_wrapping; [exact H|]. constructor.
  apply wb_add_frag_WR, get_wrapping_WR, H.
Qed.

Lemma push_colour_SR d r g b x y : SR x y -> SR (push_colour d x r g b) (push_colour d y r g b).
Proof. intros H. unfold push_colour. destruct (d_colours d); [apply push_ann_SR, H|exact H]. Qed.
Lemma push_bg_SR d r g b x y : SR x y -> SR (push_bgcolour d x r g b) (push_bgcolour d y r g b).
Proof. intros H. unfold push_bgcolour. destruct (d_colours d); [apply push_ann_SR, H|exact H]. Qed.
Lemma pop_colour_SR d x y : SR x y -> SR (pop_colour d x) (pop_colour d y).
Proof. intros H. unfold pop_colour. destruct (d_colours d); [apply pop_ann_SR, H|exact H]. Qed.
Lemma push_ws_SR m x y : SR x y -> SR (push_ws_mode x m) (push_ws_mode y m).
Proof.
  intros H. unfold push_ws_mode. replace (ws_stack x) with (ws_stack y) by (symmetry; apply H).
  apply SR_set_ws_stack, H.
Qed.
Lemma pop_ws_SR x y : SR x y -> SR (pop_ws_mode x) (pop_ws_mode y).
Proof.
  intros H. unfold pop_ws_mode. replace (ws_stack x) with (ws_stack y) by (symmetry; apply H).
  apply SR_set_ws_stack, H.
Qed.
Lemma push_pre_SR x y : SR x y -> SR (push_preformat x) (push_preformat y).
Proof.
  intros H. unfold push_preformat. replace (pre_depth x) with (pre_depth y) by (symmetry; apply H).
  apply SR_set_pre_depth, H.
Qed.
Lemma pop_pre_SR x y : SR x y -> rr SR (pop_preformat x) (pop_preformat y).
Proof.
  intros H. unfold pop_preformat. replace (pre_depth x) with (pre_depth y) by (symmetry; apply H).
  destruct (0 <? pre_depth y); [|reflexivity]. cbn [rr]. apply SR_set_pre_depth, H.
Qed.
Lemma end_block_SR x y : SR x y -> SR (end_block x) (end_block y).
Proof. apply SR_set_abe. Qed.

Lemma width_minus_SR x y p mn : SR x y -> width_minus x p mn = width_minus y p mn.
Proof.
  intros H. sr_destr H. destruct Ho as (_&E1&_). unfold width_minus. rewrite Hw, E1. reflexivity.
Qed.

Lemma new_sub_SR x y w : SR x y -> SR (new_sub_renderer x w) (new_sub_renderer y w).
Proof. intros H. sr_destr H. sr_split; constructor. Qed.

(* ---- prefixes ---- *)
Lemma insert_front_LR l1 l2 s t : LR l1 l2 -> LR (tl_insert_front l1 s t) (tl_insert_front l2 s t).
Proof.
  intros [Hv Hl]. unfold tl_insert_front. rewrite Hl.
  destruct Hv as [|e1 e2 v1 v2 He Hv].
  - split; cbn [tv tlen_]; [|reflexivity]. repeat constructor. apply ins_refl.
  - destruct He as [s1 s2 t1 Hs|n].
    + destruct (tag_eqb t1 t); split; cbn [tv tlen_]; try reflexivity.
      * constructor; [|exact Hv]. constructor. apply ins_app; [apply ins_refl|exact Hs].
      * constructor; [apply ER_refl|]. constructor; [constructor; exact Hs|exact Hv].
    + split; cbn [tv tlen_]; [|reflexivity].
      constructor; [apply ER_refl|]. constructor; [constructor|exact Hv].
Qed.

Lemma attach_prefix_RLR t p l1 l2 : RLR l1 l2 -> RLR (attach_prefix t p l1) (attach_prefix t p l2).
Proof.
  intros [a b Hab|b t']; cbn [attach_prefix]; [|apply RLR_refl].
  destruct p; constructor; [exact Hab|apply insert_front_LR, Hab].
Qed.

Lemma attach_prefixes_RLR t f r l1 l2 : Forall2 RLR l1 l2 ->
  Forall2 RLR (attach_prefixes t f r l1) (attach_prefixes t f r l2).
Proof.
  intros [|a b l1' l2' Hab Hl]; cbn [attach_prefixes]; constructor; [apply attach_prefix_RLR, Hab|].
  induction Hl; cbn [map]; constructor; [apply attach_prefix_RLR|]; assumption.
Qed.

Lemma append_subrender_SR x y u v f r : SR x y -> SR u v ->
  rr SR (append_subrender x u f r) (append_subrender y v f r).
Proof.
  intros H Huv. unfold append_subrender. eapply rr_bind; [apply flush_wrapping_SR, H|].
  intros x1 y1 H1. eapply rr_bind; [apply sub_into_lines_SR, Huv|].
  intros l1 l2 Hl. cbn [rr]. apply extend_lines_SR; [|exact H1].
  replace (ann_stack x1) with (ann_stack y1) by (symmetry; apply H1).
  apply attach_prefixes_RLR, Hl.
Qed.

(* ---- generic list facts ---- *)
Lemma F2_rev {A B} (R : A -> B -> Prop) l1 l2 : Forall2 R l1 l2 -> Forall2 R (rev l1) (rev l2).
Proof.
  induction 1 as [|a b l1 l2 Hab _ IH]; [constructor|]. cbn [rev].
  apply Forall2_app; [exact IH|]. constructor; [exact Hab|constructor].
Qed.

Lemma F2_olast {A B} (R : A -> B -> Prop) l1 l2 : Forall2 R l1 l2 -> optR R (olast l1) (olast l2).
Proof.
  intros H. apply F2_rev in H. unfold olast. destruct H; constructor. assumption.
Qed.

Lemma F2_removelast {A B} (R : A -> B -> Prop) l1 l2 :
  Forall2 R l1 l2 -> Forall2 R (removelast l1) (removelast l2).
Proof.
  induction 1 as [|a b l1 l2 Hab Hl IH]; [constructor|]. cbn [removelast].
  destruct Hl; [constructor|]. constructor; [exact Hab|exact IH].
Qed.

Lemma F2_nth_opt {A B} (R : A -> B -> Prop) l1 l2 : Forall2 R l1 l2 ->
  forall i, optR R (nth_opt l1 i) (nth_opt l2 i).
Proof.
  induction 1 as [|a b l1 l2 Hab _ IH]; intros i; cbn [nth_opt]; [constructor|].
  destruct i; [constructor; exact Hab|apply IH].
Qed.

(* ---- table rows drawn side by side ---- *)
Definition setR (p q : N * list rline) : Prop := fst p = fst q /\ Forall2 RLR (snd p) (snd q).

Lemma pad_cell_lines_RLR w t l1 l2 : Forall2 RLR l1 l2 ->
  rr (Forall2 RLR) (pad_cell_lines w t l1) (pad_cell_lines w t l2).
Proof.
  induction 1 as [|a b l1 l2 Hab _ IH]; cbn [pad_cell_lines]; [constructor|].
  destruct Hab as [a b Hab|bd t'].
  - eapply rr_bind; [apply pad_to_LR, Hab|]. intros a' b' Hab'.
    eapply rr_bind; [exact IH|]. intros r1 r2 Hr. cbn [rr]. constructor; [constructor; exact Hab'|exact Hr].
  - eapply rr_bind; [exact IH|]. intros r1 r2 Hr. cbn [rr]. constructor; [constructor|exact Hr].
Qed.

Lemma col_line_sets_R t us vs : Forall2 SR us vs ->
  rr (Forall2 setR) (col_line_sets t us) (col_line_sets t vs).
Proof.
  induction 1 as [|u v us vs Huv _ IH]; cbn [col_line_sets]; [constructor|].
  eapply rr_bind; [apply sub_into_lines_SR, Huv|]. intros l1 l2 Hl.
  replace (swidth_ u) with (swidth_ v) by (symmetry; apply Huv).
  eapply rr_bind; [apply pad_cell_lines_RLR, Hl|]. intros p1 p2 Hp.
  eapply rr_bind; [exact IH|]. intros r1 r2 Hr. cbn [rr].
  constructor; [split; [reflexivity|exact Hp]|exact Hr].
Qed.

Lemma setR_fsts s1 s2 : Forall2 setR s1 s2 -> map fst s1 = map fst s2.
Proof. induction 1 as [|p q s1 s2 [E _] _ IH]; [reflexivity|]. cbn [map]. rewrite E, IH. reflexivity. Qed.

Lemma collapse_top_R : forall s1 s2, Forall2 setR s1 s2 -> forall prev pos,
  rr (fun r1 r2 => fst r1 = fst r2 /\ Forall2 setR (snd r1) (snd r2))
     (collapse_top s1 prev pos) (collapse_top s2 prev pos).
Proof.
  induction 1 as [|[w1 sub1] [w2 sub2] s1 s2 [Ew Hsub] _ IH]; intros prev pos;
    cbn [collapse_top]; [split; [reflexivity|constructor]|].
  cbn [fst snd] in Ew, Hsub. subst w2.
  assert (Hdef : rr (fun r1 r2 => fst r1 = fst r2 /\ Forall2 setR (snd r1) (snd r2))
            (do r <- collapse_top s1 prev (pos + w1 + 1); Ok (fst r, (w1, sub1) :: snd r))
            (do r <- collapse_top s2 prev (pos + w1 + 1); Ok (fst r, (w1, sub2) :: snd r))).
  { eapply rr_bind; [apply IH|]. intros r1 r2 [E Hr]. cbn [rr fst snd]. split; [exact E|].
    constructor; [split; [reflexivity|exact Hsub]|exact Hr]. }
  destruct Hsub as [|a b sub1' sub2' Hab Hsub']; [exact Hdef|].
  destruct Hab as [a b Hab|bd t']; [exact Hdef|].
  destruct prev as [pb|]; [|reflexivity].
  eapply rr_bind; [apply IH|]. intros r1 r2 [E Hr]. cbn [rr fst snd]. split; [exact E|].
  constructor; [split; [reflexivity|exact Hsub']|exact Hr].
Qed.

Lemma collapse_bottom_R : forall s1 s2, Forall2 setR s1 s2 -> forall next pos,
  fst (fst (collapse_bottom s1 next pos)) = fst (fst (collapse_bottom s2 next pos)) /\
  Forall2 setR (snd (fst (collapse_bottom s1 next pos))) (snd (fst (collapse_bottom s2 next pos))) /\
  snd (collapse_bottom s1 next pos) = snd (collapse_bottom s2 next pos).
Proof.
  induction 1 as [|[w1 sub1] [w2 sub2] s1 s2 [Ew Hsub] _ IH]; intros next pos;
    cbn [collapse_bottom]; [repeat split; constructor|].
  cbn [fst snd] in Ew, Hsub. subst w2.
  pose proof (F2_olast _ _ _ Hsub) as Hl.
  destruct Hl as [|a b Hab].
  - specialize (IH next (pos + w1 + 1)).
    destruct (collapse_bottom s1 next (pos + w1 + 1)) as [[n1 s1'] p1],
             (collapse_bottom s2 next (pos + w1 + 1)) as [[n2 s2'] p2].
    cbn [fst snd] in *. destruct IH as (E1 & E2 & E3). subst. repeat split; auto.
    constructor; [split; [reflexivity|exact Hsub]|exact E2].
  - destruct Hab as [a b Hab|bd t'].
    + specialize (IH next (pos + w1 + 1)).
      destruct (collapse_bottom s1 next (pos + w1 + 1)) as [[n1 s1'] p1],
               (collapse_bottom s2 next (pos + w1 + 1)) as [[n2 s2'] p2].
      cbn [fst snd] in *. destruct IH as (E1 & E2 & E3). subst. repeat split; auto.
      constructor; [split; [reflexivity|exact Hsub]|exact E2].
    + specialize (IH (merge_from_above next bd pos) (pos + w1 + 1)).
      destruct (collapse_bottom s1 (merge_from_above next bd pos) (pos + w1 + 1)) as [[n1 s1'] p1],
               (collapse_bottom s2 (merge_from_above next bd pos) (pos + w1 + 1)) as [[n2 s2'] p2].
      cbn [fst snd] in *. destruct IH as (E1 & E2 & E3). subst. repeat split; auto.
      constructor; [split; [reflexivity|apply F2_removelast, Hsub]|exact E2].
Qed.

Lemma row_line_LR t draw i : forall s1 s2, Forall2 setR s1 s2 -> forall pads a1 a2, LR a1 a2 ->
  LR (row_line t draw i s1 pads a1) (row_line t draw i s2 pads a2).
Proof.
  induction 1 as [|[w1 ls1] [w2 ls2] s1 s2 [Ew Hls] Hs IH]; intros pads a1 a2 Ha;
    cbn [row_line]; [exact Ha|].
  cbn [fst snd] in Ew, Hls. subst w2. apply IH.
  assert (H1 : LR
    match nth_opt ls1 i with
    | Some (RText tl) => tl_consume a1 tl
    | Some (RLine b _) => tl_push a1 (Str (border_string b) t)
    | None => tl_push a1 (Str match match pads with p :: _ => p | [] => None end with
                              | Some p => p | None => spacesl L_pad w1 end t)
    end
    match nth_opt ls2 i with
    | Some (RText tl) => tl_consume a2 tl
    | Some (RLine b _) => tl_push a2 (Str (border_string b) t)
    | None => tl_push a2 (Str match match pads with p :: _ => p | [] => None end with
                              | Some p => p | None => spacesl L_pad w1 end t)
    end).
  { destruct (F2_nth_opt _ _ _ Hls i) as [|a b Hab].
    - apply push_LR; [exact Ha|apply ER_refl].
    - destruct Hab as [a b Hab|bd t'].
      + unfold tl_consume. apply fold_push_LR; [apply Hab|exact Ha].
      + apply push_LR; [exact Ha|apply ER_refl]. }
  destruct Hs; [exact H1|apply push_char_LR, H1].
Qed.

Lemma row_lines_SR t draw s1 s2 pads : Forall2 setR s1 s2 -> forall n i x y, SR x y ->
  SR (row_lines t draw n i s1 pads x) (row_lines t draw n i s2 pads y).
Proof.
  intros Hs. induction n as [|n IH]; intros i x y H; cbn [row_lines]; [exact H|].
  apply IH, add_line_SR; [exact H|]. constructor. apply row_line_LR; [exact Hs|apply LR_new].
Qed.

Lemma setR_heights s1 s2 : Forall2 setR s1 s2 ->
  map (fun p : N * list rline => length (snd p)) s1 = map (fun p : N * list rline => length (snd p)) s2.
Proof.
  induction 1 as [|p q s1 s2 [_ E] _ IH]; [reflexivity|]. cbn [map]. rewrite (F2_len E), IH. reflexivity.
Qed.

Lemma append_columns_SR x y us vs collapse : SR x y -> Forall2 SR us vs ->
  rr SR (append_columns_with_borders x us collapse) (append_columns_with_borders y vs collapse).
Proof.
  intros H Huv. unfold append_columns_with_borders.
  eapply rr_bind; [apply flush_wrapping_SR, H|]. intros x1 y1 H1.
  pose proof H1 as H1'. sr_destr H1'. rewrite Hann.
  eapply rr_bind; [apply col_line_sets_R, Huv|]. intros s1 s2 Hs.
  rewrite (setR_fsts _ _ Hs), (F2_len Hs).
  eapply rr_bind with (P := eq).
  { destruct Hs; cbn [rr]; reflexivity. }
  intros _ _ _.
  pose proof (F2_olast _ _ _ Hls) as Hlast.
  set (tot := sumN (map fst s2) + (N.of_nat (length s2) - 1)).
  (* the borders after joining the vertical lines *)
  assert (Hj : (match olast (slines x1) with
                | Some (RLine pb _) => let '(p, n) := join_cols (map fst s2) pb (border_new tot) 0 in (Some p, n)
                | _ => (None, border_new tot)
                end) =
               (match olast (slines y1) with
                | Some (RLine pb _) => let '(p, n) := join_cols (map fst s2) pb (border_new tot) 0 in (Some p, n)
                | _ => (None, border_new tot)
                end)).
  { destruct Hlast as [|a b Hab]; [reflexivity|]. destruct Hab; reflexivity. }
  rewrite Hj.
  destruct (match olast (slines y1) with
            | Some (RLine pb _) => let '(p, n) := join_cols (map fst s2) pb (border_new tot) 0 in (Some p, n)
            | _ => (None, border_new tot)
            end) as [prev1 next1].
  eapply rr_bind with
    (P := fun r1 r2 : option (list seg) * list seg * list (N * list rline) * list (option text) =>
            fst (fst (fst r1)) = fst (fst (fst r2)) /\ snd (fst (fst r1)) = snd (fst (fst r2)) /\
            Forall2 setR (snd (fst r1)) (snd (fst r2)) /\ snd r1 = snd r2).
  { destruct collapse.
    - eapply rr_bind; [apply collapse_top_R, Hs|]. intros [p1 t1] [p2 t2] [E Ht]. cbn [fst snd] in E, Ht.
      subst p2. destruct (collapse_bottom_R _ _ Ht next1 0) as (E1 & E2 & E3).
      destruct (collapse_bottom t1 next1 0) as [[n1 s1'] pd1],
               (collapse_bottom t2 next1 0) as [[n2 s2'] pd2].
      cbn [fst snd rr] in *. auto.
    - cbn [rr fst snd]. repeat split; auto.
      clear -Hs. induction Hs; cbn [map]; [reflexivity|]. f_equal. assumption. }
  intros [[[p1 n1] t1] pd1] [[[p2 n2] t2] pd2] (E1 & E2 & Ht & E3). cbn [fst snd] in *. subst p2 n2 pd2.
  cbn [rr].
  assert (H2 : SR (set_lines x1 match olast (slines x1), p1 with
                                | Some (RLine _ pt), Some pb => replace_last (slines x1) (RLine pb pt)
                                | _, _ => slines x1 end (pending_frags x1))
                  (set_lines y1 match olast (slines y1), p1 with
                                | Some (RLine _ pt), Some pb => replace_last (slines y1) (RLine pb pt)
                                | _, _ => slines y1 end (pending_frags y1))).
  { apply SR_set_lines; [exact H1| |exact Hpf].
    destruct Hlast as [|a b Hab]; [exact Hls|]. destruct Hab as [a b Hab|bd t']; [exact Hls|].
    destruct p1; [|exact Hls]. unfold replace_last.
    apply Forall2_app; [apply F2_removelast, Hls|]. constructor; constructor. }
  rewrite (setR_heights _ _ Ht).
  match goal with |- SR (if ?c1 then _ else _) (if ?c2 then _ else _) =>
    replace c1 with c2 by (sprj2; symmetry; apply Ho) end.
  sprj2.
  destruct (o_borders (sopts y1)).
  - apply add_line_SR; [|constructor]. apply row_lines_SR; assumption.
  - apply row_lines_SR; assumption.
Qed.

Lemma vert_cols_SR : forall us vs, Forall2 SR us vs -> forall x y first, SR x y ->
  rr SR (vert_cols x us first) (vert_cols y vs first).
Proof.
  induction 1 as [|u v us vs Huv _ IH]; intros x y first H; cbn [vert_cols]; [exact H|].
  eapply rr_bind with (P := SR).
  { pose proof H as H'. sr_destr H'. destruct Ho as (_&_&_&_&E&_). rewrite E, Hw, Hann.
    destruct (negb first && o_borders (sopts y)); [apply hline_SR, H|exact H]. }
  intros x1 y1 H1. eapply rr_bind; [apply append_subrender_SR; eassumption|].
  intros x2 y2 H2. apply IH, H2.
Qed.

Lemma append_vert_row_SR x y us vs : SR x y -> Forall2 SR us vs ->
  rr SR (append_vert_row x us) (append_vert_row y vs).
Proof.
  intros H Huv. unfold append_vert_row. eapply rr_bind; [apply flush_wrapping_SR, H|].
  intros x1 y1 H1. eapply rr_bind; [apply vert_cols_SR; eassumption|].
  intros x2 y2 H2. pose proof H2 as H2'. sr_destr H2'. destruct Ho as (_&_&_&_&E&_). rewrite E.
  destruct (o_borders (sopts y2)); [|exact H2]. unfold add_horizontal_border. rewrite Hw.
  apply hborder_SR, H2.
Qed.

Lemma sub_empty_SR u v : SR u v -> sub_empty u = sub_empty v.
Proof.
  intros H. sr_destr H. unfold sub_empty. destruct Hls; [|reflexivity].
  destruct Hwr as [|w1 w2 HW]; [reflexivity|apply WR_is_empty, HW].
Qed.

(* ---- the footnote list ---- *)
Lemma fl_chars_SR t : forall cs x y buf wl pos, SR x y ->
  SR (fst (fst (fst (fl_chars x t cs buf wl pos)))) (fst (fst (fst (fl_chars y t cs buf wl pos)))) /\
  snd (fst (fst (fl_chars x t cs buf wl pos))) = snd (fst (fst (fl_chars y t cs buf wl pos))) /\
  snd (fst (fl_chars x t cs buf wl pos)) = snd (fst (fl_chars y t cs buf wl pos)) /\
  snd (fl_chars x t cs buf wl pos) = snd (fl_chars y t cs buf wl pos).
Proof.
  induction cs as [|c cs IH]; intros x y buf wl pos H; cbn [fl_chars]; [cbn [fst snd]; auto|].
  replace (swidth_ x) with (swidth_ y) by (symmetry; apply H).
  destruct (swidth_ y <? pos + cw0 c); [|apply IH, H].
  apply IH, add_line_SR; [exact H|apply RLR_refl].
Qed.

Lemma fl_strings_SR : forall strs x y wl pos, SR x y ->
  SR (fst (fl_strings x strs wl pos)) (fst (fl_strings y strs wl pos)) /\
  snd (fl_strings x strs wl pos) = snd (fl_strings y strs wl pos).
Proof.
  induction strs as [|[str tg] strs IH]; intros x y wl pos H; cbn [fl_strings]; [cbn [fst snd]; auto|].
  pose proof H as H'. sr_destr H'. destruct Ho as (_&_&_&_&_&E&_). rewrite E, Hw.
  destruct (o_wrap_links (sopts y) && (swidth_ y <? pos + swidth (nl_to_space str))); [|apply IH, H].
  destruct (fl_chars_SR [ADefault] (nl_to_space str) x y [] wl pos H) as (G1 & G2 & G3 & G4).
  destruct (fl_chars x [ADefault] (nl_to_space str) [] wl pos) as [[[x1 b1] w1] p1],
           (fl_chars y [ADefault] (nl_to_space str) [] wl pos) as [[[y1 b2] w2] p2].
  cbn [fst snd] in *. subst. apply IH, G1.
Qed.

Lemma fmt_links_SR : forall ls x y, SR x y -> SR (fmt_links x ls) (fmt_links y ls).
Proof.
  induction ls as [|l ls IH]; intros x y H; cbn [fmt_links]; [exact H|].
  destruct (fl_strings_SR (tl_tagged_strings l) x y tl_new 0 H) as [G1 G2].
  destruct (fl_strings x (tl_tagged_strings l) tl_new 0) as [x1 w1],
           (fl_strings y (tl_tagged_strings l) tl_new 0) as [y1 w2].
  cbn [fst snd] in *. subst. apply IH, add_line_SR; [exact G1|apply RLR_refl].
Qed.

(* ================================================================== *)
(* 4. Lock-step simulation of the two runs of render_node               *)
(* ================================================================== *)
(* Compose.SimOps cannot be instantiated with SR: at filter depth 0 end_strikeout is Panic 11 in
   run 1 and Ok in run 2, so `opR SR (end_strikeout d)` is false for the (related) initial
   states.  The induction of Compose.node_sim_all is therefore repeated here for SR and the
   outcome relation rr; in the <s> case AnnBalance.render_kids_balanced shows that the children
   give the filter depth back, so that run 1 is not at depth 0 when it pops the filter. *)
Section NodeSim.
  Variable d : deco.
  Variable mw : N.

  Definition St (r1 r2 : list subr) (a b : rstate) : Prop :=
    links a = links b /\ exists s1 s2, stack a = s1 :: r1 /\ stack b = s2 :: r2 /\ SR s1 s2.

  Lemma s_with_top r1 r2 f g a b :
    (forall x y, SR x y -> rr SR (f x) (g y)) -> St r1 r2 a b ->
    rr (St r1 r2) (with_top a f) (with_top b g).
  Proof.
    intros Hf (Hl & s1 & s2 & E1 & E2 & Hs). unfold with_top. rewrite E1, E2.
    eapply rr_bind; [apply Hf, Hs|]. intros x y Hxy. cbn [rr].
    split; [exact Hl|]. exists x, y. auto.
  Qed.

  Lemma s_with_top' r1 r2 g a b :
    (forall x y, SR x y -> SR (g x) (g y)) -> St r1 r2 a b ->
    rr (St r1 r2) (with_top' a g) (with_top' b g).
  Proof. intros Hg. apply s_with_top. intros x y Hxy. cbn [rr]. apply Hg, Hxy. Qed.

  Lemma s_apply_style r1 r2 cs a b :
    St r1 r2 a b ->
    rr (fun x y => St r1 r2 (fst x) (fst y) /\ snd x = snd y) (apply_style d a cs) (apply_style d b cs).
  Proof.
    intros H. unfold apply_style.
    eapply rr_bind with (P := St r1 r2).
    { destruct (ws_val (c_colour (cs_core cs))) as [[[r g] bl]|];
        [apply s_with_top'; [apply push_colour_SR|exact H]|exact H]. }
    intros a1 b1 H1.
    eapply rr_bind with (P := St r1 r2).
    { destruct (ws_val (c_bg (cs_core cs))) as [[[r g] bl]|];
        [apply s_with_top'; [apply push_bg_SR|exact H1]|exact H1]. }
    intros a2 b2 H2.
    eapply rr_bind with (P := St r1 r2).
    { destruct (match ws_val (c_white_space (cs_core cs)) with
                | Some WsPre => Some WsPre
                | Some WsPreWrap => Some WsPreWrap
                | _ => None
                end) as [m|];
        [apply s_with_top'; [apply push_ws_SR|exact H2]|exact H2]. }
    intros a3 b3 H3.
    eapply rr_bind with (P := St r1 r2).
    { destruct (cs_internal_pre cs);
        [apply s_with_top'; [apply push_pre_SR|exact H3]|exact H3]. }
    intros a4 b4 H4. cbn [rr fst snd]. auto.
  Qed.

  Lemma s_unwind r1 r2 p a b :
    St r1 r2 a b -> rr (St r1 r2) (unwind d p a) (unwind d p b).
  Proof.
    intros H. unfold unwind.
    eapply rr_bind with (P := St r1 r2).
    { destruct (p_bg p); [apply s_with_top'; [apply pop_colour_SR|exact H]|exact H]. }
    intros a1 b1 H1.
    eapply rr_bind with (P := St r1 r2).
    { destruct (p_colour p); [apply s_with_top'; [apply pop_colour_SR|exact H1]|exact H1]. }
    intros a2 b2 H2.
    eapply rr_bind with (P := St r1 r2).
    { destruct (p_ws p); [apply s_with_top'; [apply pop_ws_SR|exact H2]|exact H2]. }
    intros a3 b3 H3.
    destruct (p_pre p); [apply s_with_top; [apply pop_pre_SR|exact H3]|exact H3].
  Qed.

  Lemma s_inline r1 r2 t a b :
    St r1 r2 a b -> rr (St r1 r2) (inline_text d a t) (inline_text d b t).
  Proof. unfold inline_text. apply s_with_top. apply add_inline_text_SR. Qed.

  Lemma s_top r1 r2 a b :
    St r1 r2 a b ->
    rr (fun x y => SR x y /\ stack a = x :: r1 /\ stack b = y :: r2) (top a) (top b).
  Proof. intros (Hl & s1 & s2 & E1 & E2 & Hs). unfold top. rewrite E1, E2. cbn [rr]. auto. Qed.

  Lemma s_push r1 r2 a b x y u v :
    links a = links b -> stack a = x :: r1 -> stack b = y :: r2 -> SR u v ->
    St (x :: r1) (y :: r2) (push_sub a u) (push_sub b v).
  Proof.
    intros Hl E1 E2 Huv. split; [exact Hl|]. exists u, v. cbn [push_sub stack].
    rewrite E1, E2. auto.
  Qed.

  Lemma s_pop r1 r2 x y a b :
    St (x :: r1) (y :: r2) a b ->
    rr (fun p q => SR (fst p) (fst q) /\ St r1 r2 (snd p) (snd q) /\ SR x y -> True) (pop_sub a) (pop_sub b).
  Proof.
    intros (Hl & s1 & s2 & E1 & E2 & Hs). unfold pop_sub. rewrite E1, E2. cbn [rr]. auto.
  Qed.

  Definition nsim (n : rnode) : Prop :=
    forall r1 r2 a b, St r1 r2 a b -> rr (St r1 r2) (render_node d mw n a) (render_node d mw n b).

  Lemma s_kids cs r1 r2 a b :
    Forall nsim cs -> St r1 r2 a b -> rr (St r1 r2) (rkids d mw cs a) (rkids d mw cs b).
  Proof.
    intros HF H. unfold rkids. apply rr_fold; [|exact H].
    intros c Hc x y Hxy. rewrite Forall_forall in HF. apply (HF c Hc), Hxy.
  Qed.

  Lemma s_wrap (f1 f2 : subr -> res subr) cs ps r1 r2 a b :
    (forall x y, SR x y -> rr SR (f1 x) (f1 y)) -> (forall x y, SR x y -> rr SR (f2 x) (f2 y)) ->
    Forall nsim cs -> St r1 r2 a b ->
    rr (St r1 r2)
      (do x <- with_top a f1; do y <- rkids d mw cs x; do z <- with_top y f2; unwind d ps z)
      (do x <- with_top b f1; do y <- rkids d mw cs x; do z <- with_top y f2; unwind d ps z).
  Proof.
    intros K1 K2 HF H.
    eapply rr_bind; [apply s_with_top; [apply K1|exact H]|]. intros x1 x2 Hx.
    eapply rr_bind; [apply s_kids; [exact HF|exact Hx]|]. intros y1 y2 Hy.
    eapply rr_bind; [apply s_with_top; [apply K2|exact Hy]|]. intros z1 z2 Hz.
    apply s_unwind, Hz.
  Qed.

  (* a prefixed block: top, width_minus, push, body, pop *)
  Lemma s_scope r1 r2 a b p mn (body : rstate -> res rstate) :
    St r1 r2 a b ->
    (forall q1 q2 a' b', St q1 q2 a' b' -> rr (St q1 q2) (body a') (body b')) ->
    forall {C1 C2} (k1 : subr * rstate -> res C1) (k2 : subr * rstate -> res C2) (Q : C1 -> C2 -> Prop),
    (forall u v a' b', SR u v -> St r1 r2 a' b' -> rr Q (k1 (u, a')) (k2 (v, b'))) ->
    rr Q
      (do tp <- top a; do w <- width_minus tp p mn;
       do st2 <- body (push_sub a (new_sub_renderer tp w)); do pp <- pop_sub st2; k1 pp)
      (do tp <- top b; do w <- width_minus tp p mn;
       do st2 <- body (push_sub b (new_sub_renderer tp w)); do pp <- pop_sub st2; k2 pp).
  Proof.
    intros H Hbody C1 C2 k1 k2 Q Hk.
    eapply rr_bind; [apply s_top, H|]. intros x y (Hxy & E1 & E2).
    rewrite (width_minus_SR x y p mn Hxy). apply rr_same. intros w _.
    eapply rr_bind.
    { apply Hbody. apply s_push; [exact (proj1 H)|exact E1|exact E2|]. apply new_sub_SR, Hxy. }
    intros a2 b2 (Hl & s1 & s2 & F1 & F2 & Hs). unfold pop_sub. rewrite F1, F2. cbn [bind].
    apply Hk; [exact Hs|]. split; [exact Hl|]. exists x, y. cbn [stack]. auto.
  Qed.

  Lemma s_cells : forall cells wsl r1 r2 a b us vs,
    Forall (fun c => Forall nsim (cell_content c)) cells ->
    St r1 r2 a b -> Forall2 SR us vs ->
    rr (fun p q => St r1 r2 (fst p) (fst q) /\ Forall2 SR (snd p) (snd q))
       (cells_loop d mw cells wsl a us) (cells_loop d mw cells wsl b vs).
  Proof.
    induction cells as [|[n content csty] cells IH]; intros wsl r1 r2 a b us vs HF H Huv;
      cbn [cells_loop].
    - cbn [rr fst snd]. auto.
    - inversion HF as [|? ? HF1 HF2]; subst. cbn [cell_content] in HF1.
      destruct wsl as [|[w|] wsl]; [cbn [rr fst snd]; auto| |].
      + eapply rr_bind; [apply s_top, H|]. intros x y (Hxy & E1 & E2).
        assert (Hp : St (x :: r1) (y :: r2) (push_sub a (new_sub_renderer x w))
                        (push_sub b (new_sub_renderer y w))).
        { apply s_push; [exact (proj1 H)|exact E1|exact E2|]. apply new_sub_SR, Hxy. }
        eapply rr_bind; [apply s_apply_style, Hp|].
        intros [a4 p4] [b4 q4] [H4 Epq]. cbn [fst snd] in H4, Epq. subst q4.
        eapply rr_bind; [apply (s_kids content); [exact HF1|exact H4]|]. intros a5 b5 H5.
        eapply rr_bind; [apply s_unwind, H5|]. intros a6 b6 (Hl & s1 & s2 & F1 & F2 & Hs).
        unfold pop_sub. rewrite F1, F2. cbn [bind].
        apply IH; auto.
        * split; [exact Hl|]. exists x, y. cbn [stack]. auto.
        * apply Forall2_app; auto.
      + apply IH; auto.
  Qed.

  Lemma s_row vr col_widths r r1 r2 a b :
    Forall (fun c => Forall nsim (cell_content c)) (row_cells r) ->
    St r1 r2 a b ->
    rr (St r1 r2) (row_body d mw vr col_widths r a) (row_body d mw vr col_widths r b).
  Proof.
    intros HF H. destruct r as [rcells rstyle]. cbn [row_cells] in HF. unfold row_body.
    eapply rr_bind; [apply s_apply_style, H|].
    intros [a1 p1] [b1 q1] [H1 Epq]. cbn [fst snd] in H1, Epq. subst q1.
    apply rr_same. intros cws _.
    eapply rr_bind; [apply (s_cells rcells cws r1 r2 a1 b1 [] []); auto|].
    intros [a8 us] [b8 vs] [H8 Huv]. cbn [fst snd] in H8, Huv.
    eapply rr_bind with (P := St r1 r2).
    { destruct vr.
      - apply s_with_top; [|exact H8]. intros x y Hxy. apply append_vert_row_SR; assumption.
      - assert (Ee : existsb (fun c => negb (sub_empty c)) us = existsb (fun c => negb (sub_empty c)) vs).
        { clear -Huv. induction Huv as [|u v us vs Huv1 _ IH]; [reflexivity|].
          cbn [existsb]. rewrite IH, (sub_empty_SR u v Huv1). reflexivity. }
        rewrite Ee. destruct (existsb (fun c => negb (sub_empty c)) vs); [|exact H8].
        apply s_with_top; [|exact H8]. intros x y Hxy. apply append_columns_SR; assumption. }
    intros a9 b9 H9. apply s_unwind, H9.
  Qed.

  Lemma start_strikeout_depth s s' :
    start_strikeout d s = Ok s' -> o_strike (sopts s') = true -> filter_depth s' <> O.
  Proof.
    unfold start_strikeout. intros H. bind_inv H s1 H1. ok_inv H.
    destruct (o_strike (sopts s1)) eqn:E; [cbn; discriminate|]. congruence.
  Qed.

  Lemma nsim_all : forall n, nsim n.
  Proof.
    apply rnode_ind'. intros i sty IH r1 r2 a b Hab.
    destruct i; cbn [direct_kids] in IH; cbn [render_node rn_info rn_style];
      (apply rr_same; intros sz _);
      (eapply rr_bind; [apply s_apply_style, Hab|]);
      intros [a1 p1] [b1 q1] [H1 Epq]; cbn [fst snd] in H1, Epq; subst q1.
    - (* IText *)
      eapply rr_bind; [apply s_inline, H1|]. intros; apply s_unwind; assumption.
    - (* IContainer *)
      eapply rr_bind; [apply (s_kids cs); [exact IH|exact H1]|].
      intros; apply s_unwind; assumption.
    - (* ILink *)
      assert (H1' : St r1 r2 (mkrst (stack a1) (links a1 ++ [href]))
                              (mkrst (stack b1) (links b1 ++ [href]))).
      { destruct H1 as (Hl & s1 & s2 & E1 & E2 & Hs). split; [cbn [links]; congruence|].
        exists s1, s2. cbn [stack]. auto. }
      eapply rr_bind; [apply s_with_top; [intros x y; apply start_deco_SR|exact H1']|].
      intros a2 b2 H2.
      eapply rr_bind; [apply (s_kids cs); [exact IH|exact H2]|]. intros a3 b3 H3.
      eapply rr_bind; [apply s_with_top; [intros x y; apply end_deco_SR|exact H3]|].
      intros a4 b4 H4.
      eapply rr_bind; [apply s_top, H4|]. intros x y (Hxy & E1 & E2).
      assert (Ef : o_footnotes (sopts x) = o_footnotes (sopts y)).
      { pose proof Hxy as Hxy'. sr_destr Hxy'. apply Ho. }
      rewrite Ef, (proj1 H4).
      eapply rr_bind with (P := St r1 r2).
      { destruct (o_footnotes (sopts y)); [apply s_inline, H4|exact H4]. }
      intros; apply s_unwind; assumption.
    - (* IEm *) apply s_wrap; auto; intros x y; [apply start_deco_SR|apply end_deco_SR].
    - (* IStrong *) apply s_wrap; auto; intros x y; [apply start_deco_SR|apply end_deco_SR].
    - (* IStrikeout *)
      eapply rr_bind'; [apply s_with_top; [apply start_strikeout_SR|exact H1]|].
      intros x1 x2 Ex1 Ex2 Hx.
      eapply rr_bind'; [apply s_kids; [exact IH|exact Hx]|]. intros y1 y2 Ey1 Ey2 Hy.
      eapply rr_bind; [|intros; apply s_unwind; eassumption].
      (* the top sub-renderer of run 1 after the children: the filter depth of x1's *)
      destruct H1 as (_ & s0 & _ & E0 & _). unfold with_top in Ex1. rewrite E0 in Ex1.
      bind_inv Ex1 s0' Hs0'. ok_inv Ex1.
      destruct (AnnBalance.render_kids_balanced d mw cs _ y1 s0' r1 Ey1 eq_refl) as (s' & Es' & Em).
      pose proof Hy as (Hl & t1 & t2 & F1 & F2 & Ht). rewrite Es' in F1. injection F1 as <-.
      unfold with_top. rewrite Es', F2.
      eapply rr_bind.
      { apply end_strikeout_SR; [exact Ht|]. intros Eo.
        unfold AnnBalance.meta_of in Em. injection Em as _ M2 _ M4 _ _. rewrite M4.
        apply (start_strikeout_depth _ _ Hs0'). rewrite <- M2. exact Eo. }
      intros z1 z2 Hz. cbn [rr]. split; [exact Hl|]. exists z1, z2. cbn [stack]. auto.
    - (* ICode *) apply s_wrap; auto; intros x y; [apply start_deco_SR|apply end_deco_SR].
    - (* IImg *)
      eapply rr_bind; [apply s_with_top; [intros x y; apply add_image_SR|exact H1]|].
      intros; apply s_unwind; assumption.
    - (* IBlock *)
      apply (s_wrap start_block (fun s => Ok (end_block s))); auto; [apply start_block_SR|].
      intros x y Hxy. cbn [rr]. apply end_block_SR, Hxy.
    - (* IHeader *)
      destruct (negb (swidth (d_header_prefix d level) =? e_prefix sz)); [reflexivity|].
      apply (s_scope r1 r2 a1 b1 _ _ (rkids d mw cs)); [exact H1| |].
      { intros; apply s_kids; assumption. }
      intros u v a3 b3 Huv H3.
      eapply rr_bind; [apply s_with_top; [apply start_block_SR|exact H3]|].
      intros a4 b4 H4.
      eapply rr_bind; [apply s_with_top; [|exact H4]|].
      { intros x y Hxy. apply append_subrender_SR; assumption. }
      intros a5 b5 H5.
      eapply rr_bind; [apply s_with_top'; [apply end_block_SR|exact H5]|].
      intros; apply s_unwind; assumption.
    - (* IDiv *)
      apply s_wrap; auto; apply new_line_SR.
    - (* IBlockQuote *)
      destruct (negb (e_prefix sz =? swidth (d_quote_prefix d))); [reflexivity|].
      apply rr_same. intros iw _.
      apply (s_scope r1 r2 a1 b1 _ _ (rkids d mw cs)); [exact H1| |].
      { intros; apply s_kids; assumption. }
      intros u v a3 b3 Huv H3.
      eapply rr_bind; [apply s_with_top; [apply start_block_SR|exact H3]|].
      intros a4 b4 H4.
      eapply rr_bind; [apply s_with_top; [|exact H4]|].
      { intros x y Hxy. apply append_subrender_SR; assumption. }
      intros a5 b5 H5.
      eapply rr_bind; [apply s_with_top'; [apply end_block_SR|exact H5]|].
      intros; apply s_unwind; assumption.
    - (* IUl *)
      eapply rr_bind with (P := St r1 r2); [|intros; apply s_unwind; assumption].
      apply (rr_fold (St r1 r2)
               (fun item s =>
                  do inner_width <- usub 22 (e_min sz) (swidth (d_ul_prefix d));
                  do tp <- top s;
                  do w <- width_minus tp (swidth (d_ul_prefix d)) inner_width;
                  do s2 <- render_node d mw item (push_sub s (new_sub_renderer tp w));
                  do pp <- pop_sub s2;
                  let '(sub, s3) := pp in
                  with_top s3 (fun t => append_subrender t sub (d_ul_prefix d)
                     (repeat_chr (spacel L_prefix) (N.to_nat (swidth (d_ul_prefix d))))))
               _ cs); [|exact H1].
      intros item Hitem x y Hxy.
      apply rr_same. intros iw _.
      apply (s_scope r1 r2 x y _ _ (render_node d mw item)); [exact Hxy| |].
      { rewrite Forall_forall in IH. exact (IH item Hitem). }
      intros u v a3 b3 Huv H3. apply s_with_top; [|exact H3].
      intros x' y' Hxy'. apply append_subrender_SR; assumption.
    - (* IOl *)
      eapply rr_bind with (P := fun p q => St r1 r2 (fst p) (fst q) /\ snd p = snd q);
        [|intros p q [Hpq _]; apply s_unwind; exact Hpq].
      set (pw := N.max (swidth (d_ol_prefix d start))
                       (swidth (d_ol_prefix d (isat64 (isat64 (start + Z.of_nat (length cs)) - 1))))).
      apply (rr_fold (fun p q => St r1 r2 (fst p) (fst q) /\ snd p = snd q)
               (ol_step d mw sz pw) (ol_step d mw sz pw) cs); [|cbn [rr fst snd]; auto].
      intros item Hitem [x ix] [y iy] [Hxy Ei]. cbn [fst snd] in Hxy, Ei. subst iy.
      unfold ol_step.
      apply rr_same. intros iw _.
      apply (s_scope r1 r2 x y _ _ (render_node d mw item)); [exact Hxy| |].
      { rewrite Forall_forall in IH. exact (IH item Hitem). }
      intros u v a3 b3 Huv H3.
      eapply rr_bind; [apply s_with_top; [|exact H3]|].
      { intros x' y' Hxy'. apply append_subrender_SR; assumption. }
      intros a4 b4 H4. cbn [rr fst snd]. auto.
    - (* IDl *)
      eapply rr_bind; [apply s_with_top; [apply start_block_SR|exact H1]|].
      intros a2 b2 H2.
      eapply rr_bind; [apply (s_kids cs); [exact IH|exact H2]|].
      intros; apply s_unwind; assumption.
    - (* IDt *)
      eapply rr_bind; [apply s_with_top; [apply new_line_SR|exact H1]|].
      intros a2 b2 H2.
      apply s_wrap; auto; intros x y; [apply start_deco_SR|apply end_deco_SR].
    - (* IDd *)
      apply rr_same. intros iw _.
      apply (s_scope r1 r2 a1 b1 _ _ (rkids d mw cs)); [exact H1| |].
      { intros; apply s_kids; assumption. }
      intros u v a3 b3 Huv H3.
      eapply rr_bind; [apply s_with_top; [|exact H3]|].
      { intros x y Hxy. apply append_subrender_SR; assumption. }
      intros; apply s_unwind; assumption.
    - (* IBreak *)
      eapply rr_bind; [apply s_with_top; [apply new_line_hard_SR|exact H1]|].
      intros; apply s_unwind; assumption.
    - (* ITable *)
      apply rr_same. intros col_sizes _.
      eapply rr_bind; [apply s_top, H1|]. intros x y (Hxy & E1 & E2).
      assert (Eo : swidth_ x = swidth_ y /\ o_raw (sopts x) = o_raw (sopts y) /\
                   o_borders (sopts x) = o_borders (sopts y)).
      { pose proof Hxy as Hxy'. sr_destr Hxy'. split; [exact Hw|]. split; apply Ho. }
      destruct Eo as (Ew & Eraw & Ebord). rewrite Ew, Eraw, Ebord.
      set (vr := o_raw (sopts y)
                 || ((swidth_ y <? sumN (map e_min col_sizes) + (N.of_nat (length col_sizes) - 1))
                     || (swidth_ y =? 0))).
      apply rr_same. intros col_widths _.
      eapply rr_bind; [apply s_with_top; [apply start_block_SR|exact H1]|].
      intros a2 b2 H2.
      eapply rr_bind with (P := St r1 r2).
      { match goal with |- rr _ (if ?c then _ else _) _ => destruct c end; [|exact H2].
        apply s_with_top; [apply hborder_SR|exact H2]. }
      intros a3 b3 H3.
      eapply rr_bind with (P := St r1 r2); [|intros; apply s_unwind; assumption].
      apply (rr_fold (St r1 r2) (row_body d mw vr col_widths) (row_body d mw vr col_widths) rows);
        [|exact H3].
      intros r Hr a' b' H'.
      apply Forall_flat_map in IH. rewrite Forall_forall in IH. specialize (IH r Hr).
      unfold row_kids in IH. apply Forall_flat_map in IH.
      apply (s_row vr col_widths r r1 r2 a' b' IH H').
    - (* ITableBody *) reflexivity.
    - (* ITableRow *) reflexivity.
    - (* ITableCell *) reflexivity.
    - (* IFragStart *)
      eapply rr_bind; [apply s_with_top'; [apply record_frag_SR|exact H1]|].
      intros; apply s_unwind; assumption.
    - (* IListItem *)
      apply (s_wrap start_block (fun s => Ok (end_block s))); auto; [apply start_block_SR|].
      intros x y Hxy. cbn [rr]. apply end_block_SR, Hxy.
    - (* ISup *)
      destruct (sup_digits cs) as [digitstr|].
      + eapply rr_bind; [apply s_inline, H1|]. intros; apply s_unwind; assumption.
      + apply s_wrap; auto; intros x y; [apply start_deco_SR|apply end_deco_SR].
  Qed.
End NodeSim.

(* ================================================================== *)
(* 5. render_tree                                                       *)
(* ================================================================== *)
Lemma sub_new_SR width o1 o2 : OR o1 o2 -> SR (sub_new width o1) (sub_new width o2).
Proof. intros H. sr_split; constructor. Qed.

Lemma render_tree_rr d mw o1 o2 width tree : OR o1 o2 ->
  rr SR (render_tree d mw o1 width tree) (render_tree d mw o2 width tree).
Proof.
  intros Ho. unfold render_tree. apply rr_same. intros e _.
  eapply rr_bind.
  { apply (nsim_all d mw tree [] []). split; [reflexivity|].
    exists (sub_new width o1), (sub_new width o2). cbn [stack]. split; [reflexivity|].
    split; [reflexivity|]. apply sub_new_SR, Ho. }
  intros a b (Hl & s1 & s2 & E1 & E2 & Hs). rewrite E1, E2, Hl.
  unfold sub_finalise.
  assert (Ef : o_footnotes (sopts s1) = o_footnotes (sopts s2)).
  { pose proof Hs as Hs'. sr_destr Hs'. apply Ho0. }
  rewrite Ef.
  destruct (if o_footnotes (sopts s2) then finalise_from 1 (links b) else []) as [|l ls]; [exact Hs|].
  eapply rr_bind; [apply start_block_SR, Hs|]. intros x y Hxy. cbn [rr]. apply fmt_links_SR, Hxy.
Qed.

(* the rendered lines of a run (what the routes return, before the conversion to tagged lines) *)
Definition lines_of (d : deco) (mw : N) (o : ropts) (width : N) (tree : rnode) : res (list rline) :=
  do s <- render_tree d mw o width tree; sub_into_lines s.

Lemma lines_of_rr d mw o1 o2 width tree : OR o1 o2 ->
  rr (Forall2 RLR) (lines_of d mw o1 width tree) (lines_of d mw o2 width tree).
Proof.
  intros Ho. unfold lines_of. eapply rr_bind; [apply render_tree_rr, Ho|]. apply sub_into_lines_SR.
Qed.

(* ---- what the relation between the lines says ---- *)
(* (a) strings: the line of run 1 is the line of run 2 with marks inserted *)
Lemma VR_text v1 v2 : VR v1 v2 -> ins (flat_map elem_text v1) (flat_map elem_text v2).
Proof.
  induction 1 as [|e1 e2 v1 v2 He _ IH]; [constructor|]. cbn [flat_map].
  apply ins_app; [|exact IH]. destruct He; cbn [elem_text]; [assumption|constructor].
Qed.

Lemma RLR_string l1 l2 : RLR l1 l2 -> ins (rline_string l1) (rline_string l2).
Proof. destruct 1 as [a b [Hv _]|]; cbn [rline_string]; [apply VR_text, Hv|apply ins_refl]. Qed.

(* (b) the same display width (the mark has width 0), the same number of lines *)
Lemma RLR_width l1 l2 : RLR l1 l2 -> rline_width l1 = rline_width l2.
Proof.
  destruct 1 as [a b [Hv _]|]; cbn [rline_width]; [|reflexivity].
  unfold tl_width_raw. apply VR_width_raw, Hv.
Qed.

Lemma lines_widths ls1 ls2 : Forall2 RLR ls1 ls2 -> map rline_width ls1 = map rline_width ls2.
Proof. induction 1 as [|a b l1 l2 Hab _ IH]; [reflexivity|]. cbn [map]. rewrite (RLR_width _ _ Hab), IH. reflexivity. Qed.

(* (c) deleting the marks.  `mark` is any set of characters that contains U+0336 as made by the
   renderer (Sub.strike_chr), e.g. is_strike_mark below (every character with code point 822). *)
Definition is_strike_mark (c : chr) : bool := cp c =? 822.

Section Del.
  Variable mark : chr -> bool.
  Hypothesis mark_strike : mark strike_chr = true.

  Definition del (t : text) : text := filter (fun c => negb (mark c)) t.
  Definition del_elem (e : elem) : elem :=
    match e with Str s t => Str (del s) t | Frag n => Frag n end.
  Definition del_tline (l : tline) : tline := mktl (map del_elem (tv l)) (tlen_ l).
  Definition del_rline (r : rline) : rline :=
    match r with RText l => RText (del_tline l) | RLine b t => RLine b t end.

  Lemma del_marks k t : del (repeat strike_chr k ++ t) = del t.
  Proof. induction k as [|k IH]; [reflexivity|]. cbn [repeat app]. unfold del in *. cbn [filter]. rewrite mark_strike. exact IH. Qed.

  Lemma ins_del t1 t2 : ins t1 t2 -> del t1 = del t2.
  Proof.
    induction 1 as [|c k t1 t2 _ _ IH]; [reflexivity|].
    unfold del. cbn [filter]. fold (del (repeat strike_chr k ++ t1)) (del t2).
    rewrite del_marks, IH. reflexivity.
  Qed.

  Lemma ER_del e1 e2 : ER e1 e2 -> del_elem e1 = del_elem e2.
  Proof. destruct 1 as [s1 s2 t Hs|n]; cbn [del_elem]; [rewrite (ins_del _ _ Hs)|]; reflexivity. Qed.

  Lemma LR_del l1 l2 : LR l1 l2 -> del_tline l1 = del_tline l2.
  Proof.
    intros [Hv Hl]. unfold del_tline. rewrite Hl. f_equal.
    induction Hv as [|e1 e2 v1 v2 He _ IH]; [reflexivity|]. cbn [map]. rewrite (ER_del _ _ He), IH. reflexivity.
  Qed.

  Lemma RLR_del r1 r2 : RLR r1 r2 -> del_rline r1 = del_rline r2.
  Proof. destruct 1 as [a b Hab|]; cbn [del_rline]; [rewrite (LR_del _ _ Hab)|]; reflexivity. Qed.

  Lemma lines_del ls1 ls2 : Forall2 RLR ls1 ls2 -> map del_rline ls1 = map del_rline ls2.
  Proof. induction 1 as [|a b l1 l2 Hab _ IH]; [reflexivity|]. cbn [map]. rewrite (RLR_del _ _ Hab), IH. reflexivity. Qed.

  Lemma tlines_del ls1 ls2 : Forall2 LR ls1 ls2 -> map del_tline ls1 = map del_tline ls2.
  Proof. induction 1 as [|a b l1 l2 Hab _ IH]; [reflexivity|]. cbn [map]. rewrite (LR_del _ _ Hab), IH. reflexivity. Qed.

  (* nothing to delete in a text / line without marks *)
  Definition nomark (t : text) : bool := forallb (fun c => negb (mark c)) t.
  Definition nomark_elem (e : elem) : bool := match e with Str s _ => nomark s | Frag _ => true end.
  Definition nomark_tline (l : tline) : bool := forallb nomark_elem (tv l).
  Definition nomark_rline (r : rline) : bool :=
    match r with RText l => nomark_tline l | RLine _ _ => true end.

  Lemma del_nomark t : nomark t = true -> del t = t.
  Proof.
    unfold nomark, del. induction t as [|c t IH]; cbn [forallb filter]; [reflexivity|].
    intros H. apply andb_true_iff in H. destruct H as [H1 H2]. rewrite H1, (IH H2). reflexivity.
  Qed.

  Lemma del_tline_nomark l : nomark_tline l = true -> del_tline l = l.
  Proof.
    unfold nomark_tline, del_tline. destruct l as [v n]. cbn [tv tlen_]. intros H. f_equal.
    induction v as [|e v IH]; [reflexivity|]. cbn [forallb map] in *.
    apply andb_true_iff in H. destruct H as [H1 H2]. rewrite (IH H2). f_equal.
    destruct e; cbn [del_elem nomark_elem] in *; [rewrite (del_nomark _ H1)|]; reflexivity.
  Qed.

  Lemma del_rline_nomark r : nomark_rline r = true -> del_rline r = r.
  Proof. destruct r; cbn [nomark_rline del_rline]; [intros H; rewrite (del_tline_nomark _ H)|]; reflexivity. Qed.

  Lemma del_lines_nomark ls : forallb nomark_rline ls = true -> map del_rline ls = ls.
  Proof.
    induction ls as [|r ls IH]; [reflexivity|]. cbn [forallb map]. intros H.
    apply andb_true_iff in H. destruct H as [H1 H2]. rewrite (del_rline_nomark _ H1), (IH H2). reflexivity.
  Qed.

  Lemma del_tlines_nomark ls : forallb nomark_tline ls = true -> map del_tline ls = ls.
  Proof.
    induction ls as [|r ls IH]; [reflexivity|]. cbn [forallb map]. intros H.
    apply andb_true_iff in H. destruct H as [H1 H2]. rewrite (del_tline_nomark _ H1), (IH H2). reflexivity.
  Qed.
End Del.

(* ---- the options ---- *)
Definition same_but_strike (o1 o2 : ropts) : Prop :=
  wrap_width o1 = wrap_width o2 /\ o_allow_overflow o1 = o_allow_overflow o2 /\
  o_pad o1 = o_pad o2 /\ o_raw o1 = o_raw o2 /\ o_borders o1 = o_borders o2 /\
  o_wrap_links o1 = o_wrap_links o2 /\ o_footnotes o1 = o_footnotes o2.

Lemma OR_of o1 o2 : same_but_strike o1 o2 -> o_strike o2 = false -> OR o1 o2.
Proof. intros (E1&E2&E3&E4&E5&E6&E7) Es. unfold OR. repeat split; assumption. Qed.

(* ================================================================== *)
(* 6. MAIN THEOREMS (render tree level)                                 *)
(* ================================================================== *)
(* o1, o2: equal except for the unicode-strikeout option, which is off in o2 (on or off in o1);
   width overflow allowed or not (since change (A) of the model: the overflow branch of the hard
   wrap keeps a character and the zero-width characters after it together); the run without marks
   does not exhaust the model's loop fuel (true for every well-formed tree: corollaries _wf,
   from RenderTotal).  Then the two runs have the same outcome kind (Ok / TooNarrow / the same
   Panic site) and, when Ok, sub-renderers related by SR: line by line, piece by piece, the
   same tags and cached lengths, each string of run 1 = the string of run 2 with strike marks
   inserted after non-whitespace characters of positive width. *)
Theorem c15_strike_render d mw o1 o2 width tree :
  same_but_strike o1 o2 -> o_strike o2 = false ->
  render_tree d mw o2 width tree <> OutOfFuel ->
  res_rel SR (render_tree d mw o1 width tree) (render_tree d mw o2 width tree).
Proof.
  intros Hs Es Hf. apply rr_res_rel; [exact Hf|]. apply render_tree_rr, OR_of; assumption.
Qed.
Print Assumptions c15_strike_render.

Theorem c15_strike_lines d mw o1 o2 width tree :
  same_but_strike o1 o2 -> o_strike o2 = false ->
  lines_of d mw o2 width tree <> OutOfFuel ->
  res_rel (Forall2 RLR) (lines_of d mw o1 width tree) (lines_of d mw o2 width tree).
Proof.
  intros Hs Es Hf. apply rr_res_rel; [exact Hf|]. apply lines_of_rr, OR_of; assumption.
Qed.
Print Assumptions c15_strike_lines.

(* the checker relation: the same outcome; when Ok, the same number of lines, the same widths,
   every line of run 1 is the line of run 2 with marks inserted, and after deleting the marks
   (any set `mark` of characters containing Sub.strike_chr) from both the lines are EQUAL --
   from run 1 only when run 2's output contains no such character *)
Definition lines_rel (mark : chr -> bool) (ls1 ls2 : list rline) : Prop :=
  length ls1 = length ls2 /\ map rline_width ls1 = map rline_width ls2 /\
  Forall2 (fun l1 l2 => ins (rline_string l1) (rline_string l2)) ls1 ls2 /\
  map (del_rline mark) ls1 = map (del_rline mark) ls2 /\
  (forallb (nomark_rline mark) ls2 = true -> map (del_rline mark) ls1 = ls2).

Lemma lines_rel_of mark ls1 ls2 : mark strike_chr = true -> Forall2 RLR ls1 ls2 -> lines_rel mark ls1 ls2.
Proof.
  intros Hm H. unfold lines_rel. split; [apply (F2_len H)|]. split; [apply lines_widths, H|].
  split; [|split].
  - induction H; constructor; [apply RLR_string|]; assumption.
  - apply lines_del; assumption.
  - intros Hn. rewrite (lines_del mark Hm _ _ H). apply del_lines_nomark, Hn.
Qed.

Theorem c15_strike_deleted d mw o1 o2 width tree mark :
  mark strike_chr = true ->
  same_but_strike o1 o2 -> o_strike o2 = false ->
  lines_of d mw o2 width tree <> OutOfFuel ->
  res_rel (lines_rel mark) (lines_of d mw o1 width tree) (lines_of d mw o2 width tree).
Proof.
  intros Hm Hs Es Hf. eapply res_rel_impl; [|apply c15_strike_lines; eassumption].
  intros ls1 ls2. apply lines_rel_of, Hm.
Qed.
Print Assumptions c15_strike_deleted.

(* for well-formed trees (RenderTotal.tree_wf, decidable) no fuel hypothesis is needed *)
Lemma lines_of_fuel d mw o width tree :
  width < usize_max -> RenderTotal.tree_wf d mw tree = true -> lines_of d mw o width tree <> OutOfFuel.
Proof.
  intros Hw Hwf. pose proof (RenderTotal.c01_render_tree_total d mw o width tree Hw Hwf) as H.
  unfold lines_of. destruct (render_tree d mw o width tree) as [s| | |]; cbn [bind]; try discriminate;
    try contradiction.
  destruct H as [H _]. unfold RenderTotal.okish in H. destruct (sub_into_lines s); cbn in H;
    try discriminate; contradiction.
Qed.

Corollary c15_strike_deleted_wf d mw o1 o2 width tree mark :
  mark strike_chr = true ->
  same_but_strike o1 o2 -> o_strike o2 = false ->
  width < usize_max -> RenderTotal.tree_wf d mw tree = true ->
  res_rel (lines_rel mark) (lines_of d mw o1 width tree) (lines_of d mw o2 width tree).
Proof.
  intros Hm Hs Es Hw Hwf. apply c15_strike_deleted; try assumption. apply lines_of_fuel; assumption.
Qed.
Print Assumptions c15_strike_deleted_wf.

(* ================================================================== *)
(* 7. The routes of Api.v                                               *)
(* ================================================================== *)
Definition tlines_rel (mark : chr -> bool) (ls1 ls2 : list tline) : Prop :=
  length ls1 = length ls2 /\ map tl_width_raw ls1 = map tl_width_raw ls2 /\
  Forall2 LR ls1 ls2 /\
  map (del_tline mark) ls1 = map (del_tline mark) ls2 /\
  (forallb (nomark_tline mark) ls2 = true -> map (del_tline mark) ls1 = ls2).

Definition string_rel (mark : chr -> bool) (s1 s2 : text) : Prop :=
  ins s1 s2 /\ swidth s1 = swidth s2 /\ del mark s1 = del mark s2 /\
  (nomark mark s2 = true -> del mark s1 = s2).

Lemma RLR_into_tagged l1 l2 : RLR l1 l2 -> LR (rline_into_tagged l1) (rline_into_tagged l2).
Proof. destruct 1 as [a b Hab|]; cbn [rline_into_tagged]; [exact Hab|apply LR_refl]. Qed.

Lemma tlines_rel_of mark ls1 ls2 : mark strike_chr = true -> Forall2 LR ls1 ls2 -> tlines_rel mark ls1 ls2.
Proof.
  intros Hm H. unfold tlines_rel. split; [apply (F2_len H)|]. split; [|split; [exact H|split]].
  - induction H as [|a b l1 l2 [Hv _] _ IH]; [reflexivity|]. cbn [map]. rewrite IH. f_equal.
    unfold tl_width_raw. apply VR_width_raw, Hv.
  - apply tlines_del; assumption.
  - intros Hn. rewrite (tlines_del mark Hm _ _ H). apply del_tlines_nomark, Hn.
Qed.

Lemma string_rel_of mark s1 s2 : mark strike_chr = true -> ins s1 s2 -> string_rel mark s1 s2.
Proof.
  intros Hm H. split; [exact H|]. split; [apply ins_swidth, H|]. split; [apply ins_del; assumption|].
  intros Hn. rewrite (ins_del mark Hm _ _ H). apply del_nomark, Hn.
Qed.

Lemma sub_into_string_SR x y : SR x y -> rr ins (sub_into_string x) (sub_into_string y).
Proof.
  intros H. unfold sub_into_string. eapply rr_bind; [apply sub_into_lines_SR, H|].
  intros l1 l2 Hl. cbn [rr]. induction Hl as [|a b l1 l2 Hab _ IH]; [constructor|].
  cbn [flat_map]. apply ins_app; [|exact IH]. apply ins_app; [apply RLR_string, Hab|apply ins_refl].
Qed.

Section RoutesS.
  Variable inl : list (text * text) -> res (list styledecl).
  Variable dr : list node -> res (list ruleset).

  Lemma to_render_tree_strike c b doc :
    to_render_tree inl dr (set_strike c b) doc = to_render_tree inl dr c doc.
  Proof. reflexivity. Qed.

  Lemma render_options_OR c : OR (render_options c) (render_options (set_strike c false)).
  Proof. unfold OR, render_options, set_strike. cbn. repeat split; auto. Qed.

  Lemma render_with_context_rr c tree w :
    rr SR (render_with_context c tree w) (render_with_context (set_strike c false) tree w).
  Proof.
    unfold render_with_context. destruct (w =? 0); [reflexivity|].
    change (c_deco (set_strike c false)) with (c_deco c).
    change (c_min_wrap (set_strike c false)) with (c_min_wrap c).
    apply render_tree_rr, render_options_OR.
  Qed.

  Lemma lines_from_read_rr c doc w :
    rr (Forall2 LR) (lines_from_read inl dr c doc w) (lines_from_read inl dr (set_strike c false) doc w).
  Proof.
    unfold lines_from_read. rewrite to_render_tree_strike. apply rr_same. intros tree _.
    eapply rr_bind; [apply render_with_context_rr|]. intros x y Hxy.
    eapply rr_bind; [apply sub_into_lines_SR, Hxy|]. intros l1 l2 Hl. cbn [rr].
    induction Hl; cbn [map]; constructor; [apply RLR_into_tagged|]; assumption.
  Qed.

  Lemma string_from_read_rr c doc w :
    rr ins (string_from_read inl dr c doc w) (string_from_read inl dr (set_strike c false) doc w).
  Proof.
    unfold string_from_read. rewrite to_render_tree_strike. apply rr_same. intros tree _.
    eapply rr_bind; [apply render_with_context_rr|]. apply sub_into_string_SR.
  Qed.

  (* c: any configuration (unicode strikeout on or off, width overflow allowed or not);
     set_strike c false: the same with unicode strikeout off *)
  Theorem c15_strike_lines_from_read c doc w mark :
    mark strike_chr = true ->
    lines_from_read inl dr (set_strike c false) doc w <> OutOfFuel ->
    res_rel (tlines_rel mark) (lines_from_read inl dr c doc w)
                              (lines_from_read inl dr (set_strike c false) doc w).
  Proof.
    intros Hm Hf. apply rr_res_rel; [exact Hf|]. eapply rr_impl; [|apply lines_from_read_rr].
    intros a b. apply tlines_rel_of, Hm.
  Qed.

  Theorem c15_strike_string_from_read c doc w mark :
    mark strike_chr = true ->
    string_from_read inl dr (set_strike c false) doc w <> OutOfFuel ->
    res_rel (string_rel mark) (string_from_read inl dr c doc w)
                              (string_from_read inl dr (set_strike c false) doc w).
  Proof.
    intros Hm Hf. apply rr_res_rel; [exact Hf|]. eapply rr_impl; [|apply string_from_read_rr].
    intros a b. apply string_rel_of, Hm.
  Qed.

  (* without the fuel hypothesis when the render tree of the document is well formed *)
  Corollary c15_strike_routes_wf c doc w tree mark :
    mark strike_chr = true -> w < usize_max ->
    to_render_tree inl dr c doc = Ok tree ->
    RenderTotal.tree_wf (c_deco c) (c_min_wrap c) tree = true ->
    res_rel (tlines_rel mark) (lines_from_read inl dr c doc w)
                              (lines_from_read inl dr (set_strike c false) doc w) /\
    res_rel (string_rel mark) (string_from_read inl dr c doc w)
                              (string_from_read inl dr (set_strike c false) doc w).
  Proof.
    intros Hm Hw Ht Hwf.
    destruct (RenderTotal.c01_routes_given_tree inl dr (set_strike c false) doc w tree Hw Ht Hwf)
      as [K1 K2].
    split; [apply c15_strike_lines_from_read|apply c15_strike_string_from_read]; try assumption.
    - intros E. rewrite E in K1. exact K1.
    - intros E. rewrite E in K2. exact K2.
  Qed.
End RoutesS.
Print Assumptions c15_strike_lines_from_read.
Print Assumptions c15_strike_string_from_read.
Print Assumptions c15_strike_routes_wf.

(* ================================================================== *)
(* 8. Examples (non-vacuity), also with width overflow allowed          *)
(* ================================================================== *)
Definition exs_txt (l : list N) : rnode := ex_n (IText (ex_str l)).
Definition exs_cell (n : rnode) : rcell := RCell 1 [n] cstyle0.
(* <p>ab <s>hello wi<s>desttttttttt</s> world</s> z</p>
   <table><tr><td><s>ab cd</s></td><td>efg</td></tr></table>
   <ul><li><s>one <em>two</em></s> three</li></ul> <s><blockquote>q r</blockquote></s>
   at width 9: the long struck word is hard-wrapped twice (the cuts fall between a mark and the
   next character), the nested <s> gives two marks per character, the filter is inherited by
   the table cell, the list item and the block quote *)
Definition exs_tree : rnode :=
  ex_n (IContainer
    [ex_n (IBlock [exs_txt [97;98;32];
                   ex_n (IStrikeout [exs_txt [104;101;108;108;111;32;119;105];
                                     ex_n (IStrikeout [exs_txt [100;101;115;116;116;116;116;116;116;116;116]]);
                                     exs_txt [32;119;111;114;108;100]]);
                   exs_txt [32;122]]);
     ex_n (ITable [RRow [exs_cell (ex_n (IStrikeout [exs_txt [97;98;32;99;100]]));
                         exs_cell (exs_txt [101;102;103])] cstyle0] 2);
     ex_n (IUl [ex_n (IListItem [ex_n (IStrikeout [exs_txt [111;110;101;32]; ex_n (IEm [exs_txt [116;119;111]])]);
                                 exs_txt [32;116;104;114;101;101]])]);
     ex_n (IStrikeout [ex_n (IBlockQuote [exs_txt [113;32;114]])])]).
Definition exs_on : ropts := render_options (with_decorator plain_deco).
Definition exs_off : ropts := render_options (set_strike (with_decorator plain_deco) false).
Definition get_lines (r : res (list rline)) : list rline := match r with Ok ls => ls | _ => [] end.
Definition exs_l1 : list rline := get_lines (lines_of plain_deco 3 exs_on 9 exs_tree).
Definition exs_l2 : list rline := get_lines (lines_of plain_deco 3 exs_off 9 exs_tree).

Example exs_ok : lines_of plain_deco 3 exs_on 9 exs_tree = Ok exs_l1 /\
                 lines_of plain_deco 3 exs_off 9 exs_tree = Ok exs_l2.
Proof. split; vm_compute; reflexivity. Qed.

(* twelve lines; run 2 has no mark, run 1 has; line 2 of run 1 is "wi" + "destttt" with one /
   two marks after every character (hard-wrapped at the same place as without marks) *)
Example exs_facts :
  length exs_l2 = 12%nat /\ forallb (nomark_rline is_strike_mark) exs_l2 = true /\
  forallb (nomark_rline is_strike_mark) exs_l1 = false /\
  map cp (rline_string (nth 1 exs_l1 (RText tl_new))) =
    [119;822;105;822;100;822;822;101;822;822;115;822;822;116;822;822;116;822;822;116;822;822;116;822;822] /\
  map cp (rline_string (nth 1 exs_l2 (RText tl_new))) = [119;105;100;101;115;116;116;116;116].
Proof. vm_compute. repeat split; reflexivity. Qed.

Example exs_applies :
  map (del_rline is_strike_mark) exs_l1 = exs_l2 /\ map rline_width exs_l1 = map rline_width exs_l2.
Proof.
  pose proof (c15_strike_deleted_wf plain_deco 3 exs_on exs_off 9 exs_tree is_strike_mark eq_refl) as H.
  destruct exs_ok as [E1 E2]. rewrite E1, E2 in H. cbn [res_rel] in H.
  destruct H as (_ & Hw & _ & _ & Hd).
  - repeat split; reflexivity.
  - reflexivity.
  - vm_compute. reflexivity.
  - vm_compute. reflexivity.
  - split; [apply Hd; vm_compute; reflexivity|exact Hw].
Qed.

Definition exs_s1 : subr :=
  match render_tree plain_deco 3 exs_on 9 exs_tree with Ok s => s | _ => sub_new 0 exs_on end.
Definition exs_s2 : subr :=
  match render_tree plain_deco 3 exs_off 9 exs_tree with Ok s => s | _ => sub_new 0 exs_off end.
Example exs_render_ok : render_tree plain_deco 3 exs_on 9 exs_tree = Ok exs_s1 /\
                        render_tree plain_deco 3 exs_off 9 exs_tree = Ok exs_s2.
Proof. split; vm_compute; reflexivity. Qed.
Example exs_render_applies : SR exs_s1 exs_s2.
Proof.
  destruct exs_render_ok as [E1 E2].
  assert (Hf : render_tree plain_deco 3 exs_off 9 exs_tree <> OutOfFuel) by (rewrite E2; discriminate).
  assert (Hs : same_but_strike exs_on exs_off) by (repeat split; reflexivity).
  pose proof (c15_strike_render plain_deco 3 exs_on exs_off 9 exs_tree Hs eq_refl Hf) as H.
  rewrite E1, E2 in H. cbn [res_rel] in H. exact H.
Qed.

(* through the routes, with the CSS front end of the model: <p>hi <s>there you all</s></p> *)
Definition exs_doc : list node :=
  [RenderTotal.el [104;116;109;108] []
    [RenderTotal.el [98;111;100;121] []
      [RenderTotal.el [112] []
         [RenderTotal.tx [104;105;32];
          RenderTotal.el [115] [] [RenderTotal.tx [116;104;101;114;101;32;121;111;117;32;97;108;108]]]]]].
Definition exs_string (c : config) : text :=
  match string_from_read CssParse.inline_styles CssParse.doc_rules c exs_doc 8 with Ok s => s | _ => [] end.
Example exs_routes_applies :
  string_from_read CssParse.inline_styles CssParse.doc_rules cfg_plain exs_doc 8 = Ok (exs_string cfg_plain) /\
  del is_strike_mark (exs_string cfg_plain) = exs_string (set_strike cfg_plain false) /\
  map cp (exs_string cfg_plain) = [104;105;32; 116;822;104;822;101;822;114;822;101;822;10;
                                   121;822;111;822;117;822;32;97;822;108;822;108;822;10].
Proof.
  split; [vm_compute; reflexivity|]. split; [|vm_compute; reflexivity].
  destruct (to_render_tree CssParse.inline_styles CssParse.doc_rules cfg_plain exs_doc) as [tree| | |] eqn:Et;
    try (vm_compute in Et; discriminate).
  assert (Hwf : RenderTotal.tree_wf (c_deco cfg_plain) (c_min_wrap cfg_plain) tree = true).
  { vm_compute in Et. injection Et as <-. vm_compute. reflexivity. }
  destruct (c15_strike_routes_wf CssParse.inline_styles CssParse.doc_rules cfg_plain exs_doc 8 tree
              is_strike_mark eq_refl eq_refl Et Hwf) as [_ H].
  assert (E1 : string_from_read CssParse.inline_styles CssParse.doc_rules cfg_plain exs_doc 8
               = Ok (exs_string cfg_plain)) by (vm_compute; reflexivity).
  assert (E2 : string_from_read CssParse.inline_styles CssParse.doc_rules (set_strike cfg_plain false) exs_doc 8
               = Ok (exs_string (set_strike cfg_plain false))) by (vm_compute; reflexivity).
  rewrite E1, E2 in H. cbn [res_rel] in H. destruct H as (_ & _ & _ & Hd).
  apply Hd. vm_compute. reflexivity.
Qed.

(* FORMER FINDING, REPAIRED by change (A) of the model.  <s>W</s>, W a character of width 2, at
   width 1 with width overflow allowed.  Before the change hw_scan's overflow branch took exactly
   the one character that does not fit the empty line, so the cut fell between the character
   and its zero-width mark and run 1 had a second line consisting of the mark alone
   ([[19990]; [822]] against [[19990]]).  Now the overflow branch takes `c :: take_zw s'`: the
   mark stays on the line of its character, one line in both runs. *)
Definition cex_wide : chr := mkchr 19990 (Some 2) false 16.
Definition cex_tree : rnode := ex_n (IStrikeout [ex_n (IText [cex_wide])]).
Definition cex_on : ropts := render_options (set_overflow (with_decorator plain_deco)).
Definition cex_off : ropts := render_options (set_strike (set_overflow (with_decorator plain_deco)) false).
Example overflow_strike_line_repaired :
  same_but_strike cex_on cex_off /\ o_strike cex_off = false /\ o_allow_overflow cex_on = true /\
  option_map (map (fun l => map cp (rline_string l)))
    (match lines_of plain_deco 3 cex_on 1 cex_tree with Ok l => Some l | _ => None end)
    = Some [[19990; 822]] /\
  option_map (map (fun l => map cp (rline_string l)))
    (match lines_of plain_deco 3 cex_off 1 cex_tree with Ok l => Some l | _ => None end)
    = Some [[19990]].
Proof. vm_compute. repeat split; reflexivity. Qed.

(* the theorems with width overflow ON: <s>W&#769;V ab</s> (W, V of width 2, U+0301 a zero-width
   character of the document) at width 1.  Every character overflows the empty line; run 1
   takes W, its mark and U+0301, run 2 takes W and U+0301; the cuts are the same. *)
Definition ovf_acute : chr := mkchr 769 (Some 0) false 16.
Definition ovf_wide2 : chr := mkchr 30028 (Some 2) false 16.
Definition ovf_tree : rnode :=
  ex_n (IStrikeout [ex_n (IText ([cex_wide; ovf_acute; ovf_wide2] ++ ex_str [32;97;98]))]).
Definition ovf_l1 : list rline := get_lines (lines_of plain_deco 3 cex_on 1 ovf_tree).
Definition ovf_l2 : list rline := get_lines (lines_of plain_deco 3 cex_off 1 ovf_tree).
Example ovf_ok : lines_of plain_deco 3 cex_on 1 ovf_tree = Ok ovf_l1 /\
                 lines_of plain_deco 3 cex_off 1 ovf_tree = Ok ovf_l2.
Proof. split; vm_compute; reflexivity. Qed.
Example ovf_facts :
  o_allow_overflow cex_on = true /\
  map (fun l => map cp (rline_string l)) ovf_l1 = [[19990; 822; 769]; [30028; 822]; [97; 822]; [98; 822]] /\
  map (fun l => map cp (rline_string l)) ovf_l2 = [[19990; 769]; [30028]; [97]; [98]] /\
  map rline_width ovf_l2 = [2; 2; 1; 1].
Proof. vm_compute. repeat split; reflexivity. Qed.

Example ovf_applies :
  map (del_rline is_strike_mark) ovf_l1 = ovf_l2 /\ map rline_width ovf_l1 = map rline_width ovf_l2.
Proof.
  pose proof (c15_strike_deleted_wf plain_deco 3 cex_on cex_off 1 ovf_tree is_strike_mark eq_refl) as H.
  destruct ovf_ok as [E1 E2]. rewrite E1, E2 in H. cbn [res_rel] in H.
  destruct H as (_ & Hw & _ & _ & Hd).
  - repeat split; reflexivity.
  - reflexivity.
  - vm_compute. reflexivity.
  - vm_compute. reflexivity.
  - split; [apply Hd; vm_compute; reflexivity|exact Hw].
Qed.
