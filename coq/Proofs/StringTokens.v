(* Proofs/StringTokens.v -- string literals in the CSS tokeniser (property C17, supplement).
   CssVariants.AStr covers only double-quoted strings WITHOUT double quote, backslash and newline inside;
   single-quoted strings and escapes were outside every earlier theorem.  Here:
     1. the lexer specification of a quoted string with escapes (string_loop / parse_string_token),
     2. a literal is one atomic token for the value loop value_toks_f (bracket depth unchanged,
        `;` `}` brackets inside the literal do not end the value),
     3. the same for skip_stmt / skip_to_end_of_statement, and at-rules whose prelude contains such
        literals are CssVariants.junk_ok, hence (variant_sheet_rt / variant_rules / variants_agree are
        parametric in junk_ok) insignificant.
   No axioms. *)
From H2T Require Import Base Tagged Wrap Css Dom CssParse Proofs.CssTotal Proofs.CssRoundTrip
     Proofs.CssVariants.
From Coq Require Import Lia ZifyN ZifyBool ZifyNat.
Local Arguments N.add : simpl never.
Local Arguments N.sub : simpl never.
Local Arguments N.mul : simpl never.
Local Arguments N.leb : simpl never.
Local Arguments N.ltb : simpl never.
Local Arguments N.eqb : simpl never.
Local Arguments N.max : simpl never.
Local Arguments N.min : simpl never.
Local Open Scope N_scope.

(* ------------------------------------------------------------------ *)
(* 1. the lexer specification *)

(* what stands between the quotes.  Payload characters are arbitrary [chr]s (any code point, any
   width); the syntax characters (quote, backslash, the newline of a line continuation) are
   written [mk x 1] as everywhere in CssRoundTrip/CssVariants *)
Inductive sitem :=
| SChar (c : chr)      (* a plain character: not the quote, not backslash, not newline *)
| SEsc (c : chr)       (* backslash, then any character but newline: stands for that character *)
| SEscNl.              (* backslash newline: stands for nothing *)

Definition sitem_okb (q : N) (i : sitem) : bool :=
  match i with
  | SChar c => negb (cp c =? q) && negb (cp c =? 10) && negb (cp c =? 92)
  | SEsc c => negb (cp c =? 10)
  | SEscNl => true
  end.
Definition sitem_src (i : sitem) : text :=
  match i with SChar c => [c] | SEsc c => [mk 92 1; c] | SEscNl => [mk 92 1; mk 10 1] end.
Definition sitem_val (i : sitem) : text :=
  match i with SChar c => [c] | SEsc c => [c] | SEscNl => [] end.
Definition inner (items : list sitem) : text := flat_map sitem_src items.
Definition body (items : list sitem) : text := flat_map sitem_val items.
Definition lit (q : N) (items : list sitem) : text := mk q 1 :: inner items ++ [mk q 1].
Definition quote_okb (q : N) : bool := (q =? 34) || (q =? 39).
Definition items_okb (q : N) (items : list sitem) : bool := forallb (sitem_okb q) items.

(* the loop over the inside of a literal, whatever follows *)
Lemma string_loop_items : forall items q R acc, quote_okb q = true -> items_okb q items = true ->
  string_loop (inner items ++ R) q acc = string_loop R q (rev (body items) ++ acc).
Proof.
  induction items as [|i items IH]; intros q R acc Hq Hi; [reflexivity|].
  unfold items_okb in Hi. cbn [forallb] in Hi. apply andb_prop in Hi. destruct Hi as [Hi Hr].
  unfold inner, body in *. cbn [flat_map]. rewrite <- app_assoc, rev_app_distr, <- app_assoc.
  unfold quote_okb in Hq.
  destruct i as [c|c|]; cbn [sitem_okb sitem_src sitem_val app rev] in *.
  - cbn [string_loop].
    assert (E1 : (cp c =? q) = false) by lia. assert (E2 : (cp c =? 10) = false) by lia.
    assert (E3 : (cp c =? 92) = false) by lia. rewrite E1, E2, E3.
    rewrite (IH q R (c :: acc) ) by (unfold quote_okb; auto). reflexivity.
  - cbn [string_loop cp mk].
    assert (E1 : (92 =? q) = false) by lia. change (92 =? 10) with false. change (92 =? 92) with true.
    assert (E2 : (cp c =? 10) = false) by lia. rewrite E1, E2. cbv iota.
    rewrite (IH q R (c :: acc)) by (unfold quote_okb; auto). reflexivity.
  - cbn [string_loop cp mk].
    assert (E1 : (92 =? q) = false) by lia. change (92 =? 10) with false. change (92 =? 92) with true.
    change (10 =? 10) with true. rewrite E1. cbv iota.
    rewrite (IH q R acc) by (unfold quote_okb; auto). reflexivity.
Qed.

(* MAIN 1: a complete literal is one String token whose value is the unescaped body; the rest of
   the input is returned untouched.  An escaped quote of the same kind, the other quote, `;` `{` `}`
   and brackets inside the literal are all SChar / SEsc items, so none of them ends it. *)
Theorem parse_string_token_lit : forall q items rest, quote_okb q = true -> items_okb q items = true ->
  parse_string_token (lit q items ++ rest) = POk (TString (body items)) rest.
Proof.
  intros q items rest Hq Hi. unfold parse_string_token, lit. cbn [app cp mk].
  rewrite <- app_assoc. rewrite string_loop_items by assumption.
  cbn [app string_loop cp mk]. rewrite N.eqb_refl. rewrite app_nil_r, rev_involutive. reflexivity.
Qed.

(* edge cases, exactly as the model (and src/css/parser.rs parse_string_token) behaves *)
(* (a) unterminated at the end of the input: String of the body so far, nothing left *)
Theorem parse_string_token_eof : forall q items, quote_okb q = true -> items_okb q items = true ->
  parse_string_token (mk q 1 :: inner items) = POk (TString (body items)) [].
Proof.
  intros q items Hq Hi. unfold parse_string_token. cbn [cp mk].
  rewrite <- (app_nil_r (inner items)). rewrite string_loop_items by assumption.
  cbn [string_loop]. rewrite app_nil_r, rev_involutive. reflexivity.
Qed.
(* (b) a backslash as the very last character: dropped, String of the body so far *)
Theorem parse_string_token_eof_backslash : forall q items, quote_okb q = true -> items_okb q items = true ->
  parse_string_token (mk q 1 :: inner items ++ [mk 92 1]) = POk (TString (body items)) [].
Proof.
  intros q items Hq Hi. unfold parse_string_token. cbn [cp mk].
  rewrite string_loop_items by assumption. unfold quote_okb in Hq.
  cbn [string_loop cp mk]. assert (E1 : (92 =? q) = false) by lia. rewrite E1.
  change (92 =? 10) with false. change (92 =? 92) with true. cbv iota.
  rewrite app_nil_r, rev_involutive. reflexivity.
Qed.
(* (c) a raw newline: BadString of the body so far; the remaining input STARTS WITH the newline *)
Theorem parse_string_token_newline : forall q items rest, quote_okb q = true -> items_okb q items = true ->
  parse_string_token (mk q 1 :: inner items ++ mk 10 1 :: rest)
  = POk (TBadString (body items)) (mk 10 1 :: rest).
Proof.
  intros q items rest Hq Hi. unfold parse_string_token. cbn [cp mk].
  rewrite string_loop_items by assumption. unfold quote_okb in Hq.
  cbn [string_loop cp mk]. assert (E1 : (10 =? q) = false) by lia. rewrite E1.
  change (10 =? 10) with true. cbv iota.
  rewrite app_nil_r, rev_involutive. reflexivity.
Qed.

Print Assumptions parse_string_token_lit.
Print Assumptions parse_string_token_eof.
Print Assumptions parse_string_token_eof_backslash.
Print Assumptions parse_string_token_newline.

(* ------------------------------------------------------------------ *)
(* 2. the tokeniser on a literal, and the two loops that consume tokens *)

Lemma lit_first : forall (P : N -> bool) q items R, P q = false -> nf P (lit q items ++ R).
Proof. intros P q items R H. unfold lit. cbn [app nf cp mk]. exact H. Qed.

(* optional whitespace / comments, then a literal: one String token, rest untouched *)
Theorem parse_token_lit : forall w q items R, wsm w -> quote_okb q = true -> items_okb q items = true ->
  parse_token (w ++ lit q items ++ R) = POk (TString (body items)) R.
Proof.
  intros w q items R Hw Hq Hi. unfold parse_token; cbv zeta.
  rewrite skip_ws_wsm by (auto; apply lit_first; unfold quote_okb in Hq; cls).
  rewrite <- (parse_string_token_lit q items R Hq Hi).
  unfold lit at 1 2. cbn [app cp mk]. unfold quote_okb in Hq. rewrite Hq. reflexivity.
Qed.

Lemma lit_len : forall w q items (R : text), (length R < length (w ++ lit q items ++ R))%nat.
Proof. intros. unfold lit. rewrite !app_length. cbn [length app]. lia. Qed.

(* MAIN 2 (step form): the value loop of a declaration, reaching a literal at bracket depth d with
   accumulator acc, continues AFTER the literal at the same depth d with exactly one token added *)
Theorem value_toks_f_lit_step : forall f d w q items post acc,
  wsm w -> quote_okb q = true -> items_okb q items = true ->
  value_toks_f (S f) d (w ++ lit q items ++ post) acc
  = value_toks_f f d post (TString (body items) :: acc).
Proof.
  intros f d w q items post acc Hw Hq Hi. cbn [value_toks_f].
  rewrite parse_token_lit by assumption. cbn [is_close_brace is_semicolon andb depth_after].
  pose proof (lit_len w q items post) as Hl.
  destruct (Nat.eqb_spec (length post) (length (w ++ lit q items ++ post))) as [E|E]; [lia|reflexivity].
Qed.

(* MAIN 3 (step form): the statement skipper steps over a literal without touching its stack *)
Theorem skip_stmt_lit_step : forall f w q items post stack,
  wsm w -> quote_okb q = true -> items_okb q items = true ->
  skip_stmt (S f) (w ++ lit q items ++ post) stack = skip_stmt f post stack.
Proof.
  intros f w q items post stack Hw Hq Hi. cbn [skip_stmt].
  rewrite parse_token_lit by assumption. reflexivity.
Qed.

Print Assumptions parse_token_lit.
Print Assumptions value_toks_f_lit_step.
Print Assumptions skip_stmt_lit_step.

(* ------------------------------------------------------------------ *)
(* 3. CssVariants' atoms extended with full literals *)
Inductive xatom :=
| XA (a : atom)                       (* an atom of CssVariants *)
| XS (q : N) (items : list sitem).    (* a literal in either quote, with escapes *)

Definition xatom_okb (x : xatom) : bool :=
  match x with XA a => atom_okb a | XS q items => quote_okb q && items_okb q items end.
Definition print_xatom (x : xatom) : text :=
  match x with XA a => print_atom a | XS q items => lit q items end.
Definition xatom_tok (x : xatom) : token :=
  match x with XA a => atom_tok a | XS _ items => TString (body items) end.
Definition xafc (x : xatom) : N := match x with XA a => afc a | XS q _ => q end.
Definition xfollows (x : xatom) (R : text) : Prop :=
  match x with XA a => follows a R | XS _ _ => True end.
Definition xfollowsb (x : xatom) (sp : bool) (c : N) : bool :=
  match x with XA a => followsb a sp c | XS _ _ => true end.

Lemma xafc_print : forall x, xatom_okb x = true -> exists r, print_xatom x = mk (xafc x) 1 :: r.
Proof.
  intros [a|q items] H; cbn [xatom_okb print_xatom xafc] in *; [apply afc_print, H|].
  eexists; reflexivity.
Qed.
Lemma xafc_class : forall x, xatom_okb x = true ->
  wsstart (xafc x) = false /\ (xafc x =? 64) = false.
Proof.
  intros [a|q items] H; cbn [xatom_okb xafc] in *; [apply afc_class, H|].
  apply andb_prop in H. destruct H as [H _]. unfold quote_okb in H. split; cls.
Qed.

Theorem xatom_token : forall w x R, wsm w -> xatom_okb x = true -> xfollows x R ->
  parse_token (w ++ print_xatom x ++ R) = POk (xatom_tok x) R.
Proof.
  intros w [a|q items] R Hw Hx HR; cbn [xatom_okb print_xatom xatom_tok xfollows] in *.
  - apply atom_token; assumption.
  - apply andb_prop in Hx. destruct Hx as [Hq Hi]. apply parse_token_lit; assumption.
Qed.

Definition xatoms := list (text * xatom).
Definition print_xatoms (l : xatoms) : text := flat_map (fun wx => fst wx ++ print_xatom (snd wx)) l.
Definition xatoms_ok (l : xatoms) : Prop :=
  Forall (fun wx => wsm (fst wx) /\ xatom_okb (snd wx) = true) l.
Fixpoint xchain (l : xatoms) : bool :=
  match l with
  | (_, x) :: (((w', x') :: _) as l') => xfollowsb x (negb (isnil w')) (xafc x') && xchain l'
  | _ => true
  end.
Definition xtoks_of (l : xatoms) : list token := map (fun wx => xatom_tok (snd wx)) l.
(* the embedding of CssVariants' atom lists *)
Definition xlift (l : atoms) : xatoms := map (fun wa => (fst wa, XA (snd wa))) l.

Lemma print_xatoms_cons : forall w x l, print_xatoms ((w, x) :: l) = w ++ print_xatom x ++ print_xatoms l.
Proof. intros; unfold print_xatoms; cbn [flat_map fst snd]. rewrite <- app_assoc. reflexivity. Qed.
Lemma print_xatoms_app : forall l1 l2, print_xatoms (l1 ++ l2) = print_xatoms l1 ++ print_xatoms l2.
Proof. intros; unfold print_xatoms; apply flat_map_app. Qed.

Lemma xfollows_next : forall x w' x' T, wsm w' -> xatom_okb x' = true ->
  xfollowsb x (negb (isnil w')) (xafc x') = true -> xfollows x (w' ++ print_xatom x' ++ T).
Proof.
  intros [a|q items] w' x' T Hw Hx Hf; cbn [xfollows xfollowsb] in *; [|exact I].
  destruct (xafc_print x' Hx) as (r & Er). rewrite Er. cbn [app].
  apply follows_b; [exact Hw|apply (xafc_class x' Hx)|exact Hf].
Qed.
Lemma xfollows_vend : forall x K, vend K -> xfollows x K.
Proof. intros [a|q items] K HK; cbn [xfollows]; [apply follows_vend, HK|exact I]. Qed.
Lemma print_xatom_ne : forall x, xatom_okb x = true -> print_xatom x <> [].
Proof. intros x Hx. destruct (xafc_print x Hx) as (r & Er). rewrite Er. discriminate. Qed.

Lemma xatoms_head : forall w x l E, xatoms_ok ((w, x) :: l) -> xchain ((w, x) :: l) = true ->
  (l = [] -> xfollows x E) ->
  parse_token (w ++ print_xatom x ++ print_xatoms l ++ E) = POk (xatom_tok x) (print_xatoms l ++ E).
Proof.
  intros w x l E Hok Hch HE. inversion Hok as [|wx l0 [Hw Hx] Hl]; subst. cbn [fst snd] in *.
  apply xatom_token; [exact Hw|exact Hx|].
  destruct l as [|[w' x'] l'].
  - cbn [print_xatoms flat_map app]. apply HE; reflexivity.
  - inversion Hl as [|wx' l0' [Hw' Hx'] Hl']; subst. cbn [fst snd] in *.
    rewrite print_xatoms_cons, <- !app_assoc.
    cbn [xchain] in Hch. apply andb_prop in Hch. destruct Hch as [Hf _].
    apply xfollows_next; assumption.
Qed.
Lemma xchain_tl : forall wx l, xchain (wx :: l) = true -> xchain l = true.
Proof.
  intros [w x] [|[w' x'] l] H; [reflexivity|]. cbn [xchain] in H. apply andb_prop in H. tauto.
Qed.
Lemma xatoms_step_len : forall w x (T : text), xatom_okb x = true ->
  (length T < length (w ++ print_xatom x ++ T))%nat.
Proof.
  intros w x T Hx. rewrite !app_length. pose proof (print_xatom_ne x Hx).
  destruct (print_xatom x); [congruence|cbn [length]; lia].
Qed.

(* ------------------------------------------------------------------ *)
(* 4. declaration values made of extended atoms *)
Definition xvatom (x : xatom) : bool := match x with XA a => vatom a | XS _ _ => true end.
(* the bracket depth is computed from the TOKENS: a literal is one TString token, so whatever is
   written inside it (`;` `}` `(` `[` ...) does not count *)
Fixpoint xvdepth (l : xatoms) (d : nat) : bool :=
  match l with
  | [] => Nat.eqb d 0
  | (_, x) :: l' =>
      negb (is_semicolon (xatom_tok x) && Nat.eqb d 0) && xvdepth l' (depth_after (xatom_tok x) d)
  end.
Lemma xvatom_tok : forall x, xatom_okb x = true -> xvatom x = true ->
  is_close_brace (xatom_tok x) = false.
Proof. intros [a|q items] Hx Hv; [apply vatom_tok; assumption|reflexivity]. Qed.

Lemma xatoms_many : forall l d K, xatoms_ok l -> forallb (fun wx => xvatom (snd wx)) l = true ->
  xvdepth l d = true -> xchain l = true -> vend K ->
  ValR d (print_xatoms l ++ K) (xtoks_of l) K.
Proof.
  induction l as [|[w x] l IH]; intros d K Hok Hv Hdp Hch HK.
  - cbn [xvdepth] in Hdp. apply Nat.eqb_eq in Hdp. subst d.
    apply VR_nil. apply (vend_vstop K HK).
  - cbn [forallb snd] in Hv. apply andb_prop in Hv. destruct Hv as [Hva Hv].
    cbn [xvdepth] in Hdp. apply andb_prop in Hdp. destruct Hdp as [Hsemi Hdp].
    pose proof Hok as Hok'. inversion Hok' as [|wx l0 [Hw Hx] Hl]; subst. cbn [fst snd] in *.
    rewrite print_xatoms_cons, <- !app_assoc. cbn [xtoks_of map snd].
    eapply VR_cons.
    + unfold vstep.
      rewrite (xatoms_head w x l K Hok Hch (fun _ => xfollows_vend x K HK)).
      rewrite (xvatom_tok x Hx Hva). cbn [orb].
      destruct (is_semicolon (xatom_tok x) && Nat.eqb d 0); [discriminate|reflexivity].
    + apply xatoms_step_len, Hx.
    + apply IH; auto. eapply xchain_tl, Hch.
Qed.

(* MAIN 2 (whole value): the value of a declaration, written with literals anywhere, is exactly its
   token list and ends at K = optional whitespace then the first `;` at depth 0 OUTSIDE literals
   (or the `}` of the block) *)
Theorem value_toks_xatoms : forall l K, xatoms_ok l -> forallb (fun wx => xvatom (snd wx)) l = true ->
  xvdepth l 0 = true -> xchain l = true -> vend K ->
  value_toks (print_xatoms l ++ K) = POk (xtoks_of l) K.
Proof. intros l K Hok Hv Hd Hch HK. apply value_toks_R, xatoms_many; assumption. Qed.

(* a whole declaration `name : value` (name in any letter case) *)
Record xditem := mkxditem { xdi_name : list N; xdi_w1 : text; xdi_val : xatoms }.
Definition print_xditem (i : xditem) : text :=
  of_ascii (xdi_name i) ++ xdi_w1 i ++ of_ascii [58] ++ print_xatoms (xdi_val i).
Definition xitem_decl (i : xditem) : declaration :=
  let v := strip_important (xtoks_of (xdi_val i)) in
  mkdecl (decl_of (of_ascii (map lowerN (xdi_name i))) (fst v)) (snd v).
Definition xditem_ok (i : xditem) : Prop :=
  name_okb (xdi_name i) = true /\ wsm (xdi_w1 i) /\ xdi_val i <> [] /\ xatoms_ok (xdi_val i) /\
  forallb (fun wx => xvatom (snd wx)) (xdi_val i) = true /\ xvdepth (xdi_val i) 0 = true /\
  xchain (xdi_val i) = true.

Theorem parse_declaration_xitem : forall i K, xditem_ok i -> vend K ->
  parse_declaration (print_xditem i ++ K) = POk (xitem_decl i) K.
Proof.
  intros [n w1 val] K (Hn & Hw1 & Hne & Hok & Hv & Hdp & Hch) HK. cbn [xdi_name xdi_w1 xdi_val] in *.
  unfold parse_declaration, print_xditem, xitem_decl; cbn [xdi_name xdi_w1 xdi_val]. rewrite <- !app_assoc.
  rewrite parse_ident_name;
    [|exact Hn|apply wsm_nf; [exact Hw1|intros; cls2|right; apply nf_lit; reflexivity]].
  cbn [pbind]. cbv zeta.
  rewrite skip_ws_wsm by (auto; apply nf_lit; reflexivity).
  rewrite ptag_lit. cbn [pbind].
  destruct val as [|[w x] l]; [congruence|].
  inversion Hok as [|wx l0 [Hw Hx] Hl]; subst. cbn [fst snd] in *.
  rewrite print_xatoms_cons, <- !app_assoc.
  assert (Hsk : skip_ws (w ++ print_xatom x ++ print_xatoms l ++ K) = print_xatoms (([], x) :: l) ++ K).
  { rewrite print_xatoms_cons, <- !app_assoc. cbn [app]. apply skip_ws_wsm; [exact Hw|].
    destruct (xafc_print x Hx) as (r & Er). rewrite Er. cbn [app nf cp mk]. apply (xafc_class x Hx). }
  rewrite Hsk.
  assert (HM : ValR 0 (print_xatoms (([], x) :: l) ++ K) (xtoks_of ((w, x) :: l)) K).
  { apply (xatoms_many (([], x) :: l) 0%nat K); auto.
    constructor; [split; [apply wsm_nil|exact Hx]|exact Hl]. }
  unfold parse_value. rewrite (value_toks_R _ _ _ HM). cbn [pbind]. unfold strip_important.
  destruct (ends_important (xtoks_of ((w, x) :: l))); reflexivity.
Qed.

(* an unknown property name: the whole declaration, literals included, means DUnknown *)
Theorem unknown_xitem : forall i, known_name (map lowerN (xdi_name i)) = false ->
  is_unknown (xitem_decl i) = true.
Proof.
  intros i H. unfold xitem_decl, is_unknown; cbn [d_data]. unfold decl_of, is_ascii_str.
  rewrite cps_of_ascii. unfold known_name, known_names in H. cbn [existsb] in H.
  repeat (apply orb_false_elim in H; destruct H as [E H]; rewrite E; clear E). reflexivity.
Qed.

Print Assumptions value_toks_xatoms.
Print Assumptions parse_declaration_xitem.
Print Assumptions unknown_xitem.

(* ------------------------------------------------------------------ *)
(* 5. skipped statements made of extended atoms; junk statements *)
Definition xcomplete (l : xatoms) : Prop := skip_sim (xtoks_of l) [] = Some [].

Lemma xtoks_of_nil : forall l, xtoks_of l = [] -> l = [].
Proof. intros [|x l] H; [reflexivity|discriminate]. Qed.

Lemma skip_stmt_xatoms : forall l stack rest fuel, xatoms_ok l -> xchain l = true ->
  skip_sim (xtoks_of l) stack = Some [] -> (length l < fuel)%nat ->
  skip_stmt fuel (print_xatoms l ++ rest) stack = POk tt rest.
Proof.
  induction l as [|[w x] l IH]; intros stack rest fuel Hok Hch Hs Hf; [discriminate|].
  destruct fuel as [|f]; [lia|]. cbn [length] in Hf.
  pose proof Hok as Hok'. inversion Hok' as [|wx l0 [Hw Hx] Hl]; subst. cbn [fst snd] in *.
  pose proof (xchain_tl _ _ Hch) as Hch'.
  assert (HE : l = [] -> xfollows x rest).
  { intros ->. destruct x as [a|q items]; [|exact I]. cbn [xfollows].
    destruct a; try exact I; discriminate. }
  rewrite print_xatoms_cons, <- !app_assoc. cbn [skip_stmt].
  rewrite (xatoms_head w x l rest Hok Hch HE).
  change (xtoks_of ((w, x) :: l)) with (xatom_tok x :: xtoks_of l) in Hs.
  assert (Hrec : forall st, skip_sim (xtoks_of l) st = Some [] ->
                 skip_stmt f (print_xatoms l ++ rest) st = POk tt rest)
    by (intros st Hst; apply IH; auto; lia).
  assert (Hend : Some (xtoks_of l) = Some [] -> print_xatoms l ++ rest = rest).
  { intros E. injection E as E. apply xtoks_of_nil in E. subst l. reflexivity. }
  destruct (xatom_tok x) eqn:Et; cbn [skip_sim closer_kind] in Hs; cbn [closer_kind];
    try (apply Hrec; exact Hs).
  - destruct stack as [|top_ stack']; [discriminate|].
    destruct (top_ =? 1); [|discriminate]. change (1 =? 3) with false in *. cbn [andb] in *.
    apply Hrec; exact Hs.
  - destruct stack as [|top_ stack']; [rewrite (Hend Hs); reflexivity|apply Hrec; exact Hs].
  - destruct stack as [|top_ stack']; [discriminate|].
    destruct (top_ =? 2); [|discriminate]. change (2 =? 3) with false in *. cbn [andb] in *.
    apply Hrec; exact Hs.
  - destruct stack as [|top_ stack']; [discriminate|].
    destruct (top_ =? 0); [|discriminate]. change (0 =? 3) with false in *. cbn [andb] in *.
    apply Hrec; exact Hs.
  - destruct stack as [|top_ stack']; [discriminate|].
    destruct (top_ =? 3); [|discriminate]. change (3 =? 3) with true in *. cbn [andb] in *.
    destruct stack' as [|t2 st2]; [rewrite (Hend Hs); reflexivity|apply Hrec; exact Hs].
Qed.

Lemma print_xatoms_len : forall l, xatoms_ok l -> (length l <= length (print_xatoms l))%nat.
Proof.
  induction l as [|[w x] l IH]; intros Hok; [cbn; lia|].
  inversion Hok as [|wx l0 [Hw Hx] Hl]; subst. cbn [fst snd] in *.
  rewrite print_xatoms_cons, !app_length. pose proof (print_xatom_ne x Hx). specialize (IH Hl).
  destruct (print_xatom x); [congruence|cbn [length]; lia].
Qed.

(* MAIN 3 (whole statement): skip_to_end_of_statement consumes exactly the statement: up to and
   including the first `;` outside brackets AND outside literals (or its balanced block) *)
Theorem skip_to_end_xatoms : forall l rest, xatoms_ok l -> xchain l = true -> xcomplete l ->
  skip_to_end_of_statement (print_xatoms l ++ rest) = POk tt rest.
Proof.
  intros l rest Hok Hch Hc. unfold skip_to_end_of_statement. apply skip_stmt_xatoms; auto.
  rewrite app_length. pose proof (print_xatoms_len l Hok). lia.
Qed.

(* at-rules with literals in the prelude (or anywhere in the block) are junk statements *)
Definition xat_follow (l : xatoms) : bool :=
  match l with (w, x) :: _ => negb (isnil w) || negb (identcont (xafc x)) | [] => false end.
Definition print_xat (nm : list N) (l : xatoms) : text :=
  of_ascii [64] ++ of_ascii nm ++ print_xatoms l.

Theorem junk_at_rule_x : forall nm l, name_okb nm = true -> xatoms_ok l -> xchain l = true ->
  xcomplete l -> xat_follow l = true -> junk_ok (print_xat nm l).
Proof.
  intros nm l Hnm Hok Hch Hc Haf. split; [exists (mk 64 1); eexists; split; reflexivity|].
  intros w rest Hw. unfold print_xat. rewrite <- !app_assoc.
  assert (Hid : nf identcont (print_xatoms l ++ rest)).
  { destruct l as [|[w1 x1] l']; [discriminate|]. cbn [xat_follow] in Haf.
    inversion Hok as [|wx l0 [Hw1 Hx1] Hl]; subst. cbn [fst snd] in *.
    rewrite print_xatoms_cons, <- !app_assoc.
    apply (xfollows_next (XA (AHash [])) w1 x1 _ Hw1 Hx1). exact Haf. }
  unfold parse_statement.
  rewrite parse_ruleset_ws by (auto; apply nf_lit; reflexivity).
  rewrite parse_ruleset_fail_start by (apply nf_lit; reflexivity). cbn [pmap palt].
  unfold parse_at_rule. rewrite skip_ws_wsm by (auto; apply nf_lit; reflexivity).
  rewrite ptag_lit. cbn [pbind].
  rewrite skip_ws_id by (apply name_first; [exact Hnm|reflexivity|intros; cls2]).
  rewrite parse_ident_name by assumption. cbn [pbind].
  rewrite skip_to_end_xatoms by assumption. reflexivity.
Qed.

(* unparsable rule sets with literals (attribute selectors `a[href="x;y"] {..}` ...) *)
Theorem junk_unparsable_x : forall x l, xatoms_ok (([], x) :: l) -> xchain (([], x) :: l) = true ->
  xcomplete (([], x) :: l) -> ruleset_fails (print_xatoms (([], x) :: l)) ->
  junk_ok (print_xatoms (([], x) :: l)).
Proof.
  intros x l Hok Hch Hc Hfail.
  inversion Hok as [|wx l0 [_ Hx] Hl]; subst. cbn [fst snd] in *.
  destruct (xafc_print x Hx) as (r & Er). destruct (xafc_class x Hx) as [Hws H64].
  assert (Hfirst : forall (P : N -> bool) T, P (xafc x) = false -> nf P (print_xatoms (([], x) :: l) ++ T)).
  { intros P T HP. rewrite print_xatoms_cons. cbn [app]. rewrite Er. cbn [app nf cp mk]. exact HP. }
  split.
  - rewrite print_xatoms_cons. cbn [app]. rewrite Er. cbn [app]. exists (mk (xafc x) 1). eexists. split; [reflexivity|exact Hws].
  - intros w rest Hw. unfold parse_statement.
    rewrite parse_ruleset_ws by (auto; apply Hfirst; exact Hws).
    rewrite Hfail. cbn [pmap palt].
    unfold parse_at_rule. rewrite skip_ws_wsm by (auto; apply Hfirst; exact Hws).
    rewrite ptag_nf by (apply Hfirst; exact H64). cbn [pbind pmap palt].
    unfold skip_unparsable_ruleset.
    assert (E : w ++ print_xatoms (([], x) :: l) ++ rest = print_xatoms ((w, x) :: l) ++ rest).
    { rewrite !print_xatoms_cons, <- !app_assoc. reflexivity. }
    rewrite E. rewrite skip_to_end_xatoms.
    + cbn [pbind]. rewrite print_xatoms_cons, <- !app_assoc.
      pose proof (xatoms_step_len w x (print_xatoms l ++ rest) Hx) as Hlen.
      assert (Hlen2 : (length rest <= length (print_xatoms l ++ rest))%nat) by (rewrite app_length; lia).
      destruct (Nat.eqb_spec (length rest) (length (w ++ print_xatom x ++ print_xatoms l ++ rest))) as [E2|E2];
        [lia|reflexivity].
    + constructor; [split; [exact Hw|exact Hx]|exact Hl].
    + exact Hch.
    + exact Hc.
Qed.

Print Assumptions skip_to_end_xatoms.
Print Assumptions junk_at_rule_x.
Print Assumptions junk_unparsable_x.
