(* Proofs/StringTokens.v -- string literals in the CSS tokeniser (property C17, supplement).
   CssVariants.AStr covers only double-quoted strings WITHOUT double quote, backslash and newline inside;
   single-quoted strings and escapes were outside every earlier theorem.  Here:
     1. the lexer specification of a quoted string with escapes (string_loop / parse_string_token),
     2. a literal is one atomic token for the value loop value_toks_f (bracket depth unchanged,
        `;` `}` brackets inside the literal do not end the value),
     3. the same for skip_stmt / skip_to_end_of_statement, and at-rules whose prelude contains such
        literals are CssVariants.junk_ok, hence (variant_sheet_rt / variant_rules / variants_agree are
        parametric in junk_ok) insignificant (junk_at_rule_x, junk_unparsable_x,
        junk_insert_insignificant, at_rule_with_literals_insignificant),
     4. CssVariants' blocks / rule sets / sheets re-done over declarations whose values may hold
        literals (xvariant_sheet_rt, xvariant_rules, xvariants_agree, xvariant_agrees_with_variant),
     5. content: <literal> declares exactly the unescaped body (content_literal_parse).
   Hypotheses are the decidable well-formedness checks of CssVariants (wsm whitespace fields,
   atom_okb, achain: adjacent atoms do not merge, vdepth: brackets of a value closed) plus, for a
   literal: the quote is 34 or 39 (quote_okb) and every item is well-formed (items_okb: a plain
   character is not the quote / backslash / newline, an escaped character is not newline).
   Edge cases of the loop (unterminated, trailing backslash, raw newline) are theorems of
   section 1; they agree with src/css/parser.rs parse_string_token.
   No axioms. *)
From H2T Require Import Base Tagged Wrap Css Dom CssParse Proofs.CssTotal Proofs.CssRoundTrip
     Proofs.CssVariants.
From Coq Require Import Lia ZifyN ZifyBool ZifyNat.
Local Arguments N.add : simpl never.
Local Arguments N.sub : simpl never.
Local Arguments N.mul : simpl never.
Local Arguments N.leb : simpl never.
Local Arguments N.ltb : simpl never.
Local Arguments N.eqb : simpl never.
Local Arguments N.max : simpl never.
Local Arguments N.min : simpl never.
Local Open Scope N_scope.

(* ------------------------------------------------------------------ *)
(* 1. the lexer specification *)

(* what stands between the quotes.  Payload characters are arbitrary [chr]s (any code point, any
   width); the syntax characters (quote, backslash, the newline of a line continuation) are
   written [mk x 1] as everywhere in CssRoundTrip/CssVariants *)
Inductive sitem :=
| SChar (c : chr)      (* a plain character: not the quote, not backslash, not newline *)
| SEsc (c : chr)       (* backslash, then any character but newline: stands for that character *)
| SEscNl.              (* backslash newline: stands for nothing *)

Definition sitem_okb (q : N) (i : sitem) : bool :=
  match i with
  | SChar c => negb (cp c =? q) && negb (cp c =? 10) && negb (cp c =? 92)
  | SEsc c => negb (cp c =? 10)
  | SEscNl => true
  end.
Definition sitem_src (i : sitem) : text :=
  match i with SChar c => [c] | SEsc c => [mk 92 1; c] | SEscNl => [mk 92 1; mk 10 1] end.
Definition sitem_val (i : sitem) : text :=
  match i with SChar c => [c] | SEsc c => [c] | SEscNl => [] end.
Definition inner (items : list sitem) : text := flat_map sitem_src items.
Definition body (items : list sitem) : text := flat_map sitem_val items.
Definition lit (q : N) (items : list sitem) : text := mk q 1 :: inner items ++ [mk q 1].
Definition quote_okb (q : N) : bool := (q =? 34) || (q =? 39).
Definition items_okb (q : N) (items : list sitem) : bool := forallb (sitem_okb q) items.

(* the loop over the inside of a literal, whatever follows *)
Lemma string_loop_items : forall items q R acc, quote_okb q = true -> items_okb q items = true ->
  string_loop (inner items ++ R) q acc = string_loop R q (rev (body items) ++ acc).
Proof.
  induction items as [|i items IH]; intros q R acc Hq Hi; [reflexivity|].
  unfold items_okb in Hi. cbn [forallb] in Hi. apply andb_prop in Hi. destruct Hi as [Hi Hr].
  unfold inner, body in *. cbn [flat_map]. rewrite <- app_assoc, rev_app_distr, <- app_assoc.
  unfold quote_okb in Hq.
  destruct i as [c|c|]; cbn [sitem_okb sitem_src sitem_val app rev] in *.
  - cbn [string_loop].
    assert (E1 : (cp c =? q) = false) by lia. assert (E2 : (cp c =? 10) = false) by lia.
    assert (E3 : (cp c =? 92) = false) by lia. rewrite E1, E2, E3.
    rewrite (IH q R (c :: acc) ) by (unfold quote_okb; auto). reflexivity.
  - cbn [string_loop cp mk].
    assert (E1 : (92 =? q) = false) by lia. change (92 =? 10) with false. change (92 =? 92) with true.
    assert (E2 : (cp c =? 10) = false) by lia. rewrite E1, E2. cbv iota.
    rewrite (IH q R (c :: acc)) by (unfold quote_okb; auto). reflexivity.
  - cbn [string_loop cp mk].
    assert (E1 : (92 =? q) = false) by lia. change (92 =? 10) with false. change (92 =? 92) with true.
    change (10 =? 10) with true. rewrite E1. cbv iota.
    rewrite (IH q R acc) by (unfold quote_okb; auto). reflexivity.
Qed.

(* MAIN 1: a complete literal is one String token whose value is the unescaped body; the rest of
   the input is returned untouched.  An escaped quote of the same kind, the other quote, `;` `{` `}`
   and brackets inside the literal are all SChar / SEsc items, so none of them ends it. *)
Theorem parse_string_token_lit : forall q items rest, quote_okb q = true -> items_okb q items = true ->
  parse_string_token (lit q items ++ rest) = POk (TString (body items)) rest.
Proof.
  intros q items rest Hq Hi. unfold parse_string_token, lit. cbn [app cp mk].
  rewrite <- app_assoc. rewrite string_loop_items by assumption.
  cbn [app string_loop cp mk]. rewrite N.eqb_refl. rewrite app_nil_r, rev_involutive. reflexivity.
Qed.

(* edge cases, exactly as the model (and src/css/parser.rs parse_string_token) behaves *)
(* (a) unterminated at the end of the input: String of the body so far, nothing left *)
Theorem parse_string_token_eof : forall q items, quote_okb q = true -> items_okb q items = true ->
  parse_string_token (mk q 1 :: inner items) = POk (TString (body items)) [].
Proof.
  intros q items Hq Hi. unfold parse_string_token. cbn [cp mk].
  rewrite <- (app_nil_r (inner items)). rewrite string_loop_items by assumption.
  cbn [string_loop]. rewrite app_nil_r, rev_involutive. reflexivity.
Qed.
(* (b) a backslash as the very last character: dropped, String of the body so far *)
Theorem parse_string_token_eof_backslash : forall q items, quote_okb q = true -> items_okb q items = true ->
  parse_string_token (mk q 1 :: inner items ++ [mk 92 1]) = POk (TString (body items)) [].
Proof.
  intros q items Hq Hi. unfold parse_string_token. cbn [cp mk].
  rewrite string_loop_items by assumption. unfold quote_okb in Hq.
  cbn [string_loop cp mk]. assert (E1 : (92 =? q) = false) by lia. rewrite E1.
  change (92 =? 10) with false. change (92 =? 92) with true. cbv iota.
  rewrite app_nil_r, rev_involutive. reflexivity.
Qed.
(* (c) a raw newline: BadString of the body so far; the remaining input STARTS WITH the newline *)
Theorem parse_string_token_newline : forall q items rest, quote_okb q = true -> items_okb q items = true ->
  parse_string_token (mk q 1 :: inner items ++ mk 10 1 :: rest)
  = POk (TBadString (body items)) (mk 10 1 :: rest).
Proof.
  intros q items rest Hq Hi. unfold parse_string_token. cbn [cp mk].
  rewrite string_loop_items by assumption. unfold quote_okb in Hq.
  cbn [string_loop cp mk]. assert (E1 : (10 =? q) = false) by lia. rewrite E1.
  change (10 =? 10) with true. cbv iota.
  rewrite app_nil_r, rev_involutive. reflexivity.
Qed.

Print Assumptions parse_string_token_lit.
Print Assumptions parse_string_token_eof.
Print Assumptions parse_string_token_eof_backslash.
Print Assumptions parse_string_token_newline.

(* ------------------------------------------------------------------ *)
(* 2. the tokeniser on a literal, and the two loops that consume tokens *)

Lemma lit_first : forall (P : N -> bool) q items R, P q = false -> nf P (lit q items ++ R).
Proof. intros P q items R H. unfold lit. cbn [app nf cp mk]. exact H. Qed.

(* optional whitespace / comments, then a literal: one String token, rest untouched *)
Theorem parse_token_lit : forall w q items R, wsm w -> quote_okb q = true -> items_okb q items = true ->
  parse_token (w ++ lit q items ++ R) = POk (TString (body items)) R.
Proof.
  intros w q items R Hw Hq Hi. unfold parse_token; cbv zeta.
  rewrite skip_ws_wsm by (auto; apply lit_first; unfold quote_okb in Hq; cls).
  rewrite <- (parse_string_token_lit q items R Hq Hi).
  unfold lit at 1 2. cbn [app cp mk]. unfold quote_okb in Hq. rewrite Hq. reflexivity.
Qed.

Lemma lit_len : forall w q items (R : text), (length R < length (w ++ lit q items ++ R))%nat.
Proof. intros. unfold lit. rewrite !app_length. cbn [length app]. lia. Qed.

(* MAIN 2 (step form): the value loop of a declaration, reaching a literal at bracket depth d with
   accumulator acc, continues AFTER the literal at the same depth d with exactly one token added *)
Theorem value_toks_f_lit_step : forall f d w q items post acc,
  wsm w -> quote_okb q = true -> items_okb q items = true ->
  value_toks_f (S f) d (w ++ lit q items ++ post) acc
  = value_toks_f f d post (TString (body items) :: acc).
Proof.
  intros f d w q items post acc Hw Hq Hi. cbn [value_toks_f].
  rewrite parse_token_lit by assumption. cbn [is_close_brace is_semicolon andb depth_after].
  pose proof (lit_len w q items post) as Hl.
  destruct (Nat.eqb_spec (length post) (length (w ++ lit q items ++ post))) as [E|E]; [lia|reflexivity].
Qed.

(* MAIN 3 (step form): the statement skipper steps over a literal without touching its stack *)
Theorem skip_stmt_lit_step : forall f w q items post stack,
  wsm w -> quote_okb q = true -> items_okb q items = true ->
  skip_stmt (S f) (w ++ lit q items ++ post) stack = skip_stmt f post stack.
Proof.
  intros f w q items post stack Hw Hq Hi. cbn [skip_stmt].
  rewrite parse_token_lit by assumption. reflexivity.
Qed.

Print Assumptions parse_token_lit.
Print Assumptions value_toks_f_lit_step.
Print Assumptions skip_stmt_lit_step.

(* ------------------------------------------------------------------ *)
(* 3. CssVariants' atoms extended with full literals *)
Inductive xatom :=
| XA (a : atom)                       (* an atom of CssVariants *)
| XS (q : N) (items : list sitem).    (* a literal in either quote, with escapes *)

Definition xatom_okb (x : xatom) : bool :=
  match x with XA a => atom_okb a | XS q items => quote_okb q && items_okb q items end.
Definition print_xatom (x : xatom) : text :=
  match x with XA a => print_atom a | XS q items => lit q items end.
Definition xatom_tok (x : xatom) : token :=
  match x with XA a => atom_tok a | XS _ items => TString (body items) end.
Definition xafc (x : xatom) : N := match x with XA a => afc a | XS q _ => q end.
Definition xfollows (x : xatom) (R : text) : Prop :=
  match x with XA a => follows a R | XS _ _ => True end.
Definition xfollowsb (x : xatom) (sp : bool) (c : N) : bool :=
  match x with XA a => followsb a sp c | XS _ _ => true end.

Lemma xafc_print : forall x, xatom_okb x = true -> exists r, print_xatom x = mk (xafc x) 1 :: r.
Proof.
  intros [a|q items] H; cbn [xatom_okb print_xatom xafc] in *; [apply afc_print, H|].
  eexists; reflexivity.
Qed.
Lemma xafc_class : forall x, xatom_okb x = true ->
  wsstart (xafc x) = false /\ (xafc x =? 64) = false.
Proof.
  intros [a|q items] H; cbn [xatom_okb xafc] in *; [apply afc_class, H|].
  apply andb_prop in H. destruct H as [H _]. unfold quote_okb in H. split; cls.
Qed.

Theorem xatom_token : forall w x R, wsm w -> xatom_okb x = true -> xfollows x R ->
  parse_token (w ++ print_xatom x ++ R) = POk (xatom_tok x) R.
Proof.
  intros w [a|q items] R Hw Hx HR; cbn [xatom_okb print_xatom xatom_tok xfollows] in *.
  - apply atom_token; assumption.
  - apply andb_prop in Hx. destruct Hx as [Hq Hi]. apply parse_token_lit; assumption.
Qed.

Definition xatoms := list (text * xatom).
Definition print_xatoms (l : xatoms) : text := flat_map (fun wx => fst wx ++ print_xatom (snd wx)) l.
Definition xatoms_ok (l : xatoms) : Prop :=
  Forall (fun wx => wsm (fst wx) /\ xatom_okb (snd wx) = true) l.
Fixpoint xchain (l : xatoms) : bool :=
  match l with
  | (_, x) :: (((w', x') :: _) as l') => xfollowsb x (negb (isnil w')) (xafc x') && xchain l'
  | _ => true
  end.
Definition xtoks_of (l : xatoms) : list token := map (fun wx => xatom_tok (snd wx)) l.
(* the embedding of CssVariants' atom lists *)
Definition xlift (l : atoms) : xatoms := map (fun wa => (fst wa, XA (snd wa))) l.

Lemma print_xatoms_cons : forall w x l, print_xatoms ((w, x) :: l) = w ++ print_xatom x ++ print_xatoms l.
Proof. intros; unfold print_xatoms; cbn [flat_map fst snd]. rewrite <- app_assoc. reflexivity. Qed.
Lemma print_xatoms_app : forall l1 l2, print_xatoms (l1 ++ l2) = print_xatoms l1 ++ print_xatoms l2.
Proof. intros; unfold print_xatoms; apply flat_map_app. Qed.

Lemma xfollows_next : forall x w' x' T, wsm w' -> xatom_okb x' = true ->
  xfollowsb x (negb (isnil w')) (xafc x') = true -> xfollows x (w' ++ print_xatom x' ++ T).
Proof.
  intros [a|q items] w' x' T Hw Hx Hf; cbn [xfollows xfollowsb] in *; [|exact I].
  destruct (xafc_print x' Hx) as (r & Er). rewrite Er. cbn [app].
  apply follows_b; [exact Hw|apply (xafc_class x' Hx)|exact Hf].
Qed.
Lemma xfollows_vend : forall x K, vend K -> xfollows x K.
Proof. intros [a|q items] K HK; cbn [xfollows]; [apply follows_vend, HK|exact I]. Qed.
Lemma print_xatom_ne : forall x, xatom_okb x = true -> print_xatom x <> [].
Proof. intros x Hx. destruct (xafc_print x Hx) as (r & Er). rewrite Er. discriminate. Qed.

Lemma xatoms_head : forall w x l E, xatoms_ok ((w, x) :: l) -> xchain ((w, x) :: l) = true ->
  (l = [] -> xfollows x E) ->
  parse_token (w ++ print_xatom x ++ print_xatoms l ++ E) = POk (xatom_tok x) (print_xatoms l ++ E).
Proof.
  intros w x l E Hok Hch HE. inversion Hok as [|wx l0 [Hw Hx] Hl]; subst. cbn [fst snd] in *.
  apply xatom_token; [exact Hw|exact Hx|].
  destruct l as [|[w' x'] l'].
  - cbn [print_xatoms flat_map app]. apply HE; reflexivity.
  - inversion Hl as [|wx' l0' [Hw' Hx'] Hl']; subst. cbn [fst snd] in *.
    rewrite print_xatoms_cons, <- !app_assoc.
    cbn [xchain] in Hch. apply andb_prop in Hch. destruct Hch as [Hf _].
    apply xfollows_next; assumption.
Qed.
Lemma xchain_tl : forall wx l, xchain (wx :: l) = true -> xchain l = true.
Proof.
  intros [w x] [|[w' x'] l] H; [reflexivity|]. cbn [xchain] in H. apply andb_prop in H. tauto.
Qed.
Lemma xatoms_step_len : forall w x (T : text), xatom_okb x = true ->
  (length T < length (w ++ print_xatom x ++ T))%nat.
Proof.
  intros w x T Hx. rewrite !app_length. pose proof (print_xatom_ne x Hx).
  destruct (print_xatom x); [congruence|cbn [length]; lia].
Qed.

(* ------------------------------------------------------------------ *)
(* 4. declaration values made of extended atoms *)
Definition xvatom (x : xatom) : bool := match x with XA a => vatom a | XS _ _ => true end.
(* the bracket depth is computed from the TOKENS: a literal is one TString token, so whatever is
   written inside it (`;` `}` `(` `[` ...) does not count *)
Fixpoint xvdepth (l : xatoms) (d : nat) : bool :=
  match l with
  | [] => Nat.eqb d 0
  | (_, x) :: l' =>
      negb (is_semicolon (xatom_tok x) && Nat.eqb d 0) && xvdepth l' (depth_after (xatom_tok x) d)
  end.
Lemma xvatom_tok : forall x, xatom_okb x = true -> xvatom x = true ->
  is_close_brace (xatom_tok x) = false.
Proof. intros [a|q items] Hx Hv; [apply vatom_tok; assumption|reflexivity]. Qed.

Lemma xatoms_many : forall l d K, xatoms_ok l -> forallb (fun wx => xvatom (snd wx)) l = true ->
  xvdepth l d = true -> xchain l = true -> vend K ->
  ValR d (print_xatoms l ++ K) (xtoks_of l) K.
Proof.
  induction l as [|[w x] l IH]; intros d K Hok Hv Hdp Hch HK.
  - cbn [xvdepth] in Hdp. apply Nat.eqb_eq in Hdp. subst d.
    apply VR_nil. apply (vend_vstop K HK).
  - cbn [forallb snd] in Hv. apply andb_prop in Hv. destruct Hv as [Hva Hv].
    cbn [xvdepth] in Hdp. apply andb_prop in Hdp. destruct Hdp as [Hsemi Hdp].
    pose proof Hok as Hok'. inversion Hok' as [|wx l0 [Hw Hx] Hl]; subst. cbn [fst snd] in *.
    rewrite print_xatoms_cons, <- !app_assoc. cbn [xtoks_of map snd].
    eapply VR_cons.
    + unfold vstep.
      rewrite (xatoms_head w x l K Hok Hch (fun _ => xfollows_vend x K HK)).
      rewrite (xvatom_tok x Hx Hva). cbn [orb].
      destruct (is_semicolon (xatom_tok x) && Nat.eqb d 0); [discriminate|reflexivity].
    + apply xatoms_step_len, Hx.
    + apply IH; auto. eapply xchain_tl, Hch.
Qed.

(* MAIN 2 (whole value): the value of a declaration, written with literals anywhere, is exactly its
   token list and ends at K = optional whitespace then the first `;` at depth 0 OUTSIDE literals
   (or the `}` of the block) *)
Theorem value_toks_xatoms : forall l K, xatoms_ok l -> forallb (fun wx => xvatom (snd wx)) l = true ->
  xvdepth l 0 = true -> xchain l = true -> vend K ->
  value_toks (print_xatoms l ++ K) = POk (xtoks_of l) K.
Proof. intros l K Hok Hv Hd Hch HK. apply value_toks_R, xatoms_many; assumption. Qed.

(* a whole declaration `name : value` (name in any letter case) *)
Record xditem := mkxditem { xdi_name : list N; xdi_w1 : text; xdi_val : xatoms }.
Definition print_xditem (i : xditem) : text :=
  of_ascii (xdi_name i) ++ xdi_w1 i ++ of_ascii [58] ++ print_xatoms (xdi_val i).
Definition xitem_decl (i : xditem) : declaration :=
  let v := strip_important (xtoks_of (xdi_val i)) in
  mkdecl (decl_of (of_ascii (map lowerN (xdi_name i))) (fst v)) (snd v).
Definition xditem_ok (i : xditem) : Prop :=
  name_okb (xdi_name i) = true /\ wsm (xdi_w1 i) /\ xdi_val i <> [] /\ xatoms_ok (xdi_val i) /\
  forallb (fun wx => xvatom (snd wx)) (xdi_val i) = true /\ xvdepth (xdi_val i) 0 = true /\
  xchain (xdi_val i) = true.

Theorem parse_declaration_xitem : forall i K, xditem_ok i -> vend K ->
  parse_declaration (print_xditem i ++ K) = POk (xitem_decl i) K.
Proof.
  intros [n w1 val] K (Hn & Hw1 & Hne & Hok & Hv & Hdp & Hch) HK. cbn [xdi_name xdi_w1 xdi_val] in *.
  unfold parse_declaration, print_xditem, xitem_decl; cbn [xdi_name xdi_w1 xdi_val]. rewrite <- !app_assoc.
  rewrite parse_ident_name;
    [|exact Hn|apply wsm_nf; [exact Hw1|intros; cls2|right; apply nf_lit; reflexivity]].
  cbn [pbind]. cbv zeta.
  rewrite skip_ws_wsm by (auto; apply nf_lit; reflexivity).
  rewrite ptag_lit. cbn [pbind].
  destruct val as [|[w x] l]; [congruence|].
  inversion Hok as [|wx l0 [Hw Hx] Hl]; subst. cbn [fst snd] in *.
  rewrite print_xatoms_cons, <- !app_assoc.
  assert (Hsk : skip_ws (w ++ print_xatom x ++ print_xatoms l ++ K) = print_xatoms (([], x) :: l) ++ K).
  { rewrite print_xatoms_cons, <- !app_assoc. cbn [app]. apply skip_ws_wsm; [exact Hw|].
    destruct (xafc_print x Hx) as (r & Er). rewrite Er. cbn [app nf cp mk]. apply (xafc_class x Hx). }
  rewrite Hsk.
  assert (HM : ValR 0 (print_xatoms (([], x) :: l) ++ K) (xtoks_of ((w, x) :: l)) K).
  { apply (xatoms_many (([], x) :: l) 0%nat K); auto.
    constructor; [split; [apply wsm_nil|exact Hx]|exact Hl]. }
  unfold parse_value. rewrite (value_toks_R _ _ _ HM). cbn [pbind]. unfold strip_important.
  destruct (ends_important (xtoks_of ((w, x) :: l))); reflexivity.
Qed.

(* an unknown property name: the whole declaration, literals included, means DUnknown *)
Theorem unknown_xitem : forall i, known_name (map lowerN (xdi_name i)) = false ->
  is_unknown (xitem_decl i) = true.
Proof.
  intros i H. unfold xitem_decl, is_unknown; cbn [d_data]. unfold decl_of, is_ascii_str.
  rewrite cps_of_ascii. unfold known_name, known_names in H. cbn [existsb] in H.
  repeat (apply orb_false_elim in H; destruct H as [E H]; rewrite E; clear E). reflexivity.
Qed.

Print Assumptions value_toks_xatoms.
Print Assumptions parse_declaration_xitem.
Print Assumptions unknown_xitem.

(* ------------------------------------------------------------------ *)
(* 5. skipped statements made of extended atoms; junk statements *)
Definition xcomplete (l : xatoms) : Prop := skip_sim (xtoks_of l) [] = Some [].

Lemma xtoks_of_nil : forall l, xtoks_of l = [] -> l = [].
Proof. intros [|x l] H; [reflexivity|discriminate]. Qed.

Lemma skip_stmt_xatoms : forall l stack rest fuel, xatoms_ok l -> xchain l = true ->
  skip_sim (xtoks_of l) stack = Some [] -> (length l < fuel)%nat ->
  skip_stmt fuel (print_xatoms l ++ rest) stack = POk tt rest.
Proof.
  induction l as [|[w x] l IH]; intros stack rest fuel Hok Hch Hs Hf; [discriminate|].
  destruct fuel as [|f]; [lia|]. cbn [length] in Hf.
  pose proof Hok as Hok'. inversion Hok' as [|wx l0 [Hw Hx] Hl]; subst. cbn [fst snd] in *.
  pose proof (xchain_tl _ _ Hch) as Hch'.
  assert (HE : l = [] -> xfollows x rest).
  { intros ->. destruct x as [a|q items]; [|exact I]. cbn [xfollows].
    destruct a; try exact I; discriminate. }
  rewrite print_xatoms_cons, <- !app_assoc. cbn [skip_stmt].
  rewrite (xatoms_head w x l rest Hok Hch HE).
  change (xtoks_of ((w, x) :: l)) with (xatom_tok x :: xtoks_of l) in Hs.
  assert (Hrec : forall st, skip_sim (xtoks_of l) st = Some [] ->
                 skip_stmt f (print_xatoms l ++ rest) st = POk tt rest)
    by (intros st Hst; apply IH; auto; lia).
  assert (Hend : Some (xtoks_of l) = Some [] -> print_xatoms l ++ rest = rest).
  { intros E. injection E as E. apply xtoks_of_nil in E. subst l. reflexivity. }
  destruct (xatom_tok x) eqn:Et; cbn [skip_sim closer_kind] in Hs; cbn [closer_kind];
    try (apply Hrec; exact Hs).
  - destruct stack as [|top_ stack']; [discriminate|].
    destruct (top_ =? 1); [|discriminate]. change (1 =? 3) with false in *. cbn [andb] in *.
    apply Hrec; exact Hs.
  - destruct stack as [|top_ stack']; [rewrite (Hend Hs); reflexivity|apply Hrec; exact Hs].
  - destruct stack as [|top_ stack']; [discriminate|].
    destruct (top_ =? 2); [|discriminate]. change (2 =? 3) with false in *. cbn [andb] in *.
    apply Hrec; exact Hs.
  - destruct stack as [|top_ stack']; [discriminate|].
    destruct (top_ =? 0); [|discriminate]. change (0 =? 3) with false in *. cbn [andb] in *.
    apply Hrec; exact Hs.
  - destruct stack as [|top_ stack']; [discriminate|].
    destruct (top_ =? 3); [|discriminate]. change (3 =? 3) with true in *. cbn [andb] in *.
    destruct stack' as [|t2 st2]; [rewrite (Hend Hs); reflexivity|apply Hrec; exact Hs].
Qed.

Lemma print_xatoms_len : forall l, xatoms_ok l -> (length l <= length (print_xatoms l))%nat.
Proof.
  induction l as [|[w x] l IH]; intros Hok; [cbn; lia|].
  inversion Hok as [|wx l0 [Hw Hx] Hl]; subst. cbn [fst snd] in *.
  rewrite print_xatoms_cons, !app_length. pose proof (print_xatom_ne x Hx). specialize (IH Hl).
  destruct (print_xatom x); [congruence|cbn [length]; lia].
Qed.

(* MAIN 3 (whole statement): skip_to_end_of_statement consumes exactly the statement: up to and
   including the first `;` outside brackets AND outside literals (or its balanced block) *)
Theorem skip_to_end_xatoms : forall l rest, xatoms_ok l -> xchain l = true -> xcomplete l ->
  skip_to_end_of_statement (print_xatoms l ++ rest) = POk tt rest.
Proof.
  intros l rest Hok Hch Hc. unfold skip_to_end_of_statement. apply skip_stmt_xatoms; auto.
  rewrite app_length. pose proof (print_xatoms_len l Hok). lia.
Qed.

(* at-rules with literals in the prelude (or anywhere in the block) are junk statements *)
Definition xat_follow (l : xatoms) : bool :=
  match l with (w, x) :: _ => negb (isnil w) || negb (identcont (xafc x)) | [] => false end.
Definition print_xat (nm : list N) (l : xatoms) : text :=
  of_ascii [64] ++ of_ascii nm ++ print_xatoms l.

Theorem junk_at_rule_x : forall nm l, name_okb nm = true -> xatoms_ok l -> xchain l = true ->
  xcomplete l -> xat_follow l = true -> junk_ok (print_xat nm l).
Proof.
  intros nm l Hnm Hok Hch Hc Haf. split; [exists (mk 64 1); eexists; split; reflexivity|].
  intros w rest Hw. unfold print_xat. rewrite <- !app_assoc.
  assert (Hid : nf identcont (print_xatoms l ++ rest)).
  { destruct l as [|[w1 x1] l']; [discriminate|]. cbn [xat_follow] in Haf.
    inversion Hok as [|wx l0 [Hw1 Hx1] Hl]; subst. cbn [fst snd] in *.
    rewrite print_xatoms_cons, <- !app_assoc.
    apply (xfollows_next (XA (AHash [])) w1 x1 _ Hw1 Hx1). exact Haf. }
  unfold parse_statement.
  rewrite parse_ruleset_ws by (auto; apply nf_lit; reflexivity).
  rewrite parse_ruleset_fail_start by (apply nf_lit; reflexivity). cbn [pmap palt].
  unfold parse_at_rule. rewrite skip_ws_wsm by (auto; apply nf_lit; reflexivity).
  rewrite ptag_lit. cbn [pbind].
  rewrite skip_ws_id by (apply name_first; [exact Hnm|reflexivity|intros; cls2]).
  rewrite parse_ident_name by assumption. cbn [pbind].
  rewrite skip_to_end_xatoms by assumption. reflexivity.
Qed.

(* unparsable rule sets with literals (attribute selectors `a[href=<dq>x;y<dq>] {..}` ...) *)
Theorem junk_unparsable_x : forall x l, xatoms_ok (([], x) :: l) -> xchain (([], x) :: l) = true ->
  xcomplete (([], x) :: l) -> ruleset_fails (print_xatoms (([], x) :: l)) ->
  junk_ok (print_xatoms (([], x) :: l)).
Proof.
  intros x l Hok Hch Hc Hfail.
  inversion Hok as [|wx l0 [_ Hx] Hl]; subst. cbn [fst snd] in *.
  destruct (xafc_print x Hx) as (r & Er). destruct (xafc_class x Hx) as [Hws H64].
  assert (Hfirst : forall (P : N -> bool) T, P (xafc x) = false -> nf P (print_xatoms (([], x) :: l) ++ T)).
  { intros P T HP. rewrite print_xatoms_cons. cbn [app]. rewrite Er. cbn [app nf cp mk]. exact HP. }
  split.
  - rewrite print_xatoms_cons. cbn [app]. rewrite Er. cbn [app]. exists (mk (xafc x) 1). eexists. split; [reflexivity|exact Hws].
  - intros w rest Hw. unfold parse_statement.
    rewrite parse_ruleset_ws by (auto; apply Hfirst; exact Hws).
    rewrite Hfail. cbn [pmap palt].
    unfold parse_at_rule. rewrite skip_ws_wsm by (auto; apply Hfirst; exact Hws).
    rewrite ptag_nf by (apply Hfirst; exact H64). cbn [pbind pmap palt].
    unfold skip_unparsable_ruleset.
    assert (E : w ++ print_xatoms (([], x) :: l) ++ rest = print_xatoms ((w, x) :: l) ++ rest).
    { rewrite !print_xatoms_cons, <- !app_assoc. reflexivity. }
    rewrite E. rewrite skip_to_end_xatoms.
    + cbn [pbind]. rewrite print_xatoms_cons, <- !app_assoc.
      pose proof (xatoms_step_len w x (print_xatoms l ++ rest) Hx) as Hlen.
      assert (Hlen2 : (length rest <= length (print_xatoms l ++ rest))%nat) by (rewrite app_length; lia).
      destruct (Nat.eqb_spec (length rest) (length (w ++ print_xatom x ++ print_xatoms l ++ rest))) as [E2|E2];
        [lia|reflexivity].
    + constructor; [split; [exact Hw|exact Hx]|exact Hl].
    + exact Hch.
    + exact Hc.
Qed.

Print Assumptions skip_to_end_xatoms.
Print Assumptions junk_at_rule_x.
Print Assumptions junk_unparsable_x.

(* ------------------------------------------------------------------ *)
(* 6. style sheets: a junk statement with literals, put anywhere into a variant sheet, changes
   nothing.  (CssVariants.vsheet_ok / variant_rules / variants_agree are parametric in junk_ok, so
   the new statements are simply more inhabitants of VJunk.) *)
Lemma vsheet_raw_app : forall a b, vsheet_raw (a ++ b) = vsheet_raw a ++ vsheet_raw b.
Proof. intros; unfold vsheet_raw; apply flat_map_app. Qed.
Lemma print_vsheet_app : forall a b, print_vsheet (a ++ b) = print_vsheet a ++ print_vsheet b.
Proof. intros; unfold print_vsheet; apply flat_map_app. Qed.

Theorem junk_insert_insignificant : forall lead pre post j w,
  wsm lead -> vsheet_ok (pre ++ post) -> junk_ok j -> wsm w ->
  parse_css_rules (lead ++ print_vsheet (pre ++ VJunk j w :: post))
  = parse_css_rules (lead ++ print_vsheet (pre ++ post)).
Proof.
  intros lead pre post j w Hlead Hok Hj Hw.
  apply variants_agree; try assumption.
  - unfold vsheet_ok in *. apply Forall_app in Hok. destruct Hok as [H1 H2].
    apply Forall_app; split; [exact H1|]. apply Forall_cons; [split; assumption|exact H2].
  - unfold vsheet_meaning. rewrite !vsheet_raw_app. reflexivity.
Qed.

(* MAIN 3 (sheet level): an at-rule whose tokens include string literals with escaped quotes, `;`,
   braces, brackets inside - e.g. @import <dq>a\<dq>b;c.css<dq>; - is insignificant wherever it stands *)
Theorem at_rule_with_literals_insignificant : forall lead pre post nm l w,
  wsm lead -> vsheet_ok (pre ++ post) -> wsm w ->
  name_okb nm = true -> xatoms_ok l -> xchain l = true -> xcomplete l -> xat_follow l = true ->
  parse_css_rules (lead ++ print_vsheet (pre ++ VJunk (print_xat nm l) w :: post))
  = parse_css_rules (lead ++ print_vsheet (pre ++ post)).
Proof.
  intros. apply junk_insert_insignificant; try assumption. apply junk_at_rule_x; assumption.
Qed.

Print Assumptions junk_insert_insignificant.
Print Assumptions at_rule_with_literals_insignificant.

(* ------------------------------------------------------------------ *)
(* 7. non-vacuity *)
Import String.StringSyntax.
Definition chars (s : String.string) : list sitem := map SChar (css s).
Arguments chars s%string.
Ltac xatoms_tac :=
  repeat (apply Forall_cons; [cbn [fst snd]; split; [wsm_tac|vm_compute; reflexivity]|]); apply Forall_nil.

(* <dq>a\<dq>b;c.css<dq>   : escaped quote of the same kind, `;` inside *)
Definition ex_items1 : list sitem := chars "a" ++ [SEsc (mk 34 1)] ++ chars "b;c.css".
(* 'x\'y}{;(<dq>z\<newline>w'   : single quotes, the other quote, braces, brackets, line continuation *)
Definition ex_items2 : list sitem :=
  chars "x" ++ [SEsc (mk 39 1)] ++ chars "y}{;(""z" ++ [SEscNl] ++ chars "w".

Example ex_lit_texts :
  lit 34 ex_items1 = css """a\""b;c.css""" /\
  lit 39 ex_items2 = css "'x\'y}{;(""z\" ++ of_ascii [10] ++ css "w'" /\
  body ex_items1 = css "a""b;c.css" /\ body ex_items2 = css "x'y}{;(""zw".
Proof. repeat split; vm_compute; reflexivity. Qed.

Example ex_string_token : forall rest,
  parse_string_token (css """a\""b;c.css""" ++ rest) = POk (TString (css "a""b;c.css")) rest.
Proof. intros rest. apply (parse_string_token_lit 34 ex_items1 rest); reflexivity. Qed.
Example ex_string_token2 : forall rest,
  parse_string_token (lit 39 ex_items2 ++ rest) = POk (TString (css "x'y}{;(""zw")) rest.
Proof. intros rest. apply (parse_string_token_lit 39 ex_items2 rest); reflexivity. Qed.
(* edge cases, computed *)
Example ex_string_edges :
  parse_string_token (css """ab") = POk (TString (css "ab")) [] /\
  parse_string_token (css """ab\") = POk (TString (css "ab")) [] /\
  parse_string_token (css """ab" ++ of_ascii [10] ++ css "c"";") =
    POk (TBadString (css "ab")) (of_ascii [10] ++ css "c"";") /\
  parse_string_token (css """a\""b") = POk (TString (css "a""b")) [].
Proof. repeat split; vm_compute; reflexivity. Qed.

(* @import <dq>a\<dq>b;c.css<dq>;      and      @font-face { src: url('x\'y}{;(<dq>z\<nl>w') ; } *)
Definition ex_xj1 : text :=
  print_xat (s2l "import") [(sp1, XS 34 ex_items1); ([], XA (APunct 59))].
Definition ex_xj2 : text :=
  print_xat (s2l "font-face")
    [(sp1, XA (APunct 123)); (sp1, XA (AIdent (s2l "src"))); ([], XA (APunct 58));
     (sp1, XA (AFun (s2l "url"))); ([], XS 39 ex_items2); ([], XA (APunct 41));
     (sp1, XA (APunct 59)); (sp1, XA (APunct 125))].
Example ex_xj_texts :
  ex_xj1 = css "@import ""a\""b;c.css"";" /\
  ex_xj2 = css "@font-face { src: url('x\'y}{;(""z\" ++ of_ascii [10] ++ css "w') ; }".
Proof. split; vm_compute; reflexivity. Qed.
Example ex_xj1_ok : junk_ok ex_xj1.
Proof. apply junk_at_rule_x; [reflexivity|xatoms_tac|reflexivity|reflexivity|reflexivity]. Qed.
Example ex_xj2_ok : junk_ok ex_xj2.
Proof. apply junk_at_rule_x; [reflexivity|xatoms_tac|reflexivity|reflexivity|reflexivity]. Qed.

(* p{color:red} *)
Definition ex_red_item : ditem := mkditem (s2l "color") [] [([], AIdent (s2l "red"))].
Definition ex_red_rule : vrule :=
  mkvrule (lift_wsp (mkwsp [] [] [] [] [] [] [] [] [] [])) [sel_of "p"]
    (mkvblock [] [] [mkentry ex_red_item [] []]).
Example ex_red_rule_ok : vrule_ok ex_red_rule.
Proof.
  unfold vrule_ok, ex_red_rule; cbn [v_ws v_sels v_block].
  split; [apply wsp0_ok|split; [discriminate|split; [reflexivity|]]].
  unfold block_ok; cbn [b_open b_lead b_entries seps_ok e_semis].
  split; [apply wsm_nil|split; [apply Forall_nil|split; [|exact I]]].
  apply Forall_cons; [|apply Forall_nil]. unfold entry_ok; cbn [e_item e_pre e_semis].
  split; [unfold ex_red_item; ditem_tac|split; [apply wsm_nil|apply Forall_nil]].
Qed.

(* @import <dq>a\<dq>b;c.css<dq>; p{color:red}@font-face { ... }   styles like   p{color:red} *)
Example ex_sheet_by_theorem :
  parse_css_rules (css "@import ""a\""b;c.css""; p{color:red}" ++ ex_xj2)
  = parse_css_rules (css "p{color:red}").
Proof.
  assert (H0 : vsheet_ok ([] ++ [VRule ex_red_rule]))
    by (apply Forall_cons; [exact ex_red_rule_ok|apply Forall_nil]).
  assert (H1 : vsheet_ok ([VRule ex_red_rule] ++ [])) by exact H0.
  pose proof (junk_insert_insignificant [] [] [VRule ex_red_rule] ex_xj1 sp1 wsm_nil H0 ex_xj1_ok
                ltac:(unfold sp1; wsm_tac)) as E1.
  assert (H2 : vsheet_ok ([VJunk ex_xj1 sp1; VRule ex_red_rule] ++ [])).
  { apply Forall_cons; [split; [exact ex_xj1_ok|unfold sp1; wsm_tac]|exact H0]. }
  pose proof (junk_insert_insignificant [] [VJunk ex_xj1 sp1; VRule ex_red_rule] [] ex_xj2 [] wsm_nil
                H2 ex_xj2_ok wsm_nil) as E2.
  cbn [app] in E1, E2. rewrite E1 in E2.
  assert (T1 : css "@import ""a\""b;c.css""; p{color:red}" ++ ex_xj2
               = print_vsheet [VJunk ex_xj1 sp1; VRule ex_red_rule; VJunk ex_xj2 []])
    by (vm_compute; reflexivity).
  assert (T2 : css "p{color:red}" = print_vsheet [VRule ex_red_rule]) by (vm_compute; reflexivity).
  rewrite T1, T2. exact E2.
Qed.
(* the same, and more spellings, by computation on the model *)
Example ex_sheet_computed :
  exists r, parse_css_rules (css "p{color:red}") = CssOk [r] /\
  parse_css_rules (css "@import ""a\""b;c.css""; p{color:red}") = CssOk [r] /\
  parse_css_rules (css "@import 'a\'b;c.css'; p{color:red}") = CssOk [r] /\
  parse_css_rules (css "@import ""}{;'"" x; p{color:red}") = CssOk [r] /\
  parse_css_rules (css "a[href=""x\""];{""]{top:0} p{color:red}") = CssOk [r] /\
  parse_css_rules (css "p{foo: ""a\"";b}"" 'c\'d;' ; color:red}") = CssOk [r] /\
  parse_css_rules (css "p{content-x: ""\"""" ; color:red; bar: '(' }") = CssOk [r].
Proof. eexists. repeat split; vm_compute; reflexivity. Qed.

(* an unknown declaration whose value holds literals with `;` `}` and escaped quotes:
   foo: <dq>a\<dq>;b}<dq> 'c\'d;' url( <dq>;)<dq> )      ends at the first `;` outside literals *)
Definition ex_xitem : xditem :=
  mkxditem (s2l "Foo") []
    [(sp1, XS 34 (chars "a" ++ [SEsc (mk 34 1)] ++ chars ";b}"));
     (sp1, XS 39 (chars "c" ++ [SEsc (mk 39 1)] ++ chars "d;"));
     (sp1, XA (AFun (s2l "url"))); (sp1, XS 34 (chars ";)")); (sp1, XA (APunct 41))].
Example ex_xitem_ok : xditem_ok ex_xitem.
Proof.
  unfold xditem_ok, ex_xitem; cbn [xdi_name xdi_w1 xdi_val].
  split; [vm_compute; reflexivity|split; [wsm_tac|split; [discriminate|split; [xatoms_tac|
    split; [vm_compute; reflexivity|split; vm_compute; reflexivity]]]]].
Qed.
Example ex_xitem_text :
  print_xditem ex_xitem = css "Foo: ""a\"";b}"" 'c\'d;' url( "";)"" )".
Proof. vm_compute; reflexivity. Qed.
Example ex_xitem_parse : forall k,
  parse_declaration (css "Foo: ""a\"";b}"" 'c\'d;' url( "";)"" )" ++ css " ; color:red}" ++ k)
  = POk (mkdecl DUnknown false) (css " ; color:red}" ++ k).
Proof.
  intros k. rewrite <- ex_xitem_text.
  rewrite (parse_declaration_xitem ex_xitem (css " ; color:red}" ++ k) ex_xitem_ok).
  - reflexivity.
  - exists sp1, 59, (css " color:red}" ++ k). split; [unfold sp1; wsm_tac|split; [left; reflexivity|reflexivity]].
Qed.
Example ex_xitem_unknown : is_unknown (xitem_decl ex_xitem) = true.
Proof. apply unknown_xitem. reflexivity. Qed.
(* step lemmas, instantiated *)
Example ex_value_step : forall f acc post,
  value_toks_f (S f) 1 (css " ""a\"";)b}""" ++ post) acc
  = value_toks_f f 1 post (TString (css "a"";)b}") :: acc).
Proof.
  intros f acc post.
  apply (value_toks_f_lit_step f 1 sp1 34 (chars "a" ++ [SEsc (mk 34 1)] ++ chars ";)b}") post acc);
    [unfold sp1; wsm_tac|reflexivity|reflexivity].
Qed.
Example ex_skip_step : forall f stack post,
  skip_stmt (S f) (css " ""a\"";)b}""" ++ post) stack = skip_stmt f post stack.
Proof.
  intros f stack post.
  apply (skip_stmt_lit_step f sp1 34 (chars "a" ++ [SEsc (mk 34 1)] ++ chars ";)b}") post stack);
    [unfold sp1; wsm_tac|reflexivity|reflexivity].
Qed.

(* ------------------------------------------------------------------ *)
(* 8. whole sheets whose DECLARATIONS contain literals: CssVariants' blocks / rule sets / sheets
   re-done over [xditem] (the structure and the proofs are those of CssVariants sections 6-10) *)
Record xentry := mkxentry { xe_item : xditem; xe_pre : text; xe_semis : list text }.
Definition print_xentry (e : xentry) : text :=
  print_xditem (xe_item e) ++ xe_pre e ++ print_semis (xe_semis e).
Definition print_xentries (es : list xentry) : text := flat_map print_xentry es.
Record xvblock := mkxvblock { xb_open : text; xb_lead : list text; xb_entries : list xentry }.
Definition print_xblock (b : xvblock) : text :=
  xb_open b ++ print_semis (xb_lead b) ++ print_xentries (xb_entries b).
Definition xentry_ok (e : xentry) : Prop :=
  xditem_ok (xe_item e) /\ wsm (xe_pre e) /\ Forall wsm (xe_semis e).
Fixpoint xseps_ok (es : list xentry) : Prop :=
  match es with
  | e :: ((_ :: _) as es') => xe_semis e <> [] /\ xseps_ok es'
  | _ => True
  end.
Definition xblock_ok (b : xvblock) : Prop :=
  wsm (xb_open b) /\ Forall wsm (xb_lead b) /\
  Forall xentry_ok (xb_entries b) /\ xseps_ok (xb_entries b).
Definition xblock_decls (b : xvblock) : list declaration :=
  map (fun e => xitem_decl (xe_item e)) (xb_entries b).

Lemma xditem_first : forall (P : N -> bool) i k, xditem_ok i ->
  P 45 = false -> (forall x, mstart x = true -> P x = false) -> nf P (print_xditem i ++ k).
Proof.
  intros P i k (Hn & _) H45 Hm. unfold print_xditem. rewrite <- !app_assoc. apply name_first; auto.
Qed.

Section XBlock.
  Variable Z : text.
  Let C : text := of_ascii [125] ++ Z.
  Let after (e : xentry) (es : list xentry) : text :=
    xe_pre e ++ print_semis (xe_semis e) ++ print_xentries es ++ C.

  Lemma xvend_after : forall e es, xentry_ok e -> xseps_ok (e :: es) -> vend (after e es).
  Proof.
    intros e es (_ & Hpre & Hs) Hsep. unfold after.
    destruct (xe_semis e) as [|w l] eqn:El.
    - destruct es as [|e2 es']; [|cbn [xseps_ok] in Hsep; rewrite El in Hsep; tauto].
      cbn [print_semis print_xentries flat_map app]. apply vend_close, Hpre.
    - rewrite print_semis_cons, <- !app_assoc. apply vend_semi, Hpre.
  Qed.

  Lemma xentries_tail : forall es e, Forall xentry_ok (e :: es) -> xseps_ok (e :: es) ->
    exists pre' semis', wsm pre' /\ Forall wsm semis' /\
      SepR semi_sep parse_declaration (after e es)
           (map (fun e' => xitem_decl (xe_item e')) es) (pre' ++ print_semis semis' ++ C).
  Proof.
    induction es as [|e2 es IH]; intros e Hok Hsep.
    - inversion Hok as [|e0 l0 He _]; subst. destruct He as (Hi & Hpre & Hs).
      exists (xe_pre e), (xe_semis e). split; [exact Hpre|split; [exact Hs|]].
      unfold after. cbn [print_xentries flat_map app map].
      destruct (xe_semis e) as [|w l] eqn:El.
      + cbn [print_semis flat_map app]. apply SR_nil. unfold semi_sep. apply many1_fail.
        apply semi_item_fail; [exact Hpre|apply nf_lit; reflexivity].
      + destruct (semi_sep_many (w :: l) (xe_pre e) C Hpre Hs ltac:(discriminate)
                    ltac:(apply nf_lit; reflexivity)) as (u & Hu).
        eapply SR_stop; [exact Hu| |].
        * rewrite print_semis_cons, !app_length; cbn [length of_ascii map]; lia.
        * unfold parse_declaration. rewrite parse_ident_fail by (apply nf_lit; reflexivity). reflexivity.
    - inversion Hok as [|e0 l0 He Hok']; subst. destruct He as (Hi & Hpre & Hs).
      pose proof Hsep as Hsep'. cbn [xseps_ok] in Hsep'. destruct Hsep' as [Hne Hsep2].
      destruct (IH e2 Hok' Hsep2) as (pre' & semis' & Hp' & Hs' & HS).
      exists pre', semis'. split; [exact Hp'|split; [exact Hs'|]].
      inversion Hok' as [|e0 l0 He2 _]; subst.
      unfold after. cbn [print_xentries flat_map map]. fold (print_xentries es).
      unfold print_xentry at 1. rewrite <- !app_assoc.
      fold (after e2 es).
      destruct (semi_sep_many (xe_semis e) (xe_pre e) (print_xditem (xe_item e2) ++ after e2 es) Hpre Hs Hne
                  ltac:(apply xditem_first; [apply He2|reflexivity|intros; cls2])) as (u & Hu).
      eapply SR_cons; [exact Hu| | | |exact HS].
      + destruct (xe_semis e) as [|w l]; [congruence|].
        rewrite print_semis_cons, !app_length; cbn [length of_ascii map]; lia.
      + apply parse_declaration_xitem; [apply He2|apply xvend_after; assumption].
      + rewrite app_length; lia.
  Qed.

  Lemma xblock_parse : forall b, xblock_ok b ->
    exists Kend u, parse_rules (skip_ws (print_xblock b ++ C)) = POk (xblock_decls b) Kend /\
                   many0 semi_ws (skip_ws Kend) = POk u C.
  Proof.
    intros [op lead es] (Hop & Hlead & Hes & Hsep). cbn [xb_open xb_lead xb_entries] in *.
    unfold print_xblock, xblock_decls; cbn [xb_open xb_lead xb_entries].
    destruct es as [|e es].
    - cbn [print_xentries flat_map map]. rewrite app_nil_r, <- app_assoc.
      rewrite skip_ws_wsm by (auto; apply semis_first; reflexivity).
      assert (HC : nf (fun x => wsstart x || (x =? 59)) C) by (apply nf_lit; reflexivity).
      destruct (lead_semis lead C Hlead HC) as (u0 & Hu0).
      exists C, []. split.
      + unfold parse_rules. rewrite Hu0. cbn [pbind]. apply separated_list0_nil. unfold parse_declaration.
        rewrite parse_ident_fail by (apply nf_lit; reflexivity). reflexivity.
      + rewrite skip_ws_id by (apply nf_lit; reflexivity). apply many0_semi_ws_none.
    - inversion Hes as [|e0 l0 He _]; subst.
      cbn [print_xentries flat_map]. fold (print_xentries es). unfold print_xentry at 1. rewrite <- !app_assoc.
      fold (after e es).
      assert (HD : nf (fun x => wsstart x || (x =? 59)) (print_xditem (xe_item e) ++ after e es))
        by (apply xditem_first; [apply He|reflexivity|intros; cls2]).
      rewrite skip_ws_wsm
        by first [assumption
                 |apply semis_first'; [reflexivity|eapply nf_imp; [|exact HD]; intros x Hx; cls]].
      destruct (lead_semis lead _ Hlead HD) as (u0 & Hu0).
      destruct (xentries_tail es e Hes Hsep) as (pre' & semis' & Hp' & Hs' & HS).
      exists (pre' ++ print_semis semis' ++ C). destruct (semis_ws_many semis' Z Hs') as (u & HM). exists u. split.
      + unfold parse_rules. rewrite Hu0. cbn [pbind map]. eapply separated_list0_R; [|exact HS].
        apply parse_declaration_xitem; [apply He|apply xvend_after; assumption].
      + rewrite skip_ws_wsm by (auto; apply semis_first; reflexivity). apply many0_R, HM.
  Qed.
End XBlock.

Record xvrule := mkxvrule { xv_ws : wsp2; xv_sels : list selector; xv_block : xvblock }.
Definition print_xvrule (v : xvrule) : text :=
  print_sels_ws2 (xv_ws v) (xv_sels v) ++ w_sel (w_base (xv_ws v)) ++ of_ascii [123] ++
  print_xblock (xv_block v) ++ of_ascii [125] ++ w_end (w_base (xv_ws v)).
Definition xvrule_raw (v : xvrule) : cssruleset := mkcrs (xv_sels v) (xblock_decls (xv_block v)).
Definition xvrule_ok (v : xvrule) : Prop :=
  wsp2_ok (xv_ws v) /\ xv_sels v <> [] /\ forallb wf_selector (xv_sels v) = true /\
  xblock_ok (xv_block v).

Lemma print_xvrule_first : forall (P : N -> bool) v k, xvrule_ok v ->
  (forall x, selstart x = true -> P x = false) -> nf P (print_xvrule v ++ k).
Proof.
  intros P [p ss b] k (_ & Hne & Hss & _) HP. cbn [xv_ws xv_sels xv_block] in *.
  destruct ss as [|s ss]; [congruence|].
  cbn [forallb] in Hss. apply andb_prop in Hss; destruct Hss as [Hs _].
  unfold print_xvrule; cbn [xv_ws xv_sels xv_block print_sels_ws2]. rewrite <- !app_assoc.
  apply sel_first; auto.
Qed.

Theorem parse_xvrule : forall v rest, xvrule_ok v ->
  parse_ruleset (print_xvrule v ++ rest)
  = POk (xvrule_raw v) (skip_ws (w_end (w_base (xv_ws v)) ++ rest)).
Proof.
  intros v rest Hv. pose proof Hv as (Hp & Hne & Hss & Hb).
  destruct v as [p ss b]. cbn [xv_ws xv_sels xv_block] in *.
  pose proof Hp as (Hbase & _ & _). set (bs := w_base p) in *.
  assert (Hstart : nf wsstart (print_xvrule (mkxvrule p ss b) ++ rest))
    by (apply print_xvrule_first; [exact Hv|intros x Hx; unfold selstart in Hx; cls]).
  unfold parse_ruleset. cbv zeta. rewrite (skip_ws_id _ Hstart).
  unfold print_xvrule, xvrule_raw; cbn [xv_ws xv_sels xv_block]. fold bs. rewrite <- !app_assoc.
  destruct (sels_ok p Hp (print_xblock b ++ of_ascii [125] ++ w_end bs ++ rest) ss Hne Hss)
    as (r1 & Hsel & Hr1). fold bs in Hsel.
  rewrite Hsel. cbn [pbind]. rewrite Hr1. rewrite ptag_lit. cbn [pbind].
  destruct (xblock_parse (w_end bs ++ rest) b Hb) as (Kend & u & Hrules & Hmany).
  rewrite Hrules. cbn [pbind]. rewrite Hmany. cbn [pbind].
  rewrite skip_ws_id by (apply nf_lit; reflexivity). rewrite ptag_lit. reflexivity.
Qed.

Inductive xvstmt :=
| XRule (v : xvrule)
| XJunk (j : text) (w : text).
Definition print_xvstmt (s : xvstmt) : text :=
  match s with XRule v => print_xvrule v | XJunk j w => j ++ w end.
Definition print_xvsheet (ss : list xvstmt) : text := flat_map print_xvstmt ss.
Definition xvstmt_ok (s : xvstmt) : Prop :=
  match s with XRule v => xvrule_ok v | XJunk j w => junk_ok j /\ wsm w end.
Definition xvsheet_ok (ss : list xvstmt) : Prop := Forall xvstmt_ok ss.
Definition xvstmt_item (s : xvstmt) : option cssruleset :=
  match s with XRule v => Some (xvrule_raw v) | XJunk _ _ => None end.
Definition xvsheet_raw (ss : list xvstmt) : list cssruleset :=
  flat_map (fun s => match s with XRule v => [xvrule_raw v] | XJunk _ _ => [] end) ss.

Lemma xvsheet_many : forall ss, xvsheet_ok ss ->
  nf wsstart (print_xvsheet ss) /\
  forall w, wsm w -> exists rest, wsm rest /\
    ManyR parse_statement (w ++ print_xvsheet ss) (map xvstmt_item ss) rest.
Proof.
  induction ss as [|s ss IH]; intros Hok.
  - split; [exact I|]. intros w Hw. exists w. split; [exact Hw|].
    cbn [print_xvsheet flat_map map]. rewrite app_nil_r. apply MR_nil, parse_statement_ws, Hw.
  - inversion Hok as [|s0 ss0 Hs Hok']; subst. destruct (IH Hok') as [Hnf Hmany].
    unfold print_xvsheet; cbn [flat_map map]. fold (print_xvsheet ss).
    destruct s as [v|j wj]; cbn [xvstmt_ok print_xvstmt xvstmt_item] in *.
    + assert (Hfirst : nf wsstart (print_xvrule v ++ print_xvsheet ss))
        by (apply print_xvrule_first; [exact Hs|intros x Hx; unfold selstart in Hx; cls]).
      split; [exact Hfirst|]. intros w Hw.
      destruct (Hmany [] wsm_nil) as (rest & Hrest & HM). cbn [app] in HM.
      exists rest. split; [exact Hrest|].
      pose proof Hs as ((( _ & _ & _ & _ & _ & _ & _ & _ & _ & Hend) & _ & _) & _).
      eapply MR_cons; [| |exact HM].
      * unfold parse_statement. rewrite parse_ruleset_ws by assumption.
        rewrite (parse_xvrule v _ Hs). cbn [pmap palt].
        rewrite skip_ws_wsm by assumption. reflexivity.
      * rewrite !app_length.
        assert (0 < length (print_xvrule v))%nat; [|lia].
        destruct (print_xvrule v) eqn:E; [|cbn; lia]. exfalso.
        destruct Hs as (_ & Hne & Hss & _). unfold print_xvrule in E.
        destruct (xv_sels v) as [|s1 ss1]; [congruence|].
        cbn [forallb] in Hss. apply andb_prop in Hss. destruct Hss as [Hs1 _].
        cbn [print_sels_ws2] in E. rewrite <- !app_assoc in E.
        apply (print_selector_ne (w_nth (xv_ws v)) s1 Hs1).
        destruct (print_selector_q (w_nth (xv_ws v)) s1); [reflexivity|discriminate].
    + destruct Hs as [[(c & r & Ej & Hc) Hj] Hwj].
      split; [rewrite Ej; cbn [app nf]; exact Hc|]. intros w Hw.
      destruct (Hmany wj Hwj) as (rest & Hrest & HM).
      exists rest. split; [exact Hrest|].
      rewrite <- !app_assoc.
      eapply MR_cons; [apply Hj, Hw| |exact HM].
      rewrite Ej, !app_length. cbn [length]. lia.
Qed.

Theorem xvariant_sheet_rt : forall lead ss, wsm lead -> xvsheet_ok ss ->
  exists rest, wsm rest /\ parse_stylesheet (lead ++ print_xvsheet ss) = POk (xvsheet_raw ss) rest.
Proof.
  intros lead ss Hlead Hok. destruct (xvsheet_many ss Hok) as [_ Hmany].
  destruct (Hmany lead Hlead) as (rest & Hrest & HM). exists rest. split; [exact Hrest|].
  unfold parse_stylesheet. rewrite (many0_R _ _ _ _ _ HM). cbn [pbind]. f_equal.
  clear. induction ss as [|[v|j w] ss IH]; cbn [map flat_map xvstmt_item xvsheet_raw app]; [reflexivity| |];
    unfold xvsheet_raw in IH; rewrite IH; reflexivity.
Qed.

(* the rule sets the sheet means: as written, minus the unknown declarations *)
Definition xvsheet_meaning (ss : list xvstmt) : list cssruleset := map clean_rs (xvsheet_raw ss).

(* MAIN 4: a sheet written with literals (escapes, both quotes, `;` `}` brackets inside) in
   declaration values and in junk statements gives exactly the rules of its meaning *)
Theorem xvariant_rules : forall lead ss, wsm lead -> xvsheet_ok ss ->
  parse_css_rules (lead ++ print_xvsheet ss) = CssOk (rules_of (xvsheet_meaning ss)).
Proof.
  intros lead ss Hlead Hok. destruct (xvariant_sheet_rt lead ss Hlead Hok) as (rest & _ & H).
  rewrite (parse_css_rules_of _ _ _ H). unfold xvsheet_meaning. rewrite rules_of_clean. reflexivity.
Qed.
(* ... hence two such sheets with the same meaning - and such a sheet and a CssVariants sheet with
   the same meaning - style every document identically *)
Theorem xvariants_agree : forall lead1 ss1 lead2 ss2,
  wsm lead1 -> xvsheet_ok ss1 -> wsm lead2 -> xvsheet_ok ss2 ->
  xvsheet_meaning ss1 = xvsheet_meaning ss2 ->
  parse_css_rules (lead1 ++ print_xvsheet ss1) = parse_css_rules (lead2 ++ print_xvsheet ss2).
Proof.
  intros lead1 ss1 lead2 ss2 H1 Hok1 H2 Hok2 E.
  rewrite (xvariant_rules lead1 ss1 H1 Hok1), (xvariant_rules lead2 ss2 H2 Hok2), E. reflexivity.
Qed.
Theorem xvariant_agrees_with_variant : forall lead1 ss1 lead2 ss2,
  wsm lead1 -> xvsheet_ok ss1 -> wsm lead2 -> vsheet_ok ss2 ->
  xvsheet_meaning ss1 = vsheet_meaning ss2 ->
  parse_css_rules (lead1 ++ print_xvsheet ss1) = parse_css_rules (lead2 ++ print_vsheet ss2).
Proof.
  intros lead1 ss1 lead2 ss2 H1 Hok1 H2 Hok2 E.
  rewrite (xvariant_rules lead1 ss1 H1 Hok1), (variant_rules lead2 ss2 H2 Hok2), E. reflexivity.
Qed.

Print Assumptions parse_xvrule.
Print Assumptions xvariant_sheet_rt.
Print Assumptions xvariant_rules.
Print Assumptions xvariants_agree.
Print Assumptions xvariant_agrees_with_variant.

(* non-vacuity of section 8 *)
Definition ex_xred_item : xditem := mkxditem (s2l "color") [] [([], XA (AIdent (s2l "red")))].
Definition ex_xrule : xvrule :=
  mkxvrule (lift_wsp (mkwsp [] [] [] [] [] [] [] [] [] [])) [sel_of "p"]
    (mkxvblock [] [] [mkxentry ex_xitem sp1 [sp1]; mkxentry ex_xred_item [] []]).
Definition ex_xsheet : list xvstmt := [XJunk ex_xj1 sp1; XRule ex_xrule; XJunk ex_xj2 []].

Example ex_xsheet_ok : xvsheet_ok ex_xsheet.
Proof.
  unfold xvsheet_ok, ex_xsheet.
  repeat (apply Forall_cons; [|]); try apply Forall_nil; cbn [xvstmt_ok].
  - split; [apply ex_xj1_ok|unfold sp1; wsm_tac].
  - unfold xvrule_ok, ex_xrule; cbn [xv_ws xv_sels xv_block].
    split; [apply wsp0_ok|split; [discriminate|split; [reflexivity|]]].
    unfold xblock_ok; cbn [xb_open xb_lead xb_entries xseps_ok xe_semis].
    split; [apply wsm_nil|split; [apply Forall_nil|split]].
    + apply Forall_cons; [|apply Forall_cons; [|apply Forall_nil]];
        unfold xentry_ok; cbn [xe_item xe_pre xe_semis].
      * split; [apply ex_xitem_ok|split; [unfold sp1; wsm_tac|
          apply Forall_cons; [unfold sp1; wsm_tac|apply Forall_nil]]].
      * split; [|split; [apply wsm_nil|apply Forall_nil]].
        unfold xditem_ok, ex_xred_item; cbn [xdi_name xdi_w1 xdi_val].
        split; [vm_compute; reflexivity|split; [wsm_tac|split; [discriminate|split; [xatoms_tac|
          split; [vm_compute; reflexivity|split; vm_compute; reflexivity]]]]].
    + split; [discriminate|exact I].
  - split; [apply ex_xj2_ok|apply wsm_nil].
Qed.
Example ex_xsheet_text : print_xvsheet ex_xsheet =
  css "@import ""a\""b;c.css""; p{Foo: ""a\"";b}"" 'c\'d;' url( "";)"" ) ; color:red}" ++ ex_xj2.
Proof. vm_compute. reflexivity. Qed.
Example ex_xsheet_meaning : xvsheet_meaning ex_xsheet = vsheet_meaning [VRule ex_red_rule].
Proof. vm_compute. reflexivity. Qed.
(* by the theorem: the sheet with the literal-laden junk and unknown declaration styles like p{color:red} *)
Example ex_xsheet_by_theorem :
  parse_css_rules
    (css "@import ""a\""b;c.css""; p{Foo: ""a\"";b}"" 'c\'d;' url( "";)"" ) ; color:red}" ++ ex_xj2)
  = parse_css_rules (css "p{color:red}").
Proof.
  rewrite <- ex_xsheet_text.
  assert (T2 : css "p{color:red}" = print_vsheet [VRule ex_red_rule]) by (vm_compute; reflexivity).
  rewrite T2.
  apply (xvariant_agrees_with_variant [] ex_xsheet [] [VRule ex_red_rule] wsm_nil ex_xsheet_ok wsm_nil).
  - apply Forall_cons; [exact ex_red_rule_ok|apply Forall_nil].
  - exact ex_xsheet_meaning.
Qed.
Example ex_xsheet_computed : exists r,
  parse_css_rules (print_xvsheet ex_xsheet) = CssOk [r] /\ parse_css_rules (css "p{color:red}") = CssOk [r].
Proof. eexists. split; vm_compute; reflexivity. Qed.

(* ------------------------------------------------------------------ *)
(* 9. the one place where the VALUE of a literal matters: `content`.  The declared text is the
   unescaped body (an escaped quote stays inside it, the text after it is not cut off) *)
Theorem content_literal_decl : forall w1 w q items,
  xitem_decl (mkxditem p_content w1 [(w, XS q items)]) = mkdecl (DContent (body items)) false.
Proof.
  intros w1 w q items. unfold xitem_decl. cbn [xdi_name xdi_val xtoks_of map snd xatom_tok].
  assert (E : forall t, strip_important [TString t] = ([TString t], false)) by reflexivity.
  rewrite E. cbn [fst snd].
  assert (D : forall t, decl_of (of_ascii (map lowerN p_content)) [TString t] = DContent (t ++ []))
    by (intros t; vm_compute; reflexivity).
  rewrite D, app_nil_r. reflexivity.
Qed.
Theorem content_literal_parse : forall w1 w q items K,
  wsm w1 -> wsm w -> quote_okb q = true -> items_okb q items = true -> vend K ->
  parse_declaration (of_ascii p_content ++ w1 ++ of_ascii [58] ++ w ++ lit q items ++ K)
  = POk (mkdecl (DContent (body items)) false) K.
Proof.
  intros w1 w q items K Hw1 Hw Hq Hi HK.
  rewrite <- (content_literal_decl w1 w q items).
  rewrite <- (parse_declaration_xitem (mkxditem p_content w1 [(w, XS q items)]) K); [|
    unfold xditem_ok; cbn [xdi_name xdi_w1 xdi_val];
    split; [reflexivity|split; [exact Hw1|split; [discriminate|split; [|split; [reflexivity|split; reflexivity]]]]];
    apply Forall_cons; [cbn [fst snd xatom_okb]; split; [exact Hw|rewrite Hq, Hi; reflexivity]|apply Forall_nil]
    |exact HK].
  unfold print_xditem; cbn [xdi_name xdi_w1 xdi_val]. rewrite print_xatoms_cons.
  cbn [print_xatoms flat_map print_xatom]. rewrite app_nil_r, <- !app_assoc. reflexivity.
Qed.
Print Assumptions content_literal_parse.

Example ex_content_computed : exists sel,
  parse_css_rules (css "p::before{content:""a\""b;}""}") =
    CssOk [mkrs sel [mksd (SContent (css "a""b;}")) false]] /\
  parse_css_rules (css "p::before{content:'a\'b;}' ""c""}") =
    CssOk [mkrs sel [mksd (SContent (css "a'b;}c")) false]].
Proof. eexists. split; vm_compute; reflexivity. Qed.
