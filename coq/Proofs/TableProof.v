(* Proofs/TableProof.v -- C05 (table borders form a consistent box drawing) and
   C06 (columns with text get space; the columns plus separators fit the width)
   for the table part of the model (Sub.v border algebra / row assembly,
   Render.v shrink loop).  No axioms. *)
From H2T Require Import Base Tagged Wrap Sub Css Dom Render.
From H2T.Proofs Require Import Small.
From Coq Require Import Lia ZifyN ZifyBool ZifyNat Permutation.

Local Arguments N.add : simpl never.
Local Arguments N.sub : simpl never.
Local Arguments N.mul : simpl never.
Local Arguments N.div : simpl never.
Local Arguments N.max : simpl never.
Local Arguments N.min : simpl never.
Local Arguments N.leb : simpl never.
Local Arguments N.ltb : simpl never.
Local Arguments N.eqb : simpl never.
Local Arguments N.of_nat : simpl never.
Local Arguments N.to_nat : simpl never.
Local Open Scope N_scope.

(* ================================================================== *)
(* Generic list facts                                                   *)
(* ================================================================== *)
Lemma nth_opt_length : forall {A} (l : list A) n,
  nth_opt l n = None <-> (length l <= n)%nat.
Proof.
  induction l as [|a l IH]; intros n; cbn [nth_opt length].
  - split; intros; [lia|reflexivity].
  - destruct n as [|n]; [split; intros H; [discriminate|lia]|].
    rewrite IH. lia.
Qed.

Lemma nth_opt_some_lt : forall {A} (l : list A) n a,
  nth_opt l n = Some a -> (n < length l)%nat.
Proof.
  intros A l n a H. destruct (Nat.lt_ge_cases n (length l)) as [Hlt|Hge]; [exact Hlt|].
  apply nth_opt_length in Hge. congruence.
Qed.

Lemma nth_opt_ext : forall {A} (l1 l2 : list A),
  (forall n, nth_opt l1 n = nth_opt l2 n) -> l1 = l2.
Proof.
  induction l1 as [|a l1 IH]; intros l2 H.
  - destruct l2 as [|b l2]; [reflexivity|]. specialize (H O). discriminate.
  - destruct l2 as [|b l2]; [specialize (H O); discriminate|].
    pose proof (H O) as H0. cbn [nth_opt] in H0. inversion H0; subst b. f_equal.
    apply IH. intros n. exact (H (S n)).
Qed.

Lemma nth_opt_app : forall {A} (l1 l2 : list A) n,
  nth_opt (l1 ++ l2) n =
  if (n <? length l1)%nat then nth_opt l1 n else nth_opt l2 (n - length l1).
Proof.
  induction l1 as [|a l1 IH]; intros l2 n; cbn [app length].
  - replace (n - 0)%nat with n by lia. reflexivity.
  - destruct n as [|n]; cbn [nth_opt]; [reflexivity|]. rewrite IH.
    replace (S n <? S (length l1))%nat with (n <? length l1)%nat
      by (destruct (Nat.ltb_spec n (length l1)), (Nat.ltb_spec (S n) (S (length l1))); lia || reflexivity).
    reflexivity.
Qed.

Lemma nth_opt_repeat : forall {A} (a : A) k n,
  nth_opt (repeat a k) n = if (n <? k)%nat then Some a else None.
Proof.
  induction k as [|k IH]; intros n; cbn [repeat nth_opt].
  - reflexivity.
  - destruct n as [|n]; [reflexivity|]. rewrite IH.
    destruct (Nat.ltb_spec n k), (Nat.ltb_spec (S n) (S k)); lia || reflexivity.
Qed.

Lemma length_upd_nth : forall {A} (l : list A) n f, length (upd_nth l n f) = length l.
Proof.
  induction l as [|a l IH]; intros n f; cbn [upd_nth length]; [reflexivity|].
  destruct n as [|n]; cbn [length]; [reflexivity|]. rewrite IH. reflexivity.
Qed.

Lemma nth_opt_upd_nth : forall {A} (l : list A) n f m,
  nth_opt (upd_nth l n f) m =
  if (m =? n)%nat then option_map f (nth_opt l m) else nth_opt l m.
Proof.
  induction l as [|a l IH]; intros n f m; cbn [upd_nth nth_opt].
  - destruct (m =? n)%nat; reflexivity.
  - destruct n as [|n], m as [|m]; cbn [nth_opt Nat.eqb option_map]; try reflexivity.
    apply IH.
Qed.

(* ================================================================== *)
(* A. Border algebra (C05)                                              *)
(* ================================================================== *)
Lemma length_stretch_to : forall b w,
  length (stretch_to b w) = Nat.max (length b) (N.to_nat w).
Proof.
  intros b w. unfold stretch_to. rewrite app_length, repeat_length. lia.
Qed.

Lemma nth_opt_stretch_to : forall b w n,
  nth_opt (stretch_to b w) n =
  if (n <? length b)%nat then nth_opt b n
  else if (n <? N.to_nat w)%nat then Some Straight else None.
Proof.
  intros b w n. unfold stretch_to. rewrite nth_opt_app.
  destruct (Nat.ltb_spec n (length b)) as [Hlt|Hge]; [reflexivity|].
  rewrite nth_opt_repeat.
  destruct (Nat.ltb_spec (n - length b) (N.to_nat w - length b)),
           (Nat.ltb_spec n (N.to_nat w)); lia || reflexivity.
Qed.

Inductive jop := JA (x : N) | JB (x : N).
Definition apply_jop (b : list seg) (o : jop) : list seg :=
  match o with JA x => join_above b x | JB x => join_below b x end.
Definition jop_pos (o : jop) : N := match o with JA x => x | JB x => x end.
Definition is_ja (x : N) (o : jop) : bool := match o with JA y => y =? x | JB _ => false end.
Definition is_jb (x : N) (o : jop) : bool := match o with JB y => y =? x | JA _ => false end.
(* was position x joined from above / from below by one of the operations? *)
Definition joined_above (ops : list jop) (x : N) : bool := existsb (is_ja x) ops.
Definition joined_below (ops : list jop) (x : N) : bool := existsb (is_jb x) ops.
(* the stretched length: max of the initial width and 1 + the largest joined position *)
Definition joined_width (w : N) (ops : list jop) : N :=
  fold_left (fun n o => N.max n (jop_pos o + 1)) ops w.

Lemma length_apply_jop : forall b o,
  N.of_nat (length (apply_jop b o)) = N.max (N.of_nat (length b)) (jop_pos o + 1).
Proof.
  intros b [x|x]; cbn [apply_jop jop_pos]; unfold join_above, join_below;
    rewrite length_upd_nth, length_stretch_to; lia.
Qed.

(* a border is "described by" fa/fb when position x shows the junction (fa x, fb x),
   and nothing is recorded beyond its length *)
Definition described (b : list seg) (fa fb : N -> bool) : Prop :=
  (forall x : N, nth_opt b (N.to_nat x) =
                 if x <? N.of_nat (length b) then Some (seg_of (fa x) (fb x)) else None) /\
  (forall x : N, N.of_nat (length b) <= x -> fa x = false /\ fb x = false).

Lemma described_apply : forall b fa fb o,
  described b fa fb ->
  described (apply_jop b o) (fun x => fa x || is_ja x o) (fun x => fb x || is_jb x o).
Proof.
  intros b fa fb o [Hd Hz]. split; intros x; rewrite length_apply_jop.
  - pose proof (Hz x) as Hzx.
    destruct o as [y|y]; cbn [apply_jop jop_pos is_ja is_jb]; unfold join_above, join_below;
      rewrite nth_opt_upd_nth, nth_opt_stretch_to, (Hd x);
      destruct (Nat.eqb_spec (N.to_nat x) (N.to_nat y)) as [He|He];
      destruct (Nat.ltb_spec (N.to_nat x) (length b)) as [H1|H1];
      destruct (N.ltb_spec x (N.of_nat (length b))) as [H2|H2]; try lia;
      destruct (Nat.ltb_spec (N.to_nat x) (N.to_nat (y + 1))) as [H4|H4]; try lia;
      destruct (N.ltb_spec x (N.max (N.of_nat (length b)) (y + 1))) as [H3|H3]; try lia;
      destruct (N.eqb_spec y x) as [H5|H5]; try lia;
      cbn [option_map]; rewrite ?orb_true_r, ?orb_false_r;
      rewrite ?seg_join_above_of, ?seg_join_below_of; try reflexivity;
      destruct Hzx as [Ha Hb]; try lia; rewrite ?Ha, ?Hb; reflexivity.
  - intros Hx. destruct (Hz x) as [Ha Hb]; [lia|]. rewrite Ha, Hb.
    destruct o as [y|y]; cbn [is_ja is_jb jop_pos orb] in *; split; try reflexivity;
      destruct (N.eqb_spec y x); try reflexivity; lia.
Qed.

Lemma described_fold : forall ops b fa fb,
  described b fa fb ->
  described (fold_left apply_jop ops b)
            (fun x => fa x || joined_above ops x) (fun x => fb x || joined_below ops x).
Proof.
  induction ops as [|o ops IH]; intros b fa fb Hd; cbn [fold_left].
  - destruct Hd as [Hd Hz]. split; intros x.
    + unfold joined_above, joined_below. cbn [existsb]. rewrite !orb_false_r. apply Hd.
    + unfold joined_above, joined_below. cbn [existsb]. rewrite !orb_false_r. apply Hz.
  - pose proof (IH _ _ _ (described_apply b fa fb o Hd)) as [H1 H2].
    unfold joined_above, joined_below. cbn [existsb].
    split; intros x.
    + rewrite (H1 x). unfold joined_above, joined_below. rewrite !orb_assoc. reflexivity.
    + intros Hx. destruct (H2 x Hx) as [Ha Hb]. unfold joined_above, joined_below in Ha, Hb.
      rewrite !orb_assoc. split; assumption.
Qed.

Lemma length_fold_jop : forall ops b,
  N.of_nat (length (fold_left apply_jop ops b)) = joined_width (N.of_nat (length b)) ops.
Proof.
  induction ops as [|o ops IH]; intros b; unfold joined_width; cbn [fold_left]; [reflexivity|].
  rewrite IH, length_apply_jop. reflexivity.
Qed.

Lemma described_new : forall w, described (border_new w) (fun _ => false) (fun _ => false).
Proof.
  intros w. unfold border_new. split; intros x.
  - rewrite nth_opt_repeat, repeat_length.
    destruct (Nat.ltb_spec (N.to_nat x) (N.to_nat w)), (N.ltb_spec x (N.of_nat (N.to_nat w)));
      try lia; reflexivity.
  - intros _. split; reflexivity.
Qed.

(* the length of a border after any sequence of joins *)
Theorem border_join_length : forall w ops,
  N.of_nat (length (fold_left apply_jop ops (border_new w))) = joined_width w ops.
Proof.
  intros w ops. rewrite length_fold_jop. unfold border_new. rewrite repeat_length.
  replace (N.of_nat (N.to_nat w)) with w by lia. reflexivity.
Qed.

(* joined_width is the maximum of w and 1 + every joined position *)
Lemma joined_width_ge : forall ops w, w <= joined_width w ops.
Proof.
  induction ops as [|o ops IH]; intros w; unfold joined_width; cbn [fold_left]; [lia|].
  specialize (IH (N.max w (jop_pos o + 1))). unfold joined_width in IH. lia.
Qed.
Lemma joined_width_mono : forall ops w w', w <= w' -> joined_width w ops <= joined_width w' ops.
Proof.
  induction ops as [|o ops IH]; intros w w' H; unfold joined_width; cbn [fold_left]; [exact H|].
  apply IH. lia.
Qed.
Lemma joined_width_in : forall ops w o, In o ops -> jop_pos o + 1 <= joined_width w ops.
Proof.
  induction ops as [|o' ops IH]; intros w o Hin; [destruct Hin|].
  unfold joined_width; cbn [fold_left]. destruct Hin as [->|Hin].
  - pose proof (joined_width_ge ops (N.max w (jop_pos o + 1))) as H. unfold joined_width in H. lia.
  - apply IH. exact Hin.
Qed.
Lemma joined_width_max : forall ops w,
  joined_width w ops = w \/ exists o, In o ops /\ joined_width w ops = jop_pos o + 1.
Proof.
  induction ops as [|o ops IH]; intros w; unfold joined_width; cbn [fold_left]; [left; reflexivity|].
  destruct (IH (N.max w (jop_pos o + 1))) as [H|[o' [Hin H]]]; unfold joined_width in H.
  - rewrite H. destruct (N.max_spec w (jop_pos o + 1)) as [[_ ->]|[_ ->]].
    + right. exists o. split; [left; reflexivity|reflexivity].
    + left. reflexivity.
  - right. exists o'. split; [right; exact Hin|exact H].
Qed.

(* after any sequence of joins on a fresh border, position x shows exactly the junction
   for (x joined from above?, x joined from below?) *)
Theorem border_join_spec : forall w ops x,
  nth_opt (fold_left apply_jop ops (border_new w)) (N.to_nat x) =
  if x <? joined_width w ops
  then Some (seg_of (joined_above ops x) (joined_below ops x))
  else None.
Proof.
  intros w ops x.
  destruct (described_fold ops _ _ _ (described_new w)) as [H _].
  rewrite (H x), border_join_length. cbn [orb]. reflexivity.
Qed.

(* the printed glyph at every position *)
Corollary border_join_glyph : forall w ops x,
  x < joined_width w ops ->
  option_map cp (nth_opt (border_string (fold_left apply_jop ops (border_new w))) (N.to_nat x)) =
  Some (match joined_above ops x, joined_below ops x with
        | false, false => 9472 | true, false => 9524 | false, true => 9516 | true, true => 9532
        end).
Proof.
  intros w ops x Hx. unfold border_string.
  assert (Hm : forall (l : list seg) n, nth_opt (map seg_char l) n = option_map seg_char (nth_opt l n)).
  { induction l as [|a l IH]; intros [|n]; cbn [map nth_opt option_map]; try reflexivity. apply IH. }
  rewrite Hm, border_join_spec.
  destruct (N.ltb_spec x (joined_width w ops)) as [_|H]; [|lia].
  cbn [option_map]. rewrite seg_char_of. reflexivity.
Qed.

(* joins commute: two sequences of joins that join the same positions give the same border *)
Theorem border_join_ext : forall w ops ops',
  joined_width w ops = joined_width w ops' ->
  (forall x, joined_above ops x = joined_above ops' x) ->
  (forall x, joined_below ops x = joined_below ops' x) ->
  fold_left apply_jop ops (border_new w) = fold_left apply_jop ops' (border_new w).
Proof.
  intros w ops ops' Hw Ha Hb. apply nth_opt_ext. intros n.
  replace n with (N.to_nat (N.of_nat n)) by lia.
  rewrite !border_join_spec, Hw, Ha, Hb. reflexivity.
Qed.

Lemma existsb_perm : forall {A} (f : A -> bool) l l', Permutation l l' -> existsb f l = existsb f l'.
Proof.
  intros A f l l' H. induction H as [|a l l' _ IH|a b l|l1 l2 l3 _ IH1 _ IH2]; cbn [existsb].
  - reflexivity.
  - rewrite IH. reflexivity.
  - destruct (f a), (f b); reflexivity.
  - congruence.
Qed.
Lemma joined_width_perm : forall ops ops', Permutation ops ops' ->
  forall w, joined_width w ops = joined_width w ops'.
Proof.
  intros ops ops' H. induction H as [|a l l' _ IH|a b l|l1 l2 l3 _ IH1 _ IH2]; intros w;
    unfold joined_width in *; cbn [fold_left].
  - reflexivity.
  - apply IH.
  - f_equal. lia.
  - rewrite IH1. apply IH2.
Qed.

Corollary border_join_comm : forall w ops ops',
  Permutation ops ops' ->
  fold_left apply_jop ops (border_new w) = fold_left apply_jop ops' (border_new w).
Proof.
  intros w ops ops' H. apply border_join_ext.
  - apply joined_width_perm. exact H.
  - intros x. apply existsb_perm. exact H.
  - intros x. apply existsb_perm. exact H.
Qed.

(* ---- join_cols ---- *)
(* the bar after column j (every column but the last) sits at
   pos + (w_0 + 1) + ... + (w_{j-1} + 1) + w_j *)
Fixpoint bar_positions (ws_ : list N) (pos : N) : list N :=
  match ws_ with
  | [] => []
  | [_] => []
  | w :: ws' => (pos + w) :: bar_positions ws' (pos + w + 1)
  end.

Theorem join_cols_spec : forall ws_ prev next pos,
  join_cols ws_ prev next pos =
  (fold_left apply_jop (map JB (bar_positions ws_ pos)) prev,
   fold_left apply_jop (map JA (bar_positions ws_ pos)) next).
Proof.
  induction ws_ as [|w ws' IH]; intros prev next pos; [reflexivity|].
  destruct ws' as [|w' ws'']; [reflexivity|].
  change (join_cols (w :: w' :: ws'') prev next pos)
    with (join_cols (w' :: ws'') (join_below prev (pos + w)) (join_above next (pos + w)) (pos + w + 1)).
  rewrite IH.
  change (bar_positions (w :: w' :: ws'') pos)
    with ((pos + w) :: bar_positions (w' :: ws'') (pos + w + 1)).
  reflexivity.
Qed.

Lemma bar_positions_length : forall ws_ pos,
  length (bar_positions ws_ pos) = (length ws_ - 1)%nat.
Proof.
  induction ws_ as [|w ws' IH]; intros pos; [reflexivity|].
  destruct ws' as [|w' ws'']; [reflexivity|].
  change (bar_positions (w :: w' :: ws'') pos)
    with ((pos + w) :: bar_positions (w' :: ws'') (pos + w + 1)).
  cbn [length] in *. rewrite IH. lia.
Qed.

Lemma bar_positions_nth : forall ws_ pos j,
  (S j < length ws_)%nat ->
  nth_opt (bar_positions ws_ pos) j = Some (pos + sumN (firstn (S j) ws_) + N.of_nat j).
Proof.
  induction ws_ as [|w ws' IH]; intros pos j Hj; [cbn [length] in Hj; lia|].
  destruct ws' as [|w' ws'']; [cbn [length] in Hj; lia|].
  change (bar_positions (w :: w' :: ws'') pos)
    with ((pos + w) :: bar_positions (w' :: ws'') (pos + w + 1)).
  destruct j as [|j]; cbn [nth_opt].
  - cbn [firstn sumN]. f_equal. lia.
  - rewrite IH by (cbn [length] in *; lia).
    change (firstn (S (S j)) (w :: w' :: ws'')) with (w :: firstn (S j) (w' :: ws'')).
    cbn [sumN]. f_equal. lia.
Qed.

(* every bar lies strictly inside the row: position < total width *)
Lemma bar_positions_lt : forall ws_ pos x,
  In x (bar_positions ws_ pos) ->
  pos <= x /\ x + 1 < pos + sumN ws_ + N.of_nat (length ws_).
Proof.
  induction ws_ as [|w ws' IH]; intros pos x Hin; [destruct Hin|].
  destruct ws' as [|w' ws'']; [destruct Hin|].
  change (bar_positions (w :: w' :: ws'') pos)
    with ((pos + w) :: bar_positions (w' :: ws'') (pos + w + 1)) in Hin.
  destruct Hin as [<-|Hin].
  - cbn [sumN length]. lia.
  - apply IH in Hin. cbn [sumN length] in *. lia.
Qed.

Lemma joined_above_JA : forall l x, joined_above (map JA l) x = existsb (N.eqb x) l.
Proof.
  intros l x. unfold joined_above. induction l as [|y l IHl]; cbn [map existsb is_ja]; [reflexivity|].
  rewrite IHl, (N.eqb_sym y x). reflexivity.
Qed.
Lemma joined_below_JA : forall l x, joined_below (map JA l) x = false.
Proof.
  intros l x. unfold joined_below. induction l as [|y l IHl]; cbn [map existsb is_jb orb]; [reflexivity|exact IHl].
Qed.
Lemma joined_below_JB : forall l x, joined_below (map JB l) x = existsb (N.eqb x) l.
Proof.
  intros l x. unfold joined_below. induction l as [|y l IHl]; cbn [map existsb is_jb]; [reflexivity|].
  rewrite IHl, (N.eqb_sym y x). reflexivity.
Qed.
Lemma joined_above_JB : forall l x, joined_above (map JB l) x = false.
Proof.
  intros l x. unfold joined_above. induction l as [|y l IHl]; cbn [map existsb is_ja orb]; [reflexivity|exact IHl].
Qed.

(* the borders around a row: previous border joined below, next border joined above, at
   the bar positions, and nowhere else; neither border gets longer than the row *)
Corollary join_cols_next : forall ws_ x,
  let tot := sumN ws_ + (N.of_nat (length ws_) - 1) in
  nth_opt (snd (join_cols ws_ (border_new tot) (border_new tot) 0)) (N.to_nat x) =
  if x <? tot
  then Some (if existsb (N.eqb x) (bar_positions ws_ 0) then JoinAbove else Straight)
  else None.
Proof.
  intros ws_ x tot. rewrite join_cols_spec. cbn [snd]. rewrite border_join_spec.
  assert (Hw : joined_width tot (map JA (bar_positions ws_ 0)) = tot).
  { destruct (joined_width_max (map JA (bar_positions ws_ 0)) tot) as [H|[o [Hin H]]]; [exact H|].
    apply in_map_iff in Hin. destruct Hin as [y [<- Hin]]. cbn [jop_pos] in H.
    apply bar_positions_lt in Hin.
    pose proof (joined_width_ge (map JA (bar_positions ws_ 0)) tot). subst tot. lia. }
  rewrite Hw. destruct (x <? tot); [|reflexivity]. f_equal.
  rewrite joined_above_JA, joined_below_JA.
  destruct (existsb (N.eqb x) (bar_positions ws_ 0)); reflexivity.
Qed.

(* ---- non-vacuity ---- *)
Example border_example :
  cps (border_string (fold_left apply_jop [JA 2; JB 5; JA 5; JB 7] (border_new 9))) =
  [9472; 9472; 9524; 9472; 9472; 9532; 9472; 9516; 9472].   (* ──┴──┼─┬─ *)
Proof. vm_compute. reflexivity. Qed.
Example border_example_stretch :
  cps (border_string (fold_left apply_jop [JB 5; JA 1] (border_new 3))) =
  [9472; 9524; 9472; 9472; 9472; 9516].                      (* ─┴───┬ *)
Proof. vm_compute. reflexivity. Qed.
Example join_cols_example :
  let '(p, n) := join_cols [3; 2; 4] (border_new 11) (border_new 11) 0 in
  (cps (border_string p), cps (border_string n), bar_positions [3; 2; 4] 0) =
  ([9472; 9472; 9472; 9516; 9472; 9472; 9516; 9472; 9472; 9472; 9472],
   [9472; 9472; 9472; 9524; 9472; 9472; 9524; 9472; 9472; 9472; 9472],
   [3; 6]).
Proof. vm_compute. reflexivity. Qed.

(* the border between two rows: the row above (cell widths ws1) joins it from above when it
   is created as that row's `next` border, the row below (cell widths ws2) joins it from below
   as its `prev` border.  Position x shows ┴ / ┬ / ┼ / ─ according to whether a bar of the
   upper / lower row sits at x. *)
Theorem border_between_rows : forall ws1 ws2 pb nb x,
  let tot := sumN ws1 + (N.of_nat (length ws1) - 1) in
  let mid := snd (join_cols ws1 pb (border_new tot) 0) in
  let mid' := fst (join_cols ws2 mid nb 0) in
  nth_opt mid' (N.to_nat x) =
  if x <? joined_width tot (map JA (bar_positions ws1 0) ++ map JB (bar_positions ws2 0))
  then Some (seg_of (existsb (N.eqb x) (bar_positions ws1 0)) (existsb (N.eqb x) (bar_positions ws2 0)))
  else None.
Proof.
  intros ws1 ws2 pb nb x tot mid mid'. subst mid' mid.
  rewrite !join_cols_spec. cbn [fst snd]. rewrite <- fold_left_app, border_join_spec.
  destruct (x <? _); [|reflexivity]. f_equal.
  unfold joined_above, joined_below. rewrite !existsb_app.
  fold (joined_above (map JA (bar_positions ws1 0)) x) (joined_above (map JB (bar_positions ws2 0)) x)
       (joined_below (map JA (bar_positions ws1 0)) x) (joined_below (map JB (bar_positions ws2 0)) x).
  rewrite joined_above_JA, joined_above_JB, joined_below_JA, joined_below_JB, orb_false_r.
  reflexivity.
Qed.

(* ================================================================== *)
(* B. Column allocation (C06)                                           *)
(* ================================================================== *)
Lemma key_lt_true : forall a1 a2 a3 b1 b2 b3, key_lt (a1, a2, a3) (b1, b2, b3) = true -> a1 <= b1.
Proof.
  intros a1 a2 a3 b1 b2 b3 H. unfold key_lt in H.
  destruct (N.ltb_spec a1 b1) as [H1|H1]; [lia|].
  destruct (N.ltb_spec b1 a1) as [H2|H2]; [discriminate|lia].
Qed.
Lemma key_lt_false : forall a1 a2 a3 b1 b2 b3, key_lt (a1, a2, a3) (b1, b2, b3) = false -> b1 <= a1.
Proof.
  intros a1 a2 a3 b1 b2 b3 H. unfold key_lt in H.
  destruct (N.ltb_spec a1 b1) as [H1|H1]; [discriminate|lia].
Qed.

(* every column's slack (w - min, saturating) is at most s *)
Definition slack_le (s : N) (ws_ mins : list N) : Prop :=
  forall k w m, nth_opt ws_ k = Some w -> nth_opt mins k = Some m -> w - m <= s.

Lemma argmax_col_gen : forall ws_ mins colno best,
  length ws_ = length mins ->
  (best = None -> ws_ <> []) ->
  exists i s,
    argmax_col ws_ mins colno best = Some i /\
    slack_le s ws_ mins /\
    (forall bi b1 b2 b3, best = Some (bi, (b1, b2, b3)) -> b1 <= s) /\
    ((exists b2 b3, best = Some (i, (s, b2, b3))) \/
     (exists k w m, i = colno + N.of_nat k /\ nth_opt ws_ k = Some w /\
                    nth_opt mins k = Some m /\ s = w - m)).
Proof.
  induction ws_ as [|w ws' IH]; intros mins colno best Hlen Hne.
  - destruct best as [[bi [[b1 b2] b3]]|]; [|exfalso; apply Hne; reflexivity].
    exists bi, b1. cbn [argmax_col]. split; [reflexivity|]. split.
    { intros k w m Hk. destruct k; discriminate. }
    split.
    { intros bi' b1' b2' b3' H. inversion H; subst. lia. }
    left. exists b2, b3. reflexivity.
  - destruct mins as [|m mins']; [discriminate|].
    cbn [length] in Hlen. injection Hlen as Hlen.
    cbn [argmax_col].
    set (k0 := (w - m, w, usize_max - colno)).
    set (best' := match best with
                  | None => Some (colno, k0)
                  | Some (_, bk) => if key_lt k0 bk then best else Some (colno, k0)
                  end).
    assert (Hb' : (best' = best /\ exists bi b1 b2 b3, best = Some (bi, (b1, b2, b3)) /\ w - m <= b1) \/
                  (best' = Some (colno, k0) /\ forall bi b1 b2 b3, best = Some (bi, (b1, b2, b3)) -> b1 <= w - m)).
    { subst best'. destruct best as [[bi [[b1 b2] b3]]|].
      - destruct (key_lt k0 (b1, b2, b3)) eqn:Hk.
        + left. split; [reflexivity|]. exists bi, b1, b2, b3. split; [reflexivity|].
          subst k0. eapply key_lt_true. exact Hk.
        + right. split; [reflexivity|]. intros bi' b1' b2' b3' H. inversion H; subst.
          subst k0. eapply key_lt_false. exact Hk.
      - right. split; [reflexivity|]. intros; discriminate. }
    clearbody best'.
    destruct (IH mins' (colno + 1) best' Hlen) as [i [s [Hres [Hsl [Hbs Hwho]]]]].
    { intros ->. destruct Hb' as [[Hb' [bi [b1 [b2 [b3 [Hb _]]]]]]|[Hb' _]]; congruence. }
    exists i, s. split; [exact Hres|].
    destruct Hb' as [[Hb' [bi [b1 [b2 [b3 [Hb Hle]]]]]]|[Hb' Hle]]; subst best'.
    + (* best kept *)
      pose proof (Hbs _ _ _ _ Hb) as Hb1.
      split; [|split].
      * intros k w1 m1 Hw1 Hm1. destruct k as [|k]; cbn [nth_opt] in Hw1, Hm1.
        -- inversion Hw1; inversion Hm1; subst. lia.
        -- eapply Hsl; eassumption.
      * exact Hbs.
      * destruct Hwho as [Hold|[k [w1 [m1 [Hi [Hw1 [Hm1 Hs]]]]]]]; [left; exact Hold|].
        right. exists (S k), w1, m1. cbn [nth_opt]. repeat split; try assumption. lia.
    + (* this column becomes the best *)
      pose proof (Hbs colno (w - m) w (usize_max - colno) eq_refl) as Hb1.
      split; [|split].
      * intros k w1 m1 Hw1 Hm1. destruct k as [|k]; cbn [nth_opt] in Hw1, Hm1.
        -- inversion Hw1; inversion Hm1; subst. lia.
        -- eapply Hsl; eassumption.
      * intros bi b1 b2 b3 Hb. specialize (Hle _ _ _ _ Hb). lia.
      * right. destruct Hwho as [[b2 [b3 Hold]]|[k [w1 [m1 [Hi [Hw1 [Hm1 Hs]]]]]]].
        -- subst k0. injection Hold as E1 E2 E3 E4. exists O, w, m. cbn [nth_opt].
           repeat split; try reflexivity; lia.
        -- exists (S k), w1, m1. cbn [nth_opt]. repeat split; try assumption. lia.
Qed.

(* argmax_col returns a column inside the table whose slack is maximal *)
Theorem argmax_col_spec : forall ws_ mins,
  length ws_ = length mins -> ws_ <> [] ->
  exists k w m,
    argmax_col ws_ mins 0 None = Some (N.of_nat k) /\
    nth_opt ws_ k = Some w /\ nth_opt mins k = Some m /\
    slack_le (w - m) ws_ mins.
Proof.
  intros ws_ mins Hlen Hne.
  destruct (argmax_col_gen ws_ mins 0 None Hlen (fun _ => Hne)) as [i [s [Hres [Hsl [_ Hwho]]]]].
  destruct Hwho as [[b2 [b3 H]]|[k [w [m [Hi [Hw [Hm Hs]]]]]]]; [discriminate|].
  exists k, w, m. subst s. replace (N.of_nat k) with i by lia.
  repeat split; assumption.
Qed.

Lemma Forall2_nth_opt : forall {A B} (R : A -> B -> Prop) l1 l2,
  Forall2 R l1 l2 -> forall k a b, nth_opt l1 k = Some a -> nth_opt l2 k = Some b -> R a b.
Proof.
  intros A B R l1 l2 H. induction H as [|x y l1 l2 Hxy _ IH]; intros k a b Ha Hb.
  - destruct k; discriminate.
  - destruct k as [|k]; cbn [nth_opt] in Ha, Hb.
    + inversion Ha; inversion Hb; subst. exact Hxy.
    + eapply IH; eassumption.
Qed.
Lemma Forall2_nth_error : forall {A B} (R : A -> B -> Prop) l1 l2,
  Forall2 R l1 l2 -> forall k a b, nth_error l1 k = Some a -> nth_error l2 k = Some b -> R a b.
Proof.
  intros A B R l1 l2 H. induction H as [|x y l1 l2 Hxy _ IH]; intros k a b Ha Hb.
  - destruct k; discriminate.
  - destruct k as [|k]; cbn [nth_error] in Ha, Hb.
    + inversion Ha; inversion Hb; subst. exact Hxy.
    + eapply IH; eassumption.
Qed.
Lemma Forall2_upd_nth : forall {A B} (R : A -> B -> Prop) l1 l2 k f,
  Forall2 R l1 l2 ->
  (forall a b, nth_opt l1 k = Some a -> nth_opt l2 k = Some b -> R a (f b)) ->
  Forall2 R l1 (upd_nth l2 k f).
Proof.
  intros A B R l1 l2 k f H. revert k. induction H as [|x y l1 l2 Hxy H IH]; intros k Hf; cbn [upd_nth].
  - constructor.
  - destruct k as [|k].
    + constructor; [apply Hf; reflexivity|exact H].
    + constructor; [exact Hxy|]. apply IH. intros a b Ha Hb. apply Hf; assumption.
Qed.
Lemma Forall2_refl_le : forall l : list N, Forall2 (fun a b => a <= b) l l.
Proof. induction l as [|a l IH]; constructor; [lia|exact IH]. Qed.
Lemma Forall2_refl_ge : forall l : list N, Forall2 (fun a b => b <= a) l l.
Proof. induction l as [|a l IH]; constructor; [lia|exact IH]. Qed.
Lemma Forall2_trans_ge : forall l1 l2 l3 : list N,
  Forall2 (fun a b => b <= a) l1 l2 -> Forall2 (fun a b => b <= a) l2 l3 ->
  Forall2 (fun a b => b <= a) l1 l3.
Proof.
  intros l1 l2 l3 H. revert l3. induction H as [|x y l1 l2 Hxy _ IH]; intros l3 H3; inversion H3; subst.
  - constructor.
  - constructor; [lia|]. apply IH. assumption.
Qed.

Lemma sumN_upd_nth : forall l k f w,
  nth_opt l k = Some w -> sumN (upd_nth l k f) + w = sumN l + f w.
Proof.
  induction l as [|a l IH]; intros k f w H; [destruct k; discriminate|].
  destruct k as [|k]; cbn [nth_opt upd_nth sumN] in *.
  - inversion H; subst. lia.
  - specialize (IH k f w H). lia.
Qed.

Lemma slack_zero_sum : forall ws_ mins,
  length ws_ = length mins -> slack_le 0 ws_ mins -> sumN ws_ <= sumN mins.
Proof.
  induction ws_ as [|w ws' IH]; intros mins Hlen Hs; destruct mins as [|m mins'];
    cbn [length] in Hlen; try discriminate; try (cbn [sumN]; lia).
  injection Hlen as Hlen. cbn [sumN].
    pose proof (Hs O w m eq_refl eq_refl) as H0.
    assert (Hs' : slack_le 0 ws' mins').
    { intros k w1 m1 Hw1 Hm1. apply (Hs (S k) w1 m1); assumption. }
    specialize (IH mins' Hlen Hs'). lia.
Qed.

(* The core of the shrink loop.  `los` is any list of per-column lower bounds that are at
   most the minima: the loop only ever decrements a column that is strictly above its
   minimum, so it never goes below such a bound; in particular it never computes 0 - 1
   (Panic 34); it never indexes out of range (Panic 31); and since every iteration takes one
   unit off the total, fuel >= the total suffices. *)
Lemma shrink_loop_core : forall fuel width mins los ws_,
  length mins = length ws_ -> ws_ <> [] ->
  sumN mins + (N.of_nat (length mins) - 1) <= width ->
  (N.to_nat (sumN ws_) <= fuel)%nat ->
  Forall2 (fun lo m => lo <= m) los mins ->
  Forall2 (fun lo w => lo <= w) los ws_ ->
  exists ws',
    shrink_loop fuel width mins ws_ = Ok ws' /\
    length ws' = length ws_ /\
    Forall2 (fun lo w => lo <= w) los ws' /\
    Forall2 (fun w0 w => w <= w0) ws_ ws' /\
    sumN ws' + N.of_nat (length ws') - 1 <= width.
Proof.
  induction fuel as [|f IH]; intros width mins los ws_ Hlen Hne Hmin Hfuel Hlm Hlw.
  - (* no fuel: the total is zero, so the columns already fit *)
    assert (Hlen1 : (1 <= length ws_)%nat) by (destruct ws_; [congruence|cbn [length]; lia]).
    cbn [shrink_loop].
    destruct (N.leb_spec (sumN ws_ + N.of_nat (length ws_) - 1) width) as [Hle|Hgt]; [|lia].
    exists ws_. repeat split; try assumption; try reflexivity. apply Forall2_refl_ge.
  - cbn [shrink_loop].
    destruct (N.leb_spec (sumN ws_ + N.of_nat (length ws_) - 1) width) as [Hle|Hgt].
    { exists ws_. repeat split; try assumption; try reflexivity. apply Forall2_refl_ge. }
    assert (Hlen1 : (1 <= length ws_)%nat) by (destruct ws_; [congruence|cbn [length]; lia]).
    destruct (argmax_col_spec ws_ mins (eq_sym Hlen) Hne) as [k [w [m [Harg [Hw [Hm Hsl]]]]]].
    rewrite Harg. replace (N.to_nat (N.of_nat k)) with k by lia. rewrite Hw.
    (* the chosen column has positive slack *)
    assert (Hpos : m < w).
    { destruct (N.lt_ge_cases m w) as [Hlt|Hge]; [exact Hlt|exfalso].
      assert (Hz : slack_le 0 ws_ mins).
      { intros k1 w1 m1 Hw1 Hm1. specialize (Hsl k1 w1 m1 Hw1 Hm1). lia. }
      pose proof (slack_zero_sum ws_ mins (eq_sym Hlen) Hz) as Hsum. lia. }
    destruct w as [|p] eqn:Ew; [lia|]. rewrite <- Ew in *. clear Ew p.
    pose proof (sumN_upd_nth ws_ k (fun w => w - 1) w Hw) as Hsum. cbn beta in Hsum.
    destruct (IH width mins los (upd_nth ws_ k (fun w => w - 1))) as [ws' [Hres [Hl' [Hlo' [Hge' Hfit]]]]].
    + rewrite length_upd_nth. exact Hlen.
    + intros Hnil. apply (f_equal (@length N)) in Hnil. rewrite length_upd_nth in Hnil.
      cbn [length] in Hnil. lia.
    + exact Hmin.
    + lia.
    + exact Hlm.
    + apply Forall2_upd_nth; [exact Hlw|]. intros lo w1 Hlo Hw1.
      rewrite Hw in Hw1. inversion Hw1; subst w1.
      pose proof (Forall2_nth_opt _ _ _ Hlm k lo m Hlo Hm) as Hlom. cbn beta in Hlom. lia.
    + exists ws'. rewrite length_upd_nth in Hl'. repeat split; try assumption.
      eapply Forall2_trans_ge; [|exact Hge'].
      apply Forall2_upd_nth; [apply Forall2_refl_ge|]. intros a b Ha Hb.
      rewrite Ha in Hb. inversion Hb; subst. lia.
Qed.

(* C06, main theorem, with the fuel the renderer passes *)
Theorem shrink_loop_total : forall width mins ws0,
  length mins = length ws0 -> ws0 <> [] ->
  Forall2 (fun m w => m <= w) mins ws0 ->                      (* every column starts at or above its minimum *)
  sumN mins + (N.of_nat (length mins) - 1) <= width ->         (* not the stacked case *)
  exists ws_,
    shrink_loop (S (N.to_nat (sumN ws0))) width mins ws0 = Ok ws_ /\
    length ws_ = length ws0 /\
    Forall2 (fun m w => m <= w) mins ws_ /\
    Forall2 (fun w0 w => w <= w0) ws0 ws_ /\
    sumN ws_ + N.of_nat (length ws_) - 1 <= width.
Proof.
  intros width mins ws0 Hlen Hne Hge Hmin.
  apply shrink_loop_core; try assumption; [lia|apply Forall2_refl_le].
Qed.

(* Without the assumption that the columns start at or above their minima the loop still
   terminates normally: never Panic 34 (0 - 1), never Panic 31, never OutOfFuel; and every
   column ends at or above min(minimum, initial width). *)
Theorem shrink_loop_never_panics : forall width mins ws0,
  length mins = length ws0 -> ws0 <> [] ->
  sumN mins + (N.of_nat (length mins) - 1) <= width ->
  exists ws_,
    shrink_loop (S (N.to_nat (sumN ws0))) width mins ws0 = Ok ws_ /\
    length ws_ = length ws0 /\
    Forall2 (fun w0 w => w <= w0) ws0 ws_ /\
    (forall i m w0 w, nth_opt mins i = Some m -> nth_opt ws0 i = Some w0 -> nth_opt ws_ i = Some w ->
                      N.min m w0 <= w) /\
    sumN ws_ + N.of_nat (length ws_) - 1 <= width.
Proof.
  intros width mins ws0 Hlen Hne Hmin.
  assert (Hcomb : forall (l1 l2 : list N), length l1 = length l2 ->
            Forall2 (fun lo m => lo <= m) (map (fun p => N.min (fst p) (snd p)) (combine l1 l2)) l1 /\
            Forall2 (fun lo w => lo <= w) (map (fun p => N.min (fst p) (snd p)) (combine l1 l2)) l2).
  { induction l1 as [|a l1 IHl]; intros [|b l2] Hl; try discriminate; cbn [combine map].
    - split; constructor.
    - cbn [length] in Hl. injection Hl as Hl. destruct (IHl l2 Hl) as [H1 H2].
      split; constructor; cbn [fst snd]; try lia; assumption. }
  destruct (Hcomb mins ws0 Hlen) as [H1 H2].
  destruct (shrink_loop_core (S (N.to_nat (sumN ws0))) width mins _ ws0 Hlen Hne Hmin ltac:(lia) H1 H2)
    as [ws' [Hres [Hl' [Hlo' [Hge' Hfit]]]]].
  exists ws'. repeat split; try assumption.
  intros i m w0 w Hm Hw0 Hw.
  assert (Hnth : nth_opt (map (fun p => N.min (fst p) (snd p)) (combine mins ws0)) i = Some (N.min m w0)).
  { clear - Hm Hw0. revert ws0 i Hm Hw0. induction mins as [|a l IHl]; intros [|b l2] i Hm Hw0;
      try (destruct i; discriminate).
    destruct i as [|i]; cbn [combine map nth_opt] in *.
    - inversion Hm; inversion Hw0; subst. reflexivity.
    - apply IHl; assumption. }
  exact (Forall2_nth_opt _ _ _ Hlo' i _ w Hnth Hw).
Qed.

(* a column whose minimum width is positive keeps a positive width *)
Corollary c06_text_column_nonzero : forall width mins ws0 ws_,
  length mins = length ws0 -> ws0 <> [] ->
  Forall2 (fun m w => m <= w) mins ws0 ->
  sumN mins + (N.of_nat (length mins) - 1) <= width ->
  shrink_loop (S (N.to_nat (sumN ws0))) width mins ws0 = Ok ws_ ->
  forall i m w, nth_error mins i = Some m -> nth_error ws_ i = Some w -> 0 < m -> 0 < w.
Proof.
  intros width mins ws0 ws_ Hlen Hne Hge Hmin Hres i m w Hm Hw Hpos.
  destruct (shrink_loop_total width mins ws0 Hlen Hne Hge Hmin) as [ws' [Hres' [_ [Hlo _]]]].
  rewrite Hres in Hres'. inversion Hres'; subst ws'.
  pose proof (Forall2_nth_error _ _ _ Hlo i m w Hm Hw) as Hmw. cbn beta in Hmw. lia.
Qed.

(* the initial widths *)
Lemma col_width_of_le_size : forall width tot sz, col_width_of width tot sz <= e_size sz.
Proof.
  intros width tot sz. unfold col_width_of.
  destruct (N.eqb_spec (e_size sz) 0) as [H|H]; [lia|].
  destruct (usize_max / width <=? e_size sz); lia.
Qed.
Lemma col_width_of_ge_min' : forall width tot sz,
  e_min sz <= e_size sz -> e_min sz <= col_width_of width tot sz.
Proof.
  intros width tot sz Hle. unfold col_width_of.
  destruct (N.eqb_spec (e_size sz) 0) as [H|H]; [lia|].
  destruct (usize_max / width <=? e_size sz); lia.
Qed.
Lemma col_width_of_ge_min : forall width tot sz,
  e_min sz <= e_size sz -> 0 < e_size sz -> e_min sz <= col_width_of width tot sz.
Proof. intros width tot sz Hle _. apply col_width_of_ge_min'. exact Hle. Qed.
(* a column with content and a positive minimum gets a positive initial width *)
Lemma col_width_of_pos : forall width tot sz,
  e_min sz <= e_size sz -> 0 < e_min sz -> 0 < col_width_of width tot sz.
Proof. intros width tot sz Hle Hpos. pose proof (col_width_of_ge_min' width tot sz Hle). lia. Qed.

(* the table branch of render_node: with the column estimates col_sizes (each e_min <= e_size),
   in the side-by-side case (min_size <= width) the column widths are computed without
   error, lie between the minimum and the estimate of their column, and fit the width. *)
Theorem table_col_widths_ok : forall width (col_sizes : list est),
  col_sizes <> [] ->
  Forall (fun sz => e_min sz <= e_size sz) col_sizes ->
  sumN (map e_min col_sizes) + (N.of_nat (length col_sizes) - 1) <= width ->
  let tot_size := sumN (map e_size col_sizes) in
  let ws0 := map (col_width_of width tot_size) col_sizes in
  exists ws_,
    shrink_loop (S (N.to_nat (sumN ws0))) width (map e_min col_sizes) ws0 = Ok ws_ /\
    Forall2 (fun sz w => e_min sz <= w <= e_size sz) col_sizes ws_ /\
    sumN ws_ + N.of_nat (length ws_) - 1 <= width.
Proof.
  intros width col_sizes Hne Hall Hmin tot_size ws0. clearbody tot_size.
  assert (H0 : Forall2 (fun m w => m <= w) (map e_min col_sizes) ws0).
  { subst ws0. clear - Hall. induction Hall as [|sz l Hsz _ IH]; cbn [map]; constructor.
    - apply col_width_of_ge_min'. exact Hsz.
    - exact IH. }
  destruct (shrink_loop_total width (map e_min col_sizes) ws0) as [ws' [Hres [Hl' [Hlo' [Hge' Hfit]]]]].
  - subst ws0. rewrite !map_length. reflexivity.
  - subst ws0. destruct col_sizes; [congruence|discriminate].
  - exact H0.
  - rewrite map_length. exact Hmin.
  - exists ws'. split; [exact Hres|]. split; [|exact Hfit].
    subst ws0. clear - Hlo' Hge'. revert ws' Hlo' Hge'.
    induction col_sizes as [|sz l IH]; intros ws' Hlo Hge; cbn [map] in *.
    + inversion Hlo; subst. constructor.
    + inversion Hlo; subst. inversion Hge; subst. constructor.
      * pose proof (col_width_of_le_size width tot_size sz). lia.
      * apply IH; assumption.
Qed.

Example shrink_example :
  shrink_loop (S (N.to_nat (sumN [10; 4; 6]))) 15 [3; 1; 2] [10; 4; 6] = Ok [5; 4; 4].
Proof. vm_compute. reflexivity. Qed.

(* the width the renderer reserves for the table (`table_width`, which counts only the
   non-empty columns) is within the width as well *)
Corollary table_width_le : forall fuel width mins ws0 ws_,
  shrink_loop fuel width mins ws0 = Ok ws_ ->
  sumN ws_ + (N.of_nat (length (filter (fun w => 0 <? w) ws_)) - 1) <= width.
Proof.
  intros fuel width mins ws0 ws_ H. apply shrink_loop_fits in H.
  assert (Hf : (length (filter (fun w => (0 <? w)%N) ws_) <= length ws_)%nat).
  { clear. induction ws_ as [|a l IH]; cbn [filter length]; [apply le_n|].
    destruct (0 <? a); cbn [length]; [apply le_n_S; exact IH|apply le_S; exact IH]. }
  assert (H0 : length ws_ = O -> sumN ws_ = 0) by (destruct ws_; [reflexivity|discriminate]).
  lia.
Qed.

(* ================================================================== *)
(* C. Row assembly (C05 / C06)                                          *)
(* ================================================================== *)
Definition vw (v : list elem) : N := sumN (map (fun e => swidth (elem_text e)) v).
Definition sv (v : list elem) : text := flat_map elem_text v.

Lemma vw_sv : forall v, vw v = swidth (sv v).
Proof.
  induction v as [|e v IH]; unfold vw, sv in *; cbn [map sumN flat_map swidth]; [reflexivity|].
  rewrite swidth_app, IH. reflexivity.
Qed.
Lemma tl_width_raw_string : forall l, tl_width_raw l = swidth (tl_string l).
Proof. intros l. apply vw_sv. Qed.

Lemma sv_push_merge : forall v s t, sv (v_push_merge v s t) = sv v ++ s.
Proof.
  induction v as [|e v IH]; intros s t.
  - unfold sv. cbn. apply app_nil_r.
  - destruct v as [|e' v'].
    + cbn [v_push_merge]. destruct e as [s0 t0|nm].
      * destruct (tag_eqb t0 t); unfold sv; cbn; rewrite ?app_nil_r; reflexivity.
      * unfold sv; cbn; rewrite ?app_nil_r; reflexivity.
    + change (v_push_merge (e :: e' :: v') s t) with (e :: v_push_merge (e' :: v') s t).
      unfold sv in *. cbn [flat_map]. rewrite IH. cbn [flat_map]. rewrite <- !app_assoc. reflexivity.
Qed.

Lemma tl_string_push_str : forall l s t, tl_string (tl_push_str l s t) = tl_string l ++ s.
Proof.
  intros l s t. unfold tl_push_str. destruct s as [|c s]; [rewrite app_nil_r; reflexivity|].
  unfold tl_string. cbn [tv]. apply sv_push_merge.
Qed.
Lemma tl_string_push : forall l e, tl_string (tl_push l e) = tl_string l ++ elem_text e.
Proof.
  intros l [s t|nm]; cbn [tl_push elem_text].
  - apply tl_string_push_str.
  - unfold tl_string. cbn [tv]. rewrite flat_map_app. reflexivity.
Qed.
Lemma tl_string_push_char : forall l c t, tl_string (tl_push_char l c t) = tl_string l ++ [c].
Proof. intros l c t. unfold tl_push_char, tl_string. cbn [tv]. apply sv_push_merge. Qed.
Lemma tl_string_consume : forall other l, tl_string (tl_consume l other) = tl_string l ++ tl_string other.
Proof.
  intros other l. unfold tl_consume. unfold tl_string at 3.
  revert l. induction (tv other) as [|e v IH]; intros l; cbn [fold_left flat_map].
  - rewrite app_nil_r. reflexivity.
  - rewrite IH, tl_string_push, <- app_assoc. reflexivity.
Qed.

Lemma swidth_border_string : forall b, swidth (border_string b) = N.of_nat (length b).
Proof.
  induction b as [|s b IH]; unfold border_string in *; cbn [map swidth length]; [reflexivity|].
  rewrite IH. destruct s; unfold cw0; cbn; lia.
Qed.
Lemma swidth_vertical_lines : forall b, swidth (to_vertical_lines_above b) = N.of_nat (length b).
Proof.
  induction b as [|s b IH]; unfold to_vertical_lines_above in *; cbn [map swidth length]; [reflexivity|].
  rewrite IH. destruct s; unfold cw0; cbn; lia.
Qed.
Lemma swidth_spacesl : forall lb n, swidth (spacesl lb n) = n.
Proof. intros lb n. unfold spacesl. rewrite swidth_repeat_space. lia. Qed.

(* the separator between two cells *)
Definition bar (draw : bool) : chr := if draw then vbar else spacel L_border.
Lemma cw0_bar : forall draw, cw0 (bar draw) = 1.
Proof. intros [|]; reflexivity. Qed.

(* what cell j contributes to output line i *)
Definition cell_text (i : nat) (w : N) (pad : option text) (ls : list rline) : text :=
  match nth_opt ls i with
  | Some r => rline_string r
  | None => match pad with Some p => p | None => spacesl L_pad w end
  end.

Fixpoint row_text (draw : bool) (i : nat) (sets : list (N * list rline)) (pads : list (option text))
  : text :=
  match sets with
  | [] => []
  | (w, ls) :: sets' =>
    cell_text i w (match pads with p :: _ => p | [] => None end) ls ++
    match sets' with
    | [] => []
    | _ => bar draw :: row_text draw i sets' (tl pads)
    end
  end.

(* the characters of an assembled line: cell, bar, cell, bar, ..., cell *)
Theorem row_line_string : forall t draw i sets pads acc,
  tl_string (row_line t draw i sets pads acc) = tl_string acc ++ row_text draw i sets pads.
Proof.
  intros t draw i. induction sets as [|[w ls] sets' IH]; intros pads acc.
  - cbn [row_line row_text]. rewrite app_nil_r. reflexivity.
  - cbn [row_line row_text]. rewrite IH.
    set (pad := match pads with p :: _ => p | [] => None end).
    assert (H1 : tl_string
              match nth_opt ls i with
              | Some (RText tl) => tl_consume acc tl
              | Some (RLine b _) => tl_push acc (Str (border_string b) t)
              | None => tl_push acc (Str match pad with Some p => p | None => spacesl L_pad w end t)
              end = tl_string acc ++ cell_text i w pad ls).
    { unfold cell_text. destruct (nth_opt ls i) as [[tl|b bt]|].
      - apply tl_string_consume.
      - rewrite tl_string_push. reflexivity.
      - rewrite tl_string_push. reflexivity. }
    destruct sets' as [|s' sets''].
    + rewrite H1. cbn [row_text]. rewrite !app_nil_r. reflexivity.
    + fold (bar draw). rewrite tl_string_push_char, H1, <- !app_assoc. reflexivity.
Qed.

(* line i of cell j is "exact": it is as wide as the cell *)
Definition rline_exact (w : N) (r : rline) : Prop :=
  match r with
  | RText tl => tl_width_raw tl = w
  | RLine b _ => N.of_nat (length b) = w
  end.
Definition cell_line_ok (w : N) (pad : option text) (ol : option rline) : Prop :=
  match ol with
  | Some r => rline_exact w r
  | None => match pad with Some p => swidth p = w | None => True end
  end.
Fixpoint row_ok (i : nat) (sets : list (N * list rline)) (pads : list (option text)) : Prop :=
  match sets with
  | [] => True
  | (w, ls) :: sets' =>
    cell_line_ok w (match pads with p :: _ => p | [] => None end) (nth_opt ls i) /\
    row_ok i sets' (tl pads)
  end.

Lemma cell_text_width : forall i w pad ls,
  cell_line_ok w pad (nth_opt ls i) -> swidth (cell_text i w pad ls) = w.
Proof.
  intros i w pad ls H. unfold cell_text. destruct (nth_opt ls i) as [[tl|b bt]|]; cbn [cell_line_ok rline_exact] in H.
  - cbn [rline_string]. rewrite <- tl_width_raw_string. exact H.
  - cbn [rline_string]. rewrite swidth_border_string. exact H.
  - destruct pad as [p|]; [exact H|apply swidth_spacesl].
Qed.

Lemma row_text_width : forall draw i sets pads,
  row_ok i sets pads ->
  swidth (row_text draw i sets pads) = sumN (map fst sets) + (N.of_nat (length sets) - 1).
Proof.
  intros draw i. induction sets as [|[w ls] sets' IH]; intros pads Hok.
  - reflexivity.
  - cbn [row_ok] in Hok. destruct Hok as [Hc Hok].
    cbn [row_text map fst sumN length]. rewrite swidth_app, (cell_text_width _ _ _ _ Hc).
    destruct sets' as [|s' sets''].
    + cbn [swidth map sumN length]. lia.
    + cbn [swidth]. rewrite cw0_bar, (IH _ Hok). cbn [length]. lia.
Qed.

(* all lines of a row band are equally wide *)
Theorem row_line_width : forall t draw i sets pads acc,
  row_ok i sets pads ->
  tl_width_raw (row_line t draw i sets pads acc) =
  tl_width_raw acc + sumN (map fst sets) + (N.of_nat (length sets) - 1).
Proof.
  intros t draw i sets pads acc Hok.
  rewrite !tl_width_raw_string, row_line_string, swidth_app, (row_text_width _ _ _ _ Hok). lia.
Qed.

(* the bars sit at the display columns `bar_positions`: the text in front of the j-th bar is
   exactly as wide as the j-th bar position *)
Lemma row_text_bars : forall draw i sets pads pos j x,
  row_ok i sets pads ->
  nth_opt (bar_positions (map fst sets) pos) j = Some x ->
  exists pre post,
    row_text draw i sets pads = pre ++ bar draw :: post /\ pos + swidth pre = x.
Proof.
  intros draw i. induction sets as [|[w ls] sets' IH]; intros pads pos j x Hok Hj.
  - destruct j; discriminate.
  - destruct sets' as [|s' sets'']; [destruct j; discriminate|].
    cbn [row_ok] in Hok. destruct Hok as [Hc Hok].
    change (bar_positions (map fst ((w, ls) :: s' :: sets'')) pos)
      with ((pos + w) :: bar_positions (map fst (s' :: sets'')) (pos + w + 1)) in Hj.
    change (row_text draw i ((w, ls) :: s' :: sets'') pads)
      with (cell_text i w (match pads with p :: _ => p | [] => None end) ls ++
            bar draw :: row_text draw i (s' :: sets'') (tl pads)).
    destruct j as [|j]; cbn [nth_opt] in Hj.
    + inversion Hj; subst x. eexists; eexists. split; [reflexivity|].
      rewrite (cell_text_width _ _ _ _ Hc). reflexivity.
    + destruct (IH (tl pads) (pos + w + 1) j x Hok Hj) as [pre [post [Heq Hw]]].
      exists (cell_text i w (match pads with p :: _ => p | [] => None end) ls ++ bar draw :: pre), post.
      rewrite Heq. split.
      * rewrite <- app_assoc. reflexivity.
      * rewrite swidth_app, (cell_text_width _ _ _ _ Hc). cbn [swidth]. rewrite cw0_bar. lia.
Qed.

Theorem row_line_bars : forall t draw i sets pads j x,
  row_ok i sets pads ->
  nth_opt (bar_positions (map fst sets) 0) j = Some x ->
  exists pre post,
    tl_string (row_line t draw i sets pads tl_new) = pre ++ bar draw :: post /\ swidth pre = x.
Proof.
  intros t draw i sets pads j x Hok Hj.
  destruct (row_text_bars draw i sets pads 0 j x Hok Hj) as [pre [post [Heq Hw]]].
  exists pre, post. rewrite row_line_string. cbn. split; [exact Heq|lia].
Qed.

(* ---- where exact lines come from: pad_cell_lines ---- *)
Lemma vw_push_str : forall l s t, tl_width_raw (tl_push_str l s t) = tl_width_raw l + swidth s.
Proof. intros l s t. rewrite !tl_width_raw_string, tl_string_push_str, swidth_app. reflexivity. Qed.

Lemma tl_pad_to_exact : forall l w t l',
  tl_pad_to l w t = Ok l' -> tl_width_raw l <= w -> tl_width_raw l' = w.
Proof.
  intros l w t l' H Hle. unfold tl_pad_to, tl_width in H.
  destruct (tlen_ l =? tl_width_raw l); cbn [bind] in H; [|discriminate].
  destruct (N.ltb_spec (tl_width_raw l) w) as [Hlt|Hge]; inversion H; subst l'.
  - unfold tl_push_wsl. rewrite vw_push_str, swidth_spacesl. lia.
  - lia.
Qed.

Definition rline_fits (w : N) (r : rline) : Prop :=
  match r with
  | RText tl => tl_width_raw tl <= w
  | RLine b _ => N.of_nat (length b) <= w
  end.

(* pad_cell_lines makes every line that fits the cell exactly as wide as the cell *)
Lemma pad_cell_lines_exact : forall w t ls ls',
  pad_cell_lines w t ls = Ok ls' -> Forall (rline_fits w) ls -> Forall (rline_exact w) ls'.
Proof.
  intros w t. induction ls as [|r ls IH]; intros ls' H Hf; cbn [pad_cell_lines] in H.
  - inversion H; subst. constructor.
  - inversion Hf as [|r0 l0 Hr Hls]; subst.
    destruct r as [tl|b bt].
    + destruct (tl_pad_to tl w t) as [tl'| | |] eqn:Hp; cbn [bind] in H; try discriminate.
      destruct (pad_cell_lines w t ls) as [r'| | |]; cbn [bind] in H; try discriminate.
      inversion H; subst ls'. constructor; [|apply IH; [reflexivity|exact Hls]].
      cbn [rline_exact rline_fits] in *. eapply tl_pad_to_exact; eassumption.
    + destruct (pad_cell_lines w t ls) as [r'| | |]; cbn [bind] in H; try discriminate.
      inversion H; subst ls'. constructor; [|apply IH; [reflexivity|exact Hls]].
      cbn [rline_exact rline_fits] in *. rewrite length_stretch_to. lia.
Qed.

(* ---- the collapse steps keep the cells exact and make exact paddings ---- *)
Definition sets_exact (sets : list (N * list rline)) : Prop :=
  Forall (fun p => Forall (rline_exact (fst p)) (snd p)) sets.
Definition pad_ok (p : N * list rline) (pad : option text) : Prop :=
  match pad with Some s => swidth s = fst p | None => True end.

Lemma Forall_removelast : forall {A} (P : A -> Prop) l, Forall P l -> Forall P (removelast l).
Proof.
  intros A P l H. induction H as [|a l Ha H IH]; cbn [removelast]; [constructor|].
  destruct l as [|b l']; [constructor|]. constructor; assumption.
Qed.
Lemma olast_in : forall {A} (l : list A) x, olast l = Some x -> In x l.
Proof.
  intros A l x H. unfold olast in H. destruct (rev l) as [|y r] eqn:E; [discriminate|].
  inversion H; subst y. apply in_rev. rewrite E. left. reflexivity.
Qed.

Lemma collapse_top_exact : forall sets prev pos prev' sets',
  collapse_top sets prev pos = Ok (prev', sets') ->
  sets_exact sets -> map fst sets' = map fst sets /\ sets_exact sets'.
Proof.
  induction sets as [|[w sub] sets IH]; intros prev pos prev' sets' H Hex; cbn [collapse_top] in H.
  - inversion H; subst. split; [reflexivity|constructor].
  - inversion Hex as [|p0 l0 Hsub Hrest]; subst. cbn [fst snd] in Hsub.
    destruct sub as [|[tl|line lt] sub'].
    + destruct (collapse_top sets prev (pos + w + 1)) as [[p s]| | |] eqn:E; cbn [bind] in H; try discriminate.
      inversion H; subst. cbn [fst snd]. destruct (IH _ _ _ _ E Hrest) as [H1 H2].
      split; [cbn [map fst]; rewrite H1; reflexivity|constructor; assumption].
    + destruct (collapse_top sets prev (pos + w + 1)) as [[p s]| | |] eqn:E; cbn [bind] in H; try discriminate.
      inversion H; subst. cbn [fst snd]. destruct (IH _ _ _ _ E Hrest) as [H1 H2].
      split; [cbn [map fst]; rewrite H1; reflexivity|constructor; assumption].
    + destruct prev as [pb|]; [|discriminate].
      destruct (collapse_top sets (Some (merge_from_below pb line pos)) (pos + w + 1)) as [[p s]| | |] eqn:E;
        cbn [bind] in H; try discriminate.
      inversion H; subst. cbn [fst snd]. destruct (IH _ _ _ _ E Hrest) as [H1 H2].
      split; [cbn [map fst]; rewrite H1; reflexivity|].
      constructor; [|assumption]. cbn [fst snd]. inversion Hsub; assumption.
Qed.

Lemma collapse_bottom_exact : forall sets next pos next' sets' pads,
  collapse_bottom sets next pos = (next', sets', pads) ->
  sets_exact sets ->
  map fst sets' = map fst sets /\ sets_exact sets' /\ Forall2 pad_ok sets' pads.
Proof.
  induction sets as [|[w sub] sets IH]; intros next pos next' sets' pads H Hex; cbn [collapse_bottom] in H.
  - inversion H; subst. repeat split; constructor.
  - inversion Hex as [|p0 l0 Hsub Hrest]; subst. cbn [fst snd] in Hsub.
    destruct (olast sub) as [[tl|line lt]|] eqn:El.
    + destruct (collapse_bottom sets next (pos + w + 1)) as [[n' s'] p'] eqn:E.
      inversion H; subst. destruct (IH _ _ _ _ _ E Hrest) as [H1 [H2 H3]].
      split; [cbn [map fst]; rewrite H1; reflexivity|].
      split; constructor; try assumption. exact I.
    + destruct (collapse_bottom sets (merge_from_above next line pos) (pos + w + 1)) as [[n' s'] p'] eqn:E.
      inversion H; subst. destruct (IH _ _ _ _ _ E Hrest) as [H1 [H2 H3]].
      split; [cbn [map fst]; rewrite H1; reflexivity|].
      split; constructor; try assumption.
      * cbn [fst snd]. apply Forall_removelast. exact Hsub.
      * cbn [pad_ok fst]. rewrite swidth_vertical_lines.
        apply olast_in in El. rewrite Forall_forall in Hsub. exact (Hsub _ El).
    + destruct (collapse_bottom sets next (pos + w + 1)) as [[n' s'] p'] eqn:E.
      inversion H; subst. destruct (IH _ _ _ _ _ E Hrest) as [H1 [H2 H3]].
      split; [cbn [map fst]; rewrite H1; reflexivity|].
      split; constructor; try assumption. exact I.
Qed.

Lemma nth_opt_Forall : forall {A} (P : A -> Prop) l n a, Forall P l -> nth_opt l n = Some a -> P a.
Proof.
  intros A P l n a H. revert n. induction H as [|x l Hx _ IH]; intros n Hn; [destruct n; discriminate|].
  destruct n as [|n]; cbn [nth_opt] in Hn; [inversion Hn; subst; exact Hx|eauto].
Qed.

Lemma row_ok_of_exact : forall i sets pads,
  sets_exact sets -> Forall2 pad_ok sets pads -> row_ok i sets pads.
Proof.
  intros i sets pads Hex Hp. revert Hex. induction Hp as [|[w ls] pad sets pads Hpad _ IH]; intros Hex.
  - exact I.
  - inversion Hex as [|p0 l0 Hls Hrest]; subst. cbn [fst snd] in Hls. cbn [row_ok tl]. split; [|exact (IH Hrest)].
    unfold cell_line_ok. destruct (nth_opt ls i) as [r|] eqn:En.
    + exact (nth_opt_Forall _ _ _ _ Hls En).
    + destruct pad as [p|]; [exact Hpad|exact I].
Qed.
Lemma row_ok_no_pads : forall i sets,
  sets_exact sets -> row_ok i sets (map (fun _ => None) sets).
Proof.
  intros i sets Hex. apply row_ok_of_exact; [exact Hex|].
  clear. induction sets as [|p l IH]; cbn [map]; constructor; [exact I|exact IH].
Qed.

(* C05/C06, row band: when every cell line fits its cell, every assembled line of the row
   (with collapsed borders, as in append_columns_with_borders) is exactly
   tot_width = sum of the cell widths + (number of cells - 1) wide *)
Theorem row_band_width : forall t draw i sets prev1 next1 prev2 sets2 next2 sets3 pads,
  sets_exact sets ->
  collapse_top sets prev1 0 = Ok (prev2, sets2) ->
  collapse_bottom sets2 next1 0 = (next2, sets3, pads) ->
  tl_width_raw (row_line t draw i sets3 pads tl_new) =
  sumN (map fst sets) + (N.of_nat (length sets) - 1).
Proof.
  intros t draw i sets prev1 next1 prev2 sets2 next2 sets3 pads Hex Ht Hb.
  destruct (collapse_top_exact _ _ _ _ _ Ht Hex) as [H1 H2].
  destruct (collapse_bottom_exact _ _ _ _ _ _ Hb H2) as [H3 [H4 H5]].
  rewrite (row_line_width t draw i sets3 pads tl_new (row_ok_of_exact i _ _ H4 H5)).
  rewrite H3, H1.
  assert (Hl : length sets3 = length sets).
  { rewrite <- (map_length fst sets3), H3, H1, map_length. reflexivity. }
  rewrite Hl. unfold tl_new, tl_width_raw. cbn [tv map sumN]. lia.
Qed.

(* the sets computed by col_line_sets are exact when every cell's lines fit the cell *)
Lemma col_line_sets_exact : forall t cols sets,
  col_line_sets t cols = Ok sets ->
  Forall (fun c => forall ls, sub_into_lines c = Ok ls -> Forall (rline_fits (swidth_ c)) ls) cols ->
  sets_exact sets /\ map fst sets = map swidth_ cols.
Proof.
  intros t. induction cols as [|c cols IH]; intros sets H Hf; cbn [col_line_sets] in H.
  - inversion H; subst. split; [constructor|reflexivity].
  - inversion Hf as [|c0 l0 Hc Hrest]; subst.
    destruct (sub_into_lines c) as [ls| | |] eqn:El; cbn [bind] in H; try discriminate.
    destruct (pad_cell_lines (swidth_ c) t ls) as [pls| | |] eqn:Ep; cbn [bind] in H; try discriminate.
    destruct (col_line_sets t cols) as [r| | |] eqn:Er; cbn [bind] in H; try discriminate.
    inversion H; subst sets. destruct (IH r eq_refl Hrest) as [H1 H2].
    split; [|cbn [map fst]; rewrite H2; reflexivity].
    constructor; [|exact H1]. cbn [fst snd].
    eapply pad_cell_lines_exact; [exact Ep|]. apply Hc. reflexivity.
Qed.

(* the hypothesis is needed: a cell line wider than its cell makes that row line wider *)
Example overflow_counterexample :
  let wide := RText (tl_from_string (of_ascii [97; 98; 99; 100; 101]) []) in   (* "abcde" in a cell of width 3 *)
  let ok := RText (tl_from_string (of_ascii [120; 121]) []) in                 (* "xy" in a cell of width 2 *)
  (pad_cell_lines 3 [] [wide],
   tl_width_raw (row_line [] true 0 [(3, [wide]); (2, [ok])] [None; None] tl_new)) =
  (Ok [wide], 8).                                                              (* 8 > 3 + 2 + 1 *)
Proof. vm_compute. reflexivity. Qed.

Example row_example :
  let c1 := [RText (tl_from_string (of_ascii [97; 98; 99]) [])] in             (* "abc" *)
  let c2 := [RText (tl_from_string (of_ascii [120; 121]) []); RText (tl_from_string (of_ascii [122; 122]) [])] in
  (cps (tl_string (row_line [] true 0 [(3, c1); (2, c2)] [None; None] tl_new)),
   cps (tl_string (row_line [] true 1 [(3, c1); (2, c2)] [None; None] tl_new)),
   bar_positions [3; 2] 0) =
  ([97; 98; 99; 9474; 120; 121], [32; 32; 32; 9474; 122; 122], [3]).
Proof. vm_compute. reflexivity. Qed.

(* ---- the borders after collapsing (nested tables): still pure join sequences ---- *)
Fixpoint join_positions (other : list seg) (pos : N) : list N :=
  match other with
  | [] => []
  | s :: other' => (if seg_is_join s then [pos] else []) ++ join_positions other' (pos + 1)
  end.

Lemma merge_from_spec : forall (J : N -> jop) jn,
  (forall b x, jn b x = apply_jop b (J x)) ->
  forall other b pos,
  merge_from jn b other pos = fold_left apply_jop (map J (join_positions other pos)) b.
Proof.
  intros J jn HJ. induction other as [|s other IH]; intros b pos; cbn [merge_from join_positions]; [reflexivity|].
  rewrite IH. destruct (seg_is_join s); cbn [app map fold_left]; [rewrite HJ|]; reflexivity.
Qed.
Lemma merge_from_above_spec : forall other b pos,
  merge_from_above b other pos = fold_left apply_jop (map JA (join_positions other pos)) b.
Proof. intros. unfold merge_from_above. apply merge_from_spec. reflexivity. Qed.
Lemma merge_from_below_spec : forall other b pos,
  merge_from_below b other pos = fold_left apply_jop (map JB (join_positions other pos)) b.
Proof. intros. unfold merge_from_below. apply merge_from_spec. reflexivity. Qed.

Lemma join_positions_bound : forall other pos x,
  In x (join_positions other pos) -> pos <= x /\ x < pos + N.of_nat (length other).
Proof.
  induction other as [|s other IH]; intros pos x Hin; cbn [join_positions] in Hin; [destruct Hin|].
  apply in_app_or in Hin. destruct Hin as [Hin|Hin].
  - destruct (seg_is_join s); [|destruct Hin]. destruct Hin as [<-|[]]. cbn [length]. lia.
  - apply IH in Hin. cbn [length]. lia.
Qed.

(* joins that the bottom (top) borders of the cells contribute to the next (previous) border *)
Fixpoint collapsed_bottom (sets : list (N * list rline)) (pos : N) : list N :=
  match sets with
  | [] => []
  | (w, sub) :: sets' =>
    match olast sub with
    | Some (RLine line _) => join_positions line pos
    | _ => []
    end ++ collapsed_bottom sets' (pos + w + 1)
  end.
Fixpoint collapsed_top (sets : list (N * list rline)) (pos : N) : list N :=
  match sets with
  | [] => []
  | (w, sub) :: sets' =>
    match sub with
    | RLine line _ :: _ => join_positions line pos
    | _ => []
    end ++ collapsed_top sets' (pos + w + 1)
  end.

Lemma collapse_bottom_next : forall sets next pos next' sets' pads,
  collapse_bottom sets next pos = (next', sets', pads) ->
  next' = fold_left apply_jop (map JA (collapsed_bottom sets pos)) next.
Proof.
  induction sets as [|[w sub] sets IH]; intros next pos next' sets' pads H;
    cbn [collapse_bottom collapsed_bottom] in *.
  - inversion H; subst. reflexivity.
  - destruct (olast sub) as [[tl|line lt]|].
    + destruct (collapse_bottom sets next (pos + w + 1)) as [[n' s'] p'] eqn:E.
      inversion H; subst. cbn [app]. eapply IH. exact E.
    + destruct (collapse_bottom sets (merge_from_above next line pos) (pos + w + 1)) as [[n' s'] p'] eqn:E.
      inversion H; subst. rewrite map_app, fold_left_app, <- merge_from_above_spec. eapply IH. exact E.
    + destruct (collapse_bottom sets next (pos + w + 1)) as [[n' s'] p'] eqn:E.
      inversion H; subst. cbn [app]. eapply IH. exact E.
Qed.

Lemma collapse_top_prev : forall sets pb pos prev' sets',
  collapse_top sets (Some pb) pos = Ok (prev', sets') ->
  prev' = Some (fold_left apply_jop (map JB (collapsed_top sets pos)) pb).
Proof.
  induction sets as [|[w sub] sets IH]; intros pb pos prev' sets' H;
    cbn [collapse_top collapsed_top] in *.
  - inversion H; subst. reflexivity.
  - destruct sub as [|[tl|line lt] sub'].
    + destruct (collapse_top sets (Some pb) (pos + w + 1)) as [[p s]| | |] eqn:E; cbn [bind] in H; try discriminate.
      inversion H; subst. cbn [fst app]. eapply IH. exact E.
    + destruct (collapse_top sets (Some pb) (pos + w + 1)) as [[p s]| | |] eqn:E; cbn [bind] in H; try discriminate.
      inversion H; subst. cbn [fst app]. eapply IH. exact E.
    + destruct (collapse_top sets (Some (merge_from_below pb line pos)) (pos + w + 1)) as [[p s]| | |] eqn:E;
        cbn [bind] in H; try discriminate.
      inversion H; subst. cbn [fst]. rewrite map_app, fold_left_app, <- merge_from_below_spec.
      eapply IH. exact E.
Qed.
(* without a previous border nothing is collapsed at the top unless a cell starts with a
   border, which is the model's Panic 37 (unreachable!() in the Rust code) *)
Lemma collapse_top_none : forall sets pos prev' sets',
  collapse_top sets None pos = Ok (prev', sets') -> prev' = None /\ sets' = sets.
Proof.
  induction sets as [|[w sub] sets IH]; intros pos prev' sets' H; cbn [collapse_top] in H.
  - inversion H; subst. split; reflexivity.
  - destruct sub as [|[tl|line lt] sub']; try discriminate;
      (destruct (collapse_top sets None (pos + w + 1)) as [[p s]| | |] eqn:E; cbn [bind] in H; try discriminate;
       inversion H; subst; cbn [fst snd]; destruct (IH _ _ _ E) as [-> ->]; split; reflexivity).
Qed.

Lemma collapsed_bottom_bound : forall sets pos x,
  sets_exact sets -> In x (collapsed_bottom sets pos) ->
  pos <= x /\ x + 1 <= pos + sumN (map fst sets) + (N.of_nat (length sets) - 1).
Proof.
  induction sets as [|[w sub] sets IH]; intros pos x Hex Hin; cbn [collapsed_bottom] in Hin; [destruct Hin|].
  inversion Hex as [|p0 l0 Hsub Hrest]; subst. cbn [fst snd] in Hsub.
  cbn [map fst sumN length]. apply in_app_or in Hin. destruct Hin as [Hin|Hin].
  - destruct (olast sub) as [[tl|line lt]|] eqn:El; try destruct Hin.
    apply join_positions_bound in Hin. apply olast_in in El.
    rewrite Forall_forall in Hsub. specialize (Hsub _ El). cbn [rline_exact] in Hsub. lia.
  - destruct sets as [|s' sets']; [destruct Hin|].
    apply (IH _ _ Hrest) in Hin. cbn [length] in *. lia.
Qed.
Lemma collapsed_top_bound : forall sets pos x,
  sets_exact sets -> In x (collapsed_top sets pos) ->
  pos <= x /\ x + 1 <= pos + sumN (map fst sets) + (N.of_nat (length sets) - 1).
Proof.
  induction sets as [|[w sub] sets IH]; intros pos x Hex Hin; cbn [collapsed_top] in Hin; [destruct Hin|].
  inversion Hex as [|p0 l0 Hsub Hrest]; subst. cbn [fst snd] in Hsub.
  cbn [map fst sumN length]. apply in_app_or in Hin. destruct Hin as [Hin|Hin].
  - destruct sub as [|[tl|line lt] sub']; try destruct Hin.
    apply join_positions_bound in Hin. inversion Hsub as [|r0 l1 Hr _]; subst. cbn [rline_exact] in Hr. lia.
  - destruct sets as [|s' sets']; [destruct Hin|].
    apply (IH _ _ Hrest) in Hin. cbn [length] in *. lia.
Qed.

Lemma joined_width_bounded : forall w ops,
  (forall o, In o ops -> jop_pos o + 1 <= w) -> joined_width w ops = w.
Proof.
  intros w ops H. destruct (joined_width_max ops w) as [Hw|[o [Hin Hw]]]; [exact Hw|].
  specialize (H o Hin). pose proof (joined_width_ge ops w). lia.
Qed.

(* C05, the border drawn under a row: it is exactly as long as the row's lines
   (tot_width), and shows ┴ exactly under the bars of this row and under the junctions of the
   collapsed bottom borders of its cells, ─ everywhere else *)
Theorem row_bottom_border : forall sets2 pb next2 sets3 pads,
  sets_exact sets2 ->
  let ws_ := map fst sets2 in
  let tot := sumN ws_ + (N.of_nat (length ws_) - 1) in
  collapse_bottom sets2 (snd (join_cols ws_ pb (border_new tot) 0)) 0 = (next2, sets3, pads) ->
  N.of_nat (length next2) = tot /\
  forall x, x < tot ->
    nth_opt next2 (N.to_nat x) =
    Some (if existsb (N.eqb x) (bar_positions ws_ 0 ++ collapsed_bottom sets2 0)
          then JoinAbove else Straight).
Proof.
  intros sets2 pb next2 sets3 pads Hex ws_ tot H.
  apply collapse_bottom_next in H. rewrite join_cols_spec in H. cbn [snd] in H.
  rewrite <- fold_left_app, <- map_app in H. subst next2.
  assert (Hw : joined_width tot (map JA (bar_positions ws_ 0 ++ collapsed_bottom sets2 0)) = tot).
  { apply joined_width_bounded. intros o Hin. apply in_map_iff in Hin. destruct Hin as [y [<- Hin]].
    cbn [jop_pos]. apply in_app_or in Hin. destruct Hin as [Hin|Hin].
    - apply bar_positions_lt in Hin. subst tot. lia.
    - apply (collapsed_bottom_bound _ _ _ Hex) in Hin. subst tot ws_. rewrite map_length. lia. }
  split; [rewrite border_join_length; exact Hw|].
  intros x Hx. rewrite border_join_spec, Hw.
  destruct (N.ltb_spec x tot) as [_|Hge]; [|lia].
  rewrite joined_above_JA, joined_below_JA. reflexivity.
Qed.

(* a row with a nested table in its second cell: the nested table's bottom border
   (─┴─) is collapsed into the row's bottom border *)
Example collapse_example :
  let inner := [RText (tl_from_string (of_ascii [97; 98; 99]) []); RLine [Straight; JoinAbove; Straight] []] in
  let sets := [(2, [RText (tl_from_string (of_ascii [120; 121]) [])]); (3, inner)] in
  let '(next2, sets3, pads) := collapse_bottom sets (snd (join_cols [2; 3] [] (border_new 6) 0)) 0 in
  (cps (border_string next2), collapsed_bottom sets 0, bar_positions [2; 3] 0,
   cps (tl_string (row_line [] true 1 sets3 pads tl_new))) =
  ([9472; 9472; 9524; 9472; 9524; 9472], [4], [2],                 (* ──┴─┴─ *)
   [32; 32; 9474; 32; 9474; 32]).                                     (* "  │ │ " *)
Proof. vm_compute. reflexivity. Qed.

(* ================================================================== *)
Print Assumptions border_join_spec.
Print Assumptions border_join_length.
Print Assumptions border_join_glyph.
Print Assumptions border_join_ext.
Print Assumptions border_join_comm.
Print Assumptions join_cols_spec.
Print Assumptions join_cols_next.
Print Assumptions border_between_rows.
Print Assumptions argmax_col_spec.
Print Assumptions shrink_loop_total.
Print Assumptions shrink_loop_never_panics.
Print Assumptions c06_text_column_nonzero.
Print Assumptions col_width_of_ge_min.
Print Assumptions col_width_of_le_size.
Print Assumptions table_col_widths_ok.
Print Assumptions table_width_le.
Print Assumptions row_line_string.
Print Assumptions row_line_width.
Print Assumptions row_line_bars.
Print Assumptions pad_cell_lines_exact.
Print Assumptions col_line_sets_exact.
Print Assumptions row_band_width.
Print Assumptions row_bottom_border.
Print Assumptions collapse_top_prev.
