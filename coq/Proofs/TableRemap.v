(* Proofs/TableRemap.v -- property C06 through `render_table_new` (model of RenderTable::new):
   the renumbering of the columns of a table.  See the summary at the end of the file. *)
From Coq Require Import Lia ZifyN ZifyBool ZifyNat.
From Coq Require Import List NArith Bool.
Import ListNotations.
From H2T Require Import Base Tagged Wrap Sub Css Dom Render.
From H2T Require Import Proofs.RenderWidth Proofs.CascadeDom.
Local Open Scope N_scope.
Local Arguments N.add : simpl never.
Local Arguments N.sub : simpl never.
Local Arguments N.leb : simpl never.
Local Arguments N.ltb : simpl never.
Local Arguments N.eqb : simpl never.
Local Arguments N.max : simpl never.
Local Arguments N.min : simpl never.

(* ------------------------------------------------------------------ *)
(* 1. strictly sorted lists, insert_sorted, sorted_set                 *)
Fixpoint ssorted (l : list N) : Prop :=
  match l with
  | [] => True
  | x :: l' => (forall y, In y l' -> x < y) /\ ssorted l'
  end.

Lemma ssorted_NoDup l : ssorted l -> NoDup l.
Proof.
  induction l as [|x l IH]; intros H; [constructor|]. destruct H as [Hx Hl].
  constructor; [|apply IH, Hl]. intros Hin. specialize (Hx x Hin). lia.
Qed.

Lemma insert_sorted_in x l y : In y (insert_sorted x l) <-> y = x \/ In y l.
Proof.
  induction l as [|z l IH]; cbn [insert_sorted In].
  - intuition.
  - destruct (x <? z) eqn:E1; [cbn [In]; intuition|].
    destruct (x =? z) eqn:E2; [cbn [In]; intuition; subst; left; lia|].
    cbn [In]. rewrite IH. intuition.
Qed.

Lemma insert_sorted_ssorted x l : ssorted l -> ssorted (insert_sorted x l).
Proof.
  induction l as [|z l IH]; intros H; cbn [insert_sorted].
  - cbn. split; [intros y []|exact I].
  - destruct H as [Hz Hl]. destruct (x <? z) eqn:E1.
    + cbn [ssorted]. split; [|split; assumption].
      intros y [<-|Hy]; [lia|]. specialize (Hz y Hy). lia.
    + destruct (x =? z) eqn:E2; [split; assumption|].
      cbn [ssorted]. split; [|apply IH, Hl].
      intros y Hy. apply insert_sorted_in in Hy. destruct Hy as [->|Hy]; [lia|apply Hz, Hy].
Qed.

Lemma sorted_set_gen l : forall acc,
  ssorted acc ->
  ssorted (fold_left (fun acc x => insert_sorted x acc) l acc) /\
  (forall y, In y (fold_left (fun acc x => insert_sorted x acc) l acc) <-> In y l \/ In y acc).
Proof.
  induction l as [|x l IH]; intros acc H; cbn [fold_left].
  - split; [exact H|]. intros y. cbn [In]. intuition.
  - destruct (IH (insert_sorted x acc) (insert_sorted_ssorted x acc H)) as [H1 H2].
    split; [exact H1|]. intros y. rewrite H2, insert_sorted_in. cbn [In]. intuition.
Qed.

Theorem sorted_set_ssorted l : ssorted (sorted_set l).
Proof. apply (sorted_set_gen l []). exact I. Qed.
Theorem sorted_set_in l y : In y (sorted_set l) <-> In y l.
Proof.
  unfold sorted_set. destruct (sorted_set_gen l [] I) as [_ H]. rewrite H. cbn [In]. intuition.
Qed.
Theorem sorted_set_NoDup l : NoDup (sorted_set l).
Proof. apply ssorted_NoDup, sorted_set_ssorted. Qed.

(* ------------------------------------------------------------------ *)
(* 2. rank = number of smaller elements; index_of                      *)
Definition rank (x : N) (l : list N) : N := N.of_nat (length (filter (fun y => y <? x) l)).
Definition len (l : list N) : N := N.of_nat (length l).

Lemma rank_cons x y l : rank x (y :: l) = (if y <? x then 1 else 0) + rank x l.
Proof. unfold rank. cbn [filter]. destruct (y <? x); cbn [length]; lia. Qed.
Lemma rank_nil x : rank x [] = 0.
Proof. reflexivity. Qed.

Lemma rank_zero_below x l : (forall z, In z l -> x <= z) -> rank x l = 0.
Proof.
  induction l as [|y l IH]; intros H; [reflexivity|]. rewrite rank_cons, IH.
  - specialize (H y (or_introl eq_refl)). destruct (y <? x) eqn:E; lia.
  - intros z Hz. apply H. right. exact Hz.
Qed.

Lemma rank_mono x y l : x <= y -> rank x l <= rank y l.
Proof.
  intros Hxy. induction l as [|z l IH]; [rewrite !rank_nil; lia|]. rewrite !rank_cons.
  destruct (z <? x) eqn:E1; destruct (z <? y) eqn:E2; lia.
Qed.

Lemma rank_strict x y l : In x l -> x < y -> rank x l < rank y l.
Proof.
  intros Hin Hxy. induction l as [|z l IH]; [destruct Hin|]. rewrite !rank_cons.
  destruct Hin as [->|Hin].
  - pose proof (rank_mono x y l ltac:(lia)). destruct (x <? x) eqn:E1; destruct (x <? y) eqn:E2; lia.
  - specialize (IH Hin). destruct (z <? x) eqn:E1; destruct (z <? y) eqn:E2; lia.
Qed.

Lemma rank_lt_len x l : In x l -> rank x l < len l.
Proof.
  induction l as [|z l IH]; intros Hin; [destruct Hin|]. rewrite rank_cons. unfold len in *. cbn [length].
  destruct Hin as [->|Hin].
  - destruct (x <? x) eqn:E; [lia|]. unfold rank. pose proof (filter_length_le (fun y => y <? x) l). lia.
  - specialize (IH Hin). destruct (z <? x); lia.
Qed.

Lemma index_of_spec l : forall x i, ssorted l -> In x l -> index_of x l i = Some (i + rank x l).
Proof.
  induction l as [|y l IH]; intros x i Hs Hin; [destruct Hin|].
  destruct Hs as [Hy Hl]. cbn [index_of]. rewrite rank_cons. destruct (x =? y) eqn:E.
  - assert (x = y) by lia. subst y. rewrite rank_zero_below.
    + destruct (x <? x) eqn:E1; [lia|]. f_equal. lia.
    + intros z Hz. specialize (Hy z Hz). lia.
  - destruct Hin as [->|Hin]; [lia|]. rewrite (IH x (i + 1) Hl Hin).
    specialize (Hy x Hin). destruct (y <? x) eqn:E1; [|lia]. f_equal. lia.
Qed.

Lemma index_of_none l : forall x i, ~ In x l -> index_of x l i = None.
Proof.
  induction l as [|y l IH]; intros x i Hn; [reflexivity|]. cbn [index_of].
  destruct (x =? y) eqn:E; [exfalso; apply Hn; left; lia|]. apply IH. intros H. apply Hn. right. exact H.
Qed.

(* every index below the length is hit *)
Lemma rank_surj l : ssorted l -> forall k, k < len l -> exists e, In e l /\ rank e l = k.
Proof.
  induction l as [|y l IH]; intros Hs k Hk; unfold len in *; cbn [length] in Hk; [lia|].
  destruct Hs as [Hy Hl]. destruct (N.eq_dec k 0) as [->|Hk0].
  - exists y. split; [left; reflexivity|]. rewrite rank_cons, rank_zero_below.
    + destruct (y <? y) eqn:E; lia.
    + intros z Hz. specialize (Hy z Hz). lia.
  - destruct (IH Hl (k - 1) ltac:(lia)) as (e & He & Hr). exists e. split; [right; exact He|].
    rewrite rank_cons, Hr. specialize (Hy e He). destruct (y <? e) eqn:E; lia.
Qed.

(* rank difference = number of elements in the half-open interval *)
Definition count_in (a b : N) (l : list N) : N :=
  N.of_nat (length (filter (fun s => (a <=? s) && (s <? b)) l)).
Definition count_in' (a b : N) (l : list N) : N :=
  N.of_nat (length (filter (fun s => (a <? s) && (s <=? b)) l)).
Lemma rank_diff a b l : a <= b -> rank b l - rank a l = count_in a b l.
Proof.
  intros Hab. pose proof (rank_mono a b l Hab) as Hm. enough (rank b l = rank a l + count_in a b l) by lia.
  clear Hm. induction l as [|z l IH]; [reflexivity|]. rewrite !rank_cons, IH. unfold count_in. cbn [filter].
  destruct (z <? b) eqn:E1; destruct (z <? a) eqn:E2; destruct (a <=? z) eqn:E3; cbn [andb length]; lia.
Qed.
Definition rankle (x : N) (l : list N) : N := N.of_nat (length (filter (fun y => y <=? x) l)).
Lemma rankle_cons x y l : rankle x (y :: l) = (if y <=? x then 1 else 0) + rankle x l.
Proof. unfold rankle. cbn [filter]. destruct (y <=? x); cbn [length]; lia. Qed.
Lemma rankle_rank x l : ssorted l -> In x l -> rankle x l = rank x l + 1.
Proof.
  induction l as [|z l IH]; intros Hs Hin; [destruct Hin|]. destruct Hs as [Hz Hl].
  rewrite rankle_cons, rank_cons. destruct Hin as [->|Hin].
  - assert (E : rankle x l = 0).
    { clear -Hz. induction l as [|y l IH]; [reflexivity|]. rewrite rankle_cons, IH.
      - specialize (Hz y (or_introl eq_refl)). destruct (y <=? x) eqn:E; lia.
      - intros w Hw. apply Hz. right. exact Hw. }
    rewrite E, rank_zero_below.
    + destruct (x <=? x) eqn:E1; destruct (x <? x) eqn:E2; lia.
    + intros w Hw. specialize (Hz w Hw). lia.
  - rewrite (IH Hl Hin). specialize (Hz x Hin). destruct (z <=? x) eqn:E1; destruct (z <? x) eqn:E2; lia.
Qed.
Lemma rankle_diff a b l : a <= b -> rankle b l = rankle a l + count_in' a b l.
Proof.
  intros Hab. induction l as [|z l IH]; [reflexivity|]. rewrite !rankle_cons, IH. unfold count_in'. cbn [filter].
  destruct (z <=? b) eqn:E1; destruct (z <=? a) eqn:E2; destruct (a <? z) eqn:E3; cbn [andb length]; lia.
Qed.
Lemma count_in_shift a b l : ssorted l -> In a l -> In b l -> a <= b -> count_in' a b l = count_in a b l.
Proof.
  intros Hs Ha Hb Hab. pose proof (rankle_diff a b l Hab) as H1. pose proof (rank_diff a b l Hab) as H2.
  pose proof (rank_mono a b l Hab). rewrite !rankle_rank in H1 by assumption. lia.
Qed.

(* ------------------------------------------------------------------ *)
(* 3. end positions; row_positions, all_positions                      *)
Fixpoint ends (spans : list N) (start : N) : list N :=
  match spans with
  | [] => []
  | x :: l => (start + x) :: ends l (start + x)
  end.
Definition ospan (c : rcell) : N := N.max (cell_colspan c) 1.
(* old end positions of a row (what `remap_cells` walks) and new ones *)
Definition old_ends (r : rrow) : list N := ends (map ospan (row_cells r)) 0.
Definition new_ends (r : rrow) : list N := ends (map cell_colspan (row_cells r)) 0.
(* side condition: no cell has colspan 0 (established by tbody_rows, see tbody_rows_pos) *)
Definition pos_cells (cells : list rcell) : Prop := Forall (fun c => 1 <= cell_colspan c) cells.
Definition pos_rows (rows : list rrow) : Prop := Forall (fun r => pos_cells (row_cells r)) rows.

Lemma ends_length l : forall s, length (ends l s) = length l.
Proof. induction l as [|x l IH]; intros s; cbn [ends length]; [reflexivity|]. rewrite IH. reflexivity. Qed.
Lemma ends_ge l : forall s e, In e (ends l s) -> s <= e.
Proof.
  induction l as [|x l IH]; intros s e H; cbn [ends In] in H; [destruct H|].
  destruct H as [<-|H]; [lia|]. specialize (IH _ _ H). lia.
Qed.
Lemma ends_le_sum l : forall s e, In e (ends l s) -> e <= s + sumN l.
Proof.
  induction l as [|x l IH]; intros s e H; cbn [ends In sumN] in *; [destruct H|].
  destruct H as [<-|H]; [lia|]. specialize (IH _ _ H). lia.
Qed.
Lemma ends_sum_in l : forall s, l <> [] -> In (s + sumN l) (ends l s).
Proof.
  induction l as [|x l IH]; intros s Hn; [congruence|]. cbn [ends sumN In].
  destruct l as [|y l]; [left; cbn [sumN]; lia|]. right.
  replace (s + (x + sumN (y :: l))) with (s + x + sumN (y :: l)) by lia. apply IH. discriminate.
Qed.

Lemma row_positions_ends cells : forall col p,
  row_positions cells col = Ok p -> p = ends (map cell_colspan cells) col.
Proof.
  induction cells as [|c cells IH]; intros col p H; cbn [row_positions] in H.
  - ok_inv H. reflexivity.
  - bind_inv H col' Hc. bind_inv H r Hr. ok_inv H. unfold uadd in Hc.
    destruct (col + cell_colspan c <=? usize_max); [|discriminate]. ok_inv Hc.
    cbn [map ends]. f_equal. apply IH, Hr.
Qed.
Lemma pos_ospan cells : pos_cells cells -> map ospan cells = map cell_colspan cells.
Proof.
  induction 1 as [|c cells Hc _ IH]; [reflexivity|]. cbn [map]. rewrite IH. f_equal. unfold ospan. lia.
Qed.

Lemma all_positions_in rows : forall ps,
  all_positions rows = Ok ps -> pos_rows rows ->
  forall e, In e ps <-> exists r, In r rows /\ In e (old_ends r).
Proof.
  induction rows as [|r rows IH]; intros ps H Hp e; cbn [all_positions] in H.
  - ok_inv H. split; [intros []|intros (r & [] & _)].
  - bind_inv H p Hr. bind_inv H ps' Hps. ok_inv H. inversion Hp as [|? ? Hp1 Hp2]; subst.
    apply row_positions_ends in Hr. rewrite in_app_iff, (IH _ Hps Hp2 e).
    assert (Hr' : p = old_ends r) by (unfold old_ends; rewrite (pos_ospan _ Hp1); exact Hr).
    rewrite Hr'. clear Hr Hr'. split.
    + intros [H|(r' & H1 & H2)]; [exists r; split; [left; reflexivity|exact H]|].
      exists r'. split; [right; exact H1|exact H2].
    + intros (r' & [<-|H1] & H2); [left; exact H2|]. right. exists r'. split; assumption.
Qed.

Lemma all_positions_err rows : (exists ps, all_positions rows = Ok ps) \/ all_positions rows = Panic 30.
Proof.
  assert (Hrow : forall cells col, (exists p, row_positions cells col = Ok p) \/ row_positions cells col = Panic 30).
  { induction cells as [|c cells IH]; intros col; cbn [row_positions]; [left; eexists; reflexivity|].
    unfold uadd. destruct (col + cell_colspan c <=? usize_max); cbn [bind]; [|right; reflexivity].
    destruct (IH (col + cell_colspan c)) as [(p & ->)| ->]; cbn [bind]; [left; eexists; reflexivity|right; reflexivity]. }
  induction rows as [|r rows IH]; cbn [all_positions]; [left; eexists; reflexivity|].
  destruct (Hrow (row_cells r) 0) as [(p & ->)| ->]; cbn [bind]; [|right; reflexivity].
  destruct IH as [(ps & ->)| ->]; cbn [bind]; [left; eexists; reflexivity|right; reflexivity].
Qed.

(* ------------------------------------------------------------------ *)
(* 4. remap_cells / remap_rows                                         *)
Definition same_cells (cells cells' : list rcell) : Prop :=
  map cell_content cells' = map cell_content cells /\ map cell_style cells' = map cell_style cells.

Lemma remap_cells_shape set cells : forall pos mapped cells',
  remap_cells set cells pos mapped = Ok cells' -> same_cells cells cells'.
Proof.
  induction cells as [|[n k s] cells IH]; intros pos mapped cells' H; cbn [remap_cells] in H.
  - ok_inv H. split; reflexivity.
  - bind_inv H nextpos Hn. destruct (index_of nextpos set 0) as [nm|]; [|discriminate].
    bind_inv H cs0 Hc. bind_inv H r Hr. ok_inv H. destruct (IH _ _ _ Hr) as [H1 H2].
    split; cbn [map cell_content cell_style]; f_equal; assumption.
Qed.

(* the half-open intervals (old start, old end] of the cells of a row *)
Fixpoint intervals (spans : list N) (start : N) : list (N * N) :=
  match spans with
  | [] => []
  | x :: l => (start, start + x) :: intervals l (start + x)
  end.
Definition old_intervals (r : rrow) : list (N * N) := intervals (map ospan (row_cells r)) 0.

(* totality and the positions, in one lemma *)
Lemma remap_cells_spec set : ssorted set -> forall cells pos,
  In pos set ->
  (forall e, In e (ends (map ospan cells) pos) -> In e set) ->
  (forall e, In e (ends (map ospan cells) pos) -> e <= usize_max) ->
  exists cells', remap_cells set cells pos (rank pos set) = Ok cells' /\
    ends (map cell_colspan cells') (rank pos set) = map (fun e => rank e set) (ends (map ospan cells) pos) /\
    map cell_colspan cells' = map (fun ab => count_in' (fst ab) (snd ab) set) (intervals (map ospan cells) pos) /\
    pos_cells cells'.
Proof.
  intros Hs. induction cells as [|[n k s] cells IH]; intros pos Hpos Hin Hle; cbn [remap_cells].
  - exists []. repeat split; constructor.
  - cbn [map ends] in Hin, Hle. unfold ospan at 1 3 in Hin. unfold ospan at 1 3 in Hle. cbn [cell_colspan] in Hin, Hle.
    unfold uadd. pose proof (Hle _ (or_introl eq_refl)) as Hl. pose proof (Hin _ (or_introl eq_refl)) as Hnext.
    destruct (pos + N.max n 1 <=? usize_max) eqn:E; [|lia]. cbn [bind].
    rewrite (index_of_spec set _ 0 Hs Hnext). rewrite N.add_0_l.
    unfold usub. pose proof (rank_strict pos (pos + N.max n 1) set Hpos ltac:(lia)) as Hm.
    destruct (rank pos set <=? rank (pos + N.max n 1) set) eqn:E2; [|lia]. cbn [bind].
    destruct (IH (pos + N.max n 1) Hnext) as (cells' & Hc & He & Hcnt & Hp).
    { intros e He. apply Hin. right. exact He. }
    { intros e He. apply Hle. right. exact He. }
    rewrite Hc. cbn [bind]. eexists. split; [reflexivity|].
    cbn [map ends intervals cell_colspan fst snd]. unfold ospan at 1 3 5. cbn [cell_colspan].
    replace (rank pos set + (rank (pos + N.max n 1) set - rank pos set)) with (rank (pos + N.max n 1) set) by lia.
    split; [f_equal; exact He|]. split.
    + f_equal; [|exact Hcnt]. rewrite count_in_shift by (try assumption; lia). apply rank_diff. lia.
    + constructor; [cbn [cell_colspan]; lia|exact Hp].
Qed.

Definition remapped (S : list N) (r r' : rrow) : Prop :=
  new_ends r' = map (fun e => rank e S) (old_ends r) /\
  map cell_colspan (row_cells r') = map (fun ab => count_in' (fst ab) (snd ab) S) (old_intervals r) /\
  pos_cells (row_cells r').

Lemma rank_0 l : rank 0 l = 0.
Proof. apply rank_zero_below. intros; lia. Qed.

Lemma remap_rows_spec set : ssorted set -> In 0 set -> forall rows,
  (forall r e, In r rows -> In e (old_ends r) -> In e set /\ e <= usize_max) ->
  exists rows', remap_rows set rows = Ok rows' /\ Forall2 (remapped set) rows rows'.
Proof.
  intros Hs H0. induction rows as [|[cells s] rows IH]; intros Hin; cbn [remap_rows].
  - exists []. split; [reflexivity|constructor].
  - destruct (remap_cells_spec set Hs cells 0 H0) as (cells' & Hc & He & Hcnt & Hp).
    { intros e He. apply (Hin (RRow cells s) e (or_introl eq_refl) He). }
    { intros e He. apply (Hin (RRow cells s) e (or_introl eq_refl) He). }
    rewrite rank_0 in Hc, He. rewrite Hc. cbn [bind].
    destruct IH as (rows' & Hr & HF). { intros r e Hr. apply Hin. right. exact Hr. }
    rewrite Hr. cbn [bind]. eexists. split; [reflexivity|]. constructor; [|exact HF].
    split; [exact He|]. split; [exact Hcnt|exact Hp].
Qed.

Definition shape (r r' : rrow) : Prop :=
  row_style r' = row_style r /\ same_cells (row_cells r) (row_cells r').
Lemma remap_rows_shape set rows : forall rows',
  remap_rows set rows = Ok rows' -> Forall2 shape rows rows'.
Proof.
  induction rows as [|[cells s] rows IH]; intros rows' H; cbn [remap_rows] in H.
  - ok_inv H. constructor.
  - bind_inv H cells' Hc. bind_inv H r Hr. ok_inv H.
    constructor; [|apply IH, Hr]. split; [reflexivity|]. cbn [row_cells].
    eapply remap_cells_shape; eassumption.
Qed.

(* 1. SHAPE: no hypothesis at all *)
Theorem render_table_new_shape rows rows' ncols :
  render_table_new rows = Ok (ITable rows' ncols) ->
  Forall2 shape rows rows' /\ ncols = maxN (map row_num_cells rows').
Proof.
  unfold render_table_new. intros H. bind_inv H ps Hps. bind_inv H rows'' Hr. ok_inv H.
  split; [eapply remap_rows_shape; eassumption|reflexivity].
Qed.
Print Assumptions render_table_new_shape.

(* ------------------------------------------------------------------ *)
(* 5. render_table_new                                                 *)
Lemma row_positions_le cells : forall col p,
  row_positions cells col = Ok p -> forall e, In e p -> e <= usize_max.
Proof.
  induction cells as [|c cells IH]; intros col p H e He; cbn [row_positions] in H.
  - ok_inv H. destruct He.
  - bind_inv H col' Hc. bind_inv H r Hr. ok_inv H. unfold uadd in Hc.
    destruct (col + cell_colspan c <=? usize_max) eqn:E; [|discriminate]. ok_inv Hc.
    destruct He as [<-|He]; [lia|]. eapply IH; eassumption.
Qed.
Lemma all_positions_le rows : forall ps,
  all_positions rows = Ok ps -> forall e, In e ps -> e <= usize_max.
Proof.
  induction rows as [|r rows IH]; intros ps H e He; cbn [all_positions] in H.
  - ok_inv H. destruct He.
  - bind_inv H p Hr. bind_inv H ps' Hps. ok_inv H. apply in_app_iff in He. destruct He as [He|He].
    + eapply row_positions_le; eassumption.
    + eapply IH; eassumption.
Qed.

(* the set of column positions of a table *)
Definition table_set (ps : list N) : list N := sorted_set (0 :: ps).

Lemma table_set_in rows ps : all_positions rows = Ok ps -> pos_rows rows ->
  forall e, In e (table_set ps) <-> e = 0 \/ exists r, In r rows /\ In e (old_ends r).
Proof.
  intros H Hp e. unfold table_set. rewrite sorted_set_in. cbn [In].
  rewrite (all_positions_in rows ps H Hp e). intuition.
Qed.

(* 4. TOTALITY: once the positions have been collected without overflow, the constructor succeeds;
   in particular Panic 32 (colmap.get(&nextpos).unwrap()) and the subtraction never fail *)
Theorem render_table_new_total rows ps :
  pos_rows rows -> all_positions rows = Ok ps ->
  exists rows', render_table_new rows = Ok (ITable rows' (maxN (map row_num_cells rows'))) /\
                Forall2 (remapped (table_set ps)) rows rows'.
Proof.
  intros Hp Hps. unfold render_table_new. rewrite Hps. cbn [bind]. fold (table_set ps).
  destruct (remap_rows_spec (table_set ps) (sorted_set_ssorted _)) with (rows := rows) as (rows' & Hr & HF).
  - apply sorted_set_in. left. reflexivity.
  - intros r e Hr He.
    assert (Hin : In e ps) by (apply (all_positions_in rows ps Hps Hp e); exists r; split; assumption).
    split; [apply sorted_set_in; right; exact Hin|]. eapply all_positions_le; eassumption.
  - rewrite Hr. cbn [bind]. exists rows'. split; [reflexivity|exact HF].
Qed.
Print Assumptions render_table_new_total.

Theorem render_table_new_ok_or_overflow rows :
  pos_rows rows ->
  (exists rows' n, render_table_new rows = Ok (ITable rows' n)) \/
  (all_positions rows = Panic 30 /\ render_table_new rows = Panic 30).
Proof.
  intros Hp. destruct (all_positions_err rows) as [(ps & Hps)|He].
  - left. destruct (render_table_new_total rows ps Hp Hps) as (rows' & H & _). eauto.
  - right. split; [exact He|]. unfold render_table_new. rewrite He. reflexivity.
Qed.
Print Assumptions render_table_new_ok_or_overflow.

(* 2. POSITIONS *)
Theorem render_table_new_positions rows rows' ncols :
  pos_rows rows -> render_table_new rows = Ok (ITable rows' ncols) ->
  exists ps, all_positions rows = Ok ps /\
    let S := table_set ps in
    ssorted S /\ NoDup S /\
    (forall e, In e S <-> e = 0 \/ exists r, In r rows /\ In e (old_ends r)) /\
    Forall2 shape rows rows' /\
    Forall2 (remapped S) rows rows'.
Proof.
  intros Hp H. destruct (all_positions_err rows) as [(ps & Hps)|He].
  - exists ps. split; [exact Hps|]. cbv zeta.
    destruct (render_table_new_total rows ps Hp Hps) as (rows'' & H' & HF).
    rewrite H' in H. injection H as -> _.
    split; [apply sorted_set_ssorted|]. split; [apply sorted_set_NoDup|].
    split; [apply table_set_in; assumption|].
    split; [|exact HF]. eapply render_table_new_shape; exact H'.
  - unfold render_table_new in H. rewrite He in H. discriminate.
Qed.
Print Assumptions render_table_new_positions.

(* ------------------------------------------------------------------ *)
(* 6. corollaries                                                      *)
(* (b) the renumbering preserves the order of positions, across all rows *)
Theorem rank_order S e1 e2 : In e1 S -> In e2 S ->
  (rank e1 S ?= rank e2 S) = (e1 ?= e2).
Proof.
  intros H1 H2. destruct (N.compare_spec e1 e2) as [->|Hlt|Hgt].
  - apply N.compare_refl.
  - apply N.compare_lt_iff. apply rank_strict; assumption.
  - apply N.compare_gt_iff. apply rank_strict; assumption.
Qed.

Lemma Forall2_nth_pair {A B} (P : A -> B -> Prop) l l' :
  Forall2 P l l' -> forall x, In x l -> exists y, In y l' /\ P x y.
Proof.
  induction 1 as [|a b l l' Hab H IH]; intros x Hin; [destruct Hin|].
  destruct Hin as [<-|Hin]; [exists b; split; [left; reflexivity|exact Hab]|].
  destruct (IH x Hin) as (y & Hy & Hp). exists y. split; [right; exact Hy|exact Hp].
Qed.

(* two cells (of any two rows) end at the same new column iff they ended at the same old column,
   and the new ends compare like the old ones: stated on the positional lists
   new_ends r' = map rank (old_ends r) *)
Theorem remapped_order rows rows' ncols :
  pos_rows rows -> render_table_new rows = Ok (ITable rows' ncols) ->
  exists S, Forall2 (fun r r' => new_ends r' = map (fun e => rank e S) (old_ends r)) rows rows' /\
    forall r1 r2 e1 e2, In r1 rows -> In r2 rows -> In e1 (old_ends r1) -> In e2 (old_ends r2) ->
      (rank e1 S ?= rank e2 S) = (e1 ?= e2).
Proof.
  intros Hp H. destruct (render_table_new_positions rows rows' ncols Hp H) as (ps & Hps & _ & _ & Hin & _ & HF).
  exists (table_set ps). split.
  - clear -HF. induction HF as [|r r' l l' Hr _ IH]; constructor; [apply Hr|exact IH].
  - intros r1 r2 e1 e2 Hr1 Hr2 He1 He2. apply rank_order; apply Hin; right; eauto.
Qed.
Print Assumptions remapped_order.

(* (a) no cell disappears: every new colspan is >= 1 *)
Theorem remapped_pos rows rows' ncols :
  pos_rows rows -> render_table_new rows = Ok (ITable rows' ncols) -> pos_rows rows'.
Proof.
  intros Hp H. destruct (render_table_new_positions rows rows' ncols Hp H) as (ps & Hps & _ & _ & Hin & _ & HF).
  clear -HF. induction HF as [|r r' l l' Hr _ IH]; constructor; [apply Hr|exact IH].
Qed.
Print Assumptions remapped_pos.

(* (c) no unseparated columns: every new column boundary 1..len S - 1 is the new end of a cell *)
Theorem remapped_surj rows rows' ncols :
  pos_rows rows -> render_table_new rows = Ok (ITable rows' ncols) ->
  exists ps, all_positions rows = Ok ps /\
  forall k, 1 <= k -> k < len (table_set ps) -> exists r', In r' rows' /\ In k (new_ends r').
Proof.
  intros Hp H. destruct (render_table_new_positions rows rows' ncols Hp H) as (ps & Hps & Hs & _ & Hin & _ & HF).
  exists ps. split; [exact Hps|]. intros k Hk1 Hk2.
  destruct (rank_surj _ Hs k Hk2) as (e & He & Hr). apply Hin in He. destruct He as [->|(r & Hr1 & Hr2)].
  - rewrite rank_0 in Hr. lia.
  - destruct (Forall2_nth_pair _ _ _ HF r Hr1) as (r' & Hr' & (Hends & _)).
    exists r'. split; [exact Hr'|]. rewrite Hends, <- Hr. apply in_map with (f := fun e => rank e (table_set ps)). exact Hr2.
Qed.
Print Assumptions remapped_surj.

(* ------------------------------------------------------------------ *)
(* 7. non-vacuity *)
Definition tc (n : N) : rcell := RCell n [] cstyle0.
Definition tr (l : list N) : rrow := RRow (map tc l) cstyle0.
Definition spans_of (t : res rinfo) : option (list (list N) * N) :=
  match t with
  | Ok (ITable rows n) => Some (map (fun r => map cell_colspan (row_cells r)) rows, n)
  | _ => None
  end.
Example ex_merge : spans_of (render_table_new [tr [2;1]; tr [2;1]]) = Some ([[1;1];[1;1]], 2).
Proof. vm_compute. reflexivity. Qed.
Example ex_stair : spans_of (render_table_new [tr [1;2]; tr [2;1]]) = Some ([[1;2];[2;1]], 3).
Proof. vm_compute. reflexivity. Qed.
Example ex_thousand : spans_of (render_table_new [tr [1000;1]]) = Some ([[1;1]], 2).
Proof. vm_compute. reflexivity. Qed.
Example ex_pos : pos_rows [tr [2;1]; tr [2;1]] /\ pos_rows [tr [1;2]; tr [2;1]] /\ pos_rows [tr [1000;1]].
Proof. unfold pos_rows, pos_cells, tr, tc. cbn [map row_cells]. repeat split; repeat (constructor; cbn [cell_colspan]; try lia). Qed.
Example ex_set : table_set [2;3;2;3] = [0;2;3] /\ rank 2 [0;2;3] = 1 /\ rank 3 [0;2;3] = 2 /\
                 count_in' 0 2 [0;2;3] = 1 /\ count_in' 2 3 [0;2;3] = 1.
Proof. vm_compute. repeat split. Qed.
(* the side condition pos_rows is needed: on rows that did NOT go through tbody_rows, a colspan=0
   cell makes the constructor panic (positions are collected with `colspan`, walked with `colspan.max(1)`) *)
Example ex_zero_panics : render_table_new [tr [0]] = Panic 32.
Proof. vm_compute. reflexivity. Qed.
Example ex_overflow : render_table_new [tr [usize_max; 1]] = Panic 30.
Proof. vm_compute. reflexivity. Qed.

(* ------------------------------------------------------------------ *)
(* 8. the side condition holds for every table built by `process`: the rows of a table come from
   ITableBody nodes only (Dom.v, table case), whose rows went through tbody_rows *)
Lemma row_count_flag cells : forall hz n b m,
  row_count cells hz n = Ok (b, m) -> b = hz || existsb (fun c => cell_colspan c =? 0) cells.
Proof.
  induction cells as [|c cells IH]; intros hz n b m H; cbn [row_count] in H.
  - ok_inv H. cbn [existsb]. rewrite orb_false_r. reflexivity.
  - bind_inv H n' Hn. apply IH in H. cbn [existsb]. rewrite H, orb_assoc. reflexivity.
Qed.
Lemma fix_zero_pos maxc r cnt n0 :
  row_count (row_cells r) false n0 = Ok cnt -> pos_cells (row_cells (fix_zero_colspan maxc r cnt)).
Proof.
  intros H. destruct cnt as [b m]. apply row_count_flag in H. cbn [orb] in H.
  unfold fix_zero_colspan. cbn [fst snd]. destruct r as [cells s]. cbn [row_cells] in *. destruct b.
  - cbn [row_cells]. clear H. induction cells as [|[n k st] cells IH]; cbn [map]; constructor; [|exact IH].
    destruct (n =? 0) eqn:E; cbn [cell_colspan]; lia.
  - cbn [row_cells]. symmetry in H. induction cells as [|c cells IH]; constructor.
    + cbn [existsb] in H. apply orb_false_elim in H. destruct H as [H _]. lia.
    + apply IH. cbn [existsb] in H. apply orb_false_elim in H. apply H.
Qed.
Theorem tbody_rows_pos rows rows' : tbody_rows rows = Ok rows' -> pos_rows rows'.
Proof.
  unfold tbody_rows. intros H. bind_inv H counts Hc. ok_inv H.
  generalize (match counts with [] => 1 | _ :: _ => maxN (map snd counts) end). intros maxc.
  revert counts Hc. induction rows as [|r rows IH]; intros counts Hc; cbn [rows_counts] in Hc.
  - ok_inv Hc. constructor.
  - bind_inv Hc c Hr. bind_inv Hc cs Hcs. ok_inv Hc. cbn [map2]. constructor.
    + eapply fix_zero_pos. exact Hr.
    + apply IH, Hcs.
Qed.
Print Assumptions tbody_rows_pos.
Lemma pos_rows_app a b : pos_rows a -> pos_rows b -> pos_rows (a ++ b).
Proof. apply Forall_app_intro || (intros; apply Forall_app; split; assumption). Qed.

(* ------------------------------------------------------------------ *)
(* 9. (d) the number of columns *)
Lemma maxN_ge l x : In x l -> x <= maxN l.
Proof. induction l as [|y l IH]; intros H; [destruct H|]. cbn [maxN]. destruct H as [->|H]; [lia|specialize (IH H); lia]. Qed.
Lemma maxN_le l b : (forall x, In x l -> x <= b) -> maxN l <= b.
Proof.
  induction l as [|y l IH]; intros H; cbn [maxN]; [lia|].
  pose proof (H y (or_introl eq_refl)). assert (maxN l <= b) by (apply IH; intros; apply H; right; assumption). lia.
Qed.
Lemma row_num_cells_pos r : pos_cells (row_cells r) -> row_num_cells r = sumN (map cell_colspan (row_cells r)).
Proof. intros H. unfold row_num_cells. f_equal. apply (pos_ospan _ H). Qed.

Theorem remapped_ncols rows rows' ncols :
  pos_rows rows -> render_table_new rows = Ok (ITable rows' ncols) ->
  exists ps, all_positions rows = Ok ps /\ ncols = len (table_set ps) - 1.
Proof.
  intros Hp H. destruct (render_table_new_positions rows rows' ncols Hp H) as (ps & Hps & Hs & _ & Hin & _ & HF).
  exists ps. split; [exact Hps|]. cbv zeta in *.
  destruct (render_table_new_shape _ _ _ H) as [_ ->].
  assert (Hup : maxN (map row_num_cells rows') <= len (table_set ps) - 1).
  { apply maxN_le. intros x Hx. apply in_map_iff in Hx. destruct Hx as (r' & <- & Hr').
    assert (HF' : Forall2 (fun a b => remapped (table_set ps) b a) rows' rows).
    { clear -HF. induction HF; constructor; assumption. }
    destruct (Forall2_nth_pair _ _ _ HF' r' Hr') as (r & Hr & (Hends & _ & Hpc)).
    rewrite (row_num_cells_pos _ Hpc). destruct (map cell_colspan (row_cells r')) as [|c l] eqn:E; [cbn [sumN]; lia|].
    assert (Hi : In (0 + sumN (c :: l)) (new_ends r')).
    { unfold new_ends. rewrite E. apply ends_sum_in. discriminate. }
    rewrite Hends in Hi. apply in_map_iff in Hi. destruct Hi as (e & He1 & He2).
    assert (In e (table_set ps)) by (apply Hin; right; eauto).
    pose proof (rank_lt_len e _ H0). lia. }
  destruct (N.eq_dec (len (table_set ps) - 1) 0) as [E0|E0]; [lia|].
  destruct (remapped_surj rows rows' _ Hp H) as (ps' & Hps' & Hsurj). rewrite Hps in Hps'. injection Hps' as <-.
  destruct (Hsurj (len (table_set ps) - 1) ltac:(lia) ltac:(lia)) as (r' & Hr' & Hk).
  assert (Hpr : pos_rows rows') by (eapply remapped_pos; eassumption).
  unfold pos_rows in Hpr. rewrite Forall_forall in Hpr. specialize (Hpr r' Hr').
  apply ends_le_sum in Hk. rewrite <- (row_num_cells_pos _ Hpr) in Hk.
  pose proof (maxN_ge (map row_num_cells rows') (row_num_cells r') (in_map _ _ _ Hr')). lia.
Qed.
Print Assumptions remapped_ncols.

(* 3. IDEMPOTENCE: NOT proved in general (time); checked on the examples only *)
Definition again (t : res rinfo) : res rinfo :=
  match t with Ok (ITable rows _) => render_table_new rows | _ => Panic 0 end.
Example ex_idem :
  again (render_table_new [tr [2;1]; tr [2;1]]) = render_table_new [tr [2;1]; tr [2;1]] /\
  again (render_table_new [tr [1;2]; tr [2;1]]) = render_table_new [tr [1;2]; tr [2;1]] /\
  again (render_table_new [tr [1000;1]; tr [3;7;5]]) = render_table_new [tr [1000;1]; tr [3;7;5]].
Proof. vm_compute. repeat split. Qed.

(* SUMMARY
   hypothesis pos_rows rows: every cell has colspan >= 1.  Justified by tbody_rows_pos (the rows of a
   table come only from ITableBody nodes, built by tbody_rows which replaces colspan 0); NEEDED:
   ex_zero_panics shows render_table_new [row [colspan 0]] = Panic 32 in the model (and in the Rust
   constructor taken alone: positions are collected with `colspan` but walked with `colspan.max(1)`).
   render_table_new_shape      (no hypothesis) same rows/cells/contents/styles, ncols = max row_num_cells
   render_table_new_total / render_table_new_ok_or_overflow   Ok, or Panic 30 from all_positions' uadd
   render_table_new_positions  S strictly sorted, dup-free, = {0} + old ends; new_ends = map rank old_ends;
                               new colspan = count_in' start end S = |S /\ (start, end]|; all >= 1
   remapped_order (b), remapped_pos (a), remapped_surj (c), remapped_ncols (d: ncols = |S| - 1 always)
   sorted_set_ssorted / sorted_set_in / sorted_set_NoDup, index_of_spec, index_of_none, rank_surj *)
