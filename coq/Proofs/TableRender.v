(* Proofs/TableRender.v -- C05 / C06 assembled at the level of `render_node` on a table node
   (the real render_table / render_table_row path of Render.v: start_block, top rule, then per
   row apply_style, cell_widths, one fresh sub-renderer per cell, append_columns_with_borders
   with collapse = true or append_vert_row, unwind).  Any decorator satisfying RenderWidth's two
   ol-prefix conditions (the built-in ones do), cells are arbitrary subtrees (nested tables
   included).  No axioms; every main theorem is followed by Print Assumptions.

   VOCABULARY
     view r            what a line shows: VText (its characters) or VRule (its junction segments)
     sets              the cells of one rendered row after col_line_sets: (cell width, padded lines)
                       (col_line_sets_padded: text lines get L_pad blanks, rules are stretched)
     row_ws/row_tot    the cell widths of the row / their sum + (number of cells - 1)
     row_band sets     the text lines of the row: row_text true k (row_sets3 sets) (row_pads sets),
                       i.e. cell, │, cell, │, ..., cell  (TableProof.row_text / cell_text), where
                       row_sets3 = the cells without a leading / trailing rule (those are
                       collapsed into the rules around the row), row_pads = what the rows below
                       a collapsed bottom rule show
     row_below sets    positions joined FROM BELOW into the rule above the row:
                       bar_positions (row_ws sets) 0 ++ collapsed_top sets 0
     row_above sets    positions joined FROM ABOVE into the rule below the row:
                       bar_positions ++ collapsed_bottom (top_strip sets) 0
     table_views pb rsets      rule, band_1, rule, ..., band_m, rule  (section 4)
     junction_rule W A B       border_new W joined above at A and below at B
     rows_run / cells_run      the trace: which cell is rendered where (each cell by the same
                       render functions in a fresh sub-renderer, alone on the stack, of the
                       width cell_widths gives it; links threaded left-to-right, top-to-bottom;
                       a row all of whose cells are empty is skipped)
     table_layout      the layout decision of render_node (column estimates, stacked or not,
                       column widths), as a function of the node and the width

   MAIN THEOREMS
   table_render_horizontal (section 6): for a table node rendered into the top sub-renderer
     tp0, side-by-side layout chosen, borders on:
       views (lines of the top sub-renderer afterwards) =
         views (its lines after start_block) ++ table_views (border_new table_width) rsets
     with rows_run ... rsets (every entry: exact cells, widths = somes cws, non-empty).
     Hypotheses, all decidable / invariants:  tree_ok false 0 (ordered lists start >= i64_min;
     RenderWidth), st_inv false 0 (every sub-renderer on the stack: no overflow allowed, lines
     within width: RenderWidth's invariant, needed for the cells to be exactly as wide as their
     columns -- TableProof.overflow_counterexample), ptxt tp0 = [] (Compose.clean_top, an
     invariant), o_borders, table_layout = Ok (false, col_widths), table width <> 0 (otherwise
     nothing at all is drawn).
   c05_table_regular (section 10): + regular_table rows ncols (every row's spans add up to
     ncols) and all_pos col_widths: with W = sumN col_widths + (ncols - 1) <= width,
       (1) every line of the table is exactly W columns wide (table_views_width);
       (2) every text line of a row has a │ at each bar position of the row (band_line_bars),
           cell j's text occupies exactly the columns cell_offset j .. + w_j, the cells in order
           (row_text_cell), the bars of every row stand on boundaries between columns of the
           table (row_bars_on_column_boundaries), rows in order (rows_run / table_views);
       (3) the table is table_views_j W [] rsets: EVERY rule is junction_rule W A B with
           A = row_above (row above it), B = row_below (row below it) ([] at the top / bottom),
           and junction_rule_spec / _glyph: position x shows ─ ┴ ┬ ┼ according to
           (x in A, x in B) -- at every position, collapsed ones included;
       (4) what is collapsed (section 11): collapsed_top_in / collapsed_bottom_in: a cell's
           first (last remaining) line, when a rule, is removed and its junctions OF ANY KIND
           are joined into the rule above (below) at the cell's offset; collapsed_bottom_bars:
           the rows below the cell's remaining lines show │ exactly where the removed rule had
           an arm pointing up (JoinAbove / JoinCross), so there bar and junction agree.
     Without regularity / positivity the structure theorem still gives each row's own width
     row_tot sets (rows_run_exact); rows can then differ in width (recorded class
     zero_width_column_under_colspan).
   table_render_stacked (section 13): the stacked layout: full-width rule, then per row the
     cells at the FULL width one under the other separated by "////", and a full-width rule.
   C06 (section 14): table_layout_fits (columns + separators <= width), c06_column_nonzero (a
     column whose estimate has positive size and minimum gets a positive width; uses
     TableProof.shrink_loop_never_panics because e_min <= e_size FAILS for columns holding a
     nested table), c06_text_column_positive (a cell with colspan cspan whose content estimate
     has size and minimum >= cspan makes every column it covers positive; for cspan = 1: the
     cell has text.  For cspan > 1 the division by cspan can give 0: the recorded class).

   NOT PROVED (hence no claim that (3) means "a bar stands directly above / below" at collapsed
   positions in general): that the junction arms of a rule INSIDE a cell agree with the bars of
   the cell's neighbouring line (it is this theorem for the nested table, applied recursively; a
   global invariant to that effect is FALSE, see the finding), and that no other │ (label
   L_border) occurs next to a rule.

   FINDING (cex_junction_without_bar, cex_empty_band): a rendered row whose cells lose all
   their lines to the collapse has an empty band, but its bars are still joined into both
   rules: "─┬─" directly above "─┴─" (model and implementation), junctions without bars. *)
From H2T Require Import Base Tagged Wrap Sub Css Dom Render Api.
From H2T Require Import Proofs.WrapInv Proofs.Small Proofs.RenderWidth Proofs.TableProof Proofs.Compose.
From Coq Require Import Lia ZifyN ZifyBool ZifyNat.

Local Arguments N.add : simpl never.
Local Arguments N.sub : simpl never.
Local Arguments N.mul : simpl never.
Local Arguments N.div : simpl never.
Local Arguments N.modulo : simpl never.
Local Arguments N.leb : simpl never.
Local Arguments N.ltb : simpl never.
Local Arguments N.eqb : simpl never.
Local Arguments N.min : simpl never.
Local Arguments N.max : simpl never.
Local Arguments N.to_nat : simpl never.
Local Arguments N.of_nat : simpl never.
Local Open Scope N_scope.

(* ================================================================== *)
(* 1. Views of lines                                                    *)
(* ================================================================== *)

(* what a line shows: its characters, or (for a rule) its junction segments *)
Inductive vline := VText (s : text) | VRule (b : list seg).

Definition view (r : rline) : vline :=
  match r with RText l => VText (tl_string l) | RLine b _ => VRule b end.
Definition views (ls : list rline) : list vline := map view ls.

Definition vline_string (v : vline) : text :=
  match v with VText s => s | VRule b => border_string b end.

Lemma vline_string_view r : vline_string (view r) = rline_string r.
Proof. destruct r; reflexivity. Qed.

Lemma views_app a b : views (a ++ b) = views a ++ views b.
Proof. apply map_app. Qed.

Lemma olast_snoc {A} (l : list A) x : olast (l ++ [x]) = Some x.
Proof. unfold olast. rewrite rev_unit. reflexivity. Qed.

Lemma replace_last_snoc {A} (l : list A) x y : replace_last (l ++ [x]) y = l ++ [y].
Proof. unfold replace_last. rewrite removelast_last. reflexivity. Qed.

Lemma views_snoc_rule ls V pb :
  views ls = V ++ [VRule pb] -> exists L pt, ls = L ++ [RLine pb pt] /\ views L = V.
Proof.
  intros H. destruct (exists_last (l := ls)) as (L & x & ->).
  { intros ->. destruct V; discriminate. }
  rewrite views_app in H. cbn [views map] in H. apply app_inj_tail in H. destruct H as [HV Hx].
  destruct x as [tl|b pt]; cbn [view] in Hx; [discriminate|]. injection Hx as ->.
  exists L, pt. auto.
Qed.

Lemma add_line_view s l :
  ptxt s = [] ->
  views (slines (add_line s l)) = views (slines s) ++ [view l] /\
  ptxt (add_line s l) = [] /\ wrapping (add_line s l) = wrapping s /\ same_ctx s (add_line s l).
Proof.
  intros Hp. unfold add_line, ptxt, views in *.
  destruct (pending_frags s) as [|e pf] eqn:E; destruct l as [tl|b t]; sprj;
    rewrite ?map_app; cbn [map]; repeat split; auto; try (rewrite E; exact Hp).
  cbn [view]. rewrite !string_fold_push, Hp. reflexivity.
Qed.

Lemma row_lines_view t draw sets pads : forall n i s,
  ptxt s = [] ->
  views (slines (row_lines t draw n i sets pads s)) =
    views (slines s) ++ map (fun k => VText (row_text draw k sets pads)) (seq i n) /\
  ptxt (row_lines t draw n i sets pads s) = [] /\
  wrapping (row_lines t draw n i sets pads s) = wrapping s /\
  same_ctx s (row_lines t draw n i sets pads s).
Proof.
  induction n as [|n IH]; intros i s Hp; cbn [row_lines seq map].
  - rewrite app_nil_r. split; [reflexivity|]. split; [exact Hp|]. split; [reflexivity|apply same_ctx_refl].
  - destruct (add_line_view s (RText (row_line t draw i sets pads tl_new)) Hp) as (A & B & C & D).
    destruct (IH (S i) _ B) as (A' & B' & C' & D').
    split; [|split; [exact B'|split; [congruence|eapply same_ctx_trans; eassumption]]].
    rewrite A', A. cbn [view]. rewrite row_line_string. cbn [tl_string tl_new tv flat_map app].
    rewrite <- app_assoc. reflexivity.
Qed.

(* ================================================================== *)
(* 2. The collapse steps as equations                                   *)
(* ================================================================== *)

(* a cell loses its first line when that is a rule (it is merged into the rule above the row),
   and then its last line when that is a rule (merged into the rule below the row); in the
   second case the rows below the cell's remaining lines show the vertical lines of the
   removed rule instead of blanks *)
Definition top_strip1 (p : N * list rline) : N * list rline :=
  let '(w, sub) := p in
  match sub with RLine _ _ :: sub' => (w, sub') | _ => (w, sub) end.
Definition bot_strip1 (p : N * list rline) : N * list rline :=
  let '(w, sub) := p in
  match olast sub with Some (RLine _ _) => (w, removelast sub) | _ => (w, sub) end.
Definition bot_pad1 (p : N * list rline) : option text :=
  match olast (snd p) with
  | Some (RLine line _) => Some (to_vertical_lines_above line)
  | _ => None
  end.
Definition top_strip := map top_strip1.
Definition bot_strip := map bot_strip1.
Definition bot_pads := map bot_pad1.

Lemma collapse_top_some : forall sets pb pos,
  collapse_top sets (Some pb) pos =
  Ok (Some (fold_left apply_jop (map JB (collapsed_top sets pos)) pb), top_strip sets).
Proof.
  induction sets as [|[w sub] sets IH]; intros pb pos; cbn [collapse_top collapsed_top]; [reflexivity|].
  destruct sub as [|[tl|line lt] sub']; rewrite IH; cbn [bind fst snd app top_strip map top_strip1];
    try reflexivity.
  rewrite map_app, fold_left_app, <- merge_from_below_spec. reflexivity.
Qed.

Lemma collapse_bottom_eq : forall sets next pos,
  collapse_bottom sets next pos =
  (fold_left apply_jop (map JA (collapsed_bottom sets pos)) next, bot_strip sets, bot_pads sets).
Proof.
  induction sets as [|[w sub] sets IH]; intros next pos; cbn [collapse_bottom collapsed_bottom]; [reflexivity|].
  destruct (olast sub) as [[tl|line lt]|] eqn:El; rewrite IH;
    cbn [app bot_strip bot_pads map bot_strip1]; unfold bot_pad1 at 1; cbn [snd]; rewrite ?El;
    try reflexivity.
  rewrite map_app, fold_left_app, <- merge_from_above_spec. reflexivity.
Qed.

Lemma map_fst_top_strip sets : map fst (top_strip sets) = map fst sets.
Proof.
  induction sets as [|[w sub] sets IH]; [reflexivity|]. cbn [top_strip map top_strip1].
  fold (top_strip sets). rewrite IH. destruct sub as [|[tl|line lt] sub']; reflexivity.
Qed.
Lemma map_fst_bot_strip sets : map fst (bot_strip sets) = map fst sets.
Proof.
  induction sets as [|[w sub] sets IH]; [reflexivity|]. cbn [bot_strip map bot_strip1].
  fold (bot_strip sets). rewrite IH. destruct (olast sub) as [[tl|line lt]|]; reflexivity.
Qed.

(* ---- the data of one rendered row, as functions of the cells' padded lines `sets` ---- *)
Definition row_ws (sets : list (N * list rline)) : list N := map fst sets.
Definition row_tot (sets : list (N * list rline)) : N :=
  sumN (row_ws sets) + (N.of_nat (length sets) - 1).
Definition row_sets3 (sets : list (N * list rline)) := bot_strip (top_strip sets).
Definition row_pads (sets : list (N * list rline)) := bot_pads (top_strip sets).
Definition row_height (sets : list (N * list rline)) : nat :=
  fold_left Nat.max (map (fun p => length (snd p)) (row_sets3 sets)) O.
(* the text lines of the row *)
Definition row_band (sets : list (N * list rline)) : list text :=
  map (fun k => row_text true k (row_sets3 sets) (row_pads sets)) (seq 0 (row_height sets)).
(* positions joined from below into the rule above the row: the row's bars and the junctions
   of the cells' collapsed top rules *)
Definition row_below (sets : list (N * list rline)) : list N :=
  bar_positions (row_ws sets) 0 ++ collapsed_top sets 0.
(* positions joined from above into the rule below the row *)
Definition row_above (sets : list (N * list rline)) : list N :=
  bar_positions (row_ws sets) 0 ++ collapsed_bottom (top_strip sets) 0.
Definition rule_before (sets : list (N * list rline)) (pb : list seg) : list seg :=
  fold_left apply_jop (map JB (row_below sets)) pb.
Definition rule_after (sets : list (N * list rline)) : list seg :=
  fold_left apply_jop (map JA (row_above sets)) (border_new (row_tot sets)).

Lemma rule_before_eq sets pb :
  rule_before sets pb =
  fold_left apply_jop (map JB (collapsed_top sets 0))
            (fold_left apply_jop (map JB (bar_positions (map fst sets) 0)) pb).
Proof. unfold rule_before, row_below, row_ws. rewrite map_app, fold_left_app. reflexivity. Qed.
Lemma rule_after_eq sets :
  rule_after sets =
  fold_left apply_jop (map JA (collapsed_bottom (top_strip sets) 0))
            (fold_left apply_jop (map JA (bar_positions (map fst sets) 0))
                       (border_new (sumN (map fst sets) + (N.of_nat (length sets) - 1)))).
Proof. unfold rule_after, row_above, row_ws, row_tot. rewrite map_app, fold_left_app. reflexivity. Qed.

(* ================================================================== *)
(* 3. append_columns_with_borders on a sub-renderer that ends in a rule *)
(* ================================================================== *)
Lemma append_columns_view s cols s' L pb pt :
  append_columns_with_borders s cols true = Ok s' ->
  ptxt s = [] -> wrapping s = None -> o_borders (sopts s) = true ->
  slines s = L ++ [RLine pb pt] ->
  exists sets,
    col_line_sets (ann_stack s) cols = Ok sets /\ sets <> [] /\
    views (slines s') =
      views L ++ VRule (rule_before sets pb) :: map VText (row_band sets) ++ [VRule (rule_after sets)] /\
    ptxt s' = [] /\ wrapping s' = None /\ same_ctx s s'.
Proof.
  intros H Hp Hw Hb HL. unfold append_columns_with_borders in H.
  rewrite (flush_none _ Hw) in H. cbn [bind] in H.
  bind_inv H sets Hsets. bind_inv H chk Hchk.
  assert (Hne : sets <> []) by (destruct sets; discriminate).
  exists sets. split; [exact Hsets|]. split; [exact Hne|].
  rewrite HL, olast_snoc, join_cols_spec in H.
  cbv beta iota in H. rewrite collapse_top_some in H. cbn [bind] in H.
  rewrite collapse_bottom_eq in H. cbn [bind] in H. rewrite replace_last_snoc in H.
  sprj. rewrite Hb in H. injection H as <-.
  set (s2 := set_lines s _ _).
  assert (Hp2 : ptxt s2 = []) by exact Hp.
  match goal with
  | |- context [row_lines ?t ?dr ?n ?i ?st ?pd s2] =>
    destruct (row_lines_view t dr st pd n i s2 Hp2) as (A & B & C & D);
    destruct (add_line_view (row_lines t dr n i st pd s2) (RLine (fold_left apply_jop (map JA (collapsed_bottom (top_strip sets) 0)) (fold_left apply_jop (map JA (bar_positions (map fst sets) 0)) (border_new (sumN (map fst sets) + (N.of_nat (length sets) - 1))))) (ann_stack s)) B) as (A' & B' & C' & D')
  end.
  split; [|split; [exact B'|split; [rewrite C', C; exact Hw|]]].
  - rewrite A', A. unfold s2. sprj. rewrite views_app. cbn [views map view].
    rewrite <- !app_assoc. cbn [app]. rewrite rule_before_eq, rule_after_eq.
    unfold row_band, row_height, row_sets3, row_pads. rewrite map_map. reflexivity.
  - eapply same_ctx_trans; [|exact D']. eapply same_ctx_trans; [|exact D].
    unfold s2, same_ctx. sprj. auto 10.
Qed.

(* ================================================================== *)
(* 4. The whole table, as a function of the rendered rows               *)
(* ================================================================== *)

(* rule, band_1, rule, ..., band_m, rule: the rule above a row is the rule left by the
   previous row (or the table's top rule) joined from below by this row *)
Fixpoint table_views (pb : list seg) (rsets : list (list (N * list rline))) : list vline :=
  match rsets with
  | [] => [VRule pb]
  | sets :: rs =>
    VRule (rule_before sets pb) :: map VText (row_band sets) ++ table_views (rule_after sets) rs
  end.

(* ================================================================== *)
(* 5. Cells and rows of render_node's table case                        *)
(* ================================================================== *)
Section TableLevel.
  Variables (d : deco) (mw : N).
  Hypothesis Hd : ol_prefix_monotone d.
  Hypothesis Hsat : ol_prefix_sat d.

  (* the invariant of RenderWidth without the footnote side condition *)
  Notation sinv := (st_inv false 0).
  Notation tok := (tree_ok false 0).
  Notation nok := (node_ok d mw false 0).

  (* what is run for one cell (on a stack whose top is the cell's fresh sub-renderer) *)
  Definition cell_body (c : rcell) (st : rstate) : res rstate :=
    do apc <- apply_style d st (cell_style c);
    let '(s4, pcell) := apc in
    do s5 <- rkids d mw (cell_content c) s4;
    unwind d pcell s5.

  Lemma framed_cell c : framed (cell_body c).
  Proof.
    intros q1 q2 a b H. unfold cell_body.
    eapply res_rel_bind; [apply (sim_apply_style d eq (eq_ops d)), H|].
    intros [a4 p4] [b4 q4] [H4 E]. cbn [fst snd] in H4, E. subst q4.
    eapply res_rel_bind; [apply framed_kids, H4|]. intros a5 b5 H5.
    apply (sim_unwind d eq (eq_ops d)), H5.
  Qed.

  (* cell c rendered on its own: in a fresh sub-renderer of width w made from tp (tp's options,
     annotations, white-space state; no lines), alone on the stack, with the links lk collected
     so far; the result is the sub-renderer sub and the links lk' *)
  Definition cell_run (tp : subr) (lk : list text) (w : N) (c : rcell) (sub : subr) (lk' : list text)
    : Prop :=
    cell_body c (mkrst [new_sub_renderer tp w] lk) = Ok (mkrst [sub] lk').

  (* the cells of a row, left to right, links threaded; cells of width None are skipped *)
  Fixpoint cells_run (tp : subr) (cells : list rcell) (cws : list (option N)) (lk : list text)
           (subs : list subr) (lk' : list text) : Prop :=
    match cells, cws with
    | c :: cells', Some w :: cws' =>
      exists sub lk1 subs',
        cell_run tp lk w c sub lk1 /\ subs = sub :: subs' /\ cells_run tp cells' cws' lk1 subs' lk'
    | _ :: cells', None :: cws' => cells_run tp cells' cws' lk subs lk'
    | _, _ => subs = [] /\ lk' = lk
    end.

  Lemma sinv_tail s rest lk lk' : sinv (mkrst (s :: rest) lk) -> sinv (mkrst rest lk').
  Proof.
    intros [H _]. split; [|discriminate]. cbn [stack] in *. inversion H; assumption.
  Qed.

  Lemma cells_loop_run : forall cells cws tp rest lk subs0 r,
    length cws = length cells ->
    Forall (fun c => Forall nok (cell_content c)) cells ->
    forallb (cell_tree_ok false 0) cells = true ->
    sinv (mkrst (tp :: rest) lk) ->
    cells_loop d mw cells cws (mkrst (tp :: rest) lk) subs0 = Ok r ->
    exists subs lk',
      r = (mkrst (tp :: rest) lk', subs0 ++ subs) /\
      cells_run tp cells cws lk subs lk' /\
      Forall sub_ok subs /\ map swidth_ subs = somes cws.
  Proof.
    induction cells as [|[n content csty] cells IH]; intros cws tp rest lk subs0 r Hlen HF Ht Hi H;
      cbn [cells_loop] in H.
    - ok_inv H. destruct cws; [|discriminate]. exists [], lk. rewrite app_nil_r.
      cbn [cells_run somes map]. auto.
    - inversion HF as [|? ? HF1 HF2]; subst. cbn [cell_content] in HF1.
      cbn [forallb cell_tree_ok] in Ht. apply andb_true_iff in Ht. destruct Ht as [Ht1 Ht2].
      destruct cws as [|[w|] cws]; [discriminate| |]; cbn [length] in Hlen; injection Hlen as Hlen.
      + cbn [top stack bind] in H.
        set (st3 := push_sub (mkrst (tp :: rest) lk) (new_sub_renderer tp w)) in H.
        bind_inv H apc Hap. destruct apc as [s4 pcell].
        bind_inv H s5 H5. bind_inv H s6 H6. bind_inv H pp Hpp. destruct pp as [sub s7].
        assert (Hbody : cell_body (RCell n content csty) st3 = Ok s6).
        { unfold cell_body. cbn [cell_style cell_content]. rewrite Hap. cbn [bind].
          unfold rkids. rewrite H5. cbn [bind]. exact H6. }
        unfold st3, push_sub in Hbody. cbn [stack links] in Hbody.
        destruct (frame _ (framed_cell _) _ _ _ _ Hbody) as (sub' & lk1 & E6 & Hfr).
        assert (Htop : top (mkrst (tp :: rest) lk) = Ok tp) by reflexivity.
        pose proof (push_inv false 0 _ tp w Hi Htop) as Ip.
        pose proof (apply_style_R _ _ _ _ _ _ _ Ip Hap) as Ra.
        pose proof (render_kids_R d mw false 0 _ _ _ HF1 Ht1 (proj1 Ra) H5) as Rb.
        pose proof (unwind_R _ _ _ _ _ _ (proj1 Rb) H6) as Rc.
        destruct (sub_scope false 0 _ tp w s6 sub s7 Hi Htop
                    (R_trans _ _ _ _ _ Ra (R_trans _ _ _ _ _ Rb Rc)) Hpp) as (R7 & Hsub & Esub).
        subst s6. unfold pop_sub in Hpp. cbn [stack links] in Hpp. injection Hpp as <- <-.
        destruct (IH cws tp rest lk1 (subs0 ++ [sub']) r Hlen HF2 Ht2 (proj1 R7) H)
          as (subs & lk' & -> & Hrun & Hok & Hw).
        exists (sub' :: subs), lk'. rewrite <- app_assoc. cbn [app].
        split; [reflexivity|]. split; [|split].
        * cbn [cells_run]. exists sub', lk1, subs. split; [apply (Hfr [])|]. auto.
        * constructor; assumption.
        * cbn [map somes]. rewrite Esub, Hw. reflexivity.
      + destruct (IH cws tp rest lk subs0 r Hlen HF2 Ht2 Hi H) as (subs & lk' & -> & Hrun & Hok & Hw).
        exists subs, lk'. cbn [cells_run somes]. auto.
  Qed.

  Lemma cell_widths_length vr ws_ : forall cells colno cws,
    cell_widths vr ws_ cells colno = Ok cws -> length cws = length cells.
  Proof.
    induction cells as [|c cells IH]; intros colno cws H; cbn [cell_widths] in H.
    - ok_inv H. reflexivity.
    - bind_inv H cw_ H1. bind_inv H r H2. specialize (IH _ _ H2).
      destruct (0 <? cw_).
      + destruct vr.
        * ok_inv H. cbn [length]. congruence.
        * bind_inv H w1 H3. bind_inv H w2 H4. ok_inv H. cbn [length]. congruence.
      + ok_inv H. cbn [length]. congruence.
  Qed.

  Lemma rline_fits_width w r : rline_fits w r <-> rline_width r <= w.
  Proof. destruct r; cbn [rline_fits rline_width]; tauto. Qed.

  Lemma subs_sets_exact t subs sets :
    Forall sub_ok subs -> col_line_sets t subs = Ok sets ->
    sets_exact sets /\ map fst sets = map swidth_ subs.
  Proof.
    intros Hok H. eapply col_line_sets_exact; [exact H|].
    eapply Forall_impl; [|exact Hok]. intros c Hc ls Hls. apply Forall_forall. intros r Hr.
    apply rline_fits_width. eapply sub_into_lines_ok; eassumption.
  Qed.

  Lemma R_top tp rest lk tp' rest' lk' :
    R false 0 (mkrst (tp :: rest) lk) (mkrst (tp' :: rest') lk') ->
    swidth_ tp' = swidth_ tp /\ sopts tp' = sopts tp /\ sinv (mkrst (tp' :: rest') lk').
  Proof.
    intros [Hi Hs]. unfold shape in Hs. cbn [stack map] in Hs. injection Hs as E1 E2 _. auto.
  Qed.

  (* the rows of a side-by-side table, top to bottom, links threaded: for every row the cell
     widths, the cells rendered on their own (in fresh sub-renderers made from a sub-renderer
     tpr with the table's options o), and -- unless every cell is empty, in which case the row
     is skipped -- the cells' padded lines `sets` *)
  Fixpoint rows_run (o : ropts) (col_widths : list N) (rows : list rrow) (lk : list text)
           (rsets : list (list (N * list rline))) (lk' : list text) : Prop :=
    match rows with
    | [] => rsets = [] /\ lk' = lk
    | r :: rows' =>
      exists tpr cws subs lk1,
        sopts tpr = o /\
        cell_widths false col_widths (row_cells r) 0 = Ok cws /\
        cells_run tpr (row_cells r) cws lk subs lk1 /\
        Forall sub_ok subs /\ map swidth_ subs = somes cws /\
        if existsb (fun c => negb (sub_empty c)) subs
        then exists sets rs,
               col_line_sets (ann_stack tpr) subs = Ok sets /\
               sets_exact sets /\ map fst sets = somes cws /\ sets <> [] /\
               rsets = sets :: rs /\ rows_run o col_widths rows' lk1 rs lk'
        else rows_run o col_widths rows' lk1 rsets lk'
    end.

  Lemma row_step col_widths r tp rest lk st' V pb :
    Forall (fun c => Forall nok (cell_content c)) (row_cells r) ->
    forallb (cell_tree_ok false 0) (row_cells r) = true ->
    sspan col_widths <= swidth_ tp + 1 ->
    sinv (mkrst (tp :: rest) lk) -> ptxt tp = [] -> wrapping tp = None ->
    o_borders (sopts tp) = true ->
    views (slines tp) = V ++ [VRule pb] ->
    row_body d mw false col_widths r (mkrst (tp :: rest) lk) = Ok st' ->
    exists tp' lk1 tpr cws subs,
      st' = mkrst (tp' :: rest) lk1 /\ sinv st' /\ ptxt tp' = [] /\ wrapping tp' = None /\
      sopts tp' = sopts tp /\ swidth_ tp' = swidth_ tp /\
      sopts tpr = sopts tp /\
      cell_widths false col_widths (row_cells r) 0 = Ok cws /\
      cells_run tpr (row_cells r) cws lk subs lk1 /\
      Forall sub_ok subs /\ map swidth_ subs = somes cws /\
      if existsb (fun c => negb (sub_empty c)) subs
      then exists sets,
             col_line_sets (ann_stack tpr) subs = Ok sets /\
             sets_exact sets /\ map fst sets = somes cws /\ sets <> [] /\
             views (slines tp') =
               V ++ VRule (rule_before sets pb) :: map VText (row_band sets) ++ [VRule (rule_after sets)]
      else views (slines tp') = V ++ [VRule pb].
  Proof.
    intros HF Ht Hsp Hi Hp Hw Hb HV H.
    assert (HR : R false 0 (mkrst (tp :: rest) lk) st').
    { eapply (row_body_R d mw false 0 false col_widths (swidth_ tp)); try eassumption.
      - discriminate.
      - intros _. exact Hsp.
      - reflexivity. }
    destruct r as [rcells rstyle]. cbn [row_cells] in *. unfold row_body in H.
    bind_inv H apr Hap. destruct apr as [s1 prow]. bind_inv H cws Hcws. bind_inv H rr Hrr.
    destruct rr as [s8 subs]. bind_inv H s9 H9.
    destruct (apply_style_out _ _ _ _ _ _ _ Hap) as (tp1 & -> & O1 & O2 & O3).
    pose proof (apply_style_R _ _ _ _ _ _ _ Hi Hap) as R1.
    destruct (R_top _ _ _ _ _ _ R1) as (E1w & E1o & I1).
    destruct (cells_loop_run rcells cws tp1 rest lk [] (s8, subs)
                (cell_widths_length _ _ _ _ _ Hcws) HF Ht I1 Hrr) as (subs' & lk1 & E8 & Hrun & Hok & Hws).
    cbn [app] in E8. injection E8 as -> ->.
    assert (Hp1 : ptxt tp1 = []) by (unfold ptxt; rewrite O2; exact Hp).
    assert (Hw1 : wrapping tp1 = None) by (rewrite O3; exact Hw).
    assert (Hb1 : o_borders (sopts tp1) = true) by (rewrite E1o; exact Hb).
    destruct (existsb (fun c => negb (sub_empty c)) subs') eqn:Ee.
    - destruct (with_top_mk _ _ _ _ _ H9) as (tp2 & Hcols & ->).
      rewrite <- O1 in HV. destruct (views_snoc_rule _ _ _ HV) as (L & pt & EL & EV).
      destruct (append_columns_view _ _ _ _ _ _ Hcols Hp1 Hw1 Hb1 EL)
        as (sets & Hsets & Hne & Hviews & Hp2 & Hw2 & Hc2).
      destruct (unwind_out _ _ _ _ _ _ H) as (tp3 & -> & O1' & O2' & O3').
      destruct (R_top _ _ _ _ _ _ HR) as (E3w & E3o & I3).
      destruct (subs_sets_exact _ _ _ Hok Hsets) as [Hex Hfst].
      exists tp3, lk1, tp1, cws, subs'. rewrite Ee.
      split; [reflexivity|]. split; [exact I3|].
      split; [unfold ptxt; rewrite O2'; exact Hp2|]. split; [rewrite O3'; exact Hw2|].
      split; [exact E3o|]. split; [exact E3w|]. split; [exact E1o|]. split; [exact Hcws|].
      split; [exact Hrun|]. split; [exact Hok|]. split; [exact Hws|].
      exists sets. split; [exact Hsets|]. split; [exact Hex|]. split; [congruence|].
      split; [exact Hne|]. rewrite O1', Hviews, EV. reflexivity.
    - ok_inv H9.
      destruct (unwind_out _ _ _ _ _ _ H) as (tp3 & -> & O1' & O2' & O3').
      destruct (R_top _ _ _ _ _ _ HR) as (E3w & E3o & I3).
      exists tp3, lk1, tp1, cws, subs'. rewrite Ee.
      split; [reflexivity|]. split; [exact I3|].
      split; [unfold ptxt; rewrite O2'; exact Hp1|]. split; [rewrite O3'; exact Hw1|].
      split; [exact E3o|]. split; [exact E3w|]. split; [exact E1o|]. split; [exact Hcws|].
      split; [exact Hrun|]. split; [exact Hok|]. split; [exact Hws|].
      rewrite O1', O1. exact HV.
  Qed.

  Lemma rows_fold_view col_widths : forall rows tp rest lk st' V pb,
    Forall (fun r => Forall (fun c => Forall nok (cell_content c)) (row_cells r)) rows ->
    forallb (fun r => forallb (cell_tree_ok false 0) (row_cells r)) rows = true ->
    sspan col_widths <= swidth_ tp + 1 ->
    sinv (mkrst (tp :: rest) lk) -> ptxt tp = [] -> wrapping tp = None ->
    o_borders (sopts tp) = true ->
    views (slines tp) = V ++ [VRule pb] ->
    fold_left (fun acc r => do s <- acc; row_body d mw false col_widths r s) rows
              (Ok (mkrst (tp :: rest) lk)) = Ok st' ->
    exists tp' lk' rsets,
      st' = mkrst (tp' :: rest) lk' /\ sinv st' /\ ptxt tp' = [] /\ wrapping tp' = None /\
      sopts tp' = sopts tp /\ swidth_ tp' = swidth_ tp /\
      rows_run (sopts tp) col_widths rows lk rsets lk' /\
      views (slines tp') = V ++ table_views pb rsets.
  Proof.
    induction rows as [|r rows IH]; intros tp rest lk st' V pb HF Ht Hsp Hi Hp Hw Hb HV H.
    - cbn [fold_left] in H. ok_inv H. exists tp, lk, []. cbn [rows_run table_views]. auto 10.
    - apply fold_bind_cons in H. destruct H as (st1 & Hstep & H).
      inversion HF as [|? ? HF1 HF2]; subst.
      cbn [forallb] in Ht. apply andb_true_iff in Ht. destruct Ht as [Ht1 Ht2].
      destruct (row_step col_widths r tp rest lk st1 V pb HF1 Ht1 Hsp Hi Hp Hw Hb HV Hstep)
        as (tp1 & lk1 & tpr & cws & subs & -> & I1 & Hp1 & Hw1 & Eo & Ew & Eor & Hcws & Hrun & Hok & Hws & Hrow).
      destruct (existsb (fun c => negb (sub_empty c)) subs) eqn:Ee.
      + destruct Hrow as (sets & Hsets & Hex & Hfst & Hne & Hviews).
        replace (V ++ VRule (rule_before sets pb) :: map VText (row_band sets) ++ [VRule (rule_after sets)])
          with ((V ++ VRule (rule_before sets pb) :: map VText (row_band sets)) ++ [VRule (rule_after sets)])
          in Hviews by (rewrite <- app_assoc; reflexivity).
        destruct (IH tp1 rest lk1 st' _ _ HF2 Ht2 ltac:(rewrite Ew; exact Hsp) I1 Hp1 Hw1
                     ltac:(rewrite Eo; exact Hb) Hviews H)
          as (tp' & lk' & rs & -> & I' & Hp' & Hw' & Eo' & Ew' & Hrr & Hv').
        exists tp', lk', (sets :: rs).
        split; [reflexivity|]. split; [exact I'|]. split; [exact Hp'|]. split; [exact Hw'|].
        split; [congruence|]. split; [congruence|]. split.
        * cbn [rows_run]. exists tpr, cws, subs, lk1. rewrite Ee.
          repeat (split; [assumption|]). exists sets, rs. rewrite Eo in Hrr. auto 10.
        * rewrite Hv'. cbn [table_views]. rewrite <- app_assoc. reflexivity.
      + destruct (IH tp1 rest lk1 st' _ _ HF2 Ht2 ltac:(rewrite Ew; exact Hsp) I1 Hp1 Hw1
                     ltac:(rewrite Eo; exact Hb) Hrow H)
          as (tp' & lk' & rs & -> & I' & Hp' & Hw' & Eo' & Ew' & Hrr & Hv').
        exists tp', lk', rs.
        split; [reflexivity|]. split; [exact I'|]. split; [exact Hp'|]. split; [exact Hw'|].
        split; [congruence|]. split; [congruence|]. split; [|exact Hv'].
        cbn [rows_run]. exists tpr, cws, subs, lk1. rewrite Ee. rewrite Eo in Hrr. auto 10.
  Qed.
End TableLevel.

(* ================================================================== *)
(* 6. The layout decision of render_node's table case, as functions     *)
(* ================================================================== *)
(* the column estimates (first fold of the ITable case of render_node) *)
Definition table_col_sizes (d : deco) (mw : N) (rows : list rrow) (ncols : N) : res (list est) :=
  let cell_est (c : rcell) : res est := est_kids d mw (cell_content c) in
  let row_step (sizes : list est) (r : rrow) : res (list est) :=
      do res_ <- fold_left
           (fun acc c =>
              do a <- acc;
              let '(sz_, colno) := a in
              do ce <- cell_est c;
              let cspan := cell_colspan c in
              if cspan =? 0 then Panic 33 else
              let e := mkest (e_size ce / cspan) (e_min ce / cspan) (e_prefix ce) in
              match upd_range sz_ (N.to_nat colno) (N.to_nat cspan) (fun s => est_max s e) with
              | Some sz' => Ok (sz', colno + cspan)
              | None => Panic 31
              end)
           (row_cells r) (Ok (sizes, 0));
      Ok (fst res_) in
  fold_left (fun acc r => do s <- acc; row_step s r) rows (Ok (repeat est0 (N.to_nat ncols))).

(* stacked ("vertical") layout is chosen in raw mode, when the minimum widths do not fit,
   and for width 0 *)
Definition table_vert (width : N) (raw : bool) (col_sizes : list est) : bool :=
  raw || ((width <? sumN (map e_min col_sizes) + (N.of_nat (length col_sizes) - 1)) || (width =? 0)).

Definition table_col_widths (width : N) (vr : bool) (col_sizes : list est) : res (list N) :=
  if negb vr
  then
    let ws0 := map (col_width_of width (sumN (map e_size col_sizes))) col_sizes in
    match ws0 with
    | [] => Ok ws0
    | _ => shrink_loop (S (N.to_nat (sumN ws0))) width (map e_min col_sizes) ws0
    end
  else Ok (map (fun _ => width) col_sizes).

(* (stacked?, column widths) for a table rendered into a sub-renderer of the given width *)
Definition table_layout (d : deco) (mw : N) (rows : list rrow) (ncols : N) (width : N) (raw : bool)
  : res (bool * list N) :=
  do cs <- table_col_sizes d mw rows ncols;
  let vr := table_vert width raw cs in
  do cw <- table_col_widths width vr cs;
  Ok (vr, cw).

(* the width of the top rule *)
Definition table_width_of (vr : bool) (width : N) (col_widths : list N) : N :=
  if vr then width
  else sumN col_widths + (N.of_nat (length (filter (fun w => 0 <? w) col_widths)) - 1).

Section TableMain.
  Variables (d : deco) (mw : N).
  Hypothesis Hd : ol_prefix_monotone d.
  Hypothesis Hsat : ol_prefix_sat d.
  Notation sinv := (st_inv false 0).
  Notation tok := (tree_ok false 0).
  Notation nok := (node_ok d mw false 0).

  Lemma table_kids_ok rows :
    Forall (fun r => Forall (fun c => Forall nok (cell_content c)) (row_cells r)) rows.
  Proof.
    apply Forall_forall. intros r _. apply Forall_forall. intros c _. apply Forall_forall.
    intros n _. apply node_ok_all; assumption.
  Qed.

  Lemma table_tok rows ncols sty :
    tok (RN (ITable rows ncols) sty) = true ->
    forallb (fun r => forallb (cell_tree_ok false 0) (row_cells r)) rows = true.
  Proof.
    cbn [tree_ok rn_info]. intros H. rewrite forallb_forall in *. intros r Hr.
    specialize (H r Hr). destruct r as [cells rsty]. exact H.
  Qed.

  (* MAIN THEOREM (structure).  A table node rendered side by side with borders. *)
  Theorem table_render_horizontal rows ncols sty tp0 rest lk0 st' col_widths :
    tok (RN (ITable rows ncols) sty) = true ->
    sinv (mkrst (tp0 :: rest) lk0) ->
    ptxt tp0 = [] ->
    o_borders (sopts tp0) = true ->
    table_layout d mw rows ncols (swidth_ tp0) (o_raw (sopts tp0)) = Ok (false, col_widths) ->
    table_width_of false (swidth_ tp0) col_widths <> 0 ->
    render_node d mw (RN (ITable rows ncols) sty) (mkrst (tp0 :: rest) lk0) = Ok st' ->
    exists tp1 ps tp2 tpn lk' rsets,
      apply_style d (mkrst (tp0 :: rest) lk0) sty = Ok (mkrst (tp1 :: rest) lk0, ps) /\
      start_block tp1 = Ok tp2 /\
      rows_run d mw (sopts tp0) col_widths rows lk0 rsets lk' /\
      views (slines tpn) =
        views (slines tp2) ++
        table_views (border_new (table_width_of false (swidth_ tp0) col_widths)) rsets /\
      wrapping tpn = None /\ swidth_ tpn = swidth_ tp0 /\
      unwind d ps (mkrst (tpn :: rest) lk') = Ok st'.
  Proof.
    intros Ht Hinv Hp Hb Hlay Htw H.
    cbn [render_node rn_info rn_style] in H.
    bind_inv H sz Hsz. bind_inv H ap Hap. destruct ap as [st1 ps].
    destruct (apply_style_out _ _ _ _ _ _ _ Hap) as (tp1 & -> & O1 & O2 & O3).
    pose proof (apply_style_R _ _ _ _ _ _ _ Hinv Hap) as R1.
    destruct (R_top _ _ _ _ _ _ R1) as (E1w & E1o & I1).
    bind_inv H col_sizes Hcs. cbn [top stack bind] in H.
    assert (Hcs' : table_col_sizes d mw rows ncols = Ok col_sizes) by exact Hcs.
    unfold table_layout in Hlay. rewrite Hcs' in Hlay. cbn [bind] in Hlay.
    rewrite <- E1w, <- E1o in Hlay. rewrite <- E1w in Htw.
    set (vr := o_raw (sopts tp1)
               || ((swidth_ tp1 <? sumN (map e_min col_sizes) + (N.of_nat (length col_sizes) - 1))
                   || (swidth_ tp1 =? 0))) in *.
    change (table_vert (swidth_ tp1) (o_raw (sopts tp1)) col_sizes) with vr in Hlay.
    bind_inv H cwl Hcw.
    assert (Hcw' : table_col_widths (swidth_ tp1) vr col_sizes = Ok cwl) by exact Hcw.
    rewrite Hcw' in Hlay. cbn [bind] in Hlay. injection Hlay as Evr ->.
    rewrite Evr in *. cbn [negb] in *.
    assert (Hsp : sspan col_widths <= swidth_ tp1 + 1).
    { destruct (map (col_width_of (swidth_ tp1) (sumN (map e_size col_sizes))) col_sizes) as [|x l].
      - ok_inv Hcw. rewrite sspan_nil. lia.
      - apply shrink_loop_ok in Hcw. rewrite sspan_eq. lia. }
    bind_inv H st2 H2. bind_inv H st3 H3. bind_inv H st_rows Hrows.
    destruct (with_top_mk _ _ _ _ _ H2) as (tp2 & Hsb & ->).
    assert (Hp1 : ptxt tp1 = []) by (unfold ptxt; rewrite O2; exact Hp).
    destruct (start_block_spec _ _ Hsb Hp1) as (Hw2 & Hp2 & E2w & E2o & _ & _).
    pose proof (with_top_R _ _ _ _ _ start_block_keeps I1 H2) as R2.
    destruct (R_top _ _ _ _ _ _ R2) as (_ & _ & I2).
    unfold table_width_of in Htw.
    set (tw := sumN col_widths + (N.of_nat (length (filter (fun w => 0 <? w) col_widths)) - 1)) in *.
    destruct (N.eqb_spec tw 0) as [E0|_]; [contradiction|].
    rewrite E1o, Hb in H3. cbn [negb andb] in H3.
    destruct (with_top_mk _ _ _ _ _ H3) as (tp3 & Hbd & ->).
    unfold add_horizontal_border_width in Hbd. rewrite (flush_none _ Hw2) in Hbd.
    cbn [bind] in Hbd. ok_inv Hbd.
    destruct (add_line_view tp2 (RLine (border_new tw) (ann_stack tp2)) Hp2) as (A3 & Hp3 & Hw3 & C3).
    assert (R3 : R false 0 (mkrst (tp2 :: rest) lk0)
                   (mkrst (add_line tp2 (RLine (border_new tw) (ann_stack tp2)) :: rest) lk0)).
    { eapply (with_top_RW false 0 (swidth_ tp2)); [|reflexivity|exact I2|exact H3].
      intros s s' Hs Es Hbb. eapply add_horizontal_border_width_ok; [exact Hs| |exact Hbb].
      rewrite Es, E2w. rewrite sspan_eq in Hsp.
      pose proof (filter_length_le (fun w => 0 <? w) col_widths). unfold tw.
      destruct col_widths; [cbn; lia|]. cbn [length] in *. lia. }
    destruct (R_top _ _ _ _ _ _ R3) as (E3w & E3o & I3).
    assert (Hrows' : fold_left (fun acc r => do s <- acc; row_body d mw false col_widths r s) rows
                       (Ok (mkrst (add_line tp2 (RLine (border_new tw) (ann_stack tp2)) :: rest) lk0))
                     = Ok st_rows) by exact Hrows.
    destruct (rows_fold_view d mw col_widths rows _ rest lk0 st_rows (views (slines tp2))
                (border_new tw) (table_kids_ok rows) (table_tok _ _ _ Ht)
                ltac:(rewrite E3w, E2w; exact Hsp) I3 Hp3 ltac:(rewrite Hw3; exact Hw2)
                ltac:(rewrite E3o, E2o, E1o; exact Hb) A3 Hrows')
      as (tpn & lk' & rsets & -> & In' & Hpn & Hwn & Eon & Ewn & Hrun & Hvn).
    exists tp1, ps, tp2, tpn, lk', rsets.
    split; [exact Hap|]. split; [exact Hsb|]. split.
    { rewrite E3o, E2o, E1o in Hrun. exact Hrun. }
    split; [rewrite <- E1w; exact Hvn|]. split; [exact Hwn|]. split; [congruence|]. exact H.
  Qed.
End TableMain.

(* ================================================================== *)
(* 7. Properties of the rendered table                                  *)
(* ================================================================== *)
Lemma top_strip_exact sets : sets_exact sets -> sets_exact (top_strip sets).
Proof.
  intros H. exact (proj2 (collapse_top_exact sets (Some []) 0 _ _ (collapse_top_some sets [] 0) H)).
Qed.
Lemma bot_strip_exact sets :
  sets_exact sets -> sets_exact (bot_strip sets) /\ Forall2 pad_ok (bot_strip sets) (bot_pads sets).
Proof.
  intros H. exact (proj2 (collapse_bottom_exact sets [] 0 _ _ _ (collapse_bottom_eq sets [] 0) H)).
Qed.

Lemma row_sets3_ws sets : map fst (row_sets3 sets) = row_ws sets.
Proof. unfold row_sets3, row_ws. rewrite map_fst_bot_strip, map_fst_top_strip. reflexivity. Qed.
Lemma row_sets3_length sets : length (row_sets3 sets) = length sets.
Proof. unfold row_sets3, bot_strip, top_strip. rewrite !map_length. reflexivity. Qed.

Lemma row_band_ok sets k : sets_exact sets -> row_ok k (row_sets3 sets) (row_pads sets).
Proof.
  intros H. destruct (bot_strip_exact _ (top_strip_exact _ H)) as [H1 H2].
  apply row_ok_of_exact; assumption.
Qed.

(* (1) every text line of a row is row_tot wide *)
Lemma band_line_width sets k :
  sets_exact sets -> swidth (row_text true k (row_sets3 sets) (row_pads sets)) = row_tot sets.
Proof.
  intros H. rewrite (row_text_width _ _ _ _ (row_band_ok sets k H)), row_sets3_ws, row_sets3_length.
  reflexivity.
Qed.

(* (2) on every text line of a row there is a bar at each of the row's bar positions *)
Theorem band_line_bars sets k j x :
  sets_exact sets -> nth_opt (bar_positions (row_ws sets) 0) j = Some x ->
  exists pre post,
    row_text true k (row_sets3 sets) (row_pads sets) = pre ++ vbar :: post /\ swidth pre = x.
Proof.
  intros H Hj. rewrite <- row_sets3_ws in Hj.
  destruct (row_text_bars true k _ _ 0 j x (row_band_ok sets k H) Hj) as (pre & post & E & Hw).
  exists pre, post. split; [exact E|lia].
Qed.

(* the first column of cell j: the widths of the cells before it and their separators *)
Definition cell_offset (ws_ : list N) (j : nat) : N := sumN (firstn j ws_) + N.of_nat j.

(* (2) cell j's text lies in the columns cell_offset .. cell_offset + w_j, i.e. between the
   (j-1)-th and the j-th bar of the row; the cells come in order *)
Lemma row_text_cell draw k : forall sets pads j w ls,
  row_ok k sets pads -> nth_opt sets j = Some (w, ls) ->
  exists pre post,
    row_text draw k sets pads = pre ++ cell_text k w (nth j pads None) ls ++ post /\
    swidth pre = cell_offset (map fst sets) j /\
    swidth (cell_text k w (nth j pads None) ls) = w.
Proof.
  induction sets as [|[w0 ls0] sets IH]; intros pads j w ls Hok Hj; [destruct j; discriminate|].
  cbn [row_ok] in Hok. destruct Hok as [Hc Hok].
  destruct j as [|j]; cbn [nth_opt] in Hj.
  - injection Hj as -> ->. exists [], (match sets with [] => [] | _ => bar draw :: row_text draw k sets (tl pads) end).
    cbn [row_text app]. split; [|split].
    + destruct pads; reflexivity.
    + reflexivity.
    + apply cell_text_width. destruct pads; exact Hc.
  - destruct (IH (tl pads) j w ls Hok Hj) as (pre & post & E & Hpre & Hcw).
    destruct sets as [|s' sets']; [destruct j; discriminate|].
    exists (cell_text k w0 (match pads with p :: _ => p | [] => None end) ls0 ++ bar draw :: pre), post.
    replace (nth (S j) pads None) with (nth j (tl pads) None) by (destruct pads; [destruct j|]; reflexivity).
    split; [|split; [|exact Hcw]].
    + change (row_text draw k ((w0, ls0) :: s' :: sets') pads)
        with (cell_text k w0 (match pads with p :: _ => p | [] => None end) ls0 ++
              bar draw :: row_text draw k (s' :: sets') (tl pads)).
      rewrite E, <- !app_assoc. reflexivity.
    + rewrite swidth_app, (cell_text_width _ _ _ _ Hc). cbn [swidth]. rewrite cw0_bar, Hpre.
      unfold cell_offset. cbn [map fst firstn sumN]. lia.
Qed.

(* ---- lengths of the rules ---- *)
Lemma fold_jop_length ops b W :
  N.of_nat (length b) = W -> (forall o, In o ops -> jop_pos o + 1 <= W) ->
  N.of_nat (length (fold_left apply_jop ops b)) = W.
Proof. intros Hb Ho. rewrite length_fold_jop, Hb. apply joined_width_bounded, Ho. Qed.

Lemma row_tot_alt sets : row_tot sets = sumN (map fst sets) + (N.of_nat (length (map fst sets)) - 1).
Proof. unfold row_tot, row_ws. rewrite map_length. reflexivity. Qed.

Lemma row_above_bound sets x : sets_exact sets -> In x (row_above sets) -> x + 1 <= row_tot sets.
Proof.
  intros H Hin. unfold row_above in Hin. apply in_app_or in Hin. rewrite row_tot_alt.
  destruct Hin as [Hin|Hin].
  - apply bar_positions_lt in Hin. unfold row_ws in Hin. lia.
  - apply (collapsed_bottom_bound _ _ _ (top_strip_exact _ H)) in Hin.
    rewrite map_fst_top_strip in Hin. unfold top_strip in Hin. rewrite !map_length in *. lia.
Qed.
Lemma row_below_bound sets x : sets_exact sets -> In x (row_below sets) -> x + 1 <= row_tot sets.
Proof.
  intros H Hin. unfold row_below in Hin. apply in_app_or in Hin. rewrite row_tot_alt.
  destruct Hin as [Hin|Hin].
  - apply bar_positions_lt in Hin. unfold row_ws in Hin. lia.
  - apply (collapsed_top_bound _ _ _ H) in Hin. rewrite !map_length in *. lia.
Qed.

Lemma rule_after_length sets : sets_exact sets -> N.of_nat (length (rule_after sets)) = row_tot sets.
Proof.
  intros H. unfold rule_after. apply fold_jop_length.
  - unfold border_new. rewrite repeat_length. lia.
  - intros o Hin. apply in_map_iff in Hin. destruct Hin as (y & <- & Hy). cbn [jop_pos].
    apply row_above_bound; assumption.
Qed.
Lemma rule_before_length sets pb :
  sets_exact sets -> N.of_nat (length pb) = row_tot sets ->
  N.of_nat (length (rule_before sets pb)) = row_tot sets.
Proof.
  intros H Hpb. unfold rule_before. apply fold_jop_length; [exact Hpb|].
  intros o Hin. apply in_map_iff in Hin. destruct Hin as (y & <- & Hy). cbn [jop_pos].
  apply row_below_bound; assumption.
Qed.

(* (1) when every rendered row is W wide (and the top rule is), every line of the table is *)
Theorem table_views_width W : forall rsets pb,
  Forall (fun sets => sets_exact sets /\ row_tot sets = W) rsets ->
  N.of_nat (length pb) = W ->
  Forall (fun v => swidth (vline_string v) = W) (table_views pb rsets).
Proof.
  induction rsets as [|sets rs IH]; intros pb HF Hpb; cbn [table_views].
  - constructor; [|constructor]. cbn [vline_string]. rewrite TableProof.swidth_border_string. exact Hpb.
  - pose proof (Forall_inv HF) as [Hex Ht]. pose proof (Forall_inv_tail HF) as HF'. constructor.
    + cbn [vline_string]. rewrite TableProof.swidth_border_string, <- Ht.
      apply rule_before_length; [assumption|congruence].
    + apply Forall_app. split.
      * apply Forall_forall. intros v Hv. apply in_map_iff in Hv. destruct Hv as (s & <- & Hs).
        unfold row_band in Hs. apply in_map_iff in Hs. destruct Hs as (k & <- & _).
        cbn [vline_string]. rewrite <- Ht. apply band_line_width, Hex.
      * apply IH; [exact HF'|]. rewrite <- Ht. apply rule_after_length, Hex.
Qed.

(* (3) the junctions.  A rule of a W wide table that was joined from above at the positions A
   and from below at the positions B *)
Definition junction_rule (W : N) (A B : list N) : list seg :=
  fold_left apply_jop (map JA A ++ map JB B) (border_new W).

Theorem junction_rule_spec W A B :
  (forall y, In y A -> y + 1 <= W) -> (forall y, In y B -> y + 1 <= W) ->
  N.of_nat (length (junction_rule W A B)) = W /\
  forall x, x < W ->
    nth_opt (junction_rule W A B) (N.to_nat x) =
    Some (seg_of (existsb (N.eqb x) A) (existsb (N.eqb x) B)).
Proof.
  intros HA HB. unfold junction_rule.
  assert (Hw : joined_width W (map JA A ++ map JB B) = W).
  { apply joined_width_bounded. intros o Hin. apply in_app_or in Hin.
    destruct Hin as [Hin|Hin]; apply in_map_iff in Hin; destruct Hin as (y & <- & Hy); cbn [jop_pos]; auto. }
  split; [rewrite border_join_length; exact Hw|].
  intros x Hx. rewrite border_join_spec, Hw.
  destruct (N.ltb_spec x W) as [_|]; [|lia]. f_equal.
  unfold joined_above, joined_below. rewrite !existsb_app.
  fold (joined_above (map JA A) x) (joined_above (map JB B) x)
       (joined_below (map JA A) x) (joined_below (map JB B) x).
  rewrite joined_above_JA, joined_above_JB, joined_below_JA, joined_below_JB, orb_false_r.
  reflexivity.
Qed.

(* the glyph printed at position x of such a rule *)
Corollary junction_rule_glyph W A B x :
  (forall y, In y A -> y + 1 <= W) -> (forall y, In y B -> y + 1 <= W) -> x < W ->
  option_map cp (nth_opt (border_string (junction_rule W A B)) (N.to_nat x)) =
  Some (match existsb (N.eqb x) A, existsb (N.eqb x) B with
        | false, false => 9472 | true, false => 9524 | false, true => 9516 | true, true => 9532
        end).
Proof.
  intros HA HB Hx. unfold border_string.
  assert (Hm : forall (l : list seg) n, nth_opt (map seg_char l) n = option_map seg_char (nth_opt l n)).
  { induction l as [|a l IH]; intros [|n]; cbn [map nth_opt option_map]; try reflexivity. apply IH. }
  rewrite Hm, (proj2 (junction_rule_spec W A B HA HB) x Hx). cbn [option_map]. rewrite seg_char_of.
  reflexivity.
Qed.

(* the table again, every rule given by the positions joined into it: from above by the row
   above it (its bars and the junctions of the bottom rules collapsed into it), from below by
   the row below it (its bars and the junctions of the collapsed top rules) *)
Fixpoint table_views_j (W : N) (A : list N) (rsets : list (list (N * list rline))) : list vline :=
  match rsets with
  | [] => [VRule (junction_rule W A [])]
  | sets :: rs =>
    VRule (junction_rule W A (row_below sets)) :: map VText (row_band sets) ++
    table_views_j W (row_above sets) rs
  end.

Theorem table_views_junctions W : forall rsets A,
  Forall (fun sets => row_tot sets = W) rsets ->
  table_views (fold_left apply_jop (map JA A) (border_new W)) rsets = table_views_j W A rsets.
Proof.
  induction rsets as [|sets rs IH]; intros A HF; cbn [table_views table_views_j].
  - unfold junction_rule. cbn [map]. rewrite app_nil_r. reflexivity.
  - pose proof (Forall_inv HF) as Ht. pose proof (Forall_inv_tail HF) as HF'. cbn beta in Ht. f_equal.
    + unfold rule_before, junction_rule. rewrite fold_left_app. reflexivity.
    + f_equal. rewrite <- IH by exact HF'. unfold rule_after. rewrite Ht. reflexivity.
Qed.

Corollary table_views_junctions0 W rsets :
  Forall (fun sets => row_tot sets = W) rsets ->
  table_views (border_new W) rsets = table_views_j W [] rsets.
Proof. intros H. apply (table_views_junctions W rsets [] H). Qed.

(* ================================================================== *)
(* 8. Regular tables: every row is as wide as the top rule              *)
(* ================================================================== *)
Definition regular_row (n : N) (r : rrow) : bool := sumN (map cell_colspan (row_cells r)) =? n.
(* every row's column spans add up to n *)
Definition regular_table (rows : list rrow) (n : N) : bool := forallb (regular_row n) rows.
Definition all_pos (ws_ : list N) : bool := forallb (fun w => 0 <? w) ws_.

Lemma sumN_firstn_pos : forall (l : list N) n,
  Forall (fun w => 0 < w) l -> l <> [] -> (0 < n)%nat -> 0 < sumN (firstn n l).
Proof.
  intros l n H Hne Hn. destruct l as [|a l]; [congruence|]. destruct n as [|n]; [lia|].
  cbn [firstn sumN]. inversion H; subst. lia.
Qed.

Lemma skipn_nil_iff {A} : forall (l : list A) n, skipn n l = [] <-> (length l <= n)%nat.
Proof.
  induction l as [|a l IH]; intros [|n]; cbn [skipn length]; try (split; intros; try reflexivity; lia).
  - split; [discriminate|lia].
  - rewrite IH. lia.
Qed.

Lemma cell_widths_regular ws_ : Forall (fun w => 0 < w) ws_ -> forall cells colno cws,
  cell_widths false ws_ cells colno = Ok cws ->
  colno + sumN (map cell_colspan cells) = N.of_nat (length ws_) ->
  sspan (somes cws) = sumN (skipn (N.to_nat colno) ws_) + (N.of_nat (length ws_) - colno).
Proof.
  intros Hpos. induction cells as [|c cells IH]; intros colno cws H Hsum; cbn [cell_widths] in H.
  - ok_inv H. cbn [map sumN somes] in *. rewrite sspan_nil.
    replace (skipn (N.to_nat colno) ws_) with (@nil N) by (symmetry; apply skipn_nil_iff; lia).
    cbn [sumN]. lia.
  - cbn [map sumN] in Hsum.
    bind_inv H cw_ H1. bind_inv H r H2.
    destruct (N.ltb_spec (N.of_nat (length ws_)) (colno + cell_colspan c)) as [|Hlen]; [discriminate|].
    ok_inv H1.
    specialize (IH _ _ H2 ltac:(lia)).
    rewrite N2Nat.inj_add, skipn_add in IH.
    pose proof (sumN_firstn_skipn (N.to_nat (cell_colspan c)) (skipn (N.to_nat colno) ws_)) as E.
    destruct (N.ltb_spec 0 (sumN (firstn (N.to_nat (cell_colspan c)) (skipn (N.to_nat colno) ws_))))
      as [Hp|Hz].
    + bind_inv H w1 H3. bind_inv H w2 H4. ok_inv H.
      unfold uadd in H3. destruct (_ + cell_colspan c <=? usize_max); [|discriminate]. ok_inv H3.
      unfold usub in H4.
      destruct (N.leb_spec 1 (sumN (firstn (N.to_nat (cell_colspan c)) (skipn (N.to_nat colno) ws_))
                              + cell_colspan c)); [|discriminate]. ok_inv H4.
      cbn [somes]. rewrite sspan_cons, IH. lia.
    + ok_inv H. cbn [somes]. rewrite IH.
      destruct (N.eq_dec (cell_colspan c) 0) as [E0|Hne0].
      * rewrite E0 in *. change (N.to_nat 0) with 0%nat in *. cbn [skipn firstn sumN] in *. lia.
      * exfalso.
        assert (Hne : skipn (N.to_nat colno) ws_ <> []).
        { intros Hn. apply skipn_nil_iff in Hn. lia. }
        assert (Hf : Forall (fun w => 0 < w) (skipn (N.to_nat colno) ws_)).
        { apply Forall_forall. intros w Hw. rewrite Forall_forall in Hpos. apply Hpos.
          rewrite <- (firstn_skipn (N.to_nat colno) ws_). apply in_or_app. right. exact Hw. }
        pose proof (sumN_firstn_pos _ (N.to_nat (cell_colspan c)) Hf Hne ltac:(lia)). lia.
Qed.

Lemma all_pos_Forall ws_ : all_pos ws_ = true -> Forall (fun w => 0 < w) ws_.
Proof.
  unfold all_pos. rewrite forallb_forall. intros H. apply Forall_forall. intros w Hw.
  specialize (H w Hw). lia.
Qed.

Lemma filter_all {A} (f : A -> bool) l : forallb f l = true -> filter f l = l.
Proof.
  induction l as [|a l IH]; cbn [forallb filter]; [reflexivity|]. intros H.
  apply andb_true_iff in H. destruct H as [Ha Hl]. rewrite Ha, IH by exact Hl. reflexivity.
Qed.

(* the width of a rendered row of a regular table whose columns all have positive width *)
Lemma regular_row_tot ws_ cells cws sets width :
  all_pos ws_ = true -> regular_row (N.of_nat (length ws_)) (RRow cells cstyle0) = true ->
  cell_widths false ws_ cells 0 = Ok cws -> map fst sets = somes cws -> sets <> [] ->
  row_tot sets = table_width_of false width ws_.
Proof.
  intros Hpos Hreg Hcws Hfst Hne. unfold regular_row in Hreg. cbn [row_cells] in Hreg.
  pose proof (cell_widths_regular ws_ (all_pos_Forall _ Hpos) cells 0 cws Hcws ltac:(lia)) as E.
  change (N.to_nat 0) with 0%nat in E. cbn [skipn] in E.
  rewrite <- Hfst, sspan_eq in E. rewrite row_tot_alt. unfold table_width_of.
  unfold all_pos in Hpos. rewrite (filter_all _ _ Hpos).
  assert (length (map fst sets) <> 0%nat).
  { rewrite map_length. destruct sets; [congruence|discriminate]. }
  assert (length ws_ <> 0%nat).
  { intros E0. destruct ws_; [|discriminate]. cbn [sumN length] in E. lia. }
  lia.
Qed.

Section Regular.
  Variables (d : deco) (mw : N).

  Theorem rows_run_regular o ws_ width : forall rows lk rsets lk',
    rows_run d mw o ws_ rows lk rsets lk' ->
    regular_table rows (N.of_nat (length ws_)) = true -> all_pos ws_ = true ->
    Forall (fun sets => sets_exact sets /\ row_tot sets = table_width_of false width ws_) rsets.
  Proof.
    induction rows as [|r rows IH]; intros lk rsets lk' Hrun Hreg Hpos; cbn [rows_run] in Hrun.
    - destruct Hrun as [-> _]. constructor.
    - cbn [regular_table forallb] in Hreg. apply andb_true_iff in Hreg. destruct Hreg as [Hr Hreg].
      destruct Hrun as (tpr & cws & subs & lk1 & _ & Hcws & _ & _ & _ & Hif).
      destruct (existsb (fun c => negb (sub_empty c)) subs).
      + destruct Hif as (sets & rs & _ & Hex & Hfst & Hne & -> & Hrest).
        constructor; [|eapply IH; eassumption]. split; [exact Hex|].
        destruct r as [cells rsty]. eapply regular_row_tot; try eassumption.
      + eapply IH; eassumption.
  Qed.

  (* without any assumption on the table the rows are still made of exact cells *)
  Theorem rows_run_exact o ws_ : forall rows lk rsets lk',
    rows_run d mw o ws_ rows lk rsets lk' -> Forall sets_exact rsets.
  Proof.
    induction rows as [|r rows IH]; intros lk rsets lk' Hrun; cbn [rows_run] in Hrun.
    - destruct Hrun as [-> _]. constructor.
    - destruct Hrun as (tpr & cws & subs & lk1 & _ & Hcws & _ & _ & _ & Hif).
      destruct (existsb (fun c => negb (sub_empty c)) subs).
      + destruct Hif as (sets & rs & _ & Hex & Hfst & Hne & -> & Hrest).
        constructor; [exact Hex|eapply IH; eassumption].
      + eapply IH; eassumption.
  Qed.
End Regular.

(* ================================================================== *)
(* 9. The number of columns                                             *)
(* ================================================================== *)
Lemma upd_range_length {A} (f : A -> A) : forall (l : list A) from len r,
  upd_range l from len f = Some r -> length r = length l.
Proof.
  induction l as [|x l IH]; intros from len r H.
  - destruct len as [|len]; cbn [upd_range] in H; [injection H as <-; reflexivity|].
    destruct from; discriminate.
  - destruct len as [|len]; cbn [upd_range] in H; [injection H as <-; reflexivity|].
    destruct from as [|from].
    + destruct (upd_range l 0 len f) as [r'|] eqn:E; [|discriminate]. injection H as <-.
      cbn [length]. f_equal. eapply IH. exact E.
    + destruct (upd_range l from (S len) f) as [r'|] eqn:E; [|discriminate]. injection H as <-.
      cbn [length]. f_equal. eapply IH. exact E.
Qed.

Lemma table_col_sizes_length d mw rows ncols cs :
  table_col_sizes d mw rows ncols = Ok cs -> length cs = N.to_nat ncols.
Proof.
  unfold table_col_sizes. intros H. revert H.
  apply (fold_bind_inv (fun s : list est => length s = N.to_nat ncols)
           (fun r s =>
              do res_ <- fold_left
                   (fun acc c =>
                      do a <- acc;
                      let '(sz_, colno) := a in
                      do ce <- est_kids d mw (cell_content c);
                      let cspan := cell_colspan c in
                      if cspan =? 0 then Panic 33 else
                      let e := mkest (e_size ce / cspan) (e_min ce / cspan) (e_prefix ce) in
                      match upd_range sz_ (N.to_nat colno) (N.to_nat cspan) (fun s => est_max s e) with
                      | Some sz' => Ok (sz', colno + cspan)
                      | None => Panic 31
                      end)
                   (row_cells r) (Ok (s, 0));
              Ok (fst res_)) rows); [|apply repeat_length].
  intros r _ a a' Ha Hr. bind_inv Hr res_ Hres. ok_inv Hr. revert Hres.
  apply (fold_bind_inv (fun p : list est * N => length (fst p) = N.to_nat ncols)
           (fun c a =>
              let '(sz_, colno) := a in
              do ce <- est_kids d mw (cell_content c);
              let cspan := cell_colspan c in
              if cspan =? 0 then Panic 33 else
              let e := mkest (e_size ce / cspan) (e_min ce / cspan) (e_prefix ce) in
              match upd_range sz_ (N.to_nat colno) (N.to_nat cspan) (fun s => est_max s e) with
              | Some sz' => Ok (sz', colno + cspan)
              | None => Panic 31
              end) (row_cells r)); [|exact Ha].
  intros c _ [sz_ colno] p' Hp Hc. cbn [fst] in Hp. bind_inv Hc ce Hce. cbv zeta in Hc.
  destruct (cell_colspan c =? 0); [discriminate|].
  destruct (upd_range sz_ (N.to_nat colno) (N.to_nat (cell_colspan c)) _) as [sz'|] eqn:E; [|discriminate].
  ok_inv Hc. cbn [fst]. rewrite (upd_range_length _ _ _ _ _ E). exact Hp.
Qed.

Lemma shrink_loop_length : forall fuel width mins ws_ r,
  shrink_loop fuel width mins ws_ = Ok r -> length r = length ws_.
Proof.
  induction fuel as [|f IH]; intros width mins ws_ r H; cbn [shrink_loop] in H.
  - destruct (_ <=? width); [ok_inv H; reflexivity|discriminate].
  - destruct (_ <=? width); [ok_inv H; reflexivity|].
    destruct (argmax_col ws_ mins 0 None) as [i|]; [|discriminate].
    destruct (nth_opt ws_ (N.to_nat i)) as [[|p]|]; try discriminate.
    rewrite (IH _ _ _ _ H). apply TableProof.length_upd_nth.
Qed.

Theorem table_layout_length d mw rows ncols width raw vr cws :
  table_layout d mw rows ncols width raw = Ok (vr, cws) -> N.of_nat (length cws) = ncols.
Proof.
  unfold table_layout. intros H. bind_inv H cs Hcs. bind_inv H cwl Hcw. injection H as _ ->.
  apply table_col_sizes_length in Hcs. unfold table_col_widths in Hcw.
  destruct (negb (table_vert width raw cs)).
  - destruct (map (col_width_of width (sumN (map e_size cs))) cs) as [|x l] eqn:E.
    + ok_inv Hcw. destruct cs; [cbn [length] in *; lia|discriminate].
    + apply shrink_loop_length in Hcw. rewrite Hcw, <- E, map_length. lia.
  - ok_inv Hcw. rewrite map_length. lia.
Qed.

(* ================================================================== *)
(* 10. C05 for regular side-by-side tables                              *)
(* ================================================================== *)
Section C05.
  Variables (d : deco) (mw : N).
  Hypothesis Hd : ol_prefix_monotone d.
  Hypothesis Hsat : ol_prefix_sat d.

  Theorem c05_table_regular rows ncols sty tp0 rest lk0 st' col_widths :
    tree_ok false 0 (RN (ITable rows ncols) sty) = true ->
    st_inv false 0 (mkrst (tp0 :: rest) lk0) ->
    ptxt tp0 = [] ->
    o_borders (sopts tp0) = true ->
    table_layout d mw rows ncols (swidth_ tp0) (o_raw (sopts tp0)) = Ok (false, col_widths) ->
    regular_table rows ncols = true -> all_pos col_widths = true -> ncols <> 0 ->
    render_node d mw (RN (ITable rows ncols) sty) (mkrst (tp0 :: rest) lk0) = Ok st' ->
    let W := sumN col_widths + (ncols - 1) in
    exists tp1 ps tp2 tpn lk' rsets,
      apply_style d (mkrst (tp0 :: rest) lk0) sty = Ok (mkrst (tp1 :: rest) lk0, ps) /\
      start_block tp1 = Ok tp2 /\
      rows_run d mw (sopts tp0) col_widths rows lk0 rsets lk' /\
      (* the lines of the table, after whatever tp2 held: rule, band, rule, ..., band, rule *)
      views (slines tpn) = views (slines tp2) ++ table_views_j W [] rsets /\
      (* (1) all of them W columns wide, W within the width of the sub-renderer *)
      Forall (fun v => swidth (vline_string v) = W) (table_views_j W [] rsets) /\
      W <= swidth_ tp0 /\
      (* every rendered row: exact cells (so bars and cells are where (2) says), W wide, and all
         positions joined into the rules lie inside the rules (so (3) junction_rule_spec applies) *)
      Forall (fun sets => sets_exact sets /\ row_tot sets = W /\
                          (forall x, In x (row_above sets) -> x + 1 <= W) /\
                          (forall x, In x (row_below sets) -> x + 1 <= W)) rsets /\
      wrapping tpn = None /\
      unwind d ps (mkrst (tpn :: rest) lk') = Ok st'.
  Proof.
    intros Ht Hinv Hp Hb Hlay Hreg Hpos Hn0 H W.
    pose proof (table_layout_length _ _ _ _ _ _ _ _ Hlay) as Hlen.
    assert (Etw : table_width_of false (swidth_ tp0) col_widths = W).
    { unfold table_width_of, W. unfold all_pos in Hpos. rewrite (filter_all _ _ Hpos), Hlen. reflexivity. }
    assert (Hfit : W <= swidth_ tp0).
    { unfold table_layout in Hlay. bind_inv Hlay cs Hcs. bind_inv Hlay cwl Hcw. injection Hlay as Evr ->.
      rewrite Evr in Hcw. cbn [table_col_widths negb] in Hcw.
      destruct (map (col_width_of (swidth_ tp0) (sumN (map e_size cs))) cs) as [|x l].
      - injection Hcw as <-. cbn [length] in Hlen. lia.
      - apply shrink_loop_ok in Hcw. unfold W. lia. }
    assert (Htw : table_width_of false (swidth_ tp0) col_widths <> 0).
    { rewrite Etw. unfold W. destruct col_widths as [|w l]; [cbn [length] in Hlen; lia|].
      cbn [all_pos forallb] in Hpos. apply andb_true_iff in Hpos. cbn [sumN]. lia. }
    destruct (table_render_horizontal d mw Hd Hsat rows ncols sty tp0 rest lk0 st' col_widths
                Ht Hinv Hp Hb Hlay Htw H)
      as (tp1 & ps & tp2 & tpn & lk' & rsets & Hap & Hsb & Hrun & Hv & Hwn & _ & Hun).
    rewrite <- Hlen in Hreg.
    pose proof (rows_run_regular d mw _ _ (swidth_ tp0) _ _ _ _ Hrun Hreg Hpos) as HF.
    rewrite Etw in HF, Hv.
    assert (HF2 : Forall (fun sets => row_tot sets = W) rsets).
    { eapply Forall_impl; [|exact HF]. intros s [_ E]. exact E. }
    rewrite (table_views_junctions0 W rsets HF2) in Hv.
    exists tp1, ps, tp2, tpn, lk', rsets.
    split; [exact Hap|]. split; [exact Hsb|]. split; [exact Hrun|]. split; [exact Hv|].
    split.
    { rewrite <- (table_views_junctions0 W rsets HF2). apply table_views_width; [exact HF|].
      unfold border_new. rewrite repeat_length. lia. }
    split; [exact Hfit|]. split; [|split; [exact Hwn|exact Hun]].
    eapply Forall_impl; [|exact HF]. intros s [Hex E]. split; [exact Hex|]. split; [exact E|].
    rewrite <- E. split; intros x Hx; [apply row_above_bound|apply row_below_bound]; assumption.
  Qed.
End C05.

(* ================================================================== *)
(* 11. (4) What is collapsed: the rules of nested tables                *)
(* ================================================================== *)
Lemma nth_opt_map {A B} (f : A -> B) : forall l n, nth_opt (map f l) n = option_map f (nth_opt l n).
Proof. induction l as [|a l IH]; intros [|n]; cbn [map nth_opt option_map]; try reflexivity. apply IH. Qed.

Lemma join_positions_in : forall other pos x,
  In x (join_positions other pos) <->
  exists k sg, nth_opt other k = Some sg /\ seg_is_join sg = true /\ x = pos + N.of_nat k.
Proof.
  induction other as [|s other IH]; intros pos x; cbn [join_positions].
  - split; [intros []|intros (k & sg & H & _)]. destruct k; discriminate.
  - rewrite in_app_iff, IH. split.
    + intros [H|(k & sg & Hk & Hj & ->)].
      * destruct (seg_is_join s) eqn:Ej; [|destruct H]. destruct H as [<-|[]].
        exists O, s. cbn [nth_opt]. split; [reflexivity|]. split; [exact Ej|lia].
      * exists (S k), sg. cbn [nth_opt]. split; [exact Hk|]. split; [exact Hj|lia].
    + intros (k & sg & Hk & Hj & ->). destruct k as [|k]; cbn [nth_opt] in Hk.
      * injection Hk as ->. rewrite Hj. left. left. lia.
      * right. exists k, sg. split; [exact Hk|]. split; [exact Hj|lia].
Qed.

Lemma cell_offset_S w ws_ j : cell_offset (w :: ws_) (S j) = w + 1 + cell_offset ws_ j.
Proof. unfold cell_offset. cbn [firstn sumN]. lia. Qed.
Lemma cell_offset_0 ws_ : cell_offset ws_ 0 = 0.
Proof. reflexivity. Qed.

(* the positions joined from above into the rule below a row by the collapsed bottom rules:
   exactly the junctions (of any kind) of the last line of a cell when that is a rule, shifted
   to the cell's first column *)
Theorem collapsed_bottom_in : forall sets pos x,
  In x (collapsed_bottom sets pos) <->
  exists j w sub line lt k sg,
    nth_opt sets j = Some (w, sub) /\ olast sub = Some (RLine line lt) /\
    nth_opt line k = Some sg /\ seg_is_join sg = true /\
    x = pos + cell_offset (map fst sets) j + N.of_nat k.
Proof.
  induction sets as [|[w sub] sets IH]; intros pos x; cbn [collapsed_bottom].
  - split; [intros []|intros (j & ? & ? & ? & ? & ? & ? & H & _)]. destruct j; discriminate.
  - rewrite in_app_iff, IH. split.
    + intros [H|(j & w' & sub' & line & lt & k & sg & Hj & Hl & Hk & Hs & ->)].
      * destruct (olast sub) as [[tl|line lt]|] eqn:El; try destruct H.
        apply join_positions_in in H. destruct H as (k & sg & Hk & Hs & ->).
        exists O, w, sub, line, lt, k, sg. cbn [nth_opt]. rewrite cell_offset_0.
        repeat (split; [first [reflexivity|assumption]|]). lia.
      * exists (S j), w', sub', line, lt, k, sg. cbn [nth_opt map fst]. rewrite cell_offset_S.
        repeat (split; [assumption|]). lia.
    + intros (j & w' & sub' & line & lt & k & sg & Hj & Hl & Hk & Hs & ->).
      destruct j as [|j]; cbn [nth_opt] in Hj.
      * injection Hj as <- <-. left. rewrite Hl. apply join_positions_in. exists k, sg.
        rewrite cell_offset_0. repeat (split; [assumption|]). lia.
      * right. exists j, w', sub', line, lt, k, sg. cbn [map fst]. rewrite cell_offset_S.
        repeat (split; [assumption|]). lia.
Qed.

Theorem collapsed_top_in : forall sets pos x,
  In x (collapsed_top sets pos) <->
  exists j w sub' line lt k sg,
    nth_opt sets j = Some (w, RLine line lt :: sub') /\
    nth_opt line k = Some sg /\ seg_is_join sg = true /\
    x = pos + cell_offset (map fst sets) j + N.of_nat k.
Proof.
  induction sets as [|[w sub] sets IH]; intros pos x; cbn [collapsed_top].
  - split; [intros []|intros (j & ? & ? & ? & ? & ? & ? & H & _)]. destruct j; discriminate.
  - rewrite in_app_iff, IH. split.
    + intros [H|(j & w' & sub' & line & lt & k & sg & Hj & Hk & Hs & ->)].
      * destruct sub as [|[tl|line lt] sub']; try destruct H.
        apply join_positions_in in H. destruct H as (k & sg & Hk & Hs & ->).
        exists O, w, sub', line, lt, k, sg. cbn [nth_opt]. rewrite cell_offset_0.
        repeat (split; [first [reflexivity|assumption]|]). lia.
      * exists (S j), w', sub', line, lt, k, sg. cbn [nth_opt map fst]. rewrite cell_offset_S.
        repeat (split; [assumption|]). lia.
    + intros (j & w' & sub' & line & lt & k & sg & Hj & Hk & Hs & ->).
      destruct j as [|j]; cbn [nth_opt] in Hj.
      * injection Hj as <- ->. left. apply join_positions_in. exists k, sg.
        rewrite cell_offset_0. repeat (split; [assumption|]). lia.
      * right. exists j, w', sub', line, lt, k, sg. cbn [map fst]. rewrite cell_offset_S.
        repeat (split; [assumption|]). lia.
Qed.

(* what replaces a collapsed bottom rule in the rows below the cell's remaining lines *)
Definition vline_char (s : seg) : chr :=
  match s with JoinAbove | JoinCross => vbar | _ => spacel L_pad end.
Lemma vertical_lines_nth line k :
  nth_opt (to_vertical_lines_above line) k = option_map vline_char (nth_opt line k).
Proof. unfold to_vertical_lines_above. apply (nth_opt_map vline_char). Qed.

Lemma cell_text_pad i w p ls : nth_opt ls i = None -> cell_text i w (Some p) ls = p.
Proof. intros H. unfold cell_text. rewrite H. reflexivity. Qed.

Lemma nth_nth_opt {A} (dflt : A) : forall l n, nth n l dflt = match nth_opt l n with Some x => x | None => dflt end.
Proof. induction l as [|a l IH]; intros [|n]; cbn [nth nth_opt]; try reflexivity. apply IH. Qed.

Lemma bot_collapsed_cell sets j w sub line lt :
  nth_opt (top_strip sets) j = Some (w, sub) -> olast sub = Some (RLine line lt) ->
  nth_opt (row_sets3 sets) j = Some (w, removelast sub) /\
  nth j (row_pads sets) None = Some (to_vertical_lines_above line).
Proof.
  intros Hj Hl. unfold row_sets3, row_pads, bot_strip, bot_pads.
  rewrite nth_nth_opt, !nth_opt_map, Hj. cbn [option_map bot_strip1]. unfold bot_pad1. cbn [snd]. rewrite Hl. auto.
Qed.

Lemma split_nth {A} : forall (l : list A) k c,
  nth_opt l k = Some c -> l = firstn k l ++ c :: skipn (S k) l /\ length (firstn k l) = k.
Proof.
  induction l as [|a l IH]; intros [|k] c H; cbn [nth_opt] in H; try discriminate.
  - injection H as ->. split; reflexivity.
  - destruct (IH k c H) as [E L]. cbn [firstn skipn app length]. split; [f_equal; exact E|lia].
Qed.

Lemma In_firstn {A} : forall n (l : list A) x, In x (firstn n l) -> In x l.
Proof.
  induction n as [|n IH]; intros [|a l] x H; cbn [firstn] in H; try destruct H.
  - left. assumption.
  - right. apply IH. assumption.
Qed.

Lemma swidth_w1 (t : text) : (forall c, In c t -> cw0 c = 1) -> swidth t = N.of_nat (length t).
Proof.
  induction t as [|c t IH]; intros H; cbn [swidth length]; [reflexivity|].
  rewrite (H c (or_introl eq_refl)), IH by (intros c' Hc'; apply H; right; exact Hc'). lia.
Qed.

(* (4), bottom.  Cell j of a row ends (after its top rule, if any, was collapsed) in a rule
   `line`.  Then that rule is removed from the cell and, at column cell_offset j + k,
   - the rule below the row is joined from above iff line has a junction (of any kind) at k
     (collapsed_bottom_in), and
   - every text line of the row below the cell's remaining lines shows a bar iff line has a
     junction with an arm pointing up (JoinAbove / JoinCross) at k, and a blank otherwise. *)
Theorem collapsed_bottom_bars sets j w sub line lt k sg i :
  sets_exact sets ->
  nth_opt (top_strip sets) j = Some (w, sub) -> olast sub = Some (RLine line lt) ->
  nth_opt line k = Some sg ->
  nth_opt (removelast sub) i = None ->
  (seg_is_join sg = true -> In (cell_offset (row_ws sets) j + N.of_nat k) (row_above sets)) /\
  exists pre post,
    row_text true i (row_sets3 sets) (row_pads sets) = pre ++ vline_char sg :: post /\
    swidth pre = cell_offset (row_ws sets) j + N.of_nat k.
Proof.
  intros Hex Hj Hl Hk Hi. split.
  - intros Hs. unfold row_above. apply in_or_app. right. apply collapsed_bottom_in.
    exists j, w, sub, line, lt, k, sg. rewrite map_fst_top_strip. unfold row_ws. auto 10.
  - destruct (bot_collapsed_cell sets j w sub line lt Hj Hl) as [H3 Hpad].
    destruct (row_text_cell true i _ _ j w (removelast sub) (row_band_ok sets i Hex) H3)
      as (pre & post & E & Hpre & _).
    rewrite Hpad, (cell_text_pad _ _ _ _ Hi) in E.
    assert (Hc : nth_opt (to_vertical_lines_above line) k = Some (vline_char sg)).
    { rewrite vertical_lines_nth, Hk. reflexivity. }
    destruct (split_nth _ _ _ Hc) as [Es Ln].
    exists (pre ++ firstn k (to_vertical_lines_above line)), (skipn (S k) (to_vertical_lines_above line) ++ post).
    split.
    + rewrite E. rewrite Es at 1. rewrite <- !app_assoc. reflexivity.
    + rewrite swidth_app, Hpre, row_sets3_ws. f_equal.
      rewrite swidth_w1, Ln; [reflexivity|].
      intros c Hc'. apply In_firstn in Hc'.
      unfold to_vertical_lines_above in Hc'. apply in_map_iff in Hc'. destruct Hc' as (s & <- & _).
      destruct s; reflexivity.
Qed.

(* ================================================================== *)
(* 12. Examples (non-vacuity) and a finding                             *)
(* ================================================================== *)
Definition exT (rows : list (list rcell)) (n : N) : rnode :=
  ex_n (ITable (map (fun c => RRow c cstyle0) rows) n).
Definition exCN (k : list rnode) : rcell := RCell 1 k cstyle0.
Definition exCS (sp : N) (l : list N) : rcell := RCell sp [ex_n (IText (ex_str l))] cstyle0.
Definition ex_a : list N := [97;97;97;97;97;97;97;32;97;97;97].          (* "aaaaaaa aaa" *)
Definition ex_b : list N := [98;98;98;98;98;98;32;98;98;98;98].          (* "bbbbbb bbbb" *)
Definition ex_x : list N :=
  [120;120;120;120;120;120;32;120;120;120;120;120;32;120;120;120;120;32;120;120;120;120;120;120;32;120;120;120].
(* <table><tr><td><table><tr><td>aaaaaaa aaa<td>bbbbbb bbbb</table><td>xxxxxx xxxxx xxxx xxxxxx xxx
          <tr><td colspan=2>1</table> *)
Definition ex_inner : rnode := exT [[ex_cell ex_a; ex_cell ex_b]] 2.
Definition ex_rows : list rrow :=
  map (fun c => RRow c cstyle0) [[exCN [ex_inner]; ex_cell ex_x]; [exCS 2 [49]]].
Definition ex_outer : rnode := ex_n (ITable ex_rows 2).
Definition ex_tp0 : subr := sub_new 30 ex_opts.
Definition ex_st0 : rstate := mkrst [ex_tp0] [].
Definition ex_st' : rstate :=
  match render_node plain_deco 3 ex_outer ex_st0 with Ok st => st | _ => ex_st0 end.
Definition top_views (st : rstate) : list (list N) :=
  match stack st with s :: _ => map (fun v => cps (vline_string v)) (views (slines s)) | [] => [] end.

Example ex_render : render_node plain_deco 3 ex_outer ex_st0 = Ok ex_st'.
Proof. vm_compute. reflexivity. Qed.

(* the nested table's top and bottom rules are merged into the outer rules *)
Example ex_lines :
  top_views ex_st' =
  [ [9472;9472;9472;9472;9472;9472;9516;9472;9472;9472;9472;9472;9472;9516;9472;9472;9472;9472;9472;9472;9472;9472;9472;9472;9472;9472;9472;9472;9472;9472];
    [97;97;97;97;97;97;9474;98;98;98;98;98;98;9474;120;120;120;120;120;120;32;120;120;120;120;120;32;32;32;32];
    [97;32;97;97;97;32;9474;98;98;98;98;32;32;9474;120;120;120;120;32;120;120;120;120;120;120;32;120;120;120;32];
    [9472;9472;9472;9472;9472;9472;9524;9472;9472;9472;9472;9472;9472;9524;9472;9472;9472;9472;9472;9472;9472;9472;9472;9472;9472;9472;9472;9472;9472;9472];
    [49;32;32;32;32;32;32;32;32;32;32;32;32;32;32;32;32;32;32;32;32;32;32;32;32;32;32;32;32;32];
    [9472;9472;9472;9472;9472;9472;9472;9472;9472;9472;9472;9472;9472;9472;9472;9472;9472;9472;9472;9472;9472;9472;9472;9472;9472;9472;9472;9472;9472;9472] ].
Proof. vm_compute. reflexivity. Qed.

Example ex_sinv : st_inv false 0 ex_st0.
Proof.
  split; [|discriminate]. cbn [ex_st0 stack]. constructor; [|constructor].
  unfold ex_tp0, sub_new. apply sub_ok_mk; cbn; auto; [intros r []|intros ? [=]].
Qed.

Example ex_hyps :
  tree_ok false 0 ex_outer = true /\
  o_borders (sopts ex_tp0) = true /\
  table_layout plain_deco 3 ex_rows 2 (swidth_ ex_tp0) (o_raw (sopts ex_tp0)) = Ok (false, [13; 16]) /\
  regular_table ex_rows 2 = true /\ all_pos [13; 16] = true.
Proof. vm_compute. auto. Qed.

(* c05_table_regular applies to the example (W = 13 + 16 + 1 = 30) *)
Example ex_c05_applies :
  exists tp1 ps tp2 tpn lk' rsets,
    apply_style plain_deco ex_st0 cstyle0 = Ok (mkrst [tp1] [], ps) /\
    start_block tp1 = Ok tp2 /\
    rows_run plain_deco 3 (sopts ex_tp0) [13; 16] ex_rows [] rsets lk' /\
    views (slines tpn) = views (slines tp2) ++ table_views_j 30 [] rsets /\
    Forall (fun v => swidth (vline_string v) = 30) (table_views_j 30 [] rsets) /\
    30 <= swidth_ ex_tp0 /\
    Forall (fun sets => sets_exact sets /\ row_tot sets = 30 /\
                        (forall x, In x (row_above sets) -> x + 1 <= 30) /\
                        (forall x, In x (row_below sets) -> x + 1 <= 30)) rsets /\
    wrapping tpn = None /\
    unwind plain_deco ps (mkrst [tpn] lk') = Ok ex_st'.
Proof.
  destruct ex_hyps as (H1 & H2 & H3 & H4 & H5).
  exact (c05_table_regular plain_deco 3 ol_prefix_monotone_plain ol_prefix_sat_plain
           ex_rows 2 cstyle0 ex_tp0 [] [] ex_st' [13; 16] H1 ex_sinv eq_refl H2 H3 H4 H5
           ltac:(discriminate) ex_render).
Qed.

(* FINDING (C05).  A rendered row whose cells all lose every line to the collapse has no text
   line at all, yet its bars are still joined into the rule above and the rule below: the two
   rules end up directly on top of each other, showing junctions although no vertical bar
   stands below / above them.
   <table><tr><td><table><tr><td> </td></tr></table></td>
              <td><table><tr><td> </td></tr></table></td></tr></table>
   (an inner table with a white-space-only cell renders as its top rule alone: the row is
   skipped; the outer row's two cells then consist of one rule each, which collapses).
   The model and the implementation both print  "─┬─" / "─┴─". *)
Definition cex_t2 : rnode := exT [[ex_cell [32]]] 1.
Definition cex_t1 : rnode := exT [[exCN [cex_t2]; exCN [cex_t2]]] 2.
Example cex_junction_without_bar :
  match render_node plain_deco 3 cex_t1 ex_st0 with
  | Ok st => top_views st
  | _ => []
  end = [[9472; 9516; 9472]; [9472; 9524; 9472]].            (* ─┬─ directly above ─┴─ *)
Proof. vm_compute. reflexivity. Qed.
(* in the terms of this file: a row with row_below / row_above = [1] and an empty band *)
Example cex_empty_band :
  let sets := [(1, [RLine [Straight] []]); (1, [RLine [Straight] []])] in
  (row_band sets, row_below sets, row_above sets,
   map (fun v => cps (vline_string v)) (table_views (border_new 3) [sets])) =
  ([], [1], [1], [[9472; 9516; 9472]; [9472; 9524; 9472]]).
Proof. vm_compute. reflexivity. Qed.

(* ================================================================== *)
(* 13. The stacked layout (raw mode, minimum widths do not fit, width 0)*)
(* ================================================================== *)
(* the separator between the cells of a stacked row: "////..." over the full width, and the
   rule under a stacked row: "────..." over the full width *)
Definition vsep (W : N) : text := border_string (border_new_type W StraightVert).
Definition hrule (W : N) : text := border_string (border_new W).

(* the line strings of a stacked row: the cells' lines one after the other, in order,
   separated by vsep when borders are on *)
Fixpoint vert_strs (b : bool) (W : N) (first : bool) (olss : list (list rline)) : list text :=
  match olss with
  | [] => []
  | ols :: rest => (if negb first && b then [vsep W] else []) ++ strs ols ++ vert_strs b W false rest
  end.

Lemma prefixed_nil ls : prefixed [] [] ls = ls.
Proof. rewrite prefixed_same. apply map_id. Qed.

Lemma vert_cols_strs : forall cols s first s',
  vert_cols s cols first = Ok s' -> ptxt s = [] -> wrapping s = None ->
  exists olss,
    Forall2 (fun c ols => sub_into_lines c = Ok ols) cols olss /\
    strs (slines s') = strs (slines s) ++ vert_strs (o_borders (sopts s)) (swidth_ s) first olss /\
    ptxt s' = [] /\ wrapping s' = None /\ same_ctx s s'.
Proof.
  induction cols as [|c cols IH]; intros s first s' H Hp Hw; cbn [vert_cols] in H.
  - ok_inv H. exists []. cbn [vert_strs]. rewrite app_nil_r.
    split; [constructor|]. split; [reflexivity|]. split; [exact Hp|]. split; [exact Hw|apply same_ctx_refl].
  - bind_inv H s1 H1. bind_inv H s2 H2.
    assert (A : strs (slines s1) = strs (slines s) ++
                  (if negb first && o_borders (sopts s) then [vsep (swidth_ s)] else []) /\
                ptxt s1 = [] /\ wrapping s1 = None /\ same_ctx s s1).
    { destruct (negb first && o_borders (sopts s)).
      - unfold add_horizontal_line in H1. rewrite (flush_none _ Hw) in H1. cbn [bind] in H1. ok_inv H1.
        destruct (add_line_spec s (RLine (border_new_type (swidth_ s) StraightVert) (ann_stack s)) Hp)
          as (a & b & c0 & e).
        split; [exact a|]. split; [exact b|]. split; [congruence|exact e].
      - ok_inv H1. rewrite app_nil_r. split; [reflexivity|]. split; [exact Hp|].
        split; [exact Hw|apply same_ctx_refl]. }
    destruct A as (A1 & A2 & A3 & A4).
    destruct (append_subrender_spec _ _ _ _ _ H2 A2) as (ols & Hols & Hout & Hw2 & Hp2 & C2).
    rewrite (out_lines_none _ Hw2), (out_lines_none _ A3) in Hout. cbn [bind] in Hout.
    injection Hout as Hout. rewrite prefixed_nil in Hout.
    destruct (IH s2 false s' H Hp2 Hw2) as (olss & HF & Hs' & Hp' & Hw' & C').
    exists (ols :: olss). split; [constructor; assumption|].
    pose proof (same_ctx_trans _ _ _ A4 C2) as C02. destruct C02 as (c1 & c2 & _).
    split; [|split; [exact Hp'|split; [exact Hw'|eapply same_ctx_trans; [exact A4|eapply same_ctx_trans; eassumption]]]].
    rewrite Hs', Hout, A1. cbn [vert_strs]. rewrite c1, c2, <- !app_assoc. reflexivity.
Qed.

Lemma append_vert_row_strs s cols s' :
  append_vert_row s cols = Ok s' -> ptxt s = [] -> wrapping s = None ->
  exists olss,
    Forall2 (fun c ols => sub_into_lines c = Ok ols) cols olss /\
    strs (slines s') = strs (slines s) ++ vert_strs (o_borders (sopts s)) (swidth_ s) true olss ++
                       (if o_borders (sopts s) then [hrule (swidth_ s)] else []) /\
    ptxt s' = [] /\ wrapping s' = None /\ same_ctx s s'.
Proof.
  intros H Hp Hw. unfold append_vert_row in H. rewrite (flush_none _ Hw) in H. cbn [bind] in H.
  bind_inv H s2 H2.
  destruct (vert_cols_strs _ _ _ _ H2 Hp Hw) as (olss & HF & Hs2 & Hp2 & Hw2 & C2).
  exists olss. split; [exact HF|]. pose proof C2 as (c1 & c2 & _). rewrite c2 in H.
  destruct (o_borders (sopts s)).
  - unfold add_horizontal_border, add_horizontal_border_width in H. rewrite (flush_none _ Hw2) in H.
    cbn [bind] in H. ok_inv H.
    destruct (add_line_spec s2 (RLine (border_new (swidth_ s2)) (ann_stack s2)) Hp2) as (a & b & c & e).
    split; [|split; [exact b|split; [congruence|eapply same_ctx_trans; eassumption]]].
    rewrite a, Hs2, c1, <- app_assoc. reflexivity.
  - ok_inv H. rewrite app_nil_r. auto.
Qed.

Section Stacked.
  Variables (d : deco) (mw : N).
  Hypothesis Hd : ol_prefix_monotone d.
  Hypothesis Hsat : ol_prefix_sat d.
  Notation sinv := (st_inv false 0).
  Notation nok := (node_ok d mw false 0).

  (* the rows of a stacked table: every cell that is rendered gets the full width *)
  Fixpoint rows_run_v (o : ropts) (width : N) (col_widths : list N) (rows : list rrow) (lk : list text)
           (rlines : list (list (list rline))) (lk' : list text) : Prop :=
    match rows with
    | [] => rlines = [] /\ lk' = lk
    | r :: rows' =>
      exists tpr cws subs lk1 olss rl,
        sopts tpr = o /\
        cell_widths true col_widths (row_cells r) 0 = Ok cws /\
        Forall (fun w => w = width) (somes cws) /\
        cells_run d mw tpr (row_cells r) cws lk subs lk1 /\
        Forall sub_ok subs /\ map swidth_ subs = somes cws /\
        Forall2 (fun c ols => sub_into_lines c = Ok ols) subs olss /\
        rlines = olss :: rl /\ rows_run_v o width col_widths rows' lk1 rl lk'
    end.

  (* the line strings of the stacked rows *)
  Definition stacked_strs (b : bool) (W : N) (rlines : list (list (list rline))) : list text :=
    flat_map (fun olss => vert_strs b W true olss ++ (if b then [hrule W] else [])) rlines.

  Lemma row_step_v col_widths r tp rest lk st' :
    Forall (fun c => Forall nok (cell_content c)) (row_cells r) ->
    forallb (cell_tree_ok false 0) (row_cells r) = true ->
    (forall w, In w col_widths -> w = swidth_ tp) ->
    sinv (mkrst (tp :: rest) lk) -> ptxt tp = [] -> wrapping tp = None ->
    row_body d mw true col_widths r (mkrst (tp :: rest) lk) = Ok st' ->
    exists tp' lk1 tpr cws subs olss,
      st' = mkrst (tp' :: rest) lk1 /\ sinv st' /\ ptxt tp' = [] /\ wrapping tp' = None /\
      sopts tp' = sopts tp /\ swidth_ tp' = swidth_ tp /\
      sopts tpr = sopts tp /\
      cell_widths true col_widths (row_cells r) 0 = Ok cws /\
      Forall (fun w => w = swidth_ tp) (somes cws) /\
      cells_run d mw tpr (row_cells r) cws lk subs lk1 /\
      Forall sub_ok subs /\ map swidth_ subs = somes cws /\
      Forall2 (fun c ols => sub_into_lines c = Ok ols) subs olss /\
      strs (slines tp') =
        strs (slines tp) ++ vert_strs (o_borders (sopts tp)) (swidth_ tp) true olss ++
        (if o_borders (sopts tp) then [hrule (swidth_ tp)] else []).
  Proof.
    intros HF Ht Hv Hi Hp Hw H.
    assert (HR : R false 0 (mkrst (tp :: rest) lk) st').
    { eapply (row_body_R d mw false 0 true col_widths (swidth_ tp)); try eassumption.
      - intros _. exact Hv.
      - discriminate.
      - reflexivity. }
    destruct r as [rcells rstyle]. cbn [row_cells] in *. unfold row_body in H.
    bind_inv H apr Hap. destruct apr as [s1 prow]. bind_inv H cws Hcws. bind_inv H rr Hrr.
    destruct rr as [s8 subs]. bind_inv H s9 H9.
    destruct (apply_style_out _ _ _ _ _ _ _ Hap) as (tp1 & -> & O1 & O2 & O3).
    pose proof (apply_style_R _ _ _ _ _ _ _ Hi Hap) as R1.
    destruct (R_top _ _ _ _ _ _ R1) as (E1w & E1o & I1).
    destruct (cells_loop_run d mw rcells cws tp1 rest lk [] (s8, subs)
                (cell_widths_length _ _ _ _ _ Hcws) HF Ht I1 Hrr) as (subs' & lk1 & E8 & Hrun & Hok & Hws).
    cbn [app] in E8. injection E8 as -> ->.
    assert (Hp1 : ptxt tp1 = []) by (unfold ptxt; rewrite O2; exact Hp).
    assert (Hw1 : wrapping tp1 = None) by (rewrite O3; exact Hw).
    destruct (with_top_mk _ _ _ _ _ H9) as (tp2 & Hvr & ->).
    destruct (append_vert_row_strs _ _ _ Hvr Hp1 Hw1) as (olss & HF2 & Hs2 & Hp2 & Hw2 & C2).
    destruct (unwind_out _ _ _ _ _ _ H) as (tp3 & -> & O1' & O2' & O3').
    destruct (R_top _ _ _ _ _ _ HR) as (E3w & E3o & I3).
    exists tp3, lk1, tp1, cws, subs', olss.
    split; [reflexivity|]. split; [exact I3|].
    split; [unfold ptxt; rewrite O2'; exact Hp2|]. split; [rewrite O3'; exact Hw2|].
    split; [exact E3o|]. split; [exact E3w|]. split; [exact E1o|]. split; [exact Hcws|].
    split.
    { pose proof (cell_widths_v _ _ _ _ Hcws) as Hcv. eapply Forall_impl; [|exact Hcv].
      intros w [_ Hin]. apply Hv, Hin. }
    split; [exact Hrun|]. split; [exact Hok|]. split; [exact Hws|]. split; [exact HF2|].
    rewrite O1', Hs2, O1, E1o, E1w. reflexivity.
  Qed.

  Lemma rows_fold_v col_widths : forall rows tp rest lk st',
    Forall (fun r => Forall (fun c => Forall nok (cell_content c)) (row_cells r)) rows ->
    forallb (fun r => forallb (cell_tree_ok false 0) (row_cells r)) rows = true ->
    (forall w, In w col_widths -> w = swidth_ tp) ->
    sinv (mkrst (tp :: rest) lk) -> ptxt tp = [] -> wrapping tp = None ->
    fold_left (fun acc r => do s <- acc; row_body d mw true col_widths r s) rows
              (Ok (mkrst (tp :: rest) lk)) = Ok st' ->
    exists tp' lk' rlines,
      st' = mkrst (tp' :: rest) lk' /\ ptxt tp' = [] /\ wrapping tp' = None /\
      swidth_ tp' = swidth_ tp /\
      rows_run_v (sopts tp) (swidth_ tp) col_widths rows lk rlines lk' /\
      strs (slines tp') =
        strs (slines tp) ++ stacked_strs (o_borders (sopts tp)) (swidth_ tp) rlines.
  Proof.
    induction rows as [|r rows IH]; intros tp rest lk st' HF Ht Hv Hi Hp Hw H.
    - cbn [fold_left] in H. ok_inv H. exists tp, lk, []. cbn [rows_run_v stacked_strs flat_map].
      rewrite app_nil_r. auto 10.
    - apply fold_bind_cons in H. destruct H as (st1 & Hstep & H).
      inversion HF as [|? ? HF1 HF2]; subst.
      cbn [forallb] in Ht. apply andb_true_iff in Ht. destruct Ht as [Ht1 Ht2].
      destruct (row_step_v col_widths r tp rest lk st1 HF1 Ht1 Hv Hi Hp Hw Hstep)
        as (tp1 & lk1 & tpr & cws & subs & olss & -> & I1 & Hp1 & Hw1 & Eo & Ew & Eor & Hcws & Hfull
            & Hrun & Hok & Hws & HF2' & Hs1).
      destruct (IH tp1 rest lk1 st' HF2 Ht2 ltac:(rewrite Ew; exact Hv) I1 Hp1 Hw1 H)
        as (tp' & lk' & rl & -> & Hp' & Hw' & Ew' & Hrr & Hs').
      exists tp', lk', (olss :: rl).
      split; [reflexivity|]. split; [exact Hp'|]. split; [exact Hw'|]. split; [congruence|]. split.
      + cbn [rows_run_v]. exists tpr, cws, subs, lk1, olss, rl. rewrite Eo, Ew in Hrr. auto 12.
      + rewrite Hs', Hs1, Eo, Ew. cbn [stacked_strs flat_map]. rewrite <- !app_assoc. reflexivity.
  Qed.

  (* MAIN THEOREM (stacked layout).  When the layout decision is "stacked", the table is: a
     full-width rule (if borders are on and the width is not 0), then for every row -- empty
     or not -- its cells one under the other, each rendered at the FULL width of the table's
     sub-renderer, separated by "////" rules, and a full-width rule after the row.  Rules of
     nested tables inside the cells are plain text lines here (no collapsing). *)
  Theorem table_render_stacked rows ncols sty tp0 rest lk0 st' col_widths :
    tree_ok false 0 (RN (ITable rows ncols) sty) = true ->
    st_inv false 0 (mkrst (tp0 :: rest) lk0) ->
    ptxt tp0 = [] ->
    table_layout d mw rows ncols (swidth_ tp0) (o_raw (sopts tp0)) = Ok (true, col_widths) ->
    render_node d mw (RN (ITable rows ncols) sty) (mkrst (tp0 :: rest) lk0) = Ok st' ->
    let W := swidth_ tp0 in let b := o_borders (sopts tp0) in
    exists tp1 ps tp2 tpn lk' rlines,
      apply_style d (mkrst (tp0 :: rest) lk0) sty = Ok (mkrst (tp1 :: rest) lk0, ps) /\
      start_block tp1 = Ok tp2 /\
      (forall w, In w col_widths -> w = W) /\
      rows_run_v (sopts tp0) W col_widths rows lk0 rlines lk' /\
      strs (slines tpn) =
        strs (slines tp2) ++ (if negb (W =? 0) && b then [hrule W] else []) ++
        stacked_strs b W rlines /\
      wrapping tpn = None /\
      unwind d ps (mkrst (tpn :: rest) lk') = Ok st'.
  Proof.
    intros Ht Hinv Hp Hlay H W b.
    cbn [render_node rn_info rn_style] in H.
    bind_inv H sz Hsz. bind_inv H ap Hap. destruct ap as [st1 ps].
    destruct (apply_style_out _ _ _ _ _ _ _ Hap) as (tp1 & -> & O1 & O2 & O3).
    pose proof (apply_style_R _ _ _ _ _ _ _ Hinv Hap) as R1.
    destruct (R_top _ _ _ _ _ _ R1) as (E1w & E1o & I1).
    bind_inv H col_sizes Hcs. cbn [top stack bind] in H.
    assert (Hcs' : table_col_sizes d mw rows ncols = Ok col_sizes) by exact Hcs.
    unfold table_layout in Hlay. rewrite Hcs' in Hlay. cbn [bind] in Hlay.
    rewrite <- E1w, <- E1o in Hlay.
    set (vr := o_raw (sopts tp1)
               || ((swidth_ tp1 <? sumN (map e_min col_sizes) + (N.of_nat (length col_sizes) - 1))
                   || (swidth_ tp1 =? 0))) in *.
    change (table_vert (swidth_ tp1) (o_raw (sopts tp1)) col_sizes) with vr in Hlay.
    bind_inv H cwl Hcw.
    assert (Hcw' : table_col_widths (swidth_ tp1) vr col_sizes = Ok cwl) by exact Hcw.
    rewrite Hcw' in Hlay. cbn [bind] in Hlay. injection Hlay as Evr ->.
    rewrite Evr in *. cbn [negb] in *.
    assert (Hv : forall w, In w col_widths -> w = swidth_ tp1).
    { intros w Hin. injection Hcw as <-. apply in_map_iff in Hin. destruct Hin as (? & <- & _). reflexivity. }
    bind_inv H st2 H2. bind_inv H st3 H3. bind_inv H st_rows Hrows.
    destruct (with_top_mk _ _ _ _ _ H2) as (tp2 & Hsb & ->).
    assert (Hp1 : ptxt tp1 = []) by (unfold ptxt; rewrite O2; exact Hp).
    destruct (start_block_spec _ _ Hsb Hp1) as (Hw2 & Hp2 & E2w & E2o & _ & _).
    pose proof (with_top_R _ _ _ _ _ start_block_keeps I1 H2) as R2.
    destruct (R_top _ _ _ _ _ _ R2) as (_ & _ & I2).
    assert (A3 : exists tp3, st3 = mkrst (tp3 :: rest) lk0 /\
              strs (slines tp3) = strs (slines tp2) ++
                (if negb (swidth_ tp1 =? 0) && o_borders (sopts tp1) then [hrule (swidth_ tp1)] else []) /\
              ptxt tp3 = [] /\ wrapping tp3 = None /\ swidth_ tp3 = swidth_ tp2 /\ sopts tp3 = sopts tp2 /\
              sinv st3).
    { destruct (negb (swidth_ tp1 =? 0) && o_borders (sopts tp1)).
      - destruct (with_top_mk _ _ _ _ _ H3) as (tp3 & Hbd & ->).
        assert (R3 : R false 0 (mkrst (tp2 :: rest) lk0) (mkrst (tp3 :: rest) lk0)).
        { eapply (with_top_RW false 0 (swidth_ tp2)); [|reflexivity|exact I2|exact H3].
          intros s s' Hs Es Hbb. eapply add_horizontal_border_width_ok; [exact Hs| |exact Hbb]. lia. }
        destruct (R_top _ _ _ _ _ _ R3) as (E3w & E3o & I3).
        unfold add_horizontal_border_width in Hbd. rewrite (flush_none _ Hw2) in Hbd.
        cbn [bind] in Hbd. ok_inv Hbd.
        destruct (add_line_spec tp2 (RLine (border_new (swidth_ tp1)) (ann_stack tp2)) Hp2) as (a & b0 & c & e).
        eexists. split; [reflexivity|]. split; [exact a|]. split; [exact b0|]. split; [congruence|].
        split; [exact E3w|]. split; [exact E3o|exact I3].
      - ok_inv H3. exists tp2. rewrite app_nil_r. auto 10. }
    destruct A3 as (tp3 & -> & Hs3 & Hp3 & Hw3 & E3w & E3o & I3).
    assert (Hrows' : fold_left (fun acc r => do s <- acc; row_body d mw true col_widths r s) rows
                       (Ok (mkrst (tp3 :: rest) lk0)) = Ok st_rows) by exact Hrows.
    destruct (rows_fold_v col_widths rows tp3 rest lk0 st_rows (table_kids_ok d mw Hd Hsat rows)
                (table_tok _ _ _ Ht) ltac:(rewrite E3w, E2w; exact Hv) I3 Hp3 Hw3 Hrows')
      as (tpn & lk' & rlines & -> & Hpn & Hwn & Ewn & Hrun & Hsn).
    exists tp1, ps, tp2, tpn, lk', rlines. unfold W, b.
    rewrite E3w, E2w, E1w, E3o, E2o, E1o in Hrun, Hsn. rewrite E1w, E1o in Hs3. rewrite E1w in Hv.
    split; [exact Hap|]. split; [exact Hsb|]. split; [exact Hv|]. split; [exact Hrun|].
    split; [rewrite Hsn, Hs3, <- app_assoc; reflexivity|]. split; [exact Hwn|exact H].
  Qed.
End Stacked.

(* ================================================================== *)
(* 14. C06 at the level of render_node's layout                         *)
(* ================================================================== *)
(* the columns and their separators fit the width given to the table *)
Theorem table_layout_fits d mw rows ncols width raw col_widths :
  table_layout d mw rows ncols width raw = Ok (false, col_widths) ->
  sumN col_widths + (N.of_nat (length col_widths) - 1) <= width.
Proof.
  unfold table_layout. intros H. bind_inv H cs Hcs. bind_inv H cwl Hcw. injection H as Evr ->.
  rewrite Evr in Hcw. cbn [table_col_widths negb] in Hcw.
  destruct (map (col_width_of width (sumN (map e_size cs))) cs) as [|x l].
  - injection Hcw as <-. cbn [sumN length]. lia.
  - apply shrink_loop_ok in Hcw. destruct col_widths; cbn [sumN length] in *; lia.
Qed.

Lemma col_width_of_ge width tot sz :
  e_size sz <> 0 -> N.min (e_size sz) (e_min sz) <= col_width_of width tot sz.
Proof.
  intros H. unfold col_width_of. destruct (N.eqb_spec (e_size sz) 0); [contradiction|].
  destruct (usize_max / width <=? e_size sz); lia.
Qed.

(* a column whose estimate has a positive size and a positive minimum gets a positive width
   (also when the minimum exceeds the size, which happens for columns holding nested tables) *)
Theorem c06_column_nonzero d mw rows ncols width raw col_sizes col_widths i sz :
  table_col_sizes d mw rows ncols = Ok col_sizes ->
  table_layout d mw rows ncols width raw = Ok (false, col_widths) ->
  nth_opt col_sizes i = Some sz -> 0 < e_min sz -> 0 < e_size sz ->
  exists w, nth_opt col_widths i = Some w /\ 0 < w.
Proof.
  intros Hcs Hlay Hi Hmin Hsize. unfold table_layout in Hlay. rewrite Hcs in Hlay. cbn [bind] in Hlay.
  bind_inv Hlay cwl Hcw. injection Hlay as Evr ->. rewrite Evr in Hcw. cbn [table_col_widths negb] in Hcw.
  unfold table_vert in Evr. apply orb_false_iff in Evr. destruct Evr as [_ Evr].
  apply orb_false_iff in Evr. destruct Evr as [Efit _].
  set (ws0 := map (col_width_of width (sumN (map e_size col_sizes))) col_sizes) in *.
  assert (Hne : ws0 <> []).
  { unfold ws0. destruct col_sizes; [destruct i; discriminate|discriminate]. }
  destruct ws0 as [|x0 l0] eqn:E0; [congruence|]. rewrite <- E0 in *. clear Hne.
  destruct (shrink_loop_never_panics width (map e_min col_sizes) ws0) as (ws' & Hres & Hlen & _ & Hlo & _).
  - unfold ws0. rewrite !map_length. reflexivity.
  - rewrite E0. discriminate.
  - rewrite map_length. lia.
  - rewrite Hres in Hcw. injection Hcw as <-.
    assert (H0 : nth_opt ws0 i = Some (col_width_of width (sumN (map e_size col_sizes)) sz)).
    { unfold ws0. rewrite nth_opt_map, Hi. reflexivity. }
    assert (Hm : nth_opt (map e_min col_sizes) i = Some (e_min sz)).
    { rewrite nth_opt_map, Hi. reflexivity. }
    destruct (nth_opt ws' i) as [w|] eqn:Ew.
    + exists w. split; [reflexivity|]. specialize (Hlo i _ _ w Hm H0 Ew).
      pose proof (col_width_of_ge width (sumN (map e_size col_sizes)) sz ltac:(lia)). lia.
    + apply nth_opt_length in Ew. apply nth_opt_some_lt in H0. lia.
Qed.

(* ---- the column estimate dominates the estimate of every cell in the column ---- *)
Definition est_le (a b : est) : Prop := e_size a <= e_size b /\ e_min a <= e_min b.

Definition cstep (d : deco) (mw : N) (c : rcell) (a : list est * N) : res (list est * N) :=
  let '(sz_, colno) := a in
  do ce <- est_kids d mw (cell_content c);
  let cspan := cell_colspan c in
  if cspan =? 0 then Panic 33 else
  let e := mkest (e_size ce / cspan) (e_min ce / cspan) (e_prefix ce) in
  match upd_range sz_ (N.to_nat colno) (N.to_nat cspan) (fun s => est_max s e) with
  | Some sz' => Ok (sz', colno + cspan)
  | None => Panic 31
  end.
Definition rstep (d : deco) (mw : N) (r : rrow) (s : list est) : res (list est) :=
  do res_ <- fold_left (fun acc c => do a <- acc; cstep d mw c a) (row_cells r) (Ok (s, 0));
  Ok (fst res_).

Lemma table_col_sizes_eq d mw rows ncols :
  table_col_sizes d mw rows ncols =
  fold_left (fun acc r => do s <- acc; rstep d mw r s) rows (Ok (repeat est0 (N.to_nat ncols))).
Proof. reflexivity. Qed.

Lemma fold_bind_app {A B} (f : B -> A -> res A) l1 l2 a r :
  fold_left (fun acc b => do s <- acc; f b s) (l1 ++ l2) (Ok a) = Ok r ->
  exists m, fold_left (fun acc b => do s <- acc; f b s) l1 (Ok a) = Ok m /\
            fold_left (fun acc b => do s <- acc; f b s) l2 (Ok m) = Ok r.
Proof.
  rewrite fold_left_app. intros H.
  destruct (fold_left (fun acc b => do s <- acc; f b s) l1 (Ok a)) as [m| | |] eqn:E;
    [eauto|exfalso..]; revert H; apply fold_bind_err; discriminate.
Qed.

(* column k of the estimates is at least e *)
Definition col_ge (k : nat) (e : est) (sz : list est) : Prop :=
  exists x, nth_opt sz k = Some x /\ est_le e x.

Lemma est_le_refl a : est_le a a.
Proof. split; lia. Qed.
Lemma est_le_trans a b c : est_le a b -> est_le b c -> est_le a c.
Proof. unfold est_le. lia. Qed.

Lemma Forall2_est_refl l : Forall2 est_le l l.
Proof. induction l; constructor; [apply est_le_refl|assumption]. Qed.
Lemma Forall2_est_trans : forall l1 l2 l3, Forall2 est_le l1 l2 -> Forall2 est_le l2 l3 -> Forall2 est_le l1 l3.
Proof.
  intros l1 l2 l3 H. revert l3. induction H as [|a b l1 l2 Hab _ IH]; intros l3 H3; inversion H3; subst;
    constructor; [eapply est_le_trans; eassumption|auto].
Qed.

Lemma col_ge_mono k e sz sz' : Forall2 est_le sz sz' -> col_ge k e sz -> col_ge k e sz'.
Proof.
  intros H. revert k. induction H as [|a b l l' Hab _ IH]; intros k (x & Hx & Hle).
  - destruct k; discriminate.
  - destruct k as [|k]; cbn [nth_opt] in Hx.
    + injection Hx as ->. exists b. split; [reflexivity|eapply est_le_trans; eassumption].
    + destruct (IH k (ex_intro _ x (conj Hx Hle))) as (y & Hy & Hle'). exists y. auto.
Qed.

Lemma upd_range_ge e : forall (l : list est) from len r,
  upd_range l from len (fun s => est_max s e) = Some r ->
  Forall2 est_le l r /\
  forall k, (from <= k < from + len)%nat -> col_ge k e r.
Proof.
  induction l as [|x l IH]; intros from len r H.
  - destruct len as [|len]; cbn [upd_range] in H.
    + injection H as <-. split; [constructor|]. intros k Hk. lia.
    + destruct from; discriminate.
  - destruct len as [|len]; cbn [upd_range] in H.
    + injection H as <-. split; [apply Forall2_est_refl|]. intros k Hk. lia.
    + destruct from as [|from].
      * destruct (upd_range l 0 len _) as [r'|] eqn:E; [|discriminate]. injection H as <-.
        destruct (IH _ _ _ E) as [H1 H2]. split.
        -- constructor; [unfold est_le, est_max; cbn [e_size e_min]; lia|exact H1].
        -- intros [|k] Hk.
           ++ eexists. split; [reflexivity|]. unfold est_le, est_max. cbn [e_size e_min]. lia.
           ++ destruct (H2 k ltac:(lia)) as (y & Hy & Hle). exists y. auto.
      * destruct (upd_range l from (S len) _) as [r'|] eqn:E; [|discriminate]. injection H as <-.
        destruct (IH _ _ _ E) as [H1 H2]. split.
        -- constructor; [apply est_le_refl|exact H1].
        -- intros [|k] Hk; [lia|]. destruct (H2 k ltac:(lia)) as (y & Hy & Hle). exists y. auto.
Qed.

Lemma cstep_spec d mw c sz colno sz' colno' :
  cstep d mw c (sz, colno) = Ok (sz', colno') ->
  Forall2 est_le sz sz' /\ colno' = colno + cell_colspan c /\
  exists ce, est_kids d mw (cell_content c) = Ok ce /\
    forall k, (N.to_nat colno <= k < N.to_nat colno + N.to_nat (cell_colspan c))%nat ->
      col_ge k (mkest (e_size ce / cell_colspan c) (e_min ce / cell_colspan c) (e_prefix ce)) sz'.
Proof.
  unfold cstep. intros H. bind_inv H ce Hce. cbv zeta in H.
  destruct (cell_colspan c =? 0); [discriminate|].
  destruct (upd_range sz (N.to_nat colno) (N.to_nat (cell_colspan c)) _) as [r|] eqn:E; [|discriminate].
  injection H as <- <-. destruct (upd_range_ge _ _ _ _ _ E) as [H1 H2].
  split; [exact H1|]. split; [reflexivity|]. exists ce. auto.
Qed.

Lemma cells_fold_mono d mw : forall cells sz colno r,
  fold_left (fun acc c => do a <- acc; cstep d mw c a) cells (Ok (sz, colno)) = Ok r ->
  Forall2 est_le sz (fst r) /\ snd r = colno + sumN (map cell_colspan cells).
Proof.
  induction cells as [|c cells IH]; intros sz colno r H.
  - cbn [fold_left] in H. ok_inv H. cbn [fst snd map sumN]. split; [apply Forall2_est_refl|lia].
  - apply fold_bind_cons in H. destruct H as ([sz1 colno1] & Hstep & H).
    destruct (cstep_spec _ _ _ _ _ _ _ Hstep) as (A & -> & _).
    destruct (IH _ _ _ H) as [B C]. split; [eapply Forall2_est_trans; eassumption|].
    rewrite C. cbn [map sumN]. lia.
Qed.

Lemma rows_fold_mono d mw : forall rows s r,
  fold_left (fun acc r => do s <- acc; rstep d mw r s) rows (Ok s) = Ok r -> Forall2 est_le s r.
Proof.
  induction rows as [|rw rows IH]; intros s r H.
  - cbn [fold_left] in H. ok_inv H. apply Forall2_est_refl.
  - apply fold_bind_cons in H. destruct H as (s1 & Hstep & H).
    unfold rstep in Hstep. bind_inv Hstep res_ Hres. ok_inv Hstep.
    destruct (cells_fold_mono _ _ _ _ _ _ Hres) as [A _].
    eapply Forall2_est_trans; [exact A|apply IH, H].
Qed.

(* C06, last sentence.  A cell c (column span cspan, content estimate ce) that covers column
   k makes the column's estimate at least ce / cspan in size and minimum; hence when
   ce's size and minimum are both at least cspan -- for cspan = 1: the cell has text -- column k
   is allocated a positive width.  For cspan > 1 the integer division can make the cell's
   contribution 0 (the recorded class zero_width_column_under_colspan). *)
Theorem c06_text_column_positive d mw rows1 cells1 c cells2 rsty rows2 ncols width raw col_widths ce k :
  let rows := rows1 ++ RRow (cells1 ++ c :: cells2) rsty :: rows2 in
  let cspan := cell_colspan c in
  let col0 := sumN (map cell_colspan cells1) in
  table_layout d mw rows ncols width raw = Ok (false, col_widths) ->
  est_kids d mw (cell_content c) = Ok ce ->
  (N.to_nat col0 <= k < N.to_nat col0 + N.to_nat cspan)%nat ->
  cspan <= e_size ce -> cspan <= e_min ce ->
  exists w, nth_opt col_widths k = Some w /\ 0 < w.
Proof.
  intros rows cspan col0 Hlay Hce Hk Hsz Hmn.
  destruct (table_col_sizes d mw rows ncols) as [col_sizes| | |] eqn:Hcs;
    try (unfold table_layout in Hlay; rewrite Hcs in Hlay; discriminate).
  assert (Hc0 : cspan <> 0) by (unfold cspan in *; lia).
  assert (Hcol : col_ge k (mkest (e_size ce / cspan) (e_min ce / cspan) (e_prefix ce)) col_sizes).
  { rewrite table_col_sizes_eq in Hcs. unfold rows in Hcs.
    apply fold_bind_app in Hcs. destruct Hcs as (s1 & _ & Hcs).
    apply fold_bind_cons in Hcs. destruct Hcs as (s2 & Hrow & Hcs).
    eapply col_ge_mono; [eapply rows_fold_mono; exact Hcs|].
    unfold rstep in Hrow. cbn [row_cells] in Hrow. bind_inv Hrow res_ Hres. ok_inv Hrow.
    apply fold_bind_app in Hres. destruct Hres as ([sz1 colno1] & Hpre & Hres).
    destruct (cells_fold_mono _ _ _ _ _ _ Hpre) as [_ Ecol]. cbn [snd] in Ecol.
    apply fold_bind_cons in Hres. destruct Hres as ([sz2 colno2] & Hstep & Hres).
    destruct (cstep_spec _ _ _ _ _ _ _ Hstep) as (_ & _ & ce' & Hce' & Hge).
    rewrite Hce in Hce'. injection Hce' as <-.
    eapply col_ge_mono; [exact (proj1 (cells_fold_mono _ _ _ _ _ _ Hres))|].
    apply Hge. rewrite Ecol. unfold col0, cspan in Hk. lia. }
  destruct Hcol as (sz & Hsz' & Hle1 & Hle2). cbn [e_size e_min] in Hle1, Hle2.
  assert (1 <= e_size ce / cspan) by (apply N.div_le_lower_bound; lia).
  assert (1 <= e_min ce / cspan) by (apply N.div_le_lower_bound; lia).
  eapply c06_column_nonzero; try eassumption; lia.
Qed.

(* ================================================================== *)
(* 15. What the cells' padded lines `sets` are                          *)
(* ================================================================== *)
(* line r of a cell of width w after pad_cell_lines: a text line gets blanks (label L_pad)
   appended, a rule is stretched with straight segments *)
Definition padded (w : N) (r r' : rline) : Prop :=
  match r with
  | RText tl => exists tl' n, r' = RText tl' /\ tl_string tl' = tl_string tl ++ spacesl L_pad n
  | RLine b t => r' = RLine (stretch_to b w) t
  end.

Lemma pad_cell_lines_padded w t : forall ls pls,
  pad_cell_lines w t ls = Ok pls -> Forall2 (padded w) ls pls.
Proof.
  induction ls as [|r ls IH]; intros pls H; cbn [pad_cell_lines] in H.
  - ok_inv H. constructor.
  - destruct r as [tl|b bt].
    + bind_inv H tl' H1. bind_inv H r' H2. ok_inv H. constructor; [|apply IH, H2].
      cbn [padded]. unfold tl_pad_to in H1. bind_inv H1 wd Hwd.
      destruct (wd <? w); ok_inv H1.
      * exists (tl_push_wsl L_pad tl (w - wd) t), (w - wd). split; [reflexivity|].
        unfold tl_push_wsl. apply tl_string_push_str.
      * exists tl', 0. split; [reflexivity|]. cbn. rewrite app_nil_r. reflexivity.
    + bind_inv H r' H2. ok_inv H. constructor; [reflexivity|apply IH, H2].
Qed.

(* the entries of `sets`: the width of each cell's sub-renderer and its lines, padded *)
Theorem col_line_sets_padded t : forall cols sets,
  col_line_sets t cols = Ok sets ->
  Forall2 (fun c p => fst p = swidth_ c /\
                      exists ls, sub_into_lines c = Ok ls /\ Forall2 (padded (swidth_ c)) ls (snd p))
          cols sets.
Proof.
  induction cols as [|c cols IH]; intros sets H; cbn [col_line_sets] in H.
  - ok_inv H. constructor.
  - bind_inv H ls H1. bind_inv H pls H2. bind_inv H r H3. ok_inv H.
    constructor; [|apply IH, H3]. cbn [fst snd]. split; [reflexivity|].
    exists ls. split; [exact H1|]. eapply pad_cell_lines_padded, H2.
Qed.

(* ================================================================== *)
(* 16. More examples                                                    *)
(* ================================================================== *)
(* the same table in a sub-renderer of width 9: stacked; the inner table is rendered side by
   side at the full width inside its cell, its rules are ordinary lines *)
Definition ex_tp9 : subr := sub_new 9 ex_opts.
Definition ex_st9 : rstate := mkrst [ex_tp9] [].
Definition ex_st9' : rstate :=
  match render_node plain_deco 3 ex_outer ex_st9 with Ok st => st | _ => ex_st9 end.
Example ex9_render : render_node plain_deco 3 ex_outer ex_st9 = Ok ex_st9'.
Proof. vm_compute. reflexivity. Qed.
Example ex9_layout :
  table_layout plain_deco 3 ex_rows 2 (swidth_ ex_tp9) (o_raw (sopts ex_tp9)) = Ok (true, [9; 9]).
Proof. vm_compute. reflexivity. Qed.
Example ex9_lines :
  match stack ex_st9' with s :: _ => map cps (strs (slines s)) | [] => [] end =
  [ [9472;9472;9472;9472;9472;9472;9472;9472;9472];
    [9472;9472;9472;9472;9516;9472;9472;9472;9472];
    [97;97;97;97;9474;98;98;98;98]; [97;97;97;32;9474;98;98;32;32]; [97;97;97;32;9474;98;98;98;98];
    [9472;9472;9472;9472;9524;9472;9472;9472;9472];
    [47;47;47;47;47;47;47;47;47];
    [120;120;120;120;120;120]; [120;120;120;120;120]; [120;120;120;120]; [120;120;120;120;120;120];
    [120;120;120];
    [9472;9472;9472;9472;9472;9472;9472;9472;9472];
    [49];
    [9472;9472;9472;9472;9472;9472;9472;9472;9472] ].
Proof. vm_compute. reflexivity. Qed.
Example ex9_sinv : st_inv false 0 ex_st9.
Proof.
  split; [|discriminate]. cbn [ex_st9 stack]. constructor; [|constructor].
  unfold ex_tp9, sub_new. apply sub_ok_mk; cbn; auto; [intros r []|intros ? [=]].
Qed.
Example ex9_stacked_applies :
  exists tp1 ps tp2 tpn lk' rlines,
    apply_style plain_deco ex_st9 cstyle0 = Ok (mkrst [tp1] [], ps) /\
    start_block tp1 = Ok tp2 /\
    (forall w, In w [9; 9] -> w = 9) /\
    rows_run_v plain_deco 3 (sopts ex_tp9) 9 [9; 9] ex_rows [] rlines lk' /\
    strs (slines tpn) = strs (slines tp2) ++ [hrule 9] ++ stacked_strs true 9 rlines /\
    wrapping tpn = None /\
    unwind plain_deco ps (mkrst [tpn] lk') = Ok ex_st9'.
Proof.
  exact (table_render_stacked plain_deco 3 ol_prefix_monotone_plain ol_prefix_sat_plain
           ex_rows 2 cstyle0 ex_tp9 [] [] ex_st9' [9; 9] (proj1 ex_hyps) ex9_sinv eq_refl
           ex9_layout ex9_render).
Qed.

(* C06: the second column of the example holds text in a single-column cell; the theorem gives
   it a positive width (it is 16), and the columns fit: 13 + 16 + 1 <= 30 *)
Example ex_c06_applies : exists w, nth_opt [13; 16] 1 = Some w /\ 0 < w.
Proof.
  refine (c06_text_column_positive plain_deco 3 [] [exCN [ex_inner]] (ex_cell ex_x) [] cstyle0
            [RRow [exCS 2 [49]] cstyle0] 2 30 false [13; 16] (mkest 28 3 0) 1
            (proj1 (proj2 (proj2 ex_hyps))) _ _ _ _).
  - vm_compute. reflexivity.
  - vm_compute. lia.
  - vm_compute. discriminate.
  - vm_compute. discriminate.
Qed.
Example ex_c06_fits : sumN [13; 16] + (N.of_nat (length [13; 16]) - 1) <= 30.
Proof. exact (table_layout_fits _ _ _ _ _ _ _ (proj1 (proj2 (proj2 ex_hyps)))). Qed.

(* ================================================================== *)
(* 17. Column boundaries are the same in every row                      *)
(* ================================================================== *)
Lemma cell_offset_add ws_ n c :
  (n + c <= length ws_)%nat ->
  cell_offset ws_ (n + c) = cell_offset ws_ n + sumN (firstn c (skipn n ws_)) + N.of_nat c.
Proof.
  intros H. unfold cell_offset.
  assert (E : firstn (n + c) ws_ = firstn n ws_ ++ firstn c (skipn n ws_)).
  { clear H. revert ws_. induction n as [|n IH]; intros [|a l]; cbn [Nat.add firstn skipn app]; try reflexivity.
    - destruct c; reflexivity.
    - rewrite IH. reflexivity. }
  rewrite E, sumN_app. lia.
Qed.

Lemma bar_at_boundary ws_ m :
  (1 <= m < length ws_)%nat -> In (cell_offset ws_ m - 1) (bar_positions ws_ 0).
Proof.
  intros H. destruct m as [|j]; [lia|].
  pose proof (bar_positions_nth ws_ 0 j ltac:(lia)) as E.
  apply nth_opt_In in E. unfold cell_offset. replace (sumN (firstn (S j) ws_) + N.of_nat (S j) - 1)
    with (0 + sumN (firstn (S j) ws_) + N.of_nat j) by lia. exact E.
Qed.

Lemma cell_widths_some_lt ws_ : forall cells colno cws,
  cell_widths false ws_ cells colno = Ok cws -> somes cws <> [] -> (N.to_nat colno < length ws_)%nat.
Proof.
  induction cells as [|c cells IH]; intros colno cws H Hne; cbn [cell_widths] in H.
  - ok_inv H. cbn [somes] in Hne. congruence.
  - bind_inv H cw_ H1. bind_inv H r H2.
    destruct (N.ltb_spec (N.of_nat (length ws_)) (colno + cell_colspan c)) as [|Hlen]; [discriminate|].
    ok_inv H1.
    destruct (N.ltb_spec 0 (sumN (firstn (N.to_nat (cell_colspan c)) (skipn (N.to_nat colno) ws_)))) as [Hp|Hz].
    + destruct (Nat.lt_ge_cases (N.to_nat colno) (length ws_)) as [Hlt|Hge]; [exact Hlt|].
      apply skipn_nil_iff in Hge. rewrite Hge in Hp. destruct (N.to_nat (cell_colspan c)); cbn in Hp; lia.
    + ok_inv H. cbn [somes] in Hne. specialize (IH _ _ H2 Hne). lia.
Qed.

(* every bar of a row of a side-by-side table whose columns are all positive stands on a
   boundary between two columns of the table: the boundaries used by the rows are taken from
   one common set (cells spanning several columns skip some) *)
Theorem cell_widths_bar_subset ws_ : Forall (fun w => 0 < w) ws_ -> forall cells colno cws,
  cell_widths false ws_ cells colno = Ok cws ->
  forall x, In x (bar_positions (somes cws) (cell_offset ws_ (N.to_nat colno))) ->
            In x (bar_positions ws_ 0).
Proof.
  intros Hpos. induction cells as [|c cells IH]; intros colno cws H x Hx; cbn [cell_widths] in H.
  - ok_inv H. destruct Hx.
  - bind_inv H cw_ H1. bind_inv H r H2.
    destruct (N.ltb_spec (N.of_nat (length ws_)) (colno + cell_colspan c)) as [|Hlen]; [discriminate|].
    ok_inv H1. pose proof (IH _ _ H2) as IH'.
    rewrite N2Nat.inj_add in IH'.
    rewrite (cell_offset_add ws_ (N.to_nat colno) (N.to_nat (cell_colspan c)) ltac:(lia)) in IH'.
    destruct (N.ltb_spec 0 (sumN (firstn (N.to_nat (cell_colspan c)) (skipn (N.to_nat colno) ws_)))) as [Hp|Hz].
    + bind_inv H w1 H3. bind_inv H w2 H4. ok_inv H.
      unfold uadd in H3. destruct (_ + cell_colspan c <=? usize_max); [|discriminate]. ok_inv H3.
      unfold usub in H4.
      destruct (N.leb_spec 1 (sumN (firstn (N.to_nat (cell_colspan c)) (skipn (N.to_nat colno) ws_))
                              + cell_colspan c)); [|discriminate]. ok_inv H4.
      cbn [somes] in Hx. destruct (somes r) as [|w' rest] eqn:Er; [destruct Hx|].
      change (bar_positions (?a :: w' :: rest) ?p) with ((p + a) :: bar_positions (w' :: rest) (p + a + 1)) in Hx.
      assert (Hc : 1 <= cell_colspan c).
      { destruct (N.eq_dec (cell_colspan c) 0) as [Ez|]; [|lia].
        rewrite Ez in Hp. change (N.to_nat 0) with 0%nat in Hp. cbn [firstn sumN] in Hp. lia. }
      destruct Hx as [<-|Hx].
      * pose proof (cell_widths_some_lt _ _ _ _ H2 ltac:(rewrite Er; discriminate)) as Hlt.
        pose proof (bar_at_boundary ws_ (N.to_nat colno + N.to_nat (cell_colspan c)) ltac:(lia)) as Hb.
        rewrite (cell_offset_add ws_ (N.to_nat colno) (N.to_nat (cell_colspan c)) ltac:(lia)) in Hb.
        match goal with |- In ?a _ => match type of Hb with In ?b _ => replace a with b by lia end end.
        exact Hb.
      * apply IH'.
        match goal with |- In x (bar_positions _ ?a) =>
          match type of Hx with In x (bar_positions _ ?b) => replace a with b by lia end end.
        exact Hx.
    + ok_inv H. cbn [somes] in Hx.
      destruct (N.eq_dec (cell_colspan c) 0) as [E0|Hne0].
      * rewrite E0 in IH'. change (N.to_nat 0) with 0%nat in IH'. cbn [firstn sumN] in IH'.
        apply IH'. match goal with |- In x (bar_positions _ ?a) =>
          match type of Hx with In x (bar_positions _ ?b) => replace a with b by lia end end. exact Hx.
      * exfalso.
        assert (Hne : skipn (N.to_nat colno) ws_ <> []).
        { intros Hn. apply skipn_nil_iff in Hn. lia. }
        assert (Hf : Forall (fun w => 0 < w) (skipn (N.to_nat colno) ws_)).
        { apply Forall_forall. intros w Hw. rewrite Forall_forall in Hpos. apply Hpos.
          rewrite <- (firstn_skipn (N.to_nat colno) ws_). apply in_or_app. right. exact Hw. }
        pose proof (sumN_firstn_pos _ (N.to_nat (cell_colspan c)) Hf Hne ltac:(lia)). lia.
Qed.

Corollary row_bars_on_column_boundaries ws_ cells cws sets :
  all_pos ws_ = true -> cell_widths false ws_ cells 0 = Ok cws -> map fst sets = somes cws ->
  forall x, In x (bar_positions (row_ws sets) 0) -> In x (bar_positions ws_ 0).
Proof.
  intros Hpos Hcws Hfst x Hx. unfold row_ws in Hx. rewrite Hfst in Hx.
  apply (cell_widths_bar_subset ws_ (all_pos_Forall _ Hpos) cells 0 cws Hcws x).
  change (N.to_nat 0) with 0%nat. rewrite cell_offset_0. exact Hx.
Qed.

(* ================================================================== *)
Print Assumptions table_render_horizontal.
Print Assumptions c05_table_regular.
Print Assumptions table_views_width.
Print Assumptions band_line_bars.
Print Assumptions row_text_cell.
Print Assumptions junction_rule_spec.
Print Assumptions junction_rule_glyph.
Print Assumptions table_views_junctions.
Print Assumptions collapsed_bottom_in.
Print Assumptions collapsed_top_in.
Print Assumptions collapsed_bottom_bars.
Print Assumptions rows_run_regular.
Print Assumptions rows_run_exact.
Print Assumptions table_layout_length.
Print Assumptions table_render_stacked.
Print Assumptions table_layout_fits.
Print Assumptions c06_column_nonzero.
Print Assumptions c06_text_column_positive.
Print Assumptions col_line_sets_padded.
Print Assumptions cell_widths_bar_subset.
Print Assumptions row_bars_on_column_boundaries.
Print Assumptions ex_c05_applies.
Print Assumptions ex9_stacked_applies.
Print Assumptions cex_junction_without_bar.
