(* Proofs/TableRows.v -- every table node that `process` builds went through `render_table_new` on rows
   with all colspans >= 1 (REACHABILITY of the hypothesis `pos_rows` of Proofs/TableRemap.v), hence
   `Panic 32` (the `unwrap` in RenderTable::new) is never the result of `process`.
   See the summary at the end of the file. *)
From Coq Require Import Lia ZifyN ZifyBool ZifyNat.
From Coq Require Import List NArith ZArith Bool.
Import ListNotations.
From H2T Require Import Base Tagged Wrap Sub Css Dom Render CssParse.
From H2T Require Proofs.CssTotal.
From H2T Require Import Proofs.RenderWidth Proofs.CascadeDom Proofs.Prune Proofs.DomRel Proofs.TableRemap.
Local Open Scope N_scope.
Local Arguments N.add : simpl never.
Local Arguments N.sub : simpl never.
Local Arguments N.leb : simpl never.
Local Arguments N.ltb : simpl never.
Local Arguments N.eqb : simpl never.
Local Arguments N.max : simpl never.
Local Arguments N.min : simpl never.

(* ------------------------------------------------------------------ *)
(* 1. the predicate                                                    *)
(* no unseparated columns: every column boundary 1..n is the end of some cell *)
Definition nosep (rows : list rrow) (n : N) : Prop :=
  forall k, 1 <= k -> k <= n -> exists r, In r rows /\ In k (new_ends r).

Definition info_ok (i : rinfo) : Prop :=
  match i with
  | ITable rows n => pos_rows rows /\ n = maxN (map row_num_cells rows) /\ nosep rows n
  | ITableBody rows => pos_rows rows
  | _ => True
  end.

(* recursively over the render tree (direct_kids of RenderWidth.v = children, including cell contents) *)
Inductive table_ok : rnode -> Prop :=
| table_ok_intro i s : info_ok i -> Forall table_ok (direct_kids i) -> table_ok (RN i s).

Lemma table_ok_inv i s : table_ok (RN i s) -> info_ok i /\ Forall table_ok (direct_kids i).
Proof. intros H. inversion H; subst. split; assumption. Qed.

Definition optok (o : option rnode) : Prop := match o with Some x => table_ok x | None => True end.

(* ------------------------------------------------------------------ *)
(* 2. insert_child / wrap_pseudo / post keep it                        *)
Lemma Forall_ins {A} (P : A -> Prop) b x l : P x -> Forall P l -> Forall P (ins b x l).
Proof.
  intros Hx Hl. unfold ins. destruct b; [constructor; assumption|].
  apply Forall_app. split; [exact Hl|constructor; [exact Hx|constructor]].
Qed.

Lemma ins_first_cell_kids b x cells :
  table_ok x -> Forall table_ok (flat_map cell_content cells) ->
  Forall table_ok (flat_map cell_content (ins_first_cell b x cells)).
Proof.
  intros Hx H. destruct cells as [|[n k s] cells]; [exact H|].
  cbn [ins_first_cell flat_map cell_content] in *. apply Forall_app in H. destruct H as [H1 H2].
  apply Forall_app. split; [apply Forall_ins; assumption|exact H2].
Qed.

Lemma ins_first_row_kids b x rows :
  table_ok x -> Forall table_ok (flat_map row_kids rows) ->
  Forall table_ok (flat_map row_kids (ins_first_row b x rows)).
Proof.
  intros Hx H. destruct rows as [|[cells st] rows]; [exact H|].
  cbn [ins_first_row flat_map] in *. apply Forall_app in H. destruct H as [H1 H2].
  apply Forall_app. split; [|exact H2]. unfold row_kids in *. cbn [row_cells] in *.
  apply ins_first_cell_kids; assumption.
Qed.

Lemma ins_first_cell_spans b x cells :
  map cell_colspan (ins_first_cell b x cells) = map cell_colspan cells.
Proof. destruct cells as [|[n k s] cells]; reflexivity. Qed.

Lemma ins_first_row_pos b x rows : pos_rows rows -> pos_rows (ins_first_row b x rows).
Proof.
  intros H. destruct rows as [|[cells st] rows]; [exact H|]. cbn [ins_first_row].
  inversion H as [|? ? H1 H2]; subst. constructor; [|exact H2]. cbn [row_cells] in *.
  destruct cells as [|[n k s] cells]; [exact H1|]. cbn [ins_first_cell].
  inversion H1 as [|? ? H3 H4]; subst. constructor; [exact H3|exact H4].
Qed.

Lemma ins_first_row_num b x rows :
  map row_num_cells (ins_first_row b x rows) = map row_num_cells rows.
Proof.
  destruct rows as [|[cells st] rows]; [reflexivity|]. cbn [ins_first_row map]. f_equal.
  unfold row_num_cells. cbn [row_cells]. destruct cells as [|[n k s] cells]; reflexivity.
Qed.

Lemma ins_first_row_nosep b x rows n : nosep rows n -> nosep (ins_first_row b x rows) n.
Proof.
  intros H k H1 H2. destruct (H k H1 H2) as (r & Hr & Hk).
  destruct rows as [|[cells st] rows]; [destruct Hr|]. cbn [ins_first_row].
  destruct Hr as [<-|Hr].
  - eexists. split; [left; reflexivity|]. unfold new_ends in *. cbn [row_cells] in *.
    rewrite ins_first_cell_spans. exact Hk.
  - exists r. split; [right; exact Hr|exact Hk].
Qed.

Lemma table_ok_new i : info_ok i -> direct_kids i = [] -> table_ok (rn_new i).
Proof. intros H1 H2. unfold rn_new. constructor; [exact H1|rewrite H2; constructor]. Qed.

Lemma table_ok_pair x y : table_ok x -> table_ok y -> table_ok (rn_new (IContainer [x; y])).
Proof.
  intros Hx Hy. unfold rn_new. constructor; [exact I|]. cbn [direct_kids]. repeat constructor; assumption.
Qed.

Lemma insert_child_ok x nd b : table_ok x -> table_ok nd -> table_ok (insert_child x nd b).
Proof.
  intros Hx Hn. destruct nd as [i st]. pose proof Hn as Hn0.
  apply table_ok_inv in Hn. destruct Hn as [Hi Hk].
  destruct i; cbn [insert_child];
    try (destruct b; apply table_ok_pair; assumption);
    try (constructor; [exact I|cbn [direct_kids] in *; apply Forall_ins; assumption]).
  - (* ITable *) destruct Hi as (Hp & Hn & Hs). constructor.
    + split; [apply ins_first_row_pos, Hp|]. split; [rewrite ins_first_row_num; exact Hn|].
      apply ins_first_row_nosep, Hs.
    + cbn [direct_kids] in *. apply ins_first_row_kids; assumption.
  - (* ITableBody *) constructor; [apply ins_first_row_pos, Hi|].
    cbn [direct_kids] in *. apply ins_first_row_kids; assumption.
  - (* ITableRow *) destruct r as [cells s]. constructor; [exact I|].
    cbn [direct_kids] in *. unfold row_kids in *. cbn [row_cells] in *.
    apply ins_first_cell_kids; assumption.
  - (* ITableCell *) destruct c as [n k s]. constructor; [exact I|].
    cbn [direct_kids cell_content] in *. apply Forall_ins; assumption.
Qed.

Lemma table_ok_text t : table_ok (rn_new (IText t)).
Proof. apply table_ok_new; [exact I|reflexivity]. Qed.
Lemma table_ok_frag f : table_ok (rn_new (IFragStart f)).
Proof. apply table_ok_new; [exact I|reflexivity]. Qed.

Lemma wrap_pseudo_ok computed n : table_ok n -> table_ok (wrap_pseudo computed n).
Proof.
  intros Hn. unfold wrap_pseudo.
  set (n1 := match cs_before computed with
             | Some c => match ws_val (c_content c) with
                         | Some t => insert_child (rn_new (IText (relabel L_deco t))) n true
                         | None => n
                         end
             | None => n
             end).
  assert (E1 : table_ok n1).
  { subst n1. destruct (cs_before computed) as [c|]; [|exact Hn].
    destruct (ws_val (c_content c)); [|exact Hn]. apply insert_child_ok; [apply table_ok_text|exact Hn]. }
  destruct (cs_after computed) as [c|]; [|exact E1].
  destruct (ws_val (c_content c)); [|exact E1]. apply insert_child_ok; [apply table_ok_text|exact E1].
Qed.

Lemma post_ok computed frag base : optok base -> optok (post computed frag base).
Proof.
  intros Hb. unfold post. destruct base as [b|]; destruct frag as [f|]; cbn [optok] in *.
  - apply insert_child_ok; [apply table_ok_frag|apply wrap_pseudo_ok, Hb].
  - apply wrap_pseudo_ok, Hb.
  - apply table_ok_frag.
  - exact I.
Qed.

(* ------------------------------------------------------------------ *)
(* 3. results: Ok values satisfy Q, panic sites satisfy S              *)
Section Safe.
  Variable S : N -> Prop.
  Hypothesis S30 : S 30.

  Definition safe {A} (Q : A -> Prop) (r : res A) : Prop :=
    match r with Ok x => Q x | Panic s => S s | _ => True end.

  Lemma safe_bind {A B} (Q : A -> Prop) (R : B -> Prop) (e : res A) (k : A -> res B) :
    safe Q e -> (forall x, Q x -> safe R (k x)) -> safe R (bind e k).
  Proof. destruct e; cbn [bind safe]; auto. Qed.

  (* ---- table bodies ---- *)
  Lemma row_count_err cells : forall hz n,
    (exists c, row_count cells hz n = Ok c) \/ row_count cells hz n = Panic 30.
  Proof.
    induction cells as [|c cells IH]; intros hz n; cbn [row_count]; [left; eexists; reflexivity|].
    unfold uadd. destruct (n + N.max (cell_colspan c) 1 <=? usize_max); cbn [bind]; [apply IH|right; reflexivity].
  Qed.
  Lemma rows_counts_err rows :
    (exists cs, rows_counts rows = Ok cs) \/ rows_counts rows = Panic 30.
  Proof.
    induction rows as [|r rows IH]; cbn [rows_counts]; [left; eexists; reflexivity|].
    destruct (row_count_err (row_cells r) false 0) as [(c & ->)| ->]; cbn [bind]; [|right; reflexivity].
    destruct IH as [(cs & ->)| ->]; cbn [bind]; [left; eexists; reflexivity|right; reflexivity].
  Qed.

  Lemma fix_zero_kids m r c : row_kids (fix_zero_colspan m r c) = row_kids r.
  Proof.
    unfold fix_zero_colspan. destruct (fst c); [|reflexivity]. destruct r as [cells s].
    unfold row_kids. cbn [row_cells]. induction cells as [|[n k st] cells IH]; [reflexivity|].
    cbn [map flat_map]. rewrite IH. destruct (n =? 0); reflexivity.
  Qed.
  Lemma map2_fix_kids m rows : forall counts, rows_counts rows = Ok counts ->
    flat_map row_kids (map2 (fix_zero_colspan m) rows counts) = flat_map row_kids rows.
  Proof.
    induction rows as [|r rows IH]; intros counts H; cbn [rows_counts] in H.
    - ok_inv H. reflexivity.
    - bind_inv H c Hc. bind_inv H cs Hcs. ok_inv H. cbn [map2 flat_map].
      rewrite fix_zero_kids, (IH _ Hcs). reflexivity.
  Qed.

  Lemma tbody_rows_safe rows :
    safe (fun rows' => pos_rows rows' /\ flat_map row_kids rows' = flat_map row_kids rows) (tbody_rows rows).
  Proof.
    destruct (tbody_rows rows) as [rows'| |s|] eqn:E; cbn [safe]; try exact I.
    - split; [eapply tbody_rows_pos; exact E|]. unfold tbody_rows in E. bind_inv E counts Hc. ok_inv E.
      apply map2_fix_kids, Hc.
    - unfold tbody_rows in E. destruct (rows_counts_err rows) as [(cs & Hc)|Hc]; rewrite Hc in E; cbn [bind] in E.
      + discriminate E.
      + injection E as <-. exact S30.
  Qed.

  (* ---- what the children contribute ---- *)
  Lemma bodies_ok cs : Forall table_ok cs ->
    let rows := flat_map (fun n => match rn_info n with ITableBody b => b | _ => [] end) cs in
    pos_rows rows /\ Forall table_ok (flat_map row_kids rows).
  Proof.
    cbv zeta. induction 1 as [|c cs Hc _ IH]; cbn [flat_map]; [split; constructor|].
    destruct IH as [IH1 IH2]. destruct c as [i s]. apply table_ok_inv in Hc. destruct Hc as [Hi Hk].
    destruct i; cbn [rn_info app]; try (split; assumption).
    cbn [info_ok direct_kids] in *. split; [apply pos_rows_app; assumption|].
    rewrite flat_map_app. apply Forall_app. split; assumption.
  Qed.
  Lemma trs_ok cs : Forall table_ok cs ->
    Forall table_ok (flat_map row_kids
       (flat_map (fun n => match rn_info n with ITableRow r => [r] | _ => [] end) cs)).
  Proof.
    induction 1 as [|c cs Hc _ IH]; cbn [flat_map]; [constructor|].
    destruct c as [i s]. apply table_ok_inv in Hc. destruct Hc as [Hi Hk].
    destruct i; cbn [rn_info app]; try assumption.
    cbn [direct_kids flat_map] in *. apply Forall_app. split; assumption.
  Qed.
  Lemma tds_ok cs : Forall table_ok cs ->
    Forall table_ok (flat_map cell_content
       (flat_map (fun n => match rn_info n with ITableCell c => [c] | _ => [] end) cs)).
  Proof.
    induction 1 as [|c cs Hc _ IH]; cbn [flat_map]; [constructor|].
    destruct c as [i s]. apply table_ok_inv in Hc. destruct Hc as [Hi Hk].
    destruct i; cbn [rn_info app]; try assumption.
    cbn [direct_kids flat_map] in *. apply Forall_app. split; assumption.
  Qed.

  Lemma shape_kids rows rows' : Forall2 shape rows rows' -> flat_map row_kids rows' = flat_map row_kids rows.
  Proof.
    induction 1 as [|r r' rows rows' Hr _ IH]; [reflexivity|]. cbn [flat_map]. rewrite IH. f_equal.
    destruct Hr as [_ [Hc _]]. unfold row_kids. rewrite !flat_map_concat_map, Hc. reflexivity.
  Qed.

  (* ---- RenderTable::new on rows with colspans >= 1 ---- *)
  Lemma render_table_new_safe rows computed :
    pos_rows rows -> Forall table_ok (flat_map row_kids rows) ->
    safe optok (do t <- render_table_new rows; Ok (Some (RN t computed))).
  Proof.
    intros Hp Hk. destruct (render_table_new_ok_or_overflow rows Hp) as [(rows' & n & H)|[_ H]];
      rewrite H; cbn [bind safe]; [|exact S30].
    cbn [optok]. constructor.
    - split; [eapply remapped_pos; eassumption|].
      split; [eapply render_table_new_shape; exact H|].
      destruct (remapped_surj rows rows' n Hp H) as (ps & Hps & Hs).
      destruct (remapped_ncols rows rows' n Hp H) as (ps' & Hps' & Hn).
      rewrite Hps in Hps'. injection Hps' as <-.
      intros k H1 H2. apply Hs; lia.
    - cbn [direct_kids]. destruct (render_table_new_shape _ _ _ H) as [Hsh _].
      rewrite (shape_kids _ _ Hsh). exact Hk.
  Qed.

  Lemma Forall_filter {A} (P : A -> Prop) f l : Forall P l -> Forall P (filter f l).
  Proof.
    induction 1 as [|x l Hx _ IH]; cbn [filter]; [constructor|]. destruct (f x); [constructor|]; assumption.
  Qed.

  Lemma base_of_safe k attrs computed cs :
    Forall table_ok cs -> safe optok (base_of k attrs computed cs).
  Proof.
    intros Hcs.
    assert (MK : forall i st, info_ok i -> direct_kids i = cs -> table_ok (RN i st)).
    { intros i st Hi Hk. constructor; [exact Hi|rewrite Hk; exact Hcs]. }
    destruct k; cbn [base_of]; unfold noempty_, mk_;
      try (cbn [safe optok]; apply MK; [exact I|reflexivity]);
      try (destruct cs; cbn [safe optok]; [exact I|apply MK; [exact I|reflexivity]]).
    - (* img *) destruct (img_attrs attrs None None) as [[?|] [?|]]; cbn [safe optok]; try exact I.
      constructor; [exact I|constructor].
    - (* br *) cbn [safe optok]. constructor; [exact I|constructor].
    - (* skip *) exact I.
    - (* a *) destruct (find_attr attrs s_href).
      + destruct (existsb _ cs); cbn [safe optok]; [apply MK; [exact I|reflexivity]|exact I].
      + cbn [safe optok]. apply MK; [exact I|reflexivity].
    - (* table *) destruct (bodies_ok cs Hcs) as [Hp Hk]. cbv zeta in Hp, Hk.
      pose proof (render_table_new_safe _ computed Hp Hk) as G.
      destruct (flat_map _ cs); [exact I|exact G].
    - (* thead / tbody *)
      assert (G : safe optok
        (do rows' <- tbody_rows (flat_map (fun n => match rn_info n with ITableRow r => [r] | _ => [] end) cs);
         Ok (Some (RN (ITableBody rows') computed)))).
      { eapply safe_bind; [apply tbody_rows_safe|]. intros rows' [Hp Hk]. cbn [safe optok].
        constructor; [exact Hp|]. cbn [direct_kids]. rewrite Hk. apply trs_ok, Hcs. }
      destruct cs; [exact I|exact G].
    - (* tr *) cbn [safe optok]. constructor; [exact I|]. cbn [direct_kids]. unfold row_kids. cbn [row_cells].
      apply tds_ok, Hcs.
    - (* ol *) destruct cs; cbn [safe optok]; [exact I|]. constructor; [exact I|]. cbn [direct_kids].
      unfold filter_info. apply Forall_filter, Hcs.
    - (* dl *) destruct cs; cbn [safe optok]; [exact I|]. constructor; [exact I|]. cbn [direct_kids].
      unfold filter_info. apply Forall_filter, Hcs.
  Qed.
End Safe.

(* ------------------------------------------------------------------ *)
(* 4. process                                                          *)
Section Process.
  Variable S : N -> Prop.
  Hypothesis S30 : S 30.
  Variable sd : styledata.
  Variable udc : bool.
  Variable inl : list (text * text) -> res (list styledecl).
  (* the css parser of the style attributes is a parameter of `process`: its panics are its own *)
  Hypothesis Hinl : forall a, safe S (fun _ => True) (inl a).

  Lemma pk_of_safe (proc : node -> Z -> res (option rnode)) : forall kids,
    Forall (fun k => forall i, safe S optok (proc k i)) kids ->
    forall i, safe S (Forall table_ok) (pk_of proc kids i).
  Proof.
    induction kids as [|k kids IH]; intros HF i; cbn [pk_of]; [constructor|].
    inversion HF as [|? ? Hk Hkids]; subst.
    eapply safe_bind; [apply Hk|]. intros r Hr.
    eapply safe_bind; [apply IH, Hkids|]. intros rs Hrs. cbn [safe].
    destruct r as [x|]; [constructor; assumption|exact Hrs].
  Qed.

  Lemma pbody_safe ri html name attrs me rk :
    safe S (fun _ => True) ri -> safe S (Forall table_ok) rk ->
    safe S optok (pbody sd ri html name attrs me rk).
  Proof.
    intros Hri Hrk. unfold pbody. eapply safe_bind; [exact Hri|]. intros inls _. cbv zeta.
    set (computed := computed_style sd me inls).
    assert (G : forall base : res (option rnode), safe S optok base ->
      safe S optok (do base0 <- base;
        match fragment_of name (html && names [[97]] name) attrs with
        | None => Ok match base0 with Some nd => Some (wrap_pseudo computed nd) | None => None end
        | Some frag =>
          match match base0 with Some nd => Some (wrap_pseudo computed nd) | None => None end with
          | None => Ok (Some (rn_new (IFragStart frag)))
          | Some nd => Ok (Some (insert_child (rn_new (IFragStart frag)) nd true))
          end
        end)).
    { intros base Hb. eapply safe_bind; [exact Hb|]. intros b0 Hb0.
      pose proof (post_ok computed (fragment_of name (html && names [[97]] name) attrs) b0 Hb0) as HP.
      unfold post in HP. destruct (fragment_of name (html && names [[97]] name) attrs); [|exact HP].
      destruct b0; exact HP. }
    assert (B : safe S optok
      (if negb html then
         do cs <- rk;
         match cs with [] => Ok None | _ => Ok (Some (RN (IContainer cs) computed)) end
       else if names [[105;109;103]] name then
         match img_attrs attrs None None with
         | (Some title, Some src) => Ok (Some (RN (IImg src title) computed))
         | _ => Ok None
         end
       else if names [[98;114]] name then Ok (Some (RN IBreak computed))
       else if names [[108;105;110;107]; [109;101;116;97]; [104;114]; [115;99;114;105;112;116];
                      [115;116;121;108;101]; [104;101;97;100]] name then Ok None
       else do cs <- rk; build_element name attrs computed cs)).
    { destruct html; cbn [negb].
      - rewrite html_base_eq. destruct (kind_leaf (kind_of name)).
        + apply base_of_safe; [exact S30|constructor].
        + eapply safe_bind; [exact Hrk|]. intros cs Hcs. apply base_of_safe; assumption.
      - eapply safe_bind; [exact Hrk|]. intros cs Hcs. destruct cs; [exact I|].
        cbn [safe optok]. constructor; [exact I|exact Hcs]. }
    destruct (ws_val (c_display (cs_core computed))) as [[|]|]; [exact I| |]; apply G, B.
  Qed.

  Theorem process_safe : forall n p idx, safe S optok (process sd udc inl n p idx).
  Proof.
    induction n as [html name attrs kids IH|t| |] using node_ind'; intros p idx.
    - rewrite process_eq. apply pbody_safe.
      + destruct udc; [apply Hinl|exact I].
      + apply pk_of_safe. rewrite Forall_forall in *. intros k Hk i. apply IH, Hk.
    - cbn [Dom.process safe optok]. apply table_ok_text.
    - exact I.
    - exact I.
  Qed.

  Theorem process_kids_safe kids p idx : safe S (Forall table_ok) (process_kids sd udc inl kids p idx).
  Proof.
    rewrite process_kids_eq. apply pk_of_safe. rewrite Forall_forall. intros k _ i. apply process_safe.
  Qed.

  Theorem dom_to_render_tree_safe doc : safe S table_ok (dom_to_render_tree sd udc inl doc).
  Proof.
    unfold dom_to_render_tree. eapply safe_bind; [apply process_kids_safe|]. intros cs Hcs.
    cbn [safe]. unfold rn_new. constructor; [exact I|exact Hcs].
  Qed.
End Process.

(* ------------------------------------------------------------------ *)
(* 5. MAIN THEOREMS (part 1)                                           *)
(* sub-nodes of a render tree (reflexive, through children and cell contents) *)
Inductive subnode : rnode -> rnode -> Prop :=
| sub_refl n : subnode n n
| sub_kid x c i s : In c (direct_kids i) -> subnode x c -> subnode x (RN i s).

(* reading of table_ok: every table / table body anywhere in the tree is well formed *)
Theorem table_ok_sub t : table_ok t -> forall x, subnode x t -> info_ok (rn_info x).
Proof.
  intros Ht x Hs. induction Hs as [n|x c i s Hin _ IH].
  - destruct n as [i s]. apply table_ok_inv in Ht. apply Ht.
  - apply IH. apply table_ok_inv in Ht. destruct Ht as [_ Hk]. rewrite Forall_forall in Hk. apply Hk, Hin.
Qed.
Theorem table_ok_tables t : table_ok t -> forall rows n s, subnode (RN (ITable rows n) s) t ->
  pos_rows rows /\ n = maxN (map row_num_cells rows) /\
  (forall k, 1 <= k -> k <= n -> exists r, In r rows /\ In k (new_ends r)).
Proof. intros Ht rows n s Hs. exact (table_ok_sub t Ht _ Hs). Qed.
Theorem table_ok_bodies t : table_ok t -> forall rows s, subnode (RN (ITableBody rows) s) t -> pos_rows rows.
Proof. intros Ht rows s Hs. exact (table_ok_sub t Ht _ Hs). Qed.

(* 1a. REACHABILITY: no hypothesis on the document, the style data, the style-attribute parser *)
Theorem process_table_ok sd udc inl n p idx t :
  process sd udc inl n p idx = Ok (Some t) -> table_ok t.
Proof.
  intros H. pose proof (process_safe (fun _ => True) I sd udc inl) as G.
  specialize (G ltac:(intros a; destruct (inl a); exact I) n p idx). rewrite H in G. exact G.
Qed.
Print Assumptions process_table_ok.

Theorem process_kids_table_ok sd udc inl kids p idx cs :
  process_kids sd udc inl kids p idx = Ok cs -> Forall table_ok cs.
Proof.
  intros H. pose proof (process_kids_safe (fun _ => True) I sd udc inl) as G.
  specialize (G ltac:(intros a; destruct (inl a); exact I) kids p idx). rewrite H in G. exact G.
Qed.

Theorem dom_to_render_tree_table_ok sd udc inl doc t :
  dom_to_render_tree sd udc inl doc = Ok t -> table_ok t.
Proof.
  intros H. pose proof (dom_to_render_tree_safe (fun _ => True) I sd udc inl) as G.
  specialize (G ltac:(intros a; destruct (inl a); exact I) doc). rewrite H in G. exact G.
Qed.
Print Assumptions dom_to_render_tree_table_ok.

(* 1b. Panic 32 (colmap.get(&nextpos).unwrap() in RenderTable::new) is never the result.
   Hypothesis: the parser of style attributes, a parameter of `process`, does not itself return
   Panic 32 (needed: `process` passes its failures on unchanged). *)
Theorem process_no_panic32 sd udc inl :
  (forall a, inl a <> Panic 32) ->
  forall n p idx, process sd udc inl n p idx <> Panic 32.
Proof.
  intros Hinl n p idx H.
  pose proof (process_safe (fun s => s <> 32) ltac:(cbv beta; lia) sd udc inl) as G.
  assert (Hi : forall a, safe (fun s => s <> 32) (fun _ : list styledecl => True) (inl a)).
  { intros a. specialize (Hinl a). destruct (inl a); cbn [safe]; try exact I. intros ->. apply Hinl. reflexivity. }
  specialize (G Hi n p idx). rewrite H in G. cbn [safe] in G. apply G. reflexivity.
Qed.
Print Assumptions process_no_panic32.

Theorem dom_to_render_tree_no_panic32 sd udc inl :
  (forall a, inl a <> Panic 32) ->
  forall doc, dom_to_render_tree sd udc inl doc <> Panic 32.
Proof.
  intros Hinl doc H.
  pose proof (dom_to_render_tree_safe (fun s => s <> 32) ltac:(cbv beta; lia) sd udc inl) as G.
  assert (Hi : forall a, safe (fun s => s <> 32) (fun _ : list styledecl => True) (inl a)).
  { intros a. specialize (Hinl a). destruct (inl a); cbn [safe]; try exact I. intros ->. apply Hinl. reflexivity. }
  specialize (G Hi doc). rewrite H in G. cbn [safe] in G. apply G. reflexivity.
Qed.
Print Assumptions dom_to_render_tree_no_panic32.

(* the parser of the model (CssParse.inline_styles) is total (Proofs/CssTotal.v): no hypothesis left *)
Theorem process_no_panic32_real sd udc n p idx :
  process sd udc CssParse.inline_styles n p idx <> Panic 32.
Proof.
  apply process_no_panic32. intros a H. destruct (CssTotal.c17_inline_total a) as (l & Hl).
  rewrite Hl in H. discriminate H.
Qed.
Print Assumptions process_no_panic32_real.
Theorem dom_to_render_tree_no_panic32_real sd udc doc :
  dom_to_render_tree sd udc CssParse.inline_styles doc <> Panic 32.
Proof.
  apply dom_to_render_tree_no_panic32. intros a H. destruct (CssTotal.c17_inline_total a) as (l & Hl).
  rewrite Hl in H. discriminate H.
Qed.
Print Assumptions dom_to_render_tree_no_panic32_real.

(* ------------------------------------------------------------------ *)
(* 6. non-vacuity                                                      *)
Module TableRowsExamples.
Import PruneExamples.
Import String Ascii.
Local Open Scope string_scope.
Definition procT (n : node) := process styledata0 true CssParse.inline_styles n [] 1%Z.
Definition inner : node :=
  el "table" [] [el "tr" [] [el "td" [] [tx "lost"]];
                 el "tbody" [] [el "tr" [] [el "td" [("colspan", "0")] [tx "i"]]]].
Definition doc_tbl : node :=
  el "table" [("id", "T")]
    [el "thead" [] [el "tr" [] [el "th" [("colspan", "0")] [tx "h"]; el "th" [("colspan", "3")] [tx "k"]]];
     el "tbody" [("id", "B")]
        [el "tr" [] [el "td" [("colspan", "0")] [tx "a"]; el "td" [] [inner]];
         el "tr" [] [el "td" [] [tx "b"]; el "td" [("colspan", "3")] [tx "c"]; el "td" [] [tx "d"]]]].
Definition tbl_spans (r : res (option rnode)) : option (list (list N) * N) :=
  match r with
  | Ok (Some (RN (ITable rows n) _)) => Some (map (fun r => map cell_colspan (row_cells r)) rows, n)
  | _ => None
  end.
Example ex_spans : tbl_spans (procT doc_tbl) = Some ([[1; 1]; [2; 1]; [1; 1; 1]], 3)
                /\ tbl_spans (procT inner) = Some ([[1]], 1).
Proof. vm_compute. split; reflexivity. Qed.
(* the theorem applied: the whole tree (outer table, the table nested in a cell) is table_ok *)
Example ex_table_ok : match procT doc_tbl with Ok (Some t) => table_ok t | _ => False end.
Proof.
  destruct (procT doc_tbl) as [[t|]| | |] eqn:E; try (vm_compute in E; discriminate E).
  eapply process_table_ok. exact E.
Qed.
Example ex_no_panic : procT doc_tbl <> Panic 32.
Proof. apply process_no_panic32_real. Qed.
(* the constructor alone, on the same thead row without the tbody pass, does panic *)
Example ex_raw_panics : render_table_new [TableRemap.tr [0; 3]] = Panic 32.
Proof. vm_compute. reflexivity. Qed.
End TableRowsExamples.

(* ------------------------------------------------------------------ *)
(* 7. IDEMPOTENCE of render_table_new (part 2)                         *)
Lemma rank_le_gen l : forall x b, ssorted l -> (forall z, In z l -> b <= z) -> rank x l <= x - b.
Proof.
  induction l as [|y l IH]; intros x b Hs Hb; [rewrite rank_nil; lia|].
  destruct Hs as [Hy Hl]. rewrite rank_cons. pose proof (Hb y (or_introl eq_refl)) as Hby.
  destruct (y <? x) eqn:E.
  - assert (H1 : rank x l <= x - (y + 1)).
    { apply IH; [exact Hl|]. intros z Hz. specialize (Hy z Hz). lia. }
    lia.
  - rewrite rank_zero_below; [lia|]. intros z Hz. specialize (Hy z Hz). lia.
Qed.
Lemma rank_le l x : ssorted l -> rank x l <= x.
Proof. intros Hs. pose proof (rank_le_gen l x 0 Hs ltac:(intros; lia)). lia. Qed.

(* a strictly sorted list whose elements are exactly 0..L-1 ranks every x < L at x *)
Lemma rank_full l L : ssorted l -> (forall k, In k l <-> k < L) -> forall x, x < L -> rank x l = x.
Proof.
  intros Hs Hin x. induction x as [|x IH] using N.peano_ind; intros Hx; [apply rank_0|].
  pose proof (rank_le l (N.succ x) Hs) as Hle.
  assert (Hlt : rank x l < rank (N.succ x) l) by (apply rank_strict; [apply Hin; lia|lia]).
  rewrite IH in Hlt by lia. lia.
Qed.

Lemma ends_inj l : forall l' s, ends l s = ends l' s -> l = l'.
Proof.
  induction l as [|x l IH]; intros [|x' l'] s H; cbn [ends] in H; try discriminate H; [reflexivity|].
  injection H as H1 H2. assert (x = x') by lia. subst x'. f_equal. eapply IH. exact H2.
Qed.

Lemma row_positions_ok cells : forall col,
  (forall e, In e (ends (map cell_colspan cells) col) -> e <= usize_max) ->
  row_positions cells col = Ok (ends (map cell_colspan cells) col).
Proof.
  induction cells as [|c cells IH]; intros col H; cbn [row_positions map ends]; [reflexivity|].
  cbn [map ends] in H. unfold uadd. pose proof (H _ (or_introl eq_refl)) as H1.
  destruct (col + cell_colspan c <=? usize_max) eqn:E; [|lia]. cbn [bind].
  rewrite IH; [reflexivity|]. intros e He. apply H. right. exact He.
Qed.
Lemma all_positions_ok rows :
  (forall r e, In r rows -> In e (new_ends r) -> e <= usize_max) ->
  exists ps, all_positions rows = Ok ps.
Proof.
  induction rows as [|r rows IH]; intros H; cbn [all_positions]; [eexists; reflexivity|].
  rewrite row_positions_ok; [|intros e He; apply (H r e (or_introl eq_refl) He)]. cbn [bind].
  destruct IH as (ps & ->); [intros r0 e Hr; apply H; right; exact Hr|]. cbn [bind]. eexists. reflexivity.
Qed.

Lemma Forall2_impl_in {A B} (P Q : A -> B -> Prop) l l' :
  Forall2 P l l' -> (forall a b, In a l -> In b l' -> P a b -> Q a b) -> Forall2 Q l l'.
Proof.
  induction 1 as [|a b l l' Hab _ IH]; intros H; constructor.
  - apply H; [left; reflexivity|left; reflexivity|exact Hab].
  - apply IH. intros a0 b0 Ha Hb. apply H; right; assumption.
Qed.
Lemma Forall2_flip {A B} (P : A -> B -> Prop) l l' : Forall2 P l l' -> Forall2 (fun b a => P a b) l' l.
Proof. induction 1; constructor; assumption. Qed.

Lemma cells_eq cells : forall cells',
  map cell_colspan cells' = map cell_colspan cells -> map cell_content cells' = map cell_content cells ->
  map cell_style cells' = map cell_style cells -> cells' = cells.
Proof.
  induction cells as [|[n k s] cells IH]; intros [|[n' k' s'] cells'] H1 H2 H3; cbn [map] in *;
    try discriminate; [reflexivity|].
  cbn [cell_colspan cell_content cell_style] in *.
  injection H1 as -> H1. injection H2 as -> H2. injection H3 as -> H3. f_equal. apply IH; assumption.
Qed.
Lemma rows_eq rows rows' :
  Forall2 shape rows rows' ->
  Forall2 (fun r r' => map cell_colspan (row_cells r') = map cell_colspan (row_cells r)) rows rows' ->
  rows' = rows.
Proof.
  induction 1 as [|r r' rows rows' Hr _ IH]; intros H2; [reflexivity|].
  inversion H2 as [|? ? ? ? Hc H2']; subst. f_equal; [|apply IH, H2'].
  destruct r as [cells s], r' as [cells' s']. destruct Hr as [Hs [Hk Hst]]. cbn [row_style row_cells] in *.
  subst s'. f_equal. apply cells_eq; assumption.
Qed.

Theorem render_table_new_idem rows rows' n :
  pos_rows rows -> render_table_new rows = Ok (ITable rows' n) ->
  render_table_new rows' = Ok (ITable rows' n).
Proof.
  intros Hp H.
  destruct (render_table_new_positions rows rows' n Hp H) as (ps & Hps & Hs & _ & Hin & Hsh & HF).
  cbv zeta in *. set (S := table_set ps) in *.
  assert (Hp' : pos_rows rows') by (eapply remapped_pos; eassumption).
  assert (H0S : In 0 S) by (apply Hin; left; reflexivity).
  pose proof (rank_lt_len 0 S H0S) as HL. rewrite rank_0 in HL.
  assert (Hold : forall r', In r' rows' -> old_ends r' = new_ends r').
  { intros r' Hr'. unfold old_ends, new_ends. rewrite pos_ospan; [reflexivity|].
    unfold pos_rows in Hp'. rewrite Forall_forall in Hp'. apply Hp', Hr'. }
  assert (Hnew : forall r' e, In r' rows' -> In e (new_ends r') ->
             exists e0, In e0 S /\ e = rank e0 S /\ e0 <= usize_max).
  { intros r' e Hr' He.
    destruct (Forall2_nth_pair _ _ _ (Forall2_flip _ _ _ HF) r' Hr') as (r & Hr & (Hends & _)).
    rewrite Hends in He. apply in_map_iff in He. destruct He as (e0 & <- & He0).
    exists e0. split; [apply Hin; right; eauto|]. split; [reflexivity|].
    eapply all_positions_le; [exact Hps|]. apply (all_positions_in rows ps Hps Hp e0). eauto. }
  destruct (all_positions_ok rows') as (ps2 & Hps2).
  { intros r' e Hr' He. destruct (Hnew r' e Hr' He) as (e0 & _ & -> & Hle).
    pose proof (rank_le S e0 Hs). lia. }
  destruct (render_table_new_total rows' ps2 Hp' Hps2) as (rows'' & H2 & HF2).
  set (S2 := table_set ps2) in *.
  assert (Hs2 : ssorted S2) by apply sorted_set_ssorted.
  assert (Hin2 : forall k, In k S2 <-> k < len S).
  { intros k. unfold S2. rewrite (table_set_in rows' ps2 Hps2 Hp' k). split.
    - intros [->|(r' & Hr' & He)]; [exact HL|]. rewrite (Hold r' Hr') in He.
      destruct (Hnew r' k Hr' He) as (e0 & He0 & -> & _). apply rank_lt_len, He0.
    - intros Hk. destruct (N.eq_dec k 0) as [->|Hk0]; [left; reflexivity|]. right.
      destruct (remapped_surj rows rows' n Hp H) as (ps' & Hps' & Hsurj).
      rewrite Hps in Hps'. injection Hps' as <-.
      destruct (Hsurj k ltac:(lia) Hk) as (r' & Hr' & He). exists r'. split; [exact Hr'|].
      rewrite (Hold r' Hr'). exact He. }
  assert (E : rows'' = rows').
  { apply rows_eq; [eapply render_table_new_shape; exact H2|].
    eapply Forall2_impl_in; [exact HF2|]. intros r' r'' Hr' _ (Hends & _).
    rewrite (Hold r' Hr') in Hends.
    assert (Hid : map (fun e => rank e S2) (new_ends r') = new_ends r').
    { rewrite <- (map_id (new_ends r')) at 2. apply map_ext_in. intros e He.
      apply (rank_full S2 (len S) Hs2 Hin2). apply Hin2. unfold S2.
      apply (table_set_in rows' ps2 Hps2 Hp' e). right. exists r'. split; [exact Hr'|].
      rewrite (Hold r' Hr'). exact He. }
    rewrite Hid in Hends. unfold new_ends in Hends. eapply ends_inj. exact Hends. }
  rewrite E in H2. rewrite H2. destruct (render_table_new_shape _ _ _ H) as [_ ->]. reflexivity.
Qed.
Print Assumptions render_table_new_idem.

Example ex_idem_thm :
  forall rows' n, render_table_new [TableRemap.tr [1000; 1]; TableRemap.tr [3; 7; 5]] = Ok (ITable rows' n) ->
  render_table_new rows' = Ok (ITable rows' n) /\
  map (fun r => map cell_colspan (row_cells r)) rows' = [[4; 1]; [1; 1; 1]] /\ n = 5.
Proof.
  intros rows' n H. split.
  - eapply render_table_new_idem; [|exact H]. unfold pos_rows, pos_cells, TableRemap.tr, tc. cbn [map row_cells].
    repeat (constructor; cbn [cell_colspan]; try lia).
  - vm_compute in H. injection H as <- <-. vm_compute. split; reflexivity.
Qed.

(* the table of the example document is a fixed point of the constructor (idempotence, concretely;
   the fragment marker of id="T" sits in the first cell and does not matter) *)
Example ex_fixed_point :
  match TableRowsExamples.procT TableRowsExamples.doc_tbl with
  | Ok (Some (RN (ITable rows n) _)) => render_table_new rows = Ok (ITable rows n)
  | _ => False
  end.
Proof. vm_compute. reflexivity. Qed.

(* SUMMARY
   table_ok t  :=  for every node of the render tree t (children and cell contents, `direct_kids`):
                   ITable rows n   -> pos_rows rows /\ n = maxN (map row_num_cells rows) /\ nosep rows n
                   ITableBody rows -> pos_rows rows
   (table_ok_sub / table_ok_tables / table_ok_bodies read it through `subnode`.)
   PART 1
   process_table_ok, process_kids_table_ok, dom_to_render_tree_table_ok : NO hypothesis (any document,
       style data, use_doc_css flag, style-attribute parser): Ok results are table_ok.
   process_no_panic32, dom_to_render_tree_no_panic32 : hypothesis `forall a, inl a <> Panic 32` on the
       style-attribute parser, which is a parameter of `process` whose failures are passed on unchanged;
       process_no_panic32_real / dom_to_render_tree_no_panic32_real discharge it for CssParse.inline_styles
       (total by CssTotal.c17_inline_total).
   Generic form: process_safe (Section Process): for any set S of panic sites containing 30, if the
       parser only panics in S then so does `process`, and Ok results are table_ok.  (So the only panic
       site of the DOM -> render tree step itself is 30, the checked additions of colspans.)
   The tables in the tree are the constructor's output up to `insert_child`, which puts ::before/::after
   text and the fragment marker of id= into the first cell of the first row (colspans untouched).
   PART 2
   render_table_new_idem : pos_rows rows -> render_table_new rows = Ok (ITable rows' n) ->
                           render_table_new rows' = Ok (ITable rows' n).          (fully proved) *)
