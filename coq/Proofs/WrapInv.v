(* WrapInv.v -- an inductive invariant of the WrappedBlock model (Wrap.v):
   no Panic / OutOfFuel, and every finished line fits the width unless
   allow_overflow is set.  No axioms. *)
From H2T Require Import Base Tagged Wrap.
From Coq Require Import Lia ZifyN ZifyBool ZifyNat.

Local Arguments N.add : simpl never.
Local Arguments N.sub : simpl never.
Local Arguments N.mul : simpl never.
Local Arguments N.div : simpl never.
Local Arguments N.modulo : simpl never.
Local Arguments N.leb : simpl never.
Local Arguments N.ltb : simpl never.
Local Arguments N.eqb : simpl never.
Local Arguments N.min : simpl never.
Local Arguments N.max : simpl never.
Local Arguments N.to_nat : simpl never.
Local Arguments N.of_nat : simpl never.
Local Open Scope N_scope.

(* ------------------------------------------------------------------ *)
(* Outcome predicate: Ok results satisfy P, TooNarrow only when overflow is
   not allowed, never Panic / OutOfFuel. *)
Definition good {A} (ovf : bool) (P : A -> Prop) (r : res A) : Prop :=
  match r with
  | Ok a => P a
  | TooNarrow => ovf = false
  | Panic _ => False
  | OutOfFuel => False
  end.

Lemma good_bind {A B} ovf (P : A -> Prop) (Q : B -> Prop) (r : res A) (f : A -> res B) :
  good ovf P r -> (forall a, P a -> good ovf Q (f a)) -> good ovf Q (bind r f).
Proof. destruct r; cbn; auto. Qed.

Lemma good_mono {A} ovf (P Q : A -> Prop) (r : res A) :
  good ovf P r -> (forall a, P a -> Q a) -> good ovf Q r.
Proof. destruct r; cbn; auto. Qed.

Lemma good_ok {A} ovf (P : A -> Prop) (a : A) : P a -> good ovf P (Ok a).
Proof. exact (fun H => H). Qed.

Lemma usub_ok site a b : b <= a -> usub site a b = Ok (a - b).
Proof. intros H. unfold usub. destruct (N.leb_spec b a); [reflexivity | lia]. Qed.

(* ------------------------------------------------------------------ *)
(* Widths of strings and element vectors *)

Definition vw (v : list elem) : N := sumN (map (fun e => swidth (elem_text e)) v).

Lemma raw_eq l : tl_width_raw l = vw (tv l).
Proof. reflexivity. Qed.

Lemma swidth_nil : swidth [] = 0.
Proof. reflexivity. Qed.
Lemma swidth_cons c s : swidth (c :: s) = cw0 c + swidth s.
Proof. reflexivity. Qed.
Lemma swidth_app a b : swidth (a ++ b) = swidth a + swidth b.
Proof. induction a as [|c a IH]; cbn [app]; rewrite ?swidth_nil, ?swidth_cons; lia. Qed.

Lemma vw_nil : vw [] = 0.
Proof. reflexivity. Qed.
Lemma vw_cons e v : vw (e :: v) = swidth (elem_text e) + vw v.
Proof. reflexivity. Qed.
Lemma vw_app a b : vw (a ++ b) = vw a + vw b.
Proof. induction a as [|e a IH]; cbn [app]; rewrite ?vw_nil, ?vw_cons; lia. Qed.

Lemma v_push_merge_cons2 e e' v s t :
  v_push_merge (e :: e' :: v) s t = e :: v_push_merge (e' :: v) s t.
Proof. reflexivity. Qed.

Lemma vw_push_merge v s t : vw (v_push_merge v s t) = vw v + swidth s.
Proof.
  induction v as [|e v IH].
  - cbn [v_push_merge]. rewrite vw_cons, vw_nil. cbn [elem_text]. lia.
  - destruct v as [|e' v].
    + cbn [v_push_merge]. destruct e as [s0 t0|n].
      * destruct (tag_eqb t0 t); rewrite ?vw_cons, ?vw_nil; cbn [elem_text];
          rewrite ?swidth_app; lia.
      * rewrite ?vw_cons, ?vw_nil; cbn [elem_text]; lia.
    + rewrite v_push_merge_cons2, vw_cons, IH, (vw_cons e). lia.
Qed.

Lemma content_push_merge v s t : existsb elem_has_content (v_push_merge v s t) = true.
Proof.
  induction v as [|e v IH].
  - reflexivity.
  - destruct v as [|e' v].
    + cbn [v_push_merge]. destruct e as [s0 t0|n]; [destruct (tag_eqb t0 t)|]; reflexivity.
    + rewrite v_push_merge_cons2. cbn [existsb]. rewrite IH. apply orb_true_r.
Qed.

Lemma no_content_vw v : existsb elem_has_content v = false -> vw v = 0.
Proof.
  induction v as [|e v IH]; intros H.
  - reflexivity.
  - cbn [existsb] in H. apply orb_false_iff in H. destruct H as [He Hv].
    rewrite vw_cons, (IH Hv). destruct e; cbn in He; [discriminate|]. cbn [elem_text].
    rewrite swidth_nil. lia.
Qed.

Lemma word_is_empty_vw v : word_is_empty v = true -> vw v = 0.
Proof.
  unfold word_is_empty. intros H. apply no_content_vw.
  destruct (existsb elem_has_content v); [discriminate|reflexivity].
Qed.

Lemma tl_is_empty_raw l : tl_is_empty l = true -> tl_width_raw l = 0.
Proof. rewrite raw_eq. apply word_is_empty_vw. Qed.

Lemma swidth_spacesl lb n : swidth (spacesl lb n) = n.
Proof.
  unfold spacesl. rewrite <- (N2Nat.id n) at 2.
  induction (N.to_nat n) as [|k IH]; cbn [repeat_chr].
  - reflexivity.
  - rewrite swidth_cons, IH. unfold cw0, spacel. cbn [cw]. lia.
Qed.

(* ------------------------------------------------------------------ *)
(* What the TaggedLine operations do to tlen_ and to the recomputed width *)

Lemma tlen_push_str l s t : tlen_ (tl_push_str l s t) = tlen_ l + swidth s.
Proof. destruct s; cbn [tl_push_str tlen_]; rewrite ?swidth_nil; lia. Qed.

Lemma raw_push_str l s t : tl_width_raw (tl_push_str l s t) = tl_width_raw l + swidth s.
Proof.
  destruct s as [|c s].
  - cbn [tl_push_str]. rewrite swidth_nil. lia.
  - cbn [tl_push_str]. rewrite !raw_eq. cbn [tv]. apply vw_push_merge.
Qed.

Lemma tlen_push l e : tlen_ (tl_push l e) = tlen_ l + swidth (elem_text e).
Proof.
  destruct e as [s t|n]; cbn [tl_push elem_text].
  - apply tlen_push_str.
  - cbn [tlen_]. rewrite swidth_nil. lia.
Qed.

Lemma raw_push l e : tl_width_raw (tl_push l e) = tl_width_raw l + swidth (elem_text e).
Proof.
  destruct e as [s t|n]; cbn [tl_push elem_text].
  - apply raw_push_str.
  - rewrite !raw_eq. cbn [tv]. rewrite vw_app, vw_cons, vw_nil. cbn [elem_text].
    rewrite swidth_nil. lia.
Qed.

Lemma tlen_fold_push els : forall l, tlen_ (fold_left tl_push els l) = tlen_ l + vw els.
Proof.
  induction els as [|e els IH]; intros l; cbn [fold_left].
  - rewrite vw_nil. lia.
  - rewrite IH, tlen_push, vw_cons. lia.
Qed.

Lemma raw_fold_push els : forall l,
  tl_width_raw (fold_left tl_push els l) = tl_width_raw l + vw els.
Proof.
  induction els as [|e els IH]; intros l; cbn [fold_left].
  - rewrite vw_nil. lia.
  - rewrite IH, raw_push, vw_cons. lia.
Qed.

Lemma tlen_push_char l c t : tlen_ (tl_push_char l c t) = tlen_ l + cw0 c.
Proof. reflexivity. Qed.

Lemma raw_push_char l c t : tl_width_raw (tl_push_char l c t) = tl_width_raw l + cw0 c.
Proof.
  unfold tl_push_char. rewrite !raw_eq. cbn [tv]. rewrite vw_push_merge.
  rewrite swidth_cons, swidth_nil. lia.
Qed.

Lemma tlen_push_wsl lb l n t : tlen_ (tl_push_wsl lb l n t) = tlen_ l + n.
Proof. unfold tl_push_wsl. rewrite tlen_push_str, swidth_spacesl. reflexivity. Qed.

Lemma raw_push_wsl lb l n t : tl_width_raw (tl_push_wsl lb l n t) = tl_width_raw l + n.
Proof. unfold tl_push_wsl. rewrite raw_push_str, swidth_spacesl. reflexivity. Qed.

Lemma tl_width_ok l : tlen_ l = tl_width_raw l -> tl_width l = Ok (tl_width_raw l).
Proof. intros H. unfold tl_width. rewrite H, N.eqb_refl. reflexivity. Qed.

Lemma tl_pad_to_spec l W t :
  tlen_ l = tl_width_raw l ->
  exists l', tl_pad_to l W t = Ok l' /\ tlen_ l' = tl_width_raw l' /\
             tl_width_raw l' = N.max (tl_width_raw l) W.
Proof.
  intros H. unfold tl_pad_to. rewrite (tl_width_ok l H). cbn [bind].
  destruct (N.ltb_spec (tl_width_raw l) W) as [Hlt|Hge].
  - eexists. split; [reflexivity|]. rewrite tlen_push_wsl, raw_push_wsl. lia.
  - eexists. split; [reflexivity|]. lia.
Qed.

(* ------------------------------------------------------------------ *)
(* The invariant *)

(* a line under construction: length field exact and within the width *)
Definition line_ok (W : N) (l : tline) : Prop :=
  tlen_ l = tl_width_raw l /\ tlen_ l <= W.

(* a finished line: length field exact; within the width unless overflow allowed *)
Definition fin_ok (W : N) (ovf : bool) (l : tline) : Prop :=
  tlen_ l = tl_width_raw l /\ (ovf = false -> tl_width_raw l <= W).

(* every character has a display width *)
Definition has_width (s : text) : Prop := Forall (fun c => cw c <> None) s.

(* every character c of every Str in v has cw c <> None *)
Definition elems_have_width (v : list elem) : Prop :=
  Forall (fun e => has_width (elem_text e)) v.

(* sum of swidth of the Str elements (a Frag has empty text) *)
Definition word_width (v : list elem) : N := vw v.

Definition Inv (b : wblock) : Prop :=
  1 <= wwidth b /\
  line_ok (wwidth b) (wline b) /\
  (forall l, In l (wtext b) ->
     tlen_ l = tl_width_raw l /\
     (allow_overflow b = false -> tl_width_raw l <= wwidth b)) /\
  wordlen b = word_width (wword b) /\
  (0 < wslen b -> spacetag b <> None) /\
  elems_have_width (wword b).

(* the part of Inv that does not mention the pending word *)
Definition Inv0 (b : wblock) : Prop :=
  1 <= wwidth b /\
  line_ok (wwidth b) (wline b) /\
  (forall l, In l (wtext b) -> fin_ok (wwidth b) (allow_overflow b) l) /\
  (0 < wslen b -> spacetag b <> None).

Lemma Inv_iff b :
  Inv b <-> Inv0 b /\ wordlen b = vw (wword b) /\ elems_have_width (wword b).
Proof. unfold Inv, Inv0, fin_ok, word_width. tauto. Qed.

Definition same_cfg (b b' : wblock) : Prop :=
  wwidth b' = wwidth b /\ pad_blocks b' = pad_blocks b /\ allow_overflow b' = allow_overflow b.

Lemma same_cfg_refl b : same_cfg b b.
Proof. unfold same_cfg; auto. Qed.
Lemma same_cfg_trans a b c : same_cfg a b -> same_cfg b c -> same_cfg a c.
Proof. unfold same_cfg; intuition congruence. Qed.

Ltac prj :=
  cbn [wwidth wtext wline spacetag wword wordlen wslen pre_wrapped pad_blocks allow_overflow
       set_line set_text_line set_space set_word set_prew] in *.

Lemma line_ok_new W : line_ok W tl_new.
Proof. split; [reflexivity|]. cbn [tl_new tlen_]. lia. Qed.

Lemma set_text_line_id b : set_text_line b (wtext b) (wline b) = b.
Proof. destruct b; reflexivity. Qed.

Lemma Inv0_set_text_line b tx ln :
  Inv0 b -> line_ok (wwidth b) ln ->
  (forall l, In l tx -> fin_ok (wwidth b) (allow_overflow b) l) ->
  Inv0 (set_text_line b tx ln).
Proof. unfold Inv0. prj. tauto. Qed.

Lemma Inv0_set_line b ln : Inv0 b -> line_ok (wwidth b) ln -> Inv0 (set_line b ln).
Proof. unfold Inv0. prj. tauto. Qed.

Lemma Inv0_set_word b w n : Inv0 b -> Inv0 (set_word b w n).
Proof. unfold Inv0. prj. tauto. Qed.

Lemma Inv0_set_prew b p : Inv0 b -> Inv0 (set_prew b p).
Proof. unfold Inv0. prj. tauto. Qed.

Lemma Inv0_set_space b st n :
  Inv0 b -> (0 < n -> st <> None) -> Inv0 (set_space b st n).
Proof. unfold Inv0. prj. tauto. Qed.

(* ------------------------------------------------------------------ *)
(* force_flush_line / flush_line *)

Lemma ffl_spec b :
  tlen_ (wline b) = tl_width_raw (wline b) ->
  exists l', force_flush_line b = Ok (set_text_line b (wtext b ++ [l']) tl_new) /\
             tlen_ l' = tl_width_raw l' /\
             (tl_width_raw (wline b) <= wwidth b -> tl_width_raw l' <= wwidth b).
Proof.
  intros H. unfold force_flush_line. destruct (pad_blocks b).
  - destruct (tl_pad_to_spec (wline b) (wwidth b)
               (match spacetag b with Some st => st | None => [] end) H) as (l' & E & H1 & H2).
    rewrite E. cbn [bind]. exists l'. repeat split; auto. lia.
  - cbn [bind]. exists (wline b). auto.
Qed.

(* force_flush_line only needs the current line to be acceptable as a finished line *)
Lemma ffl_ok b ln :
  Inv0 b -> fin_ok (wwidth b) (allow_overflow b) ln ->
  exists tx', force_flush_line (set_line b ln) = Ok (set_text_line b tx' tl_new) /\
              Inv0 (set_text_line b tx' tl_new).
Proof.
  intros HI [Hl1 Hl2].
  destruct (ffl_spec (set_line b ln)) as (l' & E & H1 & H2); [exact Hl1|].
  prj. exists (wtext b ++ [l']). split; [exact E|].
  apply Inv0_set_text_line; [exact HI | apply line_ok_new |].
  intros l Hin. apply in_app_or in Hin. destruct Hin as [Hin|[<-|[]]].
  - destruct HI as (_ & _ & Htx & _). auto.
  - split; auto.
Qed.

Lemma set_line_id b : set_line b (wline b) = b.
Proof. destruct b; reflexivity. Qed.

Lemma flush_line_ok b :
  Inv0 b ->
  exists tx' ln', flush_line b = Ok (set_text_line b tx' ln') /\
                  Inv0 (set_text_line b tx' ln') /\ tlen_ ln' = 0.
Proof.
  intros HI. unfold flush_line. destruct (tl_is_empty (wline b)) eqn:Ee.
  - exists (wtext b), (wline b). rewrite set_text_line_id. split; [reflexivity|]. split; [exact HI|].
    destruct HI as (_ & [Hl _] & _). rewrite Hl. apply tl_is_empty_raw, Ee.
  - destruct (ffl_ok b (wline b) HI) as (tx' & E & HI').
    { destruct HI as (_ & [Hl1 Hl2] & _). split; auto. intros _. lia. }
    rewrite set_line_id in E. exists tx', tl_new. auto.
Qed.

(* ------------------------------------------------------------------ *)
(* flush_word_hard_wrap *)

Lemma skipn_length_app {A} (a b : list A) : skipn (length a) (a ++ b) = b.
Proof. induction a; cbn; auto. Qed.

Lemma has_width_app a b : has_width (a ++ b) -> has_width a /\ has_width b.
Proof. unfold has_width. rewrite Forall_app. auto. Qed.

(* the zero-width run taken with an overflowing character: a prefix of the rest, of width 0 *)
Lemma take_zw_split s : exists r, s = take_zw s ++ r.
Proof.
  induction s as [|c s [r IH]]; cbn [take_zw].
  - exists []. reflexivity.
  - destruct (cw c) as [[|p]|].
    + exists r. cbn [app]. f_equal. exact IH.
    + exists (c :: s). reflexivity.
    + exists (c :: s). reflexivity.
Qed.

Lemma swidth_take_zw s : swidth (take_zw s) = 0.
Proof.
  induction s as [|c s IH]; cbn [take_zw].
  - reflexivity.
  - destruct (cw c) as [[|p]|] eqn:E; try reflexivity.
    rewrite swidth_cons, IH. unfold cw0. rewrite E. reflexivity.
Qed.

Lemma hw_scan_spec ovf line0 :
  tlen_ line0 = tl_width_raw line0 ->
  forall s first taken_rev lineleft wpos,
  has_width s ->
  (first = true -> taken_rev = []) -> (first = false -> taken_rev <> []) ->
  lineleft < swidth s ->
  good ovf (fun r => let '(taken, _, wpos') := r in
     exists pre rest', s = pre ++ rest' /\ taken = rev taken_rev ++ pre /\
       wpos' = wpos + swidth pre /\
       ((swidth pre <= lineleft /\ (taken = [] -> tl_width_raw line0 <> 0)) \/
        (first = true /\ ovf = true /\ tl_width_raw line0 = 0 /\ pre <> [])))
   (hw_scan ovf line0 first s taken_rev lineleft wpos).
Proof.
  intros Hl. induction s as [|c s IH]; intros first taken_rev lineleft wpos Hw Hf1 Hf2 Hlt.
  - rewrite swidth_nil in Hlt. lia.
  - cbn [hw_scan]. inversion Hw as [|? ? Hc Hs]; subst.
    destruct (cw c) as [c_w|] eqn:Ecw; [|congruence].
    assert (Hc0 : cw0 c = c_w) by (unfold cw0; rewrite Ecw; reflexivity).
    rewrite swidth_cons in Hlt.
    destruct (N.leb_spec c_w lineleft) as [Hfit|Hnofit].
    + eapply good_mono.
      { apply (IH false (c :: taken_rev) (lineleft - c_w) (wpos + c_w) Hs);
          [discriminate | intros _; discriminate | lia]. }
      intros [[taken ll] wpos'] (pre & rest' & E1 & E2 & E3 & E4).
      exists (c :: pre), rest'. subst s. split; [reflexivity|]. split.
      { rewrite E2. cbn [rev]. rewrite <- app_assoc. reflexivity. }
      split. { rewrite swidth_cons. lia. }
      destruct E4 as [[A B]|[A _]]; [left|discriminate].
      split; [rewrite swidth_cons; lia | exact B].
    + destruct first.
      * rewrite (tl_width_ok _ Hl). cbn [bind]. rewrite (Hf1 eq_refl).
        destruct (N.eqb_spec (tl_width_raw line0) 0) as [Ez|Enz].
        -- destruct ovf; cbn [good]; [|reflexivity].
           destruct (take_zw_split s) as [r Er].
           exists (c :: take_zw s), r. split; [cbn [app]; f_equal; exact Er|].
           split; [reflexivity|].
           split; [rewrite swidth_cons, swidth_take_zw; lia|].
           right. repeat split; auto. discriminate.
        -- cbn [good]. exists [], (c :: s). split; [reflexivity|]. split; [reflexivity|].
           rewrite swidth_nil. split; [lia|]. left. split; [lia|]. intros _. exact Enz.
      * cbn [good]. exists [], (c :: s). rewrite app_nil_r.
        split; [reflexivity|]. split; [reflexivity|].
        rewrite swidth_nil. split; [lia|]. left. split; [lia|]. intros E. exfalso. apply (Hf2 eq_refl).
        apply (f_equal (@rev _)) in E. rewrite rev_involutive in E. exact E.
Qed.

Definition piece_post (b : wblock) (r : wblock * N) : Prop :=
  let '(b', ll) := r in
  exists tx' ln', b' = set_text_line b tx' ln' /\ Inv0 b' /\
                  tlen_ (wline b') + ll <= wwidth b.

Lemma hw_piece_ok t w : forall fuel b rest consumed lineleft wpos,
  Inv0 b -> has_width rest -> wpos + swidth rest = w ->
  (consumed = false -> wpos = 0) ->
  tlen_ (wline b) + lineleft <= wwidth b ->
  (2 * length rest + (if (tlen_ (wline b) =? 0)%N then 0 else 1) + 1 <= fuel)%nat ->
  good (allow_overflow b) (piece_post b) (hw_piece fuel b t w rest consumed lineleft wpos).
Proof.
  induction fuel as [|f IH]; intros b rest consumed lineleft wpos HI Hw Hsum Hcons Hll Hfuel.
  - destruct (tlen_ (wline b) =? 0); lia.
  - cbn [hw_piece]. rewrite (usub_ok 8 w wpos) by lia. cbn [bind].
    pose proof HI as (HW & [Hl1 Hl2] & Htx & Hst).
    destruct (N.ltb_spec lineleft (w - wpos)) as [Hlt|Hge].
    + eapply good_bind.
      { apply (hw_scan_spec (allow_overflow b) (wline b) Hl1 rest true [] lineleft wpos Hw);
          [auto | discriminate | lia]. }
      intros [[taken ll0] wpos'] (pre & rest' & E1 & E2 & E3 & E4).
      cbn [rev app] in E2. subst taken.
      destruct (ffl_ok b (tl_push (wline b) (Str pre t)) HI) as (tx' & E & HI2).
      { split.
        - rewrite tlen_push, raw_push. lia.
        - intros Hovf. rewrite raw_push. cbn [elem_text].
          destruct E4 as [[A _]|(_ & A & _)]; [lia|congruence]. }
      rewrite E. cbn [bind]. subst rest. rewrite skipn_length_app.
      apply has_width_app in Hw. destruct Hw as [Hwp Hwr]. rewrite swidth_app in Hsum.
      eapply good_mono.
      { apply (IH (set_text_line b tx' tl_new)); try assumption.
        - lia.
        - intros Hc. apply orb_false_iff in Hc. destruct Hc as [Hc1 Hc2].
          destruct pre; [|discriminate]. rewrite swidth_nil in E3. rewrite (Hcons Hc1) in E3. lia.
        - prj. cbn [tl_new tlen_]. lia.
        - prj. cbn [tl_new tlen_]. change (0 =? 0) with true.
          rewrite app_length in Hfuel.
          destruct pre as [|c pre].
          + destruct E4 as [[_ A]|(_ & _ & _ & A)]; [|congruence].
            specialize (A eq_refl).
            destruct (N.eqb_spec (tlen_ (wline b)) 0); [congruence|]. cbn [length] in *. lia.
          + cbn [length] in Hfuel. lia. }
      intros [b' ll] (tx'' & ln'' & Eb & HIb & Hb). prj.
      exists tx'', ln''. split; [exact Eb|]. split; [exact HIb|exact Hb].
    + destruct consumed; cbn [negb].
      * destruct rest as [|c rest].
        -- cbn [good piece_post]. exists (wtext b), (wline b). rewrite set_text_line_id. auto.
        -- rewrite (usub_ok 5 lineleft (w - wpos)) by lia. cbn [bind good piece_post].
           exists (wtext b), (tl_push (wline b) (Str (c :: rest) t)).
           split; [destruct b; reflexivity|].
           split.
           ++ apply Inv0_set_line; [exact HI|]. split; rewrite tlen_push, ?raw_push; cbn [elem_text]; lia.
           ++ prj. rewrite tlen_push. cbn [elem_text]. lia.
      * rewrite (Hcons eq_refl) in *.
        rewrite (usub_ok 5 lineleft w) by lia. cbn [bind good piece_post].
        exists (wtext b), (tl_push (wline b) (Str rest t)).
        split; [destruct b; reflexivity|].
        split.
        -- apply Inv0_set_line; [exact HI|]. split; rewrite tlen_push, ?raw_push; cbn [elem_text]; lia.
        -- prj. rewrite tlen_push. cbn [elem_text]. lia.
Qed.

Definition lines_changed (b b' : wblock) : Prop :=
  exists tx' ln', b' = set_text_line b tx' ln'.

Lemma hw_elems_ok : forall els b lineleft,
  Inv0 b -> elems_have_width els -> tlen_ (wline b) + lineleft <= wwidth b ->
  good (allow_overflow b)
       (fun b' => (exists tx' ln', b' = set_text_line b tx' ln') /\ Inv0 b')
       (hw_elems b els lineleft).
Proof.
  induction els as [|e els IH]; intros b lineleft HI Hw Hll.
  - cbn [hw_elems good]. split; [|exact HI].
    exists (wtext b), (wline b). rewrite set_text_line_id. reflexivity.
  - inversion Hw as [|? ? He Hels]; subst. destruct e as [s t|n]; cbn [hw_elems].
    + cbn [elem_text] in He. eapply good_bind.
      { apply (hw_piece_ok t (swidth s) (2 * length s + 2) b s false lineleft 0 HI He);
          auto; try lia.
        destruct (tlen_ (wline b) =? 0); lia. }
      intros [b' ll] (tx' & ln' & Eb & HIb & Hb). subst b'.
      eapply good_mono.
      { apply (IH _ ll HIb Hels). prj. exact Hb. }
      intros b'' ((tx'' & ln'' & Eb') & HIb'). split; [|exact HIb'].
      exists tx'', ln''. exact Eb'.
    + pose proof HI as (HW & [Hl1 Hl2] & _).
      eapply good_mono.
      { apply (IH (set_line b (tl_push (wline b) (Frag n))) lineleft).
        - apply Inv0_set_line; [exact HI|].
          split; rewrite tlen_push, ?raw_push; cbn [elem_text]; rewrite swidth_nil; lia.
        - exact Hels.
        - prj. rewrite tlen_push. cbn [elem_text]. rewrite swidth_nil. lia. }
      intros b'' ((tx'' & ln'' & Eb') & HIb'). split; [|exact HIb'].
      exists tx'', ln''. rewrite Eb'. reflexivity.
Qed.

Lemma fwhw_ok b :
  Inv0 b -> elems_have_width (wword b) ->
  good (allow_overflow b)
       (fun b' => (exists tx' ln', b' = set_word (set_text_line b tx' ln') [] (wordlen b)) /\
                  Inv0 b')
       (flush_word_hard_wrap b).
Proof.
  intros HI Hw. pose proof HI as (HW & [Hl1 Hl2] & _).
  unfold flush_word_hard_wrap. rewrite usub_ok by lia. cbn [bind].
  eapply good_mono.
  { apply (hw_elems_ok (wword b) (set_word b [] (wordlen b)) (wwidth b - tlen_ (wline b))).
    - apply Inv0_set_word, HI.
    - exact Hw.
    - prj. lia. }
  intros b' ((tx' & ln' & Eb) & HIb). split; [|exact HIb].
  exists tx', ln'. rewrite Eb. reflexivity.
Qed.

(* ------------------------------------------------------------------ *)
(* the whitespace loop of flush_word *)

Lemma ws_loop_ok : forall fuel b,
  Inv0 b -> (wslen b = 0 \/ tlen_ (wline b) = 0) ->
  (N.to_nat (wslen b) < fuel)%nat ->
  good (allow_overflow b)
       (fun b' => (exists tx' ln', b' = set_space (set_text_line b tx' ln') (spacetag b) 0) /\
                  Inv0 b')
       (ws_loop fuel b).
Proof.
  induction fuel as [|f IH]; intros b HI Hor Hfuel.
  - lia.
  - cbn [ws_loop]. pose proof HI as (HW & [Hl1 Hl2] & Htx & Hst).
    destruct (N.eqb_spec (wslen b) 0) as [Ez|Enz].
    + cbn [good]. split; [|exact HI]. exists (wtext b), (wline b).
      rewrite set_text_line_id. destruct b; prj; subst; reflexivity.
    + destruct (N.eqb_spec (wwidth b) 0) as [Hw0|_]; [lia|].
      destruct (spacetag b) as [st|] eqn:Est.
      2:{ exfalso. apply Hst; [lia|reflexivity]. }
      assert (Hz : tlen_ (wline b) = 0) by (destruct Hor; [lia|assumption]).
      set (tc := N.min (wslen b) (wwidth b)).
      set (ln1 := tl_push_wsl L_space (wline b) tc st).
      assert (HI1 : Inv0 (set_line b ln1)).
      { apply Inv0_set_line; [exact HI|]. unfold ln1.
        split; rewrite tlen_push_wsl, ?raw_push_wsl; lia. }
      assert (Hstep : forall tx' ln',
                 Inv0 (set_text_line b tx' ln') ->
                 (tc = wwidth b -> tlen_ ln' = 0) ->
                 good (allow_overflow b)
                   (fun b' => (exists tx'0 ln'0,
                        b' = set_space (set_text_line b tx'0 ln'0) (Some st) 0) /\ Inv0 b')
                   (ws_loop f (set_space (set_text_line b tx' ln') (Some st) (wslen b - tc)))).
      { intros tx' ln' HI2 Hflushed. eapply good_mono.
        { apply (IH (set_space (set_text_line b tx' ln') (Some st) (wslen b - tc))).
          - apply Inv0_set_space; [exact HI2|]. intros _. discriminate.
          - prj. destruct (N.eq_dec tc (wwidth b)) as [Et|Et]; [right; auto|left; lia].
          - prj. lia. }
        intros b' ((tx'' & ln'' & Eb) & HIb). split; [|exact HIb].
        exists tx'', ln''. rewrite Eb. reflexivity. }
      destruct (N.eqb_spec tc (wwidth b)) as [Et|Et].
      * destruct (flush_line_ok _ HI1) as (tx' & ln' & E & HI2 & Hz').
        rewrite E. cbn [bind]. prj. rewrite Est. apply Hstep; auto.
      * cbn [bind]. prj. rewrite Est.
        apply (Hstep (wtext b) ln1); [exact HI1 | congruence].
Qed.

(* ------------------------------------------------------------------ *)
(* flush_word *)

Lemma set_prew_id b : set_prew b (pre_wrapped b) = b.
Proof. destruct b; reflexivity. Qed.

Lemma flush_word_tail_ok b1 m :
  Inv0 b1 -> elems_have_width (wword b1) ->
  good (allow_overflow b1) (fun b' => Inv b' /\ same_cfg b1 b')
    (do b2 <- flush_line b1;
     let b3 := if is_pre m then set_prew b2 true else b2 in
     do b4 <- ws_loop (S (N.to_nat (wslen b3))) b3;
     let b5 := set_space b4 None (wslen b4) in
     do b6 <- flush_word_hard_wrap b5;
     Ok (set_word b6 (wword b6) 0)).
Proof.
  intros HI Hw.
  destruct (flush_line_ok _ HI) as (tx' & ln' & E & HI2 & Hz). rewrite E. cbn [bind].
  cbv zeta.
  assert (H3 : exists pw, (if is_pre m then set_prew (set_text_line b1 tx' ln') true
                           else set_text_line b1 tx' ln')
                          = set_prew (set_text_line b1 tx' ln') pw).
  { destruct (is_pre m); eexists; [reflexivity|symmetry; apply set_prew_id]. }
  destruct H3 as (pw & ->).
  eapply good_bind.
  { apply (ws_loop_ok _ (set_prew (set_text_line b1 tx' ln') pw)).
    - apply Inv0_set_prew, HI2.
    - right. prj. exact Hz.
    - prj. lia. }
  intros b4 ((tx4 & ln4 & E4) & HI4). subst b4. prj.
  eapply good_bind.
  { match goal with |- good _ _ (flush_word_hard_wrap ?x) => apply (fwhw_ok x) end.
    - apply Inv0_set_space; [|lia]. revert HI4. unfold Inv0. prj. tauto.
    - prj. exact Hw. }
  intros b6 ((tx6 & ln6 & E6) & HI6). subst b6. prj. cbn [good]. split.
  - apply Inv_iff. prj. split; [|split].
    + revert HI6. unfold Inv0. prj. tauto.
    + reflexivity.
    + constructor.
  - unfold same_cfg. prj. auto.
Qed.

Lemma flush_word_ok b m :
  Inv b -> good (allow_overflow b) (fun b' => Inv b' /\ same_cfg b b') (flush_word b m).
Proof.
  intros HI. apply Inv_iff in HI. destruct HI as (HI0 & Hwl & Hehw).
  pose proof HI0 as (HW & [Hl1 Hl2] & Htx & Hst).
  unfold flush_word. destruct (word_is_empty (wword b)) eqn:Ewe.
  - cbn [good]. split; [|unfold same_cfg; prj; auto].
    apply Inv_iff. prj. split; [apply Inv0_set_word, HI0|]. split; [|exact Hehw].
    symmetry. apply word_is_empty_vw, Ewe.
  - cbv zeta. prj. rewrite usub_ok by lia. cbn [bind].
    destruct (N.leb_spec (wslen b + wordlen b) (wwidth b - tlen_ (wline b))) as [Hfit|Hnofit].
    + (* the word fits on the current line *)
      destruct (N.ltb_spec 0 (wslen b)) as [Hws|Hws].
      * destruct (spacetag b) as [st|] eqn:Est.
        2:{ exfalso. apply Hst; [lia|reflexivity]. }
        cbn [bind]. prj. cbn [good]. split; [|unfold same_cfg; prj; auto].
        apply Inv_iff. prj. split; [|split; [reflexivity|constructor]].
        unfold Inv0. prj. split; [exact HW|]. split; [|split; [exact Htx|lia]].
        split; rewrite tlen_fold_push, ?raw_fold_push, tlen_push, ?raw_push;
          cbn [elem_text]; rewrite swidth_spacesl; lia.
      * cbn [bind]. prj. cbn [good]. split; [|unfold same_cfg; prj; auto].
        apply Inv_iff. prj. split; [|split; [reflexivity|constructor]].
        unfold Inv0. prj. split; [exact HW|]. split; [|split; [exact Htx|exact Hst]].
        split; rewrite tlen_fold_push, ?raw_fold_push; lia.
    + (* it does not fit *)
      eapply good_bind with
        (P := fun b1 => Inv0 b1 /\ wword b1 = wword b /\ same_cfg b b1).
      { destruct (do_wrap m); cbn [negb].
        - cbn [good]. split; [|split; [reflexivity|unfold same_cfg; prj; auto]].
          apply Inv0_set_space; [exact HI0|lia].
        - destruct (N.leb_spec (wwidth b - tlen_ (wline b)) (wslen b)) as [Hle|Hgt].
          + cbn [good]. split; [|split; [reflexivity|unfold same_cfg; prj; auto]].
            apply Inv0_set_space; [exact HI0|]. intros H. apply Hst. lia.
          + destruct (N.ltb_spec 0 (wslen b)) as [Hws|Hws].
            * destruct (spacetag b) as [st|] eqn:Est.
              2:{ exfalso. apply Hst; [lia|reflexivity]. }
              cbn [good]. split; [|split; [reflexivity|unfold same_cfg; prj; auto]].
              apply Inv0_set_space; [|lia]. apply Inv0_set_line; [exact HI0|].
              prj. split; rewrite tlen_push_wsl, ?raw_push_wsl; lia.
            * cbn [good]. split; [|split; [reflexivity|unfold same_cfg; prj; auto]].
              exact HI0. }
      intros b1 (H1 & H2 & H3). pose proof H3 as (c1 & c2 & c3). rewrite <- c3.
      eapply good_mono.
      { apply (flush_word_tail_ok b1 m H1). rewrite H2. exact Hehw. }
      intros b' [Hb' Hc']. split; [exact Hb'|]. eapply same_cfg_trans; eassumption.
Qed.

(* ------------------------------------------------------------------ *)
(* the tab loop of add_text *)

Local Ltac Zify.zify_post_hook ::= Z.to_euclidean_division_equations.

(* iterations still needed once at least one space has been emitted *)
Definition tabm (pos : N) : nat :=
  if pos mod 8 =? 0 then 0%nat else N.to_nat (9 - pos mod 8).

Lemma tabm_le pos : (tabm pos <= 8)%nat.
Proof. unfold tabm. destruct (N.eqb_spec (pos mod 8) 0); lia. Qed.

Lemma tabm_succ pos : pos mod 8 <> 0 -> (tabm (pos + 1) < tabm pos)%nat.
Proof.
  intros H. unfold tabm.
  destruct (N.eqb_spec (pos mod 8) 0); [contradiction|].
  destruct (N.eqb_spec ((pos + 1) mod 8) 0); lia.
Qed.

Lemma tab_loop_0_true f b t tw fl : tab_loop f b t tw 0 true fl = Ok (b, fl).
Proof. destruct f; reflexivity. Qed.

Lemma cw0_spacel lb : cw0 (spacel lb) = 1.
Proof. reflexivity. Qed.

Lemma tab_loop_true_ok t tw : forall f b pos fl,
  Inv0 b -> tlen_ (wline b) <= pos -> (tabm pos <= f)%nat ->
  good (allow_overflow b)
       (fun r => (exists tx' ln', fst r = set_text_line b tx' ln') /\ Inv0 (fst r))
       (tab_loop f b t tw pos true fl).
Proof.
  induction f as [|f IH]; intros b pos fl HI Hpos Hf.
  - cbn [tab_loop]. unfold tabm in Hf.
    destruct (N.eqb_spec (pos mod 8) 0) as [Ez|Enz]; cbn [negb orb].
    + cbn [good fst]. split; [|exact HI]. exists (wtext b), (wline b).
      rewrite set_text_line_id. reflexivity.
    + lia.
  - cbn [tab_loop]. pose proof HI as (HW & [Hl1 Hl2] & Htx & Hst).
    destruct (N.eqb_spec (pos mod 8) 0) as [Ez|Enz]; cbn [negb orb].
    + cbn [good fst]. split; [|exact HI]. exists (wtext b), (wline b).
      rewrite set_text_line_id. reflexivity.
    + destruct (N.eqb_spec (wwidth b) 0) as [Hz0|_]; [lia|].
      destruct (N.leb_spec (wwidth b) pos) as [Hfull|Hroom].
      * destruct (flush_line_ok _ HI) as (tx' & ln' & E & HI2 & Hz).
        rewrite E. cbn [bind]. rewrite tab_loop_0_true. cbn [good fst].
        split; [|exact HI2]. exists tx', ln'. reflexivity.
      * eapply good_mono.
        { apply (IH (set_line b (tl_push_char (wline b) (spacel L_space) t)) (pos + 1) fl).
          - apply Inv0_set_line; [exact HI|].
            split; rewrite tlen_push_char, ?raw_push_char, cw0_spacel; lia.
          - prj. rewrite tlen_push_char, cw0_spacel. lia.
          - pose proof (tabm_succ pos Enz). lia. }
        intros r ((tx' & ln' & Eb) & HIb). split; [|exact HIb].
        exists tx', ln'. rewrite Eb. reflexivity.
Qed.

Lemma tab_loop_false_ok t tw f b pos fl :
  Inv0 b -> tlen_ (wline b) <= pos -> (10 <= f)%nat ->
  good (allow_overflow b)
       (fun r => (exists tx' ln', fst r = set_text_line b tx' ln') /\ Inv0 (fst r))
       (tab_loop f b t tw pos false fl).
Proof.
  intros HI Hpos Hf. destruct f as [|f]; [lia|].
  cbn [tab_loop]. rewrite orb_true_r. pose proof HI as (HW & [Hl1 Hl2] & Htx & Hst).
  assert (Hpush : forall t b0 p, Inv0 b0 -> tlen_ (wline b0) <= p -> p < wwidth b0 ->
            Inv0 (set_line b0 (tl_push_char (wline b0) (spacel L_space) t)) /\
            tlen_ (wline (set_line b0 (tl_push_char (wline b0) (spacel L_space) t))) <= p + 1).
  { intros t0 b0 p HI0 Hp Hlt. pose proof HI0 as (_ & [Hl1' Hl2'] & _). split.
    - apply Inv0_set_line; [exact HI0|].
      split; rewrite tlen_push_char, ?raw_push_char, cw0_spacel; lia.
    - prj. rewrite tlen_push_char, cw0_spacel. lia. }
  destruct (N.eqb_spec (wwidth b) 0) as [Hz0|_]; [lia|].
  destruct (N.leb_spec (wwidth b) pos) as [Hfull|Hroom].
  - destruct (flush_line_ok _ HI) as (tx' & ln' & E & HI2 & Hz).
    rewrite E. cbn [bind]. destruct f as [|f]; [lia|].
    cbn [tab_loop]. rewrite orb_true_r. prj.
    destruct (N.eqb_spec (wwidth b) 0) as [Hz1|_]; [lia|].
    destruct (N.leb_spec (wwidth b) 0) as [Hbad|_]; [lia|].
    destruct (Hpush tw (set_text_line b tx' ln') 0 HI2) as [HI3 Hp3]; [prj; lia | prj; lia |].
    eapply good_mono.
    { apply (tab_loop_true_ok tw tw f _ (0 + 1) true HI3 Hp3).
      pose proof (tabm_le (0 + 1)). lia. }
    intros r ((tx'' & ln'' & Eb) & HIb). split; [|exact HIb].
    exists tx'', ln''. rewrite Eb. reflexivity.
  - destruct (Hpush t b pos HI Hpos Hroom) as [HI3 Hp3].
    eapply good_mono.
    { apply (tab_loop_true_ok t tw f _ (pos + 1) fl HI3 Hp3).
      pose proof (tabm_le (pos + 1)). lia. }
    intros r ((tx'' & ln'' & Eb) & HIb). split; [|exact HIb].
    exists tx'', ln''. rewrite Eb. reflexivity.
Qed.

(* ------------------------------------------------------------------ *)
(* add_char / add_chars / wb_add_text *)

Lemma ehw_push_merge v s t :
  elems_have_width v -> has_width s -> elems_have_width (v_push_merge v s t).
Proof.
  intros Hv Hs. induction v as [|e v IH].
  - cbn [v_push_merge]. constructor; [exact Hs|constructor].
  - inversion Hv as [|? ? He Hv']; subst. destruct v as [|e' v].
    + cbn [v_push_merge]. destruct e as [s0 t0|n].
      * destruct (tag_eqb t0 t).
        -- constructor; [|constructor]. cbn [elem_text] in *.
           unfold has_width in *. apply Forall_app. auto.
        -- constructor; [exact He|]. constructor; [exact Hs|constructor].
      * constructor; [exact He|]. constructor; [exact Hs|constructor].
    + rewrite v_push_merge_cons2. constructor; [exact He|]. apply IH, Hv'.
Qed.

(* Inv is insensitive to changes of text/line that keep Inv0 *)
Lemma Inv_lines b tx' ln' : Inv b -> Inv0 (set_text_line b tx' ln') -> Inv (set_text_line b tx' ln').
Proof.
  intros HI H0. apply Inv_iff in HI. apply Inv_iff. prj. tauto.
Qed.

Ltac fin :=
  unfold Inv, Inv0, line_ok, fin_ok, same_cfg, word_width in *; prj; cbn [fst];
  intuition (try lia; try congruence; try discriminate).

Lemma add_char_ok m t1 t2 b u c :
  Inv b ->
  good (allow_overflow b) (fun st' => Inv (fst st') /\ same_cfg b (fst st'))
       (add_char m t1 t2 (b, u) c).
Proof.
  intros HI. unfold add_char.
  eapply good_bind with (P := fun b1 => Inv b1 /\ same_cfg b b1).
  { destruct (ws c && (0 <? wordlen b)); [apply flush_word_ok, HI|].
    cbn [good]. split; [exact HI|apply same_cfg_refl]. }
  clear HI. intros b1 [HI Hc]. pose proof Hc as (c1 & c2 & c3). rewrite <- c3.
  apply good_mono with (P := fun st' => Inv (fst st') /\ same_cfg b1 (fst st')).
  2:{ intros st' [A B]. split; [exact A|]. eapply same_cfg_trans; eassumption. }
  clear b Hc c1 c2 c3. rename b1 into b.
  cbv zeta. set (t := if u then t2 else t1).
  pose proof HI as HI'. apply Inv_iff in HI'. destruct HI' as (HI0 & Hwl & Hehw).
  pose proof HI0 as (HW & [Hl1 Hl2] & Htx & Hst).
  destruct (ws c).
  - destruct (preserve_ws m).
    + destruct (cp c =? 10).
      * destruct (ffl_ok b (wline b) HI0) as (tx' & E & HI2).
        { split; [exact Hl1|]. intros _. lia. }
        rewrite set_line_id in E. rewrite E. cbn [bind good fst].
        split; [|unfold same_cfg; prj; auto].
        apply Inv_iff. prj. split; [|auto].
        apply Inv0_set_prew, Inv0_set_space; [exact HI2|lia].
      * destruct (cp c =? 9).
        -- eapply good_bind.
           { apply (tab_loop_false_ok t (if is_pre m then t2 else t) 40 b
                      (tlen_ (wline b) + wslen b) false HI0); lia. }
           intros [b2 fl2] ((tx' & ln' & E) & HI2). cbn [fst snd] in *. subst b2.
           cbv zeta. cbn [good fst].
           assert (HI3 : Inv (set_text_line b tx' ln')) by (apply Inv_lines; assumption).
           destruct (is_pre m && fl2).
           ++ split; [|unfold same_cfg; prj; auto].
              apply Inv_iff in HI3. destruct HI3 as (A & B & C).
              apply Inv_iff. prj. split; [apply Inv0_set_prew, A|auto].
           ++ split; [exact HI3|unfold same_cfg; prj; auto].
        -- destruct (cw c) as [cwidth|].
           ++ destruct (N.ltb_spec (wwidth b) (tlen_ (wline b) + wslen b + cwidth)) as [Hov|Hfit].
              ** destruct (flush_line_ok (set_space b (spacetag b) 0)) as (tx' & ln' & E & HI2 & Hz).
                 { apply Inv0_set_space; [exact HI0|lia]. }
                 rewrite E. cbn [bind]. destruct (do_wrap m); cbn [good fst]; prj.
                 --- split; [|unfold same_cfg; prj; auto].
                     apply Inv_iff. prj. split; [|auto]. revert HI2. unfold Inv0. prj. tauto.
                 --- split; [|unfold same_cfg; prj; auto].
                     apply Inv_iff. prj. split; [|auto]. revert HI2. unfold Inv0. prj.
                     intuition discriminate.
              ** cbn [good fst]. split; [|unfold same_cfg; prj; auto].
                 apply Inv_iff. prj. split; [|auto].
                 apply Inv0_set_space; [exact HI0|]. intros _. discriminate.
           ++ cbn [good fst]. split; [exact HI|apply same_cfg_refl].
    + destruct ((0 <? tlen_ (wline b)) && (wslen b =? 0)); cbn [good fst].
      * split; [|unfold same_cfg; prj; auto].
        apply Inv_iff. prj. split; [|auto].
        apply Inv0_set_space; [exact HI0|]. intros _. discriminate.
      * split; [exact HI|apply same_cfg_refl].
  - destruct (cw c) as [cwidth|] eqn:Ecw.
    + assert (Hc0 : cw0 c = cwidth) by (unfold cw0; rewrite Ecw; reflexivity).
      assert (Hwc : has_width [c]).
      { constructor; [congruence|constructor]. }
      cbn [good fst]. split.
      * apply Inv_iff.
        destruct (is_pre m && (wwidth b <? tlen_ (wline b) + wslen b + (wordlen b + cwidth)));
          prj.
        -- split; [apply Inv0_set_word, Inv0_set_prew, HI0|]. prj. split.
           ++ rewrite vw_push_merge, swidth_cons, swidth_nil. lia.
           ++ apply ehw_push_merge; assumption.
        -- split; [apply Inv0_set_word, HI0|]. prj. split.
           ++ rewrite vw_push_merge, swidth_cons, swidth_nil. lia.
           ++ apply ehw_push_merge; assumption.
      * destruct (is_pre m && (wwidth b <? tlen_ (wline b) + wslen b + (wordlen b + cwidth)));
          unfold same_cfg; prj; auto.
    + cbn [good fst]. split; [exact HI|apply same_cfg_refl].
Qed.

Lemma add_chars_ok m t1 t2 : forall s b u,
  Inv b ->
  good (allow_overflow b) (fun st' => Inv (fst st') /\ same_cfg b (fst st'))
       (add_chars m t1 t2 (b, u) s).
Proof.
  induction s as [|c s IH]; intros b u HI; cbn [add_chars].
  - cbn [good fst]. split; [exact HI|apply same_cfg_refl].
  - eapply good_bind; [apply add_char_ok, HI|].
    intros [b' u'] [HI' Hc']. cbn [fst] in *. pose proof Hc' as (c1 & c2 & c3). rewrite <- c3.
    eapply good_mono; [apply (IH b' u' HI')|].
    intros st' [A B]. split; [exact A|]. eapply same_cfg_trans; eassumption.
Qed.

Lemma wb_add_text_ok b s m t1 t2 :
  Inv b ->
  good (allow_overflow b) (fun b' => Inv b' /\ same_cfg b b') (wb_add_text b s m t1 t2).
Proof.
  intros HI. unfold wb_add_text. eapply good_bind; [apply add_chars_ok, HI|].
  intros st' H. exact H.
Qed.

(* ------------------------------------------------------------------ *)
(* wb_flush / wb_into_lines / fragments *)

Lemma flush_line_Inv b :
  Inv b -> good (allow_overflow b) (fun b' => Inv b' /\ same_cfg b b') (flush_line b).
Proof.
  intros HI. pose proof HI as HI'. apply Inv_iff in HI'. destruct HI' as (HI0 & _).
  destruct (flush_line_ok b HI0) as (tx' & ln' & E & HI2 & _). rewrite E. cbn [good].
  split; [apply Inv_lines; assumption|unfold same_cfg; prj; auto].
Qed.

Lemma force_flush_line_Inv b :
  Inv b -> good (allow_overflow b) (fun b' => Inv b' /\ same_cfg b b') (force_flush_line b).
Proof.
  intros HI. pose proof HI as HI'. apply Inv_iff in HI'. destruct HI' as (HI0 & _).
  pose proof HI0 as (HW & [Hl1 Hl2] & _).
  destruct (ffl_ok b (wline b) HI0) as (tx' & E & HI2).
  { split; [exact Hl1|]. intros _. lia. }
  rewrite set_line_id in E. rewrite E. cbn [good].
  split; [apply Inv_lines; assumption|unfold same_cfg; prj; auto].
Qed.

Lemma wb_flush_ok b :
  Inv b -> good (allow_overflow b) (fun b' => Inv b' /\ same_cfg b b') (wb_flush b).
Proof.
  intros HI. unfold wb_flush. eapply good_bind; [apply flush_word_ok, HI|].
  intros b1 [HI1 Hc1]. pose proof Hc1 as (c1 & c2 & c3). rewrite <- c3.
  eapply good_mono; [apply flush_line_Inv, HI1|].
  intros b' [A B]. split; [exact A|]. eapply same_cfg_trans; eassumption.
Qed.

Lemma wb_into_lines_ok b :
  Inv b ->
  good (allow_overflow b)
       (fun ls => forall l, In l ls -> fin_ok (wwidth b) (allow_overflow b) l)
       (wb_into_lines b).
Proof.
  intros HI. unfold wb_into_lines. eapply good_bind; [apply wb_flush_ok, HI|].
  intros b1 [HI1 (c1 & c2 & c3)]. cbn [good]. rewrite <- c1, <- c3.
  destruct HI1 as (_ & _ & Htx & _). exact Htx.
Qed.

Lemma wb_add_frag_Inv b n :
  Inv b -> Inv (wb_add_element b (Frag n)) /\ same_cfg b (wb_add_element b (Frag n)).
Proof.
  intros HI. apply Inv_iff in HI. destruct HI as (HI0 & Hwl & Hehw).
  cbn [wb_add_element]. split; [|unfold same_cfg; prj; auto].
  apply Inv_iff. prj. split; [apply Inv0_set_word, HI0|]. split.
  - rewrite vw_app, vw_cons, vw_nil. cbn [elem_text]. rewrite swidth_nil. lia.
  - unfold elems_have_width in *. apply Forall_app. split; [exact Hehw|].
    constructor; [constructor|constructor].
Qed.

(* ------------------------------------------------------------------ *)
(* trailing_frags: split a word into (up to its last element with content, trailing markers) *)

Lemma tfr_cons e w :
  trailing_frags (e :: w) =
  match fst (trailing_frags w) with
  | [] => if elem_has_content e then ([e], snd (trailing_frags w))
          else ([], e :: snd (trailing_frags w))
  | _ :: _ => (e :: fst (trailing_frags w), snd (trailing_frags w))
  end.
Proof. cbn [trailing_frags]. destruct (trailing_frags w) as [p t]. reflexivity. Qed.

Lemma tfr_app w : w = fst (trailing_frags w) ++ snd (trailing_frags w).
Proof.
  induction w as [|e w IH]; [reflexivity|]. rewrite tfr_cons.
  destruct (fst (trailing_frags w)) as [|e0 p] eqn:Ep.
  - cbn [app] in IH. destruct (elem_has_content e); cbn [fst snd app]; congruence.
  - cbn [fst snd]. rewrite <- app_comm_cons. congruence.
Qed.

Lemma tfr_snd_nocontent w : existsb elem_has_content (snd (trailing_frags w)) = false.
Proof.
  induction w as [|e w IH]; [reflexivity|]. rewrite tfr_cons.
  destruct (fst (trailing_frags w)) as [|e0 p] eqn:Ep; [|exact IH].
  destruct (elem_has_content e) eqn:Ee; cbn [fst snd]; [exact IH|].
  cbn [existsb]. rewrite Ee, IH. reflexivity.
Qed.

Lemma tfr_snd_frag w e : In e (snd (trailing_frags w)) -> exists n, e = Frag n.
Proof.
  intros Hin. destruct e as [s t|n]; [|eauto]. exfalso.
  assert (Hex : existsb elem_has_content (snd (trailing_frags w)) = true).
  { apply existsb_exists. exists (Str s t). split; [exact Hin|reflexivity]. }
  rewrite tfr_snd_nocontent in Hex. discriminate.
Qed.

Lemma tfr_snd_vw w : vw (snd (trailing_frags w)) = 0.
Proof. apply no_content_vw, tfr_snd_nocontent. Qed.

Lemma tfr_fst_vw w : vw (fst (trailing_frags w)) = vw w.
Proof. rewrite (tfr_app w) at 2. rewrite vw_app, tfr_snd_vw. lia. Qed.

(* a word without content is taken whole (the former behaviour) *)
Lemma tfr_empty w : word_is_empty w = true -> trailing_frags w = ([], w).
Proof.
  unfold word_is_empty. induction w as [|e w IH]; [reflexivity|]. cbn [existsb].
  intros H. rewrite tfr_cons.
  destruct (elem_has_content e) eqn:Ee; [discriminate|]. cbn [orb] in H.
  rewrite (IH H). reflexivity.
Qed.

(* the kept part is empty exactly when the word has no content ... *)
Lemma tfr_fst_nil_iff w : fst (trailing_frags w) = [] <-> word_is_empty w = true.
Proof.
  split; [|intros H; rewrite (tfr_empty w H); reflexivity].
  intros H. unfold word_is_empty. rewrite (tfr_app w), H. cbn [app].
  rewrite tfr_snd_nocontent. reflexivity.
Qed.

Lemma tfr_fst_empty w : word_is_empty (fst (trailing_frags w)) = word_is_empty w.
Proof.
  unfold word_is_empty. rewrite (tfr_app w) at 2. rewrite existsb_app, tfr_snd_nocontent.
  rewrite orb_false_r. reflexivity.
Qed.

(* ... and otherwise ends with an element with content *)
Lemma tfr_fst_last w :
  fst (trailing_frags w) = [] \/
  exists p e, fst (trailing_frags w) = p ++ [e] /\ elem_has_content e = true.
Proof.
  induction w as [|e w IH]; [left; reflexivity|]. rewrite tfr_cons.
  destruct (fst (trailing_frags w)) as [|e0 p] eqn:Ep.
  - destruct (elem_has_content e) eqn:Ee; cbn [fst]; [right|left; reflexivity].
    exists [], e. split; [reflexivity|exact Ee].
  - right. cbn [fst]. destruct IH as [IH|(p' & e' & IH & He')]; [discriminate|].
    exists (e :: p'), e'. rewrite IH. split; [reflexivity|exact He'].
Qed.

Lemma ttf_eq b :
  take_trailing_fragments b =
  (set_word b (fst (trailing_frags (wword b))) (wordlen b), snd (trailing_frags (wword b))).
Proof. unfold take_trailing_fragments. destruct (trailing_frags (wword b)); reflexivity. Qed.

Lemma ttf_empty b :
  word_is_empty (wword b) = true ->
  take_trailing_fragments b = (set_word b [] (wordlen b), wword b).
Proof. intros H. rewrite ttf_eq, (tfr_empty _ H). reflexivity. Qed.

Lemma take_trailing_fragments_Inv b :
  Inv b ->
  Inv (fst (take_trailing_fragments b)) /\ same_cfg b (fst (take_trailing_fragments b)) /\
  (forall e, In e (snd (take_trailing_fragments b)) -> exists n, e = Frag n).
Proof.
  intros HI. pose proof HI as HI'. apply Inv_iff in HI'. destruct HI' as (HI0 & Hwl & Hehw).
  rewrite ttf_eq. cbn [fst snd].
  split; [|split; [unfold same_cfg; prj; auto|]].
  - apply Inv_iff. prj. split; [apply Inv0_set_word, HI0|]. split.
    + rewrite tfr_fst_vw. exact Hwl.
    + unfold elems_have_width in *. rewrite (tfr_app (wword b)) in Hehw.
      apply Forall_app in Hehw. apply Hehw.
  - intros e. apply tfr_snd_frag.
Qed.

(* ================================================================== *)
(* Exported statements                                                  *)
(* ================================================================== *)

(* Result shape shared by all block-to-block operations.  [good] and
   [total_post] are plain matches on the outcome, so each theorem below reads:
   Ok b' => Inv b' and width/pad_blocks/allow_overflow unchanged;
   TooNarrow => only when allow_overflow b = false; never Panic/OutOfFuel. *)
Definition total_post (b : wblock) (r : res wblock) : Prop :=
  match r with
  | Ok b' => Inv b' /\ wwidth b' = wwidth b /\ pad_blocks b' = pad_blocks b /\
             allow_overflow b' = allow_overflow b
  | TooNarrow => allow_overflow b = false
  | Panic _ => False
  | OutOfFuel => False
  end.

Lemma good_total b r :
  good (allow_overflow b) (fun b' => Inv b' /\ same_cfg b b') r -> total_post b r.
Proof. destruct r; cbn [good total_post]; unfold same_cfg; auto. Qed.

Theorem wb_new_Inv W pad ovf : 1 <= W -> Inv (wb_new W pad ovf).
Proof.
  intros HW. unfold Inv, wb_new. prj. split; [exact HW|]. split; [apply line_ok_new|].
  split; [intros l []|]. split; [reflexivity|]. split; [lia|constructor].
Qed.

Theorem force_flush_line_total b : Inv b -> total_post b (force_flush_line b).
Proof. intros HI. apply good_total, force_flush_line_Inv, HI. Qed.

Theorem flush_line_total b : Inv b -> total_post b (flush_line b).
Proof. intros HI. apply good_total, flush_line_Inv, HI. Qed.

(* flush_word_hard_wrap empties the word but leaves wordlen alone (its caller
   flush_word resets it right after), so Inv is stated modulo that reset. *)
Theorem flush_word_hard_wrap_total b :
  Inv b ->
  match flush_word_hard_wrap b with
  | Ok b' => Inv (set_word b' (wword b') 0) /\ wword b' = [] /\
             wwidth b' = wwidth b /\ pad_blocks b' = pad_blocks b /\
             allow_overflow b' = allow_overflow b
  | TooNarrow => allow_overflow b = false
  | Panic _ => False
  | OutOfFuel => False
  end.
Proof.
  intros HI. apply Inv_iff in HI. destruct HI as (HI0 & Hwl & Hehw).
  pose proof (fwhw_ok b HI0 Hehw) as H.
  destruct (flush_word_hard_wrap b) as [b'| | |]; cbn [good] in H; auto.
  destruct H as ((tx' & ln' & E) & HI'). subst b'. prj.
  split; [|auto]. apply Inv_iff. prj. split; [|split; [reflexivity|constructor]].
  revert HI'. unfold Inv0. prj. tauto.
Qed.

(* The whitespace loop is only ever entered right after flush_line, i.e. with an
   empty current line; without that precondition it can overfill the line
   (e.g. width 5, line length 3, wslen 4). *)
Theorem ws_loop_total b :
  Inv b -> (wslen b = 0 \/ tlen_ (wline b) = 0) ->
  total_post b (ws_loop (S (N.to_nat (wslen b))) b) /\
  (forall b', ws_loop (S (N.to_nat (wslen b))) b = Ok b' -> wslen b' = 0).
Proof.
  intros HI Hor. pose proof HI as HI'. apply Inv_iff in HI'. destruct HI' as (HI0 & Hwl & Hehw).
  pose proof (ws_loop_ok (S (N.to_nat (wslen b))) b HI0 Hor ltac:(lia)) as H.
  destruct (ws_loop (S (N.to_nat (wslen b))) b) as [b'| | |]; cbn [good total_post] in *;
    try (split; [assumption|intros ? [=]]).
  destruct H as ((tx' & ln' & E) & HI2). subst b'. split.
  - prj. split; [|auto]. apply Inv_iff. prj. split; [exact HI2|auto].
  - intros b' [= <-]. reflexivity.
Qed.

(* tab_loop now returns (block, crossed-the-width flag); the statement is about the block. *)
Theorem tab_loop_total b t tw pos one fl :
  Inv b -> tlen_ (wline b) <= pos ->
  total_post b (do r <- tab_loop 40 b t tw pos one fl; Ok (fst r)).
Proof.
  intros HI Hpos. pose proof HI as HI'. apply Inv_iff in HI'. destruct HI' as (HI0 & _).
  apply good_total.
  eapply good_bind with
    (P := fun r => (exists tx' ln', fst r = set_text_line b tx' ln') /\ Inv0 (fst r)).
  - destruct one.
    + apply tab_loop_true_ok; [exact HI0|exact Hpos|]. pose proof (tabm_le pos). lia.
    + apply tab_loop_false_ok; [exact HI0|exact Hpos|lia].
  - intros r ((tx' & ln' & E) & HI2). cbn [good]. rewrite E in *.
    split; [apply Inv_lines; assumption|unfold same_cfg; prj; auto].
Qed.

Theorem flush_word_total b m : Inv b -> total_post b (flush_word b m).
Proof. intros HI. apply good_total, flush_word_ok, HI. Qed.

Theorem add_char_total m t1 t2 b u c :
  Inv b ->
  match add_char m t1 t2 (b, u) c with
  | Ok (b', _) => Inv b' /\ wwidth b' = wwidth b /\ pad_blocks b' = pad_blocks b /\
                  allow_overflow b' = allow_overflow b
  | TooNarrow => allow_overflow b = false
  | Panic _ => False
  | OutOfFuel => False
  end.
Proof.
  intros HI. pose proof (add_char_ok m t1 t2 b u c HI) as H.
  destruct (add_char m t1 t2 (b, u) c) as [[b' u']| | |]; cbn [good fst] in H; auto.
Qed.

Theorem add_chars_total m t1 t2 s b u :
  Inv b ->
  match add_chars m t1 t2 (b, u) s with
  | Ok (b', _) => Inv b' /\ wwidth b' = wwidth b /\ pad_blocks b' = pad_blocks b /\
                  allow_overflow b' = allow_overflow b
  | TooNarrow => allow_overflow b = false
  | Panic _ => False
  | OutOfFuel => False
  end.
Proof.
  intros HI. pose proof (add_chars_ok m t1 t2 s b u HI) as H.
  destruct (add_chars m t1 t2 (b, u) s) as [[b' u']| | |]; cbn [good fst] in H; auto.
Qed.

Theorem wb_add_text_total : forall b s m t1 t2, Inv b ->
  match wb_add_text b s m t1 t2 with
  | Ok b' => Inv b' /\ wwidth b' = wwidth b /\ pad_blocks b' = pad_blocks b /\
             allow_overflow b' = allow_overflow b
  | TooNarrow => allow_overflow b = false
  | Panic _ => False | OutOfFuel => False end.
Proof. intros b s m t1 t2 HI. apply (good_total b), wb_add_text_ok, HI. Qed.

Theorem wb_flush_total b : Inv b -> total_post b (wb_flush b).
Proof. intros HI. apply good_total, wb_flush_ok, HI. Qed.

Theorem wb_into_lines_total : forall b, Inv b ->
  match wb_into_lines b with
  | Ok ls => forall l, In l ls ->
       tlen_ l = tl_width_raw l /\ (allow_overflow b = false -> tl_width_raw l <= wwidth b)
  | TooNarrow => allow_overflow b = false
  | Panic _ => False | OutOfFuel => False end.
Proof.
  intros b HI. pose proof (wb_into_lines_ok b HI) as H.
  destruct (wb_into_lines b); cbn [good] in H; auto.
Qed.

Theorem wb_overflow_never_too_narrow : forall b,
  allow_overflow b = true -> Inv b ->
  (forall s m t1 t2, wb_add_text b s m t1 t2 <> TooNarrow) /\
  wb_into_lines b <> TooNarrow.
Proof.
  intros b Hovf HI. split.
  - intros s m t1 t2 E. pose proof (wb_add_text_total b s m t1 t2 HI) as H.
    rewrite E in H. congruence.
  - intros E. pose proof (wb_into_lines_total b HI) as H. rewrite E in H. congruence.
Qed.

Theorem wb_add_frag_total b n :
  Inv b -> total_post b (Ok (wb_add_element b (Frag n))).
Proof. intros HI. apply good_total. cbn [good]. apply wb_add_frag_Inv, HI. Qed.

Theorem take_trailing_fragments_total b :
  Inv b ->
  total_post b (Ok (fst (take_trailing_fragments b))) /\
  (forall e, In e (snd (take_trailing_fragments b)) -> exists n, e = Frag n).
Proof.
  intros HI. destruct (take_trailing_fragments_Inv b HI) as (A & B & C).
  split; [|exact C]. apply good_total. cbn [good]. auto.
Qed.

(* ------------------------------------------------------------------ *)
(* Whole sequences of calls *)

Inductive call : Type :=
| CText (s : text) (m : wsmode) (main_tag wrap_tag : tag)   (* wb_add_text *)
| CFrag (name : text)                                       (* wb_add_element _ (Frag _) *)
| CTakeFrags.                                               (* take_trailing_fragments *)

Definition do_call (b : wblock) (c : call) : res wblock :=
  match c with
  | CText s m t1 t2 => wb_add_text b s m t1 t2
  | CFrag n => Ok (wb_add_element b (Frag n))
  | CTakeFrags => Ok (fst (take_trailing_fragments b))
  end.

Fixpoint run_calls (b : wblock) (cs : list call) : res wblock :=
  match cs with
  | [] => Ok b
  | c :: cs' => do b' <- do_call b c; run_calls b' cs'
  end.

Definition run (W : N) (pad ovf : bool) (cs : list call) : res (list tline) :=
  do b <- run_calls (wb_new W pad ovf) cs; wb_into_lines b.

Lemma do_call_total b c : Inv b -> total_post b (do_call b c).
Proof.
  intros HI. destruct c; cbn [do_call].
  - apply wb_add_text_total, HI.
  - apply wb_add_frag_total, HI.
  - apply take_trailing_fragments_total, HI.
Qed.

Theorem run_calls_total : forall cs b, Inv b -> total_post b (run_calls b cs).
Proof.
  induction cs as [|c cs IH]; intros b HI; cbn [run_calls].
  - cbn [total_post]. auto.
  - pose proof (do_call_total b c HI) as H.
    destruct (do_call b c) as [b'| | |]; cbn [bind total_post] in *; auto.
    destruct H as (HI' & c1 & c2 & c3). specialize (IH b' HI').
    destruct (run_calls b' cs) as [b''| | |]; cbn [total_post] in *; intuition congruence.
Qed.

Theorem run_total W pad ovf cs :
  1 <= W ->
  match run W pad ovf cs with
  | Ok ls => forall l, In l ls ->
       tlen_ l = tl_width_raw l /\ (ovf = false -> tl_width_raw l <= W)
  | TooNarrow => ovf = false
  | Panic _ => False
  | OutOfFuel => False
  end.
Proof.
  intros HW. unfold run.
  pose proof (run_calls_total cs _ (wb_new_Inv W pad ovf HW)) as H.
  destruct (run_calls (wb_new W pad ovf) cs) as [b| | |]; cbn [bind total_post] in *; auto.
  destruct H as (HI & c1 & c2 & c3). cbn [wb_new wwidth allow_overflow] in c1, c3.
  pose proof (wb_into_lines_total b HI) as H. rewrite c1, c3 in H. exact H.
Qed.

Corollary run_never_panics W pad ovf cs :
  1 <= W ->
  (forall site, run W pad ovf cs <> Panic site) /\ run W pad ovf cs <> OutOfFuel /\
  (ovf = true -> run W pad ovf cs <> TooNarrow) /\
  (ovf = false -> forall ls, run W pad ovf cs = Ok ls ->
     forall l, In l ls -> tl_width_raw l <= W).
Proof.
  intros HW. pose proof (run_total W pad ovf cs HW) as H.
  destruct (run W pad ovf cs) as [ls| | |]; repeat split; try congruence; try contradiction.
  intros Hovf ls' [= <-] l Hin. apply (H l Hin), Hovf.
Qed.

(* ------------------------------------------------------------------ *)
(* Non-vacuity *)

Definition ex_text : text :=
  map (fun c => if c =? 32 then space else mk c 1)
      [97;97;97;32;98;98;98;32;99;99;99;99;99;99;99;32;100].     (* "aaa bbb ccccccc d" *)

Definition ex_block : wblock :=
  match wb_add_text (wb_new 5 false false) ex_text WsNormal [] [] with
  | Ok b => b
  | _ => wb_new 5 false false
  end.

Example ex_block_reached :
  wb_add_text (wb_new 5 false false) ex_text WsNormal [] [] = Ok ex_block /\
  length (wtext ex_block) = 3%nat /\ tlen_ (wline ex_block) = 2 /\
  wslen ex_block = 1 /\ wordlen ex_block = 1.
Proof. vm_compute. repeat split. Qed.

(* direct check of every clause of Inv on that state (not via the theorems) *)
Example ex_block_Inv : Inv ex_block.
Proof.
  assert (E : ex_block = ltac:(let v := eval vm_compute in ex_block in exact v))
    by (vm_compute; reflexivity).
  rewrite E. clear E. unfold Inv. prj.
  split; [lia|].
  split; [split; [vm_compute; reflexivity|cbn [tlen_]; lia]|].
  split.
  { intros l Hin. cbn [In] in Hin.
    repeat (destruct Hin as [<-|Hin];
            [split; [vm_compute; reflexivity|intros _; vm_compute; discriminate]|]).
    contradiction. }
  split; [vm_compute; reflexivity|].
  split; [intros _; discriminate|].
  repeat (constructor; try discriminate).
Qed.

Example ex_run :
  exists ls, run 5 false false [CText ex_text WsNormal [] []; CFrag []] = Ok ls /\
             length ls = 4%nat /\
             map tlen_ ls = [3; 3; 5; 4] /\
             forall l, In l ls -> tl_width_raw l <= 5.
Proof.
  eexists. split; [vm_compute; reflexivity|]. split; [vm_compute; reflexivity|]. split; [vm_compute; reflexivity|].
  intros l Hin.
  repeat (destruct Hin as [<-|Hin]; [vm_compute; discriminate|]). contradiction.
Qed.

(* with overflow allowed a too-wide character still goes through; without it the
   run ends in TooNarrow (so the TooNarrow branch of the theorems is inhabited) *)
Example ex_wide :
  run 1 false false [CText [mk 19990 2] WsNormal [] []] = TooNarrow /\
  exists l, run 1 false true [CText [mk 19990 2] WsNormal [] []] = Ok [l] /\ tl_width_raw l = 2.
Proof. split; [vm_compute; reflexivity|]. eexists. split; vm_compute; reflexivity. Qed.

(* Why the theorems cover wb_add_element only for Frag: pushing a non-empty Str
   through wb_add_element leaves wordlen stale (the model, like the Rust code,
   does not update it), so Inv is NOT preserved and an over-wide line can be
   emitted even with allow_overflow = false. *)
Definition ex_bad : wblock :=
  wb_add_element (wb_new 5 false false) (Str (of_ascii [97;98;99;100;101;102;103;104]) []).
Example ex_add_str_breaks_Inv :
  wordlen ex_bad = 0 /\ word_width (wword ex_bad) = 8 /\
  exists l, wb_into_lines ex_bad = Ok [l] /\ tl_width_raw l = 8.
Proof.
  vm_compute. split; [reflexivity|]. split; [reflexivity|]. eexists. split; reflexivity.
Qed.

(* ------------------------------------------------------------------ *)
(* wb_into_lines_markers: the lines of wb_into_lines, plus the elements left on the unfinished
   last line.  After wb_flush that line has no content (flush_line emits every line that has
   content), so the leftovers are markers (Frag) only.  No invariant is needed for any of this. *)

Lemma wb_into_lines_markers_eq b :
  wb_into_lines_markers b = do b1 <- wb_flush b; Ok (wtext b1, tv (wline b1)).
Proof. reflexivity. Qed.

(* same outcome as wb_into_lines, lines = first component *)
Lemma wb_into_lines_of_markers b :
  wb_into_lines b = do lm <- wb_into_lines_markers b; Ok (fst lm).
Proof. unfold wb_into_lines, wb_into_lines_markers. destruct (wb_flush b); reflexivity. Qed.

Lemma wb_into_lines_markers_fst b lm :
  wb_into_lines_markers b = Ok lm -> wb_into_lines b = Ok (fst lm).
Proof. intros H. rewrite wb_into_lines_of_markers, H. reflexivity. Qed.

Lemma wb_into_lines_markers_ex b ls :
  wb_into_lines b = Ok ls -> exists m, wb_into_lines_markers b = Ok (ls, m).
Proof.
  unfold wb_into_lines, wb_into_lines_markers. destruct (wb_flush b) as [b1| | |]; cbn [bind];
    try discriminate.
  intros [= <-]. eexists. reflexivity.
Qed.

(* failures coincide *)
Lemma wb_into_lines_markers_fail b :
  match wb_into_lines_markers b, wb_into_lines b with
  | Ok lm, Ok ls => ls = fst lm
  | TooNarrow, TooNarrow => True
  | Panic i, Panic j => i = j
  | OutOfFuel, OutOfFuel => True
  | _, _ => False
  end.
Proof. unfold wb_into_lines, wb_into_lines_markers. destruct (wb_flush b); cbn [bind fst]; auto. Qed.

Lemma force_flush_line_empty b b' : force_flush_line b = Ok b' -> wline b' = tl_new.
Proof.
  unfold force_flush_line. intros H.
  destruct (if pad_blocks b then _ else _); cbn [bind] in H; try discriminate.
  injection H as <-. reflexivity.
Qed.

Lemma flush_line_empty b b' : flush_line b = Ok b' -> tl_is_empty (wline b') = true.
Proof.
  unfold flush_line. destruct (tl_is_empty (wline b)) eqn:E; intros H.
  - injection H as <-. exact E.
  - rewrite (force_flush_line_empty _ _ H). reflexivity.
Qed.

Lemma wb_flush_empty b b' : wb_flush b = Ok b' -> tl_is_empty (wline b') = true.
Proof.
  unfold wb_flush. destruct (flush_word b WsNormal); cbn [bind]; try discriminate.
  apply flush_line_empty.
Qed.

Lemma no_content_frags (v : list elem) :
  existsb elem_has_content v = false -> forall e, In e v -> exists n, e = Frag n.
Proof.
  induction v as [|e v IH]; intros H e' He'; [destruct He'|].
  cbn [existsb] in H. apply Bool.orb_false_iff in H. destruct H as [H1 H2].
  destruct He' as [<-|He']; [|apply IH; assumption].
  destruct e as [s t|n]; [discriminate|eexists; reflexivity].
Qed.

(* the leftover elements have no content: they are all markers *)
Lemma wb_into_lines_markers_no_content b lm :
  wb_into_lines_markers b = Ok lm -> existsb elem_has_content (snd lm) = false.
Proof.
  unfold wb_into_lines_markers. destruct (wb_flush b) as [b1| | |] eqn:E; cbn [bind];
    try discriminate.
  intros [= <-]. cbn [snd]. apply wb_flush_empty in E. unfold tl_is_empty in E.
  apply Bool.negb_true_iff in E. exact E.
Qed.

Lemma wb_into_lines_markers_frags b lm :
  wb_into_lines_markers b = Ok lm -> forall e, In e (snd lm) -> exists n, e = Frag n.
Proof. intros H. apply no_content_frags. eapply wb_into_lines_markers_no_content, H. Qed.

Print Assumptions wb_new_Inv.
Print Assumptions force_flush_line_total.
Print Assumptions flush_line_total.
Print Assumptions flush_word_hard_wrap_total.
Print Assumptions ws_loop_total.
Print Assumptions tab_loop_total.
Print Assumptions flush_word_total.
Print Assumptions add_char_total.
Print Assumptions add_chars_total.
Print Assumptions wb_add_text_total.
Print Assumptions wb_flush_total.
Print Assumptions wb_into_lines_total.
Print Assumptions wb_overflow_never_too_narrow.
Print Assumptions wb_add_frag_total.
Print Assumptions take_trailing_fragments_total.
Print Assumptions run_calls_total.
Print Assumptions run_total.
Print Assumptions run_never_panics.
Print Assumptions ex_block_Inv.
Print Assumptions ex_run.
