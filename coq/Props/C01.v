(* Props/C01.v -- totality (model level).  PARTIAL by nature, see DESIGN.md section 6 C01:
   proved here: the word-wrapping state machine (WrappedBlock), which holds all of the
   renderer's unchecked `usize` subtraction, unwrap and loop sites of text_renderer.rs,
   never panics and never runs out of fuel, in every white-space mode, for arbitrary
   characters, tags and interleavings of text, fragment markers and flushes, at every
   width >= 1; with width overflow allowed it never fails at all.
   Not expressible in the model (covered by the harness stress stream only): html5ever,
   native stack depth, wall clock, irregular Unicode sequences. *)
From H2T Require Import Base Tagged Wrap Proofs.WrapInv.

Theorem c01_wrap_never_panics : forall W pad ovf cs,
  1 <= W ->
  (forall site, run W pad ovf cs <> Panic site) /\ run W pad ovf cs <> OutOfFuel /\
  (ovf = true -> run W pad ovf cs <> TooNarrow) /\
  (ovf = false -> forall ls, run W pad ovf cs = Ok ls ->
     forall l, In l ls -> tl_width_raw l <= W).
Proof. exact WrapInv.run_never_panics. Qed.
Check c01_wrap_never_panics : forall W pad ovf cs,
  1 <= W ->
  (forall site, run W pad ovf cs <> Panic site) /\ run W pad ovf cs <> OutOfFuel /\
  (ovf = true -> run W pad ovf cs <> TooNarrow) /\
  (ovf = false -> forall ls, run W pad ovf cs = Ok ls ->
     forall l, In l ls -> tl_width_raw l <= W).
Print Assumptions c01_wrap_never_panics.

(* one step: the invariant is preserved by every text insertion, in every mode *)
Theorem c01_add_text_total : forall b s m t1 t2, Inv b ->
  match wb_add_text b s m t1 t2 with
  | Ok b' => Inv b' /\ wwidth b' = wwidth b /\ pad_blocks b' = pad_blocks b /\ allow_overflow b' = allow_overflow b
  | TooNarrow => allow_overflow b = false
  | Panic _ => False | OutOfFuel => False end.
Proof. exact WrapInv.wb_add_text_total. Qed.
Print Assumptions c01_add_text_total.

Theorem c01_inv_initially : forall W pad ovf, 1 <= W -> Inv (wb_new W pad ovf).
Proof. exact WrapInv.wb_new_Inv. Qed.
Print Assumptions c01_inv_initially.

(* ---------- render layer, DOM layer and public routes (Proofs/RenderTotal.v) ----------
   okish r := r is Ok or TooNarrow.  Side conditions are decidable booleans; see DESIGN.md 11.4
   for why each is needed (counterexamples cex_* in RenderTotal.v). *)
From H2T Require Import Sub Css Dom Render Api Proofs.WrapInv Proofs.RenderWidth Proofs.RenderTotal.
From H2T Require CssParse.
Theorem c01_render_tree_total :
  forall (d : deco) (min_wrap : N) (o : ropts) (width : N) (tree : rnode),
       width < usize_max ->
       tree_wf d min_wrap tree = true ->
       match render_tree d min_wrap o width tree with
       | Ok s => okish (sub_into_lines s) /\ okish (sub_into_string s)
       | TooNarrow => True
       | _ => False
       end.
Proof. exact RenderTotal.c01_render_tree_total. Qed.
Print Assumptions c01_render_tree_total.

Theorem c01_routes_total_css :
  forall (c : config) (doc : list node) (w : N),
       w < usize_max ->
       dom_ok doc = true ->
       est_side CssParse.inline_styles CssParse.doc_rules c doc = true ->
       okish (lines_from_read CssParse.inline_styles CssParse.doc_rules c doc w) /\
       okish (string_from_read CssParse.inline_styles CssParse.doc_rules c doc w).
Proof. exact RenderTotal.c01_routes_total_css. Qed.
Print Assumptions c01_routes_total_css.

Theorem c01_to_render_tree_total_css :
  forall (c : config) (doc : list node),
       dom_ok doc = true ->
       okp (fun tree : rnode => wfs tree = true)
         (to_render_tree CssParse.inline_styles CssParse.doc_rules c doc).
Proof. exact RenderTotal.c01_to_render_tree_total_css. Qed.
Print Assumptions c01_to_render_tree_total_css.


(* the unwrap in RenderTable::new cannot fail (Proofs/TableRows.v): for every document the DOM ->
   render tree step never panics at that site (colspan 0 is repaired by the tbody pass first) *)
From H2T Require Import Base Tagged Wrap Sub Css Dom Render Api CssParse Proofs.CssTotal Proofs.WrapInv Proofs.RenderWidth Proofs.Conserve Proofs.Footnotes Proofs.AnnBalance Proofs.RenderConserve Proofs.OptionRel Proofs.Compose Proofs.RenderTotal Proofs.FragStream Proofs.SimRel Proofs.Prune Proofs.TableRows.

Theorem process_no_panic32_real :
  forall (sd : styledata) (udc : bool) (n : node) (p : list anc) (idx : Z),
       process sd udc inline_styles n p idx <> Panic 32.
Proof. exact TableRows.process_no_panic32_real. Qed.
Print Assumptions process_no_panic32_real.

Theorem dom_to_render_tree_no_panic32_real :
  forall (sd : styledata) (udc : bool) (doc : list node),
       dom_to_render_tree sd udc inline_styles doc <> Panic 32.
Proof. exact TableRows.dom_to_render_tree_no_panic32_real. Qed.
Print Assumptions dom_to_render_tree_no_panic32_real.

