(* Props/C02.v -- no line wider than the width (model level).
   Proved here (layer 1 of DESIGN.md section 6 C02): every line a WrappedBlock of width W
   emits is at most W columns wide when width overflow is not allowed, in every
   white-space mode, for arbitrary text (wide, zero-width, control characters), tags,
   fragment markers; the separately maintained length field always equals the
   recomputed width.  The lift through sub-renderers, prefixes and table rows is the
   correspondence-checked part (see evidence). *)
From H2T Require Import Base Tagged Wrap Proofs.WrapInv.

Theorem c02_wrap_lines_le : forall W pad cs,
  1 <= W ->
  match run W pad false cs with
  | Ok ls => forall l, In l ls -> tlen_ l = tl_width_raw l /\ tl_width_raw l <= W
  | TooNarrow => True
  | Panic _ => False
  | OutOfFuel => False
  end.
Proof.
  intros W pad cs HW. pose proof (WrapInv.run_total W pad false cs HW) as H.
  destruct (run W pad false cs); auto.
  intros l Hl. destruct (H l Hl) as [H1 H2]. split; [exact H1|apply H2; reflexivity].
Qed.
Check c02_wrap_lines_le : forall W pad cs,
  1 <= W ->
  match run W pad false cs with
  | Ok ls => forall l, In l ls -> tlen_ l = tl_width_raw l /\ tl_width_raw l <= W
  | TooNarrow => True
  | Panic _ => False
  | OutOfFuel => False
  end.
Print Assumptions c02_wrap_lines_le.

Theorem c02_into_lines_le : forall b, Inv b ->
  match wb_into_lines b with
  | Ok ls => forall l, In l ls -> tlen_ l = tl_width_raw l /\ (allow_overflow b = false -> tl_width_raw l <= wwidth b)
  | TooNarrow => allow_overflow b = false
  | Panic _ => False | OutOfFuel => False end.
Proof. exact WrapInv.wb_into_lines_total. Qed.
Print Assumptions c02_into_lines_le.
