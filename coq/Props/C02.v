(* Props/C02.v -- no line wider than the width (model level).
   Proved here (layer 1 of DESIGN.md section 6 C02): every line a WrappedBlock of width W
   emits is at most W columns wide when width overflow is not allowed, in every
   white-space mode, for arbitrary text (wide, zero-width, control characters), tags,
   fragment markers; the separately maintained length field always equals the
   recomputed width.  The lift through sub-renderers, prefixes and table rows is the
   correspondence-checked part (see evidence). *)
From H2T Require Import Base Tagged Wrap Proofs.WrapInv.

Theorem c02_wrap_lines_le : forall W pad cs,
  1 <= W ->
  match run W pad false cs with
  | Ok ls => forall l, In l ls -> tlen_ l = tl_width_raw l /\ tl_width_raw l <= W
  | TooNarrow => True
  | Panic _ => False
  | OutOfFuel => False
  end.
Proof.
  intros W pad cs HW. pose proof (WrapInv.run_total W pad false cs HW) as H.
  destruct (run W pad false cs); auto.
  intros l Hl. destruct (H l Hl) as [H1 H2]. split; [exact H1|apply H2; reflexivity].
Qed.
Check c02_wrap_lines_le : forall W pad cs,
  1 <= W ->
  match run W pad false cs with
  | Ok ls => forall l, In l ls -> tlen_ l = tl_width_raw l /\ tl_width_raw l <= W
  | TooNarrow => True
  | Panic _ => False
  | OutOfFuel => False
  end.
Print Assumptions c02_wrap_lines_le.

Theorem c02_into_lines_le : forall b, Inv b ->
  match wb_into_lines b with
  | Ok ls => forall l, In l ls -> tlen_ l = tl_width_raw l /\ (allow_overflow b = false -> tl_width_raw l <= wwidth b)
  | TooNarrow => allow_overflow b = false
  | Panic _ => False | OutOfFuel => False end.
Proof. exact WrapInv.wb_into_lines_total. Qed.
Print Assumptions c02_into_lines_le.

(* ---------- the whole renderer (Proofs/RenderWidth.v) ----------
   Every line of every sub-renderer produced by render_tree -- blocks, prefixes
   (blockquote, lists with padded markers, dt/dd), pre, tables (horizontal and vertical
   layout, nested), borders, footnote lists -- is at most `width` columns wide when
   overflow is not allowed.  Side conditions, all decidable (the harness checker treats
   an over-wide line outside them -- the wide link-target character -- as the recorded finding):
   - the decorator's ordered-list prefix width is monotone in the number
     (proved below for the three shipped decorators);
   - when footnotes are on, link wrapping is on and no single link-target character
     is wider than the width (tree_ok); the complement is the recorded finding
     C02 footnote_wide_char;
   - <ol start> above i64::MIN (the numbering arithmetic saturates upward only). *)
From H2T Require Import Sub Css Dom Render Api Proofs.RenderWidth.

Theorem c02_render_width_bound :
  forall (d : deco) (min_wrap : N) (o : ropts) (width : N) (tree : rnode) (s : subr),
  ol_prefix_monotone d -> ol_prefix_sat d ->
  o_allow_overflow o = false ->
  (o_footnotes o = true -> o_wrap_links o = true) ->
  1 <= width ->
  c02_side o width tree = true ->
  render_tree d min_wrap o width tree = Ok s ->
  forall ls, sub_into_lines s = Ok ls -> forall r, In r ls -> rline_width r <= width.
Proof. exact RenderWidth.c02_render_width_bound. Qed.
Print Assumptions c02_render_width_bound.

(* with footnotes off there is no side condition on the text at all besides <ol start> *)
Theorem c02_render_width_bound_w2 :
  forall (d : deco) (min_wrap : N) (o : ropts) (width : N) (tree : rnode) (s : subr),
  ol_prefix_monotone d -> ol_prefix_sat d ->
  o_allow_overflow o = false ->
  (o_footnotes o = true -> o_wrap_links o = true) ->
  2 <= width ->
  c02_side o 2 tree = true ->
  render_tree d min_wrap o width tree = Ok s ->
  forall ls, sub_into_lines s = Ok ls -> forall r, In r ls -> rline_width r <= width.
Proof. exact RenderWidth.c02_render_width_bound_w2. Qed.
Print Assumptions c02_render_width_bound_w2.

(* the public route: parse result -> render tree -> lines *)
Theorem c02_lines_from_read :
  forall inline_styles doc_rules (c : config) (doc : list node) (w : N) (ls : list tline),
  ol_prefix_monotone (c_deco c) -> ol_prefix_sat (c_deco c) ->
  c_overflow c = false ->
  (c_footnotes c = true -> c_wrap_links c = true) ->
  c02_doc_side inline_styles doc_rules c doc w = true ->
  lines_from_read inline_styles doc_rules c doc w = Ok ls ->
  forall l, In l ls -> tl_width_raw l <= w.
Proof. exact RenderWidth.c02_lines_from_read. Qed.
Print Assumptions c02_lines_from_read.

Theorem c02_shipped_decorators_ok :
  (ol_prefix_monotone plain_deco /\ ol_prefix_sat plain_deco) /\
  (ol_prefix_monotone rich_deco /\ ol_prefix_sat rich_deco) /\
  (ol_prefix_monotone trivial_deco /\ ol_prefix_sat trivial_deco).
Proof.
  repeat split.
  - exact RenderWidth.ol_prefix_monotone_plain.
  - exact RenderWidth.ol_prefix_sat_plain.
  - exact RenderWidth.ol_prefix_monotone_rich.
  - exact RenderWidth.ol_prefix_sat_rich.
  - exact RenderWidth.ol_prefix_monotone_trivial.
  - exact RenderWidth.ol_prefix_sat_trivial.
Qed.
Print Assumptions c02_shipped_decorators_ok.
