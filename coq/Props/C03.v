(* Props/C03.v -- document text is preserved (WrappedBlock layer, every mode, width, tags).
   Proofs: Proofs/Conserve.v.  PARTIAL: the lift through sub-renderers/tables and the
   DOM -> render-tree filtering is carried by the correspondence run (labelled model
   route) and the direct checker on the trivial decorator. *)
From H2T Require Import Base Tagged Wrap Proofs.Conserve.

(* the non-whitespace characters of the output lines are exactly the kept characters of all
   the text added, in order, each exactly once (provenance labels included) *)
Theorem c03_run_conserves : forall W pad ovf (calls : list (text * wsmode * tag * tag)) ls,
  (do b <- fold_left (fun rb c => do b <- rb; let '(s, m, t1, t2) := c in wb_add_text b s m t1 t2)
                     calls (Ok (wb_new W pad ovf));
   wb_into_lines b) = Ok ls ->
  filter (fun c => negb (ws c)) (flat_map tl_string ls) = flat_map (fun c => kept (fst (fst (fst c)))) calls.
Proof. exact Conserve.c03_run_conserves. Qed.
Print Assumptions c03_run_conserves.

(* the only characters the block invents are spaces *)
Theorem c03_only_spaces_invented : forall W pad ovf (calls : list (text * wsmode * tag * tag)) ls,
  (do b <- fold_left (fun rb c => do b <- rb; let '(s, m, t1, t2) := c in wb_add_text b s m t1 t2)
                     calls (Ok (wb_new W pad ovf));
   wb_into_lines b) = Ok ls ->
  forall c, In c (flat_map tl_string ls) -> ws c = true -> cp c = 32.
Proof. exact Conserve.c03_only_spaces_invented. Qed.
Print Assumptions c03_only_spaces_invented.

(* ---------- tree level (Proofs/RenderConserve.v): document characters are neither lost, duplicated nor reordered ----------
   docp c = not whitespace, has a width entry, provenance label >= 16 (a document character).
   (A) table-free trees: exact order; (B) raw mode: exact order with tables; (C) any tree: multiset,
   minus the cells the layout skips (recorded finding). *)
From H2T Require Import Sub Css Dom Render Api Proofs.WrapInv Proofs.RenderWidth Proofs.Conserve Proofs.Footnotes Proofs.RenderConserve.
Theorem c03_render_node_no_table :
  forall (d : deco) (mw : N) (n : rnode) (st st' : rstate) (s : subr) (rest : list subr),
       prefix_made d ->
       no_table n = true ->
       stack st = s :: rest ->
       Iv s ->
       render_node d mw n st = Ok st' ->
       exists s' : subr,
         stack st' = s' :: rest /\
         swidth_ s' = swidth_ s /\
         sopts s' = sopts s /\ Iv s' /\ out_stream s' = out_stream s ++ doc_stream d n.
Proof. exact RenderConserve.c03_render_node_no_table. Qed.
Print Assumptions c03_render_node_no_table.

Theorem c03_render_tree_no_table :
  forall (d : deco) (mw : N) (o : ropts) (width : N) (tree : rnode) (s : subr),
       prefix_made d ->
       no_table tree = true ->
       render_tree d mw o width tree = Ok s ->
       out_stream s = doc_stream d tree /\
       (forall ls : list rline,
        sub_into_lines s = Ok ls -> filter docp (flat_map rline_string ls) = doc_stream d tree).
Proof. exact RenderConserve.c03_render_tree_no_table. Qed.
Print Assumptions c03_render_tree_no_table.

Theorem c03_render_tree_raw :
  forall (d : deco) (mw : N) (o : ropts) (width : N) (tree : rnode) (s : subr),
       prefix_made d ->
       o_raw o = true ->
       render_tree d mw o width tree = Ok s ->
       out_stream s = tree_stream d mw o tree width /\
       (forall ls : list rline,
        sub_into_lines s = Ok ls -> filter docp (flat_map rline_string ls) = tree_stream d mw o tree width).
Proof. exact RenderConserve.c03_render_tree_raw. Qed.
Print Assumptions c03_render_tree_raw.

Theorem c03_render_tree_perm :
  forall (d : deco) (mw : N) (o : ropts) (width : N) (tree : rnode) (s : subr),
       prefix_made d ->
       Forall posw (tree_stream d mw o tree width) ->
       render_tree d mw o width tree = Ok s ->
       Permutation.Permutation (out_stream s) (tree_stream d mw o tree width) /\
       (forall ls : list rline,
        sub_into_lines s = Ok ls ->
        Permutation.Permutation (filter docp (flat_map rline_string ls)) (tree_stream d mw o tree width)).
Proof. exact RenderConserve.c03_render_tree_perm. Qed.
Print Assumptions c03_render_tree_perm.

Theorem c03_lines_from_read :
  forall (ist : list (text * text) -> res (list styledecl)) (dr : list node -> res (list ruleset))
         (c : config) (doc : list node) (width : N) (tree : rnode) (tls : list tline),
       deco_made (c_deco c) ->
       to_render_tree ist dr c doc = Ok tree ->
       no_table tree = true ->
       lines_from_read ist dr c doc width = Ok tls -> filter docp (flat_map tl_string tls) = leaf_stream tree.
Proof. exact RenderConserve.c03_lines_from_read. Qed.
Print Assumptions c03_lines_from_read.

Theorem c03_string_from_read :
  forall (ist : list (text * text) -> res (list styledecl)) (dr : list node -> res (list ruleset))
         (c : config) (doc : list node) (width : N) (tree : rnode) (t : text),
       deco_made (c_deco c) ->
       to_render_tree ist dr c doc = Ok tree ->
       no_table tree = true -> string_from_read ist dr c doc width = Ok t -> filter docp t = leaf_stream tree.
Proof. exact RenderConserve.c03_string_from_read. Qed.
Print Assumptions c03_string_from_read.

Theorem tree_stream_subseq :
  forall (d : deco) (mw : N) (o : ropts) (n : rnode) (w : N),
       subseq (tree_stream d mw o n w) (doc_stream d n).
Proof. exact RenderConserve.tree_stream_subseq. Qed.
Print Assumptions tree_stream_subseq.

Theorem deco_made_plain :
  deco_made plain_deco.
Proof. exact RenderConserve.deco_made_plain. Qed.
Print Assumptions deco_made_plain.

Theorem deco_made_rich :
  deco_made rich_deco.
Proof. exact RenderConserve.deco_made_rich. Qed.
Print Assumptions deco_made_rich.

Theorem deco_made_trivial :
  deco_made trivial_deco.
Proof. exact RenderConserve.deco_made_trivial. Qed.
Print Assumptions deco_made_trivial.


(* ---------- DOM level (Proofs/DomRel.v): the document characters of the render tree are the visible characters of the DOM ----------
   dom_visible = text nodes and alt texts of images with a src, outside the skipped elements; dom_regular excludes exactly the recorded
   losses (loose text in ol/dl/table parts, tfoot/caption) and table elements outside a table; doc_plain: nothing hidden by CSS, no
   digits-only <sup>. *)
From H2T Require Import Sub Css Dom Render Api CssParse Proofs.WrapInv Proofs.RenderWidth Proofs.Conserve Proofs.Footnotes Proofs.RenderConserve Proofs.OptionRel Proofs.Compose Proofs.FragStream Proofs.SimRel Proofs.Prune Proofs.DomRel.
Theorem c03_dom_visible :
  forall (inline_styles : list (text * text) -> res (list styledecl))
         (doc_rules : list node -> res (list ruleset)) (c : config) (doc : list node) 
         (tree : rnode),
       dom_regular doc = true ->
       doc_plain inline_styles doc_rules c doc = true ->
       to_render_tree inline_styles doc_rules c doc = Ok tree -> leaf_stream tree = dom_visible doc.
Proof. exact DomRel.c03_dom_visible. Qed.
Print Assumptions c03_dom_visible.

Theorem c03_dom_doc_stream :
  forall (inline_styles : list (text * text) -> res (list styledecl))
         (doc_rules : list node -> res (list ruleset)) (c : config) (doc : list node) 
         (tree : rnode),
       deco_made (c_deco c) ->
       dom_regular doc = true ->
       doc_plain inline_styles doc_rules c doc = true ->
       to_render_tree inline_styles doc_rules c doc = Ok tree -> doc_stream (c_deco c) tree = dom_visible doc.
Proof. exact DomRel.c03_dom_doc_stream. Qed.
Print Assumptions c03_dom_doc_stream.

Theorem c03_dom_string :
  forall (inline_styles : list (text * text) -> res (list styledecl))
         (doc_rules : list node -> res (list ruleset)) (c : config) (doc : list node) 
         (width : N) (t : text),
       deco_made (c_deco c) ->
       dom_regular doc = true ->
       dom_ntab doc = true ->
       doc_plain inline_styles doc_rules c doc = true ->
       string_from_read inline_styles doc_rules c doc width = Ok t -> filter docp t = dom_visible doc.
Proof. exact DomRel.c03_dom_string. Qed.
Print Assumptions c03_dom_string.

Theorem c03_dom_lines :
  forall (inline_styles : list (text * text) -> res (list styledecl))
         (doc_rules : list node -> res (list ruleset)) (c : config) (doc : list node) 
         (width : N) (tls : list tline),
       deco_made (c_deco c) ->
       dom_regular doc = true ->
       dom_ntab doc = true ->
       doc_plain inline_styles doc_rules c doc = true ->
       lines_from_read inline_styles doc_rules c doc width = Ok tls ->
       filter docp (flat_map tl_string tls) = dom_visible doc.
Proof. exact DomRel.c03_dom_lines. Qed.
Print Assumptions c03_dom_lines.

Theorem c03_dom_string_syntactic :
  forall (inline_styles : list (text * text) -> res (list styledecl))
         (doc_rules : list node -> res (list ruleset)) (c : config) (doc : list node) 
         (width : N) (t : text),
       deco_made (c_deco c) ->
       c_use_doc_css c = false ->
       sheet_no_hide (c_sd c) = true ->
       dom_regular doc = true ->
       dom_ntab doc = true ->
       dom_nsd doc = true ->
       string_from_read inline_styles doc_rules c doc width = Ok t -> filter docp t = dom_visible doc.
Proof. exact DomRel.c03_dom_string_syntactic. Qed.
Print Assumptions c03_dom_string_syntactic.

