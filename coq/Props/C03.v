(* Props/C03.v -- document text is preserved (WrappedBlock layer, every mode, width, tags).
   Proofs: Proofs/Conserve.v.  PARTIAL: the lift through sub-renderers/tables and the
   DOM -> render-tree filtering is carried by the correspondence run (labelled model
   route) and the direct checker on the trivial decorator. *)
From H2T Require Import Base Tagged Wrap Proofs.Conserve.

(* the non-whitespace characters of the output lines are exactly the kept characters of all
   the text added, in order, each exactly once (provenance labels included) *)
Theorem c03_run_conserves : forall W pad ovf (calls : list (text * wsmode * tag * tag)) ls,
  (do b <- fold_left (fun rb c => do b <- rb; let '(s, m, t1, t2) := c in wb_add_text b s m t1 t2)
                     calls (Ok (wb_new W pad ovf));
   wb_into_lines b) = Ok ls ->
  filter (fun c => negb (ws c)) (flat_map tl_string ls) = flat_map (fun c => kept (fst (fst (fst c)))) calls.
Proof. exact Conserve.c03_run_conserves. Qed.
Print Assumptions c03_run_conserves.

(* the only characters the block invents are spaces *)
Theorem c03_only_spaces_invented : forall W pad ovf (calls : list (text * wsmode * tag * tag)) ls,
  (do b <- fold_left (fun rb c => do b <- rb; let '(s, m, t1, t2) := c in wb_add_text b s m t1 t2)
                     calls (Ok (wb_new W pad ovf));
   wb_into_lines b) = Ok ls ->
  forall c, In c (flat_map tl_string ls) -> ws c = true -> cp c = 32.
Proof. exact Conserve.c03_only_spaces_invented. Qed.
Print Assumptions c03_only_spaces_invented.
