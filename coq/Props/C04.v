(* Props/C04.v -- property theorems for C04 (paragraph wrapping is exactly greedy word
   filling).  Only statements, closed by `exact`, pinned by Check, assumptions printed.
   Proofs: Proofs/GreedyProof.v.  Reference wrapper: Spec/Greedy.v. *)
From H2T Require Import Base Tagged Wrap Spec.Greedy Proofs.GreedyProof.

(* For every width, every text and every way of splitting it into calls with arbitrary
   tags (text nodes / inline elements), the lines the WrappedBlock model emits in normal
   mode are those of the reference greedy wrapper, and it fails with TooNarrow exactly
   when the reference does; never Panic, never OutOfFuel. *)
Theorem c04_greedy : forall (W : N) (calls : list (text * tag)),
  1 <= W -> all_words_pos (concat (map fst calls)) ->
  impl_lines W calls = greedy W (words_of (concat (map fst calls))).
Proof. exact GreedyProof.c04_greedy. Qed.
Check c04_greedy : forall (W : N) (calls : list (text * tag)),
  1 <= W -> all_words_pos (concat (map fst calls)) ->
  impl_lines W calls = greedy W (words_of (concat (map fst calls))).
Print Assumptions c04_greedy.

(* The result does not depend on how the text is split over nodes and inline elements. *)
Theorem c04_split_independent : forall W calls1 calls2, 1 <= W ->
  concat (map fst calls1) = concat (map fst calls2) ->
  all_words_pos (concat (map fst calls1)) ->
  impl_lines W calls1 = impl_lines W calls2.
Proof. exact GreedyProof.c04_split_independent. Qed.
Print Assumptions c04_split_independent.

(* never a panic or a hang *)
Theorem c04_no_panic : forall W calls,
  1 <= W -> all_words_pos (concat (map fst calls)) ->
  match impl_lines W calls with Ok _ | TooNarrow => True | _ => False end.
Proof. exact GreedyProof.c04_no_panic. Qed.
Print Assumptions c04_no_panic.

(* the hypotheses are satisfiable and the conclusion is non-trivial: a concrete run
   (wide, zero-width and control characters, two differently tagged calls, a word that
   must be hard-wrapped) yielding three lines *)
Theorem c04_nonvacuous :
  1 <= 5 /\ all_words_pos (concat (map fst ex_calls)) /\
  impl_lines 5 ex_calls =
    Ok [ [ex_a; ex_b];
         [ex_wide; ex_zw; ex_c; ex_d; ex_e];
         [ex_f; ex_g; ex_h; spacel L_space; ex_i] ].
Proof. exact GreedyProof.c04_nonvacuous. Qed.
Print Assumptions c04_nonvacuous.
