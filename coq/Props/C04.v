(* Props/C04.v -- property theorems for C04 (paragraph wrapping is exactly greedy word
   filling).  Only statements, closed by `exact`, pinned by Check, assumptions printed.
   Proofs: Proofs/GreedyProof.v.  Reference wrapper: Spec/Greedy.v. *)
From H2T Require Import Base Tagged Wrap Spec.Greedy Proofs.GreedyProof.

(* For every width, every text and every way of splitting it into calls with arbitrary
   tags (text nodes / inline elements), the lines the WrappedBlock model emits in normal
   mode are those of the reference greedy wrapper, and it fails with TooNarrow exactly
   when the reference does; never Panic, never OutOfFuel. *)
Theorem c04_greedy : forall (W : N) (calls : list (text * tag)),
  1 <= W -> all_words_pos (concat (map fst calls)) ->
  impl_lines W calls = greedy W (words_of (concat (map fst calls))).
Proof. exact GreedyProof.c04_greedy. Qed.
Check c04_greedy : forall (W : N) (calls : list (text * tag)),
  1 <= W -> all_words_pos (concat (map fst calls)) ->
  impl_lines W calls = greedy W (words_of (concat (map fst calls))).
Print Assumptions c04_greedy.

(* The result does not depend on how the text is split over nodes and inline elements. *)
Theorem c04_split_independent : forall W calls1 calls2, 1 <= W ->
  concat (map fst calls1) = concat (map fst calls2) ->
  all_words_pos (concat (map fst calls1)) ->
  impl_lines W calls1 = impl_lines W calls2.
Proof. exact GreedyProof.c04_split_independent. Qed.
Print Assumptions c04_split_independent.

(* never a panic or a hang *)
Theorem c04_no_panic : forall W calls,
  1 <= W -> all_words_pos (concat (map fst calls)) ->
  match impl_lines W calls with Ok _ | TooNarrow => True | _ => False end.
Proof. exact GreedyProof.c04_no_panic. Qed.
Print Assumptions c04_no_panic.

(* the hypotheses are satisfiable and the conclusion is non-trivial: a concrete run
   (wide, zero-width and control characters, two differently tagged calls, a word that
   must be hard-wrapped) yielding three lines *)
Theorem c04_nonvacuous :
  1 <= 5 /\ all_words_pos (concat (map fst ex_calls)) /\
  impl_lines 5 ex_calls =
    Ok [ [ex_a; ex_b];
         [ex_wide; ex_zw; ex_c; ex_d; ex_e];
         [ex_f; ex_g; ex_h; spacel L_space; ex_i] ].
Proof. exact GreedyProof.c04_nonvacuous. Qed.
Print Assumptions c04_nonvacuous.

(* ---------- the whole renderer on a paragraph (Proofs/ParaGreedy.v): the lines are exactly the reference greedy wrapping of the flow's text (leaf texts, decorator affixes, references), same TooNarrow outcome; also behind one prefix ---------- *)
From H2T Require Import Base Tagged Wrap Sub Css Dom Render Api CssParse Proofs.CssTotal Proofs.WrapInv Proofs.RenderWidth Proofs.Conserve Proofs.Footnotes Proofs.AnnBalance Proofs.RenderConserve Proofs.OptionRel Proofs.Compose Proofs.RenderTotal Proofs.FragStream Proofs.SimRel Proofs.Prune Proofs.GreedyProof Proofs.Decorators Proofs.ParaGreedy.
Theorem para_greedy_node :
  forall (d : deco) (mw : N) (n : rnode) (s : subr) (rest : list subr) (lk : list text),
       para n = true ->
       Fresh s ->
       o_pad (sopts s) = false ->
       o_allow_overflow (sopts s) = false ->
       1 <= eff_w (sopts s) (swidth_ s) ->
       GreedyProof.all_words_pos (flow_text d (sopts s) (filter_depth s) n (length lk)) ->
       node_out d mw n {| stack := s :: rest; links := lk |} =
       Greedy.greedy (eff_w (sopts s) (swidth_ s))
         (Greedy.words_of (flow_text d (sopts s) (filter_depth s) n (length lk))).
Proof. exact ParaGreedy.para_greedy_node. Qed.
Print Assumptions para_greedy_node.

Theorem para_greedy_tree :
  forall (d : deco) (mw : N) (o : ropts) (width : N) (tree : rnode),
       para tree = true ->
       o_pad o = false ->
       o_allow_overflow o = false ->
       1 <= eff_w o width ->
       GreedyProof.all_words_pos (flow_text d o 0 tree 0) ->
       match Greedy.greedy (eff_w o width) (Greedy.words_of (flow_text d o 0 tree 0)) with
       | Ok body =>
           exists (s : subr) (ls new : list rline),
             render_tree d mw o width tree = Ok s /\
             sub_into_lines s = Ok ls /\
             strs ls =
             body ++ match foot_links o tree with
                     | [] => []
                     | _ :: _ => blank_after body
                     end ++ strs new /\
             entry_groups (map entry_text (finalise_from 1 (foot_links o tree))) [] new /\
             (o_wrap_links o = false -> strs new = map entry_text (finalise_from 1 (foot_links o tree)))
       | TooNarrow => (do s <- render_tree d mw o width tree; sub_into_lines s) = TooNarrow
       | _ => False
       end.
Proof. exact ParaGreedy.para_greedy_tree. Qed.
Print Assumptions para_greedy_tree.

Theorem para_tree_lines :
  forall (d : deco) (mw : N) (o : ropts) (width : N) (tree : rnode) (s : subr) (ls : list rline),
       para tree = true ->
       o_pad o = false ->
       o_allow_overflow o = false ->
       1 <= eff_w o width ->
       GreedyProof.all_words_pos (flow_text d o 0 tree 0) ->
       render_tree d mw o width tree = Ok s ->
       sub_into_lines s = Ok ls ->
       exists (body : list text) (new : list rline),
         Greedy.greedy (eff_w o width) (Greedy.words_of (flow_text d o 0 tree 0)) = Ok body /\
         strs ls =
         body ++ match foot_links o tree with
                 | [] => []
                 | _ :: _ => blank_after body
                 end ++ strs new /\
         entry_groups (map entry_text (finalise_from 1 (foot_links o tree))) [] new /\
         (o_wrap_links o = false -> strs new = map entry_text (finalise_from 1 (foot_links o tree))).
Proof. exact ParaGreedy.para_tree_lines. Qed.
Print Assumptions para_tree_lines.

Theorem quote_para_greedy :
  forall (d : deco) (mw : N) (p : rnode) (sty : cstyle) (s : subr) (lk : list text) (st' : rstate),
       sty_ok sty = true ->
       pre_ok d s (swidth (d_quote_prefix d)) p lk ->
       render_node d mw (RN (IBlockQuote [p]) sty) {| stack := [s]; links := lk |} = Ok st' ->
       exists (b : subr) (body : list text),
         st' = {| stack := [b]; links := lk ++ all_links p |} /\
         Greedy.greedy (inner_w s (swidth (d_quote_prefix d))) (inner_words d s p lk) = Ok body /\
         out_lines b = Ok (map (app (d_quote_prefix d)) body).
Proof. exact ParaGreedy.quote_para_greedy. Qed.
Print Assumptions quote_para_greedy.

Theorem header_para_greedy :
  forall (d : deco) (mw level : N) (p : rnode) (sty : cstyle) (s : subr) (lk : list text) (st' : rstate),
       sty_ok sty = true ->
       pre_ok d s (swidth (d_header_prefix d level)) p lk ->
       render_node d mw (RN (IHeader level [p]) sty) {| stack := [s]; links := lk |} = Ok st' ->
       exists (b : subr) (body : list text),
         st' = {| stack := [b]; links := lk ++ all_links p |} /\
         Greedy.greedy (inner_w s (swidth (d_header_prefix d level))) (inner_words d s p lk) = Ok body /\
         out_lines b = Ok (map (app (d_header_prefix d level)) body).
Proof. exact ParaGreedy.header_para_greedy. Qed.
Print Assumptions header_para_greedy.

Theorem dd_para_greedy :
  forall (d : deco) (mw : N) (p : rnode) (sty : cstyle) (s : subr) (lk : list text) (st' : rstate),
       sty_ok sty = true ->
       pre_ok d s 2 p lk ->
       render_node d mw (RN (IDd [p]) sty) {| stack := [s]; links := lk |} = Ok st' ->
       exists (b : subr) (body : list text),
         st' = {| stack := [b]; links := lk ++ all_links p |} /\
         Greedy.greedy (inner_w s 2) (inner_words d s p lk) = Ok body /\
         out_lines b = Ok (map (app (ptext [32; 32])) body).
Proof. exact ParaGreedy.dd_para_greedy. Qed.
Print Assumptions dd_para_greedy.

Theorem ul_item_greedy :
  forall (d : deco) (mw : N) (p : rnode) (sty : cstyle) (s : subr) (lk : list text) (st' : rstate),
       sty_ok sty = true ->
       pre_ok d s (swidth (d_ul_prefix d)) p lk ->
       render_node d mw (RN (IUl [p]) sty) {| stack := [s]; links := lk |} = Ok st' ->
       exists (b : subr) (body : list text),
         st' = {| stack := [b]; links := lk ++ all_links p |} /\
         Greedy.greedy (inner_w s (swidth (d_ul_prefix d))) (inner_words d s p lk) = Ok body /\
         out_lines b =
         Ok
           (prefixed (d_ul_prefix d) (repeat_chr (spacel L_prefix) (N.to_nat (swidth (d_ul_prefix d)))) body).
Proof. exact ParaGreedy.ul_item_greedy. Qed.
Print Assumptions ul_item_greedy.

