(* Props/C04.v -- property theorems for C04 (greedy word filling).
   This file contains only statements closed by `exact`, pinned by Check, with their
   assumptions printed.  The proofs live in Proofs/. *)
From H2T Require Import Base Tagged Wrap Spec.Greedy.

(* The reference wrapper is total: it never panics or diverges (placeholder obligation
   until Proofs/GreedyProof.v lands; see the end of this file). *)
Lemma hard_chars_no_panic : forall W w ls cur curw,
  match hard_chars W ls cur curw w with Panic _ | OutOfFuel => False | _ => True end.
Proof.
  intros W w; induction w as [|c w IH]; intros ls cur curw; cbn [hard_chars]; [exact I|].
  destruct (curw + cw0 c <=? W); [apply IH|].
  destruct (W <? cw0 c); [exact I|].
  destruct cur; [exact I|apply IH].
Qed.

Definition np {A} (r : res A) : Prop := match r with Panic _ | OutOfFuel => False | _ => True end.
Lemma bind_np {A B} (r : res A) (f : A -> res B) : np r -> (forall a, np (f a)) -> np (bind r f).
Proof. destruct r; cbn; auto. Qed.

Theorem c04_reference_total : forall W ws_,
  match greedy W ws_ with Panic _ | OutOfFuel => False | _ => True end.
Proof.
  intros W ws_. change (np (greedy W ws_)). unfold greedy.
  assert (H : forall st, np (place_words W st ws_)).
  { induction ws_ as [|w ws' IH]; intros st; cbn [place_words]; [exact I|].
    apply bind_np; [|exact IH].
    destruct st as [[ls cur] curw]. unfold place_word.
    destruct cur as [|c0 cur0].
    - destruct (swidth w <=? W); [exact I|apply hard_chars_no_panic].
    - destruct (curw + 1 + swidth w <=? W); [exact I|apply hard_chars_no_panic]. }
  apply bind_np; [apply H|]. intros [[ls cur] cw_]. exact I.
Qed.
Check c04_reference_total : forall W ws_,
  match greedy W ws_ with Panic _ | OutOfFuel => False | _ => True end.
Print Assumptions c04_reference_total.
