From H2T Require Import Base Tagged Wrap Sub Css Dom Render Api Proofs.Small.
(* Props/C05.v -- table borders (model level).  PARTIAL: proved here is the junction algebra
   (a rule position shows exactly the junction recording which bars were joined above and
   below it); the row assembly and nested-table collapsing are covered by the
   correspondence run + grid checker.  See Proofs/TableProof.v when present. *)
Theorem c05_join_above : forall a b, seg_join_above (seg_of a b) = seg_of true b.
Proof. exact seg_join_above_of. Qed.
Print Assumptions c05_join_above.
Theorem c05_join_below : forall a b, seg_join_below (seg_of a b) = seg_of a true.
Proof. exact seg_join_below_of. Qed.
Print Assumptions c05_join_below.
Theorem c05_junction_glyph : forall a b,
  cp (seg_char (seg_of a b)) =
  match a, b with false, false => 9472 | true, false => 9524 | false, true => 9516 | true, true => 9532 end.
Proof. exact seg_char_of. Qed.
Print Assumptions c05_junction_glyph.
