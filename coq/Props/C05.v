From H2T Require Import Base Tagged Wrap Sub Css Dom Render Api Proofs.Small.
(* Props/C05.v -- table borders (model level).  PARTIAL: proved here is the junction algebra
   (a rule position shows exactly the junction recording which bars were joined above and
   below it); the row assembly and nested-table collapsing are covered by the
   correspondence run + grid checker.  See Proofs/TableProof.v when present. *)
Theorem c05_join_above : forall a b, seg_join_above (seg_of a b) = seg_of true b.
Proof. exact seg_join_above_of. Qed.
Print Assumptions c05_join_above.
Theorem c05_join_below : forall a b, seg_join_below (seg_of a b) = seg_of a true.
Proof. exact seg_join_below_of. Qed.
Print Assumptions c05_join_below.
Theorem c05_junction_glyph : forall a b,
  cp (seg_char (seg_of a b)) =
  match a, b with false, false => 9472 | true, false => 9524 | false, true => 9516 | true, true => 9532 end.
Proof. exact seg_char_of. Qed.
Print Assumptions c05_junction_glyph.

From H2T Require Import Proofs.TableProof.
From Coq Require Import Permutation.
(* After ANY sequence of joins on a fresh border, position x shows exactly the junction for
   (x was joined from above, x was joined from below); the border is as long as its width or
   the furthest join. *)
Theorem c05_border_join_spec : forall w ops x,
  nth_opt (fold_left apply_jop ops (border_new w)) (N.to_nat x) =
  if x <? joined_width w ops
  then Some (seg_of (joined_above ops x) (joined_below ops x))
  else None.
Proof. exact TableProof.border_join_spec. Qed.
Print Assumptions c05_border_join_spec.
Theorem c05_border_join_order_irrelevant : forall w ops ops',
  Permutation ops ops' ->
  fold_left apply_jop ops (border_new w) = fold_left apply_jop ops' (border_new w).
Proof. exact TableProof.border_join_comm. Qed.
Print Assumptions c05_border_join_order_irrelevant.
(* the rule between a row with cell widths ws1 (above) and one with ws2 (below) shows, at every
   position, the junction for (bar of the row above here, bar of the row below here) *)
Theorem c05_border_between_rows : forall ws1 ws2 pb nb x,
  let tot := sumN ws1 + (N.of_nat (length ws1) - 1) in
  let mid := snd (join_cols ws1 pb (border_new tot) 0) in
  let mid' := fst (join_cols ws2 mid nb 0) in
  nth_opt mid' (N.to_nat x) =
  if x <? joined_width tot (map JA (bar_positions ws1 0) ++ map JB (bar_positions ws2 0))
  then Some (seg_of (existsb (N.eqb x) (bar_positions ws1 0)) (existsb (N.eqb x) (bar_positions ws2 0)))
  else None.
Proof. exact TableProof.border_between_rows. Qed.
Print Assumptions c05_border_between_rows.
(* every line of a row band is exactly as wide as the sum of its cells plus separators, and the
   j-th bar sits at the j-th bar position, on every line of the band *)
Theorem c05_row_band_width : forall t draw i sets prev1 next1 prev2 sets2 next2 sets3 pads,
  sets_exact sets ->
  collapse_top sets prev1 0 = Ok (prev2, sets2) ->
  collapse_bottom sets2 next1 0 = (next2, sets3, pads) ->
  tl_width_raw (row_line t draw i sets3 pads tl_new) =
  sumN (map fst sets) + (N.of_nat (length sets) - 1).
Proof. exact TableProof.row_band_width. Qed.
Print Assumptions c05_row_band_width.
Theorem c05_row_line_bars : forall t draw i sets pads j x,
  row_ok i sets pads ->
  nth_opt (bar_positions (map fst sets) 0) j = Some x ->
  exists pre post,
    tl_string (row_line t draw i sets pads tl_new) = pre ++ bar draw :: post /\ swidth pre = x.
Proof. exact TableProof.row_line_bars. Qed.
Print Assumptions c05_row_line_bars.
