From H2T Require Import Base Tagged Wrap Sub Css Dom Render Api Proofs.Small.
(* Props/C05.v -- table borders (model level).  PARTIAL: proved here is the junction algebra
   (a rule position shows exactly the junction recording which bars were joined above and
   below it); the row assembly and nested-table collapsing are covered by the
   correspondence run + grid checker.  See Proofs/TableProof.v when present. *)
Theorem c05_join_above : forall a b, seg_join_above (seg_of a b) = seg_of true b.
Proof. exact seg_join_above_of. Qed.
Print Assumptions c05_join_above.
Theorem c05_join_below : forall a b, seg_join_below (seg_of a b) = seg_of a true.
Proof. exact seg_join_below_of. Qed.
Print Assumptions c05_join_below.
Theorem c05_junction_glyph : forall a b,
  cp (seg_char (seg_of a b)) =
  match a, b with false, false => 9472 | true, false => 9524 | false, true => 9516 | true, true => 9532 end.
Proof. exact seg_char_of. Qed.
Print Assumptions c05_junction_glyph.

From H2T Require Import Proofs.TableProof.
From Coq Require Import Permutation.
(* After ANY sequence of joins on a fresh border, position x shows exactly the junction for
   (x was joined from above, x was joined from below); the border is as long as its width or
   the furthest join. *)
Theorem c05_border_join_spec : forall w ops x,
  nth_opt (fold_left apply_jop ops (border_new w)) (N.to_nat x) =
  if x <? joined_width w ops
  then Some (seg_of (joined_above ops x) (joined_below ops x))
  else None.
Proof. exact TableProof.border_join_spec. Qed.
Print Assumptions c05_border_join_spec.
Theorem c05_border_join_order_irrelevant : forall w ops ops',
  Permutation ops ops' ->
  fold_left apply_jop ops (border_new w) = fold_left apply_jop ops' (border_new w).
Proof. exact TableProof.border_join_comm. Qed.
Print Assumptions c05_border_join_order_irrelevant.
(* the rule between a row with cell widths ws1 (above) and one with ws2 (below) shows, at every
   position, the junction for (bar of the row above here, bar of the row below here) *)
Theorem c05_border_between_rows : forall ws1 ws2 pb nb x,
  let tot := sumN ws1 + (N.of_nat (length ws1) - 1) in
  let mid := snd (join_cols ws1 pb (border_new tot) 0) in
  let mid' := fst (join_cols ws2 mid nb 0) in
  nth_opt mid' (N.to_nat x) =
  if x <? joined_width tot (map JA (bar_positions ws1 0) ++ map JB (bar_positions ws2 0))
  then Some (seg_of (existsb (N.eqb x) (bar_positions ws1 0)) (existsb (N.eqb x) (bar_positions ws2 0)))
  else None.
Proof. exact TableProof.border_between_rows. Qed.
Print Assumptions c05_border_between_rows.
(* every line of a row band is exactly as wide as the sum of its cells plus separators, and the
   j-th bar sits at the j-th bar position, on every line of the band *)
Theorem c05_row_band_width : forall t draw i sets prev1 next1 prev2 sets2 next2 sets3 pads,
  sets_exact sets ->
  collapse_top sets prev1 0 = Ok (prev2, sets2) ->
  collapse_bottom sets2 next1 0 = (next2, sets3, pads) ->
  tl_width_raw (row_line t draw i sets3 pads tl_new) =
  sumN (map fst sets) + (N.of_nat (length sets) - 1).
Proof. exact TableProof.row_band_width. Qed.
Print Assumptions c05_row_band_width.
Theorem c05_row_line_bars : forall t draw i sets pads j x,
  row_ok i sets pads ->
  nth_opt (bar_positions (map fst sets) 0) j = Some x ->
  exists pre post,
    tl_string (row_line t draw i sets pads tl_new) = pre ++ bar draw :: post /\ swidth pre = x.
Proof. exact TableProof.row_line_bars. Qed.
Print Assumptions c05_row_line_bars.

(* ---------- the table as rendered by render_node: rule, band, rule, ...; widths, bars, junctions, collapse of nested tables' rules, stacked fallback (Proofs/TableRender.v) ---------- *)
From H2T Require Import Base Tagged Wrap Sub Css Dom Render Api CssParse Proofs.CssTotal Proofs.WrapInv Proofs.RenderWidth Proofs.Conserve Proofs.Footnotes Proofs.AnnBalance Proofs.RenderConserve Proofs.OptionRel Proofs.Compose Proofs.RenderTotal Proofs.FragStream Proofs.SimRel Proofs.Prune Proofs.TableRender.
Theorem table_render_horizontal :
  forall (d : deco) (mw : N),
       ol_prefix_monotone d ->
       ol_prefix_sat d ->
       forall (rows : list rrow) (ncols : N) (sty : cstyle) (tp0 : subr) (rest : list subr) 
         (lk0 : list text) (st' : rstate) (col_widths : list N),
       RenderWidth.tree_ok false 0 (RN (ITable rows ncols) sty) = true ->
       RenderWidth.st_inv false 0 {| stack := tp0 :: rest; links := lk0 |} ->
       ptxt tp0 = [] ->
       o_borders (sopts tp0) = true ->
       table_layout d mw rows ncols (swidth_ tp0) (o_raw (sopts tp0)) = Ok (false, col_widths) ->
       table_width_of false (swidth_ tp0) col_widths <> 0 ->
       render_node d mw (RN (ITable rows ncols) sty) {| stack := tp0 :: rest; links := lk0 |} = Ok st' ->
       exists
         (tp1 : subr) (ps : pushed) (tp2 tpn : subr) (lk' : list text) (rsets : list (list (N * list rline))),
         apply_style d {| stack := tp0 :: rest; links := lk0 |} sty =
         Ok ({| stack := tp1 :: rest; links := lk0 |}, ps) /\
         start_block tp1 = Ok tp2 /\
         rows_run d mw (sopts tp0) col_widths rows lk0 rsets lk' /\
         views (slines tpn) =
         views (slines tp2) ++ table_views (border_new (table_width_of false (swidth_ tp0) col_widths)) rsets /\
         wrapping tpn = None /\
         swidth_ tpn = swidth_ tp0 /\ unwind d ps {| stack := tpn :: rest; links := lk' |} = Ok st'.
Proof. exact TableRender.table_render_horizontal. Qed.
Print Assumptions table_render_horizontal.

Theorem c05_table_regular :
  forall (d : deco) (mw : N),
       ol_prefix_monotone d ->
       ol_prefix_sat d ->
       forall (rows : list rrow) (ncols : N) (sty : cstyle) (tp0 : subr) (rest : list subr) 
         (lk0 : list text) (st' : rstate) (col_widths : list N),
       RenderWidth.tree_ok false 0 (RN (ITable rows ncols) sty) = true ->
       RenderWidth.st_inv false 0 {| stack := tp0 :: rest; links := lk0 |} ->
       ptxt tp0 = [] ->
       o_borders (sopts tp0) = true ->
       table_layout d mw rows ncols (swidth_ tp0) (o_raw (sopts tp0)) = Ok (false, col_widths) ->
       regular_table rows ncols = true ->
       all_pos col_widths = true ->
       ncols <> 0 ->
       render_node d mw (RN (ITable rows ncols) sty) {| stack := tp0 :: rest; links := lk0 |} = Ok st' ->
       let W := sumN col_widths + (ncols - 1) in
       exists
         (tp1 : subr) (ps : pushed) (tp2 tpn : subr) (lk' : list text) (rsets : list (list (N * list rline))),
         apply_style d {| stack := tp0 :: rest; links := lk0 |} sty =
         Ok ({| stack := tp1 :: rest; links := lk0 |}, ps) /\
         start_block tp1 = Ok tp2 /\
         rows_run d mw (sopts tp0) col_widths rows lk0 rsets lk' /\
         views (slines tpn) = views (slines tp2) ++ table_views_j W [] rsets /\
         Forall (fun v : vline => swidth (vline_string v) = W) (table_views_j W [] rsets) /\
         W <= swidth_ tp0 /\
         Forall
           (fun sets : list (N * list rline) =>
            TableProof.sets_exact sets /\
            row_tot sets = W /\
            (forall x : N, In x (row_above sets) -> x + 1 <= W) /\
            (forall x : N, In x (row_below sets) -> x + 1 <= W)) rsets /\
         wrapping tpn = None /\ unwind d ps {| stack := tpn :: rest; links := lk' |} = Ok st'.
Proof. exact TableRender.c05_table_regular. Qed.
Print Assumptions c05_table_regular.

Theorem band_line_bars :
  forall (sets : list (N * list rline)) (k j : nat) (x : N),
       TableProof.sets_exact sets ->
       nth_opt (TableProof.bar_positions (row_ws sets) 0) j = Some x ->
       exists pre post : list chr,
         TableProof.row_text true k (row_sets3 sets) (row_pads sets) = pre ++ vbar :: post /\ swidth pre = x.
Proof. exact TableRender.band_line_bars. Qed.
Print Assumptions band_line_bars.

Theorem row_text_cell :
  forall (draw : bool) (k : nat) (sets : list (N * list rline)) (pads : list (option text)) 
         (j : nat) (w : N) (ls : list rline),
       TableProof.row_ok k sets pads ->
       nth_opt sets j = Some (w, ls) ->
       exists pre post : list chr,
         TableProof.row_text draw k sets pads = pre ++ TableProof.cell_text k w (nth j pads None) ls ++ post /\
         swidth pre = cell_offset (map fst sets) j /\
         swidth (TableProof.cell_text k w (nth j pads None) ls) = w.
Proof. exact TableRender.row_text_cell. Qed.
Print Assumptions row_text_cell.

Theorem table_views_width :
  forall (W : N) (rsets : list (list (N * list rline))) (pb : list seg),
       Forall (fun sets : list (N * list rline) => TableProof.sets_exact sets /\ row_tot sets = W) rsets ->
       N.of_nat (length pb) = W ->
       Forall (fun v : vline => swidth (vline_string v) = W) (table_views pb rsets).
Proof. exact TableRender.table_views_width. Qed.
Print Assumptions table_views_width.

Theorem junction_rule_spec :
  forall (W : N) (A B : list N),
       (forall y : N, In y A -> y + 1 <= W) ->
       (forall y : N, In y B -> y + 1 <= W) ->
       N.of_nat (length (junction_rule W A B)) = W /\
       (forall x : N,
        x < W ->
        nth_opt (junction_rule W A B) (N.to_nat x) =
        Some (Small.seg_of (existsb (N.eqb x) A) (existsb (N.eqb x) B))).
Proof. exact TableRender.junction_rule_spec. Qed.
Print Assumptions junction_rule_spec.

Theorem junction_rule_glyph :
  forall (W : N) (A B : list N) (x : N),
       (forall y : N, In y A -> y + 1 <= W) ->
       (forall y : N, In y B -> y + 1 <= W) ->
       x < W ->
       option_map cp (nth_opt (border_string (junction_rule W A B)) (N.to_nat x)) =
       Some
         (if existsb (N.eqb x) A
          then if existsb (N.eqb x) B then 9532 else 9524
          else if existsb (N.eqb x) B then 9516 else 9472).
Proof. exact TableRender.junction_rule_glyph. Qed.
Print Assumptions junction_rule_glyph.

Theorem table_views_junctions :
  forall (W : N) (rsets : list (list (N * list rline))) (A : list N),
       Forall (fun sets : list (N * list rline) => row_tot sets = W) rsets ->
       table_views (fold_left TableProof.apply_jop (map TableProof.JA A) (border_new W)) rsets =
       table_views_j W A rsets.
Proof. exact TableRender.table_views_junctions. Qed.
Print Assumptions table_views_junctions.

Theorem collapsed_top_in :
  forall (sets : list (N * list rline)) (pos x : N),
       In x (TableProof.collapsed_top sets pos) <->
       (exists (j : nat) (w : N) (sub' : list rline) (line : list seg) (lt : tag) 
        (k : nat) (sg : seg),
          nth_opt sets j = Some (w, RLine line lt :: sub') /\
          nth_opt line k = Some sg /\
          seg_is_join sg = true /\ x = pos + cell_offset (map fst sets) j + N.of_nat k).
Proof. exact TableRender.collapsed_top_in. Qed.
Print Assumptions collapsed_top_in.

Theorem collapsed_bottom_in :
  forall (sets : list (N * list rline)) (pos x : N),
       In x (TableProof.collapsed_bottom sets pos) <->
       (exists (j : nat) (w : N) (sub : list rline) (line : list seg) (lt : tag) 
        (k : nat) (sg : seg),
          nth_opt sets j = Some (w, sub) /\
          olast sub = Some (RLine line lt) /\
          nth_opt line k = Some sg /\
          seg_is_join sg = true /\ x = pos + cell_offset (map fst sets) j + N.of_nat k).
Proof. exact TableRender.collapsed_bottom_in. Qed.
Print Assumptions collapsed_bottom_in.

Theorem collapsed_bottom_bars :
  forall (sets : list (N * list rline)) (j : nat) (w : N) (sub : list rline) 
         (line : list seg) (lt : tag) (k : nat) (sg : seg) (i : nat),
       TableProof.sets_exact sets ->
       nth_opt (top_strip sets) j = Some (w, sub) ->
       olast sub = Some (RLine line lt) ->
       nth_opt line k = Some sg ->
       nth_opt (removelast sub) i = None ->
       (seg_is_join sg = true -> In (cell_offset (row_ws sets) j + N.of_nat k) (row_above sets)) /\
       (exists pre post : list chr,
          TableProof.row_text true i (row_sets3 sets) (row_pads sets) = pre ++ vline_char sg :: post /\
          swidth pre = cell_offset (row_ws sets) j + N.of_nat k).
Proof. exact TableRender.collapsed_bottom_bars. Qed.
Print Assumptions collapsed_bottom_bars.

Theorem row_bars_on_column_boundaries :
  forall (ws_ : list N) (cells : list rcell) (cws : list (option N)) (sets : list (N * list rline)),
       all_pos ws_ = true ->
       cell_widths false ws_ cells 0 = Ok cws ->
       map fst sets = somes cws ->
       forall x : N, In x (TableProof.bar_positions (row_ws sets) 0) -> In x (TableProof.bar_positions ws_ 0).
Proof. exact TableRender.row_bars_on_column_boundaries. Qed.
Print Assumptions row_bars_on_column_boundaries.

Theorem table_render_stacked :
  forall (d : deco) (mw : N),
       ol_prefix_monotone d ->
       ol_prefix_sat d ->
       forall (rows : list rrow) (ncols : N) (sty : cstyle) (tp0 : subr) (rest : list subr) 
         (lk0 : list text) (st' : rstate) (col_widths : list N),
       RenderWidth.tree_ok false 0 (RN (ITable rows ncols) sty) = true ->
       RenderWidth.st_inv false 0 {| stack := tp0 :: rest; links := lk0 |} ->
       ptxt tp0 = [] ->
       table_layout d mw rows ncols (swidth_ tp0) (o_raw (sopts tp0)) = Ok (true, col_widths) ->
       render_node d mw (RN (ITable rows ncols) sty) {| stack := tp0 :: rest; links := lk0 |} = Ok st' ->
       let W := swidth_ tp0 in
       let b := o_borders (sopts tp0) in
       exists
         (tp1 : subr) (ps : pushed) (tp2 tpn : subr) (lk' : list text) (rlines : list (list (list rline))),
         apply_style d {| stack := tp0 :: rest; links := lk0 |} sty =
         Ok ({| stack := tp1 :: rest; links := lk0 |}, ps) /\
         start_block tp1 = Ok tp2 /\
         (forall w : N, In w col_widths -> w = W) /\
         rows_run_v d mw (sopts tp0) W col_widths rows lk0 rlines lk' /\
         strs (slines tpn) =
         strs (slines tp2) ++ (if negb (W =? 0) && b then [hrule W] else []) ++ stacked_strs b W rlines /\
         wrapping tpn = None /\ unwind d ps {| stack := tpn :: rest; links := lk' |} = Ok st'.
Proof. exact TableRender.table_render_stacked. Qed.
Print Assumptions table_render_stacked.

