From H2T Require Import Base Tagged Wrap Sub Css Dom Render Api Proofs.Small.
(* Props/C06.v -- column allocation (model level): whenever the shrink loop returns, the
   column widths plus separators fit the width given to the table. *)
Theorem c06_alloc_fits : forall fuel width mins ws ws',
  shrink_loop fuel width mins ws = Ok ws' ->
  sumN ws' + N.of_nat (length ws') - 1 <= width.
Proof. exact shrink_loop_fits. Qed.
Check c06_alloc_fits : forall fuel width mins ws ws',
  shrink_loop fuel width mins ws = Ok ws' ->
  sumN ws' + N.of_nat (length ws') - 1 <= width.
Print Assumptions c06_alloc_fits.
