From H2T Require Import Base Tagged Wrap Sub Css Dom Render Api Proofs.Small.
(* Props/C06.v -- column allocation (model level): whenever the shrink loop returns, the
   column widths plus separators fit the width given to the table. *)
Theorem c06_alloc_fits : forall fuel width mins ws ws',
  shrink_loop fuel width mins ws = Ok ws' ->
  sumN ws' + N.of_nat (length ws') - 1 <= width.
Proof. exact shrink_loop_fits. Qed.
Check c06_alloc_fits : forall fuel width mins ws ws',
  shrink_loop fuel width mins ws = Ok ws' ->
  sumN ws' + N.of_nat (length ws') - 1 <= width.
Print Assumptions c06_alloc_fits.

From H2T Require Import Proofs.TableProof.
(* The column allocation of a side-by-side table (minimum widths fit): the shrink loop with the
   fuel the renderer passes terminates without panic (no 0-1, no index error, not out of
   fuel), every column ends between its minimum and its content size, and the columns plus
   separators fit the width. *)
Theorem c06_alloc_total : forall width (col_sizes : list est),
  col_sizes <> [] ->
  Forall (fun sz => e_min sz <= e_size sz) col_sizes ->
  sumN (map e_min col_sizes) + (N.of_nat (length col_sizes) - 1) <= width ->
  let tot_size := sumN (map e_size col_sizes) in
  let ws0 := map (col_width_of width tot_size) col_sizes in
  exists ws_,
    shrink_loop (S (N.to_nat (sumN ws0))) width (map e_min col_sizes) ws0 = Ok ws_ /\
    Forall2 (fun sz w => e_min sz <= w <= e_size sz) col_sizes ws_ /\
    sumN ws_ + N.of_nat (length ws_) - 1 <= width.
Proof. exact TableProof.table_col_widths_ok. Qed.
Print Assumptions c06_alloc_total.
(* a column that needs space (positive minimum width) is never allocated zero width *)
Theorem c06_text_column_nonzero : forall width mins ws0 ws_,
  length mins = length ws0 -> ws0 <> [] ->
  Forall2 (fun m w => m <= w) mins ws0 ->
  sumN mins + (N.of_nat (length mins) - 1) <= width ->
  shrink_loop (S (N.to_nat (sumN ws0))) width mins ws0 = Ok ws_ ->
  forall i m w, nth_error mins i = Some m -> nth_error ws_ i = Some w -> 0 < m -> 0 < w.
Proof. exact TableProof.c06_text_column_nonzero. Qed.
Print Assumptions c06_text_column_nonzero.
Theorem c06_table_width_le : forall fuel width mins ws0 ws_,
  shrink_loop fuel width mins ws0 = Ok ws_ ->
  sumN ws_ + (N.of_nat (length (filter (fun w => 0 <? w) ws_)) - 1) <= width.
Proof. exact TableProof.table_width_le. Qed.
Print Assumptions c06_table_width_le.

(* ---------- column allocation as used by render_node's table arm (Proofs/TableRender.v) ---------- *)
From H2T Require Import Base Tagged Wrap Sub Css Dom Render Api CssParse Proofs.CssTotal Proofs.WrapInv Proofs.RenderWidth Proofs.Conserve Proofs.Footnotes Proofs.AnnBalance Proofs.RenderConserve Proofs.OptionRel Proofs.Compose Proofs.RenderTotal Proofs.FragStream Proofs.SimRel Proofs.Prune Proofs.TableRender.
Theorem table_layout_fits :
  forall (d : deco) (mw : N) (rows : list rrow) (ncols width : N) (raw : bool) (col_widths : list N),
       table_layout d mw rows ncols width raw = Ok (false, col_widths) ->
       sumN col_widths + (N.of_nat (length col_widths) - 1) <= width.
Proof. exact TableRender.table_layout_fits. Qed.
Print Assumptions table_layout_fits.

Theorem table_layout_length :
  forall (d : deco) (mw : N) (rows : list rrow) (ncols width : N) (raw vr : bool) (cws : list N),
       table_layout d mw rows ncols width raw = Ok (vr, cws) -> N.of_nat (length cws) = ncols.
Proof. exact TableRender.table_layout_length. Qed.
Print Assumptions table_layout_length.

Theorem c06_column_nonzero :
  forall (d : deco) (mw : N) (rows : list rrow) (ncols width : N) (raw : bool) 
         (col_sizes : list est) (col_widths : list N) (i : nat) (sz : est),
       table_col_sizes d mw rows ncols = Ok col_sizes ->
       table_layout d mw rows ncols width raw = Ok (false, col_widths) ->
       nth_opt col_sizes i = Some sz ->
       0 < e_min sz -> 0 < e_size sz -> exists w : N, nth_opt col_widths i = Some w /\ 0 < w.
Proof. exact TableRender.c06_column_nonzero. Qed.
Print Assumptions c06_column_nonzero.

Theorem c06_text_column_positive :
  forall (d : deco) (mw : N) (rows1 : list rrow) (cells1 : list rcell) (c : rcell) 
         (cells2 : list rcell) (rsty : cstyle) (rows2 : list rrow) (ncols width : N) 
         (raw : bool) (col_widths : list N) (ce : est) (k : nat),
       let rows := rows1 ++ RRow (cells1 ++ c :: cells2) rsty :: rows2 in
       let cspan := cell_colspan c in
       let col0 := sumN (map cell_colspan cells1) in
       table_layout d mw rows ncols width raw = Ok (false, col_widths) ->
       est_kids d mw (cell_content c) = Ok ce ->
       (N.to_nat col0 <= k < N.to_nat col0 + N.to_nat cspan)%nat ->
       cspan <= e_size ce -> cspan <= e_min ce -> exists w : N, nth_opt col_widths k = Some w /\ 0 < w.
Proof. exact TableRender.c06_text_column_positive. Qed.
Print Assumptions c06_text_column_positive.

Theorem col_line_sets_padded :
  forall (t : tag) (cols : list subr) (sets : list (N * list rline)),
       col_line_sets t cols = Ok sets ->
       Forall2
         (fun (c : subr) (p : N * list rline) =>
          fst p = swidth_ c /\
          (exists ls : list rline, sub_into_lines c = Ok ls /\ Forall2 (padded (swidth_ c)) ls (snd p))) cols
         sets.
Proof. exact TableRender.col_line_sets_padded. Qed.
Print Assumptions col_line_sets_padded.

Theorem cell_widths_bar_subset :
  forall ws_ : list N,
       Forall (fun w : N => 0 < w) ws_ ->
       forall (cells : list rcell) (colno : N) (cws : list (option N)),
       cell_widths false ws_ cells colno = Ok cws ->
       forall x : N,
       In x (TableProof.bar_positions (somes cws) (cell_offset ws_ (N.to_nat colno))) ->
       In x (TableProof.bar_positions ws_ 0).
Proof. exact TableRender.cell_widths_bar_subset. Qed.
Print Assumptions cell_widths_bar_subset.


(* DOM level (Proofs/DomBlocks.v): a row is the cells of its td/th children in order, a td/th
   always gives a cell (also without content), nothing else does; the colspan attribute *)
From H2T Require Import Base Tagged Wrap Sub Css Dom Render Api CssParse Proofs.CssTotal Proofs.WrapInv Proofs.RenderWidth Proofs.Conserve Proofs.Footnotes Proofs.AnnBalance Proofs.RenderConserve Proofs.OptionRel Proofs.Compose Proofs.RenderTotal Proofs.FragStream Proofs.SimRel Proofs.Prune Proofs.DomBlocks.

Theorem process_tr :
  forall (sd : styledata) (udc : bool) (inl : list (text * text) -> res (list styledecl)) 
         (name : text) (attrs : list (text * text)) (kids : list node) (p : list anc) 
         (idx : Z) (inls : list styledecl) (cs : list rnode),
       (if udc then inl attrs else Ok []) = Ok inls ->
       hidden_style (computed_style sd ({| a_name := name; a_attrs := attrs; a_idx := idx |} :: p) inls) =
       false ->
       process_kids sd udc inl kids ({| a_name := name; a_attrs := attrs; a_idx := idx |} :: p) 1 = Ok cs ->
       cps name = Nm.tr ->
       process sd udc inl (NElem true name attrs kids) p idx =
       Ok
         (finish (computed_style sd ({| a_name := name; a_attrs := attrs; a_idx := idx |} :: p) inls) true
            name attrs
            (Some
               (RN
                  (ITableRow
                     (RRow (cells_of cs)
                        (computed_style sd ({| a_name := name; a_attrs := attrs; a_idx := idx |} :: p) inls)))
                  (computed_style sd ({| a_name := name; a_attrs := attrs; a_idx := idx |} :: p) inls)))).
Proof. exact DomBlocks.process_tr. Qed.
Print Assumptions process_tr.

Theorem process_td :
  forall (sd : styledata) (udc : bool) (inl : list (text * text) -> res (list styledecl)) 
         (name : text) (attrs : list (text * text)) (kids : list node) (p : list anc) 
         (idx : Z) (inls : list styledecl) (cs : list rnode),
       (if udc then inl attrs else Ok []) = Ok inls ->
       hidden_style (computed_style sd ({| a_name := name; a_attrs := attrs; a_idx := idx |} :: p) inls) =
       false ->
       process_kids sd udc inl kids ({| a_name := name; a_attrs := attrs; a_idx := idx |} :: p) 1 = Ok cs ->
       cps name = Nm.td \/ cps name = Nm.th ->
       process sd udc inl (NElem true name attrs kids) p idx =
       Ok
         (finish (computed_style sd ({| a_name := name; a_attrs := attrs; a_idx := idx |} :: p) inls) true
            name attrs
            (Some
               (RN
                  (ITableCell
                     (RCell (td_colspan attrs) cs
                        (computed_style sd ({| a_name := name; a_attrs := attrs; a_idx := idx |} :: p) inls)))
                  (computed_style sd ({| a_name := name; a_attrs := attrs; a_idx := idx |} :: p) inls)))).
Proof. exact DomBlocks.process_td. Qed.
Print Assumptions process_td.

Theorem tdth_gives_cell :
  forall (sd : styledata) (udc : bool) (inl : list (text * text) -> res (list styledecl)) 
         (name : text) (attrs : list (text * text)) (kids : list node) (p : list anc) 
         (i : Z) (nd : rnode),
       names [[116; 104]; [116; 100]] name = true ->
       process sd udc inl (NElem true name attrs kids) p i = Ok (Some nd) ->
       exists (k : list rnode) (s : cstyle), rn_info nd = ITableCell (RCell (td_colspan attrs) k s).
Proof. exact DomBlocks.tdth_gives_cell. Qed.
Print Assumptions tdth_gives_cell.

Theorem cell_only_from_tdth :
  forall (sd : styledata) (udc : bool) (inl : list (text * text) -> res (list styledecl)) 
         (k : node) (p : list anc) (i : Z) (nd : rnode),
       process sd udc inl k p i = Ok (Some nd) -> is_cell nd = true -> is_tdth k = true.
Proof. exact DomBlocks.cell_only_from_tdth. Qed.
Print Assumptions cell_only_from_tdth.

Theorem row_cell_count :
  forall (sd : styledata) (udc : bool) (inl : list (text * text) -> res (list styledecl))
         (kids : list node) (me : list anc) (i : Z) (cs : list rnode),
       process_kids sd udc inl kids me i = Ok cs -> length (cells_of cs) = count_cells sd udc inl me kids i.
Proof. exact DomBlocks.row_cell_count. Qed.
Print Assumptions row_cell_count.

Theorem td_colspan_spec :
  forall attrs : list (text * text),
       td_colspan attrs =
       match find (fun kv : text * text => attr_is (fst kv) s_colspan) (rev attrs) with
       | Some kv => colspan_val (snd kv)
       | None => 1
       end.
Proof. exact DomBlocks.td_colspan_spec. Qed.
Print Assumptions td_colspan_spec.

Theorem td_colspan_bound :
  forall attrs : list (text * text), td_colspan attrs <= 1000.
Proof. exact DomBlocks.td_colspan_bound. Qed.
Print Assumptions td_colspan_bound.


(* the column renumbering of RenderTable::new (Proofs/TableRemap.v): same rows, cells, contents;
   a cell's new end is the rank of its old end among all cell ends of the table, so boundaries
   keep their order across all rows, no cell disappears, and every new column boundary is a cell
   boundary of some row (columns that no row separates are merged) *)
From H2T Require Import Base Tagged Wrap Sub Css Dom Render Api CssParse Proofs.CssTotal Proofs.WrapInv Proofs.RenderWidth Proofs.Conserve Proofs.Footnotes Proofs.AnnBalance Proofs.RenderConserve Proofs.OptionRel Proofs.Compose Proofs.RenderTotal Proofs.FragStream Proofs.SimRel Proofs.Prune Proofs.TableRemap.

Theorem render_table_new_shape :
  forall (rows rows' : list rrow) (ncols : N),
       render_table_new rows = Ok (ITable rows' ncols) ->
       Forall2 shape rows rows' /\ ncols = maxN (map row_num_cells rows').
Proof. exact TableRemap.render_table_new_shape. Qed.
Print Assumptions render_table_new_shape.

Theorem render_table_new_total :
  forall (rows : list rrow) (ps : list N),
       pos_rows rows ->
       all_positions rows = Ok ps ->
       exists rows' : list rrow,
         render_table_new rows = Ok (ITable rows' (maxN (map row_num_cells rows'))) /\
         Forall2 (remapped (table_set ps)) rows rows'.
Proof. exact TableRemap.render_table_new_total. Qed.
Print Assumptions render_table_new_total.

Theorem render_table_new_ok_or_overflow :
  forall rows : list rrow,
       pos_rows rows ->
       (exists (rows' : list rrow) (n : N), render_table_new rows = Ok (ITable rows' n)) \/
       all_positions rows = Panic 30 /\ render_table_new rows = Panic 30.
Proof. exact TableRemap.render_table_new_ok_or_overflow. Qed.
Print Assumptions render_table_new_ok_or_overflow.

Theorem render_table_new_positions :
  forall (rows rows' : list rrow) (ncols : N),
       pos_rows rows ->
       render_table_new rows = Ok (ITable rows' ncols) ->
       exists ps : list N,
         all_positions rows = Ok ps /\
         (let S := table_set ps in
          ssorted S /\
          NoDup S /\
          (forall e : N, In e S <-> e = 0 \/ (exists r : rrow, In r rows /\ In e (old_ends r))) /\
          Forall2 shape rows rows' /\ Forall2 (remapped S) rows rows').
Proof. exact TableRemap.render_table_new_positions. Qed.
Print Assumptions render_table_new_positions.

Theorem remapped_pos :
  forall (rows rows' : list rrow) (ncols : N),
       pos_rows rows -> render_table_new rows = Ok (ITable rows' ncols) -> pos_rows rows'.
Proof. exact TableRemap.remapped_pos. Qed.
Print Assumptions remapped_pos.

Theorem rank_order :
  forall (S : list N) (e1 e2 : N), In e1 S -> In e2 S -> (rank e1 S ?= rank e2 S) = (e1 ?= e2).
Proof. exact TableRemap.rank_order. Qed.
Print Assumptions rank_order.

Theorem remapped_order :
  forall (rows rows' : list rrow) (ncols : N),
       pos_rows rows ->
       render_table_new rows = Ok (ITable rows' ncols) ->
       exists S : list N,
         Forall2 (fun r r' : rrow => new_ends r' = map (fun e : N => rank e S) (old_ends r)) rows rows' /\
         (forall (r1 r2 : rrow) (e1 e2 : N),
          In r1 rows ->
          In r2 rows -> In e1 (old_ends r1) -> In e2 (old_ends r2) -> (rank e1 S ?= rank e2 S) = (e1 ?= e2)).
Proof. exact TableRemap.remapped_order. Qed.
Print Assumptions remapped_order.

Theorem remapped_surj :
  forall (rows rows' : list rrow) (ncols : N),
       pos_rows rows ->
       render_table_new rows = Ok (ITable rows' ncols) ->
       exists ps : list N,
         all_positions rows = Ok ps /\
         (forall k : N,
          1 <= k -> k < len (table_set ps) -> exists r' : rrow, In r' rows' /\ In k (new_ends r')).
Proof. exact TableRemap.remapped_surj. Qed.
Print Assumptions remapped_surj.

Theorem remapped_ncols :
  forall (rows rows' : list rrow) (ncols : N),
       pos_rows rows ->
       render_table_new rows = Ok (ITable rows' ncols) ->
       exists ps : list N, all_positions rows = Ok ps /\ ncols = len (table_set ps) - 1.
Proof. exact TableRemap.remapped_ncols. Qed.
Print Assumptions remapped_ncols.

Theorem tbody_rows_pos :
  forall rows rows' : list rrow, tbody_rows rows = Ok rows' -> pos_rows rows'.
Proof. exact TableRemap.tbody_rows_pos. Qed.
Print Assumptions tbody_rows_pos.

Theorem sorted_set_ssorted :
  forall l : list N, ssorted (sorted_set l).
Proof. exact TableRemap.sorted_set_ssorted. Qed.
Print Assumptions sorted_set_ssorted.

Theorem sorted_set_in :
  forall (l : list N) (y : N), In y (sorted_set l) <-> In y l.
Proof. exact TableRemap.sorted_set_in. Qed.
Print Assumptions sorted_set_in.

Theorem index_of_spec :
  forall (l : list N) (x i : N), ssorted l -> In x l -> index_of x l i = Some (i + rank x l).
Proof. exact TableRemap.index_of_spec. Qed.
Print Assumptions index_of_spec.


(* every table that process can build (Proofs/TableRows.v) has colspans >= 1, the column count
   of its widest row and no column that no row separates; the renumbering is idempotent *)
From H2T Require Import Base Tagged Wrap Sub Css Dom Render Api CssParse Proofs.CssTotal Proofs.WrapInv Proofs.RenderWidth Proofs.Conserve Proofs.Footnotes Proofs.AnnBalance Proofs.RenderConserve Proofs.OptionRel Proofs.Compose Proofs.RenderTotal Proofs.FragStream Proofs.SimRel Proofs.Prune Proofs.TableRows.

Theorem process_table_ok :
  forall (sd : styledata) (udc : bool) (inl : list (text * text) -> res (list styledecl)) 
         (n : node) (p : list anc) (idx : Z) (t : rnode),
       process sd udc inl n p idx = Ok (Some t) -> table_ok t.
Proof. exact TableRows.process_table_ok. Qed.
Print Assumptions process_table_ok.

Theorem dom_to_render_tree_table_ok :
  forall (sd : styledata) (udc : bool) (inl : list (text * text) -> res (list styledecl))
         (doc : list node) (t : rnode), dom_to_render_tree sd udc inl doc = Ok t -> table_ok t.
Proof. exact TableRows.dom_to_render_tree_table_ok. Qed.
Print Assumptions dom_to_render_tree_table_ok.

Theorem table_ok_tables :
  forall t : rnode,
       table_ok t ->
       forall (rows : list rrow) (n : N) (s : cstyle),
       subnode (RN (ITable rows n) s) t ->
       TableRemap.pos_rows rows /\
       n = maxN (map row_num_cells rows) /\
       (forall k : N, 1 <= k -> k <= n -> exists r : rrow, In r rows /\ In k (TableRemap.new_ends r)).
Proof. exact TableRows.table_ok_tables. Qed.
Print Assumptions table_ok_tables.

Theorem table_ok_bodies :
  forall t : rnode,
       table_ok t ->
       forall (rows : list rrow) (s : cstyle), subnode (RN (ITableBody rows) s) t -> TableRemap.pos_rows rows.
Proof. exact TableRows.table_ok_bodies. Qed.
Print Assumptions table_ok_bodies.

Theorem render_table_new_idem :
  forall (rows rows' : list rrow) (n : N),
       TableRemap.pos_rows rows ->
       render_table_new rows = Ok (ITable rows' n) -> render_table_new rows' = Ok (ITable rows' n).
Proof. exact TableRows.render_table_new_idem. Qed.
Print Assumptions render_table_new_idem.


(* the cells of a row one by one (Proofs/DomRows.v): in order-preserving one-to-one correspondence
   with the row's visible td/th children, each with that child's colspan, content and style *)
From H2T Require Import Base Tagged Wrap Sub Css Dom Render Api CssParse Proofs.CssTotal Proofs.WrapInv Proofs.RenderWidth Proofs.Conserve Proofs.Footnotes Proofs.AnnBalance Proofs.RenderConserve Proofs.OptionRel Proofs.Compose Proofs.RenderTotal Proofs.FragStream Proofs.SimRel Proofs.Prune Proofs.DomBlocks Proofs.DomRows.

Theorem row_cells_forall2 :
  forall (sd : styledata) (udc : bool) (inl : list (text * text) -> res (list styledecl))
         (kids : list node) (me : list anc) (i : Z) (cs : list rnode),
       process_kids sd udc inl kids me i = Ok cs ->
       Forall2 (cell_of_kid sd udc inl me) (visible_tdth sd udc inl me kids i) (DomBlocks.cells_of cs).
Proof. exact DomRows.row_cells_forall2. Qed.
Print Assumptions row_cells_forall2.

Theorem visible_tdth_length :
  forall (sd : styledata) (udc : bool) (inl : list (text * text) -> res (list styledecl))
         (kids : list node) (me : list anc) (i : Z),
       length (visible_tdth sd udc inl me kids i) = DomBlocks.count_cells sd udc inl me kids i.
Proof. exact DomRows.visible_tdth_length. Qed.
Print Assumptions visible_tdth_length.

Theorem tr_cells_forall2 :
  forall (sd : styledata) (udc : bool) (inl : list (text * text) -> res (list styledecl)) 
         (name : text) (attrs : list (text * text)) (kids : list node) (p : list anc) 
         (idx : Z) (inls : list styledecl) (cs : list rnode),
       let me := {| a_name := name; a_attrs := attrs; a_idx := idx |} :: p in
       let computed := computed_style sd me inls in
       (if udc then inl attrs else Ok []) = Ok inls ->
       DomBlocks.hidden_style computed = false ->
       process_kids sd udc inl kids me 1 = Ok cs ->
       cps name = DomBlocks.Nm.tr ->
       process sd udc inl (NElem true name attrs kids) p idx =
       Ok
         (DomBlocks.finish computed true name attrs
            (Some (RN (ITableRow (RRow (DomBlocks.cells_of cs) computed)) computed))) /\
       Forall2 (cell_of_kid sd udc inl me) (visible_tdth sd udc inl me kids 1) (DomBlocks.cells_of cs) /\
       length (DomBlocks.cells_of cs) = DomBlocks.count_cells sd udc inl me kids 1.
Proof. exact DomRows.tr_cells_forall2. Qed.
Print Assumptions tr_cells_forall2.

Theorem row_cells_forall2_full :
  forall (sd : styledata) (udc : bool) (inl : list (text * text) -> res (list styledecl))
         (kids : list node) (me : list anc) (i : Z) (cs : list rnode),
       process_kids sd udc inl kids me i = Ok cs ->
       Forall2 (cell_of_kid_full sd udc inl me) (visible_tdth sd udc inl me kids i) (DomBlocks.cells_of cs).
Proof. exact DomRows.row_cells_forall2_full. Qed.
Print Assumptions row_cells_forall2_full.

