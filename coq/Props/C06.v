From H2T Require Import Base Tagged Wrap Sub Css Dom Render Api Proofs.Small.
(* Props/C06.v -- column allocation (model level): whenever the shrink loop returns, the
   column widths plus separators fit the width given to the table. *)
Theorem c06_alloc_fits : forall fuel width mins ws ws',
  shrink_loop fuel width mins ws = Ok ws' ->
  sumN ws' + N.of_nat (length ws') - 1 <= width.
Proof. exact shrink_loop_fits. Qed.
Check c06_alloc_fits : forall fuel width mins ws ws',
  shrink_loop fuel width mins ws = Ok ws' ->
  sumN ws' + N.of_nat (length ws') - 1 <= width.
Print Assumptions c06_alloc_fits.

From H2T Require Import Proofs.TableProof.
(* The column allocation of a side-by-side table (minimum widths fit): the shrink loop with the
   fuel the renderer passes terminates without panic (no 0-1, no index error, not out of
   fuel), every column ends between its minimum and its content size, and the columns plus
   separators fit the width. *)
Theorem c06_alloc_total : forall width (col_sizes : list est),
  col_sizes <> [] ->
  Forall (fun sz => e_min sz <= e_size sz) col_sizes ->
  sumN (map e_min col_sizes) + (N.of_nat (length col_sizes) - 1) <= width ->
  let tot_size := sumN (map e_size col_sizes) in
  let ws0 := map (col_width_of width tot_size) col_sizes in
  exists ws_,
    shrink_loop (S (N.to_nat (sumN ws0))) width (map e_min col_sizes) ws0 = Ok ws_ /\
    Forall2 (fun sz w => e_min sz <= w <= e_size sz) col_sizes ws_ /\
    sumN ws_ + N.of_nat (length ws_) - 1 <= width.
Proof. exact TableProof.table_col_widths_ok. Qed.
Print Assumptions c06_alloc_total.
(* a column that needs space (positive minimum width) is never allocated zero width *)
Theorem c06_text_column_nonzero : forall width mins ws0 ws_,
  length mins = length ws0 -> ws0 <> [] ->
  Forall2 (fun m w => m <= w) mins ws0 ->
  sumN mins + (N.of_nat (length mins) - 1) <= width ->
  shrink_loop (S (N.to_nat (sumN ws0))) width mins ws0 = Ok ws_ ->
  forall i m w, nth_error mins i = Some m -> nth_error ws_ i = Some w -> 0 < m -> 0 < w.
Proof. exact TableProof.c06_text_column_nonzero. Qed.
Print Assumptions c06_text_column_nonzero.
Theorem c06_table_width_le : forall fuel width mins ws0 ws_,
  shrink_loop fuel width mins ws0 = Ok ws_ ->
  sumN ws_ + (N.of_nat (length (filter (fun w => 0 <? w) ws_)) - 1) <= width.
Proof. exact TableProof.table_width_le. Qed.
Print Assumptions c06_table_width_le.
