From H2T Require Import Base Tagged Wrap Sub Css Dom Render Api Proofs.Small.
(* Props/C07.v -- prefixes (model level): attaching a prefix puts exactly that prefix in front
   of the nested line's text. PARTIAL: compositionality of whole blocks is checked on the
   implementation (sub-document renders) and by correspondence. *)
Theorem c07_prefix_in_front : forall t p l, rline_string (attach_prefix t p (RText l)) = p ++ tl_string l.
Proof. intros t p l. apply attach_prefix_text. right. exact I. Qed.
Print Assumptions c07_prefix_in_front.
Theorem c07_marker_padding : forall s w, swidth (pad_width s w) = N.max (swidth s) w.
Proof. exact pad_width_width. Qed.
Print Assumptions c07_marker_padding.
