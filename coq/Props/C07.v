From H2T Require Import Base Tagged Wrap Sub Css Dom Render Api Proofs.Small.
(* Props/C07.v -- prefixes (model level): attaching a prefix puts exactly that prefix in front
   of the nested line's text. PARTIAL: compositionality of whole blocks is checked on the
   implementation (sub-document renders) and by correspondence. *)
Theorem c07_prefix_in_front : forall t p l, rline_string (attach_prefix t p (RText l)) = p ++ tl_string l.
Proof. intros t p l. apply attach_prefix_text. right. exact I. Qed.
Print Assumptions c07_prefix_in_front.
Theorem c07_marker_padding : forall s w, swidth (pad_width s w) = N.max (swidth s) w.
Proof. exact pad_width_width. Qed.
Print Assumptions c07_marker_padding.

(* ---------- tree level (Proofs/Compose.v): a prefixed block = its content rendered in a fresh narrower sub-renderer, prefixed ---------- *)
From H2T Require Import Sub Css Dom Render Api Proofs.WrapInv Proofs.RenderWidth Proofs.Compose.
Theorem c07_blockquote :
  forall (d : deco) (mw : N) (cs : list rnode) (sty : cstyle) (st0 st' : rstate),
       render_node d mw (RN (IBlockQuote cs) sty) st0 = Ok st' ->
       let q := d_quote_prefix d in
       exists
         (st : rstate) (ps : pushed) (tp : subr) (rest : list subr) (mn : N) (sub : subr) 
       (lk' : list text) (ols : list rline) (s4 s5 : subr),
         apply_style d st0 sty = Ok (st, ps) /\
         stack st = tp :: rest /\
         nested (rkids d mw cs) tp (links st) (swidth q) mn sub lk' ols /\
         block_eq tp sub q s4 s5 /\
         unwind d ps {| stack := end_block s5 :: rest; links := lk' |} = Ok st' /\
         (clean_top st0 -> out_lines (end_block s5) = Ok (strs (slines s4) ++ map (app q) (strs ols))).
Proof. exact Compose.c07_blockquote. Qed.
Print Assumptions c07_blockquote.

Theorem c07_header :
  forall (d : deco) (mw level : N) (cs : list rnode) (sty : cstyle) (st0 st' : rstate),
       render_node d mw (RN (IHeader level cs) sty) st0 = Ok st' ->
       let h := d_header_prefix d level in
       exists
         (st : rstate) (ps : pushed) (tp : subr) (rest : list subr) (mn : N) (sub : subr) 
       (lk' : list text) (ols : list rline) (s4 s5 : subr),
         apply_style d st0 sty = Ok (st, ps) /\
         stack st = tp :: rest /\
         nested (rkids d mw cs) tp (links st) (swidth h) mn sub lk' ols /\
         block_eq tp sub h s4 s5 /\
         unwind d ps {| stack := end_block s5 :: rest; links := lk' |} = Ok st' /\
         (clean_top st0 -> out_lines (end_block s5) = Ok (strs (slines s4) ++ map (app h) (strs ols))).
Proof. exact Compose.c07_header. Qed.
Print Assumptions c07_header.

Theorem c07_dd :
  forall (d : deco) (mw : N) (cs : list rnode) (sty : cstyle) (st0 st' : rstate),
       render_node d mw (RN (IDd cs) sty) st0 = Ok st' ->
       let p2 := ptext [32; 32] in
       exists
         (st : rstate) (ps : pushed) (tp : subr) (rest : list subr) (mn : N) (sub : subr) 
       (lk' : list text) (ols : list rline) (s5 : subr),
         apply_style d st0 sty = Ok (st, ps) /\
         stack st = tp :: rest /\
         nested (rkids d mw cs) tp (links st) 2 mn sub lk' ols /\
         append_subrender tp sub p2 p2 = Ok s5 /\
         unwind d ps {| stack := s5 :: rest; links := lk' |} = Ok st' /\
         (clean_top st0 -> out_lines s5 = (do l <- out_lines tp; Ok (l ++ map (app p2) (strs ols)))).
Proof. exact Compose.c07_dd. Qed.
Print Assumptions c07_dd.

Theorem c07_ul :
  forall (d : deco) (mw : N) (items : list rnode) (sty : cstyle) (st0 st' : rstate),
       render_node d mw (RN (IUl items) sty) st0 = Ok st' ->
       clean_top st0 ->
       let bullet := d_ul_prefix d in
       let indent := repeat_chr (spacel L_prefix) (N.to_nat (swidth bullet)) in
       exists
         (st : rstate) (ps : pushed) (tp : subr) (rest : list subr) (s' : subr) (lk' : list text) 
       (Ls : list (list rline)),
         apply_style d st0 sty = Ok (st, ps) /\
         stack st = tp :: rest /\
         items_rendered d mw items tp (swidth bullet) (links st) lk' Ls /\
         out_lines s' =
         (do l <- out_lines tp;
          Ok (l ++ flat_map (fun ols : list rline => prefixed bullet indent (strs ols)) Ls)) /\
         unwind d ps {| stack := s' :: rest; links := lk' |} = Ok st' /\ swidth indent = swidth bullet.
Proof. exact Compose.c07_ul. Qed.
Print Assumptions c07_ul.

Theorem c07_ol :
  forall (d : deco) (mw : N) (start : Z) (items : list rnode) (sty : cstyle) (st0 st' : rstate),
       render_node d mw (RN (IOl start items) sty) st0 = Ok st' ->
       clean_top st0 ->
       exists
         (pw : N) (st : rstate) (ps : pushed) (tp : subr) (rest : list subr) (s' : subr) 
       (lk' : list text) (Ls : list (list rline)),
         ol_prefix_size d start (length items) = Ok pw /\
         apply_style d st0 sty = Ok (st, ps) /\
         stack st = tp :: rest /\
         items_rendered d mw items tp pw (links st) lk' Ls /\
         out_lines s' =
         (do l <- out_lines tp; Ok (l ++ items_lines (ol_marker d pw) (ol_indent pw) (ol_num start) 0 Ls)) /\
         unwind d ps {| stack := s' :: rest; links := lk' |} = Ok st'.
Proof. exact Compose.c07_ol. Qed.
Print Assumptions c07_ol.

Theorem c07_quote_in_quote :
  forall (d : deco) (mw : N) (cs : list rnode) (sty2 sty : cstyle) (st0 st' : rstate),
       render_node d mw (RN (IBlockQuote [RN (IBlockQuote cs) sty2]) sty) st0 = Ok st' ->
       clean_top st0 ->
       let q := d_quote_prefix d in
       exists
         (st : rstate) (ps : pushed) (tp : subr) (rest : list subr) (w mn : N) (sub : subr) 
       (lk' : list text) (s4 s5 tp2 : subr) (ps2 : pushed) (mn2 : N) (sub2 : subr) 
       (ols2 : list rline),
         apply_style d st0 sty = Ok (st, ps) /\
         stack st = tp :: rest /\
         width_minus tp (swidth q) mn = Ok w /\
         apply_style d {| stack := [new_sub_renderer tp w]; links := links st |} sty2 =
         Ok ({| stack := [tp2]; links := links st |}, ps2) /\
         nested (rkids d mw cs) tp2 (links st) (swidth q) mn2 sub2 lk' ols2 /\
         block_eq tp sub q s4 s5 /\
         unwind d ps {| stack := end_block s5 :: rest; links := lk' |} = Ok st' /\
         out_lines (end_block s5) =
         Ok (strs (slines s4) ++ map (fun l : list chr => q ++ q ++ l) (strs ols2)).
Proof. exact Compose.c07_quote_in_quote. Qed.
Print Assumptions c07_quote_in_quote.

Theorem clean_top_preserved :
  forall (d : deco) (mw : N) (n : rnode) (st st' : rstate),
       render_node d mw n st = Ok st' -> clean_top st -> clean_top st'.
Proof. exact Compose.clean_top_preserved. Qed.
Print Assumptions clean_top_preserved.


(* DOM level (Proofs/DomBlocks.v): h1..h6 and only they become headers of level 1..6; a block
   quote, ul, div, p is its node over all processed children; ol keeps its items and reads the
   first start attribute, dl keeps dt/dd *)
From H2T Require Import Base Tagged Wrap Sub Css Dom Render Api CssParse Proofs.CssTotal Proofs.WrapInv Proofs.RenderWidth Proofs.Conserve Proofs.Footnotes Proofs.AnnBalance Proofs.RenderConserve Proofs.OptionRel Proofs.Compose Proofs.RenderTotal Proofs.FragStream Proofs.SimRel Proofs.Prune Proofs.DomBlocks.

Theorem heading_level_six :
  forall name : text,
       (cps name = Nm.h1 -> heading_level name = Some 1) /\
       (cps name = Nm.h2 -> heading_level name = Some 2) /\
       (cps name = Nm.h3 -> heading_level name = Some 3) /\
       (cps name = Nm.h4 -> heading_level name = Some 4) /\
       (cps name = Nm.h5 -> heading_level name = Some 5) /\ (cps name = Nm.h6 -> heading_level name = Some 6).
Proof. exact DomBlocks.heading_level_six. Qed.
Print Assumptions heading_level_six.

Theorem heading_level_range :
  forall (name : text) (n : N),
       heading_level name = Some n ->
       n = 1 /\ cps name = Nm.h1 \/
       n = 2 /\ cps name = Nm.h2 \/
       n = 3 /\ cps name = Nm.h3 \/
       n = 4 /\ cps name = Nm.h4 \/ n = 5 /\ cps name = Nm.h5 \/ n = 6 /\ cps name = Nm.h6.
Proof. exact DomBlocks.heading_level_range. Qed.
Print Assumptions heading_level_range.

Theorem be_inv :
  forall (name : text) (attrs : list (text * text)) (c : cstyle) (cs : list rnode) (nd : rnode),
       build_element name attrs c cs = Ok (Some nd) ->
       (is_header nd = true -> exists n : N, heading_level name = Some n /\ nd = RN (IHeader n cs) c) /\
       (is_cell nd = true -> names [[116; 104]; [116; 100]] name = true).
Proof. exact DomBlocks.be_inv. Qed.
Print Assumptions be_inv.

Theorem process_elem_children :
  forall (sd : styledata) (udc : bool) (inl : list (text * text) -> res (list styledecl)) 
         (name : text) (attrs : list (text * text)) (kids : list node) (p : list anc) 
         (idx : Z) (inls : list styledecl) (cs : list rnode),
       let me := {| a_name := name; a_attrs := attrs; a_idx := idx |} :: p in
       let computed := computed_style sd me inls in
       (if udc then inl attrs else Ok []) = Ok inls ->
       hidden_style computed = false ->
       childless name = false ->
       process_kids sd udc inl kids me 1 = Ok cs ->
       process sd udc inl (NElem true name attrs kids) p idx =
       (do base <- build_element name attrs computed cs; Ok (finish computed true name attrs base)).
Proof. exact DomBlocks.process_elem_children. Qed.
Print Assumptions process_elem_children.

Theorem process_elem_hidden :
  forall (sd : styledata) (udc : bool) (inl : list (text * text) -> res (list styledecl)) 
         (name : text) (attrs : list (text * text)) (kids : list node) (p : list anc) 
         (idx : Z) (inls : list styledecl),
       (if udc then inl attrs else Ok []) = Ok inls ->
       hidden_style (computed_style sd ({| a_name := name; a_attrs := attrs; a_idx := idx |} :: p) inls) =
       true -> process sd udc inl (NElem true name attrs kids) p idx = Ok None.
Proof. exact DomBlocks.process_elem_hidden. Qed.
Print Assumptions process_elem_hidden.

Theorem process_header :
  forall (sd : styledata) (udc : bool) (inl : list (text * text) -> res (list styledecl)) 
         (name : text) (attrs : list (text * text)) (kids : list node) (p : list anc) 
         (idx : Z) (inls : list styledecl) (cs : list rnode),
       (if udc then inl attrs else Ok []) = Ok inls ->
       hidden_style (computed_style sd ({| a_name := name; a_attrs := attrs; a_idx := idx |} :: p) inls) =
       false ->
       process_kids sd udc inl kids ({| a_name := name; a_attrs := attrs; a_idx := idx |} :: p) 1 = Ok cs ->
       forall n : N,
       heading_level name = Some n ->
       process sd udc inl (NElem true name attrs kids) p idx =
       Ok
         (finish (computed_style sd ({| a_name := name; a_attrs := attrs; a_idx := idx |} :: p) inls) true
            name attrs
            (Some
               (RN (IHeader n cs)
                  (computed_style sd ({| a_name := name; a_attrs := attrs; a_idx := idx |} :: p) inls)))).
Proof. exact DomBlocks.process_header. Qed.
Print Assumptions process_header.

Theorem process_header_plain :
  forall (sd : styledata) (udc : bool) (inl : list (text * text) -> res (list styledecl)) 
         (name : text) (attrs : list (text * text)) (kids : list node) (p : list anc) 
         (idx : Z) (inls : list styledecl) (cs : list rnode),
       (if udc then inl attrs else Ok []) = Ok inls ->
       hidden_style (computed_style sd ({| a_name := name; a_attrs := attrs; a_idx := idx |} :: p) inls) =
       false ->
       process_kids sd udc inl kids ({| a_name := name; a_attrs := attrs; a_idx := idx |} :: p) 1 = Ok cs ->
       forall n : N,
       heading_level name = Some n ->
       plain (computed_style sd ({| a_name := name; a_attrs := attrs; a_idx := idx |} :: p) inls) name attrs ->
       process sd udc inl (NElem true name attrs kids) p idx =
       Ok
         (Some
            (RN (IHeader n cs)
               (computed_style sd ({| a_name := name; a_attrs := attrs; a_idx := idx |} :: p) inls))).
Proof. exact DomBlocks.process_header_plain. Qed.
Print Assumptions process_header_plain.

Theorem process_blockquote :
  forall (sd : styledata) (udc : bool) (inl : list (text * text) -> res (list styledecl)) 
         (name : text) (attrs : list (text * text)) (kids : list node) (p : list anc) 
         (idx : Z) (inls : list styledecl) (cs : list rnode),
       (if udc then inl attrs else Ok []) = Ok inls ->
       hidden_style (computed_style sd ({| a_name := name; a_attrs := attrs; a_idx := idx |} :: p) inls) =
       false ->
       process_kids sd udc inl kids ({| a_name := name; a_attrs := attrs; a_idx := idx |} :: p) 1 = Ok cs ->
       cps name = Nm.blockquote ->
       process sd udc inl (NElem true name attrs kids) p idx =
       Ok
         (finish (computed_style sd ({| a_name := name; a_attrs := attrs; a_idx := idx |} :: p) inls) true
            name attrs (noempty_opt sd name attrs p idx inls cs (IBlockQuote cs))).
Proof. exact DomBlocks.process_blockquote. Qed.
Print Assumptions process_blockquote.

Theorem process_ul :
  forall (sd : styledata) (udc : bool) (inl : list (text * text) -> res (list styledecl)) 
         (name : text) (attrs : list (text * text)) (kids : list node) (p : list anc) 
         (idx : Z) (inls : list styledecl) (cs : list rnode),
       (if udc then inl attrs else Ok []) = Ok inls ->
       hidden_style (computed_style sd ({| a_name := name; a_attrs := attrs; a_idx := idx |} :: p) inls) =
       false ->
       process_kids sd udc inl kids ({| a_name := name; a_attrs := attrs; a_idx := idx |} :: p) 1 = Ok cs ->
       cps name = Nm.ul ->
       process sd udc inl (NElem true name attrs kids) p idx =
       Ok
         (finish (computed_style sd ({| a_name := name; a_attrs := attrs; a_idx := idx |} :: p) inls) true
            name attrs (noempty_opt sd name attrs p idx inls cs (IUl cs))).
Proof. exact DomBlocks.process_ul. Qed.
Print Assumptions process_ul.

Theorem process_div :
  forall (sd : styledata) (udc : bool) (inl : list (text * text) -> res (list styledecl)) 
         (name : text) (attrs : list (text * text)) (kids : list node) (p : list anc) 
         (idx : Z) (inls : list styledecl) (cs : list rnode),
       (if udc then inl attrs else Ok []) = Ok inls ->
       hidden_style (computed_style sd ({| a_name := name; a_attrs := attrs; a_idx := idx |} :: p) inls) =
       false ->
       process_kids sd udc inl kids ({| a_name := name; a_attrs := attrs; a_idx := idx |} :: p) 1 = Ok cs ->
       cps name = Nm.div ->
       process sd udc inl (NElem true name attrs kids) p idx =
       Ok
         (finish (computed_style sd ({| a_name := name; a_attrs := attrs; a_idx := idx |} :: p) inls) true
            name attrs (noempty_opt sd name attrs p idx inls cs (IDiv cs))).
Proof. exact DomBlocks.process_div. Qed.
Print Assumptions process_div.

Theorem process_p :
  forall (sd : styledata) (udc : bool) (inl : list (text * text) -> res (list styledecl)) 
         (name : text) (attrs : list (text * text)) (kids : list node) (p : list anc) 
         (idx : Z) (inls : list styledecl) (cs : list rnode),
       (if udc then inl attrs else Ok []) = Ok inls ->
       hidden_style (computed_style sd ({| a_name := name; a_attrs := attrs; a_idx := idx |} :: p) inls) =
       false ->
       process_kids sd udc inl kids ({| a_name := name; a_attrs := attrs; a_idx := idx |} :: p) 1 = Ok cs ->
       cps name = Nm.p ->
       process sd udc inl (NElem true name attrs kids) p idx =
       Ok
         (finish (computed_style sd ({| a_name := name; a_attrs := attrs; a_idx := idx |} :: p) inls) true
            name attrs (noempty_opt sd name attrs p idx inls cs (IBlock cs))).
Proof. exact DomBlocks.process_p. Qed.
Print Assumptions process_p.

Theorem process_ol :
  forall (sd : styledata) (udc : bool) (inl : list (text * text) -> res (list styledecl)) 
         (name : text) (attrs : list (text * text)) (kids : list node) (p : list anc) 
         (idx : Z) (inls : list styledecl) (cs : list rnode),
       (if udc then inl attrs else Ok []) = Ok inls ->
       hidden_style (computed_style sd ({| a_name := name; a_attrs := attrs; a_idx := idx |} :: p) inls) =
       false ->
       process_kids sd udc inl kids ({| a_name := name; a_attrs := attrs; a_idx := idx |} :: p) 1 = Ok cs ->
       cps name = Nm.ol ->
       process sd udc inl (NElem true name attrs kids) p idx =
       Ok
         (finish (computed_style sd ({| a_name := name; a_attrs := attrs; a_idx := idx |} :: p) inls) true
            name attrs
            (noempty_opt sd name attrs p idx inls cs (IOl (ol_start attrs) (filter_info is_li cs)))).
Proof. exact DomBlocks.process_ol. Qed.
Print Assumptions process_ol.

Theorem process_dl :
  forall (sd : styledata) (udc : bool) (inl : list (text * text) -> res (list styledecl)) 
         (name : text) (attrs : list (text * text)) (kids : list node) (p : list anc) 
         (idx : Z) (inls : list styledecl) (cs : list rnode),
       (if udc then inl attrs else Ok []) = Ok inls ->
       hidden_style (computed_style sd ({| a_name := name; a_attrs := attrs; a_idx := idx |} :: p) inls) =
       false ->
       process_kids sd udc inl kids ({| a_name := name; a_attrs := attrs; a_idx := idx |} :: p) 1 = Ok cs ->
       cps name = Nm.dl ->
       process sd udc inl (NElem true name attrs kids) p idx =
       Ok
         (finish (computed_style sd ({| a_name := name; a_attrs := attrs; a_idx := idx |} :: p) inls) true
            name attrs (noempty_opt sd name attrs p idx inls cs (IDl (filter_info is_dtdd cs)))).
Proof. exact DomBlocks.process_dl. Qed.
Print Assumptions process_dl.

