From H2T Require Import Base Tagged Wrap Sub Css Dom Render Api Proofs.Small.
(* Props/C07.v -- prefixes (model level): attaching a prefix puts exactly that prefix in front
   of the nested line's text. PARTIAL: compositionality of whole blocks is checked on the
   implementation (sub-document renders) and by correspondence. *)
Theorem c07_prefix_in_front : forall t p l, rline_string (attach_prefix t p (RText l)) = p ++ tl_string l.
Proof. intros t p l. apply attach_prefix_text. right. exact I. Qed.
Print Assumptions c07_prefix_in_front.
Theorem c07_marker_padding : forall s w, swidth (pad_width s w) = N.max (swidth s) w.
Proof. exact pad_width_width. Qed.
Print Assumptions c07_marker_padding.

(* ---------- tree level (Proofs/Compose.v): a prefixed block = its content rendered in a fresh narrower sub-renderer, prefixed ---------- *)
From H2T Require Import Sub Css Dom Render Api Proofs.WrapInv Proofs.RenderWidth Proofs.Compose.
Theorem c07_blockquote :
  forall (d : deco) (mw : N) (cs : list rnode) (sty : cstyle) (st0 st' : rstate),
       render_node d mw (RN (IBlockQuote cs) sty) st0 = Ok st' ->
       let q := d_quote_prefix d in
       exists
         (st : rstate) (ps : pushed) (tp : subr) (rest : list subr) (mn : N) (sub : subr) 
       (lk' : list text) (ols : list rline) (s4 s5 : subr),
         apply_style d st0 sty = Ok (st, ps) /\
         stack st = tp :: rest /\
         nested (rkids d mw cs) tp (links st) (swidth q) mn sub lk' ols /\
         block_eq tp sub q s4 s5 /\
         unwind d ps {| stack := end_block s5 :: rest; links := lk' |} = Ok st' /\
         (clean_top st0 -> out_lines (end_block s5) = Ok (strs (slines s4) ++ map (app q) (strs ols))).
Proof. exact Compose.c07_blockquote. Qed.
Print Assumptions c07_blockquote.

Theorem c07_header :
  forall (d : deco) (mw level : N) (cs : list rnode) (sty : cstyle) (st0 st' : rstate),
       render_node d mw (RN (IHeader level cs) sty) st0 = Ok st' ->
       let h := d_header_prefix d level in
       exists
         (st : rstate) (ps : pushed) (tp : subr) (rest : list subr) (mn : N) (sub : subr) 
       (lk' : list text) (ols : list rline) (s4 s5 : subr),
         apply_style d st0 sty = Ok (st, ps) /\
         stack st = tp :: rest /\
         nested (rkids d mw cs) tp (links st) (swidth h) mn sub lk' ols /\
         block_eq tp sub h s4 s5 /\
         unwind d ps {| stack := end_block s5 :: rest; links := lk' |} = Ok st' /\
         (clean_top st0 -> out_lines (end_block s5) = Ok (strs (slines s4) ++ map (app h) (strs ols))).
Proof. exact Compose.c07_header. Qed.
Print Assumptions c07_header.

Theorem c07_dd :
  forall (d : deco) (mw : N) (cs : list rnode) (sty : cstyle) (st0 st' : rstate),
       render_node d mw (RN (IDd cs) sty) st0 = Ok st' ->
       let p2 := ptext [32; 32] in
       exists
         (st : rstate) (ps : pushed) (tp : subr) (rest : list subr) (mn : N) (sub : subr) 
       (lk' : list text) (ols : list rline) (s5 : subr),
         apply_style d st0 sty = Ok (st, ps) /\
         stack st = tp :: rest /\
         nested (rkids d mw cs) tp (links st) 2 mn sub lk' ols /\
         append_subrender tp sub p2 p2 = Ok s5 /\
         unwind d ps {| stack := s5 :: rest; links := lk' |} = Ok st' /\
         (clean_top st0 -> out_lines s5 = (do l <- out_lines tp; Ok (l ++ map (app p2) (strs ols)))).
Proof. exact Compose.c07_dd. Qed.
Print Assumptions c07_dd.

Theorem c07_ul :
  forall (d : deco) (mw : N) (items : list rnode) (sty : cstyle) (st0 st' : rstate),
       render_node d mw (RN (IUl items) sty) st0 = Ok st' ->
       clean_top st0 ->
       let bullet := d_ul_prefix d in
       let indent := repeat_chr (spacel L_prefix) (N.to_nat (swidth bullet)) in
       exists
         (st : rstate) (ps : pushed) (tp : subr) (rest : list subr) (s' : subr) (lk' : list text) 
       (Ls : list (list rline)),
         apply_style d st0 sty = Ok (st, ps) /\
         stack st = tp :: rest /\
         items_rendered d mw items tp (swidth bullet) (links st) lk' Ls /\
         out_lines s' =
         (do l <- out_lines tp;
          Ok (l ++ flat_map (fun ols : list rline => prefixed bullet indent (strs ols)) Ls)) /\
         unwind d ps {| stack := s' :: rest; links := lk' |} = Ok st' /\ swidth indent = swidth bullet.
Proof. exact Compose.c07_ul. Qed.
Print Assumptions c07_ul.

Theorem c07_ol :
  forall (d : deco) (mw : N) (start : Z) (items : list rnode) (sty : cstyle) (st0 st' : rstate),
       render_node d mw (RN (IOl start items) sty) st0 = Ok st' ->
       clean_top st0 ->
       exists
         (pw : N) (st : rstate) (ps : pushed) (tp : subr) (rest : list subr) (s' : subr) 
       (lk' : list text) (Ls : list (list rline)),
         ol_prefix_size d start (length items) = Ok pw /\
         apply_style d st0 sty = Ok (st, ps) /\
         stack st = tp :: rest /\
         items_rendered d mw items tp pw (links st) lk' Ls /\
         out_lines s' =
         (do l <- out_lines tp; Ok (l ++ items_lines (ol_marker d pw) (ol_indent pw) (ol_num start) 0 Ls)) /\
         unwind d ps {| stack := s' :: rest; links := lk' |} = Ok st'.
Proof. exact Compose.c07_ol. Qed.
Print Assumptions c07_ol.

Theorem c07_quote_in_quote :
  forall (d : deco) (mw : N) (cs : list rnode) (sty2 sty : cstyle) (st0 st' : rstate),
       render_node d mw (RN (IBlockQuote [RN (IBlockQuote cs) sty2]) sty) st0 = Ok st' ->
       clean_top st0 ->
       let q := d_quote_prefix d in
       exists
         (st : rstate) (ps : pushed) (tp : subr) (rest : list subr) (w mn : N) (sub : subr) 
       (lk' : list text) (s4 s5 tp2 : subr) (ps2 : pushed) (mn2 : N) (sub2 : subr) 
       (ols2 : list rline),
         apply_style d st0 sty = Ok (st, ps) /\
         stack st = tp :: rest /\
         width_minus tp (swidth q) mn = Ok w /\
         apply_style d {| stack := [new_sub_renderer tp w]; links := links st |} sty2 =
         Ok ({| stack := [tp2]; links := links st |}, ps2) /\
         nested (rkids d mw cs) tp2 (links st) (swidth q) mn2 sub2 lk' ols2 /\
         block_eq tp sub q s4 s5 /\
         unwind d ps {| stack := end_block s5 :: rest; links := lk' |} = Ok st' /\
         out_lines (end_block s5) =
         Ok (strs (slines s4) ++ map (fun l : list chr => q ++ q ++ l) (strs ols2)).
Proof. exact Compose.c07_quote_in_quote. Qed.
Print Assumptions c07_quote_in_quote.

Theorem clean_top_preserved :
  forall (d : deco) (mw : N) (n : rnode) (st st' : rstate),
       render_node d mw n st = Ok st' -> clean_top st -> clean_top st'.
Proof. exact Compose.clean_top_preserved. Qed.
Print Assumptions clean_top_preserved.

