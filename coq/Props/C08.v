From H2T Require Import Base Tagged Wrap Sub Css Dom Render Api Proofs.Small.
(* Props/C08.v -- link footnotes (model level): the footnote list has one entry per link, the
   i-th being "[k+i]: " followed by the i-th target. PARTIAL: that the targets are threaded
   through nested sub-renderers in document order is carried by the correspondence run. *)
Theorem c08_footnote_entries : forall urls k i u,
  nth_error urls i = Some u ->
  option_map (fun l => cps (tl_string l)) (nth_error (finalise_from k urls) i) =
  Some ([91] ++ dec_N (k + N.of_nat i) ++ [93; 58; 32] ++ cps u).
Proof. exact finalise_from_nth. Qed.
Print Assumptions c08_footnote_entries.
Theorem c08_footnote_count : forall urls k, length (finalise_from k urls) = length urls.
Proof. exact finalise_from_length. Qed.
Print Assumptions c08_footnote_count.

(* ---------- tree level (Proofs/Footnotes.v): the link list is threaded in document order; reference text; final list ---------- *)
From H2T Require Import Sub Css Dom Render Api Proofs.WrapInv Proofs.RenderWidth Proofs.Footnotes.
Theorem links_threaded :
  forall (d : deco) (mw : N) (n : rnode) (st st' : rstate) (tp : subr),
       top st = Ok tp ->
       render_node d mw n st = Ok st' -> links st' = links st ++ link_targets d mw (sopts tp) n (swidth_ tp).
Proof. exact Footnotes.links_threaded. Qed.
Print Assumptions links_threaded.

Theorem link_targets_no_table :
  forall (d : deco) (mw : N) (o : ropts) (n : rnode),
       no_table n = true -> forall w : N, link_targets d mw o n w = all_links n.
Proof. exact Footnotes.link_targets_no_table. Qed.
Print Assumptions link_targets_no_table.

Theorem link_targets_subseq :
  forall (d : deco) (mw : N) (o : ropts) (n : rnode) (w : N),
       subseq (link_targets d mw o n w) (all_links n).
Proof. exact Footnotes.link_targets_subseq. Qed.
Print Assumptions link_targets_subseq.

Theorem link_reference :
  forall (d : deco) (mw : N) (href : text) (cs : list rnode) (sty : cstyle) 
         (st st' : rstate) (tp : subr),
       top st = Ok tp ->
       render_node d mw (RN (ILink href cs) sty) st = Ok st' ->
       let inner := kids_lt d mw (sopts tp) cs (swidth_ tp) in
       let k := (length (links st) + 1 + length inner)%nat in
       exists (st1 : rstate) (ps : pushed) (st2 st3 st4 st5 : rstate),
         apply_style d st sty = Ok (st1, ps) /\
         with_top {| stack := stack st1; links := links st ++ [href] |}
           (fun s : subr => sub_start_link d s href) = Ok st2 /\
         fold_left (fun (acc : res rstate) (c : rnode) => do s <- acc; render_node d mw c s) cs (Ok st2) =
         Ok st3 /\
         with_top st3 (fun s : subr => sub_end_link d s) = Ok st4 /\
         links st4 = links st ++ href :: inner /\
         shape st4 = shape st /\
         (if o_footnotes (sopts tp)
          then inline_text d st4 (ftext ([91] ++ dec_N (N.of_nat k) ++ [93]))
          else Ok st4) = Ok st5 /\ unwind d ps st5 = Ok st'.
Proof. exact Footnotes.link_reference. Qed.
Print Assumptions link_reference.

Theorem render_tree_footnotes :
  forall (d : deco) (mw : N) (o : ropts) (width : N) (tree : rnode) (s : subr),
       render_tree d mw o width tree = Ok s ->
       let L := link_targets d mw o tree width in
       exists (st : rstate) (body : subr),
         render_node d mw tree {| stack := [sub_new width o]; links := [] |} = Ok st /\
         stack st = [body] /\
         links st = L /\
         swidth_ body = width /\
         sopts body = o /\
         match (if o_footnotes o then L else []) with
         | [] => s = body
         | _ :: _ => exists b1 : subr, start_block body = Ok b1 /\ s = fmt_links b1 (finalise_from 1 L)
         end.
Proof. exact Footnotes.render_tree_footnotes. Qed.
Print Assumptions render_tree_footnotes.

Theorem render_tree_output :
  forall (d : deco) (mw : N) (o : ropts) (width : N) (tree : rnode) (s : subr),
       render_tree d mw o width tree = Ok s ->
       o_footnotes o = true ->
       let L := link_targets d mw o tree width in
       L <> [] ->
       exists (st : rstate) (body b1 : subr) (new : list rline),
         render_node d mw tree {| stack := [sub_new width o]; links := [] |} = Ok st /\
         stack st = [body] /\
         start_block body = Ok b1 /\
         sub_into_lines s = Ok (slines b1 ++ new) /\
         entry_groups (map entry_text (finalise_from 1 L)) (pf_text b1) new /\
         (o_wrap_links o = false ->
          map rline_string new =
          match map entry_text (finalise_from 1 L) with
          | [] => []
          | e :: es => (pf_text b1 ++ e) :: es
          end) /\
         (forall (i : nat) (u : text),
          nth_error L i = Some u ->
          option_map (fun l : tline => cps (entry_text l)) (nth_error (finalise_from 1 L) i) =
          Some
            (map (fun c : N => if c =? 10 then 32 else c)
               ([91] ++ dec_N (1 + N.of_nat i) ++ [93; 58; 32] ++ cps u))).
Proof. exact Footnotes.render_tree_output. Qed.
Print Assumptions render_tree_output.


(* ---------- placement (Proofs/ParaGreedy.v on Decorators): the i-th link's content is immediately followed by its reference [m], the stream ends with the list [k]: target_k ---------- *)
From H2T Require Import Base Tagged Wrap Sub Css Dom Render Api CssParse Proofs.CssTotal Proofs.WrapInv Proofs.RenderWidth Proofs.Conserve Proofs.Footnotes Proofs.AnnBalance Proofs.RenderConserve Proofs.OptionRel Proofs.Compose Proofs.RenderTotal Proofs.FragStream Proofs.SimRel Proofs.Prune Proofs.GreedyProof Proofs.Decorators Proofs.ParaGreedy.
Theorem c08_reference_placement :
  forall (d : deco) (mw : N) (o : ropts) (width : N) (tree : rnode) (s : subr) 
         (ls : list rline) (i : nat) (href : text) (cs : list rnode) (sty : cstyle),
       Decorators.flow tree = true ->
       render_tree d mw o width tree = Ok s ->
       sub_into_lines s = Ok ls ->
       nth_error (link_nodes tree) i = Some (RN (ILink href cs) sty) ->
       nth_error (all_links tree) i = Some href /\
       (exists (pre post : list chr) (kf : nat),
          filter nonws (flat_map rline_string ls) =
          pre ++
          (Decorators.vis kf (fst (d_link_start d href)) ++
           Decorators.kids_full d o kf cs (S i) ++
           Decorators.vis kf (d_link_end d) ++
           (if o_footnotes o then Decorators.vis kf (ref_text (S i + length (flat_map all_links cs))) else [])) ++
          post ++ (if o_footnotes o then foot_from 1 (all_links tree) else []) /\
          (o_strike o = false -> kf = 0%nat)).
Proof. exact ParaGreedy.c08_reference_placement. Qed.
Print Assumptions c08_reference_placement.

Theorem c08_plain_reference :
  forall (mw : N) (o : ropts) (width : N) (tree : rnode) (s : subr) (ls : list rline) 
         (i : nat) (href : text) (cs : list rnode) (sty : cstyle),
       Decorators.flow tree = true ->
       o_footnotes o = true ->
       render_tree plain_deco mw o width tree = Ok s ->
       sub_into_lines s = Ok ls ->
       nth_error (link_nodes tree) i = Some (RN (ILink href cs) sty) ->
       flat_map all_links cs = [] ->
       exists (pre post : list chr) (kf : nat),
         filter nonws (flat_map rline_string ls) =
         pre ++
         Decorators.vis kf (dtext [91]) ++
         Decorators.kids_full plain_deco o kf cs (S i) ++
         Decorators.vis kf (dtext [93]) ++
         Decorators.vis kf (ftext ([91] ++ dec_N (N.of_nat (S i)) ++ [93])) ++
         post ++ foot_from 1 (all_links tree) /\ (o_strike o = false -> kf = 0%nat).
Proof. exact ParaGreedy.c08_plain_reference. Qed.
Print Assumptions c08_plain_reference.

Theorem foot_stream_explicit :
  forall (o : ropts) (L : list text),
       Decorators.foot_stream o L = (if o_footnotes o then foot_from 1 L else []).
Proof. exact ParaGreedy.foot_stream_explicit. Qed.
Print Assumptions foot_stream_explicit.

Theorem flow_text_stream :
  forall (d : deco) (o : ropts) (n : rnode),
       inl n = true -> forall k nl : nat, kept (flow_text d o k n nl) = Decorators.full_stream d o k n nl.
Proof. exact ParaGreedy.flow_text_stream. Qed.
Print Assumptions flow_text_stream.

