From H2T Require Import Base Tagged Wrap Sub Css Dom Render Api Proofs.Small.
(* Props/C08.v -- link footnotes (model level): the footnote list has one entry per link, the
   i-th being "[k+i]: " followed by the i-th target. PARTIAL: that the targets are threaded
   through nested sub-renderers in document order is carried by the correspondence run. *)
Theorem c08_footnote_entries : forall urls k i u,
  nth_error urls i = Some u ->
  option_map (fun l => cps (tl_string l)) (nth_error (finalise_from k urls) i) =
  Some ([91] ++ dec_N (k + N.of_nat i) ++ [93; 58; 32] ++ cps u).
Proof. exact finalise_from_nth. Qed.
Print Assumptions c08_footnote_entries.
Theorem c08_footnote_count : forall urls k, length (finalise_from k urls) = length urls.
Proof. exact finalise_from_length. Qed.
Print Assumptions c08_footnote_count.

(* ---------- tree level (Proofs/Footnotes.v): the link list is threaded in document order; reference text; final list ---------- *)
From H2T Require Import Sub Css Dom Render Api Proofs.WrapInv Proofs.RenderWidth Proofs.Footnotes.
Theorem links_threaded :
  forall (d : deco) (mw : N) (n : rnode) (st st' : rstate) (tp : subr),
       top st = Ok tp ->
       render_node d mw n st = Ok st' -> links st' = links st ++ link_targets d mw (sopts tp) n (swidth_ tp).
Proof. exact Footnotes.links_threaded. Qed.
Print Assumptions links_threaded.

Theorem link_targets_no_table :
  forall (d : deco) (mw : N) (o : ropts) (n : rnode),
       no_table n = true -> forall w : N, link_targets d mw o n w = all_links n.
Proof. exact Footnotes.link_targets_no_table. Qed.
Print Assumptions link_targets_no_table.

Theorem link_targets_subseq :
  forall (d : deco) (mw : N) (o : ropts) (n : rnode) (w : N),
       subseq (link_targets d mw o n w) (all_links n).
Proof. exact Footnotes.link_targets_subseq. Qed.
Print Assumptions link_targets_subseq.

Theorem link_reference :
  forall (d : deco) (mw : N) (href : text) (cs : list rnode) (sty : cstyle) 
         (st st' : rstate) (tp : subr),
       top st = Ok tp ->
       render_node d mw (RN (ILink href cs) sty) st = Ok st' ->
       let inner := kids_lt d mw (sopts tp) cs (swidth_ tp) in
       let k := (length (links st) + 1 + length inner)%nat in
       exists (st1 : rstate) (ps : pushed) (st2 st3 st4 st5 : rstate),
         apply_style d st sty = Ok (st1, ps) /\
         with_top {| stack := stack st1; links := links st ++ [href] |}
           (fun s : subr => sub_start_link d s href) = Ok st2 /\
         fold_left (fun (acc : res rstate) (c : rnode) => do s <- acc; render_node d mw c s) cs (Ok st2) =
         Ok st3 /\
         with_top st3 (fun s : subr => sub_end_link d s) = Ok st4 /\
         links st4 = links st ++ href :: inner /\
         shape st4 = shape st /\
         (if o_footnotes (sopts tp)
          then inline_text d st4 (ftext ([91] ++ dec_N (N.of_nat k) ++ [93]))
          else Ok st4) = Ok st5 /\ unwind d ps st5 = Ok st'.
Proof. exact Footnotes.link_reference. Qed.
Print Assumptions link_reference.

Theorem render_tree_footnotes :
  forall (d : deco) (mw : N) (o : ropts) (width : N) (tree : rnode) (s : subr),
       render_tree d mw o width tree = Ok s ->
       let L := link_targets d mw o tree width in
       exists (st : rstate) (body : subr),
         render_node d mw tree {| stack := [sub_new width o]; links := [] |} = Ok st /\
         stack st = [body] /\
         links st = L /\
         swidth_ body = width /\
         sopts body = o /\
         match (if o_footnotes o then L else []) with
         | [] => s = body
         | _ :: _ => exists b1 : subr, start_block body = Ok b1 /\ s = fmt_links b1 (finalise_from 1 L)
         end.
Proof. exact Footnotes.render_tree_footnotes. Qed.
Print Assumptions render_tree_footnotes.

Theorem render_tree_output :
  forall (d : deco) (mw : N) (o : ropts) (width : N) (tree : rnode) (s : subr),
       render_tree d mw o width tree = Ok s ->
       o_footnotes o = true ->
       let L := link_targets d mw o tree width in
       L <> [] ->
       exists (st : rstate) (body b1 : subr) (new : list rline),
         render_node d mw tree {| stack := [sub_new width o]; links := [] |} = Ok st /\
         stack st = [body] /\
         start_block body = Ok b1 /\
         sub_into_lines s = Ok (slines b1 ++ new) /\
         entry_groups (map entry_text (finalise_from 1 L)) (pf_text b1) new /\
         (o_wrap_links o = false ->
          map rline_string new =
          match map entry_text (finalise_from 1 L) with
          | [] => []
          | e :: es => (pf_text b1 ++ e) :: es
          end) /\
         (forall (i : nat) (u : text),
          nth_error L i = Some u ->
          option_map (fun l : tline => cps (entry_text l)) (nth_error (finalise_from 1 L) i) =
          Some
            (map (fun c : N => if c =? 10 then 32 else c)
               ([91] ++ dec_N (1 + N.of_nat i) ++ [93; 58; 32] ++ cps u))).
Proof. exact Footnotes.render_tree_output. Qed.
Print Assumptions render_tree_output.

