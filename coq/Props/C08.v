From H2T Require Import Base Tagged Wrap Sub Css Dom Render Api Proofs.Small.
(* Props/C08.v -- link footnotes (model level): the footnote list has one entry per link, the
   i-th being "[k+i]: " followed by the i-th target. PARTIAL: that the targets are threaded
   through nested sub-renderers in document order is carried by the correspondence run. *)
Theorem c08_footnote_entries : forall urls k i u,
  nth_error urls i = Some u ->
  option_map (fun l => cps (tl_string l)) (nth_error (finalise_from k urls) i) =
  Some ([91] ++ dec_N (k + N.of_nat i) ++ [93; 58; 32] ++ cps u).
Proof. exact finalise_from_nth. Qed.
Print Assumptions c08_footnote_entries.
Theorem c08_footnote_count : forall urls k, length (finalise_from k urls) = length urls.
Proof. exact finalise_from_length. Qed.
Print Assumptions c08_footnote_count.
