From H2T Require Import Base Tagged Wrap Sub Css Dom Render Api Proofs.Small.
(* Props/C08.v -- link footnotes (model level): the footnote list has one entry per link, the
   i-th being "[k+i]: " followed by the i-th target. PARTIAL: that the targets are threaded
   through nested sub-renderers in document order is carried by the correspondence run. *)
Theorem c08_footnote_entries : forall urls k i u,
  nth_error urls i = Some u ->
  option_map (fun l => cps (tl_string l)) (nth_error (finalise_from k urls) i) =
  Some ([91] ++ dec_N (k + N.of_nat i) ++ [93; 58; 32] ++ cps u).
Proof. exact finalise_from_nth. Qed.
Print Assumptions c08_footnote_entries.
Theorem c08_footnote_count : forall urls k, length (finalise_from k urls) = length urls.
Proof. exact finalise_from_length. Qed.
Print Assumptions c08_footnote_count.

(* ---------- tree level (Proofs/Footnotes.v): the link list is threaded in document order; reference text; final list ---------- *)
From H2T Require Import Sub Css Dom Render Api Proofs.WrapInv Proofs.RenderWidth Proofs.Footnotes.
Theorem links_threaded :
  forall (d : deco) (mw : N) (n : rnode) (st st' : rstate) (tp : subr),
       top st = Ok tp ->
       render_node d mw n st = Ok st' -> links st' = links st ++ link_targets d mw (sopts tp) n (swidth_ tp).
Proof. exact Footnotes.links_threaded. Qed.
Print Assumptions links_threaded.

Theorem link_targets_no_table :
  forall (d : deco) (mw : N) (o : ropts) (n : rnode),
       no_table n = true -> forall w : N, link_targets d mw o n w = all_links n.
Proof. exact Footnotes.link_targets_no_table. Qed.
Print Assumptions link_targets_no_table.

Theorem link_targets_subseq :
  forall (d : deco) (mw : N) (o : ropts) (n : rnode) (w : N),
       subseq (link_targets d mw o n w) (all_links n).
Proof. exact Footnotes.link_targets_subseq. Qed.
Print Assumptions link_targets_subseq.

Theorem link_reference :
  forall (d : deco) (mw : N) (href : text) (cs : list rnode) (sty : cstyle) 
         (st st' : rstate) (tp : subr),
       top st = Ok tp ->
       render_node d mw (RN (ILink href cs) sty) st = Ok st' ->
       let inner := kids_lt d mw (sopts tp) cs (swidth_ tp) in
       let k := (length (links st) + 1 + length inner)%nat in
       exists (st1 : rstate) (ps : pushed) (st2 st3 st4 st5 : rstate),
         apply_style d st sty = Ok (st1, ps) /\
         with_top {| stack := stack st1; links := links st ++ [href] |}
           (fun s : subr => sub_start_link d s href) = Ok st2 /\
         fold_left (fun (acc : res rstate) (c : rnode) => do s <- acc; render_node d mw c s) cs (Ok st2) =
         Ok st3 /\
         with_top st3 (fun s : subr => sub_end_link d s) = Ok st4 /\
         links st4 = links st ++ href :: inner /\
         shape st4 = shape st /\
         (if o_footnotes (sopts tp)
          then inline_text d st4 (ftext ([91] ++ dec_N (N.of_nat k) ++ [93]))
          else Ok st4) = Ok st5 /\ unwind d ps st5 = Ok st'.
Proof. exact Footnotes.link_reference. Qed.
Print Assumptions link_reference.

Theorem render_tree_footnotes :
  forall (d : deco) (mw : N) (o : ropts) (width : N) (tree : rnode) (s : subr),
       render_tree d mw o width tree = Ok s ->
       let L := link_targets d mw o tree width in
       exists (st : rstate) (body : subr),
         render_node d mw tree {| stack := [sub_new width o]; links := [] |} = Ok st /\
         stack st = [body] /\
         links st = L /\
         swidth_ body = width /\
         sopts body = o /\
         match (if o_footnotes o then L else []) with
         | [] => s = body
         | _ :: _ => exists b1 : subr, start_block body = Ok b1 /\ s = fmt_links b1 (finalise_from 1 L)
         end.
Proof. exact Footnotes.render_tree_footnotes. Qed.
Print Assumptions render_tree_footnotes.

Theorem render_tree_output :
  forall (d : deco) (mw : N) (o : ropts) (width : N) (tree : rnode) (s : subr),
       render_tree d mw o width tree = Ok s ->
       o_footnotes o = true ->
       let L := link_targets d mw o tree width in
       L <> [] ->
       exists (st : rstate) (body b1 : subr) (new : list rline),
         render_node d mw tree {| stack := [sub_new width o]; links := [] |} = Ok st /\
         stack st = [body] /\
         start_block body = Ok b1 /\
         sub_into_lines s = Ok (slines b1 ++ new) /\
         entry_groups (map entry_text (finalise_from 1 L)) (pf_text b1) new /\
         (o_wrap_links o = false ->
          map rline_string new =
          match map entry_text (finalise_from 1 L) with
          | [] => []
          | e :: es => (pf_text b1 ++ e) :: es
          end) /\
         (forall (i : nat) (u : text),
          nth_error L i = Some u ->
          option_map (fun l : tline => cps (entry_text l)) (nth_error (finalise_from 1 L) i) =
          Some
            (map (fun c : N => if c =? 10 then 32 else c)
               ([91] ++ dec_N (1 + N.of_nat i) ++ [93; 58; 32] ++ cps u))).
Proof. exact Footnotes.render_tree_output. Qed.
Print Assumptions render_tree_output.


(* ---------- placement (Proofs/ParaGreedy.v on Decorators): the i-th link's content is immediately followed by its reference [m], the stream ends with the list [k]: target_k ---------- *)
From H2T Require Import Base Tagged Wrap Sub Css Dom Render Api CssParse Proofs.CssTotal Proofs.WrapInv Proofs.RenderWidth Proofs.Conserve Proofs.Footnotes Proofs.AnnBalance Proofs.RenderConserve Proofs.OptionRel Proofs.Compose Proofs.RenderTotal Proofs.FragStream Proofs.SimRel Proofs.Prune Proofs.GreedyProof Proofs.Decorators Proofs.ParaGreedy.
Theorem c08_reference_placement :
  forall (d : deco) (mw : N) (o : ropts) (width : N) (tree : rnode) (s : subr) 
         (ls : list rline) (i : nat) (href : text) (cs : list rnode) (sty : cstyle),
       Decorators.flow tree = true ->
       render_tree d mw o width tree = Ok s ->
       sub_into_lines s = Ok ls ->
       nth_error (link_nodes tree) i = Some (RN (ILink href cs) sty) ->
       nth_error (all_links tree) i = Some href /\
       (exists (pre post : list chr) (kf : nat),
          filter nonws (flat_map rline_string ls) =
          pre ++
          (Decorators.vis kf (fst (d_link_start d href)) ++
           Decorators.kids_full d o kf cs (S i) ++
           Decorators.vis kf (d_link_end d) ++
           (if o_footnotes o then Decorators.vis kf (ref_text (S i + length (flat_map all_links cs))) else [])) ++
          post ++ (if o_footnotes o then foot_from 1 (all_links tree) else []) /\
          (o_strike o = false -> kf = 0%nat)).
Proof. exact ParaGreedy.c08_reference_placement. Qed.
Print Assumptions c08_reference_placement.

Theorem c08_plain_reference :
  forall (mw : N) (o : ropts) (width : N) (tree : rnode) (s : subr) (ls : list rline) 
         (i : nat) (href : text) (cs : list rnode) (sty : cstyle),
       Decorators.flow tree = true ->
       o_footnotes o = true ->
       render_tree plain_deco mw o width tree = Ok s ->
       sub_into_lines s = Ok ls ->
       nth_error (link_nodes tree) i = Some (RN (ILink href cs) sty) ->
       flat_map all_links cs = [] ->
       exists (pre post : list chr) (kf : nat),
         filter nonws (flat_map rline_string ls) =
         pre ++
         Decorators.vis kf (dtext [91]) ++
         Decorators.kids_full plain_deco o kf cs (S i) ++
         Decorators.vis kf (dtext [93]) ++
         Decorators.vis kf (ftext ([91] ++ dec_N (N.of_nat (S i)) ++ [93])) ++
         post ++ foot_from 1 (all_links tree) /\ (o_strike o = false -> kf = 0%nat).
Proof. exact ParaGreedy.c08_plain_reference. Qed.
Print Assumptions c08_plain_reference.

Theorem foot_stream_explicit :
  forall (o : ropts) (L : list text),
       Decorators.foot_stream o L = (if o_footnotes o then foot_from 1 L else []).
Proof. exact ParaGreedy.foot_stream_explicit. Qed.
Print Assumptions foot_stream_explicit.

Theorem flow_text_stream :
  forall (d : deco) (o : ropts) (n : rnode),
       inl n = true -> forall k nl : nat, kept (flow_text d o k n nl) = Decorators.full_stream d o k n nl.
Proof. exact ParaGreedy.flow_text_stream. Qed.
Print Assumptions flow_text_stream.


(* DOM level (Proofs/DomInline.v): what each inline element becomes; an <a href> with any
   non-empty processed child is a link node whatever its text says (also when the text is the
   target); the links of the render tree are exactly the kept <a href> elements of the document
   in document order, so the footnote list has one entry per such element (table-free) *)
From H2T Require Import Base Tagged Wrap Sub Css Dom Render Api CssParse Proofs.CssTotal Proofs.WrapInv Proofs.RenderWidth Proofs.Conserve Proofs.Footnotes Proofs.AnnBalance Proofs.RenderConserve Proofs.OptionRel Proofs.Compose Proofs.RenderTotal Proofs.FragStream Proofs.SimRel Proofs.Prune Proofs.DomRel Proofs.DomInline.

Theorem names_spec :
  forall (l : list (list N)) (n : text), names l n = true <-> In (cps n) l.
Proof. exact DomInline.names_spec. Qed.
Print Assumptions names_spec.

Theorem find_attr_spec :
  forall (attrs : list (text * text)) (k : list N),
       match find_attr attrs k with
       | Some v =>
           exists (l1 : list (text * text)) (kn : text) (l2 : list (text * text)),
             attrs = l1 ++ (kn, v) :: l2 /\
             cps kn = k /\ (forall kv : text * text, In kv l1 -> cps (fst kv) <> k)
       | None => forall kv : text * text, In kv attrs -> cps (fst kv) <> k
       end.
Proof. exact DomInline.find_attr_spec. Qed.
Print Assumptions find_attr_spec.

Theorem shallow_empty_spec :
  forall x : rnode,
       is_shallow_empty x =
       match rn_info x with
       | IText t | IImg _ t => all_ws t
       | IContainer [] | ILink _ [] | IEm [] | IStrong [] | IStrikeout [] | ICode [] | 
         IBlock [] | IHeader _ [] | IDiv [] | IBlockQuote [] | IUl [] | IOl _ [] | 
         IDl [] | IDt [] | IDd [] | IBreak | IFragStart _ | IListItem [] | ISup [] => true
       | _ => false
       end.
Proof. exact DomInline.shallow_empty_spec. Qed.
Print Assumptions shallow_empty_spec.

Theorem process_html_element :
  forall (sd : styledata) (udc : bool) (inl : list (text * text) -> res (list styledecl)) 
         (name : text) (attrs : list (text * text)) (kids : list node) (p : list anc) 
         (idx : Z) (computed : cstyle),
       style_of sd udc inl name attrs p idx = Ok computed ->
       shown computed = true ->
       process sd udc inl (NElem true name attrs kids) p idx =
       (do base <-
        (if DomRel.kind_leaf (DomRel.kind_of name)
         then DomRel.base_of (DomRel.kind_of name) attrs computed []
         else
          do cs <- kids_of sd udc inl ({| a_name := name; a_attrs := attrs; a_idx := idx |} :: p) kids;
          DomRel.base_of (DomRel.kind_of name) attrs computed cs);
        Ok (DomRel.post computed (fragment_of name (names [[97]] name) attrs) base)).
Proof. exact DomInline.process_html_element. Qed.
Print Assumptions process_html_element.

Theorem process_hidden_element :
  forall (sd : styledata) (udc : bool) (inl : list (text * text) -> res (list styledecl)) 
         (html : bool) (name : text) (attrs : list (text * text)) (kids : list node) 
         (p : list anc) (idx : Z) (computed : cstyle),
       style_of sd udc inl name attrs p idx = Ok computed ->
       shown computed = false -> process sd udc inl (NElem html name attrs kids) p idx = Ok None.
Proof. exact DomInline.process_hidden_element. Qed.
Print Assumptions process_hidden_element.

Theorem process_a_href :
  forall (sd : styledata) (udc : bool) (inl : list (text * text) -> res (list styledecl)) 
         (name : text) (attrs : list (text * text)) (kids : list node) (p : list anc) 
         (idx : Z) (computed : cstyle),
       style_of sd udc inl name attrs p idx = Ok computed ->
       shown computed = true ->
       forall (href : text) (cs : list rnode),
       DomRel.kind_of name = DomRel.KA ->
       find_attr attrs s_href = Some href ->
       kids_of sd udc inl ({| a_name := name; a_attrs := attrs; a_idx := idx |} :: p) kids = Ok cs ->
       process sd udc inl (NElem true name attrs kids) p idx =
       Ok
         (DomRel.post computed (fragment_of name (names [[97]] name) attrs)
            (if existsb (fun c : rnode => negb (is_shallow_empty c)) cs
             then Some (RN (ILink href cs) computed)
             else None)).
Proof. exact DomInline.process_a_href. Qed.
Print Assumptions process_a_href.

Theorem process_a_plain :
  forall (sd : styledata) (udc : bool) (inl : list (text * text) -> res (list styledecl)) 
         (name : text) (attrs : list (text * text)) (kids : list node) (p : list anc) 
         (idx : Z) (computed : cstyle),
       style_of sd udc inl name attrs p idx = Ok computed ->
       shown computed = true ->
       forall cs : list rnode,
       DomRel.kind_of name = DomRel.KA ->
       find_attr attrs s_href = None ->
       kids_of sd udc inl ({| a_name := name; a_attrs := attrs; a_idx := idx |} :: p) kids = Ok cs ->
       process sd udc inl (NElem true name attrs kids) p idx =
       Ok
         (DomRel.post computed (fragment_of name (names [[97]] name) attrs)
            (Some (RN (IContainer cs) computed))).
Proof. exact DomInline.process_a_plain. Qed.
Print Assumptions process_a_plain.

Theorem process_inline :
  forall (sd : styledata) (udc : bool) (inl : list (text * text) -> res (list styledecl)) 
         (name : text) (attrs : list (text * text)) (kids : list node) (p : list anc) 
         (idx : Z) (computed : cstyle),
       style_of sd udc inl name attrs p idx = Ok computed ->
       shown computed = true ->
       forall cs : list rnode,
       kids_of sd udc inl ({| a_name := name; a_attrs := attrs; a_idx := idx |} :: p) kids = Ok cs ->
       (DomRel.kind_of name = DomRel.KEm ->
        process sd udc inl (NElem true name attrs kids) p idx =
        Ok (DomRel.post computed (fragment_of name (names [[97]] name) attrs) (Some (RN (IEm cs) computed)))) /\
       (DomRel.kind_of name = DomRel.KStrong ->
        process sd udc inl (NElem true name attrs kids) p idx =
        Ok
          (DomRel.post computed (fragment_of name (names [[97]] name) attrs)
             (Some (RN (IStrong cs) computed)))) /\
       (DomRel.kind_of name = DomRel.KStrike ->
        process sd udc inl (NElem true name attrs kids) p idx =
        Ok
          (DomRel.post computed (fragment_of name (names [[97]] name) attrs)
             (Some (RN (IStrikeout cs) computed)))) /\
       (DomRel.kind_of name = DomRel.KCode ->
        process sd udc inl (NElem true name attrs kids) p idx =
        Ok
          (DomRel.post computed (fragment_of name (names [[97]] name) attrs) (Some (RN (ICode cs) computed)))) /\
       (DomRel.kind_of name = DomRel.KSup ->
        process sd udc inl (NElem true name attrs kids) p idx =
        Ok (DomRel.post computed (fragment_of name (names [[97]] name) attrs) (Some (RN (ISup cs) computed)))) /\
       (DomRel.kind_of name = DomRel.KSpan ->
        process sd udc inl (NElem true name attrs kids) p idx =
        Ok
          (DomRel.post computed (fragment_of name (names [[97]] name) attrs)
             match cs with
             | [] => None
             | _ :: _ => Some (RN (IContainer cs) computed)
             end)) /\
       (DomRel.kind_of name = DomRel.KOther ->
        process sd udc inl (NElem true name attrs kids) p idx =
        Ok
          (DomRel.post computed (fragment_of name (names [[97]] name) attrs)
             match cs with
             | [] => None
             | _ :: _ => Some (RN (IContainer cs) computed)
             end)) /\
       (DomRel.kind_of name = DomRel.KRoot ->
        process sd udc inl (NElem true name attrs kids) p idx =
        Ok
          (DomRel.post computed (fragment_of name (names [[97]] name) attrs)
             (Some (RN (IContainer cs) computed)))).
Proof. exact DomInline.process_inline. Qed.
Print Assumptions process_inline.

Theorem process_leaf :
  forall (sd : styledata) (udc : bool) (inl : list (text * text) -> res (list styledecl)) 
         (name : text) (attrs : list (text * text)) (kids : list node) (p : list anc) 
         (idx : Z) (computed : cstyle),
       style_of sd udc inl name attrs p idx = Ok computed ->
       shown computed = true ->
       (DomRel.kind_of name = DomRel.KBr ->
        process sd udc inl (NElem true name attrs kids) p idx =
        Ok (DomRel.post computed (fragment_of name (names [[97]] name) attrs) (Some (RN IBreak computed)))) /\
       (DomRel.kind_of name = DomRel.KSkip ->
        process sd udc inl (NElem true name attrs kids) p idx =
        Ok (DomRel.post computed (fragment_of name (names [[97]] name) attrs) None)) /\
       (DomRel.kind_of name = DomRel.KImg ->
        process sd udc inl (NElem true name attrs kids) p idx =
        Ok
          (DomRel.post computed (fragment_of name (names [[97]] name) attrs)
             (let (o, o0) := img_attrs attrs None None in
              match o with
              | Some title =>
                  match o0 with
                  | Some src => Some (RN (IImg src title) computed)
                  | None => None
                  end
              | None => None
              end))).
Proof. exact DomInline.process_leaf. Qed.
Print Assumptions process_leaf.

Theorem a_href_text_is_link :
  forall (sd : styledata) (udc : bool) (inl : list (text * text) -> res (list styledecl)) 
         (name : text) (attrs : list (text * text)) (kids : list node) (p : list anc) 
         (idx : Z) (computed : cstyle) (href t : text),
       style_of sd udc inl name attrs p idx = Ok computed ->
       shown computed = true ->
       cps name = [97] ->
       find_attr attrs s_href = Some href ->
       In (NText t) kids ->
       all_ws t = false ->
       forall r : option rnode,
       process sd udc inl (NElem true name attrs kids) p idx = Ok r ->
       exists cs : list rnode,
         kids_of sd udc inl ({| a_name := name; a_attrs := attrs; a_idx := idx |} :: p) kids = Ok cs /\
         r = DomRel.post computed (fragment_of name true attrs) (Some (RN (ILink href cs) computed)).
Proof. exact DomInline.a_href_text_is_link. Qed.
Print Assumptions a_href_text_is_link.

Theorem process_links :
  forall (sd : styledata) (udc : bool) (inl : list (text * text) -> res (list styledecl)) 
         (n : node) (p : list anc) (idx : Z) (t : rnode),
       table_free n = true ->
       process sd udc inl n p idx = Ok (Some t) -> all_links t = dlinks sd udc inl n p idx.
Proof. exact DomInline.process_links. Qed.
Print Assumptions process_links.

Theorem process_nothing_links :
  forall (sd : styledata) (udc : bool) (inl : list (text * text) -> res (list styledecl)) 
         (n : node) (p : list anc) (idx : Z),
       table_free n = true -> process sd udc inl n p idx = Ok None -> dlinks sd udc inl n p idx = [].
Proof. exact DomInline.process_nothing_links. Qed.
Print Assumptions process_nothing_links.

Theorem process_no_table :
  forall (sd : styledata) (udc : bool) (inl : list (text * text) -> res (list styledecl)) 
         (n : node) (p : list anc) (idx : Z) (x : rnode),
       table_free n = true -> process sd udc inl n p idx = Ok (Some x) -> no_table x = true.
Proof. exact DomInline.process_no_table. Qed.
Print Assumptions process_no_table.

Theorem dom_tree_links :
  forall (sd : styledata) (udc : bool) (inl : list (text * text) -> res (list styledecl))
         (doc : list node) (tree : rnode),
       forallb table_free doc = true ->
       dom_to_render_tree sd udc inl doc = Ok tree ->
       all_links tree = dom_links sd udc inl doc /\ no_table tree = true.
Proof. exact DomInline.dom_tree_links. Qed.
Print Assumptions dom_tree_links.

Theorem c08_tree_links :
  forall (inline_styles : list (text * text) -> res (list styledecl))
         (doc_rules : list node -> res (list ruleset)) (c : config) (doc : list node) 
         (tree : rnode),
       forallb table_free doc = true ->
       to_render_tree inline_styles doc_rules c doc = Ok tree ->
       all_links tree = doc_links inline_styles doc_rules c doc /\ no_table tree = true.
Proof. exact DomInline.c08_tree_links. Qed.
Print Assumptions c08_tree_links.

Theorem c08_footnote_list :
  forall (inline_styles : list (text * text) -> res (list styledecl))
         (doc_rules : list node -> res (list ruleset)) (c : config) (doc : list node) 
         (tree : rnode) (width : N) (s : subr),
       forallb table_free doc = true ->
       to_render_tree inline_styles doc_rules c doc = Ok tree ->
       render_tree (c_deco c) (c_min_wrap c) (render_options c) width tree = Ok s ->
       exists (st : rstate) (body : subr),
         render_node (c_deco c) (c_min_wrap c) tree
           {| stack := [sub_new width (render_options c)]; links := [] |} = Ok st /\
         stack st = [body] /\
         links st = doc_links inline_styles doc_rules c doc /\
         match (if o_footnotes (render_options c) then doc_links inline_styles doc_rules c doc else []) with
         | [] => s = body
         | _ :: _ =>
             exists b1 : subr,
               start_block body = Ok b1 /\
               s = fmt_links b1 (finalise_from 1 (doc_links inline_styles doc_rules c doc))
         end.
Proof. exact DomInline.c08_footnote_list. Qed.
Print Assumptions c08_footnote_list.


(* the same for every document, tables included (Proofs/DomLinksTables.v): the links of the render
   tree are the kept <a href> elements of the DOM in document order (rows directly under table
   and other stray children are dropped with their links); the footnote list is the sub-sequence
   of them that the layout visits (a cell that gets no width is skipped: recorded finding) *)
From H2T Require Import Base Tagged Wrap Sub Css Dom Render Api CssParse Proofs.CssTotal Proofs.WrapInv Proofs.RenderWidth Proofs.Conserve Proofs.Footnotes Proofs.AnnBalance Proofs.RenderConserve Proofs.OptionRel Proofs.Compose Proofs.RenderTotal Proofs.FragStream Proofs.SimRel Proofs.Prune Proofs.DomRel Proofs.DomInline Proofs.DomLinksTables.

Theorem process_glinks :
  forall (sd : styledata) (udc : bool) (inl : list (text * text) -> res (list styledecl)) 
         (n : node) (p : list anc) (idx : Z) (t : rnode),
       process sd udc inl n p idx = Ok (Some t) -> glinks t = dlinks_t sd udc inl n p idx.
Proof. exact DomLinksTables.process_glinks. Qed.
Print Assumptions process_glinks.

Theorem process_nothing_glinks :
  forall (sd : styledata) (udc : bool) (inl : list (text * text) -> res (list styledecl)) 
         (n : node) (p : list anc) (idx : Z),
       process sd udc inl n p idx = Ok None -> dlinks_t sd udc inl n p idx = [].
Proof. exact DomLinksTables.process_nothing_glinks. Qed.
Print Assumptions process_nothing_glinks.

Theorem process_all_links :
  forall (sd : styledata) (udc : bool) (inl : list (text * text) -> res (list styledecl)) 
         (n : node) (p : list anc) (idx : Z) (t : rnode),
       f_nb (dtag_t n) = true ->
       process sd udc inl n p idx = Ok (Some t) -> all_links t = dlinks_t sd udc inl n p idx.
Proof. exact DomLinksTables.process_all_links. Qed.
Print Assumptions process_all_links.

Theorem dom_tree_links_t :
  forall (sd : styledata) (udc : bool) (inl : list (text * text) -> res (list styledecl))
         (doc : list node) (tree : rnode),
       dom_to_render_tree sd udc inl doc = Ok tree -> all_links tree = dom_links_t sd udc inl doc.
Proof. exact DomLinksTables.dom_tree_links_t. Qed.
Print Assumptions dom_tree_links_t.

Theorem c08_tree_links_t :
  forall (inline_styles : list (text * text) -> res (list styledecl))
         (doc_rules : list node -> res (list ruleset)) (c : config) (doc : list node) 
         (tree : rnode),
       to_render_tree inline_styles doc_rules c doc = Ok tree ->
       all_links tree = doc_links_t inline_styles doc_rules c doc.
Proof. exact DomLinksTables.c08_tree_links_t. Qed.
Print Assumptions c08_tree_links_t.

Theorem dlinks_t_table_free :
  forall (sd : styledata) (udc : bool) (inl : list (text * text) -> res (list styledecl)) 
         (n : node) (p : list anc) (idx : Z),
       DomInline.table_free n = true -> dlinks_t sd udc inl n p idx = DomInline.dlinks sd udc inl n p idx.
Proof. exact DomLinksTables.dlinks_t_table_free. Qed.
Print Assumptions dlinks_t_table_free.

Theorem c08_footnote_list_t :
  forall (inline_styles : list (text * text) -> res (list styledecl))
         (doc_rules : list node -> res (list ruleset)) (c : config) (doc : list node) 
         (tree : rnode) (width : N) (s : subr),
       to_render_tree inline_styles doc_rules c doc = Ok tree ->
       render_tree (c_deco c) (c_min_wrap c) (render_options c) width tree = Ok s ->
       let L := link_targets (c_deco c) (c_min_wrap c) (render_options c) tree width in
       exists (st : rstate) (body : subr),
         render_node (c_deco c) (c_min_wrap c) tree
           {| stack := [sub_new width (render_options c)]; links := [] |} = Ok st /\
         stack st = [body] /\
         links st = L /\
         subseq L (doc_links_t inline_styles doc_rules c doc) /\
         match (if o_footnotes (render_options c) then L else []) with
         | [] => s = body
         | _ :: _ => exists b1 : subr, start_block body = Ok b1 /\ s = fmt_links b1 (finalise_from 1 L)
         end.
Proof. exact DomLinksTables.c08_footnote_list_t. Qed.
Print Assumptions c08_footnote_list_t.

