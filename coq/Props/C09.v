From H2T Require Import Base Tagged Wrap Sub Css Dom Render Api Proofs.Small.
(* Props/C09.v -- annotations (model level): pushing then popping an annotation restores the
   stack. PARTIAL: the tree-level balance invariant is carried by the correspondence run
   (full tags compared) and the token checker. *)
Theorem c09_push_pop : forall s a, ann_stack (pop_ann (push_ann s a)) = ann_stack s.
Proof. exact pop_push_ann. Qed.
Print Assumptions c09_push_pop.
