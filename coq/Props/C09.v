From H2T Require Import Base Tagged Wrap Sub Css Dom Render Api Proofs.Small.
(* Props/C09.v -- annotations (model level): pushing then popping an annotation restores the
   stack. PARTIAL: the tree-level balance invariant is carried by the correspondence run
   (full tags compared) and the token checker. *)
Theorem c09_push_pop : forall s a, ann_stack (pop_ann (push_ann s a)) = ann_stack s.
Proof. exact pop_push_ann. Qed.
Print Assumptions c09_push_pop.

(* ---------- tree level (Proofs/AnnBalance.v): no annotation leaks, every tag extends the enclosing stack ---------- *)
From H2T Require Import Sub Css Dom Render Api Proofs.WrapInv Proofs.RenderWidth Proofs.AnnBalance.
Theorem render_node_balanced :
  forall (d : deco) (mw : N) (n : rnode) (st st' : rstate) (s : subr) (rest : list subr),
       render_node d mw n st = Ok st' ->
       stack st = s :: rest -> exists s' : subr, stack st' = s' :: rest /\ meta_of s' = meta_of s.
Proof. exact AnnBalance.render_node_balanced. Qed.
Print Assumptions render_node_balanced.

Theorem sub_renderer_balanced :
  forall (d : deco) (mw : N) (cs : list rnode) (st : rstate) (tp : subr) (w : N) 
         (st2 : rstate) (sub : subr) (st3 : rstate),
       top st = Ok tp ->
       fold_left (fun (acc : res rstate) (c : rnode) => do s <- acc; render_node d mw c s) cs
         (Ok (push_sub st (new_sub_renderer tp w))) = Ok st2 ->
       pop_sub st2 = Ok (sub, st3) ->
       stack st3 = stack st /\
       meta_of sub =
       {|
         m_w := w;
         m_o := sopts tp;
         m_ann := ann_stack tp;
         m_filt := filter_depth tp;
         m_pre := pre_depth tp;
         m_ws := ws_stack tp
       |}.
Proof. exact AnnBalance.sub_renderer_balanced. Qed.
Print Assumptions sub_renderer_balanced.

Theorem render_tree_balanced :
  forall (d : deco) (mw : N) (o : ropts) (width : N) (tree : rnode) (s : subr),
       render_tree d mw o width tree = Ok s ->
       meta_of s = {| m_w := width; m_o := o; m_ann := []; m_filt := 0; m_pre := 0; m_ws := [] |}.
Proof. exact AnnBalance.render_tree_balanced. Qed.
Print Assumptions render_tree_balanced.

Theorem render_node_tags :
  forall (Q : tag -> Prop) (d : deco) (mw : N) (n : rnode) (st st' : rstate) 
         (s : subr) (rest : list subr),
       Q [] ->
       render_node d mw n st = Ok st' ->
       stack st = s :: rest ->
       (forall x : list ann, Q (ann_stack s ++ x)) ->
       sub_Q Q s -> exists s' : subr, stack st' = s' :: rest /\ meta_of s' = meta_of s /\ sub_Q Q s'.
Proof. exact AnnBalance.render_node_tags. Qed.
Print Assumptions render_node_tags.

Theorem text_leaf_tags :
  forall (Qold : tag -> Prop) (d : deco) (mw : N) (t : text) (sty : cstyle) 
         (st st' : rstate) (s : subr) (rest : list subr),
       render_node d mw (RN (IText t) sty) st = Ok st' ->
       stack st = s :: rest ->
       sub_Q Qold s ->
       let A := ann_stack s ++ style_anns d sty in
       let inpre := 0 <? pre_depth s + (if cs_internal_pre sty then 1 else 0) in
       exists s' : subr,
         stack st' = s' :: rest /\
         meta_of s' = meta_of s /\
         sub_Q
           (fun x : tag =>
            Qold x \/
            x = [] \/
            x = (if inpre then A ++ [d_pre_first d] else A) \/ x = (if inpre then A ++ [d_pre_cont d] else A))
           s'.
Proof. exact AnnBalance.text_leaf_tags. Qed.
Print Assumptions text_leaf_tags.

Theorem inline_element_tags :
  forall (Qold : tag -> Prop) (d : deco) (mw : N) (i : rinfo) (sty : cstyle) 
         (a : ann) (cs : list rnode) (st st' : rstate) (s : subr) (rest : list subr),
       inline_ann d i = Some (a, cs) ->
       render_node d mw (RN i sty) st = Ok st' ->
       stack st = s :: rest ->
       sub_Q Qold s ->
       exists s' : subr,
         stack st' = s' :: rest /\
         sub_Q (fun t : tag => Qold t \/ t = [] \/ ext (ann_stack s ++ style_anns d sty ++ [a]) t) s'.
Proof. exact AnnBalance.inline_element_tags. Qed.
Print Assumptions inline_element_tags.

