From H2T Require Import Base Tagged Wrap Sub Css Dom Render Api Proofs.Small.
(* Props/C09.v -- annotations (model level): pushing then popping an annotation restores the
   stack. PARTIAL: the tree-level balance invariant is carried by the correspondence run
   (full tags compared) and the token checker. *)
Theorem c09_push_pop : forall s a, ann_stack (pop_ann (push_ann s a)) = ann_stack s.
Proof. exact pop_push_ann. Qed.
Print Assumptions c09_push_pop.

(* ---------- tree level (Proofs/AnnBalance.v): no annotation leaks, every tag extends the enclosing stack ---------- *)
From H2T Require Import Sub Css Dom Render Api Proofs.WrapInv Proofs.RenderWidth Proofs.AnnBalance.
Theorem render_node_balanced :
  forall (d : deco) (mw : N) (n : rnode) (st st' : rstate) (s : subr) (rest : list subr),
       render_node d mw n st = Ok st' ->
       stack st = s :: rest -> exists s' : subr, stack st' = s' :: rest /\ meta_of s' = meta_of s.
Proof. exact AnnBalance.render_node_balanced. Qed.
Print Assumptions render_node_balanced.

Theorem sub_renderer_balanced :
  forall (d : deco) (mw : N) (cs : list rnode) (st : rstate) (tp : subr) (w : N) 
         (st2 : rstate) (sub : subr) (st3 : rstate),
       top st = Ok tp ->
       fold_left (fun (acc : res rstate) (c : rnode) => do s <- acc; render_node d mw c s) cs
         (Ok (push_sub st (new_sub_renderer tp w))) = Ok st2 ->
       pop_sub st2 = Ok (sub, st3) ->
       stack st3 = stack st /\
       meta_of sub =
       {|
         m_w := w;
         m_o := sopts tp;
         m_ann := ann_stack tp;
         m_filt := filter_depth tp;
         m_pre := pre_depth tp;
         m_ws := ws_stack tp
       |}.
Proof. exact AnnBalance.sub_renderer_balanced. Qed.
Print Assumptions sub_renderer_balanced.

Theorem render_tree_balanced :
  forall (d : deco) (mw : N) (o : ropts) (width : N) (tree : rnode) (s : subr),
       render_tree d mw o width tree = Ok s ->
       meta_of s = {| m_w := width; m_o := o; m_ann := []; m_filt := 0; m_pre := 0; m_ws := [] |}.
Proof. exact AnnBalance.render_tree_balanced. Qed.
Print Assumptions render_tree_balanced.

Theorem render_node_tags :
  forall (Q : tag -> Prop) (d : deco) (mw : N) (n : rnode) (st st' : rstate) 
         (s : subr) (rest : list subr),
       Q [] ->
       render_node d mw n st = Ok st' ->
       stack st = s :: rest ->
       (forall x : list ann, Q (ann_stack s ++ x)) ->
       sub_Q Q s -> exists s' : subr, stack st' = s' :: rest /\ meta_of s' = meta_of s /\ sub_Q Q s'.
Proof. exact AnnBalance.render_node_tags. Qed.
Print Assumptions render_node_tags.

Theorem text_leaf_tags :
  forall (Qold : tag -> Prop) (d : deco) (mw : N) (t : text) (sty : cstyle) 
         (st st' : rstate) (s : subr) (rest : list subr),
       render_node d mw (RN (IText t) sty) st = Ok st' ->
       stack st = s :: rest ->
       sub_Q Qold s ->
       let A := ann_stack s ++ style_anns d sty in
       let inpre := 0 <? pre_depth s + (if cs_internal_pre sty then 1 else 0) in
       exists s' : subr,
         stack st' = s' :: rest /\
         meta_of s' = meta_of s /\
         sub_Q
           (fun x : tag =>
            Qold x \/
            x = [] \/
            x = (if inpre then A ++ [d_pre_first d] else A) \/ x = (if inpre then A ++ [d_pre_cont d] else A))
           s'.
Proof. exact AnnBalance.text_leaf_tags. Qed.
Print Assumptions text_leaf_tags.

Theorem inline_element_tags :
  forall (Qold : tag -> Prop) (d : deco) (mw : N) (i : rinfo) (sty : cstyle) 
         (a : ann) (cs : list rnode) (st st' : rstate) (s : subr) (rest : list subr),
       inline_ann d i = Some (a, cs) ->
       render_node d mw (RN i sty) st = Ok st' ->
       stack st = s :: rest ->
       sub_Q Qold s ->
       exists s' : subr,
         stack st' = s' :: rest /\
         sub_Q (fun t : tag => Qold t \/ t = [] \/ ext (ann_stack s ++ style_anns d sty ++ [a]) t) s'.
Proof. exact AnnBalance.inline_element_tags. Qed.
Print Assumptions inline_element_tags.


(* ---------- character level (Proofs/AnnCorollaries.v): every (character, tag) pair of the output is accounted for - document characters carry exactly the annotations of their enclosing nodes (per-kind table own_ann_tbl), independent of width/options/position; renderer-made characters carry exactly the enclosing block's; lines route = string route ---------- *)
From H2T Require Import Base Tagged Wrap Sub Css Dom Render Api CssParse Proofs.CssTotal Proofs.WrapInv Proofs.RenderWidth Proofs.Conserve Proofs.Footnotes Proofs.AnnBalance Proofs.RenderConserve Proofs.OptionRel Proofs.Compose Proofs.RenderTotal Proofs.FragStream Proofs.SimRel Proofs.Prune Proofs.AnnCorollaries.
Theorem render_node_chars :
  forall (R : chr -> tag -> Prop) (d : deco) (mw : N) (n : rnode) (st st' : rstate) 
         (s : subr) (rest : list subr),
       (forall (c : chr) (t t' : tag), tag_eqb t' t = true -> R c t -> R c t') ->
       R (spacel L_pad) [] ->
       (forall (c : chr) (t : tag), tree_ct d (ann_stack s) (0 <? pre_depth s) (Inherit.pe_of n) c t -> R c t) ->
       render_node d mw n st = Ok st' ->
       stack st = s :: rest ->
       sub_R R s -> exists s' : subr, stack st' = s' :: rest /\ meta_of s' = meta_of s /\ sub_R R s'.
Proof. exact AnnCorollaries.render_node_chars. Qed.
Print Assumptions render_node_chars.

Theorem render_tree_chars :
  forall (d : deco) (mw : N) (o : ropts) (width : N) (tree : rnode) (s : subr),
       render_tree d mw o width tree = Ok s -> sub_R (teq (root_ct d tree)) s.
Proof. exact AnnCorollaries.render_tree_chars. Qed.
Print Assumptions render_tree_chars.

Theorem render_tree_line_chars :
  forall (d : deco) (mw : N) (o : ropts) (width : N) (tree : rnode) (s : subr) (ls : list rline),
       render_tree d mw o width tree = Ok s ->
       sub_into_lines s = Ok ls ->
       forall l : rline,
       In l ls ->
       forall (c : chr) (t : tag), In (c, t) (tl_pairs (rline_into_tagged l)) -> teq (root_ct d tree) c t.
Proof. exact AnnCorollaries.render_tree_line_chars. Qed.
Print Assumptions render_tree_line_chars.

Theorem c09_lines_from_read_chars :
  forall (ist : list (text * text) -> res (list styledecl)) (dr : list node -> res (list ruleset))
         (cfg : config) (doc : list node) (w : N) (ls : list tline),
       lines_from_read ist dr cfg doc w = Ok ls ->
       exists tree : rnode,
         to_render_tree ist dr cfg doc = Ok tree /\
         (forall l : tline,
          In l ls ->
          forall (c : chr) (t : tag), In (c, t) (tl_pairs l) -> teq (root_ct (c_deco cfg) tree) c t).
Proof. exact AnnCorollaries.c09_lines_from_read_chars. Qed.
Print Assumptions c09_lines_from_read_chars.

Theorem own_ann_tbl_ok :
  forall (d : deco) (i : rinfo), Inherit.own_ann d i = opt_tag (own_ann_tbl d i).
Proof. exact AnnCorollaries.own_ann_tbl_ok. Qed.
Print Assumptions own_ann_tbl_ok.

Theorem enclosing_anns_split :
  forall (d : deco) (p : list (rinfo * cstyle)) (i : rinfo) (sty : cstyle) (q : list (rinfo * cstyle)),
       Inherit.enclosing_anns d (p ++ (i, sty) :: q) =
       Inherit.enclosing_anns d p ++
       style_anns d sty ++ opt_tag (own_ann_tbl d i) ++ Inherit.enclosing_anns d q.
Proof. exact AnnCorollaries.enclosing_anns_split. Qed.
Print Assumptions enclosing_anns_split.

Theorem doc_char_tag :
  forall (d : deco) (tree : rnode) (c : chr) (t : tag),
       teq (root_ct d tree) c t ->
       (16 <=? lab c) = true ->
       prefix_made d ->
       exists p : list Inherit.pe, Inherit.path_from (Inherit.pe_of tree) p /\ own_at d p c /\ leaf_tag d p t.
Proof. exact AnnCorollaries.doc_char_tag. Qed.
Print Assumptions doc_char_tag.

Theorem leaf_char_tag :
  forall (d : deco) (mw : N) (o : ropts) (width : N) (tree : rnode) (s : subr) 
         (ls : list rline) (p0 : list Inherit.pe) (c : chr),
       render_tree d mw o width tree = Ok s ->
       sub_into_lines s = Ok ls ->
       prefix_made d ->
       (16 <=? lab c) = true ->
       Inherit.path_from (Inherit.pe_of tree) p0 ->
       own_at d p0 c ->
       unique_home d tree c ->
       forall (l : rline) (t : tag), In l ls -> In (c, t) (tl_pairs (rline_into_tagged l)) -> leaf_tag d p0 t.
Proof. exact AnnCorollaries.leaf_char_tag. Qed.
Print Assumptions leaf_char_tag.

Theorem leaf_tags_independent :
  forall (d : deco) (tree : rnode) (p0 : list Inherit.pe) (c : chr) (mw1 : N) 
         (o1 : ropts) (w1 : N) (s1 : subr) (ls1 : list rline) (mw2 : N) (o2 : ropts) 
         (w2 : N) (s2 : subr) (ls2 : list rline),
       render_tree d mw1 o1 w1 tree = Ok s1 ->
       sub_into_lines s1 = Ok ls1 ->
       render_tree d mw2 o2 w2 tree = Ok s2 ->
       sub_into_lines s2 = Ok ls2 ->
       prefix_made d ->
       (16 <=? lab c) = true ->
       Inherit.path_from (Inherit.pe_of tree) p0 ->
       own_at d p0 c ->
       unique_home d tree c ->
       forall (l1 : rline) (t1 : tag) (l2 : rline) (t2 : tag),
       In l1 ls1 ->
       In (c, t1) (tl_pairs (rline_into_tagged l1)) ->
       In l2 ls2 ->
       In (c, t2) (tl_pairs (rline_into_tagged l2)) ->
       leaf_tag d p0 t1 /\ leaf_tag d p0 t2 /\ (Inherit.path_pre p0 = false -> tag_eqb t1 t2 = true).
Proof. exact AnnCorollaries.leaf_tags_independent. Qed.
Print Assumptions leaf_tags_independent.

Theorem made_char_tag :
  forall (d : deco) (tree : rnode) (c : chr) (t : tag),
       teq (root_ct d tree) c t ->
       own_free d tree c ->
       c = spacel L_pad /\ t = [] \/
       lab c = L_foot /\ t = [ADefault] \/
       (exists (p : list Inherit.pe) (c' : chr),
          Inherit.path_from (Inherit.pe_of tree) p /\
          own_at d p c' /\
          leaf_tag d p t /\
          (c = strike_chr /\ ws c' = false \/ (c = spacel L_space \/ c = spacel L_pad) /\ ws c' = true)) \/
       (exists p : list Inherit.pe,
          Inherit.path_from (Inherit.pe_of tree) p /\
          struct_char d (fst (Inherit.last_pe p)) c /\ teq_tag t (Inherit.enclosing_anns d p)) \/
       (exists p : list Inherit.pe,
          Inherit.path_from (Inherit.pe_of tree) p /\
          Inherit.is_link (fst (Inherit.last_pe p)) = true /\
          marker_char c /\
          (exists t0 : tag,
             tag_eqb t t0 = true /\
             Inherit.with_pre d (Inherit.path_pre p)
               (Inherit.enclosing_anns d (removelast p) ++ style_anns d (snd (Inherit.last_pe p))) t0)).
Proof. exact AnnCorollaries.made_char_tag. Qed.
Print Assumptions made_char_tag.

Theorem c09_pieces_concat :
  forall (ist : list (text * text) -> res (list styledecl)) (dr : list node -> res (list ruleset))
         (cfg : config) (doc : list node) (w : N),
       string_from_read ist dr cfg doc w =
       (do ls <- lines_from_read ist dr cfg doc w;
        Ok (flat_map (fun l : tline => flat_map fst (tl_tagged_strings l) ++ [newline_chr]) ls)).
Proof. exact AnnCorollaries.c09_pieces_concat. Qed.
Print Assumptions c09_pieces_concat.

Theorem rich_link_contributes :
  forall (p : list (rinfo * cstyle)) (href : text) (cs : list rnode) (sty : cstyle)
         (q : list (rinfo * cstyle)),
       Inherit.enclosing_anns rich_deco (p ++ (ILink href cs, sty) :: q) =
       Inherit.enclosing_anns rich_deco p ++
       style_anns rich_deco sty ++ [ALink href] ++ Inherit.enclosing_anns rich_deco q.
Proof. exact AnnCorollaries.rich_link_contributes. Qed.
Print Assumptions rich_link_contributes.

Theorem rich_image_contributes :
  forall (p : list (rinfo * cstyle)) (src title : text) (sty : cstyle),
       Inherit.enclosing_anns rich_deco (p ++ [(IImg src title, sty)]) =
       Inherit.enclosing_anns rich_deco p ++ style_anns rich_deco sty ++ [AImage src].
Proof. exact AnnCorollaries.rich_image_contributes. Qed.
Print Assumptions rich_image_contributes.

Theorem rich_block_contributes :
  forall (p : list (rinfo * cstyle)) (i : rinfo) (sty : cstyle) (q : list (rinfo * cstyle)),
       rich_own_ann i = None ->
       Inherit.enclosing_anns rich_deco (p ++ (i, sty) :: q) =
       Inherit.enclosing_anns rich_deco p ++ style_anns rich_deco sty ++ Inherit.enclosing_anns rich_deco q.
Proof. exact AnnCorollaries.rich_block_contributes. Qed.
Print Assumptions rich_block_contributes.


(* presentational attributes (Proofs/AttrColours.v): the inline declarations of an element are
   exactly those of its style / color / bgcolor attributes in attribute order; color= never
   gives a background declaration nor bgcolor= a text colour, and each leaves every other
   cell of the computed style untouched *)
From H2T Require Import Base Tagged Wrap Sub Css Dom Render Api CssParse Proofs.CssTotal Proofs.WrapInv Proofs.RenderWidth Proofs.Conserve Proofs.Footnotes Proofs.AnnBalance Proofs.RenderConserve Proofs.OptionRel Proofs.Compose Proofs.RenderTotal Proofs.FragStream Proofs.SimRel Proofs.Prune Proofs.AttrColours.

Theorem inline_styles_spec :
  forall (attrs : list (text * text)) (l : list styledecl),
       inline_styles attrs = Ok l <->
       (exists ls : list (list styledecl), Forall2 attr_spec attrs ls /\ l = concat ls).
Proof. exact AttrColours.inline_styles_spec. Qed.
Print Assumptions inline_styles_spec.

Theorem inline_styles_always :
  forall attrs : list (text * text),
       exists ls : list (list styledecl), Forall2 attr_spec attrs ls /\ inline_styles attrs = Ok (concat ls).
Proof. exact AttrColours.inline_styles_always. Qed.
Print Assumptions inline_styles_always.

Theorem style_attribute_fail :
  forall v : text, parse_rules v = PFail -> parse_style_attribute v = Ok [].
Proof. exact AttrColours.style_attribute_fail. Qed.
Print Assumptions style_attribute_fail.

Theorem colour_attr_no_bg :
  forall (k v : text) (l : list styledecl),
       cps k = s_colorattr ->
       attr_spec (k, v) l ->
       Forall (fun d : styledecl => CascadeDom.st_bg (sd_style d) = None /\ sd_important d = false) l.
Proof. exact AttrColours.colour_attr_no_bg. Qed.
Print Assumptions colour_attr_no_bg.

Theorem bg_attr_no_colour :
  forall (k v : text) (l : list styledecl),
       cps k = s_bgcolor ->
       attr_spec (k, v) l ->
       Forall (fun d : styledecl => CascadeDom.st_colour (sd_style d) = None /\ sd_important d = false) l.
Proof. exact AttrColours.bg_attr_no_colour. Qed.
Print Assumptions bg_attr_no_colour.

Theorem bgcolor_attr_other_cells :
  forall (attrs : list (text * text)) (inl : list styledecl),
       inline_styles attrs = Ok inl ->
       exists inl' : list styledecl,
         inline_styles (remove_attr s_bgcolor attrs) = Ok inl' /\
         (forall (sd : styledata) (p : list anc) (which : option pseudo),
          let c := CascadeDom.core_at which (computed_style sd p inl) in
          let c' := CascadeDom.core_at which (computed_style sd p inl') in
          c_colour c = c_colour c' /\
          c_display c = c_display c' /\ c_white_space c = c_white_space c' /\ c_content c = c_content c').
Proof. exact AttrColours.bgcolor_attr_other_cells. Qed.
Print Assumptions bgcolor_attr_other_cells.

Theorem color_attr_other_cells :
  forall (attrs : list (text * text)) (inl : list styledecl),
       inline_styles attrs = Ok inl ->
       exists inl' : list styledecl,
         inline_styles (remove_attr s_colorattr attrs) = Ok inl' /\
         (forall (sd : styledata) (p : list anc) (which : option pseudo),
          let c := CascadeDom.core_at which (computed_style sd p inl) in
          let c' := CascadeDom.core_at which (computed_style sd p inl') in
          c_bg c = c_bg c' /\
          c_display c = c_display c' /\ c_white_space c = c_white_space c' /\ c_content c = c_content c').
Proof. exact AttrColours.color_attr_other_cells. Qed.
Print Assumptions color_attr_other_cells.

Theorem text_below_bgcolor :
  forall (sd : styledata) (d : deco) (name : text) (pre : list (text * text)) 
         (k v : text) (post : list (text * text)) (idx : Z) (p : list anc) (c : N * N * N) 
         (t : tag) (c1 c2 : list (list anc)),
       let attrs := pre ++ (k, v) :: post in
       let me := {| a_name := name; a_attrs := attrs; a_idx := idx |} :: p in
       d_colours d = true ->
       cps k = s_bgcolor ->
       parse_color_attribute v = Ok (Some c) ->
       no_attr s_style attrs = true ->
       no_attr s_bgcolor post = true ->
       Forall (fun d0 : Cascade.cdecl (N * N * N) => Cascade.cd_important d0 = false)
         (CascadeDom.proj CascadeDom.st_bg None (CascadeDom.applicable sd me [])) ->
       Forall (fun m : list anc => CascadeDom.elem_bg sd true inline_styles d m = None) c2 ->
       Inherit.last_bg t =
       Inherit.last_some (CascadeDom.elem_bg sd true inline_styles d) (c1 ++ me :: c2) None ->
       Inherit.last_bg t = Some c.
Proof. exact AttrColours.text_below_bgcolor. Qed.
Print Assumptions text_below_bgcolor.
