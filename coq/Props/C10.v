(* Props/C10.v -- all API routes agree (model level).  Determinism of the model is
   definitional (it is a Gallina function); what C10 says about the code is carried by
   the correspondence run over routes and render histories. *)
From H2T Require Import Base Tagged Wrap Sub Css Dom Render Api CssParse Proofs.ApiProofs.

Theorem c10_routes_agree : forall c doc w,
  string_from_read inline_styles doc_rules c doc w =
  (do ls <- lines_from_read inline_styles doc_rules c doc w; Ok (join_lines ls)).
Proof. exact (routes_agree inline_styles doc_rules). Qed.
Check c10_routes_agree : forall c doc w,
  string_from_read inline_styles doc_rules c doc w =
  (do ls <- lines_from_read inline_styles doc_rules c doc w; Ok (join_lines ls)).
Print Assumptions c10_routes_agree.
