(* Props/C11.v -- width errors (model level). *)
From H2T Require Import Base Tagged Wrap Sub Css Dom Render Api CssParse Proofs.ApiProofs.

(* width 0 never renders, whatever the document and configuration *)
Theorem c11_width_zero : forall c doc,
  match string_from_read inline_styles doc_rules c doc 0 with Ok _ => False | _ => True end.
Proof. exact (width_zero_never_ok inline_styles doc_rules). Qed.
Print Assumptions c11_width_zero.

Theorem c11_width_zero_too_narrow : forall c doc tree,
  to_render_tree inline_styles doc_rules c doc = Ok tree ->
  string_from_read inline_styles doc_rules c doc 0 = TooNarrow /\
  lines_from_read inline_styles doc_rules c doc 0 = TooNarrow.
Proof. exact (width_zero_too_narrow inline_styles doc_rules). Qed.
Print Assumptions c11_width_zero_too_narrow.

From H2T Require Import Proofs.WrapInv Proofs.OptionRel.
(* WrappedBlock layer: allowing overflow never changes a run that already succeeds ... *)
Theorem c11_overflow_noop : forall W pad cs ls, run W pad false cs = Ok ls -> run W pad true cs = Ok ls.
Proof. exact OptionRel.c11_overflow_noop. Qed.
Print Assumptions c11_overflow_noop.
(* ... and with it every run at width >= 1 succeeds *)
Theorem c11_overflow_always_ok : forall W pad cs, 1 <= W -> exists ls, run W pad true cs = Ok ls.
Proof. exact OptionRel.c11_overflow_never_too_narrow. Qed.
Print Assumptions c11_overflow_always_ok.
Theorem c11_overflow_only_rescues : forall W pad cs, 1 <= W ->
  run W pad true cs = run W pad false cs \/
  (run W pad false cs = TooNarrow /\ exists ls, run W pad true cs = Ok ls).
Proof. exact OptionRel.c11_overflow_only_rescues. Qed.
Print Assumptions c11_overflow_only_rescues.
