(* Props/C11.v -- width errors (model level). *)
From H2T Require Import Base Tagged Wrap Sub Css Dom Render Api CssParse Proofs.ApiProofs.

(* width 0 never renders, whatever the document and configuration *)
Theorem c11_width_zero : forall c doc,
  match string_from_read inline_styles doc_rules c doc 0 with Ok _ => False | _ => True end.
Proof. exact (width_zero_never_ok inline_styles doc_rules). Qed.
Print Assumptions c11_width_zero.

Theorem c11_width_zero_too_narrow : forall c doc tree,
  to_render_tree inline_styles doc_rules c doc = Ok tree ->
  string_from_read inline_styles doc_rules c doc 0 = TooNarrow /\
  lines_from_read inline_styles doc_rules c doc 0 = TooNarrow.
Proof. exact (width_zero_too_narrow inline_styles doc_rules). Qed.
Print Assumptions c11_width_zero_too_narrow.
