(* Props/C11.v -- width errors (model level). *)
From H2T Require Import Base Tagged Wrap Sub Css Dom Render Api CssParse Proofs.ApiProofs.

(* width 0 never renders, whatever the document and configuration *)
Theorem c11_width_zero : forall c doc,
  match string_from_read inline_styles doc_rules c doc 0 with Ok _ => False | _ => True end.
Proof. exact (width_zero_never_ok inline_styles doc_rules). Qed.
Print Assumptions c11_width_zero.

Theorem c11_width_zero_too_narrow : forall c doc tree,
  to_render_tree inline_styles doc_rules c doc = Ok tree ->
  string_from_read inline_styles doc_rules c doc 0 = TooNarrow /\
  lines_from_read inline_styles doc_rules c doc 0 = TooNarrow.
Proof. exact (width_zero_too_narrow inline_styles doc_rules). Qed.
Print Assumptions c11_width_zero_too_narrow.

From H2T Require Import Proofs.WrapInv Proofs.OptionRel.
(* WrappedBlock layer: allowing overflow never changes a run that already succeeds ... *)
Theorem c11_overflow_noop : forall W pad cs ls, run W pad false cs = Ok ls -> run W pad true cs = Ok ls.
Proof. exact OptionRel.c11_overflow_noop. Qed.
Print Assumptions c11_overflow_noop.
(* ... and with it every run at width >= 1 succeeds *)
Theorem c11_overflow_always_ok : forall W pad cs, 1 <= W -> exists ls, run W pad true cs = Ok ls.
Proof. exact OptionRel.c11_overflow_never_too_narrow. Qed.
Print Assumptions c11_overflow_always_ok.
Theorem c11_overflow_only_rescues : forall W pad cs, 1 <= W ->
  run W pad true cs = run W pad false cs \/
  (run W pad false cs = TooNarrow /\ exists ls, run W pad true cs = Ok ls).
Proof. exact OptionRel.c11_overflow_only_rescues. Qed.
Print Assumptions c11_overflow_only_rescues.

(* ---------- whole renderer (Proofs/SimRel.v): allowing overflow never changes a rendering that succeeds, and with it rendering
   is never too narrow ---------- *)
From H2T Require Import Sub Css Dom Render Api Proofs.WrapInv Proofs.RenderWidth Proofs.OptionRel Proofs.Compose Proofs.RenderTotal Proofs.SimRel.
Theorem c11_overflow_noop_render :
  forall (d : deco) (mw : N) (o1 : ropts) (width : N) (tree : rnode) (s1 : subr),
       render_tree d mw o1 width tree = Ok s1 ->
       render_tree d mw (with_overflow o1) width tree = Ok (ovs s1) /\
       (forall ls : list rline, sub_into_lines s1 = Ok ls -> sub_into_lines (ovs s1) = Ok ls).
Proof. exact SimRel.c11_overflow_noop_render. Qed.
Print Assumptions c11_overflow_noop_render.

Theorem c11_lines_from_read :
  forall (inl : list (text * text) -> res (list styledecl)) (dr : list node -> res (list ruleset))
         (c : config) (doc : list node) (w : N) (r : list tline),
       lines_from_read inl dr c doc w = Ok r -> lines_from_read inl dr (set_overflow c) doc w = Ok r.
Proof. exact SimRel.c11_lines_from_read. Qed.
Print Assumptions c11_lines_from_read.

Theorem c11_string_from_read :
  forall (inl : list (text * text) -> res (list styledecl)) (dr : list node -> res (list ruleset))
         (c : config) (doc : list node) (w : N) (r : text),
       string_from_read inl dr c doc w = Ok r -> string_from_read inl dr (set_overflow c) doc w = Ok r.
Proof. exact SimRel.c11_string_from_read. Qed.
Print Assumptions c11_string_from_read.

Theorem c11_overflow_never_too_narrow_render :
  forall (d : deco) (mw : N) (o : ropts) (width : N) (tree : rnode),
       o_allow_overflow o = true ->
       rn (fun s : subr => sub_into_lines s <> TooNarrow /\ sub_into_string s <> TooNarrow)
         (render_tree d mw o width tree).
Proof. exact SimRel.c11_overflow_never_too_narrow_render. Qed.
Print Assumptions c11_overflow_never_too_narrow_render.

Theorem c11_routes_never_too_narrow :
  forall (inl : list (text * text) -> res (list styledecl)) (dr : list node -> res (list ruleset))
         (c : config) (doc : list node) (w : N) (tree : rnode),
       c_overflow c = true ->
       w <> 0 ->
       to_render_tree inl dr c doc = Ok tree ->
       lines_from_read inl dr c doc w <> TooNarrow /\ string_from_read inl dr c doc w <> TooNarrow.
Proof. exact SimRel.c11_routes_never_too_narrow. Qed.
Print Assumptions c11_routes_never_too_narrow.

Theorem c11_overflow_always_ok_render :
  forall (d : deco) (mw : N) (o : ropts) (width : N) (tree : rnode),
       o_allow_overflow o = true ->
       width < usize_max ->
       tree_wf d mw tree = true ->
       exists (s : subr) (ls : list rline) (str : text),
         render_tree d mw o width tree = Ok s /\ sub_into_lines s = Ok ls /\ sub_into_string s = Ok str.
Proof. exact SimRel.c11_overflow_always_ok. Qed.
Print Assumptions c11_overflow_always_ok_render.

Theorem c11_routes_always_ok :
  forall (inl : list (text * text) -> res (list styledecl)) (dr : list node -> res (list ruleset))
         (c : config) (doc : list node) (w : N) (tree : rnode),
       c_overflow c = true ->
       1 <= w ->
       w < usize_max ->
       to_render_tree inl dr c doc = Ok tree ->
       tree_wf (c_deco c) (c_min_wrap c) tree = true ->
       (exists r : list tline, lines_from_read inl dr c doc w = Ok r) /\
       (exists r : text, string_from_read inl dr c doc w = Ok r).
Proof. exact SimRel.c11_routes_always_ok. Qed.
Print Assumptions c11_routes_always_ok.

