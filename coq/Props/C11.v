(* Props/C11.v -- width errors (model level). *)
From H2T Require Import Base Tagged Wrap Sub Css Dom Render Api CssParse Proofs.ApiProofs.

(* width 0 never renders, whatever the document and configuration *)
Theorem c11_width_zero : forall c doc,
  match string_from_read inline_styles doc_rules c doc 0 with Ok _ => False | _ => True end.
Proof. exact (width_zero_never_ok inline_styles doc_rules). Qed.
Print Assumptions c11_width_zero.

Theorem c11_width_zero_too_narrow : forall c doc tree,
  to_render_tree inline_styles doc_rules c doc = Ok tree ->
  string_from_read inline_styles doc_rules c doc 0 = TooNarrow /\
  lines_from_read inline_styles doc_rules c doc 0 = TooNarrow.
Proof. exact (width_zero_too_narrow inline_styles doc_rules). Qed.
Print Assumptions c11_width_zero_too_narrow.

From H2T Require Import Proofs.WrapInv Proofs.OptionRel.
(* WrappedBlock layer: allowing overflow never changes a run that already succeeds ... *)
Theorem c11_overflow_noop : forall W pad cs ls, run W pad false cs = Ok ls -> run W pad true cs = Ok ls.
Proof. exact OptionRel.c11_overflow_noop. Qed.
Print Assumptions c11_overflow_noop.
(* ... and with it every run at width >= 1 succeeds *)
Theorem c11_overflow_always_ok : forall W pad cs, 1 <= W -> exists ls, run W pad true cs = Ok ls.
Proof. exact OptionRel.c11_overflow_never_too_narrow. Qed.
Print Assumptions c11_overflow_always_ok.
Theorem c11_overflow_only_rescues : forall W pad cs, 1 <= W ->
  run W pad true cs = run W pad false cs \/
  (run W pad false cs = TooNarrow /\ exists ls, run W pad true cs = Ok ls).
Proof. exact OptionRel.c11_overflow_only_rescues. Qed.
Print Assumptions c11_overflow_only_rescues.

(* ---------- whole renderer (Proofs/SimRel.v): allowing overflow never changes a rendering that succeeds, and with it rendering
   is never too narrow ---------- *)
From H2T Require Import Sub Css Dom Render Api Proofs.WrapInv Proofs.RenderWidth Proofs.OptionRel Proofs.Compose Proofs.RenderTotal Proofs.SimRel.
Theorem c11_overflow_noop_render :
  forall (d : deco) (mw : N) (o1 : ropts) (width : N) (tree : rnode) (s1 : subr),
       render_tree d mw o1 width tree = Ok s1 ->
       render_tree d mw (with_overflow o1) width tree = Ok (ovs s1) /\
       (forall ls : list rline, sub_into_lines s1 = Ok ls -> sub_into_lines (ovs s1) = Ok ls).
Proof. exact SimRel.c11_overflow_noop_render. Qed.
Print Assumptions c11_overflow_noop_render.

Theorem c11_lines_from_read :
  forall (inl : list (text * text) -> res (list styledecl)) (dr : list node -> res (list ruleset))
         (c : config) (doc : list node) (w : N) (r : list tline),
       lines_from_read inl dr c doc w = Ok r -> lines_from_read inl dr (set_overflow c) doc w = Ok r.
Proof. exact SimRel.c11_lines_from_read. Qed.
Print Assumptions c11_lines_from_read.

Theorem c11_string_from_read :
  forall (inl : list (text * text) -> res (list styledecl)) (dr : list node -> res (list ruleset))
         (c : config) (doc : list node) (w : N) (r : text),
       string_from_read inl dr c doc w = Ok r -> string_from_read inl dr (set_overflow c) doc w = Ok r.
Proof. exact SimRel.c11_string_from_read. Qed.
Print Assumptions c11_string_from_read.

Theorem c11_overflow_never_too_narrow_render :
  forall (d : deco) (mw : N) (o : ropts) (width : N) (tree : rnode),
       o_allow_overflow o = true ->
       rn (fun s : subr => sub_into_lines s <> TooNarrow /\ sub_into_string s <> TooNarrow)
         (render_tree d mw o width tree).
Proof. exact SimRel.c11_overflow_never_too_narrow_render. Qed.
Print Assumptions c11_overflow_never_too_narrow_render.

Theorem c11_routes_never_too_narrow :
  forall (inl : list (text * text) -> res (list styledecl)) (dr : list node -> res (list ruleset))
         (c : config) (doc : list node) (w : N) (tree : rnode),
       c_overflow c = true ->
       w <> 0 ->
       to_render_tree inl dr c doc = Ok tree ->
       lines_from_read inl dr c doc w <> TooNarrow /\ string_from_read inl dr c doc w <> TooNarrow.
Proof. exact SimRel.c11_routes_never_too_narrow. Qed.
Print Assumptions c11_routes_never_too_narrow.

Theorem c11_overflow_always_ok_render :
  forall (d : deco) (mw : N) (o : ropts) (width : N) (tree : rnode),
       o_allow_overflow o = true ->
       width < usize_max ->
       tree_wf d mw tree = true ->
       exists (s : subr) (ls : list rline) (str : text),
         render_tree d mw o width tree = Ok s /\ sub_into_lines s = Ok ls /\ sub_into_string s = Ok str.
Proof. exact SimRel.c11_overflow_always_ok. Qed.
Print Assumptions c11_overflow_always_ok_render.

Theorem c11_routes_always_ok :
  forall (inl : list (text * text) -> res (list styledecl)) (dr : list node -> res (list ruleset))
         (c : config) (doc : list node) (w : N) (tree : rnode),
       c_overflow c = true ->
       1 <= w ->
       w < usize_max ->
       to_render_tree inl dr c doc = Ok tree ->
       tree_wf (c_deco c) (c_min_wrap c) tree = true ->
       (exists r : list tline, lines_from_read inl dr c doc w = Ok r) /\
       (exists r : text, string_from_read inl dr c doc w = Ok r).
Proof. exact SimRel.c11_routes_always_ok. Qed.
Print Assumptions c11_routes_always_ok.


(* ---------- the overflow bound of the fourth clause for the whole renderer (Proofs/OverflowBound.v): pchain = largest total prefix width of a chain of nested blocks, cwb = widest character ---------- *)
From H2T Require Import Base Tagged Wrap Sub Css Dom Render Api CssParse Proofs.CssTotal Proofs.WrapInv Proofs.RenderWidth Proofs.Conserve Proofs.Footnotes Proofs.AnnBalance Proofs.RenderConserve Proofs.OptionRel Proofs.Compose Proofs.RenderTotal Proofs.FragStream Proofs.SimRel Proofs.Prune Proofs.OverflowBound.
Theorem c11_overflow_width_bound :
  forall (d : deco) (mw : N) (o : ropts) (L width : N) (tree : rnode) (s : subr),
       ol_prefix_monotone d ->
       ol_prefix_sat d ->
       (o_footnotes o = true -> o_wrap_links o = true) ->
       no_table tree = true ->
       RenderWidth.tree_ok (o_footnotes o) L tree = true ->
       render_tree d mw o width tree = Ok s ->
       forall ls : list rline,
       sub_into_lines s = Ok ls ->
       forall r : rline, In r ls -> rline_width r <= N.max width (overflow_bound d mw o L tree).
Proof. exact OverflowBound.c11_overflow_width_bound. Qed.
Print Assumptions c11_overflow_width_bound.

Theorem c11_overflow_width_bound_chain :
  forall (d : deco) (mw : N) (o : ropts) (L width : N) (tree : rnode) (s : subr),
       ol_prefix_monotone d ->
       ol_prefix_sat d ->
       (o_footnotes o = true -> o_wrap_links o = true) ->
       no_table tree = true ->
       RenderWidth.tree_ok (o_footnotes o) L tree = true ->
       render_tree d mw o width tree = Ok s ->
       forall ls : list rline,
       sub_into_lines s = Ok ls ->
       forall r : rline,
       In r ls ->
       rline_width r <=
       N.max width (pchain d tree + N.max (N.max mw 5) (N.max (cwb d tree) (if o_footnotes o then L else 0))).
Proof. exact OverflowBound.c11_overflow_width_bound_chain. Qed.
Print Assumptions c11_overflow_width_bound_chain.

Theorem c11_overflow_width_bound_spec :
  forall (d : deco) (mw : N) (o : ropts) (width : N) (tree : rnode) (s : subr),
       ol_prefix_monotone d ->
       ol_prefix_sat d ->
       (o_footnotes o = true -> o_wrap_links o = true) ->
       no_table tree = true ->
       RenderWidth.tree_ok (o_footnotes o) 2 tree = true ->
       cwb d tree <= 2 ->
       render_tree d mw o width tree = Ok s ->
       forall ls : list rline,
       sub_into_lines s = Ok ls ->
       forall r : rline, In r ls -> rline_width r <= N.max width (pchain d tree + N.max mw 5).
Proof. exact OverflowBound.c11_overflow_width_bound_spec. Qed.
Print Assumptions c11_overflow_width_bound_spec.

Theorem c11_lines_from_read_overflow_bound :
  forall (inline_styles : list (text * text) -> res (list styledecl))
         (doc_rules : list node -> res (list ruleset)) (c : config) (doc : list node) 
         (w L : N) (tree : rnode) (ls : list tline),
       ol_prefix_monotone (c_deco c) ->
       ol_prefix_sat (c_deco c) ->
       c_overflow c = true ->
       (c_footnotes c = true -> c_wrap_links c = true) ->
       to_render_tree inline_styles doc_rules c doc = Ok tree ->
       no_table tree = true ->
       RenderWidth.tree_ok (c_footnotes c) L tree = true ->
       lines_from_read inline_styles doc_rules c doc w = Ok ls ->
       forall l : tline,
       In l ls ->
       tl_width_raw l <= N.max w (overflow_bound (c_deco c) (c_min_wrap c) (render_options c) L tree).
Proof. exact OverflowBound.c11_lines_from_read_overflow_bound. Qed.
Print Assumptions c11_lines_from_read_overflow_bound.

Theorem c11_lines_from_read_overflow_spec :
  forall (inline_styles : list (text * text) -> res (list styledecl))
         (doc_rules : list node -> res (list ruleset)) (c : config) (doc : list node) 
         (w : N) (tree : rnode) (ls : list tline),
       ol_prefix_monotone (c_deco c) ->
       ol_prefix_sat (c_deco c) ->
       c_overflow c = true ->
       (c_footnotes c = true -> c_wrap_links c = true) ->
       to_render_tree inline_styles doc_rules c doc = Ok tree ->
       no_table tree = true ->
       RenderWidth.tree_ok (c_footnotes c) 2 tree = true ->
       cwb (c_deco c) tree <= 2 ->
       lines_from_read inline_styles doc_rules c doc w = Ok ls ->
       forall l : tline,
       In l ls -> tl_width_raw l <= N.max w (pchain (c_deco c) tree + N.max (c_min_wrap c) 5).
Proof. exact OverflowBound.c11_lines_from_read_overflow_spec. Qed.
Print Assumptions c11_lines_from_read_overflow_spec.

