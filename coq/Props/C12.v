(* Props/C12.v -- preformatted text keeps its lines and spacing (WrappedBlock layer, Pre mode).
   Reference: Spec/Pre.v (split_lines, expand = tabs to 8-column stops, rstrip, fits).
   Proofs: Proofs/PreProof.v.  The cut case (a line that does not fit) and the continuation
   tags are covered by correspondence + checker (known deviation A-9 in DESIGN.md). *)
From H2T Require Import Base Tagged Wrap Spec.Greedy Spec.Pre Proofs.PreProof.

(* When every expanded source line fits, the block is reproduced line for line: every newline
   ends exactly one line (blank lines kept), each output line equals the tab-expanded source
   line up to trailing spaces. *)
Theorem c12_verbatim : forall W src t1 t2,
  1 <= W -> ctl_ws src -> words_pos src -> fits W src ->
  exists ls, pre_lines W src t1 t2 = Ok ls /\
    map rstrip ls = map (fun l => rstrip (expand l 0)) (kept_lines src).
Proof. exact PreProof.c12_verbatim. Qed.
Check c12_verbatim : forall W src t1 t2,
  1 <= W -> ctl_ws src -> words_pos src -> fits W src ->
  exists ls, pre_lines W src t1 t2 = Ok ls /\
    map rstrip ls = map (fun l => rstrip (expand l 0)) (kept_lines src).
Print Assumptions c12_verbatim.

(* each output line is a prefix of the expansion; what is missing is only spaces *)
Theorem c12_verbatim_prefix : forall W src t1 t2,
  1 <= W -> ctl_ws src -> words_pos src -> fits W src ->
  exists ls, pre_lines W src t1 t2 = Ok ls /\
    Forall2 (fun out l => exists k, expand l 0 = out ++ repeat_chr (spacel L_space) k)
            ls (kept_lines src).
Proof. exact PreProof.c12_verbatim_prefix. Qed.
Print Assumptions c12_verbatim_prefix.

(* a block that fits is tagged with the main (first-piece) tag throughout *)
Theorem c12_fits_main_tag : forall W src t1 t2 b,
  1 <= W -> ctl_ws src -> fits W src ->
  wb_add_text (wb_new W false false) src WsPre t1 t2 = Ok b ->
  forall l ls, wb_into_lines b = Ok ls -> In l ls ->
  forall s t, In (Str s t) (tv l) -> t = t1.
Proof. exact PreProof.c12_fits_main_tag. Qed.
Print Assumptions c12_fits_main_tag.

(* ---------- the cut case (Proofs/PreCut.v) ----------
   Whatever the source, a preformatted block at width W >= 1 either is too narrow (a character
   wider than W) or yields pieces no wider than W whose non-space characters are exactly the
   source's, in order.  The continuation tags of the pieces are judged by the checker (recorded
   finding pre_moved_word_first_tag). *)
From H2T Require Import Proofs.Conserve Proofs.PreCut.
Theorem c12_cut_pieces : forall W src t1 t2,
  1 <= W ->
  match pre_lines W src t1 t2 with
  | Ok ls =>
      (forall l, In l ls -> swidth l <= W) /\
      filter (fun c => negb (ws c)) (concat ls) = kept src
  | TooNarrow => True
  | Panic _ => False
  | OutOfFuel => False
  end.
Proof. exact PreCut.c12_cut_pieces. Qed.
Print Assumptions c12_cut_pieces.

(* ---------- tags of the pieces of preformatted lines (Proofs/PreTags.v): refinement to a tag-blind reference machine; first pieces main-tagged; continuation pieces main-tagged only on the head run of a moved word (the recorded class) ---------- *)
From H2T Require Import Base Tagged Wrap Sub Css Dom Render Api CssParse Proofs.CssTotal Proofs.WrapInv Proofs.RenderWidth Proofs.Conserve Proofs.Footnotes Proofs.AnnBalance Proofs.RenderConserve Proofs.OptionRel Proofs.Compose Proofs.RenderTotal Proofs.FragStream Proofs.SimRel Proofs.Prune Proofs.PreTags.
Theorem pre_tags_refine :
  forall (W : N) (ovf : bool) (calls : list pcall) (ls : list tline),
       1 <= W ->
       cut_regular W (all_chars calls) ->
       run_pre W ovf calls = Ok ls ->
       map line_tags ls =
       map (fun x : bool * list tc => resolve calls (snd x)) (expected_tags W (map pcall_text calls)).
Proof. exact PreTags.pre_tags_refine. Qed.
Print Assumptions pre_tags_refine.

Theorem pre_tags_lines :
  forall (W : N) (ovf : bool) (calls : list pcall) (ls : list tline),
       1 <= W ->
       cut_regular W (all_chars calls) ->
       run_pre W ovf calls = Ok ls ->
       Forall2 (fun (l : tline) (e : bool * list tc) => line_tags l = resolve calls (snd e)) ls
         (marked W calls).
Proof. exact PreTags.pre_tags_lines. Qed.
Print Assumptions pre_tags_lines.

Theorem pre_cont_pieces :
  forall (W : N) (calls : list pcall),
       1 <= W ->
       PreProof.words_pos (all_chars calls) ->
       forall l : list tc, In (false, l) (marked W calls) -> cont_shape l = true.
Proof. exact PreTags.pre_cont_pieces. Qed.
Print Assumptions pre_cont_pieces.

Theorem cont_shape_spec :
  forall l : list tc,
       cont_shape l = true ->
       exists sp pre rest : list tc,
         l = sp ++ pre ++ rest /\
         Forall is_wsc sp /\
         Forall (fun x : tc => is_nonws x /\ is_main x) pre /\
         Forall (fun x : tc => is_wsc x \/ is_wrap x) rest.
Proof. exact PreTags.cont_shape_spec. Qed.
Print Assumptions cont_shape_spec.

Theorem pre_first_pieces :
  forall (W : N) (calls : list pcall),
       1 <= W ->
       PreProof.words_pos (all_chars calls) ->
       first_ok W (all_chars calls) -> forall l : list tc, In (true, l) (marked W calls) -> Forall is_main l.
Proof. exact PreTags.pre_first_pieces. Qed.
Print Assumptions pre_first_pieces.

Theorem pre_one_word_lines :
  forall (W : N) (calls : list pcall),
       1 <= W ->
       PreProof.words_pos (all_chars calls) ->
       one_word_lines W (all_chars calls) ->
       forall (f : bool) (l : list tc),
       In (f, l) (marked W calls) ->
       if f then Forall (fun x : tc => is_nonws x -> is_main x) l else Forall is_wrap l.
Proof. exact PreTags.pre_one_word_lines. Qed.
Print Assumptions pre_one_word_lines.


(* exactly when a block is too narrow (Proofs/PreNarrowIff.v): iff some non-white-space character is
   wider than the width - for every split of the text into tagged calls, in every white-space
   mode; otherwise the block is cut into pieces no wider than the width, nothing lost *)
From H2T Require Import Base Tagged Wrap Sub Css Dom Render Api CssParse Proofs.CssTotal Proofs.WrapInv Proofs.RenderWidth Proofs.Conserve Proofs.Footnotes Proofs.AnnBalance Proofs.RenderConserve Proofs.OptionRel Proofs.Compose Proofs.RenderTotal Proofs.FragStream Proofs.SimRel Proofs.Prune Proofs.PreCut Proofs.PreNarrowIff.

Theorem run_fits_never_narrow :
  forall (W : N) (pad : bool) (cs : list call),
       1 <= W ->
       Forall (call_fits W) cs ->
       exists ls : list tline,
         run W pad false cs = Ok ls /\
         (forall l : tline, In l ls -> tlen_ l = tl_width_raw l /\ tl_width_raw l <= W).
Proof. exact PreNarrowIff.run_fits_never_narrow. Qed.
Print Assumptions run_fits_never_narrow.

Theorem pre_fits_never_narrow :
  forall (W : N) (src : list chr) (t1 t2 : tag),
       1 <= W ->
       Forall (chr_fits W) src ->
       exists ls : list text,
         PreProof.pre_lines W src t1 t2 = Ok ls /\
         (forall l : text, In l ls -> swidth l <= W) /\
         filter (fun c : chr => negb (ws c)) (concat ls) = kept src.
Proof. exact PreNarrowIff.pre_fits_never_narrow. Qed.
Print Assumptions pre_fits_never_narrow.

Theorem run_wide_too_narrow :
  forall (W : N) (pad : bool) (cs : list call),
       1 <= W -> Exists (call_wide W) cs -> run W pad false cs = TooNarrow.
Proof. exact PreNarrowIff.run_wide_too_narrow. Qed.
Print Assumptions run_wide_too_narrow.

Theorem run_too_narrow_iff :
  forall (W : N) (pad : bool) (cs : list call),
       1 <= W -> run W pad false cs = TooNarrow <-> Exists (call_wide W) cs.
Proof. exact PreNarrowIff.run_too_narrow_iff. Qed.
Print Assumptions run_too_narrow_iff.

Theorem pre_too_narrow_iff :
  forall (W : N) (src : text) (t1 t2 : tag),
       1 <= W -> PreProof.pre_lines W src t1 t2 = TooNarrow <-> Exists (wide W) src.
Proof. exact PreNarrowIff.pre_too_narrow_iff. Qed.
Print Assumptions pre_too_narrow_iff.

