(* Props/C12.v -- preformatted text keeps its lines and spacing (WrappedBlock layer, Pre mode).
   Reference: Spec/Pre.v (split_lines, expand = tabs to 8-column stops, rstrip, fits).
   Proofs: Proofs/PreProof.v.  The cut case (a line that does not fit) and the continuation
   tags are covered by correspondence + checker (known deviation A-9 in DESIGN.md). *)
From H2T Require Import Base Tagged Wrap Spec.Greedy Spec.Pre Proofs.PreProof.

(* When every expanded source line fits, the block is reproduced line for line: every newline
   ends exactly one line (blank lines kept), each output line equals the tab-expanded source
   line up to trailing spaces. *)
Theorem c12_verbatim : forall W src t1 t2,
  1 <= W -> ctl_ws src -> words_pos src -> fits W src ->
  exists ls, pre_lines W src t1 t2 = Ok ls /\
    map rstrip ls = map (fun l => rstrip (expand l 0)) (kept_lines src).
Proof. exact PreProof.c12_verbatim. Qed.
Check c12_verbatim : forall W src t1 t2,
  1 <= W -> ctl_ws src -> words_pos src -> fits W src ->
  exists ls, pre_lines W src t1 t2 = Ok ls /\
    map rstrip ls = map (fun l => rstrip (expand l 0)) (kept_lines src).
Print Assumptions c12_verbatim.

(* each output line is a prefix of the expansion; what is missing is only spaces *)
Theorem c12_verbatim_prefix : forall W src t1 t2,
  1 <= W -> ctl_ws src -> words_pos src -> fits W src ->
  exists ls, pre_lines W src t1 t2 = Ok ls /\
    Forall2 (fun out l => exists k, expand l 0 = out ++ repeat_chr (spacel L_space) k)
            ls (kept_lines src).
Proof. exact PreProof.c12_verbatim_prefix. Qed.
Print Assumptions c12_verbatim_prefix.

(* a block that fits is tagged with the main (first-piece) tag throughout *)
Theorem c12_fits_main_tag : forall W src t1 t2 b,
  1 <= W -> ctl_ws src -> fits W src ->
  wb_add_text (wb_new W false false) src WsPre t1 t2 = Ok b ->
  forall l ls, wb_into_lines b = Ok ls -> In l ls ->
  forall s t, In (Str s t) (tv l) -> t = t1.
Proof. exact PreProof.c12_fits_main_tag. Qed.
Print Assumptions c12_fits_main_tag.

(* ---------- the cut case (Proofs/PreCut.v) ----------
   Whatever the source, a preformatted block at width W >= 1 either is too narrow (a character
   wider than W) or yields pieces no wider than W whose non-space characters are exactly the
   source's, in order.  The continuation tags of the pieces are judged by the checker (recorded
   finding pre_moved_word_first_tag). *)
From H2T Require Import Proofs.Conserve Proofs.PreCut.
Theorem c12_cut_pieces : forall W src t1 t2,
  1 <= W ->
  match pre_lines W src t1 t2 with
  | Ok ls =>
      (forall l, In l ls -> swidth l <= W) /\
      filter (fun c => negb (ws c)) (concat ls) = kept src
  | TooNarrow => True
  | Panic _ => False
  | OutOfFuel => False
  end.
Proof. exact PreCut.c12_cut_pieces. Qed.
Print Assumptions c12_cut_pieces.
