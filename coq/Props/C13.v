From H2T Require Import Base Tagged Wrap Spec.Greedy Proofs.GreedyProof Proofs.Small.
(* Props/C13.v -- independence from source whitespace layout (model level, normal mode). *)
(* which whitespace character is used does not matter *)
Theorem c13_ws_kind_irrelevant : forall t1 t2 st c c',
  ws c = true -> ws c' = true ->
  add_char WsNormal t1 t2 st c = add_char WsNormal t1 t2 st c'.
Proof. exact add_char_normal_ws_indep. Qed.
Print Assumptions c13_ws_kind_irrelevant.
(* a run of whitespace acts as one whitespace character *)
Theorem c13_ws_runs_collapse : forall t1 t2 b u c c' st1,
  ws c = true -> ws c' = true ->
  add_char WsNormal t1 t2 (b, u) c = Ok st1 ->
  add_char WsNormal t1 t2 st1 c' = Ok st1.
Proof. exact add_char_normal_ws_idem. Qed.
Print Assumptions c13_ws_runs_collapse.
(* splitting the text over nodes / wrapping it in neutral inline elements does not matter *)
Theorem c13_split_irrelevant : forall W calls1 calls2, 1 <= W ->
  concat (map fst calls1) = concat (map fst calls2) ->
  all_words_pos (concat (map fst calls1)) ->
  impl_lines W calls1 = impl_lines W calls2.
Proof. exact GreedyProof.c04_split_independent. Qed.
Print Assumptions c13_split_irrelevant.
