From H2T Require Import Base Tagged Wrap Spec.Greedy Proofs.GreedyProof Proofs.Small.
(* Props/C13.v -- independence from source whitespace layout (model level, normal mode). *)
(* which whitespace character is used does not matter *)
Theorem c13_ws_kind_irrelevant : forall t1 t2 st c c',
  ws c = true -> ws c' = true ->
  add_char WsNormal t1 t2 st c = add_char WsNormal t1 t2 st c'.
Proof. exact add_char_normal_ws_indep. Qed.
Print Assumptions c13_ws_kind_irrelevant.
(* a run of whitespace acts as one whitespace character *)
Theorem c13_ws_runs_collapse : forall t1 t2 b u c c' st1,
  ws c = true -> ws c' = true ->
  add_char WsNormal t1 t2 (b, u) c = Ok st1 ->
  add_char WsNormal t1 t2 st1 c' = Ok st1.
Proof. exact add_char_normal_ws_idem. Qed.
Print Assumptions c13_ws_runs_collapse.
(* splitting the text over nodes / wrapping it in neutral inline elements does not matter *)
Theorem c13_split_irrelevant : forall W calls1 calls2, 1 <= W ->
  concat (map fst calls1) = concat (map fst calls2) ->
  all_words_pos (concat (map fst calls1)) ->
  impl_lines W calls1 = impl_lines W calls2.
Proof. exact GreedyProof.c04_split_independent. Qed.
Print Assumptions c13_split_irrelevant.

(* ---------- render-tree level (Proofs/SimRel.v): text leaves that differ only in which whitespace characters they use and in the
   length of whitespace runs render identically, tables included (tree_ok: no white-space:pre style anywhere; no character that is
   both whitespace and an ASCII digit - true of every Unicode character) ---------- *)
From H2T Require Import Sub Css Dom Render Api Proofs.WrapInv Proofs.RenderWidth Proofs.OptionRel Proofs.Compose Proofs.SimRel.
Theorem c13_norm_render :
  forall (d : deco) (mw : N) (o : ropts) (width : N) (tree : rnode),
       tree_ok tree = true -> render_tree d mw o width (norm_tree tree) = render_tree d mw o width tree.
Proof. exact SimRel.c13_norm_render. Qed.
Print Assumptions c13_norm_render.

Theorem c13_ws_equiv_render :
  forall (d : deco) (mw : N) (o : ropts) (width : N) (tree1 tree2 : rnode),
       ws_equiv tree1 tree2 ->
       tree_ok tree1 = true ->
       tree_ok tree2 = true -> render_tree d mw o width tree1 = render_tree d mw o width tree2.
Proof. exact SimRel.c13_ws_equiv_render. Qed.
Print Assumptions c13_ws_equiv_render.

Theorem c13_ws_equiv_lines :
  forall (d : deco) (mw : N) (o : ropts) (width : N) (tree1 tree2 : rnode),
       ws_equiv tree1 tree2 ->
       tree_ok tree1 = true ->
       tree_ok tree2 = true ->
       (do s <- render_tree d mw o width tree1; sub_into_lines s) =
       (do s <- render_tree d mw o width tree2; sub_into_lines s) /\
       (do s <- render_tree d mw o width tree1; sub_into_string s) =
       (do s <- render_tree d mw o width tree2; sub_into_string s).
Proof. exact SimRel.c13_ws_equiv_lines. Qed.
Print Assumptions c13_ws_equiv_lines.

Theorem c13_render_with_context :
  forall (c : config) (tree1 tree2 : rnode) (w : N),
       ws_equiv tree1 tree2 ->
       tree_ok tree1 = true ->
       tree_ok tree2 = true -> render_with_context c tree1 w = render_with_context c tree2 w.
Proof. exact SimRel.c13_render_with_context. Qed.
Print Assumptions c13_render_with_context.


(* ---------- DOM level (Proofs/DomRel.v): documents that differ only in the whitespace of their text nodes render identically ---------- *)
From H2T Require Import Sub Css Dom Render Api CssParse Proofs.WrapInv Proofs.RenderWidth Proofs.Conserve Proofs.Footnotes Proofs.RenderConserve Proofs.OptionRel Proofs.Compose Proofs.FragStream Proofs.SimRel Proofs.Prune Proofs.DomRel.
Theorem c13_dom_trees :
  forall (inline_styles : list (text * text) -> res (list styledecl))
         (doc_rules : list node -> res (list ruleset)) (c : config) (doc1 doc2 : list node),
       dom_ws_equiv doc1 doc2 ->
       effective_sd doc_rules c doc1 = effective_sd doc_rules c doc2 ->
       rmap NT (to_render_tree inline_styles doc_rules c doc1) =
       rmap NT (to_render_tree inline_styles doc_rules c doc2).
Proof. exact DomRel.c13_dom_trees. Qed.
Print Assumptions c13_dom_trees.

Theorem c13_dom_ws_equiv :
  forall (inline_styles : list (text * text) -> res (list styledecl))
         (doc_rules : list node -> res (list ruleset)) (c : config) (doc1 doc2 : list node) 
         (t1 t2 : rnode),
       dom_ws_equiv doc1 doc2 ->
       effective_sd doc_rules c doc1 = effective_sd doc_rules c doc2 ->
       to_render_tree inline_styles doc_rules c doc1 = Ok t1 ->
       to_render_tree inline_styles doc_rules c doc2 = Ok t2 -> ws_equiv t1 t2.
Proof. exact DomRel.c13_dom_ws_equiv. Qed.
Print Assumptions c13_dom_ws_equiv.

Theorem c13_dom_string :
  forall (inline_styles : list (text * text) -> res (list styledecl))
         (doc_rules : list node -> res (list ruleset)) (c : config) (doc1 doc2 : list node) 
         (w : N),
       dom_ws_equiv doc1 doc2 ->
       effective_sd doc_rules c doc1 = effective_sd doc_rules c doc2 ->
       doc_tree_ok inline_styles doc_rules c doc1 = true ->
       doc_tree_ok inline_styles doc_rules c doc2 = true ->
       string_from_read inline_styles doc_rules c doc1 w = string_from_read inline_styles doc_rules c doc2 w /\
       lines_from_read inline_styles doc_rules c doc1 w = lines_from_read inline_styles doc_rules c doc2 w.
Proof. exact DomRel.c13_dom_string. Qed.
Print Assumptions c13_dom_string.

Theorem c13_dom_nodoccss :
  forall (inline_styles : list (text * text) -> res (list styledecl))
         (doc_rules : list node -> res (list ruleset)) (c : config) (doc1 doc2 : list node) 
         (w : N),
       c_use_doc_css c = false ->
       dom_ws_equiv doc1 doc2 ->
       doc_tree_ok inline_styles doc_rules c doc1 = true ->
       doc_tree_ok inline_styles doc_rules c doc2 = true ->
       string_from_read inline_styles doc_rules c doc1 w = string_from_read inline_styles doc_rules c doc2 w /\
       lines_from_read inline_styles doc_rules c doc1 w = lines_from_read inline_styles doc_rules c doc2 w.
Proof. exact DomRel.c13_dom_nodoccss. Qed.
Print Assumptions c13_dom_nodoccss.


(* ---------- rewrites that change the SHAPE of the document - a text node cut into pieces (comment insertion), inline runs wrapped in bare spans (Proofs/DomSplit.v): the renderer reads a tree only through its signature (neutral containers dissolved, neutral texts merged, estimates recorded); same signature = identical result; same shape + table-free + no overflow + both Ok = same lines ---------- *)
From H2T Require Import Base Tagged Wrap Sub Css Dom Render Api CssParse Proofs.CssTotal Proofs.WrapInv Proofs.RenderWidth Proofs.Conserve Proofs.Footnotes Proofs.AnnBalance Proofs.RenderConserve Proofs.OptionRel Proofs.Compose Proofs.RenderTotal Proofs.FragStream Proofs.SimRel Proofs.Prune Proofs.DomRel Proofs.DomSplit.
Theorem render_tree_factor :
  forall (d : deco) (mw : N) (o : ropts) (width : N) (t : rnode),
       tree_ok t = true ->
       eok d mw t = true -> render_tree d mw o width t = srun_tree d o width (sgn (Ek d mw) t).
Proof. exact DomSplit.render_tree_factor. Qed.
Print Assumptions render_tree_factor.

Theorem split_safe_render :
  forall (d : deco) (mw : N) (o : ropts) (width : N) (t1 t2 : rnode) (e1 e2 : est),
       tree_ok t1 = true ->
       tree_ok t2 = true ->
       est_node d mw t1 = Ok e1 ->
       est_node d mw t2 = Ok e2 ->
       split_safe d mw t1 t2 -> render_tree d mw o width t1 = render_tree d mw o width t2.
Proof. exact DomSplit.split_safe_render. Qed.
Print Assumptions split_safe_render.

Theorem split_equiv_both_ok :
  forall (d : deco) (mw : N) (o : ropts) (width : N) (t1 t2 : rnode) (s1 s2 : subr),
       tree_ok t1 = true ->
       tree_ok t2 = true ->
       table_free t1 = true ->
       o_allow_overflow o = false ->
       split_equiv t1 t2 ->
       render_tree d mw o width t1 = Ok s1 -> render_tree d mw o width t2 = Ok s2 -> s1 = s2.
Proof. exact DomSplit.split_equiv_both_ok. Qed.
Print Assumptions split_equiv_both_ok.

Theorem sq_split_equiv :
  forall t1 t2 : rnode, sq t1 t2 -> split_equiv t1 t2.
Proof. exact DomSplit.sq_split_equiv. Qed.
Print Assumptions sq_split_equiv.

Theorem c13_split_both_ok :
  forall (d : deco) (mw : N) (o : ropts) (width : N) (t1 t2 : rnode) (s1 s2 : subr),
       sq t1 t2 ->
       tree_ok t1 = true ->
       tree_ok t2 = true ->
       table_free t1 = true ->
       o_allow_overflow o = false ->
       render_tree d mw o width t1 = Ok s1 ->
       render_tree d mw o width t2 = Ok s2 ->
       s1 = s2 /\ sub_into_lines s1 = sub_into_lines s2 /\ sub_into_string s1 = sub_into_string s2.
Proof. exact DomSplit.c13_split_both_ok. Qed.
Print Assumptions c13_split_both_ok.

Theorem dom_split_trees :
  forall (inline_styles : list (text * text) -> res (list styledecl))
         (doc_rules : list node -> res (list ruleset)) (c : config) (doc1 doc2 : list node),
       dom_split_equiv doc1 doc2 ->
       DomRel.dom_ntab doc1 = true ->
       DomRel.dom_ntab doc2 = true ->
       effective_sd doc_rules c doc1 = effective_sd doc_rules c doc2 ->
       res_rel tn (to_render_tree inline_styles doc_rules c doc1)
         (to_render_tree inline_styles doc_rules c doc2).
Proof. exact DomSplit.dom_split_trees. Qed.
Print Assumptions dom_split_trees.

Theorem dom_span_trees :
  forall (inline_styles : list (text * text) -> res (list styledecl))
         (doc_rules : list node -> res (list ruleset)) (c : config) (doc1 doc2 : list node),
       dom_span_equiv doc1 doc2 ->
       DomRel.dom_ntab doc1 = true ->
       DomRel.dom_ntab doc2 = true ->
       effective_sd doc_rules c doc1 = effective_sd doc_rules c doc2 ->
       sd_span_ok doc_rules c doc1 = true ->
       (c_use_doc_css c = true -> inline_styles [] = Ok []) ->
       res_rel tn (to_render_tree inline_styles doc_rules c doc1)
         (to_render_tree inline_styles doc_rules c doc2).
Proof. exact DomSplit.dom_span_trees. Qed.
Print Assumptions dom_span_trees.

Theorem c13_dom_split_routes :
  forall (inline_styles : list (text * text) -> res (list styledecl))
         (doc_rules : list node -> res (list ruleset)) (c : config) (doc1 doc2 : list node) 
         (w : N),
       dom_split_equiv doc1 doc2 ->
       DomRel.dom_ntab doc1 = true ->
       DomRel.dom_ntab doc2 = true ->
       effective_sd doc_rules c doc1 = effective_sd doc_rules c doc2 ->
       DomRel.doc_tree_ok inline_styles doc_rules c doc1 = true ->
       DomRel.doc_tree_ok inline_styles doc_rules c doc2 = true ->
       doc_table_free inline_styles doc_rules c doc1 = true ->
       c_overflow c = false ->
       (forall r1 r2 : list tline,
        lines_from_read inline_styles doc_rules c doc1 w = Ok r1 ->
        lines_from_read inline_styles doc_rules c doc2 w = Ok r2 -> r1 = r2) /\
       (forall r1 r2 : text,
        string_from_read inline_styles doc_rules c doc1 w = Ok r1 ->
        string_from_read inline_styles doc_rules c doc2 w = Ok r2 -> r1 = r2).
Proof. exact DomSplit.c13_dom_split_routes. Qed.
Print Assumptions c13_dom_split_routes.

Theorem c13_dom_span_routes :
  forall (inline_styles : list (text * text) -> res (list styledecl))
         (doc_rules : list node -> res (list ruleset)) (c : config) (doc1 doc2 : list node) 
         (w : N),
       dom_span_equiv doc1 doc2 ->
       DomRel.dom_ntab doc1 = true ->
       DomRel.dom_ntab doc2 = true ->
       effective_sd doc_rules c doc1 = effective_sd doc_rules c doc2 ->
       sd_span_ok doc_rules c doc1 = true ->
       (c_use_doc_css c = true -> inline_styles [] = Ok []) ->
       DomRel.doc_tree_ok inline_styles doc_rules c doc1 = true ->
       DomRel.doc_tree_ok inline_styles doc_rules c doc2 = true ->
       doc_table_free inline_styles doc_rules c doc1 = true ->
       c_overflow c = false ->
       (forall r1 r2 : list tline,
        lines_from_read inline_styles doc_rules c doc1 w = Ok r1 ->
        lines_from_read inline_styles doc_rules c doc2 w = Ok r2 -> r1 = r2) /\
       (forall r1 r2 : text,
        string_from_read inline_styles doc_rules c doc1 w = Ok r1 ->
        string_from_read inline_styles doc_rules c doc2 w = Ok r2 -> r1 = r2).
Proof. exact DomSplit.c13_dom_span_routes. Qed.
Print Assumptions c13_dom_span_routes.


(* DOM level (Proofs/DomBlocks.v): text nodes and comments among the children of ol / dl (given
   the list does not become empty: the recorded finding empty_list_with_whitespace), tr and table
   do not change the render tree at all; a comment anywhere changes nothing *)
From H2T Require Import Base Tagged Wrap Sub Css Dom Render Api CssParse Proofs.CssTotal Proofs.WrapInv Proofs.RenderWidth Proofs.Conserve Proofs.Footnotes Proofs.AnnBalance Proofs.RenderConserve Proofs.OptionRel Proofs.Compose Proofs.RenderTotal Proofs.FragStream Proofs.SimRel Proofs.Prune Proofs.DomBlocks.

Theorem ol_insert_nonelem :
  forall (sd : styledata) (udc : bool) (inl : list (text * text) -> res (list styledecl)) 
         (name : text) (attrs : list (text * text)) (l1 : list node) (x : node) (l2 : list node)
         (p : list anc) (idx : Z),
       cps name = Nm.ol ->
       is_elem x = false ->
       process_kids sd udc inl (l1 ++ l2) ({| a_name := name; a_attrs := attrs; a_idx := idx |} :: p) 1 <>
       Ok [] ->
       process sd udc inl (NElem true name attrs (l1 ++ x :: l2)) p idx =
       process sd udc inl (NElem true name attrs (l1 ++ l2)) p idx.
Proof. exact DomBlocks.ol_insert_nonelem. Qed.
Print Assumptions ol_insert_nonelem.

Theorem dl_insert_nonelem :
  forall (sd : styledata) (udc : bool) (inl : list (text * text) -> res (list styledecl)) 
         (name : text) (attrs : list (text * text)) (l1 : list node) (x : node) (l2 : list node)
         (p : list anc) (idx : Z),
       cps name = Nm.dl ->
       is_elem x = false ->
       process_kids sd udc inl (l1 ++ l2) ({| a_name := name; a_attrs := attrs; a_idx := idx |} :: p) 1 <>
       Ok [] ->
       process sd udc inl (NElem true name attrs (l1 ++ x :: l2)) p idx =
       process sd udc inl (NElem true name attrs (l1 ++ l2)) p idx.
Proof. exact DomBlocks.dl_insert_nonelem. Qed.
Print Assumptions dl_insert_nonelem.

Theorem pk_text_nonempty :
  forall (sd : styledata) (udc : bool) (inl : list (text * text) -> res (list styledecl))
         (kids : list node) (p : list anc) (i : Z) (t : text),
       In (NText t) kids -> process_kids sd udc inl kids p i <> Ok [].
Proof. exact DomBlocks.pk_text_nonempty. Qed.
Print Assumptions pk_text_nonempty.

Theorem any_insert_comment :
  forall (sd : styledata) (udc : bool) (inl : list (text * text) -> res (list styledecl)) 
         (name : text) (attrs : list (text * text)) (l1 : list node) (x : node) (l2 : list node)
         (p : list anc) (idx : Z),
       x = NComment \/ x = NOther ->
       process sd udc inl (NElem true name attrs (l1 ++ x :: l2)) p idx =
       process sd udc inl (NElem true name attrs (l1 ++ l2)) p idx.
Proof. exact DomBlocks.any_insert_comment. Qed.
Print Assumptions any_insert_comment.

Theorem tr_insert_nonelem :
  forall (sd : styledata) (udc : bool) (inl : list (text * text) -> res (list styledecl)) 
         (name : text) (attrs : list (text * text)) (l1 : list node) (x : node) (l2 : list node)
         (p : list anc) (idx : Z),
       cps name = Nm.tr ->
       is_elem x = false ->
       process sd udc inl (NElem true name attrs (l1 ++ x :: l2)) p idx =
       process sd udc inl (NElem true name attrs (l1 ++ l2)) p idx.
Proof. exact DomBlocks.tr_insert_nonelem. Qed.
Print Assumptions tr_insert_nonelem.

Theorem table_insert_nonelem :
  forall (sd : styledata) (udc : bool) (inl : list (text * text) -> res (list styledecl)) 
         (name : text) (attrs : list (text * text)) (l1 : list node) (x : node) (l2 : list node)
         (p : list anc) (idx : Z),
       cps name = Nm.table ->
       is_elem x = false ->
       process sd udc inl (NElem true name attrs (l1 ++ x :: l2)) p idx =
       process sd udc inl (NElem true name attrs (l1 ++ l2)) p idx.
Proof. exact DomBlocks.table_insert_nonelem. Qed.
Print Assumptions table_insert_nonelem.


(* thead / tbody (Proofs/DomRows.v): text nodes and comments among their children change nothing,
   given the section keeps a child (the recorded finding otherwise) *)
From H2T Require Import Base Tagged Wrap Sub Css Dom Render Api CssParse Proofs.CssTotal Proofs.WrapInv Proofs.RenderWidth Proofs.Conserve Proofs.Footnotes Proofs.AnnBalance Proofs.RenderConserve Proofs.OptionRel Proofs.Compose Proofs.RenderTotal Proofs.FragStream Proofs.SimRel Proofs.Prune Proofs.DomBlocks Proofs.DomRows.

Theorem tbody_insert_nonelem :
  forall (sd : styledata) (udc : bool) (inl : list (text * text) -> res (list styledecl)) 
         (name : text) (attrs : list (text * text)) (l1 : list node) (x : node) (l2 : list node)
         (p : list anc) (idx : Z),
       cps name = DomBlocks.Nm.thead \/ cps name = DomBlocks.Nm.tbody ->
       is_elem x = false ->
       process_kids sd udc inl (l1 ++ l2) ({| a_name := name; a_attrs := attrs; a_idx := idx |} :: p) 1 <>
       Ok [] ->
       process sd udc inl (NElem true name attrs (l1 ++ x :: l2)) p idx =
       process sd udc inl (NElem true name attrs (l1 ++ l2)) p idx.
Proof. exact DomRows.tbody_insert_nonelem. Qed.
Print Assumptions tbody_insert_nonelem.

