From H2T Require Import Base Tagged Wrap Sub Css Dom Render Api Proofs.Small.
(* Props/C14.v -- fragment markers never carry width and never change the text. *)
Theorem c14_marker_inert : forall l n,
  tl_width_raw (tl_push l (Frag n)) = tl_width_raw l /\
  tl_string (tl_push l (Frag n)) = tl_string l /\
  tlen_ (tl_push l (Frag n)) = tlen_ l.
Proof. exact frag_no_width. Qed.
Print Assumptions c14_marker_inert.

From H2T Require Import Proofs.Conserve.
(* markers are never lost, duplicated or reordered by adding text - in particular not when
   their word is hard-wrapped or moved to a new line - and keep their position in the
   stream of document characters *)
Theorem c14_stream_add_text : forall b s m t1 t2 b',
  wb_add_text b s m t1 t2 = Ok b' -> stream b' = stream b ++ map inr (kept s).
Proof. exact Conserve.c14_stream_add_text. Qed.
Print Assumptions c14_stream_add_text.
Theorem c14_stream_add_frag : forall b n, stream (wb_add_element b (Frag n)) = stream b ++ [inl n].
Proof. exact Conserve.c14_stream_add_frag. Qed.
Print Assumptions c14_stream_add_frag.
Theorem c14_flush_keeps_frags : forall b b', wb_flush b = Ok b' -> frags b' = frags b.
Proof. exact Conserve.c14_flush_keeps_frags. Qed.
Print Assumptions c14_flush_keeps_frags.
