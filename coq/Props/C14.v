From H2T Require Import Base Tagged Wrap Sub Css Dom Render Api Proofs.Small.
(* Props/C14.v -- fragment markers never carry width and never change the text. *)
Theorem c14_marker_inert : forall l n,
  tl_width_raw (tl_push l (Frag n)) = tl_width_raw l /\
  tl_string (tl_push l (Frag n)) = tl_string l /\
  tlen_ (tl_push l (Frag n)) = tlen_ l.
Proof. exact frag_no_width. Qed.
Print Assumptions c14_marker_inert.

From H2T Require Import Proofs.Conserve.
(* markers are never lost, duplicated or reordered by adding text - in particular not when
   their word is hard-wrapped or moved to a new line - and keep their position in the
   stream of document characters *)
Theorem c14_stream_add_text : forall b s m t1 t2 b',
  wb_add_text b s m t1 t2 = Ok b' -> stream b' = stream b ++ map inr (kept s).
Proof. exact Conserve.c14_stream_add_text. Qed.
Print Assumptions c14_stream_add_text.
Theorem c14_stream_add_frag : forall b n, stream (wb_add_element b (Frag n)) = stream b ++ [inl n].
Proof. exact Conserve.c14_stream_add_frag. Qed.
Print Assumptions c14_stream_add_frag.
Theorem c14_flush_keeps_frags : forall b b', wb_flush b = Ok b' -> frags b' = frags b.
Proof. exact Conserve.c14_flush_keeps_frags. Qed.
Print Assumptions c14_flush_keeps_frags.

(* ---------- tree level (Proofs/FragStream.v): the combined stream of document characters and markers ----------
   mstream_tree = every marker and character of the tree in document order; mstream_min = the same minus the markers that trail
   the content of a nested block (those may be dropped: their elements have no visible content behind them);
   msub a b = a is b with only markers deleted.  The first four statements carry the hypothesis "overflow off" from the time when a
   marker behind a character wider than the block was lost with overflow on; both shapes of that defect are repaired (Examples
   marker_kept_after_overflowing_char, marker_kept_after_overflowing_char_and_space) and the *_any_overflow theorems below hold
   without the hypothesis. *)
From H2T Require Import Sub Dom Render Api Proofs.Conserve Proofs.WrapInv Proofs.RenderWidth Proofs.Footnotes Proofs.RenderConserve Proofs.FragStream.
Theorem c14_render_node_no_table :
  forall (d : deco) (mw : N) (n : rnode) (st st' : rstate) (s : subr) (rest : list subr),
       prefix_made d ->
       no_table n = true ->
       stack st = s :: rest ->
       J s ->
       render_node d mw n st = Ok st' ->
       exists (s' : subr) (t : list sitem),
         stack st' = s' :: rest /\
         J s' /\ mstream_out s' = mstream_out s ++ t /\ msub (mstream_min d n) t /\ msub t (mstream_tree d n).
Proof. exact FragStream.c14_render_node_no_table. Qed.
Print Assumptions c14_render_node_no_table.

Theorem c14_render_tree_no_table :
  forall (d : deco) (mw : N) (o : ropts) (width : N) (tree : rnode) (s : subr),
       prefix_made d ->
       o_allow_overflow o = false ->
       no_table tree = true ->
       render_tree d mw o width tree = Ok s ->
       btw (mstream_min d tree) (mstream_out s) (mstream_tree d tree) /\
       (forall ls : list rline,
        sub_into_lines s = Ok ls -> btw (strip (mstream_min d tree)) (mlines ls) (mstream_tree d tree)).
Proof. exact FragStream.c14_render_tree_no_table. Qed.
Print Assumptions c14_render_tree_no_table.

Theorem c14_lines_from_read :
  forall (ist : list (text * text) -> res (list styledecl)) (dr : list node -> res (list ruleset))
         (c : config) (doc : list node) (width : N) (tree : rnode) (tls : list tline),
       prefix_made (c_deco c) ->
       c_overflow c = false ->
       to_render_tree ist dr c doc = Ok tree ->
       no_table tree = true ->
       lines_from_read ist dr c doc width = Ok tls ->
       btw (strip (mstream_min (c_deco c) tree)) (flat_map mline tls) (mstream_tree (c_deco c) tree).
Proof. exact FragStream.c14_lines_from_read. Qed.
Print Assumptions c14_lines_from_read.

Theorem c14_markers :
  forall (ist : list (text * text) -> res (list styledecl)) (dr : list node -> res (list ruleset))
         (c : config) (doc : list node) (width : N) (tree : rnode) (tls : list tline),
       prefix_made (c_deco c) ->
       c_overflow c = false ->
       to_render_tree ist dr c doc = Ok tree ->
       no_table tree = true ->
       lines_from_read ist dr c doc width = Ok tls ->
       let O := flat_map mline tls in
       let T := mstream_tree (c_deco c) tree in
       let M := strip (mstream_min (c_deco c) tree) in
       projr O = projr T /\
       (forall (a : list (text + chr)) (name : text) (b : list (text + chr)),
        O = a ++ inl name :: b ->
        exists a' b' : list (text + chr),
          T = a' ++ inl name :: b' /\ projr a' = projr a /\ projr b' = projr b) /\
       (forall (a : list (text + chr)) (name : text) (b : list (text + chr)),
        M = a ++ inl name :: b ->
        exists a' b' : list (text + chr),
          O = a' ++ inl name :: b' /\ projr a' = projr a /\ projr b' = projr b) /\
       (NoDup (projl T) -> NoDup (projl O)).
Proof. exact FragStream.c14_markers. Qed.
Print Assumptions c14_markers.

Theorem mstream_tree_chars :
  forall (d : deco) (n : rnode), no_table n = true -> projr (mstream_tree d n) = doc_stream d n.
Proof. exact FragStream.mstream_tree_chars. Qed.
Print Assumptions mstream_tree_chars.


(* ---------- DOM level (Proofs/DomRel.v): every element with a fragment name and visible content has its marker in the output stream,
   directly in front of its own characters (table-free documents, overflow off) ---------- *)
From H2T Require Import Sub Css Dom Render Api CssParse Proofs.WrapInv Proofs.RenderWidth Proofs.Conserve Proofs.Footnotes Proofs.RenderConserve Proofs.OptionRel Proofs.Compose Proofs.FragStream Proofs.SimRel Proofs.Prune Proofs.DomRel.
Theorem c14_dom_tree :
  forall (inline_styles : list (text * text) -> res (list styledecl))
         (doc_rules : list node -> res (list ruleset)) (c : config) (doc : list node) 
         (tree : rnode),
       deco_made (c_deco c) ->
       dom_regular doc = true ->
       dom_ntab doc = true ->
       doc_plain inline_styles doc_rules c doc = true ->
       to_render_tree inline_styles doc_rules c doc = Ok tree ->
       no_table tree = true /\
       msub (dom_live doc) (FragStream.strip (mstream_min (c_deco c) tree)) /\
       msub (mstream_tree (c_deco c) tree) (dom_all doc).
Proof. exact DomRel.c14_dom_tree. Qed.
Print Assumptions c14_dom_tree.

Theorem c14_dom_lines :
  forall (inline_styles : list (text * text) -> res (list styledecl))
         (doc_rules : list node -> res (list ruleset)) (c : config) (doc : list node) 
         (width : N) (tls : list tline),
       deco_made (c_deco c) ->
       c_overflow c = false ->
       dom_regular doc = true ->
       dom_ntab doc = true ->
       doc_plain inline_styles doc_rules c doc = true ->
       lines_from_read inline_styles doc_rules c doc width = Ok tls ->
       btw (dom_live doc) (flat_map mline tls) (dom_all doc).
Proof. exact DomRel.c14_dom_lines. Qed.
Print Assumptions c14_dom_lines.

Theorem c14_dom_markers :
  forall (inline_styles : list (text * text) -> res (list styledecl))
         (doc_rules : list node -> res (list ruleset)) (c : config) (doc : list node) 
         (width : N) (tls : list tline),
       deco_made (c_deco c) ->
       c_overflow c = false ->
       dom_regular doc = true ->
       dom_ntab doc = true ->
       doc_plain inline_styles doc_rules c doc = true ->
       lines_from_read inline_styles doc_rules c doc width = Ok tls ->
       let O := flat_map mline tls in
       projr O = dom_visible doc /\
       (forall (a : list (text + chr)) (name : text) (b : list (text + chr)),
        O = a ++ inl name :: b ->
        exists a' b' : list (text + chr),
          dom_all doc = a' ++ inl name :: b' /\ projr a' = projr a /\ projr b' = projr b) /\
       (forall (a : list (text + chr)) (name : text) (b : list (text + chr)),
        dom_live doc = a ++ inl name :: b ->
        exists a' b' : list (text + chr),
          O = a' ++ inl name :: b' /\ projr a' = projr a /\ projr b' = projr b) /\
       (NoDup (projl (dom_all doc)) -> NoDup (projl O)).
Proof. exact DomRel.c14_dom_markers. Qed.
Print Assumptions c14_dom_markers.

Theorem dml_marker :
  forall (html : bool) (name : text) (attrs : list (text * text)) (kids : list node) (f : text),
       frag_name html name attrs = Some f ->
       dom_vis (NElem html name attrs kids) <> [] ->
       exists body : list (text + chr),
         dml (NElem html name attrs kids) = inl f :: body /\
         projr body = dom_vis (NElem html name attrs kids).
Proof. exact DomRel.dml_marker. Qed.
Print Assumptions dml_marker.


(* ---------- the same without the overflow hypothesis (after fixes 1b6641a and 93cbb49) ---------- *)
From H2T Require Import Sub Css Dom Render Api CssParse Proofs.WrapInv Proofs.RenderWidth Proofs.Conserve Proofs.Footnotes Proofs.RenderConserve Proofs.OptionRel Proofs.Compose Proofs.FragStream Proofs.SimRel Proofs.Prune Proofs.DomRel.
Theorem c14_render_tree_no_table_any_overflow :
  forall (d : deco) (mw : N) (o : ropts) (width : N) (tree : rnode) (s : subr),
       prefix_made d ->
       no_table tree = true ->
       render_tree d mw o width tree = Ok s ->
       btw (mstream_min d tree) (mstream_out s) (mstream_tree d tree) /\
       (forall ls : list rline,
        sub_into_lines s = Ok ls -> btw (FragStream.strip (mstream_min d tree)) (mlines ls) (mstream_tree d tree)).
Proof. exact FragStream.c14_render_tree_no_table_any_overflow. Qed.
Print Assumptions c14_render_tree_no_table_any_overflow.

Theorem c14_lines_from_read_any_overflow :
  forall (ist : list (text * text) -> res (list styledecl)) (dr : list node -> res (list ruleset))
         (c : config) (doc : list node) (width : N) (tree : rnode) (tls : list tline),
       prefix_made (c_deco c) ->
       to_render_tree ist dr c doc = Ok tree ->
       no_table tree = true ->
       lines_from_read ist dr c doc width = Ok tls ->
       btw (FragStream.strip (mstream_min (c_deco c) tree)) (flat_map mline tls) (mstream_tree (c_deco c) tree).
Proof. exact FragStream.c14_lines_from_read_any_overflow. Qed.
Print Assumptions c14_lines_from_read_any_overflow.

Theorem c14_markers_any_overflow :
  forall (ist : list (text * text) -> res (list styledecl)) (dr : list node -> res (list ruleset))
         (c : config) (doc : list node) (width : N) (tree : rnode) (tls : list tline),
       prefix_made (c_deco c) ->
       to_render_tree ist dr c doc = Ok tree ->
       no_table tree = true ->
       lines_from_read ist dr c doc width = Ok tls ->
       let O := flat_map mline tls in
       let T := mstream_tree (c_deco c) tree in
       let M := FragStream.strip (mstream_min (c_deco c) tree) in
       projr O = projr T /\
       (forall (a : list (text + chr)) (name : text) (b : list (text + chr)),
        O = a ++ inl name :: b ->
        exists a' b' : list (text + chr),
          T = a' ++ inl name :: b' /\ projr a' = projr a /\ projr b' = projr b) /\
       (forall (a : list (text + chr)) (name : text) (b : list (text + chr)),
        M = a ++ inl name :: b ->
        exists a' b' : list (text + chr),
          O = a' ++ inl name :: b' /\ projr a' = projr a /\ projr b' = projr b) /\
       (NoDup (projl T) -> NoDup (projl O)).
Proof. exact FragStream.c14_markers_any_overflow. Qed.
Print Assumptions c14_markers_any_overflow.

Theorem c14_dom_lines_any_overflow :
  forall (inline_styles : list (text * text) -> res (list styledecl))
         (doc_rules : list node -> res (list ruleset)) (c : config) (doc : list node) 
         (width : N) (tls : list tline),
       deco_made (c_deco c) ->
       dom_regular doc = true ->
       dom_ntab doc = true ->
       doc_plain inline_styles doc_rules c doc = true ->
       lines_from_read inline_styles doc_rules c doc width = Ok tls ->
       btw (dom_live doc) (flat_map mline tls) (dom_all doc).
Proof. exact DomRel.c14_dom_lines_any_overflow. Qed.
Print Assumptions c14_dom_lines_any_overflow.

Theorem c14_dom_markers_any_overflow :
  forall (inline_styles : list (text * text) -> res (list styledecl))
         (doc_rules : list node -> res (list ruleset)) (c : config) (doc : list node) 
         (width : N) (tls : list tline),
       deco_made (c_deco c) ->
       dom_regular doc = true ->
       dom_ntab doc = true ->
       doc_plain inline_styles doc_rules c doc = true ->
       lines_from_read inline_styles doc_rules c doc width = Ok tls ->
       let O := flat_map mline tls in
       projr O = dom_visible doc /\
       (forall (a : list (text + chr)) (name : text) (b : list (text + chr)),
        O = a ++ inl name :: b ->
        exists a' b' : list (text + chr),
          dom_all doc = a' ++ inl name :: b' /\ projr a' = projr a /\ projr b' = projr b) /\
       (forall (a : list (text + chr)) (name : text) (b : list (text + chr)),
        dom_live doc = a ++ inl name :: b ->
        exists a' b' : list (text + chr),
          O = a' ++ inl name :: b' /\ projr a' = projr a /\ projr b' = projr b) /\
       (NoDup (projl (dom_all doc)) -> NoDup (projl O)).
Proof. exact DomRel.c14_dom_markers_any_overflow. Qed.
Print Assumptions c14_dom_markers_any_overflow.


(* ---------- trees WITH tables (Proofs/FragTables.v): raw mode in document order; any layout as a multiset (minus skipped cells); order inside each cell; markers never influence estimates, column widths or emptiness ---------- *)
From H2T Require Import Base Tagged Wrap Sub Css Dom Render Api CssParse Proofs.CssTotal Proofs.WrapInv Proofs.RenderWidth Proofs.Conserve Proofs.Footnotes Proofs.AnnBalance Proofs.RenderConserve Proofs.OptionRel Proofs.Compose Proofs.RenderTotal Proofs.FragStream Proofs.SimRel Proofs.Prune Proofs.RenderConserve Proofs.FragTables.
Theorem c14_render_node_raw :
  forall (d : deco) (mw : N) (n : rnode) (st st' : rstate) (s : subr) (rest : list subr),
       prefix_made d ->
       o_raw (sopts s) = true ->
       stack st = s :: rest ->
       Iv s ->
       render_node d mw n st = Ok st' ->
       exists (s' : subr) (t : list sitem),
         stack st' = s' :: rest /\
         swidth_ s' = swidth_ s /\
         sopts s' = sopts s /\
         Iv s' /\
         mstream_out s' = mstream_out s ++ t /\
         msub (mts_min d mw (sopts s) n (swidth_ s)) t /\ msub t (mts_all d mw (sopts s) n (swidth_ s)).
Proof. exact FragTables.c14_render_node_raw. Qed.
Print Assumptions c14_render_node_raw.

Theorem c14_render_tree_raw :
  forall (d : deco) (mw : N) (o : ropts) (width : N) (tree : rnode) (s : subr),
       prefix_made d ->
       o_raw o = true ->
       render_tree d mw o width tree = Ok s ->
       btw (mts_min d mw o tree width) (mstream_out s) (mts_all d mw o tree width) /\
       (forall ls : list rline,
        sub_into_lines s = Ok ls ->
        btw (FragStream.strip (mts_min d mw o tree width)) (mlines ls) (mts_all d mw o tree width)).
Proof. exact FragTables.c14_render_tree_raw. Qed.
Print Assumptions c14_render_tree_raw.

Theorem c14_lines_from_read_raw :
  forall (ist : list (text * text) -> res (list styledecl)) (dr : list node -> res (list ruleset))
         (c : config) (doc : list node) (width : N) (tree : rnode) (tls : list tline),
       prefix_made (c_deco c) ->
       c_raw c = true ->
       to_render_tree ist dr c doc = Ok tree ->
       lines_from_read ist dr c doc width = Ok tls ->
       btw (FragStream.strip (mts_min (c_deco c) (c_min_wrap c) (render_options c) tree width))
         (flat_map mline tls) (mts_all (c_deco c) (c_min_wrap c) (render_options c) tree width).
Proof. exact FragTables.c14_lines_from_read_raw. Qed.
Print Assumptions c14_lines_from_read_raw.

Theorem c14_markers_raw :
  forall (ist : list (text * text) -> res (list styledecl)) (dr : list node -> res (list ruleset))
         (c : config) (doc : list node) (width : N) (tree : rnode) (tls : list tline),
       prefix_made (c_deco c) ->
       c_raw c = true ->
       to_render_tree ist dr c doc = Ok tree ->
       lines_from_read ist dr c doc width = Ok tls ->
       let O := flat_map mline tls in
       let T := mts_all (c_deco c) (c_min_wrap c) (render_options c) tree width in
       let M := FragStream.strip (mts_min (c_deco c) (c_min_wrap c) (render_options c) tree width) in
       projr O = projr T /\
       (forall (a : list (text + chr)) (name : text) (b : list (text + chr)),
        O = a ++ inl name :: b ->
        exists a' b' : list (text + chr),
          T = a' ++ inl name :: b' /\ projr a' = projr a /\ projr b' = projr b) /\
       (forall (a : list (text + chr)) (name : text) (b : list (text + chr)),
        M = a ++ inl name :: b ->
        exists a' b' : list (text + chr),
          O = a' ++ inl name :: b' /\ projr a' = projr a /\ projr b' = projr b) /\
       (NoDup (projl T) -> NoDup (projl O)).
Proof. exact FragTables.c14_markers_raw. Qed.
Print Assumptions c14_markers_raw.

Theorem c14_render_tree_tables :
  forall (d : deco) (mw : N) (o : ropts) (width : N) (tree : rnode) (s : subr),
       prefix_made d ->
       Forall posw (tree_stream d mw o tree width) ->
       render_tree d mw o width tree = Ok s ->
       (exists t : list sitem,
          Permutation.Permutation (mstream_out s) t /\
          btw (mts_min d mw o tree width) t (mts_all d mw o tree width)) /\
       (forall ls : list rline,
        sub_into_lines s = Ok ls ->
        exists t : list sitem,
          Permutation.Permutation (mlines ls) t /\
          btw (FragStream.strip (mts_min d mw o tree width)) t (mts_all d mw o tree width)).
Proof. exact FragTables.c14_render_tree_tables. Qed.
Print Assumptions c14_render_tree_tables.

Theorem c14_lines_from_read_tables :
  forall (ist : list (text * text) -> res (list styledecl)) (dr : list node -> res (list ruleset))
         (c : config) (doc : list node) (width : N) (tree : rnode) (tls : list tline),
       prefix_made (c_deco c) ->
       to_render_tree ist dr c doc = Ok tree ->
       Forall posw (tree_stream (c_deco c) (c_min_wrap c) (render_options c) tree width) ->
       lines_from_read ist dr c doc width = Ok tls ->
       exists t : list sitem,
         Permutation.Permutation (flat_map mline tls) t /\
         btw (FragStream.strip (mts_min (c_deco c) (c_min_wrap c) (render_options c) tree width)) t
           (mts_all (c_deco c) (c_min_wrap c) (render_options c) tree width).
Proof. exact FragTables.c14_lines_from_read_tables. Qed.
Print Assumptions c14_lines_from_read_tables.

Theorem c14_markers_tables :
  forall (ist : list (text * text) -> res (list styledecl)) (dr : list node -> res (list ruleset))
         (c : config) (doc : list node) (width : N) (tree : rnode) (tls : list tline),
       prefix_made (c_deco c) ->
       to_render_tree ist dr c doc = Ok tree ->
       Forall posw (tree_stream (c_deco c) (c_min_wrap c) (render_options c) tree width) ->
       lines_from_read ist dr c doc width = Ok tls ->
       let O := flat_map mline tls in
       let T := mts_all (c_deco c) (c_min_wrap c) (render_options c) tree width in
       let M := FragStream.strip (mts_min (c_deco c) (c_min_wrap c) (render_options c) tree width) in
       Permutation.Permutation (projr O) (projr T) /\
       (exists dropped : list text, Permutation.Permutation (projl T) (projl O ++ dropped)) /\
       (exists extra : list text, Permutation.Permutation (projl O) (projl M ++ extra)) /\
       (NoDup (projl T) -> NoDup (projl O)).
Proof. exact FragTables.c14_markers_tables. Qed.
Print Assumptions c14_markers_tables.

Theorem c14_cells_in_order :
  forall (d : deco) (mw w : N) (o : ropts) (cells : list rcell) (wsl : list (option N)) 
         (s2 : rstate) (r : rstate * list subr),
       prefix_made d ->
       forallb (fun c : rcell => forallb no_table (cell_content c)) cells = true ->
       geo s2 = Some (w, o) ->
       cells_loop d mw cells wsl s2 [] = Ok r ->
       Forall2
         (fun (sub : subr) (cw : list rnode * N) =>
          pfc sub /\
          (forall ls : list rline,
           sub_into_lines sub = Ok ls ->
           btw (FragStream.strip (flat_map (mstream_min d) (fst cw))) (mlines ls)
             (flat_map (mstream_tree d) (fst cw)))) (snd r) (rendered cells wsl).
Proof. exact FragTables.c14_cells_in_order. Qed.
Print Assumptions c14_cells_in_order.

Theorem row_line_items :
  forall (t : tag) (draw : bool) (i : nat) (sets : list (N * list rline)) (pads : list (option text))
         (acc : tline),
       pline allc (row_line t draw i sets pads acc) = pline allc acc ++ row_items draw i sets pads.
Proof. exact FragTables.row_line_items. Qed.
Print Assumptions row_line_items.

Theorem c14_columns_per_cell :
  forall (cols : list subr) (collapse : bool) (s s' : subr),
       Forall pfc cols ->
       pfc s ->
       append_columns_with_borders s cols collapse = Ok s' ->
       exists (sets : list (N * list rline)) (hgt : nat),
         mstream_out s' = mstream_out s ++ rows_ms hgt 0 sets /\
         Forall2
           (fun (c : subr) (p : N * list rline) =>
            exists ls : list rline, sub_into_lines c = Ok ls /\ col_ms hgt 0 (snd p) = mlines ls) cols sets.
Proof. exact FragTables.c14_columns_per_cell. Qed.
Print Assumptions c14_columns_per_cell.

Theorem est_erase :
  forall (d : deco) (mw : N) (n : rnode), ol_clean n = true -> est_node d mw (erase n) = est_node d mw n.
Proof. exact FragTables.est_erase. Qed.
Print Assumptions est_erase.

Theorem cell_widths_erase :
  forall (vr : bool) (col_widths : list N) (cells : list rcell) (colno : N),
       cell_widths vr col_widths (map ecell cells) colno = cell_widths vr col_widths cells colno.
Proof. exact FragTables.cell_widths_erase. Qed.
Print Assumptions cell_widths_erase.

Theorem sub_empty_frag :
  forall (s : subr) (name : text), sub_empty (record_frag_start s name) = sub_empty s.
Proof. exact FragTables.sub_empty_frag. Qed.
Print Assumptions sub_empty_frag.

Theorem insert_child_table_first_cell :
  forall (frag : rnode) (n : N) (k : list rnode) (s : cstyle) (cells : list rcell) 
         (rs : cstyle) (rows : list rrow) (nc : N) (st : cstyle),
       insert_child frag (RN (ITable (RRow (RCell n k s :: cells) rs :: rows) nc) st) true =
       RN (ITable (RRow (RCell n (frag :: k) s :: cells) rs :: rows) nc) st.
Proof. exact FragTables.insert_child_table_first_cell. Qed.
Print Assumptions insert_child_table_first_cell.

Theorem insert_child_row_first_cell :
  forall (frag : rnode) (n : N) (k : list rnode) (s : cstyle) (cells : list rcell) (rs st : cstyle),
       insert_child frag (RN (ITableRow (RRow (RCell n k s :: cells) rs)) st) true =
       RN (ITableRow (RRow (RCell n (frag :: k) s :: cells) rs)) st.
Proof. exact FragTables.insert_child_row_first_cell. Qed.
Print Assumptions insert_child_row_first_cell.


(* ---------- markers never change the text (Proofs/MarkerErase.v): the tree with all fragment markers erased renders to the same strings and borders, same outcome (overflow off; marker_clean = no marker directly below ol/ul, none next to the sole digits text of a sup - each side condition has a counterexample confirmed on the implementation) ---------- *)
From H2T Require Import Base Tagged Wrap Sub Css Dom Render Api CssParse Proofs.CssTotal Proofs.WrapInv Proofs.RenderWidth Proofs.Conserve Proofs.Footnotes Proofs.AnnBalance Proofs.RenderConserve Proofs.OptionRel Proofs.Compose Proofs.RenderTotal Proofs.FragStream Proofs.SimRel Proofs.Prune Proofs.FragTables Proofs.MarkerErase.
Theorem c14_erase_strings :
  forall (d : deco) (mw : N) (o : ropts) (width : N) (n : rnode),
       marker_clean n = true ->
       o_allow_overflow o = false ->
       res_rel
         (fun s s' : subr =>
          res_rel same_text (sub_into_lines s) (sub_into_lines s') /\ sub_into_string s = sub_into_string s')
         (render_tree d mw o width n) (render_tree d mw o width (FragTables.erase n)).
Proof. exact MarkerErase.c14_erase_strings. Qed.
Print Assumptions c14_erase_strings.

Theorem erase_render_tree :
  forall (d : deco) (mw : N) (o : ropts) (width : N) (n : rnode),
       marker_clean n = true ->
       o_allow_overflow o = false ->
       rss SR (render_tree d mw o width n) (render_tree d mw o width (FragTables.erase n)).
Proof. exact MarkerErase.erase_render_tree. Qed.
Print Assumptions erase_render_tree.

Theorem c14_erase_string_route :
  forall (c : config) (tree : rnode) (w : N),
       marker_clean tree = true ->
       c_overflow c = false ->
       (do s <- render_with_context c tree w; sub_into_string s) =
       (do s <- render_with_context c (FragTables.erase tree) w; sub_into_string s).
Proof. exact MarkerErase.c14_erase_string_route. Qed.
Print Assumptions c14_erase_string_route.

Theorem c14_erase_string_from_read :
  forall (inl : list (text * text) -> res (list styledecl)) (dr : list node -> res (list ruleset))
         (c : config) (doc : list node) (w : N) (tree : rnode),
       to_render_tree inl dr c doc = Ok tree ->
       marker_clean tree = true ->
       c_overflow c = false ->
       string_from_read inl dr c doc w =
       (do s <- render_with_context c (FragTables.erase tree) w; sub_into_string s).
Proof. exact MarkerErase.c14_erase_string_from_read. Qed.
Print Assumptions c14_erase_string_from_read.

Theorem c14_erase_lines_from_read :
  forall (inl : list (text * text) -> res (list styledecl)) (dr : list node -> res (list ruleset))
         (c : config) (doc : list node) (w : N) (tree : rnode),
       to_render_tree inl dr c doc = Ok tree ->
       marker_clean tree = true ->
       c_overflow c = false ->
       res_rel (fun ls ls' : list tline => map tl_string ls = map tl_string ls')
         (lines_from_read inl dr c doc w)
         (do s <- render_with_context c (FragTables.erase tree) w;
          do ls <- sub_into_lines s; Ok (map rline_into_tagged ls)).
Proof. exact MarkerErase.c14_erase_lines_from_read. Qed.
Print Assumptions c14_erase_lines_from_read.

Theorem c14_erase_strings_overflow :
  forall (d : deco) (mw : N) (o : ropts) (width : N) (n : rnode) (s : subr) (ls : list rline),
       marker_clean n = true ->
       o_allow_overflow o = false ->
       render_tree d mw o width n = Ok s ->
       sub_into_lines s = Ok ls ->
       exists (s1 s2 : subr) (ls2 : list rline),
         render_tree d mw (with_overflow o) width n = Ok s1 /\
         sub_into_lines s1 = Ok ls /\
         render_tree d mw (with_overflow o) width (FragTables.erase n) = Ok s2 /\
         sub_into_lines s2 = Ok ls2 /\ same_text ls ls2.
Proof. exact MarkerErase.c14_erase_strings_overflow. Qed.
Print Assumptions c14_erase_strings_overflow.

