From H2T Require Import Base Tagged Wrap Sub Css Dom Render Api Proofs.Small.
(* Props/C14.v -- fragment markers never carry width and never change the text. *)
Theorem c14_marker_inert : forall l n,
  tl_width_raw (tl_push l (Frag n)) = tl_width_raw l /\
  tl_string (tl_push l (Frag n)) = tl_string l /\
  tlen_ (tl_push l (Frag n)) = tlen_ l.
Proof. exact frag_no_width. Qed.
Print Assumptions c14_marker_inert.

From H2T Require Import Proofs.Conserve.
(* markers are never lost, duplicated or reordered by adding text - in particular not when
   their word is hard-wrapped or moved to a new line - and keep their position in the
   stream of document characters *)
Theorem c14_stream_add_text : forall b s m t1 t2 b',
  wb_add_text b s m t1 t2 = Ok b' -> stream b' = stream b ++ map inr (kept s).
Proof. exact Conserve.c14_stream_add_text. Qed.
Print Assumptions c14_stream_add_text.
Theorem c14_stream_add_frag : forall b n, stream (wb_add_element b (Frag n)) = stream b ++ [inl n].
Proof. exact Conserve.c14_stream_add_frag. Qed.
Print Assumptions c14_stream_add_frag.
Theorem c14_flush_keeps_frags : forall b b', wb_flush b = Ok b' -> frags b' = frags b.
Proof. exact Conserve.c14_flush_keeps_frags. Qed.
Print Assumptions c14_flush_keeps_frags.

(* ---------- tree level (Proofs/FragStream.v): the combined stream of document characters and markers ----------
   mstream_tree = every marker and character of the tree in document order; mstream_min = the same minus the markers that trail
   the content of a nested block (those may be dropped: their elements have no visible content behind them);
   msub a b = a is b with only markers deleted.  The first four statements carry the hypothesis "overflow off" from the time when a
   marker behind a character wider than the block was lost with overflow on; both shapes of that defect are repaired (Examples
   marker_kept_after_overflowing_char, marker_kept_after_overflowing_char_and_space) and the *_any_overflow theorems below hold
   without the hypothesis. *)
From H2T Require Import Sub Dom Render Api Proofs.Conserve Proofs.WrapInv Proofs.RenderWidth Proofs.Footnotes Proofs.RenderConserve Proofs.FragStream.
Theorem c14_render_node_no_table :
  forall (d : deco) (mw : N) (n : rnode) (st st' : rstate) (s : subr) (rest : list subr),
       prefix_made d ->
       no_table n = true ->
       stack st = s :: rest ->
       J s ->
       render_node d mw n st = Ok st' ->
       exists (s' : subr) (t : list sitem),
         stack st' = s' :: rest /\
         J s' /\ mstream_out s' = mstream_out s ++ t /\ msub (mstream_min d n) t /\ msub t (mstream_tree d n).
Proof. exact FragStream.c14_render_node_no_table. Qed.
Print Assumptions c14_render_node_no_table.

Theorem c14_render_tree_no_table :
  forall (d : deco) (mw : N) (o : ropts) (width : N) (tree : rnode) (s : subr),
       prefix_made d ->
       o_allow_overflow o = false ->
       no_table tree = true ->
       render_tree d mw o width tree = Ok s ->
       btw (mstream_min d tree) (mstream_out s) (mstream_tree d tree) /\
       (forall ls : list rline,
        sub_into_lines s = Ok ls -> btw (strip (mstream_min d tree)) (mlines ls) (mstream_tree d tree)).
Proof. exact FragStream.c14_render_tree_no_table. Qed.
Print Assumptions c14_render_tree_no_table.

Theorem c14_lines_from_read :
  forall (ist : list (text * text) -> res (list styledecl)) (dr : list node -> res (list ruleset))
         (c : config) (doc : list node) (width : N) (tree : rnode) (tls : list tline),
       prefix_made (c_deco c) ->
       c_overflow c = false ->
       to_render_tree ist dr c doc = Ok tree ->
       no_table tree = true ->
       lines_from_read ist dr c doc width = Ok tls ->
       btw (strip (mstream_min (c_deco c) tree)) (flat_map mline tls) (mstream_tree (c_deco c) tree).
Proof. exact FragStream.c14_lines_from_read. Qed.
Print Assumptions c14_lines_from_read.

Theorem c14_markers :
  forall (ist : list (text * text) -> res (list styledecl)) (dr : list node -> res (list ruleset))
         (c : config) (doc : list node) (width : N) (tree : rnode) (tls : list tline),
       prefix_made (c_deco c) ->
       c_overflow c = false ->
       to_render_tree ist dr c doc = Ok tree ->
       no_table tree = true ->
       lines_from_read ist dr c doc width = Ok tls ->
       let O := flat_map mline tls in
       let T := mstream_tree (c_deco c) tree in
       let M := strip (mstream_min (c_deco c) tree) in
       projr O = projr T /\
       (forall (a : list (text + chr)) (name : text) (b : list (text + chr)),
        O = a ++ inl name :: b ->
        exists a' b' : list (text + chr),
          T = a' ++ inl name :: b' /\ projr a' = projr a /\ projr b' = projr b) /\
       (forall (a : list (text + chr)) (name : text) (b : list (text + chr)),
        M = a ++ inl name :: b ->
        exists a' b' : list (text + chr),
          O = a' ++ inl name :: b' /\ projr a' = projr a /\ projr b' = projr b) /\
       (NoDup (projl T) -> NoDup (projl O)).
Proof. exact FragStream.c14_markers. Qed.
Print Assumptions c14_markers.

Theorem mstream_tree_chars :
  forall (d : deco) (n : rnode), no_table n = true -> projr (mstream_tree d n) = doc_stream d n.
Proof. exact FragStream.mstream_tree_chars. Qed.
Print Assumptions mstream_tree_chars.


(* ---------- DOM level (Proofs/DomRel.v): every element with a fragment name and visible content has its marker in the output stream,
   directly in front of its own characters (table-free documents, overflow off) ---------- *)
From H2T Require Import Sub Css Dom Render Api CssParse Proofs.WrapInv Proofs.RenderWidth Proofs.Conserve Proofs.Footnotes Proofs.RenderConserve Proofs.OptionRel Proofs.Compose Proofs.FragStream Proofs.SimRel Proofs.Prune Proofs.DomRel.
Theorem c14_dom_tree :
  forall (inline_styles : list (text * text) -> res (list styledecl))
         (doc_rules : list node -> res (list ruleset)) (c : config) (doc : list node) 
         (tree : rnode),
       deco_made (c_deco c) ->
       dom_regular doc = true ->
       dom_ntab doc = true ->
       doc_plain inline_styles doc_rules c doc = true ->
       to_render_tree inline_styles doc_rules c doc = Ok tree ->
       no_table tree = true /\
       msub (dom_live doc) (FragStream.strip (mstream_min (c_deco c) tree)) /\
       msub (mstream_tree (c_deco c) tree) (dom_all doc).
Proof. exact DomRel.c14_dom_tree. Qed.
Print Assumptions c14_dom_tree.

Theorem c14_dom_lines :
  forall (inline_styles : list (text * text) -> res (list styledecl))
         (doc_rules : list node -> res (list ruleset)) (c : config) (doc : list node) 
         (width : N) (tls : list tline),
       deco_made (c_deco c) ->
       c_overflow c = false ->
       dom_regular doc = true ->
       dom_ntab doc = true ->
       doc_plain inline_styles doc_rules c doc = true ->
       lines_from_read inline_styles doc_rules c doc width = Ok tls ->
       btw (dom_live doc) (flat_map mline tls) (dom_all doc).
Proof. exact DomRel.c14_dom_lines. Qed.
Print Assumptions c14_dom_lines.

Theorem c14_dom_markers :
  forall (inline_styles : list (text * text) -> res (list styledecl))
         (doc_rules : list node -> res (list ruleset)) (c : config) (doc : list node) 
         (width : N) (tls : list tline),
       deco_made (c_deco c) ->
       c_overflow c = false ->
       dom_regular doc = true ->
       dom_ntab doc = true ->
       doc_plain inline_styles doc_rules c doc = true ->
       lines_from_read inline_styles doc_rules c doc width = Ok tls ->
       let O := flat_map mline tls in
       projr O = dom_visible doc /\
       (forall (a : list (text + chr)) (name : text) (b : list (text + chr)),
        O = a ++ inl name :: b ->
        exists a' b' : list (text + chr),
          dom_all doc = a' ++ inl name :: b' /\ projr a' = projr a /\ projr b' = projr b) /\
       (forall (a : list (text + chr)) (name : text) (b : list (text + chr)),
        dom_live doc = a ++ inl name :: b ->
        exists a' b' : list (text + chr),
          O = a' ++ inl name :: b' /\ projr a' = projr a /\ projr b' = projr b) /\
       (NoDup (projl (dom_all doc)) -> NoDup (projl O)).
Proof. exact DomRel.c14_dom_markers. Qed.
Print Assumptions c14_dom_markers.

Theorem dml_marker :
  forall (html : bool) (name : text) (attrs : list (text * text)) (kids : list node) (f : text),
       frag_name html name attrs = Some f ->
       dom_vis (NElem html name attrs kids) <> [] ->
       exists body : list (text + chr),
         dml (NElem html name attrs kids) = inl f :: body /\
         projr body = dom_vis (NElem html name attrs kids).
Proof. exact DomRel.dml_marker. Qed.
Print Assumptions dml_marker.


(* ---------- the same without the overflow hypothesis (after fixes 1b6641a and 93cbb49) ---------- *)
From H2T Require Import Sub Css Dom Render Api CssParse Proofs.WrapInv Proofs.RenderWidth Proofs.Conserve Proofs.Footnotes Proofs.RenderConserve Proofs.OptionRel Proofs.Compose Proofs.FragStream Proofs.SimRel Proofs.Prune Proofs.DomRel.
Theorem c14_render_tree_no_table_any_overflow :
  forall (d : deco) (mw : N) (o : ropts) (width : N) (tree : rnode) (s : subr),
       prefix_made d ->
       no_table tree = true ->
       render_tree d mw o width tree = Ok s ->
       btw (mstream_min d tree) (mstream_out s) (mstream_tree d tree) /\
       (forall ls : list rline,
        sub_into_lines s = Ok ls -> btw (FragStream.strip (mstream_min d tree)) (mlines ls) (mstream_tree d tree)).
Proof. exact FragStream.c14_render_tree_no_table_any_overflow. Qed.
Print Assumptions c14_render_tree_no_table_any_overflow.

Theorem c14_lines_from_read_any_overflow :
  forall (ist : list (text * text) -> res (list styledecl)) (dr : list node -> res (list ruleset))
         (c : config) (doc : list node) (width : N) (tree : rnode) (tls : list tline),
       prefix_made (c_deco c) ->
       to_render_tree ist dr c doc = Ok tree ->
       no_table tree = true ->
       lines_from_read ist dr c doc width = Ok tls ->
       btw (FragStream.strip (mstream_min (c_deco c) tree)) (flat_map mline tls) (mstream_tree (c_deco c) tree).
Proof. exact FragStream.c14_lines_from_read_any_overflow. Qed.
Print Assumptions c14_lines_from_read_any_overflow.

Theorem c14_markers_any_overflow :
  forall (ist : list (text * text) -> res (list styledecl)) (dr : list node -> res (list ruleset))
         (c : config) (doc : list node) (width : N) (tree : rnode) (tls : list tline),
       prefix_made (c_deco c) ->
       to_render_tree ist dr c doc = Ok tree ->
       no_table tree = true ->
       lines_from_read ist dr c doc width = Ok tls ->
       let O := flat_map mline tls in
       let T := mstream_tree (c_deco c) tree in
       let M := FragStream.strip (mstream_min (c_deco c) tree) in
       projr O = projr T /\
       (forall (a : list (text + chr)) (name : text) (b : list (text + chr)),
        O = a ++ inl name :: b ->
        exists a' b' : list (text + chr),
          T = a' ++ inl name :: b' /\ projr a' = projr a /\ projr b' = projr b) /\
       (forall (a : list (text + chr)) (name : text) (b : list (text + chr)),
        M = a ++ inl name :: b ->
        exists a' b' : list (text + chr),
          O = a' ++ inl name :: b' /\ projr a' = projr a /\ projr b' = projr b) /\
       (NoDup (projl T) -> NoDup (projl O)).
Proof. exact FragStream.c14_markers_any_overflow. Qed.
Print Assumptions c14_markers_any_overflow.

Theorem c14_dom_lines_any_overflow :
  forall (inline_styles : list (text * text) -> res (list styledecl))
         (doc_rules : list node -> res (list ruleset)) (c : config) (doc : list node) 
         (width : N) (tls : list tline),
       deco_made (c_deco c) ->
       dom_regular doc = true ->
       dom_ntab doc = true ->
       doc_plain inline_styles doc_rules c doc = true ->
       lines_from_read inline_styles doc_rules c doc width = Ok tls ->
       btw (dom_live doc) (flat_map mline tls) (dom_all doc).
Proof. exact DomRel.c14_dom_lines_any_overflow. Qed.
Print Assumptions c14_dom_lines_any_overflow.

Theorem c14_dom_markers_any_overflow :
  forall (inline_styles : list (text * text) -> res (list styledecl))
         (doc_rules : list node -> res (list ruleset)) (c : config) (doc : list node) 
         (width : N) (tls : list tline),
       deco_made (c_deco c) ->
       dom_regular doc = true ->
       dom_ntab doc = true ->
       doc_plain inline_styles doc_rules c doc = true ->
       lines_from_read inline_styles doc_rules c doc width = Ok tls ->
       let O := flat_map mline tls in
       projr O = dom_visible doc /\
       (forall (a : list (text + chr)) (name : text) (b : list (text + chr)),
        O = a ++ inl name :: b ->
        exists a' b' : list (text + chr),
          dom_all doc = a' ++ inl name :: b' /\ projr a' = projr a /\ projr b' = projr b) /\
       (forall (a : list (text + chr)) (name : text) (b : list (text + chr)),
        dom_live doc = a ++ inl name :: b ->
        exists a' b' : list (text + chr),
          O = a' ++ inl name :: b' /\ projr a' = projr a /\ projr b' = projr b) /\
       (NoDup (projl (dom_all doc)) -> NoDup (projl O)).
Proof. exact DomRel.c14_dom_markers_any_overflow. Qed.
Print Assumptions c14_dom_markers_any_overflow.

