From H2T Require Import Base Tagged Wrap Sub Css Dom Render Api Proofs.Small.
(* Props/C15.v -- options (model level): a maximum wrap width at least the width gives the
   same wrapping width as no maximum. *)
Theorem c15_maxwrap_noop : forall s m o,
  wrapping s = None -> sopts s = o -> 1 <= swidth_ s -> swidth_ s <= m ->
  wrap_width o = Some m ->
  wwidth (get_wrapping s) = swidth_ s.
Proof. exact get_wrapping_maxwrap_noop. Qed.
Print Assumptions c15_maxwrap_noop.

From H2T Require Import Proofs.WrapInv Proofs.OptionRel.
(* WrappedBlock layer: padding only appends trailing spaces (the same lines, each extended
   with made spaces to the block width; same outcome kind) *)
Theorem c15_pad_only_trailing_spaces : forall W cs, 1 <= W ->
  match run W false false cs, run W true false cs with
  | Ok ls, Ok lsp => Forall2 (is_pad_of W) lsp ls
  | TooNarrow, TooNarrow => True
  | _, _ => False
  end.
Proof. exact OptionRel.c15_pad_only_trailing_spaces. Qed.
Print Assumptions c15_pad_only_trailing_spaces.
Theorem c15_same_line_count : forall W ovf cs ls lsp, 1 <= W ->
  run W false ovf cs = Ok ls -> run W true ovf cs = Ok lsp -> length lsp = length ls.
Proof. exact OptionRel.c15_same_line_count. Qed.
Print Assumptions c15_same_line_count.
